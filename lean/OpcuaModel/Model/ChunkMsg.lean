import OpcuaModel.Model.ChunkLemmas
/-
  Message-level lemmas of the chunk model: structure of the raw chunks that
  `encodeChunks` produces, what `readChunk` extracts from a secured chunk, the
  send loop, the receive loop and `mergeChunks`.
-/
namespace Opcua.Chunk
open Opcua

theorem len3 {l : Bytes} (h : l.length = 3) : ∃ a b c, l = [a, b, c] := by
  match l, h with
  | [a, b, c], _ => exact ⟨a, b, c, rfl⟩

theorem u32_eq (v : Nat) : u32 v = [UInt8.ofNat (v % 256), UInt8.ofNat (v / 256 % 256),
    UInt8.ofNat (v / 256 / 256 % 256), UInt8.ofNat (v / 256 / 256 / 256 % 256)] := by
  simp [u32, leBytes]

/-- raw chunk as the send loop hands it to `signAndEncrypt`: the 24 header bytes
    with sequence number `s`, then the body piece -/
def rawOf (h : MsgHdr) (flag : UInt8) (s : Nat) (piece : Bytes) : Bytes :=
  hdr24 { h with seq := s } flag (24 + piece.length) ++ piece

theorem hdr24_length (h : MsgHdr) (f : UInt8) (sz : Nat) (hmt : h.msgType.length = 3) :
    (hdr24 h f sz).length = 24 := by
  simp [hdr24, hmt]

theorem putU32_seq (h : MsgHdr) (f : UInt8) (sz s : Nat) (p : Bytes) (hmt : h.msgType.length = 3) :
    putU32 (hdr24 h f sz ++ p) 16 s = hdr24 { h with seq := s } f sz ++ p := by
  obtain ⟨a, b, c, hm⟩ := len3 hmt
  simp [putU32, hdr24, hm, u32_eq]

/-- the 16 header bytes in front of the secured part, with the final size -/
def wireHdr (h : MsgHdr) (f : UInt8) (v : Nat) : Bytes :=
  h.msgType ++ [f] ++ u32 v ++ u32 h.channelID ++ u32 h.tokenID

theorem putU32_size (h : MsgHdr) (f : UInt8) (sz v : Nat) (p : Bytes) (hmt : h.msgType.length = 3) :
    putU32 ((hdr24 h f sz ++ p).take 16) 4 v = wireHdr h f v := by
  obtain ⟨a, b, c, hm⟩ := len3 hmt
  simp [putU32, hdr24, wireHdr, hm, u32_eq]

theorem drop16 (h : MsgHdr) (f : UInt8) (sz : Nat) (p : Bytes) (hmt : h.msgType.length = 3) :
    (hdr24 h f sz ++ p).drop 16 = u32 h.seq ++ u32 h.requestID ++ p := by
  obtain ⟨a, b, c, hm⟩ := len3 hmt
  simp [hdr24, hm, u32_eq]

theorem wireHdr_fields (h : MsgHdr) (f : UInt8) (v : Nat) (q : Bytes) (hmt : h.msgType.length = 3) :
    (wireHdr h f v ++ q).take 3 = h.msgType ∧ ((wireHdr h f v ++ q).drop 3).headD 0 = f ∧
    u32At (wireHdr h f v ++ q) 4 = v % 4294967296 ∧ u32At (wireHdr h f v ++ q) 8 = h.channelID % 4294967296 ∧
    (wireHdr h f v).length = 16 := by
  obtain ⟨a, b, c, hm⟩ := len3 hmt
  refine ⟨?_, ?_, ?_, ?_, ?_⟩
  · simp [wireHdr, hm]
  · simp [wireHdr, hm]
  · simp only [wireHdr, hm, u32_eq, u32At]; simp [leVal, UInt8.toNat_ofNat']; omega
  · simp only [wireHdr, hm, u32_eq, u32At]; simp [leVal, UInt8.toNat_ofNat']; omega
  · simp [wireHdr, hm]

theorem seqHdr_fields (s r : Nat) (p : Bytes) :
    u32At (u32 s ++ u32 r ++ p) 0 = s % 4294967296 ∧ u32At (u32 s ++ u32 r ++ p) 4 = r % 4294967296 ∧
    (u32 s ++ u32 r ++ p).drop 8 = p ∧ (u32 s ++ u32 r ++ p).length = 8 + p.length := by
  refine ⟨?_, ?_, ?_, ?_⟩
  · simp only [u32_eq, u32At]; simp [leVal, UInt8.toNat_ofNat']; omega
  · simp only [u32_eq, u32At]; simp [leVal, UInt8.toNat_ofNat']; omega
  · simp [u32_eq]
  · simp [u32_eq]; omega
theorem rawOf_eq (h : MsgHdr) (f : UInt8) (s : Nat) (p : Bytes) :
    rawOf h f s p = wireHdr h f (24 + p.length) ++ (u32 s ++ u32 h.requestID ++ p) := by
  simp [rawOf, hdr24, wireHdr, List.append_assoc]

/-- total length of the secured chunk for `n` bytes after the security header -/
def chunkLen (S : Side) (n : Nat) : Nat := 16 + (if S.mode = .none then n else tailLen S false n)

/-- what the receiver decodes from a secured chunk -/
def expChunk (h : MsgHdr) (f : UInt8) (s : Nat) (p : Bytes) : RChunk :=
  { chunkType := f, channelID := h.channelID, seq := s, requestID := h.requestID, data := p }

theorem chunk_roundtrip {S R : Side} (hp : Paired S R) (insts : Nat → List Side) (h : MsgHdr)
    (hmt : h.msgType = typeMSG) (hc : h.channelID < 4294967296) (hr : h.requestID < 4294967296)
    (hi : ∃ rest, (insts h.channelID).reverse = R :: rest) (f : UInt8) (s : Nat) (hs : s < 4294967296)
    (p : Bytes) :
    ∃ w, signAndEncrypt S false 16 (rawOf h f s p) = .ok w ∧
      readChunk insts w = .ok (some (expChunk h f s p)) ∧
      w.length = chunkLen S (8 + p.length) ∧
      u32At w 4 = w.length % 4294967296 ∧
      (w.drop 3).head? = some f := by
  have hmt3 : h.msgType.length = 3 := by rw [hmt]; rfl
  have hmt3' : ({ h with seq := s } : MsgHdr).msgType.length = 3 := hmt3
  obtain ⟨rest, hi⟩ := hi
  -- in every mode the wire chunk is `wireHdr h f (16 + |q|) ++ q` and the receiver gets `data` back
  have key : ∃ q, signAndEncrypt S false 16 (rawOf h f s p) = .ok (wireHdr h f (16 + q.length) ++ q) ∧
      verifyAndDecrypt R false 16 (wireHdr h f (16 + q.length) ++ q) = .ok (u32 s ++ u32 h.requestID ++ p) ∧
      16 + q.length = chunkLen S (8 + p.length) := by
    by_cases hm : S.mode = .none
    · refine ⟨u32 s ++ u32 h.requestID ++ p, ?_, ?_, ?_⟩
      · simp only [signAndEncrypt, hm, if_true]
        rw [rawOf_eq]; congr 3; simp; omega
      · have hw := (wireHdr_fields h f (16 + (u32 s ++ u32 h.requestID ++ p).length) (u32 s ++ u32 h.requestID ++ p) hmt3).2.2.2.2
        simp only [verifyAndDecrypt, hp.mode, hm, true_and, Or.inr, if_true]
        rw [List.drop_left' hw]
      · simp [chunkLen, hm]; omega
    · have hlen : (rawOf h f s p).length = 24 + p.length := by
        simp [rawOf, hdr24_length _ _ _ hmt3']
      obtain ⟨q, hq, hsec, hver⟩ := secure_roundtrip hp false 16 (by omega) (rawOf h f s p) (by omega) hm
      have e1 : putU32 ((rawOf h f s p).take 16) 4 (16 + q.length) = wireHdr h f (16 + q.length) := by
        have := putU32_size { h with seq := s } f (24 + p.length) (16 + q.length) p hmt3'
        simpa [rawOf, wireHdr] using this
      have e2 : (rawOf h f s p).drop 16 = u32 s ++ u32 h.requestID ++ p := by
        have := drop16 { h with seq := s } f (24 + p.length) p hmt3'
        simpa [rawOf] using this
      rw [e1] at hsec hver
      rw [e2] at hver
      refine ⟨q, hsec, hver, ?_⟩
      rw [hq, hlen]; simp only [chunkLen, if_neg hm]; congr 2; omega
  obtain ⟨q, hsec, hver, hl⟩ := key
  obtain ⟨f1, f2, f3, f4, f5⟩ := wireHdr_fields h f (16 + q.length) q hmt3
  obtain ⟨g1, g2, g3, g4⟩ := seqHdr_fields s h.requestID p
  refine ⟨_, hsec, ?_, ?_, ?_, ?_⟩
  · simp only [readChunk]
    rw [if_neg (by simp only [List.length_append, f5]; omega)]
    rw [f1, hmt, if_neg (by decide), if_neg (by simp), f4, Nat.mod_eq_of_lt hc, hi]
    simp only [tryInstances, hver]
    rw [if_neg (by omega), f2, g1, g2, g3, Nat.mod_eq_of_lt hs, Nat.mod_eq_of_lt hr]
    rfl
  · simp only [List.length_append, f5]; exact hl
  · rw [f3]; simp only [List.length_append, f5]
  · have := f2
    obtain ⟨a, b, c, hm⟩ := len3 hmt3
    simp [wireHdr, hm]
/-! ### the body pieces -/

/-- `n` pieces of `mb` bytes and the rest -/
def pieces (mb : Nat) : Nat → Bytes → List Bytes × Bytes
  | 0, b => ([], b)
  | n + 1, b => (b.take mb :: (pieces mb n (b.drop mb)).1, (pieces mb n (b.drop mb)).2)

theorem pieces_flatten (mb n : Nat) (b : Bytes) : (pieces mb n b).1.flatten ++ (pieces mb n b).2 = b := by
  induction n generalizing b with
  | zero => simp [pieces]
  | succ n ih =>
    simp only [pieces, List.flatten_cons, List.append_assoc, ih]
    exact List.take_append_drop mb b

theorem pieces_length (mb n : Nat) (b : Bytes) : (pieces mb n b).1.length = n := by
  induction n generalizing b with
  | zero => simp [pieces]
  | succ n ih => simp [pieces, ih]

theorem pieces_rest (mb n : Nat) (b : Bytes) : (pieces mb n b).2 = b.drop (n * mb) := by
  induction n generalizing b with
  | zero => simp [pieces]
  | succ n ih => simp only [pieces, ih, List.drop_drop]; congr 1; rw [Nat.succ_mul]; omega

theorem pieces_each (mb n : Nat) (b : Bytes) (h : n * mb ≤ b.length) :
    ∀ p ∈ (pieces mb n b).1, p.length = mb := by
  induction n generalizing b with
  | zero => simp [pieces]
  | succ n ih =>
    rw [Nat.succ_mul] at h
    intro p hp
    simp only [pieces, List.mem_cons] at hp
    rcases hp with rfl | hp
    · simp [List.length_take]; omega
    · exact ih (b.drop mb) (by simp [List.length_drop]; omega) p hp

theorem encodeLoop_eq (h : MsgHdr) (mb n : Nat) (b : Bytes) (hb : n * mb ≤ b.length) :
    encodeLoop h mb n b = ((pieces mb n b).1.map (rawOf h chunkC h.seq), (pieces mb n b).2) := by
  induction n generalizing b with
  | zero => simp [encodeLoop, pieces]
  | succ n ih =>
    rw [Nat.succ_mul] at hb
    have hl : (b.take mb).length = mb := by simp [List.length_take]; omega
    simp only [encodeLoop, pieces, List.map_cons, ih (b.drop mb) (by simp [List.length_drop]; omega)]
    congr 2
    simp only [rawOf, hl]
    rw [Nat.add_comm 24 mb]

/-- the items (`flag`, piece) of a message body -/
def items (mb : Nat) (body : Bytes) : List (UInt8 × Bytes) :=
  (pieces mb (body.length / mb) body).1.map (fun p => (chunkC, p)) ++ [(chunkF, (pieces mb (body.length / mb) body).2)]

theorem encodeChunks_eq (maxBody : Nat) (hmb : 0 < maxBody) (h : MsgHdr) (body : Bytes)
    (hb : body.length < 4294967296) :
    encodeChunks maxBody h body = (items maxBody body).map (fun i => rawOf h i.1 h.seq i.2) := by
  have hle : body.length / maxBody * maxBody ≤ body.length := Nat.div_mul_le_self _ _
  simp only [encodeChunks, if_neg (Nat.pos_iff_ne_zero.mp hmb), Nat.mod_eq_of_lt hb, Nat.add_sub_cancel,
    encodeLoop_eq h maxBody _ body hle, items, List.map_append, List.map_map, List.map_cons, List.map_nil]
  congr 1

/-! ### sequence numbers -/

/-- `instance.sequenceNumber` is a `uint32` -/
def SeqInv (seq : Int) : Prop := 0 ≤ seq ∧ seq < 4294967296

/-- `nextSequenceNumber` stays a `uint32` and never returns the number it started from -/
theorem next_inv (seq : Int) (h : SeqInv seq) :
    SeqInv (Gen.nextSequenceNumber seq).1 ∧ (Gen.nextSequenceNumber seq).2 = (Gen.nextSequenceNumber seq).1 ∧
    (Gen.nextSequenceNumber seq).1 ≠ seq := by
  obtain ⟨h0, h1⟩ := h
  simp only [Gen.nextSequenceNumber, SeqInv]
  have e0 : 0 ≤ (seq + 1) % 4294967296 := Int.emod_nonneg _ (by omega)
  have e1 : (seq + 1) % 4294967296 < 4294967296 := Int.emod_lt_of_pos _ (by omega)
  have e2 : (seq + 1) % 4294967296 = seq + 1 ∨ ((seq + 1) % 4294967296 = 0 ∧ seq = 4294967295) := by omega
  by_cases hc : (seq + 1) % 4294967296 > 4294967295 - 1023
  · simp [hc]; omega
  · simp [hc]; omega

theorem next_range (seq : Int) : 0 ≤ (Gen.nextSequenceNumber seq).2 ∧ (Gen.nextSequenceNumber seq).2 < 4294967296 := by
  simp only [Gen.nextSequenceNumber]
  have h1 : 0 ≤ (seq + 1) % 4294967296 := Int.emod_nonneg _ (by omega)
  have h2 : (seq + 1) % 4294967296 < 4294967296 := Int.emod_lt_of_pos _ (by omega)
  split <;> (try simp) <;> omega

/-- the chunks the receiver should decode: the items stamped with the sequence
    numbers the sender draws, one per chunk -/
def stamped (h : MsgHdr) : Int → List (UInt8 × Bytes) → List RChunk
  | _, [] => []
  | seq, i :: r =>
    expChunk h i.1 (Gen.nextSequenceNumber seq).2.toNat i.2 :: stamped h (Gen.nextSequenceNumber seq).1 r

def seqAfter : Int → Nat → Int
  | seq, 0 => seq
  | seq, k + 1 => seqAfter (Gen.nextSequenceNumber seq).1 k

theorem seqAfter_inv (seq : Int) (k : Nat) (h : SeqInv seq) : SeqInv (seqAfter seq k) := by
  induction k generalizing seq with
  | zero => exact h
  | succ k ih => exact ih _ (next_inv seq h).1

/-! ### the send loop -/

/-- per-chunk facts relating a wire chunk to the chunk the receiver decodes -/
def WireOK (insts : Nat → List Side) (S : Side) (w : Bytes) (c : RChunk) : Prop :=
  readChunk insts w = .ok (some c) ∧ w.length = chunkLen S (8 + c.data.length) ∧
  u32At w 4 = w.length % 4294967296 ∧ (w.drop 3).head? = some c.chunkType

inductive Wires (insts : Nat → List Side) (S : Side) : List Bytes → List RChunk → Prop
  | nil : Wires insts S [] []
  | cons {w c ws cs} : WireOK insts S w c → Wires insts S ws cs → Wires insts S (w :: ws) (c :: cs)

theorem sendLoop_false {S R : Side} (hp : Paired S R) (insts : Nat → List Side) (h : MsgHdr)
    (hmt : h.msgType = typeMSG) (hc : h.channelID < 4294967296) (hr : h.requestID < 4294967296)
    (hi : ∃ rest, (insts h.channelID).reverse = R :: rest) (seq : Int) (its : List (UInt8 × Bytes)) :
    ∃ ws, sendLoop S seq false (its.map (fun i => rawOf h i.1 h.seq i.2)) = (seqAfter seq its.length, .ok ws) ∧
      Wires insts S ws (stamped h seq its) := by
  induction its generalizing seq with
  | nil => exact ⟨[], by simp [sendLoop, seqAfter], .nil⟩
  | cons i r ih =>
    have hmt3 : h.msgType.length = 3 := by rw [hmt]; rfl
    obtain ⟨n0, n1⟩ := next_range seq
    obtain ⟨w, hw, hrd, hlen, hsz, hfl⟩ := chunk_roundtrip hp insts h hmt hc hr hi i.1
      (Gen.nextSequenceNumber seq).2.toNat (by omega) i.2
    obtain ⟨ws, hws, hW⟩ := ih (Gen.nextSequenceNumber seq).1
    refine ⟨w :: ws, ?_, .cons ⟨hrd, hlen, hsz, hfl⟩ hW⟩
    simp only [List.map_cons, sendLoop, Bool.false_eq_true, if_false]
    rw [show putU32 (rawOf h i.1 h.seq i.2) 16 (Gen.nextSequenceNumber seq).2.toNat =
        rawOf h i.1 (Gen.nextSequenceNumber seq).2.toNat i.2 by
      simp only [rawOf]; rw [putU32_seq _ _ _ _ _ hmt3]]
    rw [hw]
    simp only [hws, List.length_cons, seqAfter]

theorem sendMessage_ok {S R : Side} (hp : Paired S R) (insts : Nat → List Side) (maxBody : Nat) (hmb : 0 < maxBody)
    (chan tok req : Nat) (hc : chan < 4294967296) (hr : req < 4294967296)
    (hi : ∃ rest, (insts chan).reverse = R :: rest) (seq : Int) (body : Bytes) (hb : body.length < 4294967296) :
    ∃ ws, sendMessage S maxBody seq typeMSG chan tok req body =
        (seqAfter seq (items maxBody body).length, .ok ws) ∧
      Wires insts S ws (stamped ⟨typeMSG, chan, tok, 0, req⟩ seq (items maxBody body)) := by
  obtain ⟨n0, n1⟩ := next_range seq
  simp only [sendMessage]
  rw [encodeChunks_eq maxBody hmb _ body hb]
  -- the first chunk is not patched: it already carries the number `newMessage` drew
  rcases hits : items maxBody body with _ | ⟨i, r⟩
  · simp [items] at hits
  ·
    obtain ⟨w, hw, hrd, hlen, hsz, hfl⟩ := chunk_roundtrip hp insts ⟨typeMSG, chan, tok, 0, req⟩ rfl hc hr hi i.1
      (Gen.nextSequenceNumber seq).2.toNat (by omega) i.2
    obtain ⟨ws, hws, hW⟩ := sendLoop_false hp insts
      ⟨typeMSG, chan, tok, (Gen.nextSequenceNumber seq).2.toNat, req⟩ rfl hc hr hi (Gen.nextSequenceNumber seq).1 r
    refine ⟨w :: ws, ?_, ?_⟩
    · simp only [List.map_cons, sendLoop, if_true]
      have e : rawOf ⟨typeMSG, chan, tok, (Gen.nextSequenceNumber seq).2.toNat, req⟩ i.1
          (Gen.nextSequenceNumber seq).2.toNat i.2 =
          rawOf ⟨typeMSG, chan, tok, 0, req⟩ i.1 (Gen.nextSequenceNumber seq).2.toNat i.2 := rfl
      rw [e, hw]
      simp only [hws, List.length_cons, seqAfter]
    · have e2 : ∀ sq l, stamped ⟨typeMSG, chan, tok, (Gen.nextSequenceNumber seq).2.toNat, req⟩ sq l =
          stamped ⟨typeMSG, chan, tok, 0, req⟩ sq l := by
        intro sq l; induction l generalizing sq with
        | nil => rfl
        | cons a l ih => simp only [stamped, ih]; rfl
      exact .cons ⟨hrd, hlen, hsz, hfl⟩ (e2 _ _ ▸ hW)
/-! ### mergeChunks -/

/-- no chunk carries the sequence number of its predecessor (`k`); the first
    chunk of the message (`first = true`) has no predecessor -/
def NoAdjDup : Bool → Nat → List RChunk → Prop
  | _, _, [] => True
  | first, k, c :: cs => (first = true ∨ c.seq ≠ k) ∧ NoAdjDup false c.seq cs

theorem mergeLoop_eq (first : Bool) (k : Nat) (cs : List RChunk) (h : NoAdjDup first k cs) :
    mergeLoop first k cs = (cs.map (·.data)).flatten := by
  induction cs generalizing first k with
  | nil => rfl
  | cons c cs ih =>
    obtain ⟨h1, h2⟩ := h
    have : ¬ (first = false ∧ c.seq = k) := by
      rcases h1 with h1 | h1
      · simp [h1]
      · exact fun h => h1 h.2
    simp only [mergeLoop, if_neg this, List.map_cons, List.flatten_cons, ih _ _ h2]

theorem mergeChunks_eq (cs : List RChunk) (h : NoAdjDup true 0 cs) :
    mergeChunks cs = (cs.map (·.data)).flatten := by
  match cs, h with
  | [], _ => rfl
  | [c], _ => simp [mergeChunks]
  | c :: d :: r, h => simp only [mergeChunks]; exact mergeLoop_eq true 0 _ h

theorem stamped_noAdjDup (h : MsgHdr) (seq : Int) (hinv : SeqInv seq) (first : Bool) (k : Nat)
    (hk : first = true ∨ (k : Int) = seq) (its : List (UInt8 × Bytes)) : NoAdjDup first k (stamped h seq its) := by
  induction its generalizing seq first k with
  | nil => trivial
  | cons i r ih =>
    obtain ⟨i1, i2, i4⟩ := next_inv seq hinv
    refine ⟨?_, ih _ i1 false _ (Or.inr ?_)⟩
    · rcases hk with hk | hk
      · exact Or.inl hk
      · right; simp only [expChunk]; have := i1.1; omega
    · simp only [expChunk]; have := i1.1; omega

theorem stamped_data (h : MsgHdr) (seq : Int) (its : List (UInt8 × Bytes)) :
    (stamped h seq its).map (·.data) = its.map (·.2) := by
  induction its generalizing seq with
  | nil => rfl
  | cons i r ih => simp [stamped, expChunk, ih]

theorem stamped_append (h : MsgHdr) (seq : Int) (a b : List (UInt8 × Bytes)) :
    stamped h seq (a ++ b) = stamped h seq a ++ stamped h (seqAfter seq a.length) b := by
  induction a generalizing seq with
  | nil => rfl
  | cons i r ih => simp [stamped, seqAfter, ih]

theorem stamped_mem (h : MsgHdr) (seq : Int) (its : List (UInt8 × Bytes)) :
    ∀ c ∈ stamped h seq its, c.requestID = h.requestID ∧ c.channelID = h.channelID ∧
      ∃ i ∈ its, c.chunkType = i.1 ∧ c.data = i.2 := by
  induction its generalizing seq with
  | nil => simp [stamped]
  | cons i r ih =>
    intro c hc
    simp only [stamped, List.mem_cons] at hc
    rcases hc with rfl | hc
    · exact ⟨rfl, rfl, i, by simp, rfl, rfl⟩
    · obtain ⟨a, b, j, hj, e⟩ := ih _ c hc
      exact ⟨a, b, j, by simp [hj], e⟩

theorem items_data (mb : Nat) (body : Bytes) : ((items mb body).map (·.2)).flatten = body := by
  simp only [items, List.map_append, List.map_map, List.map_cons, List.map_nil, List.flatten_append,
    List.flatten_cons, List.flatten_nil, List.append_nil]
  have : (List.map ((fun x => x.snd) ∘ fun p => (chunkC, p)) (pieces mb (body.length / mb) body).fst) =
      (pieces mb (body.length / mb) body).fst := by
    simp [Function.comp_def]
  rw [this]
  exact pieces_flatten _ _ _

/-! ### the receive loop -/

theorem Table.set_set (t : Table) (k : Nat) (a b : List RChunk) : (t.set k a).set k b = t.set k b := by
  funext i; simp only [Table.set]; split <;> rfl

@[simp] theorem Table.set_get (t : Table) (k : Nat) (a : List RChunk) : (t.set k a) k = a := by
  simp [Table.set]

theorem receiveAll_ok (insts : Nat → List Side) (lim : Limits) (S : Side) (req : Nat) (cs : List RChunk)
    (last : RChunk) (ws : List Bytes) (t : Table)
    (hW : Wires insts S ws (cs ++ [last]))
    (hC : ∀ c ∈ cs, c.chunkType = chunkC ∧ c.requestID = req)
    (hF : last.chunkType = chunkF ∧ last.requestID = req)
    (hcount : lim.maxChunkCount = 0 ∨ (t req).length + cs.length ≤ lim.maxChunkCount)
    (hsize : lim.maxMessageSize = 0 ∨ (mergeChunks (t req ++ cs ++ [last])).length ≤ lim.maxMessageSize) :
    receiveAll insts lim t ws =
      (t.set req [], some (.ok ⟨req, last.channelID, mergeChunks (t req ++ cs ++ [last])⟩), []) := by
  induction cs generalizing ws t with
  | nil =>
    cases hW with
    | cons h1 hr =>
      cases hr
      obtain ⟨hread, -⟩ := h1
      have := Nat.mod_le (mergeChunks (t req ++ [last])).length 4294967296
      simp only [List.append_nil] at hsize
      simp only [receiveAll, receiveStep, hread, hF.1, hF.2, List.append_nil]
      rw [if_neg (by decide), if_neg (by decide), if_neg (by omega)]
  | cons c cs ih =>
    cases hW with
    | cons h1 hr =>
      obtain ⟨hread, -⟩ := h1
      obtain ⟨hc1, hc2⟩ := hC c (by simp)
      have := Nat.mod_le (t req ++ [c]).length 4294967296
      simp only [List.length_cons] at hcount
      simp only [receiveAll, receiveStep, hread, hc1, hc2]
      rw [if_neg (by decide), if_pos trivial, if_neg (by simp only [List.length_append, List.length_cons, List.length_nil] at *; omega)]
      simp only
      rw [ih _ _ hr (fun c hc => hC c (by simp [hc]))
        (by simp only [Table.set_get, List.length_append, List.length_cons, List.length_nil]; omega)
        (by simpa only [Table.set_get, List.append_assoc, List.cons_append, List.nil_append] using hsize)]
      simp only [Table.set_set, Table.set_get, List.append_assoc, List.cons_append, List.nil_append]
/-! ### one message end to end -/

theorem Wires.length_eq {insts S ws cs} (h : Wires insts S ws cs) : ws.length = cs.length := by
  induction h with
  | nil => rfl
  | cons _ _ ih => simp [ih]

theorem Wires.mem {insts S ws cs} (h : Wires insts S ws cs) : ∀ w ∈ ws, ∃ c ∈ cs, WireOK insts S w c := by
  induction h with
  | nil => simp
  | cons h1 _ ih =>
    intro w hw
    simp only [List.mem_cons] at hw
    rcases hw with rfl | hw
    · exact ⟨_, by simp, h1⟩
    · obtain ⟨c, hc, hwc⟩ := ih w hw
      exact ⟨c, by simp [hc], hwc⟩

theorem Wires.snoc_inv {insts S ws a x} (h : Wires insts S ws (a ++ [x])) :
    ∃ wa wx, ws = wa ++ [wx] ∧ Wires insts S wa a ∧ WireOK insts S wx x := by
  induction a generalizing ws with
  | nil =>
    cases h with
    | cons h1 hr => cases hr; exact ⟨[], _, rfl, .nil, h1⟩
  | cons c a ih =>
    cases h with
    | cons h1 hr =>
      obtain ⟨wa, wx, e, h2, h3⟩ := ih hr
      exact ⟨_ :: wa, wx, by simp [e], .cons h1 h2, h3⟩

/-- the chunks of a body: every intermediate piece has `mb` bytes, the last fewer -/
theorem items_sizes (mb : Nat) (hmb : 0 < mb) (body : Bytes) :
    (∀ i ∈ items mb body, i.2.length ≤ mb) ∧ (items mb body).length = body.length / mb + 1 := by
  have hle : body.length / mb * mb ≤ body.length := Nat.div_mul_le_self _ _
  constructor
  · intro i hi
    simp only [items, List.mem_append, List.mem_map, List.mem_cons, List.not_mem_nil, or_false] at hi
    rcases hi with ⟨p, hp, rfl⟩ | rfl
    · exact Nat.le_of_eq (pieces_each mb _ body hle p hp)
    · simp only [pieces_rest, List.length_drop]
      have := Nat.mod_lt body.length hmb
      have := Nat.div_add_mod body.length mb
      rw [Nat.mul_comm] at this
      omega
  · simp [items, pieces_length]

/-- One `MSG` message through the real send path and the real receive path of
    the model: the sender emits `|body| / maxBody + 1` chunks, the receiver's
    loop `continue`s on all but the last and returns exactly `body` on the last;
    its chunk table is left without an entry for the request id.  `Wires` carries
    the per-chunk facts (length, size field, chunk type). -/
theorem message_roundtrip {S R : Side} (hp : Paired S R) (insts : Nat → List Side) (lim : Limits)
    (maxBody : Nat) (hmb : 0 < maxBody) (chan tok req : Nat) (hc : chan < 4294967296) (hr : req < 4294967296)
    (hi : ∃ rest, (insts chan).reverse = R :: rest) (seq : Int) (hinv : SeqInv seq)
    (body : Bytes) (hb : body.length < 4294967296) (t : Table) (ht : t req = [])
    (hcount : lim.maxChunkCount = 0 ∨ body.length / maxBody ≤ lim.maxChunkCount)
    (hsize : lim.maxMessageSize = 0 ∨ body.length ≤ lim.maxMessageSize) :
    ∃ ws, sendMessage S maxBody seq typeMSG chan tok req body =
        (seqAfter seq (body.length / maxBody + 1), .ok ws) ∧
      ws.length = body.length / maxBody + 1 ∧
      receiveAll insts lim t ws = (t.set req [], some (.ok ⟨req, chan, body⟩), []) ∧
      Wires insts S ws (stamped ⟨typeMSG, chan, tok, 0, req⟩ seq (items maxBody body)) := by
  obtain ⟨ws, hsend, hW⟩ := sendMessage_ok hp insts maxBody hmb chan tok req hc hr hi seq body hb
  obtain ⟨hsz, hlen⟩ := items_sizes maxBody hmb body
  refine ⟨ws, by rw [hsend, hlen], ?_, ?_, hW⟩
  · rw [hW.length_eq]
    have := congrArg List.length (stamped_data ⟨typeMSG, chan, tok, 0, req⟩ seq (items maxBody body))
    simp only [List.length_map] at this
    rw [this, hlen]
  · -- split the expected chunks into the intermediate ones and the final one
    have hmerge : mergeChunks (stamped ⟨typeMSG, chan, tok, 0, req⟩ seq (items maxBody body)) = body := by
      rw [mergeChunks_eq _ (stamped_noAdjDup _ seq hinv true 0 (Or.inl rfl) _), stamped_data, items_data]
    have hsplit : stamped ⟨typeMSG, chan, tok, 0, req⟩ seq (items maxBody body) =
        stamped ⟨typeMSG, chan, tok, 0, req⟩ seq
          ((pieces maxBody (body.length / maxBody) body).1.map (fun p => (chunkC, p))) ++
        [expChunk ⟨typeMSG, chan, tok, 0, req⟩ chunkF
          (Gen.nextSequenceNumber (seqAfter seq (body.length / maxBody))).2.toNat
          (pieces maxBody (body.length / maxBody) body).2] := by
      simp only [items, stamped_append, List.length_map, pieces_length, stamped]
    rw [hsplit] at hW hmerge
    have := receiveAll_ok insts lim S req _ _ ws t hW
      (by
        intro c hc'
        obtain ⟨h1, -, i, hi', h3, -⟩ := stamped_mem _ _ _ c hc'
        simp only [List.mem_map] at hi'
        obtain ⟨p, -, rfl⟩ := hi'
        exact ⟨h3, h1⟩)
      ⟨rfl, rfl⟩
      (by
        rw [ht]
        have := congrArg List.length (stamped_data ⟨typeMSG, chan, tok, 0, req⟩ seq
          ((pieces maxBody (body.length / maxBody) body).1.map (fun p => (chunkC, p))))
        simp only [List.length_map, pieces_length] at this
        simp only [List.length_nil, this]; omega)
      (by rw [ht, List.nil_append, hmerge]; exact hsize)
    rw [this, ht, List.nil_append, hmerge]
    rfl
/-! ### several messages over one instance -/

theorem receiveAll_append (insts : Nat → List Side) (lim : Limits) (t : Table) (a b : List Bytes) :
    receiveAll insts lim t (a ++ b) =
      match receiveAll insts lim t a with
      | (t', some r, left) => (t', some r, left ++ b)
      | (t', none, _) => receiveAll insts lim t' b := by
  induction a generalizing t with
  | nil => simp [receiveAll]
  | cons w ws ih =>
    simp only [List.cons_append, receiveAll]
    cases h : receiveStep insts lim t w with
    | mk t' o =>
      cases o with
      | none => simp only [ih]
      | some r => simp

theorem Table.set_nil_of_nil (t : Table) (k : Nat) (h : t k = []) : t.set k [] = t := by
  funext i; simp only [Table.set]; split
  · rename_i e; rw [e, h]
  · rfl

/-- SESSION ROUND TRIP (general contract form): every message of a session comes
    back, in order, with its request id and body; the counter stays a `uint32`;
    the receiver's table is unchanged. -/
theorem session_roundtrip {S R : Side} (hp : Paired S R) (insts : Nat → List Side) (lim : Limits)
    (maxBody : Nat) (hmb : 0 < maxBody) (chan tok : Nat) (hc : chan < 4294967296)
    (hi : ∃ rest, (insts chan).reverse = R :: rest) (msgs : List (Nat × Bytes)) (t : Table)
    (hm : ∀ m ∈ msgs, m.1 < 4294967296 ∧ m.2.length < 4294967296 ∧ t m.1 = [] ∧
      (lim.maxChunkCount = 0 ∨ m.2.length / maxBody ≤ lim.maxChunkCount) ∧
      (lim.maxMessageSize = 0 ∨ m.2.length ≤ lim.maxMessageSize))
    (seq : Int) (hinv : SeqInv seq) :
    ∃ wire seq', sendSession S maxBody chan tok seq msgs = (seq', .ok wire) ∧ SeqInv seq' ∧ msgs.length ≤ wire.length ∧
      ∀ fuel, wire.length ≤ fuel →
        receiveMany insts lim fuel t wire = msgs.map (fun m => .ok ⟨m.1, chan, m.2⟩) := by
  induction msgs generalizing seq with
  | nil => exact ⟨[], seq, rfl, hinv, Nat.le_refl _, fun fuel _ => by cases fuel <;> rfl⟩
  | cons m ms ih =>
    obtain ⟨h1, h2, h3, h4, h5⟩ := hm m (by simp)
    obtain ⟨ws, hs, hl, hr, -⟩ := message_roundtrip hp insts lim maxBody hmb chan tok m.1 hc h1 hi seq hinv m.2 h2 t h3 h4 h5
    obtain ⟨rest, sq', hs', hinv', hlen', hrest⟩ := ih (fun m' hm' => hm m' (by simp [hm'])) _ (seqAfter_inv seq _ hinv)
    refine ⟨ws ++ rest, sq', ?_, hinv', ?_, ?_⟩
    · simp only [sendSession]
      rw [hs]
      simp only []
      rw [hs']
    · have q1 : 1 ≤ ws.length := by rw [hl]; exact Nat.le_add_left _ _
      have q2 := hlen'
      simp only [List.length_append, List.length_cons]
      omega
    · intro fuel hf
      have hne : ws ≠ [] := by intro e; rw [e] at hl; simp at hl
      obtain ⟨w, ws', rfl⟩ := List.exists_cons_of_ne_nil hne
      match fuel, hf with
      | f + 1, hf =>
        have hra := receiveAll_append insts lim t (w :: ws') rest
        rw [hr] at hra
        simp only [List.nil_append] at hra
        simp only [List.cons_append, receiveMany, List.map_cons] at hra ⊢
        rw [hra]
        simp only
        rw [Table.set_nil_of_nil t m.1 h3]
        rw [hrest f (by simp only [List.length_append, List.length_cons] at hf; omega)]
end Opcua.Chunk
