import OpcuaModel.Model.Uacp
import OpcuaModel.Model.ChunkMsg
/-
  Composition of two separately modelled layers of the stack:

    framing      `Uacp.receive` / `Uacp.receiveAll`  (Model/Uacp.lean, property C05):
                 `uacp.Conn.Receive` cuts the TCP byte stream, delivered in
                 arbitrary segments, into frames by the 8-byte header
    chunking +   `Chunk.sendSession` / `Chunk.receiveMany`  (Model/Chunk.lean, C07):
    security     what a secure channel writes for a session of messages and what
                 `SecureChannel.Receive` makes of the frames

  The interface between them: every chunk the send path writes is a frame the
  framing layer accepts (`Uacp.wellFormed`): at least 8 bytes, at most the
  receive buffer, size field = length, type not `ERR`.  This file provides the
  per-chunk facts of a whole session (`session_wire_facts`) and the generic
  composition (`stack_session`); the instantiation for the policy table is
  `C07_stack_roundtrip` in Props/C07.lean.  Nothing in the imported models is
  changed.
-/
namespace Opcua.Stack
open Opcua Opcua.Chunk

/-- a chunk `readChunk` accepts as data carries the message type `MSG` -/
theorem readChunk_msg_type {insts : Nat → List Side} {w : Bytes} {c : RChunk}
    (h : readChunk insts w = .ok (some c)) : w.take 3 = typeMSG := by
  unfold readChunk at h
  by_cases h1 : w.length < 16
  · simp [h1] at h
  · by_cases h2 : w.take 3 = typeCLO
    · simp [h1, h2] at h
    · by_cases h3 : w.take 3 = typeMSG
      · exact h3
      · simp [h1, h2, h3] at h

/-- per-chunk facts of everything a session writes: every chunk on the wire is
    the secured form of a piece of at most `maxBody` body bytes (`WireOK`:
    accepted by `readChunk`, length `chunkLen`, size field = length) -/
theorem session_wire_facts {S R : Side} (hp : Paired S R) (insts : Nat → List Side)
    (maxBody : Nat) (hmb : 0 < maxBody) (chan tok : Nat) (hc : chan < 4294967296)
    (hi : ∃ rest, (insts chan).reverse = R :: rest) (msgs : List (Nat × Bytes))
    (hm : ∀ m ∈ msgs, m.1 < 4294967296 ∧ m.2.length < 4294967296) (seq : Int)
    (wire : List Bytes) (seq' : Int)
    (hs : sendSession S maxBody chan tok seq msgs = (seq', .ok wire)) :
    ∀ w ∈ wire, ∃ c, WireOK insts S w c ∧ c.data.length ≤ maxBody := by
  induction msgs generalizing seq wire seq' with
  | nil =>
    simp only [sendSession, Prod.mk.injEq, Res.ok.injEq] at hs
    obtain ⟨-, rfl⟩ := hs
    simp
  | cons m ms ih =>
    obtain ⟨h1, h2⟩ := hm m (by simp)
    obtain ⟨ws, hsend, hW⟩ := sendMessage_ok hp insts maxBody hmb chan tok m.1 hc h1 hi seq m.2 h2
    simp only [sendSession] at hs
    rw [hsend] at hs
    simp only [] at hs
    cases hrest : sendSession S maxBody chan tok (seqAfter seq (items maxBody m.2).length) ms with
    | mk sq r =>
      rw [hrest] at hs
      cases r with
      | ok rest =>
        simp only [Prod.mk.injEq, Res.ok.injEq] at hs
        obtain ⟨-, rfl⟩ := hs
        intro w hw
        rcases List.mem_append.mp hw with hw | hw
        · obtain ⟨c, hcm, hwc⟩ := hW.mem w hw
          obtain ⟨-, -, i, hi', -, hdata⟩ := stamped_mem _ _ _ c hcm
          exact ⟨c, hwc, by rw [hdata]; exact (items_sizes maxBody hmb m.2).1 i hi'⟩
        · exact ih (fun m' hm' => hm m' (by simp [hm'])) _ rest sq hrest w hw
      | err => simp at hs
      | panic => simp at hs

/-- a secured chunk is a frame the framing layer accepts, provided it fits the receive buffer -/
theorem wire_wellFormed {insts : Nat → List Side} {S : Side} {w : Bytes} {c : RChunk} (rcvBuf : Nat)
    (hW : WireOK insts S w c) (hfit : w.length ≤ rcvBuf) (h32 : w.length < 4294967296) :
    Uacp.wellFormed rcvBuf w := by
  obtain ⟨hread, hlen, hsz, -⟩ := hW
  have h16 : 16 ≤ w.length := by
    rw [hlen]; simp only [chunkLen]; omega
  refine ⟨⟨by simp only [Uacp.hdrlen]; omega, hfit, ?_⟩, ?_⟩
  · show u32At w 4 = w.length
    rw [hsz, Nat.mod_eq_of_lt h32]
  · simp only [Uacp.isErrType, readChunk_msg_type hread]
    decide

/-- COMPOSITION (general contract form).  The byte stream of a session, cut into
    ANY segments, is delivered by the framing layer as exactly the chunks
    followed by a clean EOF, and `Receive` turns these chunks back into exactly
    the session. -/
theorem stack_session {S R : Side} (hp : Paired S R) (insts : Nat → List Side) (lim : Limits)
    (maxBody : Nat) (hmb : 0 < maxBody) (chan tok : Nat) (hc : chan < 4294967296)
    (hi : ∃ rest, (insts chan).reverse = R :: rest) (msgs : List (Nat × Bytes)) (t : Table)
    (hm : ∀ m ∈ msgs, m.1 < 4294967296 ∧ m.2.length < 4294967296 ∧ t m.1 = [] ∧
      (lim.maxChunkCount = 0 ∨ m.2.length / maxBody ≤ lim.maxChunkCount) ∧
      (lim.maxMessageSize = 0 ∨ m.2.length ≤ lim.maxMessageSize))
    (seq : Int) (hinv : SeqInv seq) (rcvBuf : Nat) (h8 : 8 ≤ rcvBuf) (hbuf : rcvBuf < 4294967296)
    (hfit : ∀ n, n ≤ maxBody → chunkLen S (8 + n) ≤ rcvBuf) :
    ∃ wire seq', sendSession S maxBody chan tok seq msgs = (seq', .ok wire) ∧ SeqInv seq' ∧
      (∀ segs : Uacp.Stream, segs.flatten = wire.flatten → Uacp.receiveAll rcvBuf segs = (wire, .eof)) ∧
      receiveMany insts lim wire.length t wire = msgs.map (fun m => .ok ⟨m.1, chan, m.2⟩) := by
  obtain ⟨wire, sq, h1, h2, -, h4⟩ := session_roundtrip hp insts lim maxBody hmb chan tok hc hi msgs t hm seq hinv
  have hfacts := session_wire_facts hp insts maxBody hmb chan tok hc hi msgs
    (fun m hm' => ⟨(hm m hm').1, (hm m hm').2.1⟩) seq wire sq h1
  refine ⟨wire, sq, h1, h2, ?_, h4 _ (Nat.le_refl _)⟩
  intro segs hseg
  refine Uacp.receiveAll_flat rcvBuf segs ▸ ?_
  have hwf : ∀ f ∈ wire, Uacp.wellFormed rcvBuf f := by
    intro f hf
    obtain ⟨c, hW, hle⟩ := hfacts f hf
    have hl : f.length ≤ rcvBuf := by rw [hW.2.1]; exact hfit _ hle
    exact wire_wellFormed rcvBuf hW hl (by omega)
  have hnil : Uacp.receiveAllFlat rcvBuf [] = ([], .eof) :=
    Uacp.receiveAllFlat_stop (by simp [Uacp.receiveFlat, Uacp.hdrlen, Uacp.shortErr]; omega)
  rw [hseg, ← List.append_nil wire.flatten, Uacp.receiveAllFlat_frames wire [] hwf, hnil]
  simp

end Opcua.Stack
