import OpcuaModel.Model.SrvRobust
import OpcuaModel.Model.SrvHandlersLemmas
import OpcuaModel.Model.SrvNotify
/-
  Helper lemmas for Props/C29 (not property statements).
-/
namespace Opcua.Srv
open Opcua.Gen.SrvRobust Opcua.Gen.SrvSession

def isErr {ε α} : Except ε α → Bool
  | .error _ => true
  | .ok _ => false

theorem delSubsLoop_isErr (st : St) (c : Option Session) (ids : List Nat) :
    isErr (delSubsLoop st c ids) =
      !(ids.all fun id => (findSub st id).isNone || (c.isSome && subOwned st id)) := by
  induction ids with
  | nil => rfl
  | cons i rest ih =>
    unfold delSubsLoop
    rw [List.all_cons, Bool.not_and, ← ih]
    cases hf : findSub st i with
    | none =>
      have hh : ((none : Option Sub).isNone || (c.isSome && subOwned st i)) = true := by simp
      rw [hh]
      cases delSubsLoop st c rest with
      | error e => rfl
      | ok p => obtain ⟨a, b⟩ := p; rfl
    | some sub =>
      obtain ⟨sid, owner⟩ := sub
      cases c with
      | none => simp [isErr]
      | some cs =>
        cases owner with
        | none => simp [isErr, subOwned, hf]
        | some o =>
          have hh : ((some (⟨sid, some o⟩ : Sub)).isNone || ((some cs).isSome && subOwned st i)) = true := by
            simp [subOwned, hf]
          rw [hh]
          cases delSubsLoop st (some cs) rest with
          | error e => rfl
          | ok p =>
            obtain ⟨a, b⟩ := p
            by_cases h : cs.token = o <;> simp [isErr, h]

theorem itemLoop_isErr (st : St) (c : Option Session) (site : Site) (u m : Bool) (ids : List Nat) :
    isErr (itemLoop st c site u m ids) =
      !(ids.all fun id => match findItem st id with
                          | none => u
                          | some _ => c.isSome && itemOk st id) := by
  induction ids with
  | nil => rfl
  | cons i rest ih =>
    unfold itemLoop
    rw [List.all_cons, Bool.not_and, ← ih]
    cases hf : findItem st i with
    | none =>
      cases u with
      | false => simp [isErr]
      | true =>
        simp only [if_true, Bool.not_true, Bool.false_or]
        cases itemLoop st c site true m rest <;> rfl
    | some it =>
      simp only []
      cases hs : findSub st it.sub with
      | none => simp [isErr, itemOk, hf, subOwned, hs]
      | some sub =>
        obtain ⟨sid, owner⟩ := sub
        cases owner with
        | none => simp [isErr, itemOk, hf, subOwned, hs]
        | some o =>
          cases c with
          | none => simp [isErr]
          | some cs =>
            have hh : ((some cs).isSome && itemOk st i) = true := by simp [itemOk, hf, subOwned, hs]
            rw [hh]
            cases itemLoop st (some cs) site u m rest <;> rfl

theorem deleteLoop_panics (fuel : Nat) (l : List Nat) (n : Nat) (hn : 0 < n)
    (hf : l.length < fuel + n) (h0 : 0 < fuel) : deleteLoop fuel l n = none := by
  induction fuel generalizing l with
  | zero => omega
  | succ f ih =>
    unfold deleteLoop
    simp only [hn, if_true]
    by_cases h : n + 1 > l.length
    · simp [h]
    · simp only [h, if_false]
      have hlt : n < l.length := by omega
      apply ih
      · rw [List.length_eraseIdx]
        simp only [hlt, if_true]
        omega
      · omega

theorem dispatch_fill (cap used k : Nat) (rest : List Job) (h : used + k ≤ cap) :
    dispatch cap used (List.replicate k ⟨true, 1⟩ ++ rest) = List.replicate k true ++ dispatch cap (used + k) rest := by
  induction k generalizing used with
  | zero => simp
  | succ k ih =>
    rw [List.replicate_succ, List.cons_append, dispatch]
    have h1 : used + 1 ≤ cap := by omega
    simp only [if_true, h1, List.replicate_succ, List.cons_append]
    rw [ih (used + 1) (by omega), show used + 1 + k = used + (k + 1) by omega]


theorem putSub_owners (subs : List Sub) (id : Nat) (o : Tok) (h : (subs.all fun s => s.owner.isSome) = true) :
    ((putSub subs ⟨id, some o⟩).all fun s => s.owner.isSome) = true := by
  unfold putSub
  rw [List.all_append]
  simp only [List.all_cons, List.all_nil, Option.isSome_some, Bool.and_true]
  exact List.all_eq_true.mpr fun s hs => List.all_eq_true.mp h s (List.mem_filter.mp hs).1

/-! ### dispatcher level: pre-empted requests never reach a handler body -/

theorem step_preempted (st : St) (t : Tok) (r : Req) (h : preempted st t r = true) :
    (step st t r).2.isCrash = false := by
  unfold preempted at h
  unfold step
  cases hh : handlerOf r.name with
  | none => rfl
  | some x =>
    simp only [hh] at h
    by_cases hu : x.unsupported = true
    · simp [hu, unsupportedFault, Out.isCrash]
    · simp only [hu, Bool.false_or, Bool.false_eq_true, if_false] at h ⊢
      simp [h, Out.isCrash]

theorem step_not_preempted (st : St) (t : Tok) (r : Req) (h : preempted st t r = false) :
    step st t r = body st t r := by
  unfold preempted at h
  unfold step
  cases hh : handlerOf r.name with
  | none => simp [hh] at h
  | some x =>
    simp only [hh, Bool.or_eq_false_iff] at h
    simp [h.1, h.2]

/-- inside the handler bodies: a panic iff the shape is not `safeBody` -/
theorem body_crash_iff (st : St) (t : Tok) (r : Req) : (body st t r).2.isCrash = !safeBody st t r := by
  cases r with
  | findServers =>
    cases h1 : st.endpointsEmpty <;> cases h2 : findServersChecksEndpoints <;> simp [body, safeBody, h1, h2, Out.isCrash]
  | getEndpoints => simp [body, safeBody, Out.isCrash]
  | createSession k s c =>
    cases s <;> cases c <;> cases hn : newSessionSignatureChecked <;> simp [body, safeBody, Out.isCrash, hn]
  | activateSession s ok =>
    simp only [body, safeBody]
    cases hf : findSession st t with
    | none => simp [Out.isCrash]
    | some x =>
      obtain ⟨xt, xa, xq, xr⟩ := x
      cases s <;> cases ok <;> cases xr <;> cases hv : verifySessionSignatureChecked <;> simp [Out.isCrash, hv]
  | closeSession => simp [body, safeBody, Out.isCrash]
  | read => cases h : st.accessAttr <;> simp [body, safeBody, accessCheck, h, Out.isCrash]
  | write v => cases h : st.accessAttr <;> simp [body, safeBody, accessCheck, h, Out.isCrash]
  | writeAttr w a =>
    cases h : st.accessAttr <;> simp [body, safeBody, accessCheck, h, Out.isCrash] <;>
      (by_cases hw : w = "DataType" <;> simp [hw])
  | browse c b =>
    cases c <;> cases b <;> cases h : st.dataTypeAttr <;> cases hd : dataTypeAssertionChecked <;>
      simp [body, safeBody, h, hd, Out.isCrash]
  | createSubscription iv =>
    cases iv <;> cases hf : findSession st t <;> cases hp : publishingIntervalRevised <;>
      simp [body, safeBody, effectiveInterval, sessionKnown, hf, hp, Out.isCrash]
  | publish =>
    cases hf : findSession st t <;> simp [body, safeBody, hf, Out.isCrash]
  | deleteSubscriptions ids =>
    have h := delSubsLoop_isErr st (findSession st t) ids
    simp only [body, safeBody, sessionKnown]
    cases hl : delSubsLoop st (findSession st t) ids with
    | error e => rw [hl] at h; exact h
    | ok p => rw [hl] at h; obtain ⟨a, b⟩ := p; exact h
  | createMonitoredItems s n =>
    simp only [body, safeBody, sessionKnown, subOwned]
    cases hs : findSub st s with
    | none => simp [Out.isCrash]
    | some sub =>
      obtain ⟨sid, owner⟩ := sub
      cases owner with
      | none => simp [Out.isCrash]
      | some o =>
        cases hf : findSession st t with
        | none => simp [Out.isCrash]
        | some c => by_cases hc : o = c.token <;> simp [Out.isCrash, hc]
  | setMonitoringMode ids =>
    have h := itemLoop_isErr st (findSession st t) "MonitoredItemService.SetMonitoringMode"
      setModeUnknownContinues setModeMismatchContinues ids
    simp only [body, safeBody, itemSafe, sessionKnown]
    cases hl : itemLoop st (findSession st t) "MonitoredItemService.SetMonitoringMode"
        setModeUnknownContinues setModeMismatchContinues ids with
    | error e => rw [hl] at h; exact h
    | ok p => rw [hl] at h; exact h
  | deleteMonitoredItems ids =>
    have h := itemLoop_isErr st (findSession st t) "MonitoredItemService.DeleteMonitoredItems"
      delItemsUnknownContinues delItemsMismatchContinues ids
    simp only [body, safeBody, itemSafe, sessionKnown]
    cases hl : itemLoop st (findSession st t) "MonitoredItemService.DeleteMonitoredItems"
        delItemsUnknownContinues delItemsMismatchContinues ids with
    | error e => rw [hl] at h; exact h
    | ok p => rw [hl] at h; exact h
  | other n => simp [body, safeBody, unsupportedFault, Out.isCrash]

/-! ### well-formed tables -/

theorem findSub_isSome_iff (st : St) (x : Nat) : (findSub st x).isSome = true ↔ ∃ s ∈ st.subs, s.id = x := by
  unfold findSub
  rw [List.find?_isSome]
  constructor
  · rintro ⟨s, hs, h⟩; exact ⟨s, hs, by simpa using h⟩
  · rintro ⟨s, hs, h⟩; exact ⟨s, hs, by simpa using h⟩

theorem findSub_mem (st : St) (x : Nat) (s : Sub) (h : findSub st x = some s) : s ∈ st.subs ∧ s.id = x := by
  unfold findSub at h
  exact ⟨List.mem_of_find?_eq_some h, by simpa using List.find?_some h⟩

theorem findItem_mem (st : St) (x : Nat) (it : Item) (h : findItem st x = some it) : it ∈ st.items := by
  unfold findItem at h
  exact List.mem_of_find?_eq_some h

theorem subOwned_of_wf (st : St) (hw : ownersSet st = true) (x : Nat) (s : Sub) (h : findSub st x = some s) :
    subOwned st x = true := by
  unfold subOwned
  rw [h]
  exact List.all_eq_true.mp hw s (findSub_mem st x s h).1

theorem putSub_exists (subs : List Sub) (n : Sub) (x : Nat) (h : ∃ s ∈ subs, s.id = x) :
    ∃ s ∈ putSub subs n, s.id = x := by
  obtain ⟨s, hs, hx⟩ := h
  unfold putSub
  by_cases hn : n.id = x
  · exact ⟨n, by simp, hn⟩
  · refine ⟨s, ?_, hx⟩
    rw [List.mem_append]
    left
    rw [List.mem_filter]
    refine ⟨hs, ?_⟩
    simp only [bne_iff_ne, ne_eq]
    intro he
    exact hn (by rw [← he, hx])

theorem newItems_sub (next sub n : Nat) (it : Item) (h : it ∈ newItems next sub n) : it.sub = sub := by
  induction n generalizing next with
  | zero => simp [newItems] at h
  | succ k ih =>
    simp only [newItems, List.mem_cons] at h
    rcases h with h | h
    · rw [h]
    · exact ih (next + 1) h

end Opcua.Srv

namespace Opcua.Notify
open Opcua.Gen.SrvRobust

/-- the dispatcher is blocked in the send and nobody will ever receive -/
def stuck (s : NState) : Bool := s.blocked && s.consumer != .running

theorem stuck_step (s : NState) (e : Ev) (h : stuck s = true) : stuck (stepN s e).1 = true := by
  unfold stuck at *
  rw [Bool.and_eq_true] at h
  obtain ⟨hb, hc⟩ := h
  cases e <;> cases hcons : s.consumer <;> simp_all [stepN]

theorem stuck_unanswered (s : NState) (h : stuck s = true) :
    (stepN s .write).2 = false ∧ (stepN s .request).2 = false := by
  unfold stuck at h
  rw [Bool.and_eq_true] at h
  simp [stepN, h.1]

theorem stuck_run (s : NState) (l : List Ev) (h : stuck s = true) : stuck (runN s l).1 = true := by
  induction l generalizing s with
  | nil => exact h
  | cons e rest ih =>
    unfold runN
    exact ih (stepN s e).1 (stuck_step s e h)

theorem runN_append (s : NState) (l1 l2 : List Ev) :
    runN s (l1 ++ l2) = ((runN (runN s l1).1 l2).1, (runN s l1).2 ++ (runN (runN s l1).1 l2).2) := by
  induction l1 generalizing s with
  | nil => simp [runN]
  | cons e rest ih => simp [runN, ih]

theorem fill (s : NState) (k : Nat) (hb : s.blocked = false) (hr : s.registered = true)
    (hk : s.queued + k ≤ notifyChanCap) :
    runN s (List.replicate k .write) = ({ s with queued := s.queued + k }, List.replicate k true) := by
  have hf : (notifySendUnderLock && setAttributeNotifiesInline) = true := by decide
  induction k generalizing s with
  | zero => simp [runN]
  | succ k ih =>
    have hlt : s.queued < notifyChanCap := by omega
    have hstep : stepN s .write = ({ s with queued := s.queued + 1 }, true) := by
      simp [stepN, hb, hr, hf, hlt]
    rw [List.replicate_succ, runN, hstep]
    have hih := ih { s with queued := s.queued + 1 } hb hr (by show s.queued + 1 + k ≤ notifyChanCap; omega)
    show ((runN { s with queued := s.queued + 1 } (List.replicate k Ev.write)).1,
          true :: (runN { s with queued := s.queued + 1 } (List.replicate k Ev.write)).2) = _
    rw [hih]
    have : s.queued + 1 + k = s.queued + (k + 1) := by omega
    simp [List.replicate_succ, this]

end Opcua.Notify

