import OpcuaModel.Model.SrvRobust
import OpcuaModel.Model.SrvHandlersLemmas
/-
  Helper lemmas for Props/C29 (not property statements).
-/
namespace Opcua.Srv
open Opcua.Gen.SrvRobust

def isErr {ε α} : Except ε α → Bool
  | .error _ => true
  | .ok _ => false

theorem delSubsLoop_isErr (st : St) (c : Option Session) (ids : List Nat) :
    isErr (delSubsLoop st c ids) =
      !(ids.all fun id => (findSub st id).isNone || (c.isSome && subOwned st id)) := by
  induction ids with
  | nil => rfl
  | cons i rest ih =>
    unfold delSubsLoop
    rw [List.all_cons, Bool.not_and, ← ih]
    cases hf : findSub st i with
    | none =>
      have hh : ((none : Option Sub).isNone || (c.isSome && subOwned st i)) = true := by simp
      rw [hh]
      cases delSubsLoop st c rest with
      | error e => rfl
      | ok p => obtain ⟨a, b⟩ := p; rfl
    | some sub =>
      obtain ⟨sid, owner⟩ := sub
      cases c with
      | none => simp [isErr]
      | some cs =>
        cases owner with
        | none => simp [isErr, subOwned, hf]
        | some o =>
          have hh : ((some (⟨sid, some o⟩ : Sub)).isNone || ((some cs).isSome && subOwned st i)) = true := by
            simp [subOwned, hf]
          rw [hh]
          cases delSubsLoop st (some cs) rest with
          | error e => rfl
          | ok p =>
            obtain ⟨a, b⟩ := p
            by_cases h : cs.token = o <;> simp [isErr, h]

theorem itemLoop_isErr (st : St) (c : Option Session) (site : Site) (u m : Bool) (ids : List Nat) :
    isErr (itemLoop st c site u m ids) =
      !(ids.all fun id => match findItem st id with
                          | none => u
                          | some _ => c.isSome && itemOk st id) := by
  induction ids with
  | nil => rfl
  | cons i rest ih =>
    unfold itemLoop
    rw [List.all_cons, Bool.not_and, ← ih]
    cases hf : findItem st i with
    | none =>
      cases u with
      | false => simp [isErr]
      | true =>
        simp only [if_true, Bool.not_true, Bool.false_or]
        cases itemLoop st c site true m rest <;> rfl
    | some it =>
      simp only []
      cases hs : findSub st it.sub with
      | none => simp [isErr, itemOk, hf, subOwned, hs]
      | some sub =>
        obtain ⟨sid, owner⟩ := sub
        cases owner with
        | none => simp [isErr, itemOk, hf, subOwned, hs]
        | some o =>
          cases c with
          | none => simp [isErr]
          | some cs =>
            have hh : ((some cs).isSome && itemOk st i) = true := by simp [itemOk, hf, subOwned, hs]
            rw [hh]
            cases itemLoop st (some cs) site u m rest <;> rfl

theorem deleteLoop_panics (fuel : Nat) (l : List Nat) (n : Nat) (hn : 0 < n)
    (hf : l.length < fuel + n) (h0 : 0 < fuel) : deleteLoop fuel l n = none := by
  induction fuel generalizing l with
  | zero => omega
  | succ f ih =>
    unfold deleteLoop
    simp only [hn, if_true]
    by_cases h : n + 1 > l.length
    · simp [h]
    · simp only [h, if_false]
      have hlt : n < l.length := by omega
      apply ih
      · rw [List.length_eraseIdx]
        simp only [hlt, if_true]
        omega
      · omega

theorem dispatch_fill (cap used k : Nat) (rest : List Job) (h : used + k ≤ cap) :
    dispatch cap used (List.replicate k ⟨true, 1⟩ ++ rest) = List.replicate k true ++ dispatch cap (used + k) rest := by
  induction k generalizing used with
  | zero => simp
  | succ k ih =>
    rw [List.replicate_succ, List.cons_append, dispatch]
    have h1 : used + 1 ≤ cap := by omega
    simp only [if_true, h1, List.replicate_succ, List.cons_append]
    rw [ih (used + 1) (by omega), show used + 1 + k = used + (k + 1) by omega]


end Opcua.Srv
