import OpcuaModel.Model.Own
import OpcuaModel.Gen.RecvAlias
/-
  C20 — messages delivered to the application never change afterwards.

  Ownership model `Own`: every step of the receive path writes only buffers
  it has just allocated, provided the alias facts hold; the facts are read
  from the current source by the generator (`Gen.RecvAlias.facts`).  A decoded
  message references the buffer its body lives in (byte strings are sub-slices
  of the decoder's input), so "the message never changes" is "that buffer is
  never written after delivery" — `Frozen`.
-/
namespace Opcua.Props.C20
open Opcua Opcua.Own

/-- the facts extracted from the current source are the ones the theorem needs -/
theorem C20_facts : Gen.RecvAlias.facts.ok = true := by decide

/-- **Frozen.**  For every sequence of chunk frames — secured or not, single-
    and multi-chunk messages, any interleaving of request ids — on a channel
    whose code satisfies the alias facts: no buffer referenced by a delivered
    message is written after the delivery. -/
theorem C20_frozen (f : Facts) (hf : f.ok = true) (ops : List Op) : Frozen (run f {} ops).trace :=
  (run_inv f hf {} ops ⟨fun _ h => (nomatch h), trivial⟩).2

/-- … instantiated with the facts of the current source -/
theorem C20_frozen_current (ops : List Op) : Frozen (run Gen.RecvAlias.facts {} ops).trace :=
  C20_frozen _ C20_facts ops

/-- several channels: each `SecureChannel`/`Conn` has its own state and (by the
    facts) no buffer outlives a call except through the message, so traffic on
    another connection is a run of its own; its writes carry other buffer
    identities.  In the model: two runs from disjoint identity ranges never
    touch each other's delivered buffers. -/
theorem C20_delivered_below_next (f : Facts) (hf : f.ok = true) (st : St) (h : Inv st) (ops : List Op) :
    ∀ b, Ev.deliver b ∈ (run f st ops).trace → b < (run f st ops).next :=
  (run_inv f hf st ops h).1

/-- the facts are needed: with a receive buffer that is kept and re-used
    (`recvMakesPerCall = false`, what the `// TODO: sync.Pool` in
    `Conn.Receive` would introduce) the second frame overwrites the first
    delivered message -/
theorem C20_needs_per_call_buffer :
    ¬ Frozen (run { recvMakesPerCall := false, noBufferFields := true, noPool := true, decryptCopies := true, mergeAppendsFresh := true }
        {} [⟨false, true, 1⟩, ⟨false, true, 2⟩]).trace := by decide

/-- … likewise a decrypt scratch buffer that is re-used -/
theorem C20_needs_decrypt_copy :
    ¬ Frozen (run { recvMakesPerCall := true, noBufferFields := true, noPool := true, decryptCopies := false, mergeAppendsFresh := true }
        {} [⟨true, true, 1⟩, ⟨true, true, 2⟩]).trace := by decide

/-- … and a merge buffer that is re-used -/
theorem C20_needs_fresh_merge :
    ¬ Frozen (run { recvMakesPerCall := true, noBufferFields := true, noPool := true, decryptCopies := true, mergeAppendsFresh := false }
        {} [⟨false, false, 1⟩, ⟨false, true, 1⟩, ⟨false, false, 2⟩, ⟨false, true, 2⟩]).trace := by decide

/-- non-vacuity: a secured two-chunk message interleaved with an unsecured
    single-chunk one: buffers 0..5, deliveries reference 4 (frame of the single
    chunk) and 7 (merge buffer) -/
example :
    (run Gen.RecvAlias.facts {} [⟨true, false, 1⟩, ⟨true, false, 1⟩, ⟨false, true, 2⟩, ⟨true, true, 1⟩]).trace =
      [.deliver 7, .write 7, .write 6, .write 5, .deliver 4, .write 4, .write 3, .write 2, .write 1, .write 0] := by decide

end Opcua.Props.C20
