import OpcuaModel.Model.SrvIdsLemmas
/-
  C32 — server subscription and monitored item ids are unique and session-scoped.

  `SrvIds.step` mirrors CreateSubscription, DeleteSubscriptions (+ the spawned
  `DeleteSubscription(id)` calls as explicit `apply` steps), CreateMonitoredItems,
  SetMonitoringMode, DeleteMonitoredItems (tied by the C32 correspondence run
  against the real service handlers, with the background calls scheduled
  through `verifPoint`).

  After the repairs (a subscription id counter that only grows; the two item
  services test the id and the owner first and skip the entry) the property
  holds at full strength, below the 2^32 wrap of the two counters:
    * every subscription / monitored item id handed out is new — not in use and
      not named by any pending background deletion (`C32_sub_id_fresh`,
      `C32_item_ids_fresh`), the invariants are kept by every step
      (`C32_subinv_step`), so a late `DeleteSubscription(id)` can never hit a
      subscription created after it was spawned (`C32_pending_cannot_hit_new`);
    * DeleteSubscriptions, CreateMonitoredItems, SetMonitoringMode and
      DeleteMonitoredItems change nothing that belongs to another session,
      whatever ids they name (`…_scoped`), and refuse unknown and foreign ids
      entry by entry with no effect (`…_refused`).
  The four former counterexample histories are restated for the repaired code
  (`C32_repaired_*`).
-/
namespace Opcua.Props.C32
open Opcua.SrvIds

-- ---------------------------------------------------------------- uniqueness

/-- monitored item ids: below the wrap of the 32-bit counter, the ids handed out
    by one CreateMonitoredItems are pairwise distinct, non-zero and distinct from
    every id in use, and the invariant (ids in use are distinct and in 1..counter) is kept -/
theorem C32_item_ids_fresh (st st' : St) (sess sub n : Nat) (ids : List Nat)
    (hinv : ItemInv st) (hw : st.itemCtr + n < 4294967296)
    (h : createItems st sess sub n = (.itemIds ids, st')) :
    ids.Nodup ∧ (∀ i ∈ ids, i ∉ liveItemIds st ∧ i ≠ 0) ∧ ItemInv st' := by
  unfold createItems at h
  cases hl : lookupSub st.subs sub with
  | none => simp [hl] at h
  | some o =>
    simp only [hl] at h
    split at h
    · simp at h
    · split at h
      · simp at h
      · simp only [Prod.mk.injEq, Out.itemIds.injEq] at h
        obtain ⟨h1, h2⟩ := h
        obtain ⟨hc, hm⟩ := allocIds_small n st.itemCtr hw
        subst h1
        have hfresh : ∀ i ∈ (allocIds n st.itemCtr).1, i ∉ liveItemIds st ∧ i ≠ 0 := by
          intro i hi
          have hr := (hm i).1 hi
          refine ⟨?_, by omega⟩
          intro hlive
          simp only [liveItemIds, List.mem_map] at hlive
          obtain ⟨it, hit, rfl⟩ := hlive
          have := hinv.1 it hit
          omega
        refine ⟨allocIds_nodup n st.itemCtr hw, hfresh, ?_⟩
        subst h2
        refine ⟨?_, ?_⟩
        · intro it hit
          simp only [List.mem_append, List.mem_map] at hit
          rcases hit with hit | ⟨i, hi, rfl⟩
          · have := hinv.1 it hit; simp only [hc]; omega
          · have hr := (hm i).1 hi; simp only [hc]; omega
        · simp only [List.map_append, List.map_map]
          have hid : (List.map ((fun x : Item => x.id) ∘ fun i => (⟨i, o, 0⟩ : Item)) (allocIds n st.itemCtr).1)
              = (allocIds n st.itemCtr).1 := by
            simp [Function.comp_def]
          rw [hid]
          refine List.nodup_append.2 ⟨hinv.2, allocIds_nodup n st.itemCtr hw, ?_⟩
          intro a ha b hb hab
          subst hab
          exact (hfresh a hb).1 (by simpa [liveItemIds] using ha)

/-- subscription ids (full strength since the repair): below the wrap of the
    counter the id handed out is non-zero, not in use, and not named by any
    pending background deletion; the invariant is kept -/
theorem C32_sub_id_fresh (st : St) (sess : Nat) (hinv : SubInv st) (hw : st.subCtr + 1 < 4294967296) :
    (createSub st sess).1 = .subId (st.subCtr + 1) ∧
    st.subCtr + 1 ∉ liveSubIds st ∧ st.subCtr + 1 ∉ st.pending ∧ SubInv (createSub st sess).2 := by
  have hid : nextID st.subCtr = st.subCtr + 1 := nextID_small _ hw
  have hfresh : st.subCtr + 1 ∉ liveSubIds st := fun h => by have := hinv.1 _ h; omega
  have hpend : st.subCtr + 1 ∉ st.pending := fun h => by have := hinv.2 _ h; omega
  refine ⟨by simp [createSub, hid], hfresh, hpend, ?_, ?_⟩
  · intro id h
    simp only [createSub, hid, liveSubIds] at h hfresh
    rw [putSub_fresh _ _ _ (by simpa [liveSubIds] using hfresh)] at h
    simp only [List.map_append, List.map_cons, List.map_nil, List.mem_append, List.mem_singleton] at h
    simp only [createSub, hid]
    rcases h with h | rfl
    · have := hinv.1 id (by simpa [liveSubIds] using h); omega
    · omega
  · intro id h
    simp only [createSub, hid] at h ⊢
    have := hinv.2 id h; omega

/-- a background DeleteSubscription(id) call removes only what is registered
    under that id: other table entries and the items of other subscription ids stay -/
theorem C32_apply_frame (st : St) (k : Nat) :
    (∀ e ∈ st.subs, (∀ id, st.pending[k]? = some id → e.1 ≠ id) → e ∈ (applyDelete st k).2.subs) ∧
    (∀ it ∈ st.items, (∀ id, st.pending[k]? = some id → it.sub.id ≠ id) → it ∈ (applyDelete st k).2.items) := by
  cases hp : st.pending[k]? with
  | none => rw [applyDelete_none st k hp]; simp
  | some id =>
    simp only [Option.some.injEq, forall_eq']
    cases hl : lookupSub st.subs id with
    | none =>
      rw [applyDelete_miss st k id hp hl]
      exact ⟨fun e he _ => he, fun it hit hne => by simp [hit, hne]⟩
    | some o =>
      rw [applyDelete_hit st k id o hp hl]
      exact ⟨fun e he hne => by simp [eraseSub, he, hne], fun it hit hne => by simp [hit, hne]⟩

/-- every request and every background step keeps the invariant (CreateSubscription below the wrap) -/
theorem C32_subinv_step (st : St) (op : Op) (hinv : SubInv st)
    (hw : ∀ s, op = .createSub s → st.subCtr + 1 < 4294967296) : SubInv (step st op).2 := by
  unfold step
  by_cases h0 : op.session = some 0
  · simpa [h0] using hinv
  rw [if_neg h0]
  cases op with
  | createSub s => exact (C32_sub_id_fresh st s hinv (hw s rfl)).2.2.2
  | deleteSubs s ids =>
    refine ⟨hinv.1, ?_⟩
    intro id h
    simp only [deleteSubs, List.mem_append] at h
    rcases h with h | h
    · exact hinv.2 id h
    · obtain ⟨o, ho, _⟩ := deleteSubsLoop_spawned st.subs s ids id h
      exact hinv.1 id (List.mem_map.2 ⟨(id, o), lookupSub_mem ho, rfl⟩)
  | apply k =>
    simp only []
    cases hp : st.pending[k]? with
    | none => rw [applyDelete_none st k hp]; exact hinv
    | some id =>
      have hidp : id ∈ st.pending := List.mem_of_getElem? hp
      have hsubp : ∀ x, x ∈ st.pending.eraseIdx k → x ∈ st.pending := fun x hx => List.mem_of_mem_eraseIdx hx
      cases hl : lookupSub st.subs id with
      | none =>
        rw [applyDelete_miss st k id hp hl]
        exact ⟨hinv.1, fun x hx => hinv.2 x (hsubp x hx)⟩
      | some o =>
        rw [applyDelete_hit st k id o hp hl]
        refine ⟨fun x hx => hinv.1 x (liveSubIds_erase st.subs id x hx), ?_⟩
        intro x hx
        simp only [List.mem_append, List.mem_singleton] at hx
        rcases hx with hx | rfl
        · exact hinv.2 x (hsubp x hx)
        · exact hinv.2 x hidp
  | createItems s sub n =>
    have hsame : (createItems st s sub n).2.subs = st.subs ∧ (createItems st s sub n).2.pending = st.pending ∧
        (createItems st s sub n).2.subCtr = st.subCtr := by
      unfold createItems
      cases lookupSub st.subs sub with
      | none => simp
      | some o => simp only []; split <;> (try split) <;> simp
    refine ⟨?_, ?_⟩
    · intro id h; simp only [liveSubIds, hsame.1, hsame.2.2] at h ⊢; exact hinv.1 id h
    · intro id h; simp only [hsame.2.1, hsame.2.2] at h ⊢; exact hinv.2 id h
  | setMode s m ids => exact hinv
  | deleteItems s ids => exact hinv

/-- consequence: a background `DeleteSubscription(id)` that is pending when a
    subscription is created can never remove it, however late it runs (the former
    finding C32.stale-delete-kills-foreign-subscription) -/
theorem C32_pending_cannot_hit_new (st : St) (sess k : Nat) (hinv : SubInv st)
    (hw : st.subCtr + 1 < 4294967296) :
    ∃ o, o.owner = sess ∧ o.id = st.subCtr + 1 ∧
      (st.subCtr + 1, o) ∈ (applyDelete (createSub st sess).2 k).2.subs := by
  obtain ⟨_, hfresh, hpend, _⟩ := C32_sub_id_fresh st sess hinv hw
  have hid : nextID st.subCtr = st.subCtr + 1 := nextID_small _ hw
  refine ⟨⟨st.nextUid, st.subCtr + 1, sess⟩, rfl, rfl, ?_⟩
  have hmem : (st.subCtr + 1, (⟨st.nextUid, st.subCtr + 1, sess⟩ : SubObj)) ∈ (createSub st sess).2.subs := by
    simp only [createSub, hid]
    rw [putSub_fresh _ _ _ (by simpa [liveSubIds] using hfresh)]
    simp
  refine (C32_apply_frame (createSub st sess).2 k).1 _ hmem ?_
  intro id hp e
  have : id ∈ st.pending := by
    have := List.mem_of_getElem? hp
    simpa [createSub] using this
  have e' : st.subCtr + 1 = id := e
  exact hpend (e' ▸ this)

-- ---------------------------------------------------------------- the wrap of the two 32-bit counters

/-- both counters use the same scheme: the successor never is 0 and stays a 32-bit number; it is
    c+1 below the wrap, and after 2^32-1 comes 1 (0 is skipped) -/
theorem C32_nextID_wrap :
    (∀ c, nextID c ≠ 0 ∧ nextID c < 4294967296) ∧
    (∀ c, c + 1 < 4294967296 → nextID c = c + 1) ∧
    nextID 4294967295 = 1 ∧ nextID 4294967294 = 4294967295 := by
  refine ⟨?_, fun c h => nextID_small c h, by decide, by decide⟩
  intro c
  unfold nextID
  have hlt : (c + 1) % 4294967296 < 4294967296 := Nat.mod_lt _ (by decide)
  by_cases h : (c + 1) % 4294967296 = 0
  · simp [h]
  · simp only [h, ↓reduceIte]; exact ⟨h, hlt⟩

/-- the hypothesis "below the wrap" of the two freshness theorems is needed: once a counter has
    gone round, the id it hands out can be one that is still in use (server alive for more than
    2^32 subscriptions / monitored items — recorded as an assumption, not repaired) -/
theorem C32_wrap_can_reuse_live_id :
    -- subscriptions: counter at 2^32-1, subscription 1 still alive
    (let st : St := { St.init 0 4294967295 with subs := [(1, ⟨1, 1, 1⟩)] }
     SubInv st ∧ (createSub st 2).1 = .subId 1 ∧ 1 ∈ liveSubIds st) ∧
    -- monitored items: counter at 2^32-1, item 1 still alive
    (let st : St := { St.init 4294967295 5 with subs := [(5, ⟨1, 5, 1⟩)], items := [⟨1, ⟨1, 5, 1⟩, 0⟩] }
     ItemInv st ∧ (createItems st 1 5 1).1 = .itemIds [1] ∧ 1 ∈ liveItemIds st) := by
  refine ⟨⟨?_, by decide, by decide⟩, ⟨?_, by decide, by decide⟩⟩
  · refine ⟨?_, ?_⟩
    · intro id h
      have : id = 1 := by simpa [liveSubIds, St.init] using h
      subst this; simp [St.init]
    · intro id h; simp [St.init] at h
  · refine ⟨?_, by simp [St.init]⟩
    intro it h
    have : it = ⟨1, ⟨1, 5, 1⟩, 0⟩ := by simpa [St.init] using h
    subst this; simp [St.init]

-- ---------------------------------------------------------------- session scope

/-- DeleteSubscriptions: the table and the items are not touched by the request
    itself, and every background deletion it spawns names a subscription that
    belongs to the requesting session at that moment -/
theorem C32_deleteSubs_scoped (st : St) (sess : Nat) (ids : List Nat) :
    (deleteSubs st sess ids).2.subs = st.subs ∧ (deleteSubs st sess ids).2.items = st.items ∧
    ∃ sp, (deleteSubs st sess ids).2.pending = st.pending ++ sp ∧
      ∀ id ∈ sp, ∃ o, lookupSub st.subs id = some o ∧ o.owner = sess ∧ sess ≠ 0 := by
  refine ⟨rfl, rfl, (deleteSubsLoop st.subs sess ids).2.1, rfl, ?_⟩
  exact deleteSubsLoop_spawned st.subs sess ids

/-- … and a request that names only unknown or foreign subscriptions is refused
    entry by entry (BadSubscriptionIdInvalid / BadSessionIdInvalid) and has no
    effect at all -/
theorem C32_deleteSubs_refused (st : St) (sess : Nat) (ids : List Nat) (hs : sess ≠ 0)
    (hall : ∀ id ∈ ids, lookupSub st.subs id = none ∨
      ∃ o, lookupSub st.subs id = some o ∧ o.owner ≠ sess ∧ o.owner ≠ 0) :
    (deleteSubs st sess ids).2 = st ∧
    ∃ ss, (deleteSubs st sess ids).1 = .statuses ss ∧ ss.length = ids.length ∧
      ∀ s ∈ ss, s = .badSubscriptionIdInvalid ∨ s = .badSessionIdInvalid := by
  obtain ⟨h1, h2, h3⟩ := deleteSubsLoop_refuses st.subs sess ids hall hs
  have e1 : (deleteSubsLoop st.subs sess ids).2.1 = [] := by rw [h1]
  have e2 : (deleteSubsLoop st.subs sess ids).2.2 = false := by rw [h1]
  refine ⟨?_, (deleteSubsLoop st.subs sess ids).1, ?_, h2, h3⟩
  · simp [deleteSubs, e1]
  · simp [deleteSubs, e2]

/-- CreateMonitoredItems on a subscription of another session is refused and
    changes nothing -/
theorem C32_createItems_scoped (st : St) (sess sub n : Nat) (o : SubObj)
    (hl : lookupSub st.subs sub = some o) (hs : sess ≠ 0) (ho : o.owner ≠ 0) (hne : o.owner ≠ sess) :
    createItems st sess sub n = (.errNotYours, st) := by
  simp [createItems, hl, hs, ho, hne]

/-- SetMonitoringMode by a session changes no monitored item of any other session —
    whatever ids it names — and never touches the subscription table (full strength
    since the repair; was false: C32.setmonitoringmode-foreign-item) -/
theorem C32_setMode_scoped (st : St) (sess mode : Nat) (ids : List Nat) (it : Item)
    (h : it ∈ st.items) (hf : it.sub.owner ≠ sess) :
    it ∈ (setMode st sess mode ids).2.items ∧ (setMode st sess mode ids).2.subs = st.subs :=
  ⟨setModeLoop_scoped sess mode ids st.items it h hf, rfl⟩

/-- DeleteMonitoredItems by a session deletes no monitored item of any other session —
    whatever ids it names (full strength since the repair; was false:
    C32.deletemonitoreditems-foreign-item) -/
theorem C32_deleteItems_scoped (st : St) (sess : Nat) (ids : List Nat) (hinv : ItemInv st) (it : Item)
    (h : it ∈ st.items) (hf : it.sub.owner ≠ sess) :
    it ∈ (deleteItems st sess ids).2.items ∧ (deleteItems st sess ids).2.subs = st.subs := by
  refine ⟨?_, rfl⟩
  simp only [deleteItems, List.mem_filter, h, true_and, Bool.not_eq_true', List.contains_eq_mem,
    decide_eq_false_iff_not]
  intro hc
  obtain ⟨x, hx, hown⟩ := deleteItemsLoop_own st.items sess ids it.id hc
  rw [lookupItem_self st.items hinv.2 it h] at hx
  cases hx
  exact hf hown

/-- a request of the two item services that names only unknown ids or items of other
    sessions is refused entry by entry (BadMonitoredItemIdInvalid / BadSessionIdInvalid)
    and has no effect at all (an unknown id was a nil dereference before the repair) -/
theorem C32_items_refused (st : St) (sess mode : Nat) (ids : List Nat) (hs : sess ≠ 0)
    (hall : ∀ id ∈ ids, lookupItem st.items id = none ∨
      ∃ x, lookupItem st.items id = some x ∧ x.sub.owner ≠ sess ∧ x.sub.owner ≠ 0) :
    ((setMode st sess mode ids).2 = st ∧
      ∃ ss, (setMode st sess mode ids).1 = .statuses ss ∧ ss.length = ids.length ∧
        ∀ s ∈ ss, s = .badMonitoredItemIdInvalid ∨ s = .badSessionIdInvalid) ∧
    ((deleteItems st sess ids).2 = st ∧
      ∃ ss, (deleteItems st sess ids).1 = .statuses ss ∧ ss.length = ids.length ∧
        ∀ s ∈ ss, s = .badMonitoredItemIdInvalid ∨ s = .badSessionIdInvalid) := by
  obtain ⟨h1, h2, h3⟩ := setModeLoop_refuses st.items sess mode ids hs hall
  obtain ⟨g1, g2, g3⟩ := deleteItemsLoop_refuses st.items sess ids hs hall
  have e1 : (setModeLoop st.items sess mode ids).2.1 = st.items := by rw [h1]
  have e2 : (setModeLoop st.items sess mode ids).2.2 = false := by rw [h1]
  have f1 : (deleteItemsLoop st.items sess ids).2.1 = [] := by rw [g1]
  have f2 : (deleteItemsLoop st.items sess ids).2.2 = false := by rw [g1]
  refine ⟨⟨?_, _, ?_, h2, h3⟩, ⟨?_, _, ?_, g2, g3⟩⟩
  · simp [setMode, e1]
  · simp [setMode, e2]
  · have hft : ∀ l : List Item, l.filter (fun _ => true) = l := by
      intro l; induction l with
      | nil => rfl
      | cons a r ih => simp [List.filter, ih]
    simp [deleteItems, f1, hft]
  · simp [deleteItems, f2]

-- ---------------------------------------------------------------- the former counterexamples, on the repaired code

/-- REPAIRED (was C32.subscription-id-reused-while-live): create, create, delete #1
    (the background call runs), create → the new subscription gets id 3; subscription 2
    of session 1 is untouched -/
theorem C32_repaired_subscription_id :
    let r := run (St.init 0) [.createSub 1, .createSub 1, .deleteSubs 1 [1], .apply 0, .createSub 2]
    r.1 = [.subId 1, .subId 2, .statuses [.ok], .applied true, .subId 3] ∧
    lookupSub r.2.subs 2 = some ⟨2, 2, 1⟩ ∧ lookupSub r.2.subs 3 = some ⟨3, 3, 2⟩ := by
  decide

/-- REPAIRED (was C32.setmonitoringmode-foreign-item / C32.deletemonitoreditems-foreign-item):
    session 2 naming an item of session 1 gets BadSessionIdInvalid and nothing changes;
    an unknown id gets BadMonitoredItemIdInvalid instead of a nil dereference -/
theorem C32_repaired_foreign_item :
    let r := run (St.init 0) [.createSub 1, .createItems 1 1 2, .setMode 2 7 [1, 9], .deleteItems 2 [2, 9],
                              .setMode 1 5 [9, 1]]
    r.1 = [.subId 1, .itemIds [1, 2], .statuses [.badSessionIdInvalid, .badMonitoredItemIdInvalid],
           .statuses [.badSessionIdInvalid, .badMonitoredItemIdInvalid],
           .statuses [.badMonitoredItemIdInvalid, .ok]] ∧
    r.2.items = [⟨1, ⟨1, 1, 1⟩, 5⟩, ⟨2, ⟨1, 1, 1⟩, 0⟩] := by
  decide

/-- REPAIRED (was C32.stale-delete-kills-foreign-subscription): the deferred second
    DeleteSubscription(1) of the old goroutine finds nothing, because session 2's new
    subscription has id 2 -/
theorem C32_repaired_stale_delete :
    let r := run (St.init 0) [.createSub 1, .deleteSubs 1 [1], .apply 0, .createSub 2,
                              .createItems 2 2 1, .apply 0]
    r.1 = [.subId 1, .statuses [.ok], .applied true, .subId 2, .itemIds [1], .applied false] ∧
    r.2.subs = [(2, ⟨2, 2, 2⟩)] ∧ r.2.items = [⟨1, ⟨2, 2, 2⟩, 0⟩] := by
  decide

/-- non-vacuity: a well-behaved history -/
example : (run (St.init 10) [.createSub 1, .createSub 2, .createItems 1 1 2, .createItems 2 1 1,
      .deleteSubs 2 [1, 9], .setMode 1 3 [11], .deleteItems 1 [12], .deleteSubs 1 [1], .apply 0]).1 =
    [.subId 1, .subId 2, .itemIds [11, 12], .errNotYours, .statuses [.badSessionIdInvalid, .badSubscriptionIdInvalid],
     .statuses [.ok], .statuses [.ok], .statuses [.ok], .applied true] := by decide

end Opcua.Props.C32
