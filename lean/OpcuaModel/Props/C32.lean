import OpcuaModel.Model.SrvIdsLemmas
/-
  C32 — server subscription and monitored item ids are unique and session-scoped.

  `SrvIds.step` mirrors CreateSubscription, DeleteSubscriptions (+ the spawned
  `DeleteSubscription(id)` calls as explicit `apply` steps), CreateMonitoredItems,
  SetMonitoringMode, DeleteMonitoredItems (tied by the C32 correspondence run
  against the real service handlers, with the background calls scheduled
  through `verifPoint`).

  What holds on the unchanged code: monitored item ids are fresh (below the
  2^32 wrap); subscription ids are fresh only while the table is `{1..n}`
  (`C32_sub_id_fresh_partial`); DeleteSubscriptions and CreateMonitoredItems
  refuse foreign subscriptions and touch nothing (`C32_deleteSubs_scoped`,
  `C32_createItems_scoped`); SetMonitoringMode / DeleteMonitoredItems leave every
  item they do not name alone (`…_frame`).
  What does not hold (machine-checked counterexamples, listed findings):
  a subscription id is handed out while a subscription with that id is alive;
  SetMonitoringMode and DeleteMonitoredItems act on foreign items and answer
  Good; a stale background `DeleteSubscription(id)` deletes a new subscription
  of another session that got the same id.
-/
namespace Opcua.Props.C32
open Opcua.SrvIds

-- ---------------------------------------------------------------- uniqueness

/-- monitored item ids: below the wrap of the 32-bit counter, the ids handed out
    by one CreateMonitoredItems are pairwise distinct and distinct from every id
    in use, and the invariant "ids in use are in 1..counter" is kept -/
theorem C32_item_ids_fresh (st st' : St) (sess sub n : Nat) (ids : List Nat)
    (hinv : ItemInv st) (hw : st.itemCtr + n < 4294967296)
    (h : createItems st sess sub n = (.itemIds ids, st')) :
    ids.Nodup ∧ (∀ i ∈ ids, i ∉ liveItemIds st ∧ i ≠ 0) ∧ ItemInv st' := by
  unfold createItems at h
  cases hl : lookupSub st.subs sub with
  | none => simp [hl] at h
  | some o =>
    simp only [hl] at h
    split at h
    · simp at h
    · split at h
      · simp at h
      · simp only [Prod.mk.injEq, Out.itemIds.injEq] at h
        obtain ⟨h1, h2⟩ := h
        obtain ⟨hc, hm⟩ := allocIds_small n st.itemCtr hw
        subst h1
        refine ⟨allocIds_nodup n st.itemCtr hw, ?_, ?_⟩
        · intro i hi
          have hr := (hm i).1 hi
          refine ⟨?_, by omega⟩
          intro hlive
          simp only [liveItemIds, List.mem_map] at hlive
          obtain ⟨it, hit, rfl⟩ := hlive
          have := hinv it hit
          omega
        · subst h2
          intro it hit
          simp only [List.mem_append, List.mem_map] at hit
          rcases hit with hit | ⟨i, hi, rfl⟩
          · have := hinv it hit; simp only [hc]; omega
          · have hr := (hm i).1 hi; simp only [hc]; omega

/-- subscription ids, partial: while the table is exactly {1..n} the new id n+1
    is not in use and the table stays dense -/
theorem C32_sub_id_fresh_partial (st : St) (sess : Nat) (hd : Dense st) :
    ∃ id, (createSub st sess).1 = .subId id ∧ id ∉ liveSubIds st ∧ Dense (createSub st sess).2 := by
  have hfresh : st.subs.length + 1 ∉ liveSubIds st := by
    intro h; have := (hd _).1 h; omega
  refine ⟨st.subs.length + 1, rfl, hfresh, ?_⟩
  intro id
  simp only [createSub, liveSubIds] at hfresh ⊢
  rw [putSub_fresh _ _ _ hfresh]
  simp only [List.map_append, List.map_cons, List.map_nil, List.mem_append, List.mem_singleton,
    List.length_append, List.length_cons, List.length_nil]
  have := hd id
  simp only [liveSubIds] at this
  rw [this]; omega

/-- FINDING C32.subscription-id-reused-while-live — create, create, delete #1
    (the background call runs), create: the server hands out id 2 again while
    subscription 2 of session 1 is alive, and the table entry is overwritten -/
theorem C32_finding_subscription_id_reused :
    let r := run (St.init 0) [.createSub 1, .createSub 1, .deleteSubs 1 [1], .apply 0, .createSub 2]
    r.1 = [.subId 1, .subId 2, .statuses [.ok], .applied true, .subId 2] ∧
    -- id 2 was live (owned by session 1) when it was handed out again …
    2 ∈ liveSubIds (run (St.init 0) [.createSub 1, .createSub 1, .deleteSubs 1 [1], .apply 0]).2 ∧
    -- … and the entry now belongs to session 2: session 1's subscription is unreachable
    lookupSub r.2.subs 2 = some ⟨3, 2, 2⟩ := by
  decide

-- ---------------------------------------------------------------- session scope: what holds

/-- DeleteSubscriptions: the table and the items are not touched by the request
    itself, and every background deletion it spawns names a subscription that
    belongs to the requesting session at that moment -/
theorem C32_deleteSubs_scoped (st : St) (sess : Nat) (ids : List Nat) :
    (deleteSubs st sess ids).2.subs = st.subs ∧ (deleteSubs st sess ids).2.items = st.items ∧
    ∃ sp, (deleteSubs st sess ids).2.pending = st.pending ++ sp ∧
      ∀ id ∈ sp, ∃ o, lookupSub st.subs id = some o ∧ o.owner = sess ∧ sess ≠ 0 := by
  refine ⟨rfl, rfl, (deleteSubsLoop st.subs sess ids).2.1, rfl, ?_⟩
  exact deleteSubsLoop_spawned st.subs sess ids

/-- … and a request that names only unknown or foreign subscriptions is refused
    entry by entry (BadSubscriptionIdInvalid / BadSessionIdInvalid) and has no
    effect at all -/
theorem C32_deleteSubs_refused (st : St) (sess : Nat) (ids : List Nat) (hs : sess ≠ 0)
    (hall : ∀ id ∈ ids, lookupSub st.subs id = none ∨
      ∃ o, lookupSub st.subs id = some o ∧ o.owner ≠ sess ∧ o.owner ≠ 0) :
    (deleteSubs st sess ids).2 = st ∧
    ∃ ss, (deleteSubs st sess ids).1 = .statuses ss ∧ ss.length = ids.length ∧
      ∀ s ∈ ss, s = .badSubscriptionIdInvalid ∨ s = .badSessionIdInvalid := by
  obtain ⟨h1, h2, h3⟩ := deleteSubsLoop_refuses st.subs sess ids hall hs
  have e1 : (deleteSubsLoop st.subs sess ids).2.1 = [] := by rw [h1]
  have e2 : (deleteSubsLoop st.subs sess ids).2.2 = false := by rw [h1]
  refine ⟨?_, (deleteSubsLoop st.subs sess ids).1, ?_, h2, h3⟩
  · simp [deleteSubs, e1]
  · simp [deleteSubs, e2]

/-- CreateMonitoredItems on a subscription of another session is refused and
    changes nothing -/
theorem C32_createItems_scoped (st : St) (sess sub n : Nat) (o : SubObj)
    (hl : lookupSub st.subs sub = some o) (hs : sess ≠ 0) (ho : o.owner ≠ 0) (hne : o.owner ≠ sess) :
    createItems st sess sub n = (.errNotYours, st) := by
  simp [createItems, hl, hs, ho, hne]

/-- SetMonitoringMode leaves every item it does not name exactly as it was, and
    never touches the subscription table -/
theorem C32_setMode_frame (st : St) (sess mode : Nat) (ids : List Nat) (it : Item)
    (h : it ∈ st.items) (hn : it.id ∉ ids) :
    it ∈ (setMode st sess mode ids).2.items ∧ (setMode st sess mode ids).2.subs = st.subs :=
  ⟨setModeLoop_frame sess mode ids st.items it h hn, rfl⟩

/-- DeleteMonitoredItems removes only items it names, and never touches the
    subscription table -/
theorem C32_deleteItems_frame (st : St) (sess : Nat) (ids : List Nat) (it : Item)
    (h : it ∈ st.items) (hn : it.id ∉ ids) :
    it ∈ (deleteItems st sess ids).2.items ∧ (deleteItems st sess ids).2.subs = st.subs := by
  refine ⟨?_, rfl⟩
  simp only [deleteItems, List.mem_filter, h, true_and, Bool.not_eq_true', List.contains_eq_mem,
    decide_eq_false_iff_not]
  exact fun hc => hn (deleteItemsLoop_named st.items sess ids it.id hc)

/-- partial scope theorem for the two item services: if every item the request
    names belongs to the requesting session, no item of another session changes -/
theorem C32_items_scoped_partial (st : St) (sess mode : Nat) (ids : List Nat)
    (hown : ∀ it ∈ st.items, it.id ∈ ids → it.sub.owner = sess) (it : Item)
    (h : it ∈ st.items) (hf : it.sub.owner ≠ sess) :
    it ∈ (setMode st sess mode ids).2.items ∧ it ∈ (deleteItems st sess ids).2.items := by
  have hn : it.id ∉ ids := fun hi => hf (hown it h hi)
  exact ⟨(C32_setMode_frame st sess mode ids it h hn).1, (C32_deleteItems_frame st sess ids it h hn).1⟩

/-- a background DeleteSubscription(id) call removes only what is registered
    under that id: other table entries and the items of other subscription ids stay -/
theorem C32_apply_frame (st : St) (k : Nat) :
    (∀ e ∈ st.subs, (∀ id, st.pending[k]? = some id → e.1 ≠ id) → e ∈ (applyDelete st k).2.subs) ∧
    (∀ it ∈ st.items, (∀ id, st.pending[k]? = some id → it.sub.id ≠ id) → it ∈ (applyDelete st k).2.items) := by
  unfold applyDelete
  cases hp : st.pending[k]? with
  | none => simp
  | some id =>
    simp only [Option.some.injEq, forall_eq']
    cases hl : lookupSub st.subs id with
    | none =>
      simp only []
      exact ⟨fun e he _ => he, fun it hit hne => by simp [hit, hne]⟩
    | some o =>
      simp only [eraseSub]
      exact ⟨fun e he hne => by simp [he, hne], fun it hit hne => by simp [hit, hne]⟩

-- ---------------------------------------------------------------- session scope: what does not hold

/-- FINDING C32.setmonitoringmode-foreign-item — session 2 sets the monitoring
    mode of an item of session 1: answered Good, and the mode is changed -/
theorem C32_finding_setmode_foreign :
    let r := run (St.init 0) [.createSub 1, .createItems 1 1 1, .setMode 2 7 [1]]
    r.1 = [.subId 1, .itemIds [1], .statuses [.ok]] ∧
    r.2.items = [⟨1, ⟨1, 1, 1⟩, 7⟩] := by
  decide

/-- FINDING C32.deletemonitoreditems-foreign-item — session 2 deletes an item of
    session 1: answered Good, and the item is gone -/
theorem C32_finding_deleteitems_foreign :
    let r := run (St.init 0) [.createSub 1, .createItems 1 1 2, .deleteItems 2 [2]]
    r.1 = [.subId 1, .itemIds [1, 2], .statuses [.ok]] ∧
    r.2.items = [⟨1, ⟨1, 1, 1⟩, 0⟩] := by
  decide

/-- FINDING C32.stale-delete-kills-foreign-subscription — the subscription
    goroutine calls DeleteSubscription(id) once more when it exits; if that call
    runs after the id was handed out again, it deletes the new subscription (here
    of session 2) together with its monitored items -/
theorem C32_finding_stale_delete :
    let r := run (St.init 0) [.createSub 1, .deleteSubs 1 [1], .apply 0, .createSub 2,
                              .createItems 2 1 1, .apply 0]
    r.1 = [.subId 1, .statuses [.ok], .applied true, .subId 1, .itemIds [1], .applied true] ∧
    r.2.subs = [] ∧ r.2.items = [] := by
  decide

/-- the unknown-id outcome of the two item services (a nil dereference, recorded
    under C29): the model value, for the record -/
theorem C32_unknown_item_id_panics :
    (run (St.init 0) [.createSub 1, .setMode 1 1 [5]]).1 = [.subId 1, .panic] ∧
    (run (St.init 0) [.createSub 1, .deleteItems 1 [5]]).1 = [.subId 1, .panic] := by
  decide

/-- non-vacuity: a well-behaved history -/
example : (run (St.init 10) [.createSub 1, .createSub 2, .createItems 1 1 2, .createItems 2 1 1,
      .deleteSubs 2 [1, 9], .setMode 1 3 [11], .deleteItems 1 [12], .deleteSubs 1 [1], .apply 0]).1 =
    [.subId 1, .subId 2, .itemIds [11, 12], .errNotYours, .statuses [.badSessionIdInvalid, .badSubscriptionIdInvalid],
     .statuses [.ok], .statuses [.ok], .statuses [.ok], .applied true] := by decide

end Opcua.Props.C32
