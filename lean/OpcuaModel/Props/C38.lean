import OpcuaModel.Base.Tactics
import OpcuaModel.Model.SecureLen
import OpcuaModel.Gen.MaxBody
import OpcuaModel.Gen.Policies
/-
  C38 — a maximal chunk body always fits the negotiated chunk size.

  `Gen.setMaximumBodySize` is the machine translation of
  `channelInstance.SetMaximumBodySize`, `Gen.symmetricRows` the parameter table
  the policy constructors compute, `secureLen` the hand model of
  `signAndEncrypt` (tied by the C38 correspondence run).  All theorems are for
  every chunk size ≥ 8192 (unbounded) and every row of the table.
-/
namespace Opcua.Props.C38
open Opcua

/-- the body size the channel places in one chunk -/
def maxBody (a : AlgoParams) (cs : Int) : Int := Gen.setMaximumBodySize a cs

theorem rows_cases {a : AlgoParams} (h : a ∈ Gen.symmetricRows) :
    a = Gen.symAes128_Sha256_RsaOaep ∨ a = Gen.symAes256_Sha256_RsaPss ∨ a = Gen.symBasic128Rsa15 ∨
    a = Gen.symBasic256 ∨ a = Gen.symBasic256Sha256 ∨ a = Gen.symNone := by
  simpa [Gen.symmetricRows] using h

/-- the maximal body is a sensible number: positive and below the chunk size
    (in particular the `uint32` conversion in the code never wraps) -/
theorem C38_maxBody_range (a : AlgoParams) (ha : a ∈ Gen.symmetricRows) (cs : Int) (h : 8192 ≤ cs)
    (hcs : cs < 4294967296) :
    0 < maxBody a cs ∧ maxBody a cs < cs := by
  have h0 : (0:Int) ≤ cs - 12 - 4 := by omega
  rcases rows_cases ha with rfl | rfl | rfl | rfl | rfl | rfl <;>
    simp only [maxBody, Gen.setMaximumBodySize, Gen.symAes128_Sha256_RsaOaep, Gen.symAes256_Sha256_RsaPss,
      Gen.symBasic128Rsa15, Gen.symBasic256, Gen.symBasic256Sha256, Gen.symNone] <;>
    go_divmod <;> simp <;> omega

/-- every body up to the maximum yields a secured chunk that fits, in every mode -/
theorem C38_fits (a : AlgoParams) (ha : a ∈ Gen.symmetricRows) (m : Mode) (cs : Int) (h : 8192 ≤ cs)
    (hcs : cs < 4294967296) (n : Int) (hn0 : 0 ≤ n) (hn : n ≤ maxBody a cs) :
    (secureLen a m (rawLenOfBody n)).chunkLen ≤ cs := by
  have h0 : (0:Int) ≤ cs - 12 - 4 := by omega
  revert hn
  rcases rows_cases ha with rfl | rfl | rfl | rfl | rfl | rfl <;>
    simp only [maxBody, Gen.setMaximumBodySize, Gen.symAes128_Sha256_RsaOaep, Gen.symAes256_Sha256_RsaPss,
      Gen.symBasic128Rsa15, Gen.symBasic256, Gen.symBasic256Sha256, Gen.symNone] <;>
    go_divmod <;>
    cases m <;> simp [secureLen, rawLenOfBody, symHeaderLength] <;> intro hn <;>
    go_divmod <;> omega

/-- in SignAndEncrypt mode the plaintext handed to the cipher is a whole number
    of cipher blocks (so `AES.Encrypt` accepts it) — for every body size -/
theorem C38_aligned (a : AlgoParams) (ha : a ∈ Gen.symmetricRows) (n : Int) (hn0 : 0 ≤ n) :
    (secureLen a .signAndEncrypt (rawLenOfBody n)).encryptOk = true ∧
    Int.tmod (secureLen a .signAndEncrypt (rawLenOfBody n)).plainLen a.plaintextBlockSize = 0 := by
  rcases rows_cases ha with rfl | rfl | rfl | rfl | rfl | rfl <;>
    simp only [Gen.symAes128_Sha256_RsaOaep, Gen.symAes256_Sha256_RsaPss,
      Gen.symBasic128Rsa15, Gen.symBasic256, Gen.symBasic256Sha256, Gen.symNone] <;>
    simp [secureLen, rawLenOfBody, symHeaderLength] <;>
    go_divmod <;>
    (try split) <;>
    go_divmod <;> omega

/-- the MessageSize field written into the chunk equals the chunk's length,
    in every mode and for every body size -/
theorem C38_sizeField (a : AlgoParams) (ha : a ∈ Gen.symmetricRows) (m : Mode) (n : Int) (hn0 : 0 ≤ n) :
    (secureLen a m (rawLenOfBody n)).sizeField = (secureLen a m (rawLenOfBody n)).chunkLen := by
  rcases rows_cases ha with rfl | rfl | rfl | rfl | rfl | rfl <;>
    simp only [Gen.symAes128_Sha256_RsaOaep, Gen.symAes256_Sha256_RsaPss,
      Gen.symBasic128Rsa15, Gen.symBasic256, Gen.symBasic256Sha256, Gen.symNone] <;>
    cases m <;> simp [secureLen, rawLenOfBody, symHeaderLength] <;>
    go_divmod <;>
    (try split) <;>
    go_divmod <;> omega

/-- the bound is tight: in SignAndEncrypt mode one more body byte no longer fits -/
theorem C38_tight (a : AlgoParams) (ha : a ∈ Gen.symmetricRows) (cs : Int) (h : 8192 ≤ cs)
    (hcs : cs < 4294967296) :
    cs < (secureLen a .signAndEncrypt (rawLenOfBody (maxBody a cs + 1))).chunkLen := by
  have h0 : (0:Int) ≤ cs - 12 - 4 := by omega
  rcases rows_cases ha with rfl | rfl | rfl | rfl | rfl | rfl <;>
    simp only [maxBody, Gen.setMaximumBodySize, Gen.symAes128_Sha256_RsaOaep, Gen.symAes256_Sha256_RsaPss,
      Gen.symBasic128Rsa15, Gen.symBasic256, Gen.symBasic256Sha256, Gen.symNone] <;>
    go_divmod <;>
    simp [secureLen, rawLenOfBody, symHeaderLength] <;>
    go_divmod <;> omega

/-- non-vacuity: the default chunk size 65535 with Basic256Sha256 -/
example : maxBody Gen.symBasic256Sha256 65535 = 65463 ∧
    (secureLen Gen.symBasic256Sha256 .signAndEncrypt (rawLenOfBody 65463)).chunkLen = 65520 ∧
    (secureLen Gen.symBasic256Sha256 .signAndEncrypt (rawLenOfBody 65464)).chunkLen = 65536 := by decide

end Opcua.Props.C38
