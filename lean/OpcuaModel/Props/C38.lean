import OpcuaModel.Base.Tactics
import OpcuaModel.Model.SecureLen
import OpcuaModel.Gen.MaxBody
import OpcuaModel.Gen.Policies
/-
  C38 — a maximal chunk body always fits the negotiated chunk size.

  `Gen.setMaximumBodySize` is the machine translation of
  `channelInstance.SetMaximumBodySize`, `Gen.symmetricRows` the parameter table
  the policy constructors compute, `secureLen` the hand model of
  `signAndEncrypt` (tied by the C38 correspondence run).

  The theorems are stated for EVERY parameter row satisfying the decidable
  side condition `RowOk` (a 16-byte block cipher without block overhead, or the
  null cipher; any signature length up to 1024 bytes), for every chunk size
  ≥ 8192 (unbounded below 2^32, the wire type) and every body size; `C38_rows_ok`
  shows by evaluation that every row of the regenerated table satisfies it, and
  the `C38_table_*` corollaries instantiate them for the table.
-/
namespace Opcua.Props.C38
open Opcua

/-- the body size the channel places in one chunk -/
def maxBody (a : AlgoParams) (cs : Int) : Int := Gen.setMaximumBodySize a cs

/-- side condition on a symmetric parameter row (decidable) -/
def RowOk (a : AlgoParams) : Prop :=
  (a.blockSize = 16 ∨ a.blockSize = 1) ∧ a.plaintextBlockSize = a.blockSize ∧
  0 ≤ a.signatureLength ∧ a.signatureLength ≤ 1024 ∧ a.remoteSignatureLength ≤ 256

instance (a : AlgoParams) : Decidable (RowOk a) := by unfold RowOk; infer_instance

/-- every policy the code supports satisfies the side condition -/
theorem C38_rows_ok : ∀ a ∈ Gen.symmetricRows, RowOk a := by decide

/-- the maximal body is a sensible number: positive and below the chunk size
    (in particular the `uint32` conversion in the code never wraps) -/
theorem C38_maxBody_range (a : AlgoParams) (ha : RowOk a) (cs : Int) (h : 8192 ≤ cs)
    (hcs : cs < 4294967296) :
    0 < maxBody a cs ∧ maxBody a cs < cs := by
  obtain ⟨hb, hp, hs0, hs1, hr⟩ := ha
  have hr' : ¬ (a.remoteSignatureLength > 256) := by omega
  rcases hb with hb | hb <;>
    simp only [maxBody, Gen.setMaximumBodySize, hp, hb, hr', decide_false] <;>
    go_divmod <;> simp <;> omega

/-- every body up to the maximum yields a secured chunk that fits, in every mode -/
theorem C38_fits (a : AlgoParams) (ha : RowOk a) (m : Mode) (cs : Int) (h : 8192 ≤ cs)
    (hcs : cs < 4294967296) (n : Int) (hn0 : 0 ≤ n) (hn : n ≤ maxBody a cs) :
    (secureLen a m (rawLenOfBody n)).chunkLen ≤ cs := by
  obtain ⟨hb, hp, hs0, hs1, hr⟩ := ha
  have hr' : ¬ (a.remoteSignatureLength > 256) := by omega
  revert hn
  rcases hb with hb | hb <;>
    simp only [maxBody, Gen.setMaximumBodySize, hp, hb, hr', decide_false] <;>
    go_divmod <;>
    cases m <;> simp [secureLen, rawLenOfBody, symHeaderLength, hp, hb, hr'] <;> intro hn <;>
    go_divmod <;> (try split) <;> go_divmod <;> omega

/-- in SignAndEncrypt mode the plaintext handed to the cipher is a whole number
    of cipher blocks (so `AES.Encrypt` accepts it) — for every body size -/
theorem C38_aligned (a : AlgoParams) (ha : RowOk a) (n : Int) (hn0 : 0 ≤ n) :
    (secureLen a .signAndEncrypt (rawLenOfBody n)).encryptOk = true ∧
    Int.tmod (secureLen a .signAndEncrypt (rawLenOfBody n)).plainLen a.plaintextBlockSize = 0 := by
  obtain ⟨hb, hp, hs0, hs1, hr⟩ := ha
  have hr' : ¬ (a.remoteSignatureLength > 256) := by omega
  rcases hb with hb | hb <;>
    simp [secureLen, rawLenOfBody, symHeaderLength, hp, hb, hr'] <;>
    go_divmod <;> (try split) <;> go_divmod <;> omega

/-- the MessageSize field written into the chunk equals the chunk's length,
    in every mode and for every body size -/
theorem C38_sizeField (a : AlgoParams) (ha : RowOk a) (m : Mode) (n : Int) (hn0 : 0 ≤ n) :
    (secureLen a m (rawLenOfBody n)).sizeField = (secureLen a m (rawLenOfBody n)).chunkLen := by
  obtain ⟨hb, hp, hs0, hs1, hr⟩ := ha
  have hr' : ¬ (a.remoteSignatureLength > 256) := by omega
  rcases hb with hb | hb <;>
    cases m <;> simp [secureLen, rawLenOfBody, symHeaderLength, hp, hb, hr'] <;>
    go_divmod <;> (try split) <;> go_divmod <;> omega

/-- the bound is tight: in SignAndEncrypt mode one more body byte no longer fits -/
theorem C38_tight (a : AlgoParams) (ha : RowOk a) (cs : Int) (h : 8192 ≤ cs)
    (hcs : cs < 4294967296) :
    cs < (secureLen a .signAndEncrypt (rawLenOfBody (maxBody a cs + 1))).chunkLen := by
  obtain ⟨hb, hp, hs0, hs1, hr⟩ := ha
  have hr' : ¬ (a.remoteSignatureLength > 256) := by omega
  rcases hb with hb | hb <;>
    simp only [maxBody, Gen.setMaximumBodySize, hp, hb, hr', decide_false] <;>
    go_divmod <;>
    simp [secureLen, rawLenOfBody, symHeaderLength, hp, hb, hr'] <;>
    go_divmod <;> (try split) <;> go_divmod <;> omega

/-- monotone in the negotiated chunk size: a peer that grants a larger chunk
    never makes the channel place LESS body into one chunk -/
theorem C38_maxBody_mono (a : AlgoParams) (ha : RowOk a) (cs cs' : Int) (h : 8192 ≤ cs)
    (hle : cs ≤ cs') (hcs : cs' < 4294967296) :
    maxBody a cs ≤ maxBody a cs' := by
  obtain ⟨hb, hp, hs0, hs1, hr⟩ := ha
  have hr' : ¬ (a.remoteSignatureLength > 256) := by omega
  rcases hb with hb | hb <;>
    simp only [maxBody, Gen.setMaximumBodySize, hp, hb, hr', decide_false] <;>
    go_divmod <;> simp <;> omega

/-- the fixed per-chunk overhead is bounded: the channel gives up at most the
    headers, the signature, the padding byte and one cipher block of the chunk
    (so the body size is not merely safe but close to the best possible) -/
theorem C38_overhead_bounded (a : AlgoParams) (ha : RowOk a) (cs : Int) (h : 8192 ≤ cs)
    (hcs : cs < 4294967296) :
    cs - maxBody a cs ≤ 16 + 8 + a.signatureLength + 1 + (a.blockSize - 1) := by
  obtain ⟨hb, hp, hs0, hs1, hr⟩ := ha
  have hr' : ¬ (a.remoteSignatureLength > 256) := by omega
  rcases hb with hb | hb <;>
    simp only [maxBody, Gen.setMaximumBodySize, hp, hb, hr', decide_false] <;>
    go_divmod <;> simp <;> omega

/-- the property for the policies the code supports: all clauses at once -/
theorem C38_table (a : AlgoParams) (ha : a ∈ Gen.symmetricRows) (m : Mode) (cs : Int)
    (h : 8192 ≤ cs) (hcs : cs < 4294967296) (n : Int) (hn0 : 0 ≤ n) (hn : n ≤ maxBody a cs) :
    (secureLen a m (rawLenOfBody n)).chunkLen ≤ cs ∧
    (secureLen a m (rawLenOfBody n)).sizeField = (secureLen a m (rawLenOfBody n)).chunkLen ∧
    (secureLen a .signAndEncrypt (rawLenOfBody n)).encryptOk = true ∧
    cs < (secureLen a .signAndEncrypt (rawLenOfBody (maxBody a cs + 1))).chunkLen :=
  have ok := C38_rows_ok a ha
  ⟨C38_fits a ok m cs h hcs n hn0 hn, C38_sizeField a ok m n hn0, (C38_aligned a ok n hn0).1,
   C38_tight a ok cs h hcs⟩

/-- … and for the same policies: a larger negotiated chunk never shrinks the
    body, the body is positive and below the chunk size, and at most 72 bytes
    of a chunk (headers 24, signature ≤ 32, padding byte, one 16-byte block − 1)
    are not body — so at the protocol minimum 8192 at least 8120 bytes are -/
theorem C38_table_efficiency (a : AlgoParams) (ha : a ∈ Gen.symmetricRows) (cs cs' : Int)
    (h : 8192 ≤ cs) (hle : cs ≤ cs') (hcs : cs' < 4294967296) :
    maxBody a cs ≤ maxBody a cs' ∧ 0 < maxBody a cs ∧ maxBody a cs < cs ∧ cs - maxBody a cs ≤ 72 := by
  have ok := C38_rows_ok a ha
  have hsig : a.signatureLength ≤ 32 ∧ a.blockSize ≤ 16 := by
    revert a; decide
  have hb := C38_overhead_bounded a ok cs h (by omega)
  have hr := C38_maxBody_range a ok cs h (by omega)
  exact ⟨C38_maxBody_mono a ok cs cs' h hle hcs, hr.1, hr.2, by omega⟩

/-- non-vacuity: the default chunk size 65535 with Basic256Sha256 -/
example : maxBody Gen.symBasic256Sha256 65535 = 65463 ∧
    (secureLen Gen.symBasic256Sha256 .signAndEncrypt (rawLenOfBody 65463)).chunkLen = 65520 ∧
    (secureLen Gen.symBasic256Sha256 .signAndEncrypt (rawLenOfBody 65464)).chunkLen = 65536 := by decide

end Opcua.Props.C38
