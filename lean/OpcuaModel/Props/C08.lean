import OpcuaModel.Model.ChunkSpecLemmas
import OpcuaModel.Props.C07
/-
  C08 — secured chunks conform to the OPC UA Part 6 wire layout.

  Two independent definitions are related here:
    * implementation side `Chunk.signAndEncrypt` / `Chunk.verifyAndDecrypt`
      (`Model/Chunk.lean`, the statement-by-statement mirror of
      uasc/secure_channel_instance.go, tied to the code by the C07/C08
      differential runs), and
    * specification side `Spec.secureChunk` / `Spec.openChunk`
      (`Model/ChunkSpec.lean`, written from Part 6 §6.7.2: header, security header,
      sequence header inside the encrypted region, PaddingSize / Padding /
      ExtraPaddingSize, signature over header ‖ plaintext, encryption of
      everything after the security header).

  Symmetric chunks: every row of the regenerated policy table, every mode, any
  primitives satisfying `C07.CryptoOK`.  Asymmetric (OPN) chunks: ALL pairs of
  RSA key sizes and per-block overheads (`Chunk.asymParams`), any primitives
  satisfying `C07.AsymOK` (abstract per-block RSA).  Key derivation (the P_SHA
  clause of the property) is C14.
-/
namespace Opcua.Props.C08
open Opcua Opcua.Chunk Opcua.Spec

/-- the parts of a symmetric `MSG`/`CLO` chunk: the security header is the token id -/
def symParts (mt : Bytes) (flag : UInt8) (chan tok seq req : Nat) (body : Bytes) : Parts :=
  { msgType := mt, isFinal := flag, channelId := chan, secHeader := leBytes 4 tok, seqNum := seq,
    requestId := req, body := body }

/-- the specification's `rawChunk` of symmetric parts is what `EncodeChunks`
    writes (`Chunk.rawOf`, the object of the C07 theorems) -/
theorem C08_raw_is_encodeChunks (mt : Bytes) (flag : UInt8) (chan tok seq req : Nat) (body : Bytes) :
    rawChunk (symParts mt flag chan tok seq req body) = rawOf ⟨mt, chan, tok, 0, req⟩ flag seq body := by
  simp [rawChunk, symParts, rawOf, hdr24, Spec.header, sequenceHeader, u32, List.append_assoc]

/-- LAYOUT, symmetric: for every policy row, mode, contents — `signAndEncrypt`
    emits byte for byte the chunk the specification describes (or fails exactly
    when a primitive fails). -/
theorem C08_layout_sym (a : AlgoParams) (ha : a ∈ Gen.symmetricRows) (m : Mode) (pn : Bool) (c : Crypto)
    (mt : Bytes) (h3 : mt.length = 3) (flag : UInt8) (chan tok seq req : Nat) (body : Bytes) :
    signAndEncrypt ⟨m, pn, a, c⟩ false 16 (rawChunk (symParts mt flag chan tok seq req body)) =
      toRes (secureChunk (suiteOf ⟨m, pn, a, c⟩) (decide (m ≠ .none)) (decide (m ≠ .none) && decide (m = .signAndEncrypt))
        (symParts mt flag chan tok seq req body) 0) := by
  have hpos : 0 < a.plaintextBlockSize.toNat := by
    rcases rows_cases ha with rfl | rfl | rfl | rfl | rfl | rfl <;> decide
  have := signAndEncrypt_eq_spec ⟨m, pn, a, c⟩ false (symParts mt flag chan tok seq req body) h3 hpos
  simpa [symParts, Side.encrypts] using this

/-- LAYOUT of `CLO` (CloseSecureChannel) chunks: the instance of
    `C08_layout_sym` for message type "CLO" — same symmetric layout as `MSG`
    (the theorem is for every 3-byte message type).  A `CLO` is a single final
    chunk; on the receiving side `readChunk` ends the connection (`io.EOF`)
    without opening it (`Chunk.readChunk`, C07). -/
theorem C08_layout_clo (a : AlgoParams) (ha : a ∈ Gen.symmetricRows) (m : Mode) (pn : Bool) (c : Crypto)
    (chan tok seq req : Nat) (body : Bytes) :
    signAndEncrypt ⟨m, pn, a, c⟩ false 16 (rawChunk (symParts typeCLO chunkF chan tok seq req body)) =
      toRes (secureChunk (suiteOf ⟨m, pn, a, c⟩) (decide (m ≠ .none)) (decide (m ≠ .none) && decide (m = .signAndEncrypt))
        (symParts typeCLO chunkF chan tok seq req body) 0) :=
  C08_layout_sym a ha m pn c typeCLO rfl chunkF chan tok seq req body

/-- LAYOUT, asymmetric: for ALL key-size pairs and overheads, any security
    header bytes and any body — the same equality for `OPN` chunks (always
    encrypted), in the request direction (client → server) and the response
    direction (server → client) alike: the layout does not depend on the service. -/
theorem C08_layout_asym (ls rs pad : Nat) (hpad : pad < rs) (m : Mode) (pn : Bool) (c : Crypto)
    (p : Parts) (h3 : p.msgType.length = 3) :
    signAndEncrypt ⟨m, pn, asymParams ls rs pad, c⟩ true (12 + p.secHeader.length) (rawChunk p) =
      toRes (secureChunk (suiteOf ⟨m, pn, asymParams ls rs pad, c⟩) (decide (m ≠ .none)) (decide (m ≠ .none)) p 0) := by
  have hpos : 0 < (asymParams ls rs pad).plaintextBlockSize.toNat := by
    simp only [asymParams]; omega
  have := signAndEncrypt_eq_spec ⟨m, pn, asymParams ls rs pad, c⟩ true p h3 hpos
  simpa [Side.encrypts] using this

/-- CONFORMANCE, symmetric, modes Sign and SignAndEncrypt: the emitted chunk is
    the specification's chunk; a receiver that follows the specification (with
    the peer's primitives) recovers SequenceHeader ‖ Body from it; gopcua's own
    receiver does too. -/
theorem C08_conformance_sym (a : AlgoParams) (ha : a ∈ Gen.symmetricRows) (m : Mode) (hm : m ≠ .none)
    (pS pR : Bool) (cS cR : Crypto) (hc : C07.CryptoOK a cS cR)
    (mt : Bytes) (h3 : mt.length = 3) (flag : UInt8) (chan tok seq req : Nat) (body : Bytes) :
    ∃ w, signAndEncrypt ⟨m, pS, a, cS⟩ false 16 (rawChunk (symParts mt flag chan tok seq req body)) = .ok w ∧
      secureChunk (suiteOf ⟨m, pS, a, cS⟩) true (decide (m = .signAndEncrypt)) (symParts mt flag chan tok seq req body) 0 = some w ∧
      (w.length < 4294967296 →
        openChunk (recvSuiteOf ⟨m, pR, a, cR⟩) true (decide (m = .signAndEncrypt)) 16 w =
          some (leBytes 4 seq ++ leBytes 4 req ++ body)) ∧
      verifyAndDecrypt ⟨m, pR, a, cR⟩ false 16 w = .ok (leBytes 4 seq ++ leBytes 4 req ++ body) := by
  have := conformance (C07.paired_of_row a ha m pS pR cS cR hc) false hm (symParts mt flag chan tok seq req body) h3
  simpa [symParts, Side.encrypts, sequenceHeader] using this

/-- CONFORMANCE, asymmetric (`OPN`), for ALL key-size pairs: sender with key
    size `ls`, receiver with key size `rs` (the receiver's side has the sizes
    swapped). -/
theorem C08_conformance_asym (ls rs pad : Nat) (hpad : pad < rs) (hrs : rs ≤ 65536) (m : Mode) (hm : m ≠ .none)
    (pS pR : Bool) (cS cR : Crypto) (hc : C07.AsymOK ls rs pad cS cR) (p : Parts) (h3 : p.msgType.length = 3) :
    ∃ w, signAndEncrypt ⟨m, pS, asymParams ls rs pad, cS⟩ true (12 + p.secHeader.length) (rawChunk p) = .ok w ∧
      secureChunk (suiteOf ⟨m, pS, asymParams ls rs pad, cS⟩) true true p 0 = some w ∧
      (w.length < 4294967296 →
        openChunk (recvSuiteOf ⟨m, pR, asymParams rs ls pad, cR⟩) true true (12 + p.secHeader.length) w =
          some (sequenceHeader p ++ p.body)) ∧
      verifyAndDecrypt ⟨m, pR, asymParams rs ls pad, cR⟩ true (12 + p.secHeader.length) w =
        .ok (sequenceHeader p ++ p.body) := by
  have := conformance (C07.paired_asym ls rs pad hpad hrs m pS pR cS cR hc) true hm p h3
  simpa [Side.encrypts] using this

/-- CONFORMANCE OF THE EXECUTED INSTANCE: `C08_conformance_sym` for the
    primitives the drivers actually run (proved CBC over the reference AES block
    functions, reference HMAC, keys by the model of `uapolicy.Symmetric`); the
    only cryptographic assumptions left are the AES block inverse and the HMAC
    output length (`C07.AesBlockOK`, `C07.HmacLenOK`). -/
theorem C08_conformance_reference (a : AlgoParams) (ka : Keys.KeyAssign)
    (hk : (a, ka) ∈ Gen.symmetricRows.zip Gen.keyAssignRows) (hlen : C07.HmacLenOK) (haes : C07.AesBlockOK)
    (x y : Bytes) (m : Mode) (hm : m ≠ .none)
    (mt : Bytes) (h3 : mt.length = 3) (flag : UInt8) (chan tok seq req : Nat) (body : Bytes) :
    ∃ w, signAndEncrypt ⟨m, false, a, ChunkRef.refCrypto ka (Keys.symmetric ka CryptoRef.hmac x y)⟩ false 16
          (rawChunk (symParts mt flag chan tok seq req body)) = .ok w ∧
      (w.length < 4294967296 →
        openChunk (recvSuiteOf ⟨m, false, a, ChunkRef.refCrypto ka (Keys.symmetric ka CryptoRef.hmac y x)⟩) true
          (decide (m = .signAndEncrypt)) 16 w = some (leBytes 4 seq ++ leBytes 4 req ++ body)) ∧
      verifyAndDecrypt ⟨m, false, a, ChunkRef.refCrypto ka (Keys.symmetric ka CryptoRef.hmac y x)⟩ false 16 w =
        .ok (leBytes 4 seq ++ leBytes 4 req ++ body) := by
  obtain ⟨w, h1, -, h2, h4⟩ := C08_conformance_sym a (List.of_mem_zip hk).1 m hm false false _ _
    (C07.C07_reference_crypto_ok a ka hk hlen haes x y) mt h3 flag chan tok seq req body
  exact ⟨w, h1, h2, h4⟩

/-- ACCEPTS EVERY SPECIFICATION CHUNK, symmetric SignAndEncrypt: also when the
    peer pads with `k` additional whole blocks (as long as the count fits its
    byte), gopcua's receiver returns SequenceHeader ‖ Body. -/
theorem C08_accepts_spec_sym (a : AlgoParams) (ha : a ∈ Gen.symmetricRows) (pS pR : Bool) (cS cR : Crypto)
    (hc : C07.CryptoOK a cS cR) (mt : Bytes) (h3 : mt.length = 3) (flag : UInt8) (chan tok seq req : Nat)
    (body : Bytes) (k : Nat)
    (hk : paddingSize (suiteOf ⟨.signAndEncrypt, pS, a, cS⟩) (8 + body.length) k < 256) :
    ∃ w, secureChunk (suiteOf ⟨.signAndEncrypt, pS, a, cS⟩) true true (symParts mt flag chan tok seq req body) k = some w ∧
      verifyAndDecrypt ⟨.signAndEncrypt, pR, a, cR⟩ false 16 w = .ok (leBytes 4 seq ++ leBytes 4 req ++ body) := by
  have hx : (suiteOf ⟨.signAndEncrypt, pS, a, cS⟩).extraPadding = false := by
    rcases rows_cases ha with rfl | rfl | rfl | rfl | rfl | rfl <;>
      simp [suiteOf, Gen.symAes128_Sha256_RsaOaep, Gen.symAes256_Sha256_RsaPss, Gen.symBasic128Rsa15, Gen.symBasic256,
        Gen.symBasic256Sha256, Gen.symNone]
  have := verifyAndDecrypt_spec (C07.paired_of_row a ha .signAndEncrypt pS pR cS cR hc) false (by simp) (by rfl)
    (symParts mt flag chan tok seq req body) h3 k
    (by
      simp only [hx, countBound]
      have e : (sequenceHeader (symParts mt flag chan tok seq req body) ++ (symParts mt flag chan tok seq req body).body).length = 8 + body.length := by
        simp [symParts, sequenceHeader]; omega
      rw [e]; simpa using hk)
  simpa [symParts, sequenceHeader] using this

/-- ACCEPTS EVERY SPECIFICATION CHUNK, asymmetric. -/
theorem C08_accepts_spec_asym (ls rs pad : Nat) (hpad : pad < rs) (hrs : rs ≤ 65536) (m : Mode) (hm : m ≠ .none)
    (pS pR : Bool) (cS cR : Crypto) (hc : C07.AsymOK ls rs pad cS cR) (p : Parts) (h3 : p.msgType.length = 3) (k : Nat)
    (hk : paddingSize (suiteOf ⟨m, pS, asymParams ls rs pad, cS⟩) (sequenceHeader p ++ p.body).length k <
      countBound (suiteOf ⟨m, pS, asymParams ls rs pad, cS⟩).extraPadding) :
    ∃ w, secureChunk (suiteOf ⟨m, pS, asymParams ls rs pad, cS⟩) true true p k = some w ∧
      verifyAndDecrypt ⟨m, pR, asymParams rs ls pad, cR⟩ true (12 + p.secHeader.length) w =
        .ok (sequenceHeader p ++ p.body) :=
  verifyAndDecrypt_spec (C07.paired_asym ls rs pad hpad hrs m pS pR cS cR hc) true hm (by simp [Side.encrypts]) p h3 k hk

/-- non-vacuity / a concrete picture of the layout: null cipher, 16-byte blocks,
    3-byte body: SequenceHeader(8) ‖ Body(3) ‖ PaddingSize=4 ‖ 4 × 04, total 16. -/
example : secureChunk ⟨16, 16, 0, false, C07.nullCrypto⟩ true true
    ⟨typeMSG, chunkF, 1, [9, 0, 0, 0], 2, 3, [0xaa, 0xbb, 0xcc]⟩ 0 =
    some ([77, 83, 71, 70, 32, 0, 0, 0, 1, 0, 0, 0, 9, 0, 0, 0] ++
      [2, 0, 0, 0, 3, 0, 0, 0, 0xaa, 0xbb, 0xcc, 4, 4, 4, 4, 4]) := by decide

end Opcua.Props.C08
