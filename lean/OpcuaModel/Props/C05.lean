import OpcuaModel.Model.Uacp
import OpcuaModel.Model.UacpMsg
/-
  C05 — UACP framing delivers exactly the frames sent under any segmentation.

  `Uacp.receive` is the model of `(*uacp.Conn).Receive`, `Uacp.receiveAll` the
  caller's loop (delivered frames, reason for stopping); a `Stream` is the list
  of TCP segments in the order they arrive.  Everything below is for EVERY
  segmentation `segs` of the byte stream, every receive buffer size
  `8 ≤ rcvBuf` (unbounded) and frames of every length.

  The hypothesis `8 ≤ rcvBuf` is necessary: `Receive` slices `b[:8]` of a
  buffer of `ReceiveBufSize` bytes, `C05_small_buffer` shows the panic below 8.
  (A Conn gets such a value only from a hostile Acknowledge; that is C13's.)
-/
namespace Opcua.Props.C05
open Opcua Opcua.Uacp

/-- `io.ReadFull` over segments returns the first `n` bytes of the concatenation,
    and what is left concatenates to the remainder — for every segmentation -/
theorem C05_readFull_segmentation (n : Nat) (segs : Stream) (h : n ≤ segs.flatten.length) :
    ∃ rest, readFull n segs = .ok (segs.flatten.take n) rest ∧ rest.flatten = segs.flatten.drop n :=
  readFull_ok h

/-- … and fails (EOF before the first byte, UnexpectedEOF later) exactly when the
    stream is shorter, again independent of the segmentation -/
theorem C05_readFull_short (n : Nat) (segs : Stream) (h : segs.flatten.length < n) :
    readFull n segs = .err (if segs.flatten = [] then .eof else .unexpectedEOF) :=
  readFull_short h

/-- segmentation independence: two segmentations of the same byte stream give
    the same delivered frames and the same final outcome (no hypothesis at all) -/
theorem C05_segmentation (rcvBuf : Nat) (s₁ s₂ : Stream) (h : s₁.flatten = s₂.flatten) :
    receiveAll rcvBuf s₁ = receiveAll rcvBuf s₂ := by
  rw [receiveAll_flat, receiveAll_flat, h]

/-- the property: the peer sends well-formed frames `fs` (8 ≤ size ≤ rcvBuf, size
    field = length, type ≠ ERR) and closes; under EVERY segmentation the receiver
    delivers exactly `fs`, in order, byte for byte, and then sees a clean EOF -/
theorem C05_frames (rcvBuf : Nat) (h8 : 8 ≤ rcvBuf) (fs : List Bytes) (segs : Stream)
    (hfs : ∀ f ∈ fs, wellFormed rcvBuf f) (hseg : segs.flatten = fs.flatten) :
    receiveAll rcvBuf segs = (fs, .eof) := by
  have hb : ¬ rcvBuf < hdrlen := by simp [hdrlen]; omega
  have hnil : receiveAllFlat rcvBuf [] = ([], .eof) :=
    receiveAllFlat_stop (by simp [receiveFlat, hdrlen, shortErr]; omega)
  rw [receiveAll_flat, hseg, ← List.append_nil fs.flatten, receiveAllFlat_frames fs [] hfs, hnil]
  simp

/-- malformed header: after the good frames `fs` a header announces a size below 8
    or above the receive buffer (followed by anything).  Every segmentation gives:
    exactly `fs` delivered, then the matching error — no panic, nothing more delivered -/
theorem C05_malformed (rcvBuf : Nat) (h8 : 8 ≤ rcvBuf) (fs : List Bytes) (hdr tail : Bytes) (segs : Stream)
    (hfs : ∀ f ∈ fs, wellFormed rcvBuf f) (hlen : hdr.length = 8)
    (hbad : sizeOfHeader hdr < 8 ∨ rcvBuf < sizeOfHeader hdr)
    (hseg : segs.flatten = fs.flatten ++ (hdr ++ tail)) :
    receiveAll rcvBuf segs = (fs, if rcvBuf < sizeOfHeader hdr then .tooLarge else .tooSmall) := by
  have hb : ¬ rcvBuf < hdrlen := by simp [hdrlen]; omega
  have htk : (hdr ++ tail).take hdrlen = hdr := List.take_left' hlen
  have hl : ¬ (hdr ++ tail).length < hdrlen := by simp [hdrlen]; omega
  have hstop : receiveFlat rcvBuf (hdr ++ tail) =
      .stop (if rcvBuf < sizeOfHeader hdr then .tooLarge else .tooSmall) := by
    unfold receiveFlat
    simp only [hb, hl, if_false, htk]
    by_cases hL : rcvBuf < sizeOfHeader hdr
    · simp [hL]
    · have hS : sizeOfHeader hdr < hdrlen := by simp [hdrlen]; omega
      simp [hL, hS]
  rw [receiveAll_flat, hseg, receiveAllFlat_frames fs _ hfs, receiveAllFlat_stop hstop]
  simp

/-- an `ERR` frame (complete, size ≤ rcvBuf) is never delivered as a frame: it ends
    the stream with the decoded error, or with a decode error for a garbage body -/
theorem C05_errframe (rcvBuf : Nat) (fs : List Bytes) (e tail : Bytes) (segs : Stream)
    (hfs : ∀ f ∈ fs, wellFormed rcvBuf f) (he : completeFrame rcvBuf e) (hty : isErrType e = true)
    (hseg : segs.flatten = fs.flatten ++ (e ++ tail)) :
    receiveAll rcvBuf segs =
      (fs, match decodeErr (e.drop 8) with
           | none => .errDecode
           | some (c, r) => .errf c r) := by
  have hstop := receiveFlat_complete (rest := tail) he
  rw [hty] at hstop
  simp only [if_true] at hstop
  rw [receiveAll_flat, hseg, receiveAllFlat_frames fs _ hfs]
  cases hd : decodeErr (e.drop hdrlen) with
  | none =>
    rw [hd] at hstop
    have hd' : decodeErr (e.drop 8) = none := hd
    rw [receiveAllFlat_stop hstop, hd']; simp
  | some p =>
    obtain ⟨c, r⟩ := p
    rw [hd] at hstop
    have hd' : decodeErr (e.drop 8) = some (c, r) := hd
    rw [receiveAllFlat_stop hstop, hd']; simp

/-- truncation: the peer closes inside a frame (`part` is a proper prefix of a
    complete frame `f`).  Exactly the earlier frames are delivered, never the partial one;
    the outcome is EOF (cut on a frame boundary or right after a header) or UnexpectedEOF -/
theorem C05_truncated (rcvBuf : Nat) (h8 : 8 ≤ rcvBuf) (fs : List Bytes) (f : Bytes) (k : Nat) (segs : Stream)
    (hfs : ∀ g ∈ fs, wellFormed rcvBuf g) (hf : completeFrame rcvBuf f) (hk : k < f.length)
    (hseg : segs.flatten = fs.flatten ++ f.take k) :
    receiveAll rcvBuf segs = (fs, if k = 0 ∨ k = 8 then .eof else .unexpectedEOF) := by
  obtain ⟨hf8, hfle, hfsz⟩ := hf
  have hb : ¬ rcvBuf < hdrlen := by simp [hdrlen]; omega
  have hlk : (f.take k).length = k := by simp; omega
  have hstop : receiveFlat rcvBuf (f.take k) = .stop (if k = 0 ∨ k = 8 then .eof else .unexpectedEOF) := by
    unfold receiveFlat
    simp only [hb, if_false, hlk]
    by_cases hk8 : k < hdrlen
    · simp only [hk8, if_true, shortErr]
      by_cases hk0 : k = 0
      · subst hk0; simp
      · have : f.take k ≠ [] := by
          intro h; rw [h] at hlk; simp at hlk; omega
        have hk8' : k ≠ 8 := by simp [hdrlen] at hk8; omega
        simp [this, hk0, hk8']
    · have hk8' : hdrlen ≤ k := by omega
      have htk : (f.take k).take hdrlen = f.take hdrlen := by
        rw [List.take_take, Nat.min_eq_left hk8']
      have hL : ¬ sizeOfHeader (f.take hdrlen) > rcvBuf := by rw [sizeOfHeader_take, hfsz]; omega
      have hS : ¬ sizeOfHeader (f.take hdrlen) < hdrlen := by rw [sizeOfHeader_take, hfsz]; omega
      have hshort : ((f.take k).drop hdrlen).length < sizeOfHeader (f.take hdrlen) - hdrlen := by
        rw [sizeOfHeader_take, hfsz, List.length_drop, hlk]; omega
      simp only [hk8, if_false, htk, hL, hS, hshort, if_true, shortErr]
      by_cases hk8e : k = 8
      · subst hk8e
        have : (f.take 8).drop hdrlen = [] := by
          apply List.eq_nil_of_length_eq_zero; rw [List.length_drop, hlk]; rfl
        simp [this]
      · have : (f.take k).drop hdrlen ≠ [] := by
          intro h
          have := congrArg List.length h
          rw [List.length_drop, hlk] at this
          simp [hdrlen] at this hk8'; omega
        have hk0 : k ≠ 0 := by simp [hdrlen] at hk8'; omega
        simp [this, hk8e, hk0]
  rw [receiveAll_flat, hseg, receiveAllFlat_frames fs _ hfs, receiveAllFlat_stop hstop]
  simp

/-- for ANY byte stream at all (hostile peer), under every segmentation: the loop
    never panics when the buffer holds a header … -/
theorem C05_no_panic (rcvBuf : Nat) (h8 : 8 ≤ rcvBuf) (segs : Stream) :
    (receiveAll rcvBuf segs).2 ≠ .panic := by
  rw [receiveAll_flat]
  generalize segs.flatten = bs
  induction hn : bs.length using Nat.strongRecOn generalizing bs with
  | _ n ih =>
    rw [receiveAllFlat]
    split
    · rename_i o ho
      intro hp
      simp only at hp
      subst hp
      unfold receiveFlat at ho
      dsimp only at ho
      have hb : ¬ rcvBuf < hdrlen := by simp [hdrlen]; omega
      simp only [hb, if_false, shortErr] at ho
      repeat' split at ho
      all_goals cases ho
    · rename_i f r ho
      exact ih r.length (by rw [← hn]; exact receiveFlat_frame_lt ho) r rfl

/-- … and whatever it delivers are complete frames of the stream, in order, with
    nothing skipped: delivered frames concatenate to a prefix of the byte stream and
    each has 8 ≤ size ≤ rcvBuf, size field = length, type ≠ ERR (no partial frame ever) -/
theorem C05_delivered_sound (rcvBuf : Nat) (segs : Stream) :
    (∃ rest, segs.flatten = (receiveAll rcvBuf segs).1.flatten ++ rest) ∧
    ∀ f ∈ (receiveAll rcvBuf segs).1, wellFormed rcvBuf f := by
  rw [receiveAll_flat]
  generalize segs.flatten = bs
  induction hn : bs.length using Nat.strongRecOn generalizing bs with
  | _ n ih =>
    rw [receiveAllFlat]
    split
    · exact ⟨⟨bs, by simp⟩, by simp⟩
    · rename_i f r ho
      obtain ⟨hbs, hwf⟩ := receiveFlat_frame_inv ho
      obtain ⟨⟨rest, hrest⟩, hall⟩ := ih r.length (by rw [← hn]; exact receiveFlat_frame_lt ho) r rfl
      refine ⟨⟨rest, ?_⟩, ?_⟩
      · simp only [List.flatten_cons, List.append_assoc]
        rw [← hrest, hbs]
      · intro g hg
        simp only [List.mem_cons] at hg
        rcases hg with rfl | hg
        · exact hwf
        · exact hall g hg

theorem receiveAllFlat_prefix (rcvBuf : Nat) (bs t : Bytes) :
    (receiveAllFlat rcvBuf bs).1 <+: (receiveAllFlat rcvBuf (bs ++ t)).1 := by
  induction hn : bs.length using Nat.strongRecOn generalizing bs with
  | _ n ih =>
    rw [receiveAllFlat]
    split
    · exact List.nil_prefix
    · rename_i f r ho
      obtain ⟨hbs, hwf⟩ := receiveFlat_frame_inv ho
      have ih' := ih r.length (by rw [← hn]; exact receiveFlat_frame_lt ho) r rfl
      have : bs ++ t = f ++ (r ++ t) := by rw [hbs, List.append_assoc]
      rw [this, receiveAllFlat_cons hwf]
      exact (List.prefix_cons_inj f).mpr ih'

/-- delivery is monotone in the stream: frames delivered from a byte stream are
    never revoked, reordered or changed by bytes that arrive later — for every
    stream, every continuation and every segmentation of both -/
theorem C05_delivery_monotone (rcvBuf : Nat) (s t : Stream) :
    (receiveAll rcvBuf s).1 <+: (receiveAll rcvBuf (s ++ t)).1 := by
  rw [receiveAll_flat, receiveAll_flat, List.flatten_append]
  exact receiveAllFlat_prefix rcvBuf _ _

/-- below 8 the code panics on the slice expression `b[:hdrlen]`, before reading anything -/
theorem C05_small_buffer (rcvBuf : Nat) (h : rcvBuf < 8) (segs : Stream) :
    receiveAll rcvBuf segs = ([], .panic) := by
  rw [receiveAll_flat]
  exact receiveAllFlat_stop (by simp [receiveFlat, hdrlen, h])

/-! ### writer side: `Conn.Send` and the message codec (Model/UacpMsg.lean) -/

/-- round trip `Receive (Send m) = m`, for each of the four message kinds, every field value a
    Go caller can set, every chunk-type byte, every pair of buffers and every segmentation of the
    stream (the frame may be followed by anything): if `Send` writes (it refuses frames above its
    send buffer) and the frame fits the receiver's buffer, `Receive` delivers exactly the bytes
    written, leaves exactly what follows, and the handshake code's `Decode` returns the message;
    an `ERR` message comes back as the error value with the same code and reason. -/
theorem C05_send_receive (sndBuf rcvBuf : Nat) (hr2 : rcvBuf < 4294967296)
    (m : Msg) (hm : m.wf) (chunk : UInt8) (f more : Bytes) (segs : Stream)
    (hsend : send sndBuf (m.typ ++ [chunk]) m.body = some f) (hfit : f.length ≤ rcvBuf)
    (hseg : segs.flatten = f ++ more) :
    (match m with
     | .err c reason => receive rcvBuf segs = .stop (.errf c reason)
     | _ => ∃ rest, receive rcvBuf segs = .frame f rest ∧ rest.flatten = more ∧
              (chunk = 0x46 → decodeFrame f = some m)) := by
  obtain ⟨hc, _, _, htk, hdr⟩ := send_complete hsend hfit hr2
  have h8 : hdrlen ≤ f.length := hc.1
  have ht3 : f.take 3 = m.typ := by
    have : (f.take 4).take 3 = f.take 3 := by rw [List.take_take]; rfl
    rw [← this, htk]
    cases m <;> rfl
  have hflat := receive_flat rcvBuf segs
  rw [hseg, receiveFlat_complete hc] at hflat
  have hdec := decode_body m hm []
  simp only [List.append_nil] at hdec
  cases m with
  | err c reason =>
    have hE : isErrType f = true := by simp [isErrType, ht3, Msg.typ]
    simp only at hdec
    rw [hE, if_pos rfl, hdr, hdec] at hflat
    simp only
    cases hrx : receive rcvBuf segs with
    | frame g r => rw [hrx] at hflat; simp [Rx.toFlat] at hflat
    | stop o => rw [hrx] at hflat; simp only [Rx.toFlat] at hflat; injection hflat with ho; rw [ho]
  | hello v r s mm mc url =>
    have hE : isErrType f = false := by simp [isErrType, ht3, Msg.typ]
    rw [hE] at hflat
    simp only [Bool.false_eq_true, if_false] at hflat
    cases hrx : receive rcvBuf segs with
    | stop o => rw [hrx] at hflat; simp [Rx.toFlat] at hflat
    | frame g r =>
      rw [hrx] at hflat; simp only [Rx.toFlat] at hflat
      injection hflat with hg hrest
      subst hg
      refine ⟨r, rfl, hrest, ?_⟩
      intro hch
      subst hch
      simp only at hdec
      simp [decodeFrame, htk, Msg.typ, hdr, hdec]
  | ack v r s mm mc =>
    have hE : isErrType f = false := by simp [isErrType, ht3, Msg.typ]
    rw [hE] at hflat
    simp only [Bool.false_eq_true, if_false] at hflat
    cases hrx : receive rcvBuf segs with
    | stop o => rw [hrx] at hflat; simp [Rx.toFlat] at hflat
    | frame g r =>
      rw [hrx] at hflat; simp only [Rx.toFlat] at hflat
      injection hflat with hg hrest
      subst hg
      refine ⟨r, rfl, hrest, ?_⟩
      intro hch
      subst hch
      simp only at hdec
      simp [decodeFrame, htk, Msg.typ, hdr, hdec]
  | rhe uri url =>
    have hE : isErrType f = false := by simp [isErrType, ht3, Msg.typ]
    rw [hE] at hflat
    simp only [Bool.false_eq_true, if_false] at hflat
    cases hrx : receive rcvBuf segs with
    | stop o => rw [hrx] at hflat; simp [Rx.toFlat] at hflat
    | frame g r =>
      rw [hrx] at hflat; simp only [Rx.toFlat] at hflat
      injection hflat with hg hrest
      subst hg
      refine ⟨r, rfl, hrest, ?_⟩
      intro hch
      subst hch
      simp only at hdec
      simp [decodeFrame, htk, Msg.typ, hdr, hdec]

/-- `Send` never writes a frame above its send buffer, and what it writes is header + body with
    the size field equal to the frame length (bodies below 4 GiB: `MessageSize` is
    `uint32(len(body)+8)`, a larger body would wrap the field) -/
theorem C05_send_bounded (sndBuf : Nat) (typ body f : Bytes) (hb : body.length + 8 < 4294967296)
    (h : send sndBuf typ body = some f) :
    f.length ≤ sndBuf ∧ f.length = body.length + 8 ∧ sizeOfHeader f = f.length ∧ f.take 4 = typ ∧ f.drop 8 = body := by
  have hlen : f.length = body.length + 8 := by
    unfold send at h
    split at h
    · cases h
    · rename_i ht
      have ht4 : typ.length = 4 := by omega
      simp only at h
      split at h
      · cases h
      · injection h with h
        subst h
        simp only [List.length_append, List.length_take, List.length_cons, List.length_nil, leBytes_length, ht4]
        omega
  obtain ⟨hc, h1, h2, h3, h4⟩ := send_complete (rcvBuf := f.length) h (Nat.le_refl _) (by omega)
  exact ⟨h2, hlen, hc.2.2, h3, h4⟩

/-- … and refuses (error, nothing written) a message that does not fit, or a type that is not 4 bytes -/
theorem C05_send_refuses (sndBuf : Nat) (typ body : Bytes)
    (h : typ.length ≠ 4 ∨ (sndBuf < body.length + 8 ∧ body.length + 8 < 4294967296)) :
    send sndBuf typ body = none := by
  unfold send
  rcases h with h | ⟨h1, h2⟩
  · simp [h]
  · by_cases ht : typ.length ≠ 4
    · simp [ht]
    · have : (body.length + hdrlen) % 4294967296 = body.length + 8 := Nat.mod_eq_of_lt h2
      simp only [ht, if_false, this]
      simp; omega

/-! non-vacuity: two frames ("MSGF" 9 bytes, "HELF" 8 bytes), rcvBuf 9, three segmentations -/
private def fA : Bytes := [0x4d, 0x53, 0x47, 0x46, 9, 0, 0, 0, 0xaa]
private def fB : Bytes := [0x48, 0x45, 0x4c, 0x46, 8, 0, 0, 0]

example : wellFormed 9 fA ∧ wellFormed 9 fB := by decide
-- one `Receive` on three segmentations of fA ++ fB: whole, byte by byte, odd cuts with an empty read
example : receive 9 [fA ++ fB] = .frame fA [fB] := by decide
example : receive 9 ((fA ++ fB).map fun b => [b]) = .frame fA (fB.map fun b => [b]) := by decide
example : receive 9 [fA.take 3, [], fA.drop 3 ++ fB.take 5, fB.drop 5] = .frame fA [fB.take 5, fB.drop 5] := by decide
-- the hypotheses of the theorems are satisfiable
example : receiveAll 9 [fA.take 3, [], fA.drop 3 ++ fB.take 5, fB.drop 5] = ([fA, fB], .eof) :=
  C05_frames 9 (by decide) [fA, fB] _ (by decide) (by decide)
-- a frame of 10 bytes does not fit a 9 byte buffer; size 7 is below the header
example : receiveAll 9 [fA, [0x4d, 0x53, 0x47, 0x46, 10, 0, 0, 0, 1, 2]] = ([fA], .tooLarge) :=
  C05_malformed 9 (by decide) [fA] [0x4d, 0x53, 0x47, 0x46, 10, 0, 0, 0] [1, 2] _ (by decide) rfl (by decide) (by decide)
example : receiveAll 9 [fA, [0x4d, 0x53, 0x47, 0x46, 7, 0, 0, 0]] = ([fA], .tooSmall) :=
  C05_malformed 9 (by decide) [fA] [0x4d, 0x53, 0x47, 0x46, 7, 0, 0, 0] [] _ (by decide) rfl (by decide) (by decide)
-- ERRF with code 0x80010000 and reason "x"
example : receiveAll 64 [[0x45, 0x52, 0x52, 0x46, 17, 0, 0, 0, 0, 0, 1, 0x80, 1, 0, 0, 0, 0x78]] =
    ([], .errf 0x80010000 [0x78]) :=
  C05_errframe 64 [] [0x45, 0x52, 0x52, 0x46, 17, 0, 0, 0, 0, 0, 1, 0x80, 1, 0, 0, 0, 0x78] [] _
    (by decide) (by decide) (by decide) (by decide)
-- fA cut after 8 bytes: clean EOF although a body byte is missing; cut after 5: UnexpectedEOF
example : receiveAll 9 [fB, fA.take 8] = ([fB], .eof) :=
  C05_truncated 9 (by decide) [fB] fA 8 _ (by decide) (by decide) (by decide) (by decide)
example : receiveAll 9 [fB, fA.take 5] = ([fB], .unexpectedEOF) :=
  C05_truncated 9 (by decide) [fB] fA 5 _ (by decide) (by decide) (by decide) (by decide)

-- writer side: the Hello of a default client (endpoint "opc.tcp://h") is 40 bytes; a 39 byte send buffer refuses it
example : (send 65535 ((Msg.hello 0 65535 65535 0 0 [0x6f]).typ ++ [0x46]) (Msg.hello 0 65535 65535 0 0 [0x6f]).body).map List.length = some 33 := by decide
example : send 32 ((Msg.hello 0 65535 65535 0 0 [0x6f]).typ ++ [0x46]) (Msg.hello 0 65535 65535 0 0 [0x6f]).body = none := by decide

end Opcua.Props.C05
