import OpcuaModel.Base.Tactics
import OpcuaModel.Model.Limits
import OpcuaModel.Gen.Handshake
/-
  C06 — negotiated transport limits are honoured in both directions.

  `Limits.negotiate` / `wireChunks` / `send` / `receive` model the code as it is;
  `Limits.Honoured hello ack a m sender n` is the property for one message of `n`
  body bytes sent by `sender` under policy row `a` and mode `m`:
    (1) chunkFits  every chunk on the wire ≤ the receive buffer the peer advertised,
    (2) accepts    the peer's chunk-size check passes for every size the sender may use,
    (3) refuses    a message over the peer's advertised MaxMessageSize / MaxChunkCount is
                   refused by the sender;
  `LegalAccepted` is (2') "a message within the advertised limits (0 = none) is accepted".

  At full strength the property is FALSE for the unchanged code.  Proved here:
  `C06_partial` / `C06_legal_partial` under explicit guards (all four clauses; (2') for
  requests without any guard since the zero-limit repair,
  every policy row, every mode, every message size), that the defaults satisfy
  the guards, and one counterexample theorem per recorded finding — most of them
  for a whole family of configurations, each also at its witness.
-/
namespace Opcua.Props.C06
open Opcua Opcua.Limits

/-- the model's negotiation IS the function extracted from the running code: `Gen.hsClient…` /
    `Gen.hsServer…` are inferred by the generator from real HEL/ACK exchanges over loopback (field
    copy / default for zero / minimum) and regenerated on every run.  A change of `Handshake` or
    `srvhandshake` changes them, and this theorem — on which the reading of every other theorem
    about `negotiate` rests — no longer holds. -/
theorem C06_negotiate_generated (hello ack : Ack) (h0 : hello.rcv ≠ 0) :
    negotiate hello ack =
      { client := ⟨Gen.hsClientRcv hello.rcv hello.snd hello.maxMsg hello.maxChunks ack.rcv ack.snd ack.maxMsg ack.maxChunks,
                   Gen.hsClientSnd hello.rcv hello.snd hello.maxMsg hello.maxChunks ack.rcv ack.snd ack.maxMsg ack.maxChunks,
                   Gen.hsClientMaxMsg hello.rcv hello.snd hello.maxMsg hello.maxChunks ack.rcv ack.snd ack.maxMsg ack.maxChunks,
                   Gen.hsClientMaxChunks hello.rcv hello.snd hello.maxMsg hello.maxChunks ack.rcv ack.snd ack.maxMsg ack.maxChunks⟩
        server := ⟨Gen.hsServerRcv hello.rcv hello.snd hello.maxMsg hello.maxChunks ack.rcv ack.snd ack.maxMsg ack.maxChunks,
                   Gen.hsServerSnd hello.rcv hello.snd hello.maxMsg hello.maxChunks ack.rcv ack.snd ack.maxMsg ack.maxChunks,
                   Gen.hsServerMaxMsg hello.rcv hello.snd hello.maxMsg hello.maxChunks ack.rcv ack.snd ack.maxMsg ack.maxChunks,
                   Gen.hsServerMaxChunks hello.rcv hello.snd hello.maxMsg hello.maxChunks ack.rcv ack.snd ack.maxMsg ack.maxChunks⟩ } := by
  have hr : (if hello.rcv ≠ 0 ∧ ack.rcv > hello.rcv then hello.rcv else ack.rcv) = min hello.rcv ack.rcv := by
    split <;> omega
  simp [negotiate, clientAdopt, hr, Gen.hsClientRcv, Gen.hsClientSnd, Gen.hsClientMaxMsg, Gen.hsClientMaxChunks,
    Gen.hsServerRcv, Gen.hsServerSnd, Gen.hsServerMaxMsg, Gen.hsServerMaxChunks,
    Gen.defaultMaxChunkCount, Gen.defaultMaxMessageSize]

/-- … and reproduces every handshake the generator observed on the real code (sentinel values,
    zeros, the witnesses' configurations, random configurations of the domain) -/
theorem C06_handshake_rows : ∀ row ∈ Gen.handshakeRows, rowAgrees row = true := by decide +kernel

/-- the client validates and bounds what it adopts (the repair of C13's ack-small-rcvbuf /
    ack-huge-rcvbuf): an Acknowledge with a buffer below the protocol minimum 8192 is refused, every
    Acknowledge of the domain is accepted, and the receive limit the client then works with — what
    `Receive` allocates per frame — is never above the Acknowledge's value nor above the receive
    buffer of its own (non-zero) Hello -/
theorem C06_client_adopts_bounded (hello ack : Ack) :
    (handshakeAccepts ack = true ↔ 8192 ≤ ack.rcv ∧ 8192 ≤ ack.snd) ∧
    (inDomain ack → handshakeAccepts ack = true) ∧
    (viewOf hello ack .client).rcv ≤ ack.rcv ∧
    (hello.rcv ≠ 0 → (viewOf hello ack .client).rcv ≤ hello.rcv) ∧
    (handshakeAccepts ack = true → 8192 ≤ hello.rcv → 8192 ≤ (viewOf hello ack .client).rcv) := by
  have hc := clientAdopt_rcv hello ack
  have hacc : handshakeAccepts ack = true ↔ 8192 ≤ ack.rcv ∧ 8192 ≤ ack.snd := by
    simp only [handshakeAccepts, minBufSize]
    exact decide_eq_true_iff
  refine ⟨hacc, fun h => hacc.mpr ⟨h.1, h.2.2.1⟩, ?_, ?_, ?_⟩
  · simp only [viewOf, negotiate]; omega
  · simp only [viewOf, negotiate]; omega
  · intro h; have := hacc.mp h; simp only [viewOf, negotiate]; omega

/-- whatever the policy, mode and message: every chunk a side writes fits the value it
    took for its own send buffer (C38's statement applied to every chunk of the message) -/
theorem C06_chunk_le_own_send_buffer (a : AlgoParams) (ha : a ∈ Gen.symmetricRows) (m : Mode) (v : Ack)
    (h1 : 8192 ≤ v.snd) (h2 : v.snd < 4294967296) (n : Nat) :
    ∀ w ∈ wireChunks a m v n, w ≤ (v.snd : Int) := by
  intro w hw
  simp only [wireChunks, List.mem_map] at hw
  obtain ⟨b, hb, rfl⟩ := hw
  have hrow := rows_ok a ha
  have hr := maxBody_range a hrow (v.snd : Int) (by omega) (by omega)
  have hpos : 0 < maxBodyOf a v := by
    unfold maxBodyOf; omega
  have hle := mem_chunkBodies hb hpos
  have hcast : ((maxBodyOf a v : Nat) : Int) = Gen.setMaximumBodySize a (v.snd : Int) := by
    unfold maxBodyOf; omega
  exact secured_fits a hrow m (v.snd : Int) (by omega) (by omega) (b : Int) (by omega) (by omega)

/-- the send paths never refuse anything: clause (3) can only hold vacuously -/
theorem C06_never_refuses (a : AlgoParams) (m : Mode) (v : Ack) (n : Nat) :
    send a m v n ≠ .refused := by
  simp [send]

/-- C06 under explicit guards: the server's send buffer does not exceed its own receive
    buffer nor the one the client advertised (then the mixed-up directions are harmless),
    and the message is within the peer's limits (then there is nothing to refuse).
    Every policy row, mode, sender and message size; buffers from 8192 to 2^32-1. -/
theorem C06_partial (hello ack : Ack) (a : AlgoParams) (ha : a ∈ Gen.symmetricRows) (m : Mode)
    (sender : Side) (n : Nat)
    (hd : inDomain ack)
    (g1 : ack.snd ≤ ack.rcv) (g2 : ack.snd ≤ hello.rcv)
    (g3 : ¬ exceeds (advertised hello ack sender.peer) n (chunkCount a (viewOf hello ack sender) n)) :
    Honoured hello ack a m sender n := by
  obtain ⟨_, _, hs1, hs2⟩ := hd
  have hfit : ∀ w ∈ wireChunks a m ack n, w ≤ (ack.snd : Int) :=
    C06_chunk_le_own_send_buffer a ha m ack hs1 hs2 n
  have hsnd : ∀ s, (viewOf hello ack s).snd = ack.snd := by
    intro s; cases s <;> simp [viewOf, negotiate]
  have hwc : ∀ s, wireChunks a m (viewOf hello ack s) n = wireChunks a m ack n := by
    intro s; simp [wireChunks, maxBodyOf, hsnd s]
  have hc := clientAdopt_rcv hello ack
  refine ⟨?_, ?_, fun h => absurd h g3⟩
  · intro w hw
    rw [hwc] at hw
    have := hfit w hw
    cases sender <;> simp [Side.peer, advertised] <;> omega
  · intro w hw
    cases sender
    · simp [Side.peer, advertised, maySend, viewOf, negotiate] at hw ⊢; omega
    · simp only [Side.peer, advertised, maySend, viewOf, negotiate] at hw ⊢; omega

/-- (2'): a message within the limits the receiver advertised (0 = no limit), in chunks the
    sender may use, is accepted.  For requests (client sends) there is NO guard left: the
    server's receive path honours exactly what it advertised, 0 included.  For responses the
    guard remains that the client advertised limits which are not above the ones it adopted
    from the Acknowledge, and a receive buffer not above the server's (finding
    client-limits-from-ack / client-recv-direction otherwise). -/
theorem C06_legal_partial (hello ack : Ack) (a : AlgoParams) (m : Mode) (sender : Side) (n : Nat)
    (g3 : sender = .server → hello.maxMsg ≠ 0 ∧ hello.maxMsg ≤ (clientAdopt hello ack).maxMsg ∧
                             hello.maxChunks ≠ 0 ∧ hello.maxChunks ≤ (clientAdopt hello ack).maxChunks)
    (g4 : sender = .server → hello.rcv ≤ ack.rcv) :
    LegalAccepted hello ack a m sender n := by
  intro hw hex
  unfold receive
  apply recvLoop_ok
  · intro b hb
    have hwb := hw (wireLen a m b) (by simp only [wireChunks, List.mem_map]; exact ⟨b, hb, rfl⟩)
    cases sender
    · simp [Side.peer, viewOf, negotiate, advertised, maySend] at hwb ⊢; omega
    · have hg := g4 rfl
      have hc := clientAdopt_rcv hello ack
      simp [Side.peer, advertised, maySend] at hwb
      simp only [Side.peer, viewOf, negotiate]; omega
  · intro h0
    simp only [exceeds, chunkCount] at hex
    cases sender
    · simp [Side.peer, viewOf, negotiate, advertised] at hex h0 ⊢; omega
    · obtain ⟨_, _, h3, h4⟩ := g3 rfl
      simp [Side.peer, viewOf, negotiate, advertised] at hex h0 h4 ⊢; omega
  · intro h0
    rw [chunkBodies_sum]
    simp only [exceeds, chunkCount] at hex
    cases sender
    · simp [Side.peer, viewOf, negotiate, advertised] at hex h0 ⊢; omega
    · obtain ⟨h1, h2, _, _⟩ := g3 rfl
      simp [Side.peer, viewOf, negotiate, advertised] at hex h0 h2 ⊢; omega

/-- in particular every request within what the server advertised is accepted by the server,
    for every configuration, policy, mode and size — 0 = no limit included (this was finding
    zero-limit-server before the receive path was repaired) -/
theorem C06_requests_accepted (hello ack : Ack) (a : AlgoParams) (m : Mode) (n : Nat) :
    LegalAccepted hello ack a m .client n :=
  C06_legal_partial hello ack a m .client n (fun h => by cases h) (fun h => by cases h)

/-- a server that advertises "no limit" (0 / 0) opens a channel and takes a message of any size
    in any number of chunks that fit its buffer -/
theorem C06_zero_is_no_limit (a : AlgoParams) (m : Mode) (ack : Ack) (h0 : ack.maxMsg = 0) (h1 : ack.maxChunks = 0)
    (bodies : List Nat) (hfit : ∀ b ∈ bodies, wireLen a m b ≤ (ack.rcv : Int)) :
    receive a m ack bodies = .ok := by
  have key : ∀ (bodies : List Nat), (∀ b ∈ bodies, wireLen a m b ≤ (ack.rcv : Int)) → ∀ held sum : Nat,
      recvLoop ack (bodies.map fun b => (wireLen a m b, b)) held sum = .ok := by
    intro bodies
    induction bodies with
    | nil => intros; simp [recvLoop]
    | cons b rest ih =>
      intro hfit held sum
      have hb := hfit b (by simp)
      have hlt : ¬ wireLen a m b > (ack.rcv : Int) := by omega
      cases rest with
      | nil => simp [recvLoop, hlt, h0]
      | cons c rest' =>
        simp only [List.map, recvLoop, hlt, h1, if_false, ne_eq, not_true_eq_false, false_and]
        simpa [List.map] using ih (fun x hx => hfit x (by simp [hx])) (held + 1) (sum + b)
  exact key bodies hfit 0 0

/-- the receiver's chunk-count check is lenient by one: the final chunk is not counted, so a message
    of exactly MaxChunkCount + 1 chunks (MaxChunkCount intermediate + 1 final) is accepted … -/
theorem C06_chunk_count_lenient (a : AlgoParams) (m : Mode) (v : Ack) (bodies : List Nat)
    (hlen : bodies.length = v.maxChunks + 1)
    (hfit : ∀ b ∈ bodies, wireLen a m b ≤ (v.rcv : Int)) (hsum : v.maxMsg ≠ 0 → bodies.sum ≤ v.maxMsg) :
    receive a m v bodies = .ok :=
  recvLoop_ok a m v bodies 0 0 hfit (fun _ => by omega) (fun h => by have := hsum h; omega)

/-- … and MaxChunkCount + 2 chunks or more are refused.  The limit concerned is the receiver's own
    (the one it advertised); accepting one chunk more than announced breaks none of C06's clauses —
    they bind the sender to the limit and the receiver to accept what is within it — so this is a
    documented leniency (relevant for C13's memory bound), not a C06 finding. -/
theorem C06_chunk_count_bound (a : AlgoParams) (m : Mode) (v : Ack) (bodies : List Nat)
    (h0 : v.maxChunks ≠ 0) (hlen : bodies.length ≥ v.maxChunks + 2)
    (hfit : ∀ b ∈ bodies, wireLen a m b ≤ (v.rcv : Int)) :
    receive a m v bodies = .tooManyChunks :=
  recvLoop_tooMany a m v bodies 0 0 hfit h0 (by omega) (by omega)

/-! ### findings: where the full property fails (None policy, as confirmed over loopback) -/

/-- the largest chunk: a message of exactly one full body is written as a chunk of
    `SendBufSize - 1` bytes (followed by an empty final chunk) -/
theorem C06_none_full_chunk (v : Ack) (h1 : 8192 ≤ v.snd) (h2 : v.snd < 4294967296) :
    wireChunks Gen.symNone .none v (v.snd - 25) = [(v.snd : Int) - 1, 24] := by
  have hmb := maxBodyOf_none v (by omega) h2
  have hpos : 0 < v.snd - 25 := by omega
  simp only [wireChunks, chunkBodies, hmb]
  have hne : ¬ (v.snd - 25 = 0) := by omega
  simp only [hne, if_false, Nat.div_self hpos, Nat.mod_self, List.replicate, List.nil_append, List.map,
    List.cons_append, wireLen_none]
  congr 1
  · omega

/-- FINDING client-send-direction: the client cuts its requests by the server's SEND buffer.
    For every server whose send buffer exceeds its receive buffer by more than one byte
    (any client), clause (1) fails: the client writes a chunk of `ack.snd - 1 > ack.rcv` bytes. -/
theorem C06_finding_client_send_direction (hello ack : Ack) (hd : inDomain ack) (h : ack.rcv + 1 < ack.snd) :
    ¬ Honoured hello ack Gen.symNone .none .client (ack.snd - 25) := by
  intro hh
  obtain ⟨_, _, h1, h2⟩ := hd
  have hw := hh.chunkFits ((ack.snd : Int) - 1) (by
    have : viewOf hello ack .client = clientAdopt hello ack := rfl
    rw [this]
    have hv := C06_none_full_chunk (clientAdopt hello ack) (by simpa [clientAdopt] using h1) (by simpa [clientAdopt] using h2)
    simp only [clientAdopt] at hv ⊢
    rw [hv]; simp)
  simp [Side.peer, advertised] at hw
  omega

/-- … at the recorded witness: server rcv 8192 / snd 65535, default client, request body 20000:
    one chunk of 20024 bytes -/
theorem C06_witness_client_send_direction :
    wireChunks Gen.symNone .none (viewOf defaultClientAck ⟨8192, 65535, 2097152, 512⟩ .client) 20000 = [20024] ∧
    receive Gen.symNone .none (viewOf defaultClientAck ⟨8192, 65535, 2097152, 512⟩ .server) [20000] = .chunkTooLarge := by
  decide

/-- FINDING client-recv-direction: the client checks incoming chunks against the server's
    RECEIVE buffer.  Whenever that is below what the server may send (min of its send buffer
    and the client's advertised receive buffer), clause (2) fails for the client as receiver. -/
theorem C06_finding_client_recv_direction (hello ack : Ack) (a : AlgoParams) (m : Mode) (n : Nat)
    (h : ack.rcv < min ack.snd hello.rcv) :
    ¬ Honoured hello ack a m .server n := by
  intro hh
  have := hh.accepts (min ack.snd hello.rcv) (by simp [maySend, advertised, Side.peer])
  have hc := clientAdopt_rcv hello ack
  simp only [viewOf, negotiate, Side.peer] at this
  omega

/-- … at the witness: the server's response chunk of 20024 bytes is legal (≤ 65535 both ways),
    the client refuses it -/
theorem C06_witness_client_recv_direction :
    (20024 : Nat) ≤ maySend (⟨8192, 65535, 2097152, 512⟩ : Ack) defaultClientAck ∧
    transfer Gen.symNone .none (viewOf defaultClientAck ⟨8192, 65535, 2097152, 512⟩ .server)
      (viewOf defaultClientAck ⟨8192, 65535, 2097152, 512⟩ .client) 20000 = ([20024], .chunkTooLarge) := by
  decide

/-- FINDING server-ignores-hello-rcv: the server cuts its responses by its own send buffer
    and never looks at the Hello.  For every client that advertises a receive buffer more
    than one byte below the server's send buffer, clause (1) fails for the server as sender. -/
theorem C06_finding_server_ignores_hello_rcv (hello ack : Ack) (hd : inDomain ack) (h : hello.rcv + 1 < ack.snd) :
    ¬ Honoured hello ack Gen.symNone .none .server (ack.snd - 25) := by
  intro hh
  obtain ⟨_, _, h1, h2⟩ := hd
  have hw := hh.chunkFits ((ack.snd : Int) - 1) (by
    have : viewOf hello ack .server = ack := rfl
    rw [this, C06_none_full_chunk ack h1 h2]; simp)
  simp [Side.peer, advertised] at hw
  omega

/-- … at the witness: client advertises rcv 8192, default server, response body 20000: the server
    writes one chunk of 20024 bytes; the client (whose receive limit is now bounded by its own
    Hello) refuses it and the connection is lost -/
theorem C06_witness_server_ignores_hello_rcv :
    transfer Gen.symNone .none (viewOf ⟨8192, 65535, 0, 0⟩ defaultServerAck .server)
      (viewOf ⟨8192, 65535, 0, 0⟩ defaultServerAck .client) 20000 = ([20024], .chunkTooLarge) := by
  decide

/-- FINDING send-limit-client / send-limit-server: whenever the message is over a limit the
    peer advertised, clause (3) fails — for every configuration, policy, mode and sender -/
theorem C06_finding_send_limit (hello ack : Ack) (a : AlgoParams) (m : Mode) (sender : Side) (n : Nat)
    (h : exceeds (advertised hello ack sender.peer) n (chunkCount a (viewOf hello ack sender) n)) :
    ¬ Honoured hello ack a m sender n :=
  fun hh => C06_never_refuses a m _ n (hh.refuses h)

/-- … at the witnesses: server MaxMessageSize 10000, request of 20000 bytes written in full
    and refused only by the server's receive path; server MaxChunkCount 2, request in 4 chunks;
    client MaxMessageSize 10000, response of 20000 bytes written and even accepted -/
theorem C06_witness_send_limit :
    (exceeds (⟨65535, 65535, 10000, 512⟩ : Ack) 20000 1 ∧
      transfer Gen.symNone .none (viewOf defaultClientAck ⟨65535, 65535, 10000, 512⟩ .client)
        (viewOf defaultClientAck ⟨65535, 65535, 10000, 512⟩ .server) 20000 = ([20024], .messageTooLarge)) ∧
    (exceeds (⟨8192, 8192, 2097152, 2⟩ : Ack) 30000 4 ∧
      transfer Gen.symNone .none (viewOf defaultClientAck ⟨8192, 8192, 2097152, 2⟩ .client)
        (viewOf defaultClientAck ⟨8192, 8192, 2097152, 2⟩ .server) 30000 = ([8191, 8191, 8191, 5523], .tooManyChunks)) ∧
    (exceeds (⟨65535, 65535, 10000, 0⟩ : Ack) 20000 1 ∧
      transfer Gen.symNone .none (viewOf ⟨65535, 65535, 10000, 0⟩ defaultServerAck .server)
        (viewOf ⟨65535, 65535, 10000, 0⟩ defaultServerAck .client) 20000 = ([20024], .ok)) := by
  decide

/-- regression witnesses of the repaired zero-limit defect: with MaxMessageSize 0 the OPN request
    is taken and the channel opens; with MaxChunkCount 0 a three-chunk request is accepted -/
theorem C06_zero_limit_witnesses (hello : Ack) :
    openChannel (negotiate defaultClientAck ⟨65535, 65535, 0, 512⟩) = .ok ∧
    receive Gen.symNone .none (viewOf hello ⟨8192, 8192, 2097152, 0⟩ .server) [8167, 8167, 3666] = .ok := by
  refine ⟨?_, ?_⟩
  · decide +kernel
  · show receive Gen.symNone .none ⟨8192, 8192, 2097152, 0⟩ [8167, 8167, 3666] = _
    decide +kernel

/-- FINDING client-limits-from-ack: the client applies the limits of the Acknowledge (the
    server's limits for REQUESTS) to the responses it receives, not what it advertised.
    Witness: client advertises no limit, server MaxMessageSize 10000, response of 20000 bytes
    is legal and refused -/
theorem C06_finding_client_limits_from_ack :
    ¬ LegalAccepted defaultClientAck ⟨65535, 65535, 10000, 512⟩ Gen.symNone .none .server 20000 := by
  intro h
  have := h (by decide) (by decide)
  revert this
  decide

/-! non-vacuity of the guarded theorems: a symmetric and an asymmetric-but-harmless configuration -/
example : Honoured ⟨65535, 65535, 0, 0⟩ ⟨65535, 8192, 2097152, 512⟩ Gen.symBasic256Sha256 .signAndEncrypt .client 500000 :=
  C06_partial _ _ _ (by decide) _ _ _ (by decide) (by decide) (by decide) (by decide)
example : LegalAccepted ⟨65535, 65535, 100000, 10⟩ ⟨65535, 65535, 0, 0⟩ Gen.symNone .none .server 90000 :=
  C06_legal_partial _ _ _ _ _ _ (by intro _; decide) (by intro _; decide)

end Opcua.Props.C06
