import OpcuaModel.Base.Tactics
import OpcuaModel.Model.Asym
import OpcuaModel.Gen.Asym
import OpcuaModel.Lemmas.Asym
import OpcuaModel.Model.RsaRef
/-
  C15 — asymmetric crypto is correct for all lengths and enforces key size limits.

  `Gen.asymRows` is regenerated from `uapolicy/policy*.go`, `crypto_rsaoaep.go`
  and `crypto_pkcs1v15.go` on every run (padding constants, the guards of the
  constructors as a Bool function, the schemes). `Asym.encrypt/decrypt` are the
  hand model of the block loops (tied by the C15 correspondence run), `Spec.*`
  the Part 7 / RFC 8017 numbers.
-/
namespace Opcua.Props.C15
open Opcua Opcua.Asym

/-- Block loops, any abstract RSA, any randomness, EVERY plaintext length
    (including 0 and exact multiples of the block capacity): if the block size
    `k − pad` the loop uses is positive and within the capacity of the
    primitive, `Encrypt` succeeds, produces exactly `⌈|p| / (k − pad)⌉` blocks
    of `k` bytes, and `Decrypt` returns the plaintext. -/
theorem C15_blocks (R : BlockRSA) (pad : Int) (hpos : 0 < (R.k : Int) - pad)
    (hcap : (R.k : Int) - pad ≤ R.cap) (rnd : Nat → Nat) (p : Bytes) :
    ∃ c, encrypt true R rnd pad p = .ok c ∧
      c.length = ceilDiv p.length ((R.k : Int) - pad).toNat * R.k ∧
      decrypt true R c = .ok p := by
  have hk : 0 < R.k := by
    have := R.enc_some 0 [] (by simp; omega)
    obtain ⟨c, hc⟩ := this
    have hl := R.enc_len _ _ _ hc
    by_cases h0 : R.k = 0
    · exfalso
      -- k = 0: cap ≥ k - pad > 0 means a 1-byte block encrypts to 0 bytes and decrypts back: impossible
      have hp : 0 < -pad := by omega
      obtain ⟨c1, hc1⟩ := R.enc_some 0 [0] (by simp; omega)
      obtain ⟨c2, hc2⟩ := R.enc_some 0 [1] (by simp; omega)
      have l1 := R.enc_len _ _ _ hc1
      have l2 := R.enc_len _ _ _ hc2
      have e1 : c1 = [] := List.eq_nil_of_length_eq_zero (by omega)
      have e2 : c2 = [] := List.eq_nil_of_length_eq_zero (by omega)
      have d1 := R.dec_enc _ _ _ hc1
      have d2 := R.dec_enc _ _ _ hc2
      rw [e1] at d1; rw [e2] at d2
      rw [d1] at d2
      cases d2
    · omega
  have hmb : 0 < ((R.k : Int) - pad).toNat := by omega
  have hmbcap : ((((R.k : Int) - pad).toNat : Nat) : Int) ≤ R.cap := by omega
  by_cases h0 : p.length = 0
  · have : p = [] := List.eq_nil_of_length_eq_zero h0
    subst this
    refine ⟨[], ?_, ?_, ?_⟩
    · simp [encrypt]
    · simp [ceilDiv_zero _ hmb]
    · simp [decrypt]
  · obtain ⟨c, hc, hlen, hdec⟩ := encBlocks_spec R rnd _ hmb hmbcap hk 0 p
    refine ⟨c, ?_, hlen, ?_⟩
    · have h1 : ¬ ((R.k : Int) - pad < 0) := by omega
      have h2 : ¬ ((R.k : Int) - pad = 0) := by omega
      simp only [encrypt, Bool.not_true, Bool.false_eq_true, if_false, h0, h1, h2, hc]
    · have hc0 : c.length ≠ 0 := by
        intro hz
        have : c = [] := List.eq_nil_of_length_eq_zero hz
        subst this
        rw [decBlocks] at hdec
        simp at hdec
        exact h0 (by rw [hdec]; rfl)
      have hk0 : ¬ (R.k = 0) := by omega
      simp only [decrypt, Bool.not_true, Bool.false_eq_true, if_false, hc0, hk0, hdec]

/-- Without the key the functions report an error (`PublicKey == nil` /
    `PrivateKey == nil`), they do not panic. -/
theorem C15_nokey (R : BlockRSA) (rnd : Nat → Nat) (pad : Int) (p : Bytes) :
    encrypt false R rnd pad p = .err ∧ decrypt false R p = .err := by
  simp [encrypt, decrypt]

/-- For every policy of the `policies` map and every key (modulus of `bits`
    bits, `k = ⌈bits/8⌉` bytes) its constructor accepts: the block size `Encrypt`
    uses is positive (the loop makes progress: no panic, no endless loop), is
    within what the RSA scheme can take (RFC 8017 — so
    `rsa.EncryptOAEP/EncryptPKCS1v15` never refuse a block), and it is the
    `PlaintextBlockSize()` the channel pads to. -/
theorem C15_capacity (row : AsymRow) (hr : row ∈ Gen.asymRows) (hs : row.scheme ≠ .none) (bits : Int)
    (hacc : row.accept false 0 true bits = true) :
    0 < sizeOfBits bits - row.encPad ∧
    sizeOfBits bits - row.encPad ≤ Spec.capacity row.scheme (sizeOfBits bits) ∧ row.ptPad = row.encPad := by
  rcases rows_cases hr with rfl | rfl | rfl | rfl | rfl | rfl <;>
    simp [Gen.asymAes128_Sha256_RsaOaep, Gen.asymAes256_Sha256_RsaPss, Gen.asymBasic128Rsa15,
      Gen.asymBasic256, Gen.asymBasic256Sha256, Gen.asymNone, Spec.capacity, sizeOfBits] at hacc hs ⊢ <;>
    omega

/-- the constants used are the declared MinPadding constants of the package,
    and each is at least the padding of its scheme (never less: a smaller
    constant would make full blocks too long for the primitive) -/
theorem C15_padding_constants :
    Gen.pKCS1v15MinPadding = 11 ∧ Gen.rSAOAEPMinPaddingSHA1 = 2 * 20 + 2 ∧ 2 * 32 + 2 ≤ Gen.rSAOAEPMinPaddingSHA256 := by
  decide

/-- Every policy uses the asymmetric encryption and signature algorithm that
    Part 7 names for it. -/
theorem C15_schemes (row : AsymRow) (hr : row ∈ Gen.asymRows) :
    Spec.scheme row.name = some row.scheme ∧ Spec.sigScheme row.name = some row.sigScheme := by
  rcases rows_cases hr with rfl | rfl | rfl | rfl | rfl | rfl <;> decide

/-- The round trip for every policy, every accepted key, every abstract RSA of
    that size with the capacity of the policy's scheme, every plaintext. -/
theorem C15_roundtrip (row : AsymRow) (hr : row ∈ Gen.asymRows) (hs : row.scheme ≠ .none)
    (R : BlockRSA) (bits : Int) (hk : (R.k : Int) = sizeOfBits bits)
    (hR : R.cap = Spec.capacity row.scheme R.k)
    (hacc : row.accept false 0 true bits = true) (rnd : Nat → Nat) (p : Bytes) :
    ∃ c, encrypt true R rnd row.encPad p = .ok c ∧
      c.length = ceilDiv p.length ((R.k : Int) - row.ptPad).toNat * R.k ∧
      decrypt true R c = .ok p := by
  obtain ⟨h1, h2, h3⟩ := C15_capacity row hr hs bits hacc
  rw [h3]
  rw [← hk] at h1 h2
  exact C15_blocks R row.encPad h1 (by rw [hR]; exact h2) rnd p

/-- KEY-SIZE LIMITS, full strength (after the fix that compares `N.BitLen()`):
    for every bit length of the local and of the remote key, independently, the
    constructor accepts exactly the Part 7 range `lo ≤ bits ≤ hi`; and the
    declared byte constants are that range divided by 8. -/
theorem C15_limits (row : AsymRow) (hr : row ∈ Gen.asymRows) (lo hi : Int)
    (hspec : Spec.keyBits row.name = some (lo, hi)) (hl : Bool) (l : Int) (hrm : Bool) (r : Int) :
    (row.accept hl l hrm r = true ↔
      (hl = true → lo ≤ l ∧ l ≤ hi) ∧ (hrm = true → lo ≤ r ∧ r ≤ hi)) ∧
    8 * row.minKeyBytes = lo ∧ 8 * row.maxKeyBytes = hi := by
  rcases rows_cases hr with rfl | rfl | rfl | rfl | rfl | rfl <;>
    simp [Gen.asymAes128_Sha256_RsaOaep, Gen.asymAes256_Sha256_RsaPss, Gen.asymBasic128Rsa15,
      Gen.asymBasic256, Gen.asymBasic256Sha256, Gen.asymNone, Spec.keyBits] at hspec ⊢ <;>
    obtain ⟨rfl, rfl⟩ := hspec <;>
    cases hl <;> cases hrm <;> simp <;> omega

/-- the constructor applied to a key of `bits` bits on both sides -/
def acceptsBits (row : AsymRow) (bits : Int) : Bool :=
  row.accept true bits true bits

/-- corollary for one key size on both sides: no `bits % 8 = 0` guard any more -/
theorem C15_limits_both (row : AsymRow) (hr : row ∈ Gen.asymRows) (lo hi : Int)
    (hspec : Spec.keyBits row.name = some (lo, hi)) (bits : Int) :
    acceptsBits row bits = true ↔ lo ≤ bits ∧ bits ≤ hi := by
  have h := (C15_limits row hr lo hi hspec true bits true bits).1
  rw [acceptsBits, h]
  simp

/-- was C15.min-key-bits-rounded-up: keys of 2041…2047 bits (1017…1023 for the
    1024-bit policies) are now refused -/
theorem C15_fixed_min_key_bits :
    acceptsBits Gen.asymBasic256Sha256 2041 = false ∧ acceptsBits Gen.asymBasic256Sha256 2047 = false ∧
    acceptsBits Gen.asymBasic128Rsa15 1017 = false ∧ acceptsBits Gen.asymBasic256Sha256 2048 = true := by
  decide

/-- Policy None takes any (or no) keys. -/
theorem C15_none_accepts (hl : Bool) (l : Int) (hrm : Bool) (r : Int) :
    Gen.asymNone.accept hl l hrm r = true := by
  simp [Gen.asymNone]

/-! ### Signatures — conditional on an idealised scheme (cryptographic hypothesis) -/

/-- Idealisation of RSASSA (PKCS#1 v1.5 or PSS): verification accepts exactly
    what the private key of the same pair produced for the same message.
    This is an ASSUMPTION about `crypto/rsa`, not something Lean proves. -/
structure IdealSig where
  sign : (key : Nat) → (rnd : Nat) → Bytes → Bytes
  verify : (key : Nat) → Bytes → Bytes → Bool
  complete : ∀ k r m, verify k m (sign k r m) = true
  sound : ∀ k m s, verify k m s = true → ∃ r, s = sign k r m
  sep : ∀ k k' r r' m m', sign k r m = sign k' r' m' → k = k' ∧ m = m'

/-- `PKCS1v15.Verify` / `RSAPSS.Verify`: hash the whole message, verify; nil key → error -/
def goVerify (S : IdealSig) (hasKey : Bool) (key : Nat) (msg sig : Bytes) : Bool :=
  hasKey && S.verify key msg sig

/-- PARTIAL (hypothesis `IdealSig`): a signature verifies only for the signed
    bytes and the right key. -/
theorem C15_sig_partial (S : IdealSig) (k k' r : Nat) (m m' : Bytes) :
    goVerify S true k' m' (S.sign k r m) = true ↔ k' = k ∧ m' = m := by
  simp only [goVerify, Bool.true_and]
  constructor
  · intro h
    obtain ⟨r', hr'⟩ := S.sound _ _ _ h
    obtain ⟨h1, h2⟩ := S.sep _ _ _ _ _ _ hr'
    exact ⟨h1.symm, h2.symm⟩
  · rintro ⟨rfl, rfl⟩
    exact S.complete _ _ _

/-! ### Stage 2: an executable reference for RSASSA-PKCS1-v1_5 verification
     (`Model/RsaRef.lean`; the driver verifies the signatures the real code produces) -/
section RsaRef
open Opcua.RsaRef Opcua.CryptoRef

/-- OS2IP ∘ I2OSP is reduction mod 256^k … -/
theorem C15_os2ip_i2osp (x k : Nat) : os2ip (i2osp x k) = x % 256 ^ k := by
  simp [os2ip, i2osp, leVal_leBytes]

/-- … hence the identity for every integer that fits `k` octets (RFC 8017 §4.1/4.2) -/
theorem C15_os2ip_i2osp_of_lt (x k : Nat) (h : x < 256 ^ k) : os2ip (i2osp x k) = x := by
  rw [C15_os2ip_i2osp, Nat.mod_eq_of_lt h]

/-- I2OSP ∘ OS2IP is the identity on octet strings (with their own length) -/
theorem C15_i2osp_os2ip (b : Bytes) : i2osp (os2ip b) b.length = b := by
  have := leBytes_leVal b.reverse
  simp only [List.length_reverse] at this
  simp [i2osp, os2ip, this]

/-- OS2IP of `k` octets is below 256^k, and I2OSP yields exactly `k` octets -/
theorem C15_os2ip_bound (b : Bytes) : os2ip b < 256 ^ b.length ∧ ∀ x k, (i2osp x k).length = k := by
  refine ⟨?_, i2osp_length⟩
  have h := C15_os2ip_i2osp (os2ip b) b.length
  rw [C15_i2osp_os2ip] at h
  rw [h]
  exact Nat.mod_lt _ (Nat.pow_pos (by decide))

/-- square-and-multiply computes the modular power -/
theorem C15_modPow_correct (b e n : Nat) : modPow b e n = b ^ e % n := by
  unfold modPow
  rw [modPowAux_spec, Nat.one_mul, ← Nat.pow_mod]

/-- EMSA-PKCS1-v1_5: the encoded message has exactly `k` octets and the shape
    `00 01 FF…FF 00 ‖ DigestInfo prefix ‖ digest` with at least 8 padding octets;
    it is refused exactly when `k < |T| + 11` -/
theorem C15_emsa_structure (h : HashAlg) (d : Bytes) (k : Nat) :
    (emsaOfDigest h d k = none ↔ k < (digestInfoPrefix h ++ d).length + 11) ∧
    ∀ em, emsaOfDigest h d k = some em →
      em.length = k ∧
      ∃ ps, 8 ≤ ps ∧ ps + (digestInfoPrefix h ++ d).length + 3 = k ∧
        em = 0x00 :: 0x01 :: (List.replicate ps 0xff ++ 0x00 :: (digestInfoPrefix h ++ d)) := by
  unfold emsaOfDigest
  by_cases hk : k < (digestInfoPrefix h ++ d).length + 11
  · rw [if_pos hk]
    exact ⟨⟨fun _ => hk, fun _ => rfl⟩, fun em hem => by cases hem⟩
  · simp only [hk, if_false]
    refine ⟨by simp, ?_⟩
    intro em hem
    simp only [Option.some.injEq] at hem
    subst hem
    refine ⟨?_, k - (digestInfoPrefix h ++ d).length - 3, by omega, by omega, rfl⟩
    simp only [List.length_cons, List.length_append, List.length_replicate] at hk ⊢
    omega

/-- the DigestInfo prefixes end with the digest length of their hash -/
theorem C15_digestinfo_prefixes :
    (digestInfoPrefix .sha1).length = 15 ∧ (digestInfoPrefix .sha256).length = 19 ∧
    (digestInfoPrefix .sha1).getLast? = some (UInt8.ofNat HashAlg.sha1.outLen) ∧
    (digestInfoPrefix .sha256).getLast? = some (UInt8.ofNat HashAlg.sha256.outLen) := by
  decide

/-- the executable verifier is RFC 8017 §8.2.2 in terms of the mathematical
    power: right length, representative below the modulus, and
    `I2OSP(s^e mod n, k) = EMSA-PKCS1-v1_5(msg, k)` -/
theorem C15_rsaVerify_spec (n e : Nat) (h : HashAlg) (msg sig : Bytes) :
    rsaVerifyPkcs1v15 n e h msg sig = true ↔
      sig.length = byteLen n ∧ os2ip sig < n ∧
      ∃ em, emsa h msg (byteLen n) = some em ∧ i2osp (os2ip sig ^ e % n) (byteLen n) = em := by
  unfold rsaVerifyPkcs1v15
  by_cases hl : sig.length = byteLen n
  · by_cases hn : os2ip sig ≥ n
    · have : ¬ os2ip sig < n := by omega
      simp [hl, hn, this]
    · have hlt : os2ip sig < n := by omega
      cases hem : emsa h msg (byteLen n) with
      | none => simp [hl, hn, hem]
      | some em => simp [hl, hn, hlt, hem, C15_modPow_correct]
  · simp [hl]

/-- non-vacuity of the arithmetic: a textbook value -/
example : modPow 4 13 497 = 445 ∧ os2ip [0x01, 0x00, 0x01] = 65537 ∧ i2osp 65537 4 = [0, 1, 0, 1] ∧ byteLen 65537 = 3 := by
  refine ⟨by rw [C15_modPow_correct], by decide, by decide, by decide⟩

end RsaRef

/-! ### Non-vacuity -/

/-- the hypotheses of `C15_roundtrip` are satisfiable: a 256-byte toy RSA with
    the OAEP-SHA1 capacity; 3 full blocks + 1 byte → 4 blocks -/
example : ∃ c, encrypt true (toy 256 214 (by decide) (by decide)) (fun _ => 7) 42 (List.replicate 643 1) = .ok c ∧
    c.length = 4 * 256 ∧ decrypt true (toy 256 214 (by decide) (by decide)) c = .ok (List.replicate 643 1) := by
  have h := C15_blocks (toy 256 214 (by decide) (by decide)) 42 (by decide) (by decide) (fun _ => 7) (List.replicate 643 1)
  obtain ⟨c, h1, h2, h3⟩ := h
  refine ⟨c, h1, ?_, h3⟩
  rw [h2, List.length_replicate]
  decide

/-- the raw `RSAOAEP{Hash: SHA256}` with a 1024-bit key (not reachable through
    `Asymmetric`, whose limits exclude it) would panic: block size 128 − 130 < 0 -/
example : encrypt true (toy 128 62 (by decide) (by decide)) (fun _ => 0) Gen.rSAOAEPMinPaddingSHA256 [1] = .panic := by
  decide

end Opcua.Props.C15
