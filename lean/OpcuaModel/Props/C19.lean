import OpcuaModel.Model.SendTimeoutInv
import OpcuaModel.Gen.SendFacts
/-
  C19 — request timeouts are bounded and never wedge the channel.

  `SendTimeout.step?`: callers (`open()` and ordinary requests), dispatcher,
  timers, the receive gate `rcvLocker`, a millisecond clock with the timeout
  leniency taken from the source.  `slack` is the assumed worst scheduling
  latency between a timer's expiry and its goroutine running.
-/
namespace Opcua.Props.C19
open Opcua Opcua.SendTimeout

/-- facts of the source the model relies on: the leniency constant, the order
    popHandler → rcvLocker.lock → (send) → rcvLocker.waitIfLock in the dispatcher, and
    that the flag of the gate is only touched under its own mutex -/
theorem C19_facts :
    Gen.SendFacts.timeoutLeniencyMs = 250 ∧
    (Gen.SendFacts.order_dispatcher.filter (fun c => c == "s.popHandler" || c == "s.rcvLocker.lock" || c == "s.rcvLocker.waitIfLock")
      = ["s.popHandler", "s.rcvLocker.lock", "s.rcvLocker.waitIfLock"]) ∧
    ((Gen.SendFacts.accesses.filter (·.field == "bLock")).all (·.held.contains "lockMu") = true) ∧
    ((Gen.SendFacts.order_sendRequestWithTimeout.filter (· == "s.popHandler")).length = 3) := by decide

/-- BOUNDED: whenever a call has left its select (response, timeout or
    cancellation), it did so before timeout + leniency + slack after entering it;
    a call still waiting has not exceeded that bound either -/
theorem C19_bounded {s : St} (h : Reachable s) (k : Nat) :
    (∀ t, leftAt (s.cpc k) = some t → t < s.t0 k + s.tmo k + leniency + s.slack) ∧
    (∀ dl opn, s.cpc k = .waiting dl opn → dl = s.t0 k + s.tmo k + leniency ∧ s.now < dl + s.slack) := by
  have hi := reachable_invT h
  exact ⟨fun t ht => (hi.left k t ht).1, fun dl opn hw => hi.dl k dl opn hw⟩

/-- the timeout branch is never blocked by another thread: once the deadline
    has passed the caller can return, whatever the dispatcher and the gate do -/
theorem C19_timeout_enabled (s : St) (k dl : Nat) (opn : Bool) (hw : s.cpc k = .waiting dl opn) (hd : dl ≤ s.now) :
    (step? s (.cTimeout k (s.handlers k))).isSome = true := by
  simp [step?, hw, hd]

/-- … and so can a cancelled call, at any time -/
theorem C19_cancel_enabled (s : St) (k dl : Nat) (opn : Bool) (hw : s.cpc k = .waiting dl opn) :
    (step? s (.cCancel k (s.handlers k))).isSome = true := by
  simp [step?, hw]

/-- SLOT RELEASED: a call that has returned — with a response, by timeout, by
    cancellation or because its send failed after the registration — has no
    handler registered -/
theorem C19_slot_released {s : St} (h : Reachable s) (k t : Nat) (hl : leftAt (s.cpc k) = some t) : s.handlers k = false :=
  ((reachable_invT h).left k t hl).2

/-- in particular a failed send releases its slot at once (the handler leak is repaired) -/
theorem C19_failed_send_releases :
    (run? (init 1 5000) [.cSendFail 0]).map (fun s => (s.cpc 0, s.handlers 0)) = some (.finished 0 .sendError, false) := by
  decide

/-- NO WEDGE, partial (guard `SendTimeout.Guard`: an `open()` does not time out /
    get cancelled while the dispatcher is between `popHandler` and
    `rcvLocker.lock()` for its response; conforming peer): whenever the gate is
    locked, the `open()` call it was locked for is still in flight and will unlock it -/
theorem C19_no_wedge_partial {s : St} (h : ReachableGP s) : ¬ Wedged s := by
  intro hw
  have hi := reachableGP_invW h
  obtain ⟨k, hk⟩ := hi.lockA hw.2.1
  have hb := hi.lockB k hk
  have hlt : k < s.n := hi.bound k (by
    intro hc; simp [openBusy, hc] at hb)
  have := anyBelow_false_iff.1 hw.2.2 k hlt
  rw [hb] at this; cases this

/-- FINDING C19.rcvlocker-wedge: the response to the OpenSecureChannel request
    arrives as the timer fires.  The dispatcher has popped the handler; `open()`
    times out and runs its deferred `rcvLocker.unlock()`; only then the dispatcher
    executes `rcvLocker.lock()` and waits at the gate — for ever: a later request
    (caller 1) is sent, its response cannot be received, it times out. -/
def wedgeTrace : List Label :=
  [.cSend 0 1000 true, .tick 1249, .dRecv 0 true true, .tick 1, .cTimeout 0 false, .cUnlock 0,
   .dRcvLock, .dSend, .cSend 1 1000 false, .tick 1250, .cTimeout 1 true]

theorem C19_finding_rcvlocker_wedge :
    (run? (init 2 5000) wedgeTrace).map (fun s => (decide (Wedged s), (step? s .dWait).isSome, s.cpc 1, s.delivered)) =
      some (true, false, .finished 2500 .timeout, 1) := by decide

theorem C19_no_wedge_not_full : ¬ ∀ s, Reachable s → ¬ Wedged s := by
  intro h
  have hr : ∃ s, run? (init 2 5000) wedgeTrace = some s := by
    cases hrun : run? (init 2 5000) wedgeTrace with
    | none => exact absurd hrun (by decide)
    | some s => exact ⟨s, rfl⟩
  obtain ⟨s, hs⟩ := hr
  have hn := h s (reachable_run wedgeTrace (Reachable.init 2 5000) hs)
  have hd : (run? (init 2 5000) wedgeTrace).map (fun s => decide (Wedged s)) = some true := by decide
  rw [hs] at hd
  simp at hd
  exact hn hd

/-- the guard is left exactly at the timeout of the `open()` call -/
theorem C19_guard_excludes_wedge :
    (run? (init 2 5000) (wedgeTrace.take 4)).map (fun s => decide (Guard s (.cTimeout 0 false))) = some false := by
  decide

/-- non-vacuity: a late response to an ordinary request is dropped, the channel
    goes on; a renewal answered in time locks and unlocks the gate -/
example :
    (run? (init 3 5000)
      [.cSend 0 100 false, .tick 350, .cTimeout 0 true, .dRecv 0 false false,
       .cSend 1 1000 true, .dRecv 1 true true, .dRcvLock, .dSend, .cRecv 1, .cUnlock 1, .dWait,
       .cSend 2 100 false, .dRecv 2 false true, .dSend, .dWait, .cRecv 2]).map
      (fun s => (s.cpc 0, s.cpc 1, s.cpc 2, s.dropped, s.rcvLocked, decide (Wedged s)))
    = some (.finished 350 .timeout, .finished 350 .got, .finished 350 .got, 1, false, false) := by decide

end Opcua.Props.C19
