import OpcuaModel.Model.SrvSecLemmas
/-
  C30 — the server only opens channels with security settings it enabled, and
  advertises exactly those.

  `serverOpn` is the model of the server's treatment of the first
  OpenSecureChannel request of a connection (readChunk + handleOpenSecureChannelRequest
  as written), `initEndpoints` / `enabledOf` the model of the configuration side.
  Both halves hold at full strength: advertised = enabled (C30_endpoints*,
  C30_enable*), and a channel is opened only for an enabled pair
  (C30_only_enabled) — since the server hands its enabled pairs to the channel
  (`cfg.AcceptSecurity`, pinned by the regenerated fact `opnChecksEnabled`,
  C30_facts).  The five former findings are restated as C30_repaired_*; the
  exact acceptance condition is C30_accept_iff.
-/
namespace Opcua.Props.C30
open Opcua Opcua.SrvSec

/-! ### source facts the model rests on (regenerated on every run) -/

/-- `enabledSec` is read by `EnableSecurity`, `initEndpoints` and the predicate `securityEnabled`, which
    `RegisterConn` installs as `cfg.AcceptSecurity` and `handleOpenSecureChannelRequest` consults; the
    channel's policy and mode are assigned from the client's chunk / request and nowhere else; every
    server-side channel starts as None / None. -/
theorem C30_facts :
    Gen.SrvSec.enabledSecReaders =
      ["server/server.go:New", "server/server.go:initEndpoints", "server/server.go:securityEnabled",
       "server/server_config.go:EnableSecurity"] ∧
    Gen.SrvSec.opnChecksEnabled = true ∧ Gen.SrvSec.defaultsToNone = true ∧
    Gen.SrvSec.chanCfgWrites =
      [("handleOpenSecureChannelRequest", "SecurityMode"), ("readChunk", "SecurityPolicyURI")] ∧
    Gen.SrvSec.defaultChannelPolicy = "ua.SecurityPolicyURINone" ∧
    Gen.SrvSec.defaultChannelMode = "ua.MessageSecurityModeNone" ∧
    Gen.SrvSec.supportedPolicies.contains policyNone = true := by decide

/-! ### configuration: EnableSecurity -/

/-- The configured set is exactly the set of `EnableSecurity` calls that name a
    supported policy (unsupported ones are dropped), without duplicates. -/
theorem C30_enable (calls : List (String × Nat)) :
    (enabledOf calls).Nodup ∧
    ∀ s, s ∈ enabledOf calls ↔ ∃ c ∈ calls, supported c.1 = true ∧ s = ⟨c.1, c.2⟩ := by
  refine ⟨foldl_enable_nodup calls [] List.nodup_nil, fun s => ?_⟩
  have := foldl_enable_mem calls [] s
  simpa [enabledOf] using this

/-- `server.New`: the configured set is the enabled calls, or None / None when they enabled nothing
    (so a server always has an endpoint to advertise and a pair to accept). -/
theorem C30_configured (calls : List (String × Nat)) :
    (configured calls).Nodup ∧ configured calls ≠ [] ∧
    (enabledOf calls ≠ [] → configured calls = enabledOf calls) ∧
    (enabledOf calls = [] → configured calls = [⟨policyNone, modeNone⟩]) := by
  have hd : Gen.SrvSec.defaultsToNone = true := by decide
  unfold configured
  cases he : enabledOf calls with
  | nil => simp [hd]
  | cons a r =>
    have := (C30_enable calls).1
    rw [he] at this
    simp [hd, this]

/-! ### advertised endpoints -/

/-- An endpoint is advertised iff its pair is enabled and its URL is one of the
    server's URLs: advertised = enabled pairs × urls. -/
theorem C30_endpoints (cfg : SrvCfg) (ep : Endpoint) :
    ep ∈ initEndpoints cfg ↔ ep.sec ∈ cfg.enabled ∧ ep.url ∈ cfg.urls := by
  unfold initEndpoints
  simp only [List.mem_flatMap, List.mem_map]
  constructor
  · rintro ⟨s, hs, u, hu, rfl⟩; exact ⟨hs, hu⟩
  · rintro ⟨hs, hu⟩; exact ⟨ep.sec, hs, ep.url, hu, by cases ep; rfl⟩

/-- nothing is advertised twice, one endpoint per (pair, url) -/
theorem C30_endpoints_count (cfg : SrvCfg) :
    (initEndpoints cfg).length = cfg.enabled.length * cfg.urls.length := by
  unfold initEndpoints
  induction cfg.enabled with
  | nil => simp
  | cons s r ih => simp [List.flatMap_cons, ih, Nat.add_mul, Nat.add_comm]

/-- The set of advertised pairs is exactly the enabled set (server has a URL). -/
theorem C30_endpoints_pairs (cfg : SrvCfg) (h : cfg.urls ≠ []) (s : Sec) :
    (∃ ep ∈ initEndpoints cfg, ep.sec = s) ↔ s ∈ cfg.enabled := by
  constructor
  · rintro ⟨ep, hep, rfl⟩; exact ((C30_endpoints cfg ep).mp hep).1
  · intro hs
    cases hu : cfg.urls with
    | nil => exact absurd hu h
    | cons u us => exact ⟨⟨u, s⟩, (C30_endpoints cfg ⟨u, s⟩).mpr ⟨hs, by simp [hu]⟩, rfl⟩

/-- `GetEndpoints` with one of the server's URLs returns every enabled pair and
    only enabled pairs. -/
theorem C30_getEndpoints (cfg : SrvCfg) (u : String) (hu : u ∈ cfg.urls) (s : Sec) :
    (∃ ep ∈ getEndpoints cfg u, ep.sec = s) ↔ s ∈ cfg.enabled := by
  unfold getEndpoints
  constructor
  · rintro ⟨ep, hep, rfl⟩
    exact ((C30_endpoints cfg ep).mp (List.mem_filter.mp hep).1).1
  · intro hs
    exact ⟨⟨u, s⟩, List.mem_filter.mpr ⟨(C30_endpoints cfg ⟨u, s⟩).mpr ⟨hs, hu⟩, by simp⟩, rfl⟩

/-! ### OpenSecureChannel acceptance -/

/-- Closed form of acceptance: the step-by-step model accepts exactly the
    requests satisfying `acceptable`, and the channel gets the request's pair. -/
theorem C30_accept_iff (srv : SrvCfg) (o : Opn) (s : Sec) :
    serverOpn srv o = .accept s ↔ acceptable srv o = true ∧ s = ⟨o.policy, o.mode⟩ := by
  rw [serverOpn_eq]
  by_cases ha : acceptable srv o = true
  · simp only [ha, if_true, true_and, Outcome.accept.injEq]
    exact eq_comm
  · simp [ha]

/-- What an accepted channel does guarantee: a supported policy; policy None only
    with mode None; a secure policy only for a sender that signed with the key of
    an acceptable RSA certificate and encrypted to the server. -/
theorem C30_guarantees (srv : SrvCfg) (o : Opn) (s : Sec) (h : serverOpn srv o = .accept s) :
    supported s.policy = true ∧
    (s.policy = policyNone → s.mode = modeNone) ∧
    (s.policy ≠ policyNone → o.cert = .good ∧ o.body = .secured) := by
  obtain ⟨ha, rfl⟩ := (C30_accept_iff srv o s).mp h
  unfold acceptable at ha
  by_cases hp : o.policy = policyNone <;> simp_all

/-- an unsupported policy URI is always refused -/
theorem C30_unsupported_refused (srv : SrvCfg) (o : Opn) (h : supported o.policy = false) :
    serverOpn srv o = .reject := by
  cases hr : serverOpn srv o with
  | reject => rfl
  | accept s =>
    have := ((C30_accept_iff srv o s).mp hr).1
    unfold acceptable at this
    simp_all

/-- C30, second half, at full strength: whatever the configuration and whatever the request, a
    channel is opened only with one of the enabled (policy, mode) pairs. -/
theorem C30_only_enabled (srv : SrvCfg) (o : Opn) (s : Sec) (h : serverOpn srv o = .accept s) :
    s ∈ srv.enabled := by
  obtain ⟨ha, rfl⟩ := (C30_accept_iff srv o s).mp h
  have hk : Gen.SrvSec.opnChecksEnabled = true := by decide
  unfold acceptable at ha
  simp only [hk, Bool.not_true, Bool.false_or, Bool.and_eq_true] at ha
  exact List.contains_iff_mem.mp ha.1.2

/-- any other request is refused: in particular invalid mode values and secure policies with mode None -/
theorem C30_not_enabled_refused (srv : SrvCfg) (o : Opn) (h : (⟨o.policy, o.mode⟩ : Sec) ∉ srv.enabled) :
    serverOpn srv o = .reject := by
  cases hr : serverOpn srv o with
  | reject => rfl
  | accept s =>
    have hs := C30_only_enabled srv o s hr
    obtain ⟨_, rfl⟩ := (C30_accept_iff srv o s).mp hr
    exact absurd hs h

/-- an enabled valid pair is still accepted from a client that does its part (the check refuses nothing
    that was enabled) -/
theorem C30_enabled_accepted (srv : SrvCfg) (o : Opn) (he : (⟨o.policy, o.mode⟩ : Sec) ∈ srv.enabled)
    (hv : o.protoVer = 0) (ht : o.authTok = 0) (hs : supported o.policy = true)
    (hc : if o.policy = policyNone then o.body = .plain ∧ o.mode = modeNone else o.cert = .good ∧ o.body = .secured) :
    serverOpn srv o = .accept ⟨o.policy, o.mode⟩ := by
  rw [C30_accept_iff]
  refine ⟨?_, rfl⟩
  unfold acceptable
  have hcont : srv.enabled.contains (⟨o.policy, o.mode⟩ : Sec) = true := List.contains_iff_mem.mpr he
  by_cases hp : o.policy = policyNone <;> simp_all

/-- The finding signatures partition the violations: a pair that is not enabled
    falls into exactly one of the five classes, an enabled one into none. -/
theorem C30_classify_cover (srv : SrvCfg) (s : Sec) :
    (classify srv s = "enabled" ↔ s ∈ srv.enabled) ∧
    (s ∉ srv.enabled → classify srv s ∈
      ["C30.accept-none-not-enabled", "C30.accept-secure-policy-mode-none", "C30.accept-invalid-mode",
       "C30.accept-mode-not-enabled", "C30.accept-policy-not-enabled"]) := by
  unfold classify
  by_cases he : s ∈ srv.enabled
  · simp [he]
  · simp only [List.contains_iff_mem, he, if_false, not_false_eq_true, forall_const, iff_false]
    split
    · simp
    · split
      · simp
      · split
        · simp
        · split <;> simp

/-! ### repaired: the five former findings -/

/-- a server that enabled only Basic256Sha256 / SignAndEncrypt -/
def srvB256SE : SrvCfg := ⟨[⟨"Basic256Sha256", modeSignAndEncrypt⟩], ["opc.tcp://localhost:4840"]⟩
/-- a server that enabled only Basic256Sha256 / Sign -/
def srvB256S : SrvCfg := ⟨[⟨"Basic256Sha256", modeSign⟩], ["opc.tcp://localhost:4840"]⟩

def opnNone : Opn := { policy := "None", cert := .absent, body := .plain, mode := modeNone }
def opnSecure (p : String) (m : Nat) : Opn := { policy := p, cert := .good, body := .secured, mode := m }

/-- was C30.accept-none-not-enabled: the unsecured pair is refused unless it is enabled -/
theorem C30_repaired_none_not_enabled :
    serverOpn srvB256SE opnNone = .reject ∧
    serverOpn ⟨[⟨"None", modeNone⟩], []⟩ opnNone = .accept ⟨"None", modeNone⟩ := by decide

/-- was C30.accept-policy-not-enabled -/
theorem C30_repaired_policy_not_enabled :
    serverOpn srvB256SE (opnSecure "Basic128Rsa15" modeSign) = .reject := by decide

/-- was C30.accept-mode-not-enabled -/
theorem C30_repaired_mode_not_enabled :
    serverOpn srvB256SE (opnSecure "Basic256Sha256" modeSign) = .reject ∧
    serverOpn srvB256S (opnSecure "Basic256Sha256" modeSignAndEncrypt) = .reject ∧
    serverOpn srvB256S (opnSecure "Basic256Sha256" modeSign) = .accept ⟨"Basic256Sha256", modeSign⟩ := by decide

/-- was C30.accept-secure-policy-mode-none and C30.accept-invalid-mode -/
theorem C30_repaired_irregular_modes :
    serverOpn srvB256SE (opnSecure "Basic256Sha256" modeNone) = .reject ∧
    serverOpn srvB256SE (opnSecure "Basic256Sha256" 0) = .reject ∧
    serverOpn srvB256SE (opnSecure "Basic256Sha256" 77) = .reject := by decide

/-! ### non-vacuity -/

example : serverOpn srvB256SE (opnSecure "Basic256Sha256" modeSignAndEncrypt) = .accept ⟨"Basic256Sha256", 3⟩ := by decide
example : serverOpn ⟨[⟨"None", modeNone⟩, ⟨"None", modeSign⟩], []⟩ { opnNone with mode := modeSign } = .reject := by decide
example : serverOpn srvB256SE { (opnSecure "Basic256Sha256" 3) with body := .plain } = .reject := by decide
example : serverOpn srvB256SE (opnSecure "Bogus" 3) = .reject := by decide
example : enabledOf [("Basic256", 2), ("Basic256", 2), ("Bogus", 2), ("None", 1)] = [⟨"Basic256", 2⟩, ⟨"None", 1⟩] := by decide

end Opcua.Props.C30
