import OpcuaModel.Model.SrvSecLemmas
/-
  C30 — the server only opens channels with security settings it enabled, and
  advertises exactly those.

  `serverOpn` is the model of the server's treatment of the first
  OpenSecureChannel request of a connection (readChunk + handleOpenSecureChannelRequest
  as written), `initEndpoints` / `enabledOf` the model of the configuration side.
  The "advertised = enabled" half holds (C30_endpoints*, C30_enable*); the "only
  enabled pairs open a channel" half is FALSE on the unchanged code:
  acceptance never looks at the enabled set (C30_accept_ignores_enabled, pinned
  in the source by C30_facts).  The set of violating inputs is characterised
  exactly (C30_violation_iff), split into five classes (C30_classify_cover) with
  one machine-checked counterexample each (C30_finding_*), and the property is
  proved on the complement (C30_only_enabled_partial).
-/
namespace Opcua.Props.C30
open Opcua Opcua.SrvSec

/-! ### source facts the model rests on (regenerated on every run) -/

/-- Only `EnableSecurity` and `initEndpoints` ever mention `enabledSec`; the
    channel's policy and mode are assigned from the client's chunk / request
    and nowhere else; the OPN path does not consult an acceptance predicate
    (`cfg.AcceptSecurity`: none) and `server.New` adds no default pair; every
    server-side channel starts as None / None. -/
theorem C30_facts :
    Gen.SrvSec.enabledSecReaders = ["server/server.go:initEndpoints", "server/server_config.go:EnableSecurity"] ∧
    Gen.SrvSec.chanCfgWrites =
      [("handleOpenSecureChannelRequest", "SecurityMode"), ("readChunk", "SecurityPolicyURI")] ∧
    Gen.SrvSec.opnChecksEnabled = false ∧ Gen.SrvSec.defaultsToNone = false ∧
    Gen.SrvSec.defaultChannelPolicy = "ua.SecurityPolicyURINone" ∧
    Gen.SrvSec.defaultChannelMode = "ua.MessageSecurityModeNone" ∧
    Gen.SrvSec.supportedPolicies.contains policyNone = true := by decide

/-! ### configuration: EnableSecurity -/

/-- The configured set is exactly the set of `EnableSecurity` calls that name a
    supported policy (unsupported ones are dropped), without duplicates. -/
theorem C30_enable (calls : List (String × Nat)) :
    (enabledOf calls).Nodup ∧
    ∀ s, s ∈ enabledOf calls ↔ ∃ c ∈ calls, supported c.1 = true ∧ s = ⟨c.1, c.2⟩ := by
  refine ⟨foldl_enable_nodup calls [] List.nodup_nil, fun s => ?_⟩
  have := foldl_enable_mem calls [] s
  simpa [enabledOf] using this

/-! ### advertised endpoints -/

/-- An endpoint is advertised iff its pair is enabled and its URL is one of the
    server's URLs: advertised = enabled pairs × urls. -/
theorem C30_endpoints (cfg : SrvCfg) (ep : Endpoint) :
    ep ∈ initEndpoints cfg ↔ ep.sec ∈ cfg.enabled ∧ ep.url ∈ cfg.urls := by
  unfold initEndpoints
  simp only [List.mem_flatMap, List.mem_map]
  constructor
  · rintro ⟨s, hs, u, hu, rfl⟩; exact ⟨hs, hu⟩
  · rintro ⟨hs, hu⟩; exact ⟨ep.sec, hs, ep.url, hu, by cases ep; rfl⟩

/-- nothing is advertised twice, one endpoint per (pair, url) -/
theorem C30_endpoints_count (cfg : SrvCfg) :
    (initEndpoints cfg).length = cfg.enabled.length * cfg.urls.length := by
  unfold initEndpoints
  induction cfg.enabled with
  | nil => simp
  | cons s r ih => simp [List.flatMap_cons, ih, Nat.add_mul, Nat.add_comm]

/-- The set of advertised pairs is exactly the enabled set (server has a URL). -/
theorem C30_endpoints_pairs (cfg : SrvCfg) (h : cfg.urls ≠ []) (s : Sec) :
    (∃ ep ∈ initEndpoints cfg, ep.sec = s) ↔ s ∈ cfg.enabled := by
  constructor
  · rintro ⟨ep, hep, rfl⟩; exact ((C30_endpoints cfg ep).mp hep).1
  · intro hs
    cases hu : cfg.urls with
    | nil => exact absurd hu h
    | cons u us => exact ⟨⟨u, s⟩, (C30_endpoints cfg ⟨u, s⟩).mpr ⟨hs, by simp [hu]⟩, rfl⟩

/-- `GetEndpoints` with one of the server's URLs returns every enabled pair and
    only enabled pairs. -/
theorem C30_getEndpoints (cfg : SrvCfg) (u : String) (hu : u ∈ cfg.urls) (s : Sec) :
    (∃ ep ∈ getEndpoints cfg u, ep.sec = s) ↔ s ∈ cfg.enabled := by
  unfold getEndpoints
  constructor
  · rintro ⟨ep, hep, rfl⟩
    exact ((C30_endpoints cfg ep).mp (List.mem_filter.mp hep).1).1
  · intro hs
    exact ⟨⟨u, s⟩, List.mem_filter.mpr ⟨(C30_endpoints cfg ⟨u, s⟩).mpr ⟨hs, hu⟩, by simp⟩, rfl⟩

/-! ### OpenSecureChannel acceptance -/

/-- The server's answer does not depend on the enabled set (nor on the URLs). -/
theorem C30_accept_ignores_enabled (srv srv' : SrvCfg) (o : Opn) :
    serverOpn srv o = serverOpn srv' o := rfl

/-- Closed form of acceptance: the step-by-step model accepts exactly the
    requests satisfying `acceptable`, and the channel gets the request's pair. -/
theorem C30_accept_iff (srv : SrvCfg) (o : Opn) (s : Sec) :
    serverOpn srv o = .accept s ↔ acceptable srv o = true ∧ s = ⟨o.policy, o.mode⟩ := by
  rw [serverOpn_eq]
  by_cases ha : acceptable srv o = true
  · simp only [ha, if_true, true_and, Outcome.accept.injEq]
    exact eq_comm
  · simp [ha]

/-- What an accepted channel does guarantee: a supported policy; policy None only
    with mode None; a secure policy only for a sender that signed with the key of
    an acceptable RSA certificate and encrypted to the server. -/
theorem C30_guarantees (srv : SrvCfg) (o : Opn) (s : Sec) (h : serverOpn srv o = .accept s) :
    supported s.policy = true ∧
    (s.policy = policyNone → s.mode = modeNone) ∧
    (s.policy ≠ policyNone → o.cert = .good ∧ o.body = .secured) := by
  obtain ⟨ha, rfl⟩ := (C30_accept_iff srv o s).mp h
  unfold acceptable at ha
  by_cases hp : o.policy = policyNone <;> simp_all

/-- an unsupported policy URI is always refused -/
theorem C30_unsupported_refused (srv : SrvCfg) (o : Opn) (h : supported o.policy = false) :
    serverOpn srv o = .reject := by
  cases hr : serverOpn srv o with
  | reject => rfl
  | accept s =>
    have := ((C30_accept_iff srv o s).mp hr).1
    unfold acceptable at this
    simp_all

/-- C30 on the part of the input space where it holds: if the requested pair is
    enabled, or the request is not acceptable, an opened channel has an enabled pair. -/
theorem C30_only_enabled_partial (srv : SrvCfg) (o : Opn) (s : Sec)
    (guard : (⟨o.policy, o.mode⟩ : Sec) ∈ srv.enabled ∨ acceptable srv o = false)
    (h : serverOpn srv o = .accept s) : s ∈ srv.enabled := by
  obtain ⟨ha, rfl⟩ := (C30_accept_iff srv o s).mp h
  rcases guard with g | g
  · exact g
  · simp [ha] at g

/-- Exactly the acceptable requests for a pair that is not enabled violate C30. -/
theorem C30_violation_iff (srv : SrvCfg) (o : Opn) :
    (∃ s, serverOpn srv o = .accept s ∧ s ∉ srv.enabled) ↔
      acceptable srv o = true ∧ (⟨o.policy, o.mode⟩ : Sec) ∉ srv.enabled := by
  constructor
  · rintro ⟨s, h, hn⟩
    obtain ⟨ha, rfl⟩ := (C30_accept_iff srv o s).mp h
    exact ⟨ha, hn⟩
  · rintro ⟨ha, hn⟩
    exact ⟨_, (C30_accept_iff srv o _).mpr ⟨ha, rfl⟩, hn⟩

/-- The finding signatures partition the violations: a pair that is not enabled
    falls into exactly one of six classes (five are recorded findings; the sixth, policy None with a
    signing mode, is never opened: C30_guarantees), an enabled one into none. -/
theorem C30_classify_cover (srv : SrvCfg) (s : Sec) :
    (classify srv s = "enabled" ↔ s ∈ srv.enabled) ∧
    (s ∉ srv.enabled → classify srv s ∈
      ["C30.accept-none-not-enabled", "C30.accept-none-policy-with-mode", "C30.accept-secure-policy-mode-none",
       "C30.accept-invalid-mode", "C30.accept-mode-not-enabled", "C30.accept-policy-not-enabled"]) := by
  unfold classify
  by_cases he : s ∈ srv.enabled
  · simp [he]
  · simp only [List.contains_iff_mem, he, if_false, not_false_eq_true, forall_const, iff_false]
    split
    · simp
    · split
      · simp
      · split
        · simp
        · split
          · simp
          · split <;> simp

/-! ### the full-strength statement is false: machine-checked counterexamples -/

/-- a server that enabled only Basic256Sha256 / SignAndEncrypt -/
def srvB256SE : SrvCfg := ⟨[⟨"Basic256Sha256", modeSignAndEncrypt⟩], ["opc.tcp://localhost:4840"]⟩
/-- a server that enabled only Basic256Sha256 / Sign -/
def srvB256S : SrvCfg := ⟨[⟨"Basic256Sha256", modeSign⟩], ["opc.tcp://localhost:4840"]⟩

def opnNone : Opn := { policy := "None", cert := .absent, body := .plain, mode := modeNone }
def opnSecure (p : String) (m : Nat) : Opn := { policy := p, cert := .good, body := .secured, mode := m }

/-- finding C30.accept-none-not-enabled: the unsecured pair is accepted by a
    server that enabled only Basic256Sha256 / SignAndEncrypt (and advertises only that). -/
theorem C30_finding_none_not_enabled :
    serverOpn srvB256SE opnNone = .accept ⟨"None", modeNone⟩ ∧
    (⟨"None", modeNone⟩ : Sec) ∉ srvB256SE.enabled ∧
    (initEndpoints srvB256SE).map (·.sec) = [⟨"Basic256Sha256", modeSignAndEncrypt⟩] ∧
    classify srvB256SE ⟨"None", modeNone⟩ = "C30.accept-none-not-enabled" := by decide

/-- finding C30.accept-policy-not-enabled: the deprecated Basic128Rsa15 is accepted
    although only Basic256Sha256 is enabled. -/
theorem C30_finding_policy_not_enabled :
    serverOpn srvB256SE (opnSecure "Basic128Rsa15" modeSign) = .accept ⟨"Basic128Rsa15", modeSign⟩ ∧
    (⟨"Basic128Rsa15", modeSign⟩ : Sec) ∉ srvB256SE.enabled ∧
    classify srvB256SE ⟨"Basic128Rsa15", modeSign⟩ = "C30.accept-policy-not-enabled" := by decide

/-- finding C30.accept-mode-not-enabled: Sign is accepted where only SignAndEncrypt
    is enabled for the policy (and the other way round). -/
theorem C30_finding_mode_not_enabled :
    serverOpn srvB256SE (opnSecure "Basic256Sha256" modeSign) = .accept ⟨"Basic256Sha256", modeSign⟩ ∧
    (⟨"Basic256Sha256", modeSign⟩ : Sec) ∉ srvB256SE.enabled ∧
    classify srvB256SE ⟨"Basic256Sha256", modeSign⟩ = "C30.accept-mode-not-enabled" ∧
    serverOpn srvB256S (opnSecure "Basic256Sha256" modeSignAndEncrypt) = .accept ⟨"Basic256Sha256", modeSignAndEncrypt⟩ ∧
    classify srvB256S ⟨"Basic256Sha256", modeSignAndEncrypt⟩ = "C30.accept-mode-not-enabled" := by decide

/-- finding C30.accept-secure-policy-mode-none: a properly secured OPN that asks for
    SecurityMode None under a secure policy is accepted; the channel then runs in
    the clear under the name of the secure policy. -/
theorem C30_finding_secure_policy_mode_none :
    serverOpn srvB256SE (opnSecure "Basic256Sha256" modeNone) = .accept ⟨"Basic256Sha256", modeNone⟩ ∧
    validPair ⟨"Basic256Sha256", modeNone⟩ = false ∧
    classify srvB256SE ⟨"Basic256Sha256", modeNone⟩ = "C30.accept-secure-policy-mode-none" := by decide

/-- finding C30.accept-invalid-mode: SecurityMode values that are not modes at all
    (0 = Invalid, 77) are accepted and stored. -/
theorem C30_finding_invalid_mode :
    serverOpn srvB256SE (opnSecure "Basic256Sha256" 0) = .accept ⟨"Basic256Sha256", 0⟩ ∧
    serverOpn srvB256SE (opnSecure "Basic256Sha256" 77) = .accept ⟨"Basic256Sha256", 77⟩ ∧
    validPair ⟨"Basic256Sha256", 77⟩ = false ∧
    classify srvB256SE ⟨"Basic256Sha256", 77⟩ = "C30.accept-invalid-mode" := by decide

/-- the property at full strength does not hold for the code as it is -/
theorem C30_only_enabled_false :
    ¬ ∀ (srv : SrvCfg) (o : Opn) (s : Sec), serverOpn srv o = .accept s → s ∈ srv.enabled := by
  intro h
  exact absurd (h srvB256SE opnNone _ C30_finding_none_not_enabled.1) C30_finding_none_not_enabled.2.1

/-! ### renewal: second and later OpenSecureChannel requests on a connection -/

/-- the first request of a connection is the one-element sequence from the fresh configuration -/
theorem C30_seq_first (srv : SrvCfg) (o : Opn) : opnSeq srv (some freshChan) [o] = [serverOpn srv o] := by
  unfold opnSeq opnFrom serverOpn
  cases hr : readChunkOpn srv freshChan o with
  | none => simp [opnSeq]
  | some c => cases hh : handleOpen c o <;> simp [opnSeq, hh]

/-- a later request is treated without looking at the enabled set either -/
theorem C30_renew_ignores_enabled (srv srv' : SrvCfg) (c : ChanCfg) (o : Opn) :
    opnFrom srv c o = opnFrom srv' c o := rfl

/-- Whatever the connection negotiated before: a correctly secured request under any supported secure
    policy, with any mode value, is accepted and REPLACES policy and mode of the channel. -/
theorem C30_renew_secure_accepted (srv : SrvCfg) (c : ChanCfg) (o : Opn)
    (hp : o.policy ≠ policyNone) (hs : supported o.policy = true) (hc : o.cert = .good)
    (hb : o.body = .secured) (hv : o.protoVer = 0) (ht : o.authTok = 0) :
    opnFrom srv c o = some ⟨o.policy, o.mode, .good⟩ := by
  unfold opnFrom readChunkOpn handleOpen
  simp [hp, hs, hc, hb, hv, ht, certUsable]

/-- A request with policy None on a channel whose mode is not None is refused (the server tries to
    verify it with the channel's symmetric keys): no renewal can downgrade a secured channel to None. -/
theorem C30_renew_to_none_refused (srv : SrvCfg) (c : ChanCfg) (o : Opn)
    (hp : o.policy = policyNone) (hm : c.mode ≠ modeNone) : opnFrom srv c o = none := by
  unfold opnFrom readChunkOpn
  simp [hp, hm]

/-- finding C30.renew-switches-security: on a server that enabled only Basic256Sha256 / SignAndEncrypt a
    channel opened with exactly that pair is switched by a renewal request to Sign, or to another
    policy; a None / None channel is upgraded; only the switch to None is refused. -/
theorem C30_finding_renew_switches :
    opnSeq srvB256SE (some freshChan) [opnSecure "Basic256Sha256" 3, opnSecure "Basic256Sha256" 2] =
      [.accept ⟨"Basic256Sha256", 3⟩, .accept ⟨"Basic256Sha256", 2⟩] ∧
    opnSeq srvB256SE (some freshChan) [opnSecure "Basic256Sha256" 3, opnSecure "Aes128_Sha256_RsaOaep" 3] =
      [.accept ⟨"Basic256Sha256", 3⟩, .accept ⟨"Aes128_Sha256_RsaOaep", 3⟩] ∧
    opnSeq srvB256SE (some freshChan) [opnSecure "Basic256Sha256" 3, opnNone, opnSecure "Basic256Sha256" 3] =
      [.accept ⟨"Basic256Sha256", 3⟩, .reject, .reject] ∧
    opnSeq srvB256SE (some freshChan) [opnNone, opnSecure "Basic256Sha256" 3] =
      [.accept ⟨"None", 1⟩, .accept ⟨"Basic256Sha256", 3⟩] ∧
    classifyRenew srvB256SE ⟨"Basic256Sha256", 2⟩ = "C30.renew-switches-security" ∧
    classifyRenew srvB256SE ⟨"Basic256Sha256", 3⟩ = "enabled" := by decide

/-! ### non-vacuity -/

example : serverOpn srvB256SE (opnSecure "Basic256Sha256" modeSignAndEncrypt) = .accept ⟨"Basic256Sha256", 3⟩ := by decide
example : serverOpn srvB256SE { opnNone with mode := modeSign } = .reject := by decide
example : serverOpn srvB256SE { (opnSecure "Basic256Sha256" 3) with body := .plain } = .reject := by decide
example : serverOpn srvB256SE (opnSecure "Bogus" 3) = .reject := by decide
example : enabledOf [("Basic256", 2), ("Basic256", 2), ("Bogus", 2), ("None", 1)] = [⟨"Basic256", 2⟩, ⟨"None", 1⟩] := by decide

end Opcua.Props.C30
