import OpcuaModel.Model.Lockset
import OpcuaModel.Model.LocksetTable
import OpcuaModel.Gen.RaceFacts
/-
  C36 (PARTIAL) — data-race freedom of client, secure channel and server, lockset part.

  Model/Lockset.lean: traces of threads with mutex / RWMutex / read / write / go events, well-formedness
  (mutual exclusion, release only what is held), happens-before = program order + Unlock→Lock edges +
  goroutine start; theorem: a consistent lockset implies that conflicting accesses are ordered.
  Model/LocksetTable.lean: the step from a table of syntactic access sites to that theorem.
  Gen/RaceFacts.lean: the table extracted from the current source (harness/internal/racefacts).

  What is proved is a statement about the MODEL and the TABLE; that the running code conforms to the
  table (`Conforms`: every access executes a listed site and really holds the listed mutexes of the same
  object) is the trusted, syntactic part.  The race detector runs of harness/cmd/c36 confirm or refute
  table entries; they are not part of any theorem.
-/
namespace Opcua.Props.C36
open Opcua.Lockset Opcua.Gen.RaceFacts

/-- lockset soundness (unbounded traces and threads): if every write of x holds l exclusively and every
    read of x holds l in either mode, any two conflicting accesses of x by different threads are ordered
    by happens-before — no data race on x in the sense of the Go memory model -/
theorem C36_lockset_sound {L X : Type} {tr : Trace L X} {x : X} {l : L}
    (wf : WF tr) (d : Disciplined tr x l) : RaceFree tr x := lockset_sound wf d

/-- a location that is never written has no race -/
theorem C36_readonly_sound {L X : Type} {tr : Trace L X} {x : X}
    (h : ∀ (i t : Nat), tr[i]? ≠ some ⟨t, .wr x⟩) : RaceFree tr x := readonly_sound h

/-- constructor writes: what a thread did before a `go` statement happens before everything the new
    goroutine does (why rows marked `fresh` are left out of the lockset condition) -/
theorem C36_init_before_go {L X : Type} {tr : Trace L X} {i f j t c : Nat} {a b : Op L X}
    (hif : i < f) (hfj : f < j) (hi : tr[i]? = some ⟨t, a⟩) (hf : tr[f]? = some ⟨t, .fork c⟩)
    (hj : tr[j]? = some ⟨c, b⟩) : HB tr i j := init_before_fork hif hfj hi hf hj

/-- the model is not vacuous: a well-formed disciplined trace with a real conflict (writer under Lock,
    reader under RLock) is race free … -/
theorem C36_model_nonvacuous : WF exGood ∧ Conflict exGood 7 1 4 ∧ RaceFree exGood 7 :=
  ⟨exGood_wf, exGood_conflict, exGood_racefree⟩

/-- … two writers without any mutex race … -/
theorem C36_model_race_without_lock : WF exRacy ∧ ¬ RaceFree exRacy 7 := ⟨exRacy_wf, exRacy_race⟩

/-- … and so do two writers that hold two DIFFERENT mutexes (inconsistent lockset) -/
theorem C36_model_race_two_locks : WF exTwoLocks ∧ ¬ RaceFree exTwoLocks 7 := ⟨exTwoLocks_wf, exTwoLocks_race⟩

/-- table → model, for the generated table: a field all of whose (non-constructor) access sites hold one
    mutex of the same struct (writes exclusively) is race free in every well-formed trace that conforms
    to the table -/
theorem C36_lockset_partial {f l : String} (h : protectedBy sites lockOwners f l = true)
    {tr : ObjTrace} {o : Nat} (wf : WF tr) (hc : Conforms sites lockOwners tr o f) :
    RaceFree tr (o, f) := table_sound h wf hc

/-- the same for fields that are only read outside constructors -/
theorem C36_readonly_partial {f : String} (h : readonlyField sites f = true)
    {tr : ObjTrace} {o : Nat} (hc : Conforms sites lockOwners tr o f) :
    RaceFree tr (o, f) := table_readonly_sound h hc

/-- the fields the property names, with the mutex the current source protects them by -/
def corePairs : List (String × String) := [
  ("uasc.SecureChannel.handlers", "uasc.SecureChannel.handlersMu"),
  ("uasc.SecureChannel.chunks", "uasc.SecureChannel.chunksMu"),
  ("uasc.SecureChannel.instances", "uasc.SecureChannel.instancesMu"),
  ("uasc.SecureChannel.activeInstance", "uasc.SecureChannel.instancesMu"),
  ("uasc.conditionLocker.bLock", "uasc.conditionLocker.lockMu"),
  ("opcua.Client.subs", "opcua.Client.subMux"),
  ("opcua.Client.pendingAcks", "opcua.Client.subMux"),
  ("opcua.Subscription.items", "opcua.Subscription.itemsMu"),
  ("opcua.Subscription.params", "opcua.Subscription.paramsMu"),
  ("server.SubscriptionService.Subs", "server.SubscriptionService.Mu"),
  ("server.SubscriptionService.lastSubID", "server.SubscriptionService.Mu"),
  ("server.MonitoredItemService.Items", "server.MonitoredItemService.Mu"),
  ("server.MonitoredItemService.Nodes", "server.MonitoredItemService.Mu"),
  ("server.MonitoredItemService.Subs", "server.MonitoredItemService.Mu"),
  ("server.Subscription.running", "server.Subscription.Mu"),
  ("server.channelBroker.s", "server.channelBroker.mu"),
  ("server.sessionBroker.s", "server.sessionBroker.mu"),
  ("server.NodeNameSpace.nodes", "server.NodeNameSpace.mu"),
  ("server.NodeNameSpace.m", "server.NodeNameSpace.mu")]

/-- decided on the table of the current source: every core field has a write site, and all its sites
    hold the named mutex (re-checked on every run; a removed Lock breaks this theorem) -/
theorem C36_core_guarded :
    corePairs.all (fun p => protectedBy sites lockOwners p.1 p.2 &&
      (sitesOf sites p.1).any (·.isWrite)) = true := by decide +kernel

/-- hence: the core fields are race free in every well-formed trace conforming to the table -/
theorem C36_core_racefree {p : String × String} (hp : p ∈ corePairs)
    {tr : ObjTrace} {o : Nat} (wf : WF tr) (hc : Conforms sites lockOwners tr o p.1) :
    RaceFree tr (o, p.1) := by
  have h := List.all_eq_true.mp C36_core_guarded p hp
  simp only [Bool.and_eq_true] at h
  exact table_sound h.1 wf hc

/-- the client's channel / session / state pointers are atomic.Value cells: every site goes through
    Load/Store (race free by the memory model's rule for sync/atomic, outside the lockset model) -/
def coreAtomic : List String := [
  "opcua.Client.atomicSechan", "opcua.Client.atomicSession", "opcua.Client.atomicState",
  "opcua.Client.atomicNamespaces", "opcua.Client.atomicPublishTimeout",
  "uasc.channelInstance.bytesSent", "uasc.channelInstance.messagesSent", "server.MonitoredItemService.id"]

theorem C36_core_atomic : coreAtomic.all (fun f => atomicField sites f) = true := by decide +kernel

/-! ### findings: the table shows an inconsistently protected pair of sites (confirmed by the race detector,
    see findings.d/C36.txt) -/

/-- server.Node.val: SetAttribute replaces the value closure without any mutex while Attribute / Value read it -/
theorem C36_finding_node_val : (candidatePairs sites "server.Node.val").isEmpty = false := by decide +kernel

/-- uasc.SecureChannel.pendingReq: WaitGroup.Add in sendRequestWithTimeout and WaitGroup.Wait in renew share no mutex -/
theorem C36_finding_pendingReq : (candidatePairs sites "uasc.SecureChannel.pendingReq").isEmpty = false := by
  decide +kernel

/-- uasc.Config.SecurityMode: written by the server side of a renewal without a mutex, read by every sender -/
theorem C36_finding_config_mode : (candidatePairs sites "uasc.Config.SecurityMode").isEmpty = false := by decide +kernel

/-- uasc.channelInstance.maxBodySize: SetMaximumBodySize writes without the instance mutex the senders hold -/
theorem C36_finding_maxBodySize : (candidatePairs sites "uasc.channelInstance.maxBodySize").isEmpty = false := by
  decide +kernel

/-- opcua.Subscription.RevisedPublishingInterval (likewise RevisedLifetimeCount, RevisedMaxKeepAliveCount):
    ModifySubscription writes without a mutex, the publish loop reads under Client.subMux -/
theorem C36_finding_sub_revised :
    (candidatePairs sites "opcua.Subscription.RevisedPublishingInterval").isEmpty = false ∧
    (candidatePairs sites "opcua.Subscription.RevisedLifetimeCount").isEmpty = false ∧
    (candidatePairs sites "opcua.Subscription.RevisedMaxKeepAliveCount").isEmpty = false := by decide +kernel

end Opcua.Props.C36
