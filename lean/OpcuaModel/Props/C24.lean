import OpcuaModel.Model.Endpoint
/-
  C24 — endpoint selection returns a best matching endpoint.

  `selectSorted` / `selectWith` model `opcua.SelectEndpoint` after / including
  the sort; `formatPolicy` models `ua.FormatSecurityPolicyURI` over the table
  and prefix regenerated from package `ua` (`Gen/SecPolicy.lean`).  The
  theorems hold for EVERY list `l` (any length, duplicates, ties), EVERY
  arrangement `l'` the sort may leave (`SortedDescOf l' l`: a permutation of
  `l` with non-increasing levels — the only contract of `sort.Sort`), every
  policy text and every mode including the two "don't care" values.
  `Matches` is the specification: each criterion is "don't care" or met.
-/
namespace Opcua.Props.C24
open Opcua Opcua.EndpointSel

/-- the facts about the generated table the normalisation lemmas rest on,
    decided on the table of the current source -/
theorem C24_table_ok : TableOk Gen.secPolicyTable Gen.secPolicyPrefix := by
  refine ⟨by decide +kernel, by decide +kernel, by decide +kernel⟩

/-- soundness and optimality: a selected endpoint is one of the given ones,
    matches the request, and no matching endpoint has a higher level -/
theorem C24_select_best (l l' : List Endpoint) (hs : SortedDescOf l' l) (policy : Bytes) (mode : Nat)
    (e : Endpoint) (h : selectSorted l' policy mode = some e) :
    e ∈ l ∧ Matches (formatPolicy policy) mode e ∧
      ∀ e' ∈ l, Matches (formatPolicy policy) mode e' → e'.level ≤ e.level := by
  obtain ⟨hperm, hsorted⟩ := hs
  simp only [selectSorted] at h
  split at h
  · rename_i hdc
    refine ⟨hperm.mem_iff.mp (List.mem_of_mem_head? h), ⟨Or.inl hdc.1, Or.inl hdc.2⟩, ?_⟩
    intro e' he' _
    exact head_sorted_max hsorted h e' (hperm.mem_iff.mpr he')
  · rename_i hent
    refine ⟨hperm.mem_iff.mp (List.mem_of_find?_eq_some h), ?_, ?_⟩
    · exact (loopCond_iff _ _ _ hent).mp (List.find?_some h)
    · intro e' he' hm
      exact find_sorted_max hsorted h e' (hperm.mem_iff.mpr he') ((loopCond_iff _ _ _ hent).mpr hm)

/-- completeness: selection fails exactly when no endpoint matches (the empty
    list included) -/
theorem C24_select_none_iff (l l' : List Endpoint) (hs : SortedDescOf l' l) (policy : Bytes) (mode : Nat) :
    selectSorted l' policy mode = none ↔ ∀ e ∈ l, ¬ Matches (formatPolicy policy) mode e := by
  obtain ⟨hperm, _⟩ := hs
  simp only [selectSorted]
  split
  · rename_i hdc
    rw [List.head?_eq_none_iff]
    constructor
    · intro h e he
      have : e ∈ l' := hperm.mem_iff.mpr he
      rw [h] at this; cases this
    · intro h
      cases hl : l' with
      | nil => rfl
      | cons a r =>
        exfalso
        have : a ∈ l := hperm.mem_iff.mp (by rw [hl]; exact List.mem_cons_self)
        exact h a this ⟨Or.inl hdc.1, Or.inl hdc.2⟩
  · rename_i hent
    rw [List.find?_eq_none]
    constructor
    · intro h e he hm
      exact h e (hperm.mem_iff.mpr he) ((loopCond_iff _ _ _ hent).mpr hm)
    · intro h e he hc
      exact h e (hperm.mem_iff.mp he) ((loopCond_iff _ _ _ hent).mp hc)

/-- the whole function, for every sort that honours the contract: the result
    is a best match of the INPUT list, and the error return means "no match" -/
theorem C24_selectWith (sort : List Endpoint → List Endpoint) (hsort : ∀ l, SortedDescOf (sort l) l)
    (l : List Endpoint) (policy : Bytes) (mode : Nat) :
    (∀ e, selectWith sort l policy mode = some e →
        e ∈ l ∧ Matches (formatPolicy policy) mode e ∧
        ∀ e' ∈ l, Matches (formatPolicy policy) mode e' → e'.level ≤ e.level) ∧
    (selectWith sort l policy mode = none ↔ ∀ e ∈ l, ¬ Matches (formatPolicy policy) mode e) := by
  simp only [selectWith]
  split
  · rename_i h0
    have : l = [] := List.eq_nil_of_length_eq_zero h0
    subst this
    simp
  · exact ⟨fun e h => C24_select_best l (sort l) (hsort l) policy mode e h,
           C24_select_none_iff l (sort l) (hsort l) policy mode⟩

/-- two admissible sorts may return different endpoints, but always of the
    same level (what the correspondence run compares) -/
theorem C24_level_unique (l l₁ l₂ : List Endpoint) (h₁ : SortedDescOf l₁ l) (h₂ : SortedDescOf l₂ l)
    (policy : Bytes) (mode : Nat) (e₁ e₂ : Endpoint)
    (s₁ : selectSorted l₁ policy mode = some e₁) (s₂ : selectSorted l₂ policy mode = some e₂) :
    e₁.level = e₂.level := by
  obtain ⟨m₁, q₁, b₁⟩ := C24_select_best l l₁ h₁ policy mode e₁ s₁
  obtain ⟨m₂, q₂, b₂⟩ := C24_select_best l l₂ h₂ policy mode e₂ s₂
  exact Nat.le_antisymm (b₂ e₁ m₁ q₁) (b₁ e₂ m₂ q₂)

/-- order independence of the whole function: the order in which the server
    lists its endpoints (any permutation `m` of `l`) and the sort used (any two
    admissible ones) change neither whether an endpoint is found nor its level -/
theorem C24_input_order_irrelevant (sort₁ sort₂ : List Endpoint → List Endpoint)
    (h₁ : ∀ l, SortedDescOf (sort₁ l) l) (h₂ : ∀ l, SortedDescOf (sort₂ l) l)
    (l m : List Endpoint) (hp : l.Perm m) (policy : Bytes) (mode : Nat) :
    (selectWith sort₁ l policy mode).map (·.level) = (selectWith sort₂ m policy mode).map (·.level) := by
  obtain ⟨b₁, n₁⟩ := C24_selectWith sort₁ h₁ l policy mode
  obtain ⟨b₂, n₂⟩ := C24_selectWith sort₂ h₂ m policy mode
  cases r₁ : selectWith sort₁ l policy mode with
  | none =>
    have : selectWith sort₂ m policy mode = none :=
      n₂.mpr (fun e he => (n₁.mp r₁) e (hp.mem_iff.mpr he))
    rw [this]
  | some e₁ =>
    cases r₂ : selectWith sort₂ m policy mode with
    | none =>
      exfalso
      obtain ⟨m₁, q₁, _⟩ := b₁ e₁ r₁
      exact (n₂.mp r₂) e₁ (hp.mem_iff.mp m₁) q₁
    | some e₂ =>
      obtain ⟨m₁, q₁, x₁⟩ := b₁ e₁ r₁
      obtain ⟨m₂, q₂, x₂⟩ := b₂ e₂ r₂
      simp only [Option.map_some]
      congr 1
      exact Nat.le_antisymm (x₂ e₁ (hp.mem_iff.mp m₁) q₁) (x₁ e₂ (hp.mem_iff.mpr m₂) q₂)

/-- the sort the driver uses is an admissible one, so every theorem above
    applies to the model the correspondence run executes -/
theorem C24_driver_sort_admissible (l : List Endpoint) : SortedDescOf (sortDesc l) l :=
  sortDesc_contract l

/-! ### normalisation of the policy name (`ua.FormatSecurityPolicyURI`) -/

/-- "" stays "" (policy "don't care"), and nothing else becomes "" -/
theorem C24_format_empty_iff (p : Bytes) : formatPolicy p = [] ↔ p = [] :=
  formatWith_eq_nil_iff C24_table_ok p

/-- a short name of the table is mapped to its URI -/
theorem C24_format_short (k u : Bytes) (hk : k ≠ []) (h : Gen.secPolicyTable.lookup k = some u) :
    formatPolicy k = u :=
  formatWith_key hk h

/-- a URI under the OPC Foundation prefix is left alone -/
theorem C24_format_uri (p : Bytes) (h : Gen.secPolicyPrefix.isPrefixOf p = true) : formatPolicy p = p :=
  formatWith_uri C24_table_ok h

/-- any other non-empty name gets the prefix -/
theorem C24_format_unknown (p : Bytes) (hne : p ≠ []) (hl : Gen.secPolicyTable.lookup p = none)
    (hp : Gen.secPolicyPrefix.isPrefixOf p = false) : formatPolicy p = Gen.secPolicyPrefix ++ p :=
  formatWith_other hne hl hp

/-- every non-empty request becomes a URI under the prefix; normalising twice
    changes nothing -/
theorem C24_format_canonical (p : Bytes) :
    (p ≠ [] → Gen.secPolicyPrefix.isPrefixOf (formatPolicy p) = true) ∧
    formatPolicy (formatPolicy p) = formatPolicy p :=
  ⟨fun h => formatWith_prefixed C24_table_ok h, formatWith_idem C24_table_ok p⟩

/-- the six policies of OPC UA Part 7 under the names the library documents
    (Go-style and specification-style fragments) reach their standard URIs -/
theorem C24_format_standard :
    let pre := "http://opcfoundation.org/UA/SecurityPolicy#".toUTF8.toList
    pre = Gen.secPolicyPrefix ∧
    ∀ kf ∈ [("None", "None"), ("Basic128Rsa15", "Basic128Rsa15"), ("Basic256", "Basic256"),
            ("Basic256Sha256", "Basic256Sha256"),
            ("Aes128Sha256RsaOaep", "Aes128_Sha256_RsaOaep"), ("Aes128_Sha256_RsaOaep", "Aes128_Sha256_RsaOaep"),
            ("Aes256Sha256RsaPss", "Aes256_Sha256_RsaPss"), ("Aes256_Sha256_RsaPss", "Aes256_Sha256_RsaPss")],
      formatPolicy (kf.1 : String).toUTF8.toList = pre ++ (kf.2 : String).toUTF8.toList := by
  decide +kernel

/-! ### non-vacuity -/

def ep (u : String) (m lvl : Nat) : Endpoint := ⟨u.toUTF8.toList, m, lvl⟩

-- ties and duplicates: the result has the top level among the matches
example : (selectWith sortDesc [ep "x#A" 2 5, ep "x#B" 3 9, ep "x#A" 3 9, ep "x#A" 3 1] [] 3).map (·.level) = some 9 := by
  decide +kernel
-- both "don't care": the highest level of all
example : (selectWith sortDesc [ep "a" 1 0, ep "b" 7 200, ep "c" 0 3] [] 0).map (·.level) = some 200 := by
  decide +kernel
-- no match, empty list
example : selectWith sortDesc [ep "a" 1 0] [] 2 = none := by decide +kernel
example : selectWith sortDesc [] [] 0 = none := by decide +kernel

end Opcua.Props.C24
