import OpcuaModel.Model.ChunkMsg
import OpcuaModel.Model.ChunkLen
import OpcuaModel.Props.C38
import OpcuaModel.Model.ChunkRef
import OpcuaModel.Model.Stack
import OpcuaModel.Props.C01
/-
  C07 — secure-channel chunking round-trips every message under every policy
  and mode.

  Model: `Model/Chunk.lean` (byte level, statement-by-statement mirror of
  `EncodeChunks`, the send loops, `signAndEncrypt`, `readChunk`,
  `verifyAndDecrypt`, the chunk table of `Receive`, `mergeChunks`).
  The maximum body size is `Gen.setMaximumBodySize` (machine translation of
  `SetMaximumBodySize`), the policy parameters are the rows of
  `Gen.symmetricRows`, the sequence numbers come from `Gen.nextSequenceNumber`
  — all regenerated from the source on every run.

  Every theorem is for EVERY row of the policy table, EVERY mode, EVERY chunk
  size in [8192, 2^32), EVERY body (any length below 2^32, any content), every
  channel / token / request id, every reachable value of the sender's sequence
  counter, and ANY cryptographic primitives that satisfy `CryptoOK`
  (decrypt ∘ encrypt = id on whole blocks and keeps lengths, signatures have
  the policy's length and verify).  The correspondence run instantiates the
  primitives with reference AES-CBC / HMAC and compares bytes with gopcua.
-/
namespace Opcua.Props.C07
open Opcua Opcua.Chunk Opcua.Keys Opcua.CryptoRef Opcua.ChunkRef

/-- What is assumed about the primitives of one direction (`cS` on the sending
    side, `cR` on the receiving side) for the parameter row `a`. -/
structure CryptoOK (a : AlgoParams) (cS cR : Crypto) : Prop where
  sign_ok : ∀ m, ∃ sg, cS.sign m = some sg ∧ sg.length = a.signatureLength.toNat ∧ cR.verify m sg = true
  enc_ok : ∀ p : Bytes, 0 < p.length → p.length % a.plaintextBlockSize.toNat = 0 →
    ∃ q, cS.enc p = some q ∧ q.length = p.length / a.plaintextBlockSize.toNat * a.blockSize.toNat ∧
      cR.dec q = some p

/-- `instance.maxBodySize` after `SetMaximumBodySize(chunkSize)` -/
def maxBody (a : AlgoParams) (cs : Int) : Nat := (Gen.setMaximumBodySize a cs).toNat

/-- `instance.sequenceNumber` is a `uint32`: that is all the round trip needs
    since `mergeChunks` keeps the first chunk unconditionally -/
abbrev SeqInv := Chunk.SeqInv

theorem maxBody_pos (a : AlgoParams) (ha : a ∈ Gen.symmetricRows) (cs : Int) (h : 8192 ≤ cs)
    (hcs : cs < 4294967296) : 0 < maxBody a cs ∧ (maxBody a cs : Int) = C38.maxBody a cs := by
  have := C38.C38_maxBody_range a (C38.C38_rows_ok a ha) cs h hcs
  simp only [maxBody, C38.maxBody] at *
  omega

theorem paired_of_row (a : AlgoParams) (ha : a ∈ Gen.symmetricRows) (m : Mode) (pS pR : Bool)
    (cS cR : Crypto) (hc : CryptoOK a cS cR) : Paired ⟨m, pS, a, cS⟩ ⟨m, pR, a, cR⟩ := by
  refine { mode := rfl, pbs_pos := ?_, rsl := ?_, extra := ?_, pad_fits := ?_,
           sign_ok := hc.sign_ok, enc_ok := hc.enc_ok } <;>
  rcases rows_cases ha with rfl | rfl | rfl | rfl | rfl | rfl <;>
  simp [Gen.symAes128_Sha256_RsaOaep, Gen.symAes256_Sha256_RsaPss, Gen.symBasic128Rsa15, Gen.symBasic256,
    Gen.symBasic256Sha256, Gen.symNone]

/-- `nextSequenceNumber` returns a `uint32` and never the number it started
    from — for EVERY counter value, also across the wrap-around (…→ 1) and from
    2^32-1 (→ 0): consecutive chunks of one message never share a number, which
    is what `mergeChunks`' duplicate detection relies on -/
theorem C07_seq_distinct (seq : Int) (h : SeqInv seq) :
    SeqInv (Gen.nextSequenceNumber seq).1 ∧ (Gen.nextSequenceNumber seq).2 = (Gen.nextSequenceNumber seq).1 ∧
    (Gen.nextSequenceNumber seq).2 ≠ seq :=
  have := next_inv seq h
  ⟨this.1, this.2.1, this.2.1 ▸ this.2.2⟩

/-- ROUND TRIP.  The chunks the sender writes for a `MSG` message
    (`newMessage` + `EncodeChunks` + send loop with sequence-number fix-up +
    `signAndEncrypt`) are accepted by the receiver's `readChunk` /
    `verifyAndDecrypt`; its `Receive` loop continues on every chunk but the last
    and on the last returns exactly the original body (the bytes handed to
    `ua.DecodeService`), with the original request id and channel id; nothing is
    left in the chunk table.  Hypotheses: the receiver's newest instance for the
    channel id is the matching one; its table has no pending chunks for this
    request id; the message respects the receiver's `MaxChunkCount` (counted on
    the intermediate chunks, as `Receive` does) and `MaxMessageSize` where these
    are not 0 (= no limit).  The sender's counter may be ANY `uint32`
    (`C07_seq_distinct`; `C07_counter_zero_ok` shows the former problem case). -/
theorem C07_roundtrip (a : AlgoParams) (ha : a ∈ Gen.symmetricRows) (m : Mode) (pS pR : Bool)
    (cS cR : Crypto) (hc : CryptoOK a cS cR) (cs : Int) (h : 8192 ≤ cs) (hcs : cs < 4294967296)
    (insts : Nat → List Side) (lim : Limits) (chan tok req : Nat) (hchan : chan < 4294967296)
    (hreq : req < 4294967296) (hi : ∃ rest, (insts chan).reverse = ⟨m, pR, a, cR⟩ :: rest)
    (seq : Int) (hseq : SeqInv seq) (body : Bytes) (hb : body.length < 4294967296)
    (t : Table) (ht : t req = [])
    (hcount : lim.maxChunkCount = 0 ∨ body.length / maxBody a cs ≤ lim.maxChunkCount)
    (hsize : lim.maxMessageSize = 0 ∨ body.length ≤ lim.maxMessageSize) :
    ∃ ws seq', sendMessage ⟨m, pS, a, cS⟩ (maxBody a cs) seq typeMSG chan tok req body = (seq', .ok ws) ∧
      SeqInv seq' ∧
      receiveAll insts lim t ws = (t.set req [], some (.ok ⟨req, chan, body⟩), []) := by
  obtain ⟨ws, h1, -, h3, -⟩ := message_roundtrip (paired_of_row a ha m pS pR cS cR hc) insts lim
    (maxBody a cs) (maxBody_pos a ha cs h hcs).1 chan tok req hchan hreq hi seq hseq body hb t ht hcount hsize
  exact ⟨ws, _, h1, seqAfter_inv _ _ hseq, h3⟩

/-- SESSION ROUND TRIP.  Any number of messages sent one after the other over
    the same channel instance — the sequence counter threads through, including
    its wrap-around (… → 1) and the step 2^32-1 → 0 — are received, by calling
    `Receive` again and again on the stream of chunks, as the same sequence of
    (request id, channel id, body); the counter stays a `uint32`.  Request ids may
    repeat; every message individually respects the receiver's limits. -/
theorem C07_session_roundtrip (a : AlgoParams) (ha : a ∈ Gen.symmetricRows) (m : Mode) (pS pR : Bool)
    (cS cR : Crypto) (hc : CryptoOK a cS cR) (cs : Int) (h : 8192 ≤ cs) (hcs : cs < 4294967296)
    (insts : Nat → List Side) (lim : Limits) (chan tok : Nat) (hchan : chan < 4294967296)
    (hi : ∃ rest, (insts chan).reverse = ⟨m, pR, a, cR⟩ :: rest)
    (msgs : List (Nat × Bytes)) (t : Table)
    (hm : ∀ x ∈ msgs, x.1 < 4294967296 ∧ x.2.length < 4294967296 ∧ t x.1 = [] ∧
      (lim.maxChunkCount = 0 ∨ x.2.length / maxBody a cs ≤ lim.maxChunkCount) ∧
      (lim.maxMessageSize = 0 ∨ x.2.length ≤ lim.maxMessageSize))
    (seq : Int) (hseq : SeqInv seq) :
    ∃ wire seq', sendSession ⟨m, pS, a, cS⟩ (maxBody a cs) chan tok seq msgs = (seq', .ok wire) ∧ SeqInv seq' ∧
      receiveMany insts lim wire.length t wire = msgs.map (fun x => .ok ⟨x.1, chan, x.2⟩) := by
  obtain ⟨wire, sq, h1, h2, -, h4⟩ := session_roundtrip (paired_of_row a ha m pS pR cS cR hc) insts lim
    (maxBody a cs) (maxBody_pos a ha cs h hcs).1 chan tok hchan hi msgs t hm seq hseq
  exact ⟨wire, sq, h1, h2, h4 _ (Nat.le_refl _)⟩

/-- number of chunks: `|body| / maxBody + 1`; in particular a body that is an
    exact multiple `k · maxBody` is sent as `k + 1` chunks -/
theorem C07_chunk_count (a : AlgoParams) (ha : a ∈ Gen.symmetricRows) (m : Mode) (pS : Bool)
    (cS cR : Crypto) (hc : CryptoOK a cS cR) (cs : Int) (h : 8192 ≤ cs) (hcs : cs < 4294967296)
    (chan tok req : Nat) (hchan : chan < 4294967296) (hreq : req < 4294967296)
    (seq : Int) (body : Bytes) (hb : body.length < 4294967296) :
    ∃ ws seq', sendMessage ⟨m, pS, a, cS⟩ (maxBody a cs) seq typeMSG chan tok req body = (seq', .ok ws) ∧
      ws.length = body.length / maxBody a cs + 1 ∧
      (∀ k, body.length = k * maxBody a cs → ws.length = k + 1) := by
  obtain ⟨ws, h1, hW⟩ := sendMessage_ok (paired_of_row a ha m pS pS cS cR hc)
    (fun _ => [⟨m, pS, a, cR⟩]) (maxBody a cs) (maxBody_pos a ha cs h hcs).1 chan tok req hchan hreq
    ⟨[], rfl⟩ seq body hb
  have hlen : ws.length = body.length / maxBody a cs + 1 := by
    rw [hW.length_eq]
    have := congrArg List.length (stamped_data ⟨typeMSG, chan, tok, 0, req⟩ seq (items (maxBody a cs) body))
    simp only [List.length_map] at this
    rw [this, (items_sizes _ (maxBody_pos a ha cs h hcs).1 body).2]
  refine ⟨ws, _, h1, hlen, ?_⟩
  intro k hk
  rw [hlen, hk, Nat.mul_div_cancel _ (maxBody_pos a ha cs h hcs).1]

/-- per-chunk facts of everything the sender writes -/
theorem wire_facts (a : AlgoParams) (ha : a ∈ Gen.symmetricRows) (m : Mode) (pS : Bool)
    (cS cR : Crypto) (hc : CryptoOK a cS cR) (cs : Int) (h : 8192 ≤ cs) (hcs : cs < 4294967296)
    (chan tok req : Nat) (hchan : chan < 4294967296) (hreq : req < 4294967296)
    (seq : Int) (body : Bytes) (hb : body.length < 4294967296) :
    ∃ ws seq', sendMessage ⟨m, pS, a, cS⟩ (maxBody a cs) seq typeMSG chan tok req body = (seq', .ok ws) ∧
      Wires (fun _ => [⟨m, pS, a, cR⟩]) ⟨m, pS, a, cS⟩ ws
        (stamped ⟨typeMSG, chan, tok, 0, req⟩ seq (items (maxBody a cs) body)) := by
  obtain ⟨ws, h1, hW⟩ := sendMessage_ok (paired_of_row a ha m pS pS cS cR hc)
    (fun _ => [⟨m, pS, a, cR⟩]) (maxBody a cs) (maxBody_pos a ha cs h hcs).1 chan tok req hchan hreq
    ⟨[], rfl⟩ seq body hb
  exact ⟨ws, _, h1, hW⟩

/-- FITS and SIZE FIELD.  Every chunk the sender writes is at most the
    negotiated chunk size long and its `MessageSize` field (bytes 4..7, little
    endian) equals its length. -/
theorem C07_fits_and_size_field (a : AlgoParams) (ha : a ∈ Gen.symmetricRows) (m : Mode) (pS : Bool)
    (cS cR : Crypto) (hc : CryptoOK a cS cR) (cs : Int) (h : 8192 ≤ cs) (hcs : cs < 4294967296)
    (chan tok req : Nat) (hchan : chan < 4294967296) (hreq : req < 4294967296)
    (seq : Int) (body : Bytes) (hb : body.length < 4294967296) :
    ∃ ws seq', sendMessage ⟨m, pS, a, cS⟩ (maxBody a cs) seq typeMSG chan tok req body = (seq', .ok ws) ∧
      ∀ w ∈ ws, (w.length : Int) ≤ cs ∧ u32At w 4 = w.length := by
  obtain ⟨ws, sq, h1, hW⟩ := wire_facts a ha m pS cS cR hc cs h hcs chan tok req hchan hreq seq body hb
  refine ⟨ws, sq, h1, ?_⟩
  intro w hw
  obtain ⟨c, hcm, -, hlen, hsz, -⟩ := hW.mem w hw
  obtain ⟨-, -, i, hi, -, hdata⟩ := stamped_mem _ _ _ c hcm
  have hle := (items_sizes _ (maxBody_pos a ha cs h hcs).1 body).1 i hi
  have hfit : (w.length : Int) ≤ cs := by
    rw [hlen, chunkLen_eq_secureLen a ha m pS cS]
    refine C38.C38_fits a (C38.C38_rows_ok a ha) m cs h hcs _ (by omega) ?_
    rw [← (maxBody_pos a ha cs h hcs).2, hdata]
    exact Int.ofNat_le.mpr hle
  refine ⟨hfit, ?_⟩
  rw [hsz, Nat.mod_eq_of_lt (by omega)]

/-- FLAGS.  All chunks but the last carry chunk type 'C' (intermediate), the
    last carries 'F' (final). -/
theorem C07_flags (a : AlgoParams) (ha : a ∈ Gen.symmetricRows) (m : Mode) (pS : Bool)
    (cS cR : Crypto) (hc : CryptoOK a cS cR) (cs : Int) (h : 8192 ≤ cs) (hcs : cs < 4294967296)
    (chan tok req : Nat) (hchan : chan < 4294967296) (hreq : req < 4294967296)
    (seq : Int) (body : Bytes) (hb : body.length < 4294967296) :
    ∃ wa wx seq', sendMessage ⟨m, pS, a, cS⟩ (maxBody a cs) seq typeMSG chan tok req body =
        (seq', .ok (wa ++ [wx])) ∧
      (∀ w ∈ wa, (w.drop 3).head? = some chunkC) ∧ (wx.drop 3).head? = some chunkF := by
  obtain ⟨ws, sq, h1, hW⟩ := wire_facts a ha m pS cS cR hc cs h hcs chan tok req hchan hreq seq body hb
  simp only [items, stamped_append, stamped] at hW
  obtain ⟨wa, wx, rfl, hWa, hx⟩ := hW.snoc_inv
  refine ⟨wa, wx, sq, h1, ?_, hx.2.2.2⟩
  intro w hw
  obtain ⟨c, hcm, -, -, -, hfl⟩ := hWa.mem w hw
  obtain ⟨-, -, i, hi, hty, -⟩ := stamped_mem _ _ _ c hcm
  simp only [List.mem_map] at hi
  obtain ⟨p, -, rfl⟩ := hi
  rw [hfl, hty]

/-! ### OpenSecureChannel chunks (asymmetric algorithms, never split) -/

/-- what is assumed about the RSA primitives: block-wise encryption maps whole
    plaintext blocks to whole cipher blocks and is undone by the receiver's
    private key; signatures have the length of the signer's key and verify -/
structure AsymOK (ls rs pad : Nat) (cS cR : Crypto) : Prop where
  sign_ok : ∀ m, ∃ sg, cS.sign m = some sg ∧ sg.length = ls ∧ cR.verify m sg = true
  enc_ok : ∀ p : Bytes, 0 < p.length → p.length % (rs - pad) = 0 →
    ∃ q, cS.enc p = some q ∧ q.length = p.length / (rs - pad) * rs ∧ cR.dec q = some p

theorem paired_asym (ls rs pad : Nat) (hpad : pad < rs) (hrs : rs ≤ 65536) (m : Mode) (pS pR : Bool)
    (cS cR : Crypto) (hc : AsymOK ls rs pad cS cR) :
    Paired ⟨m, pS, asymParams ls rs pad, cS⟩ ⟨m, pR, asymParams rs ls pad, cR⟩ := by
  have e1 : ((rs : Int) - (pad : Int)).toNat = rs - pad := by omega
  refine { mode := rfl, pbs_pos := ?_, rsl := ?_, extra := ?_, pad_fits := ?_, sign_ok := ?_, enc_ok := ?_ }
  · simp only [asymParams, e1]; omega
  · simp [asymParams]
  · simp [asymParams]
  · simp only [asymParams, e1]
    by_cases h256 : (rs : Int) > 256 <;> simp [h256] <;> omega
  · simpa [asymParams] using hc.sign_ok
  · simpa only [asymParams, e1, Int.toNat_natCast] using hc.enc_ok

/-- OPN ROUND TRIP, for ALL pairs of key sizes (sender `ls`, receiver `rs`,
    bytes, up to 65536), any per-block overhead `pad < rs`, any header length
    ≥ 8 and any raw chunk: the receiver (whose local key is the sender's remote
    key and vice versa) gets back exactly what followed the security header; the
    MessageSize field of the secured chunk is its length (as uint32).  This covers the
    ExtraPaddingSize byte, which the sender decides from the RECEIVER's key
    (`RemoteSignatureLength() > 256`) and the receiver from its OWN key
    (`SignatureLength() > 256`): the two tests agree for every size pair. -/
theorem C07_opn_roundtrip (ls rs pad : Nat) (hpad : pad < rs) (hrs : rs ≤ 65536)
    (m : Mode) (hm : m ≠ .none) (pS pR : Bool) (cS cR : Crypto) (hc : AsymOK ls rs pad cS cR)
    (hl : Nat) (hl8 : 8 ≤ hl) (b : Bytes) (hb : hl ≤ b.length) :
    ∃ w, signAndEncrypt ⟨m, pS, asymParams ls rs pad, cS⟩ true hl b = .ok w ∧
      verifyAndDecrypt ⟨m, pR, asymParams rs ls pad, cR⟩ true hl w = .ok (b.drop hl) ∧
      u32At w 4 = w.length % 4294967296 := by
  have hp := paired_asym ls rs pad hpad hrs m pS pR cS cR hc
  obtain ⟨q, hq, h1, h2⟩ := secure_roundtrip hp true hl hl8 b hb hm
  refine ⟨_, h1, h2, ?_⟩
  have hH : (putU32 (b.take hl) 4 (hl + q.length)).length = hl := by
    rw [putU32_length _ _ _ (by simp [List.length_take]; omega)]; simp [List.length_take]; omega
  rw [u32At_append_left _ _ _ (by omega), u32At_putU32 _ _ _ (by simp [List.length_take]; omega)]
  simp only [List.length_append, hH]

/-! ### the sequence counter: no hypothesis beyond `uint32` -/

/-- a null cipher: mode None needs none of the primitives -/
def nullCrypto : Crypto := { enc := some, dec := some, sign := fun _ => some [], verify := fun _ _ => true }

def nullSide : Side := ⟨.none, true, Gen.symNone, nullCrypto⟩

/-- The former problem case, by evaluation: with the counter at 2^32-1 the first
    chunk gets sequence number 0.  Before the fix dea8d35 `mergeChunks` took it for
    a duplicate of its initial `seqnr = 0` and dropped it; now the first chunk is
    kept unconditionally and the two-chunk message comes back complete (also
    with no limits configured: `MaxChunkCount = MaxMessageSize = 0`). -/
theorem C07_counter_zero_ok :
    ∃ ws, sendMessage nullSide 4 4294967295 typeMSG 1 1 1 [1, 2, 3, 4, 5] = (1, .ok ws) ∧
      (receiveAll (fun _ => [nullSide]) ⟨0, 0⟩ (fun _ => []) ws).2 =
        (some (.ok ⟨1, 1, [1, 2, 3, 4, 5]⟩), []) := by
  refine ⟨_, rfl, ?_⟩
  decide

/-- a session by evaluation: three messages over one instance whose counter
    wraps inside the second one (… 4294966271, 4294966272 | 1, 2, 3 | 4) -/
example : ∃ wire, sendSession nullSide 4 1 1 4294966270 [(5, [1, 2, 3, 4, 5]), (6, [9, 8, 7, 6, 5, 4, 3, 2, 1]), (5, [])] =
      (4, .ok wire) ∧ wire.length = 6 ∧
    receiveMany (fun _ => [nullSide]) ⟨0, 0⟩ wire.length (fun _ => []) wire =
      [.ok ⟨5, 1, [1, 2, 3, 4, 5]⟩, .ok ⟨6, 1, [9, 8, 7, 6, 5, 4, 3, 2, 1]⟩, .ok ⟨5, 1, []⟩] := by
  refine ⟨_, rfl, ?_, ?_⟩ <;> decide

/-- what the duplicate detection still does: a chunk that repeats the number of
    its predecessor is skipped (only the sender's distinct numbers make this
    harmless, `C07_seq_distinct`) -/
theorem C07_duplicate_number_skipped :
    mergeChunks [⟨chunkC, 1, 7, 1, [1]⟩, ⟨chunkC, 1, 7, 1, [2]⟩, ⟨chunkF, 1, 8, 1, [3]⟩] = [1, 3] := by decide

/-- non-vacuity: a `CryptoOK` instance exists for the null row, and the
    theorem's conclusion is an actual computation there: 9 bytes with
    `maxBody = 4` travel as 3 chunks C, C, F and come back. -/
example : CryptoOK Gen.symNone nullCrypto nullCrypto :=
  { sign_ok := fun _ => ⟨[], rfl, rfl, rfl⟩,
    enc_ok := fun p _ _ => ⟨p, rfl, by simp [Gen.symNone], rfl⟩ }

example : ∃ ws, sendMessage nullSide 4 0 typeMSG 7 8 9 [1, 2, 3, 4, 5, 6, 7, 8, 9] = (3, .ok ws) ∧
    ws.map (fun w => (w.drop 3).head?) = [some chunkC, some chunkC, some chunkF] ∧
    (receiveAll (fun _ => [nullSide]) ⟨10, 1000⟩ (fun _ => []) ws).2 =
      (some (.ok ⟨9, 7, [1, 2, 3, 4, 5, 6, 7, 8, 9]⟩), []) := by
  refine ⟨_, rfl, by decide, by decide⟩

/-! ### the executed reference instance: what remains assumed about the crypto -/

/-- what is still assumed about the reference AES (FIPS 197 cipher / inverse
    cipher of `Model/CryptoRef.lean`): on 16-byte blocks, for 16- and 32-byte
    keys, the inverse cipher undoes the cipher and the cipher keeps the length -/
def AesBlockOK : Prop :=
  ∀ key : Bytes, (key.length = 16 ∨ key.length = 32) → Cbc.BlockInv (aesE key) (aesD key)

/-- what is still assumed about the reference HMAC: its output has the hash length -/
def HmacLenOK : Prop := ∀ alg key m, (hmac alg key m).length = alg.outLen

theorem refCrypto_ok_of (a : AlgoParams) (ka : KeyAssign) (S R : SymKeys)
    (h1 : a.signatureLength.toNat = ka.signatureHash.outLen) (h2 : ka.verifyHash = ka.signatureHash)
    (h3 : R.verifyKey = S.signKey) (h4 : a.plaintextBlockSize.toNat = 16) (h5 : a.blockSize.toNat = 16)
    (h6 : S.encryptKey.length = ka.encryptKeyBits / 8)
    (h7 : ka.encryptKeyBits / 8 = 16 ∨ ka.encryptKeyBits / 8 = 32) (h8 : S.encryptIV.length = 16)
    (h9 : R.decryptKey = S.encryptKey) (h10 : R.decryptIV = S.encryptIV)
    (hlen : HmacLenOK) (haes : AesBlockOK) : CryptoOK a (refCrypto ka S) (refCrypto ka R) := by
  constructor
  · intro m
    refine ⟨hmac ka.signatureHash S.signKey m, rfl, ?_, ?_⟩
    · rw [hlen, h1]
    · simp [refCrypto, h2, h3]
  · intro p hp0 hpm
    rw [h4] at hpm
    have hk : (S.encryptKey ++ List.replicate (ka.encryptKeyBits / 8) 0).take (ka.encryptKeyBits / 8) = S.encryptKey := by
      rw [List.take_append_of_le_length (by omega), List.take_of_length_le (by omega)]
    have hkl : S.encryptKey.length = 16 ∨ S.encryptKey.length = 32 := by omega
    have hinv := haes S.encryptKey hkl
    have hcl := Cbc.enc_length _ _ hinv S.encryptIV p h8 hpm
    refine ⟨Cbc.cbcEnc (aesE S.encryptKey) S.encryptIV p, ?_, ?_, ?_⟩
    · simp only [refCrypto, aesEncrypt, hk]
      rw [if_neg (by omega), if_neg (by omega)]
    · rw [hcl, h4, h5]; omega
    · simp only [refCrypto, aesDecrypt, h9, h10]
      rw [if_neg (by omega), if_neg (by omega), if_neg (by omega)]
      rw [Cbc.dec_enc _ _ hinv S.encryptIV p h8 hpm]

/-- THE EXECUTED INSTANCE SATISFIES THE CONTRACT.  For every policy row with
    keys, all nonces: the primitives the drivers run (`refCrypto`: the proved CBC
    mode over the reference AES block functions, reference HMAC, keys by the
    model of `uapolicy.Symmetric`) satisfy `CryptoOK` between a side and its peer
    — given only the AES block inverse and the HMAC output length.  CBC
    (`Cbc.dec_enc`, `Cbc.enc_length`), the key lengths (`generateKeys_lengths`)
    and the send/receive key pairing are proved. -/
theorem C07_reference_crypto_ok (a : AlgoParams) (ka : KeyAssign)
    (hk : (a, ka) ∈ Gen.symmetricRows.zip Gen.keyAssignRows) (hlen : HmacLenOK) (haes : AesBlockOK) (x y : Bytes) :
    CryptoOK a (refCrypto ka (symmetric ka hmac x y)) (refCrypto ka (symmetric ka hmac y x)) := by
  have gl : ∀ (alg : HashAlg) (key seed : Bytes) (p q r : Nat),
      (generateKeys (hmac alg key) seed p q r).encryption.length = q ∧
      (generateKeys (hmac alg key) seed p q r).iv.length = r := by
    intro alg key seed p q r
    have := generateKeys_lengths (hmac alg key) seed alg.outLen (by cases alg <;> decide) (hlen alg key) p q r
    exact ⟨this.2.1, this.2.2⟩
  simp only [Gen.symmetricRows, Gen.keyAssignRows, List.zip_cons_cons, List.zip_nil_right, List.mem_cons,
    List.not_mem_nil, or_false, Prod.mk.injEq] at hk
  rcases hk with ⟨rfl, rfl⟩ | ⟨rfl, rfl⟩ | ⟨rfl, rfl⟩ | ⟨rfl, rfl⟩ | ⟨rfl, rfl⟩ <;>
    refine refCrypto_ok_of _ _ _ _ (by decide) rfl rfl (by decide) (by decide) ?_ (by decide) ?_ rfl rfl hlen haes <;>
    first
      | exact (gl _ _ _ _ _ _).1
      | exact (gl _ _ _ _ _ _).2

/-- ROUND TRIP FOR THE EXECUTED INSTANCE: `C07_roundtrip` with the reference
    primitives plugged in; the remaining cryptographic assumptions are exactly
    `AesBlockOK` and `HmacLenOK`. -/
theorem C07_roundtrip_reference (a : AlgoParams) (ka : KeyAssign)
    (hk : (a, ka) ∈ Gen.symmetricRows.zip Gen.keyAssignRows) (hlen : HmacLenOK) (haes : AesBlockOK)
    (x y : Bytes) (m : Mode) (cs : Int) (h : 8192 ≤ cs) (hcs : cs < 4294967296)
    (lim : Limits) (chan tok req : Nat) (hchan : chan < 4294967296) (hreq : req < 4294967296)
    (seq : Int) (hseq : SeqInv seq) (body : Bytes) (hb : body.length < 4294967296)
    (hcount : lim.maxChunkCount = 0 ∨ body.length / maxBody a cs ≤ lim.maxChunkCount)
    (hsize : lim.maxMessageSize = 0 ∨ body.length ≤ lim.maxMessageSize) :
    ∃ ws seq', sendMessage ⟨m, false, a, refCrypto ka (symmetric ka hmac x y)⟩ (maxBody a cs) seq typeMSG chan tok req body =
        (seq', .ok ws) ∧
      (receiveAll (fun _ => [⟨m, false, a, refCrypto ka (symmetric ka hmac y x)⟩]) lim (fun _ => []) ws).2 =
        (some (.ok ⟨req, chan, body⟩), []) := by
  have ha : a ∈ Gen.symmetricRows := (List.of_mem_zip hk).1
  obtain ⟨ws, sq, h1, -, h3⟩ := C07_roundtrip a ha m false false _ _ (C07_reference_crypto_ok a ka hk hlen haes x y)
    cs h hcs (fun _ => [⟨m, false, a, refCrypto ka (symmetric ka hmac y x)⟩]) lim chan tok req hchan hreq ⟨[], rfl⟩
    seq hseq body hb (fun _ => []) rfl hcount hsize
  exact ⟨ws, sq, h1, by rw [h3]⟩
/-! ### composition with the framing layer (C05) and the codec (C01) -/

/-- STACK ROUND TRIP (framing + chunking/security).  For every policy row, mode,
    chunk size ≥ 8192 and receive buffer ≥ chunk size: the byte stream the sender
    writes for a session of messages, cut into ANY TCP segmentation, is delivered
    by `uacp.Conn.Receive` (model `Uacp.receiveAll`, C05) as exactly the chunks
    followed by a clean EOF, and `SecureChannel.Receive` (model `receiveMany`)
    turns these chunks back into exactly the session. -/
theorem C07_stack_roundtrip (a : AlgoParams) (ha : a ∈ Gen.symmetricRows) (m : Mode) (pS pR : Bool)
    (cS cR : Crypto) (hc : CryptoOK a cS cR) (cs : Int) (h : 8192 ≤ cs) (hcs : cs < 4294967296)
    (rcvBuf : Nat) (hrb : cs ≤ rcvBuf) (hrb2 : rcvBuf < 4294967296)
    (insts : Nat → List Side) (lim : Limits) (chan tok : Nat) (hchan : chan < 4294967296)
    (hi : ∃ rest, (insts chan).reverse = ⟨m, pR, a, cR⟩ :: rest)
    (msgs : List (Nat × Bytes)) (t : Table)
    (hm : ∀ x ∈ msgs, x.1 < 4294967296 ∧ x.2.length < 4294967296 ∧ t x.1 = [] ∧
      (lim.maxChunkCount = 0 ∨ x.2.length / maxBody a cs ≤ lim.maxChunkCount) ∧
      (lim.maxMessageSize = 0 ∨ x.2.length ≤ lim.maxMessageSize))
    (seq : Int) (hseq : SeqInv seq) :
    ∃ wire seq', sendSession ⟨m, pS, a, cS⟩ (maxBody a cs) chan tok seq msgs = (seq', .ok wire) ∧ SeqInv seq' ∧
      (∀ segs : Uacp.Stream, segs.flatten = wire.flatten → Uacp.receiveAll rcvBuf segs = (wire, .eof)) ∧
      receiveMany insts lim wire.length t wire = msgs.map (fun x => .ok ⟨x.1, chan, x.2⟩) := by
  refine Stack.stack_session (paired_of_row a ha m pS pR cS cR hc) insts lim (maxBody a cs)
    (maxBody_pos a ha cs h hcs).1 chan tok hchan hi msgs t hm seq hseq rcvBuf (by omega) hrb2 ?_
  intro n hn
  have hfit : ((chunkLen ⟨m, pS, a, cS⟩ (8 + n) : Nat) : Int) ≤ cs := by
    rw [chunkLen_eq_secureLen a ha m pS cS]
    refine C38.C38_fits a (C38.C38_rows_ok a ha) m cs h hcs _ (by omega) ?_
    rw [← (maxBody_pos a ha cs h hcs).2]
    exact Int.ofNat_le.mpr hn
  omega

/-- the body of a service message as `EncodeChunks` computes it: type id ‖ encoded service -/
def svcBody (fuel : Nat) (tid : Codec.ExpNodeId) (i : Nat) (v : Codec.Val) : Bytes :=
  match Codec.encExpNodeId tid, Codec.encode C01.env fuel (.ptr (Gen.serviceTypes.getD i default).ty) v with
  | .ok tb, .ok bs => tb ++ bs
  | _, _ => []

/-- STACK ROUND TRIP UP TO THE SERVICE VALUE (framing + chunking/security +
    codec, composing C05, C07 and C01).  A session of registered service values
    (each: type id `tid` registered at index `i`, well-typed value `v`): the
    bodies are their encodings, the byte stream under any segmentation comes back
    as the same bodies, and `ua.DecodeService` (model `decService`, C01) applied
    to each received body returns the type id, the registered name and the
    (normalised) value, consuming the whole body. -/
theorem C07_stack_service_roundtrip (a : AlgoParams) (ha : a ∈ Gen.symmetricRows) (m : Mode) (pS pR : Bool)
    (cS cR : Crypto) (hc : CryptoOK a cS cR) (cs : Int) (h : 8192 ≤ cs) (hcs : cs < 4294967296)
    (rcvBuf : Nat) (hrb : cs ≤ rcvBuf) (hrb2 : rcvBuf < 4294967296)
    (insts : Nat → List Side) (lim : Limits) (chan tok : Nat) (hchan : chan < 4294967296)
    (hi : ∃ rest, (insts chan).reverse = ⟨m, pR, a, cR⟩ :: rest)
    (fuel : Nat) (svcs : List (Nat × Codec.ExpNodeId × Nat × Codec.Val)) (t : Table)
    (hsv : ∀ s ∈ svcs, Codec.wtExp s.2.1 = true ∧
      (((Codec.normExp s.2.1).nodeId.bind Codec.regKey).bind fun k =>
        Codec.findIdx (·.id == k) Gen.serviceTypes 0) = some s.2.2.1 ∧
      Codec.wt C01.env fuel (.ptr (Gen.serviceTypes.getD s.2.2.1 default).ty) s.2.2.2 = true)
    (hm : ∀ s ∈ svcs, s.1 < 4294967296 ∧ (svcBody fuel s.2.1 s.2.2.1 s.2.2.2).length < 4294967296 ∧ t s.1 = [] ∧
      (lim.maxChunkCount = 0 ∨ (svcBody fuel s.2.1 s.2.2.1 s.2.2.2).length / maxBody a cs ≤ lim.maxChunkCount) ∧
      (lim.maxMessageSize = 0 ∨ (svcBody fuel s.2.1 s.2.2.1 s.2.2.2).length ≤ lim.maxMessageSize))
    (seq : Int) (hseq : SeqInv seq) :
    ∃ wire seq',
      sendSession ⟨m, pS, a, cS⟩ (maxBody a cs) chan tok seq
        (svcs.map fun s => (s.1, svcBody fuel s.2.1 s.2.2.1 s.2.2.2)) = (seq', .ok wire) ∧
      (∀ segs : Uacp.Stream, segs.flatten = wire.flatten → Uacp.receiveAll rcvBuf segs = (wire, .eof)) ∧
      receiveMany insts lim wire.length t wire =
        svcs.map (fun s => .ok ⟨s.1, chan, svcBody fuel s.2.1 s.2.2.1 s.2.2.2⟩) ∧
      ∀ s ∈ svcs, ∀ al : Nat,
        Codec.decService Gen.serviceTypes (Codec.decode C01.env fuel) ⟨svcBody fuel s.2.1 s.2.2.1 s.2.2.2, al⟩ =
          .ok (Codec.normExp s.2.1, (Gen.serviceTypes.getD s.2.2.1 default).name,
               Codec.norm C01.env fuel (.ptr (Gen.serviceTypes.getD s.2.2.1 default).ty) s.2.2.2) ⟨[], al⟩ := by
  obtain ⟨wire, sq, h1, -, h3, h4⟩ := C07_stack_roundtrip a ha m pS pR cS cR hc cs h hcs rcvBuf hrb hrb2 insts lim chan tok
    hchan hi (svcs.map fun s => (s.1, svcBody fuel s.2.1 s.2.2.1 s.2.2.2)) t
    (by
      intro x hx
      obtain ⟨s, hs, rfl⟩ := List.mem_map.mp hx
      exact hm s hs) seq hseq
  refine ⟨wire, sq, h1, h3, ?_, ?_⟩
  · rw [h4, List.map_map]; rfl
  · intro s hs al
    obtain ⟨w1, w2, w3⟩ := hsv s hs
    obtain ⟨tb, bs, e1, e2, e3⟩ := C01.C01_service fuel s.2.1 s.2.2.1 s.2.2.2 [] al w1 w2 w3
    simp only [svcBody, e1, e2]
    simpa using e3
end Opcua.Props.C07
