import OpcuaModel.Model.CodecMain
import OpcuaModel.Model.CodecExtra
import OpcuaModel.Gen.Types
/-
  C01 — the binary codec round-trips every value of every protocol type.

  `encode` / `decode` (Model/Codec.lean) mirror `ua/encode.go`, `ua/decode.go`,
  `ua/buffer.go` and the hand-written codecs; `Gen.extObjTypes`,
  `Gen.serviceTypes`, `Gen.namedTypes` are regenerated from the `ua` type
  registries on every run.  `wt` (Model/CodecWt.lean) is the domain: well-formed
  values, DateTime inside the int64-nanosecond range, minus the finding
  signatures below.  `norm` is the documented normalisation.  `fuel` bounds the
  nesting depth of coder calls; `wt env fuel t v` implies that `fuel` suffices.
-/
namespace Opcua.Props.C01
open Opcua Opcua.Codec

/-- the codec as the real code runs it: no allocation budget, the generated extension object registry -/
def env : Env := { limit := none, exts := Gen.extObjTypes }

/-- **Round trip.**  Every well-typed value of every type encodes, and decoding the
    bytes (followed by anything) yields the normalised value and consumes exactly
    the encoded bytes. -/
theorem C01_roundtrip (fuel : Nat) (t : Ty) (v : Val) (rest : Bytes) (a : Nat) (h : wt env fuel t v = true) :
    ∃ bs, encode env fuel t v = .ok bs ∧
      decode env fuel t ⟨bs ++ rest, a⟩ = .ok (norm env fuel t v) ⟨rest, a⟩ := by
  obtain ⟨bs, hb, r⟩ := rt_all env rfl fuel t v h
  exact ⟨bs, hb, r rest a⟩

/-- the descriptors generated from the registries are descriptors the reflective walk
    treats the way the model does (no pointer to pointer, no pointer to a type with a
    hand-written codec, `[]byte` only as the fast path, integer widths 1/2/4/8) -/
theorem C01_registered_wf : (Gen.namedTypes.all fun p => wfTy p.2) = true := by decide +kernel

/-- every registered extension object and service type has a value in the domain of
    `C01_roundtrip` (so the theorem is not vacuous for any registered type) -/
theorem C01_registered_inhabited :
    ((Gen.extObjTypes ++ Gen.serviceTypes).all fun e => wt env 40 (.ptr e.ty) (zeroVal 40 (.ptr e.ty))) = true := by
  decide +kernel

/-- `C01_roundtrip` instantiated at the registered types, as `ua.Encode(&T{…})` / `ua.Decode(b, &T{})` see them -/
theorem C01_registered_roundtrip (e : RegEntry) (_ : e ∈ Gen.extObjTypes ++ Gen.serviceTypes)
    (fuel : Nat) (v : Val) (rest : Bytes) (h : wt env fuel (.ptr e.ty) v = true) :
    ∃ bs, encode env fuel (.ptr e.ty) v = .ok bs ∧
      decode env fuel (.ptr e.ty) ⟨bs ++ rest, 0⟩ = .ok (norm env fuel (.ptr e.ty) v) ⟨rest, 0⟩ :=
  C01_roundtrip fuel _ v rest 0 h

/-- every service entry is found under its own id, and a four-byte node id in namespace 0 is that key -/
theorem C01_service_ids :
    (Gen.serviceTypes.all fun e =>
      decide (e.id < 65536) &&
      ((regKey ⟨1, 0, e.id, none, none⟩).bind (fun k => findIdx (·.id == k) Gen.serviceTypes 0)
        |>.map (fun i => (Gen.serviceTypes.getD i default).name)) == some e.name) = true := by
  decide +kernel

/-- **DecodeService.**  The type id followed by the encoded service struct decodes to that struct. -/
theorem C01_service (fuel : Nat) (tid : ExpNodeId) (i : Nat) (v : Val) (rest : Bytes) (a : Nat)
    (htid : wtExp tid = true)
    (hk : ((normExp tid).nodeId.bind regKey |>.bind fun k => findIdx (·.id == k) Gen.serviceTypes 0) = some i)
    (h : wt env fuel (.ptr (Gen.serviceTypes.getD i default).ty) v = true) :
    ∃ tb bs, encExpNodeId tid = .ok tb ∧ encode env fuel (.ptr (Gen.serviceTypes.getD i default).ty) v = .ok bs ∧
      decService Gen.serviceTypes (decode env fuel) ⟨tb ++ bs ++ rest, a⟩
        = .ok (normExp tid, (Gen.serviceTypes.getD i default).name,
            norm env fuel (.ptr (Gen.serviceTypes.getD i default).ty) v) ⟨rest, a⟩ := by
  obtain ⟨tb, htb, rt⟩ := reads_decExpNodeId tid htid
  obtain ⟨bs, hbs, rb⟩ := rt_all env rfl fuel _ v h
  refine ⟨tb, bs, htb, hbs, ?_⟩
  unfold decService
  have := Reads.bind rt (f := fun tid => match (tid.nodeId.bind regKey |>.bind fun k => findIdx (·.id == k) Gen.serviceTypes 0) with
      | none => Dec.fail .err
      | some i => (decode env fuel (.ptr (Gen.serviceTypes.getD i default).ty)) >>= fun v =>
          pure (tid, (Gen.serviceTypes.getD i default).name, v))
    (cs := bs) (y := (normExp tid, (Gen.serviceTypes.getD i default).name,
            norm env fuel (.ptr (Gen.serviceTypes.getD i default).ty) v)) (by
      simp only [hk]
      exact Reads.map (g := fun v => (normExp tid, (Gen.serviceTypes.getD i default).name, v)) rb)
  exact this rest a

/-! ### findings: values `ua.NewVariant` / `ua.NewExtensionObject` accept that do not round-trip -/

/-- `[][]int32{{},{}}`: a multi-dimensional array with a zero-length dimension encodes, but `Variant.Decode`
    rejects a dimension below 1 -/
theorem C01_finding_variant_zero_dim :
    ∃ m bs, newVariant ⟨6, 2⟩ (.slice false [.slice false [], .slice false []]) = .ok m ∧
      encode env 3 .variant m = .ok bs ∧ decode env 3 .variant ⟨bs, 0⟩ = .fail .err ∧
      wt env 3 .variant m = false :=
  ⟨_, _, rfl, rfl, rfl, rfl⟩

/-- `[][]int32{}`: an empty multi-dimensional array is encoded as an empty array of Variant and comes back as `[]*Variant{}` -/
theorem C01_finding_variant_empty_multidim :
    ∃ m bs, newVariant ⟨6, 2⟩ (.slice false []) = .ok m ∧ encode env 3 .variant m = .ok bs ∧
      decode env 3 .variant ⟨bs, 0⟩ = .ok (.variant 0x98 0 0 none ⟨24, 1⟩ (.slice false [])) ⟨[], 0⟩ ∧
      m = .variant 0x98 0 0 none ⟨6, 2⟩ (.slice false []) ∧ wt env 3 .variant m = false :=
  ⟨_, _, rfl, rfl, rfl, rfl, rfl⟩

/-- repaired (was finding C01.variant-bytestring-array): `[][]byte{{1},{2,3}}`, an array of ByteStrings of different
    lengths, is accepted by `NewVariant`, lies in the domain, and round-trips.  `Variant.encode` used to hand the whole
    `[][]byte` to `encodeValue`, which wrote no element (`8f02000000`), and `sliceDim` refused ByteStrings of
    different lengths as an unbalanced matrix. -/
theorem C01_fixed_variant_bytestring_array :
    ∃ m, newVariant ⟨15, 1⟩ (.slice false [.bytes (some [1]), .bytes (some [2, 3])]) = .ok m ∧
      wt env 3 .variant m = true ∧
      encode env 3 .variant m = .ok [0x8f, 2, 0, 0, 0, 1, 0, 0, 0, 1, 2, 0, 0, 0, 2, 3] ∧
      decode env 3 .variant ⟨[0x8f, 2, 0, 0, 0, 1, 0, 0, 0, 1, 2, 0, 0, 0, 2, 3], 0⟩ = .ok m ⟨[], 0⟩ :=
  ⟨_, rfl, rfl, rfl, rfl⟩

/-- `[][][]int32{{{1},{2}},{{3,4},{5,6}}}`: `sliceDim` only follows the first element of every level, so a ragged
    array is accepted with dimensions [2 2 1] and length 4, six elements are written, and decoding fails -/
theorem C01_finding_variant_ragged :
    ∃ m bs, newVariant ⟨6, 3⟩ (.slice false [
        .slice false [.slice false [.int 1], .slice false [.int 2]],
        .slice false [.slice false [.int 3, .int 4], .slice false [.int 5, .int 6]]]) = .ok m ∧
      encode env 4 .variant m = .ok bs ∧ decode env 4 .variant ⟨bs, 0⟩ = .fail .err ∧
      wt env 4 .variant m = false :=
  ⟨_, _, rfl, rfl, rfl, rfl⟩

/-- repaired (was finding C01.variant-nil-inner-slice): `NewVariant([][]int32{nil, nil})` is refused.  `sliceDim` used
    to multiply the "nil" count −1 of the inner slice by the outer length (array length −2), and `Encode` wrote
    `86 fe ff ff ff`, bytes no decoder accepts (ours panicked on them until C02.variant-neg-len was repaired). -/
theorem C01_fixed_variant_nil_inner_slice :
    newVariant ⟨6, 2⟩ (.slice false [.slice true [], .slice true []]) = .error .err ∧
    newVariant ⟨12, 3⟩ (.slice false [.slice false [.slice true []], .slice false [.slice true []]]) = .error .err :=
  ⟨rfl, rfl⟩

/-- an extension object whose value encodes to zero bytes (`&ua.DataTypeDefinition{}`, registered under i=121, has
    no fields): `ExtensionObject.Decode` treats body length 0 as "no value" and returns `Value == nil` -/
theorem C01_finding_extobj_empty_body :
    encode env 5 .extObj (.extObj 1 (some ⟨some ⟨1, 0, 121, none, none⟩, [], 0⟩) "DataTypeDefinition" (.ptr (.struct [])))
        = .ok [1, 0, 121, 0, 1, 0, 0, 0, 0] ∧
      decode env 5 .extObj ⟨[1, 0, 121, 0, 1, 0, 0, 0, 0], 0⟩
        = .ok (.extObj 1 (some ⟨some ⟨1, 0, 121, none, none⟩, [], 0⟩) "" .nil) ⟨[], 0⟩ ∧
      wt env 5 .extObj (.extObj 1 (some ⟨some ⟨1, 0, 121, none, none⟩, [], 0⟩) "DataTypeDefinition" (.ptr (.struct []))) = false :=
  ⟨rfl, rfl, rfl⟩

/-! ### the exclusions of `wt` about pointers are visible: what the encoder does with nil pointers -/

/-- a nil pointer to a plain struct encodes to nothing (the following fields shift) -/
theorem C01_nil_pointer_encodes_nothing (fuel : Nat) (e : Ty) : encode env (fuel + 1) (.ptr e) .nil = .ok [] := by
  simp [encode]

/-- a nil pointer to a type with a hand-written codec calls it with a nil receiver: panic
    (error for `*ExpandedNodeID`, the empty object for `*ExtensionObject`) -/
theorem C01_nil_custom_pointer (fuel : Nat) :
    encode env (fuel + 1) .nodeId .nil = .error .panicNilPtr ∧ encode env (fuel + 1) .variant .nil = .error .panicNilPtr ∧
    encode env (fuel + 1) .dataValue .nil = .error .panicNilPtr ∧ encode env (fuel + 1) .guid .nil = .error .panicNilPtr ∧
    encode env (fuel + 1) .locText .nil = .error .panicNilPtr ∧ encode env (fuel + 1) .diag .nil = .error .panicNilPtr ∧
    encode env (fuel + 1) .expNodeId .nil = .error .err ∧ encode env (fuel + 1) .extObj .nil = .ok [0, 0, 0] := by
  simp [encode]
  rfl

/-! ### non-vacuity -/

/-- a 2×3 Int32 array built by `NewVariant` lies in the domain and round-trips to itself -/
example :
    ∃ m bs, newVariant ⟨6, 2⟩ (.slice false [.slice false [.int 1, .int 2, .int 3], .slice false [.int 4, .int 5, .int 6]]) = .ok m ∧
      wt env 4 .variant m = true ∧ encode env 4 .variant m = .ok bs ∧
      decode env 4 .variant ⟨bs ++ [0xaa], 0⟩ = .ok m ⟨[0xaa], 0⟩ :=
  ⟨_, _, rfl, rfl, rfl, rfl⟩

/-- a `ReadResponse` with one DataValue (Int32 42, status, source timestamp 100 ns after the Unix epoch + 7 ns) -/
example :
    let v : Val := .ptr (.struct [
      .ptr (.struct [.time (some 1000000000), .int 7, .int 0, .diag [⟨0, 0, 0, 0, 0, [], 0⟩], .slice true [], .nil]),
      .slice false [.dataValue 7 (.variant 6 0 0 none ⟨6, 0⟩ (.int 42)) 2147483648 (some 107) 0 none 0],
      .slice true []])
    wt env 12 (.ptr Gen.T_ReadResponse) v = true ∧
    norm env 12 (.ptr Gen.T_ReadResponse) v = .ptr (.struct [
      .ptr (.struct [.time (some 1000000000), .int 7, .int 0, .diag [⟨0, 0, 0, 0, 0, [], 0⟩], .slice true [], emptyExtObj]),
      .slice false [.dataValue 7 (.variant 6 0 0 none ⟨6, 0⟩ (.int 42)) 2147483648 (some 100) 0 none 0],
      .slice true []]) :=
  ⟨rfl, rfl⟩

end Opcua.Props.C01
