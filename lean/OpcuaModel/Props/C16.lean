import OpcuaModel.Model.SendRenew
import OpcuaModel.Model.SendFloat
import OpcuaModel.Model.SendSeqLive
import OpcuaModel.Gen.RenewExpr
import OpcuaModel.Gen.SendFacts
/-
  C16 — security token renewal keeps the channel usable.

  (a) when: the delay of `scheduleRenewal` (expression matched in the source by
      the `renewexpr` generator topic) against "no earlier than half of the
      lifetime, and before it ends" — holds for every lifetime ≥ 1 ms since the
      whole-second truncation was repaired;
  (b) how: the renewal in the sender / renewal LTS `SendSeq` (shared with C11):
      one renewal per token, no deadlock in any interleaving, correct numbering
      of everything sent around a renewal inside the C11 guard;
  (c) server side: re-keying of the one instance object while others send.
-/
namespace Opcua.Props.C16
open Opcua Opcua.SendRenew Opcua.SendSeq Opcua.SendFloat

/-- what the generator matched in `scheduleRenewal`:
    `time.Duration(float64(lifetime) * 0.75)` — no truncation beyond the nanosecond -/
theorem C16_renew_expr_facts :
    Gen.RenewExpr.fracNum = 3 ∧ Gen.RenewExpr.fracDen = 4 ∧ Gen.RenewExpr.truncUnitNs = 1 := by decide

/-- the delay is exactly three quarters of the lifetime (L ms = L·10^6 ns) -/
theorem C16_delay_formula (L : Nat) : renewDelayNs L = 750000 * L := by
  simp only [renewDelayNs, Gen.RenewExpr.fracNum, Gen.RenewExpr.fracDen, Gen.RenewExpr.truncUnitNs]
  omega

/-- EXACT characterisation: the renewal falls into [L/2, L) for every lifetime
    of at least one millisecond (the wire carries whole milliseconds), and only then -/
theorem C16_window_iff (L : Nat) : InWindow L ↔ 1 ≤ L := by
  simp only [InWindow, C16_delay_formula]
  omega

/-- FULL STRENGTH: renewal no earlier than half of the lifetime and before it ends -/
theorem C16_window (L : Nat) (h : 1 ≤ L) : InWindow L := (C16_window_iff L).2 h

/-- the renewal is immediate only for a zero lifetime -/
theorem C16_immediate_iff (L : Nat) : renewDelayNs L = 0 ↔ L = 0 := by
  rw [C16_delay_formula]; omega

/-- THE FLOAT64 STEP IS EXACT: for every lifetime the protocol can carry (uint32
    milliseconds, held as int64 nanoseconds) `int64(float64(lifetime) * 0.75)` —
    exact conversion, IEEE-754 product rounded to nearest-even on 53 bits,
    truncation — is exactly three quarters of the lifetime, i.e. the rational
    model `renewDelayNs` used above is what the machine computes -/
theorem C16_float_exact (L : Nat) (h : L < 4294967296) : f64mul075 (1000000 * L) = renewDelayNs L := by
  rw [C16_delay_formula, f64_exact_div4 (1000000 * L) (by omega) (by omega)]
  omega

/-- for an arbitrary nanosecond lifetime below 2^54/3 ns (≈ 69 days) the float64
    result is ⌊0.75·x⌋ or one more, and exactly ⌊0.75·x⌋ below 2^53/3 ns (≈ 34.7 days) -/
theorem C16_float_bound (x : Nat) (h : 3 * x < 2 ^ 54) :
    3 * x / 4 ≤ f64mul075 x ∧ f64mul075 x ≤ 3 * x / 4 + 1 ∧ (3 * x < 2 ^ 53 → f64mul075 x = 3 * x / 4) :=
  ⟨(f64_bound x h).1, (f64_bound x h).2, f64_exact_small x⟩

/-- the lifetimes that used to fail (whole-second truncation, repaired) -/
theorem C16_former_witnesses :
    renewDelayNs 1000 = 750000000 ∧ InWindow 1000 ∧ renewDelayNs 2500 = 1875000000 ∧ InWindow 2500 ∧ InWindow 1 ∧ ¬ InWindow 0 := by
  decide

/-- (b) one renewal per token: a renewal is only started for the active token
    whose scheduled renewal has not run yet, so no instance is renewed twice -/
theorem C16_once {s : St} (h : Reachable s) : s.renewed.Nodup ∧ ∀ i ∈ s.renewed, s.sched i = false :=
  ⟨(reachable_invM h).onceN, fun i hi => ((reachable_invM h).onceS i hi).1⟩

/-- … and a renewal that failed is never retried: the token simply runs out -/
theorem C16_failed_renewal_is_final (s : St) (h : s.sched s.active = false) : step? s .rLock = none := by
  simp only [step?]
  split <;> simp [h]

/-- (b) no deadlock, in every interleaving (guard not needed): while a renewal
    or a send is in progress some thread can take a step, provided the peer
    answers the OPN request -/
theorem C16_no_deadlock {s : St} (h : Reachable s) (hb : Busy s) : CanMove s := no_deadlock h hb

/-- (b) once no renewal runs the gate is open: a waiting request can proceed -/
theorem C16_gate_reopens {s : St} (h : ReachableG s) (hidle : s.rpc = .idle) (t : Nat) (ht : t < s.n) (hp : s.pc t = .start) :
    (step? s (.gate t)).isSome = true := by
  have := ((reachableG_inv h).gate).1 hidle
  simp [step?, ht, hp, this]

/-- (b) PARTIAL (guard of C11): everything written around any number of
    renewals is consecutively numbered and contiguous, and no sender can reach
    `pendingReq.Add` while the renewer is inside `pendingReq.Wait` -/
theorem C16_requests_survive_partial {s : St} (h : ReachableG s) :
    Linked s.base s.wire ∧
    ((s.rpc = .waiting ∨ s.rpc = .waited) → ∀ t, ∀ i, s.pc t ≠ .hasActive i) := by
  have hi := reachableG_inv h
  refine ⟨hi.linked, ?_⟩
  intro hr t i hp
  rcases hr with hr | hr
  · have := hi.early (by simp [hr, RPC.early]) t
    simp [hp, uncounted] at this
  · have := hi.quiet (by simp [hr, RPC.quiet]) t
    simp [hp, quietPC] at this

/-- FINDING C16.renew-waitgroup-panic (model side): outside the guard a sender
    can execute `pendingReq.Add(1)` after the wait group dropped to zero and
    before `pendingReq.Wait()` has returned in the renewer — the situation in
    which Go's `sync.WaitGroup` panics ("WaitGroup is reused before previous Wait
    has returned") -/
def wgTrace : List Label :=
  [.spawn, .spawn, .gate 0, .getActive 0, .pendAdd 0, .gate 1, .getActive 1,
   .rLock, .rWaitBegin, .lockInst 0, .newMsg 0 1, .write 0 101, .unlockInst 0, .pendDone 0]

theorem C16_finding_waitgroup_reuse :
    (run? (init 100 1) wgTrace).map (fun s => (s.rpc, s.pend.length, (step? s (.pendAdd 1)).isSome)) =
      some (.waited, 0, true) := by decide

/-- FINDING C16.server-rekey-wrong-algorithm (server side): a response sent by
    another goroutine while `readChunk` / `handleOpenSecureChannelRequest` re-key
    the one instance object is secured with the asymmetric algorithm (confirmed on
    the real code by a forced schedule: the client rejects the chunk) -/
theorem C16_finding_server_rekey :
    (rrun? rinit [.readOPN, .sLock 0, .sSecure 0]).map (fun s => s.wire) = some [(false, .asym)] := by decide

/-- (c) PARTIAL (guard: no chunk is secured while an OPN request is processed) -/
theorem C16_rekey_partial {s : RSt} (h : RReachableG s) : AllMsgSym s.wire := (rguard_inv h).2

/-- non-vacuity of (c): a renewal with senders before and after it -/
example :
    (rrun? rinit [.sLock 0, .sSecure 0, .sUnlock 0, .readOPN, .handleAsym, .respLock, .respWrite, .respUnlock, .installSym,
                  .sLock 1, .sSecure 1, .sUnlock 1]).map (fun s => s.wire)
    = some [(false, .sym 1), (true, .asym), (false, .sym 0)] := by decide

end Opcua.Props.C16
