import OpcuaModel.Model.Session
import OpcuaModel.Gen.SessionFacts
import OpcuaModel.Model.ReconnectSession
/-
  C22 — a session is established only after the server proves its identity.

  `Session.connect f m s` is the model of `Client.Connect` for code facts `f`
  (which error branches propagate; `Gen.sessionFacts` is what the generator
  read from the working tree), security mode `m` and server behaviour `s`.
  All theorems quantify over every server behaviour (4·6·2·3·4·4·4·2 shapes),
  both signed modes and — where stated for `f` — every repair state.
-/
namespace Opcua.Props.C22
open Opcua Opcua.Session

/-- SAFETY, full strength, for the code as it is and for every repair state:
    in a signed mode `Connect` returns nil only if the signature verified with
    the certificate of the response; the client reports `Connected` or sends an
    ActivateSessionRequest only in that case. -/
theorem C22_only_after_proof (f : CodeFacts) (m : Mode) (s : Server) (hm : m ≠ .none)
    (h : ¬ sigValid s) :
    (connect f m s).outcome ≠ .ok ∧ ConnState.connected ∉ (connect f m s).states ∧
    (connect f m s).activateSent = false := by
  have hv := verify_ne_ok f m s hm h
  unfold connect
  generalize verifySessionSignature f m s = v at hv
  generalize updateNamespaces s = ns
  generalize s.create = cr
  generalize s.activate = ac
  rcases f with ⟨a, b, c⟩
  cases v <;> simp at hv <;> cases a <;> cases b <;> cases c <;> cases cr <;> cases ac <;> cases ns <;> decide

/-- the same statement for the working tree the generator read -/
theorem C22_only_after_proof_tree (m : Mode) (s : Server) (hm : m ≠ .none) (h : ¬ sigValid s) :
    (connect Gen.sessionFacts m s).outcome ≠ .ok ∧
    ConnState.connected ∉ (connect Gen.sessionFacts m s).states ∧
    (connect Gen.sessionFacts m s).activateSent = false :=
  C22_only_after_proof Gen.sessionFacts m s hm h

/-- ACCEPT: a genuine server (valid signature, well-formed answers) is connected,
    in every mode and every repair state -/
theorem C22_accept (f : CodeFacts) (m : Mode) (s : Server) (hv : sigValid s)
    (hc : s.create = .ok) (ha : s.activate = .ok) (hn : s.nsRead = .ok) (hs : s.nsIsStrings = true) :
    connect f m s = ⟨.ok, [.connecting, .connected], true⟩ := by
  have hns : updateNamespaces s = true := by simp [updateNamespaces, hn, hs]
  simp only [connect, verify_ok f m s hv, hc, ha, hns]
  rcases f with ⟨a, b, c⟩
  cases a <;> cases b <;> cases c <;> decide

/-- in mode None no signature is required (Part 4: the signature is empty) -/
theorem C22_none_ignores_signature (f : CodeFacts) (s : Server)
    (hc : s.create = .ok) (ha : s.activate = .ok) (hn : s.nsRead = .ok) (hs : s.nsIsStrings = true) :
    (connect f .none s).outcome = .ok := by
  have hns : updateNamespaces s = true := by simp [updateNamespaces, hn, hs]
  simp only [connect, verify_none, hc, ha, hns]
  rcases f with ⟨a, b, c⟩
  cases a <;> cases b <;> cases c <;> decide

/-- REJECT, the property's second half ("returns an error, not connected, no
    panic"): PARTIAL on the unchanged tree — it holds when the CreateSession
    answer is not a Good response of the right type (then the error of the
    transport / status wins), except for a non-RSA certificate under a response
    of the expected type. -/
theorem C22_reject_partial (m : Mode) (s : Server) (hm : m ≠ .none) (h : ¬ sigValid s)
    (hguard : s.create ≠ .ok) (hrsa : s.cert ≠ .nonRsa ∨ s.create = .fault ∨ s.create = .wrongType) :
    (connect asIs m s).outcome = .err ∧ (connect asIs m s).final = .closed := by
  have hv := verify_ne_ok asIs m s hm h
  have hp := verify_panic_iff asIs m s
  unfold connect
  generalize verifySessionSignature asIs m s = v at hv hp
  generalize updateNamespaces s = ns
  generalize s.activate = ac
  cases hcr : s.create <;> simp [hcr] at hguard hrsa <;>
    cases v <;> simp at hv <;> (try simp [hrsa] at hp) <;> cases ac <;> cases ns <;> decide

/-- FINDING C22.nil-session-after-bad-signature: as long as neither repair is
    in, EVERY Good CreateSessionResponse whose signature does not verify
    (certificate an RSA one or unreadable) makes `Connect` panic:
    `CreateSession` returns `(nil, nil)` and `ActivateSession` dereferences the
    nil session. -/
theorem C22_finding_nil_session (f : CodeFacts) (hf : f.nilRepaired = false) (m : Mode) (s : Server)
    (hm : m ≠ .none) (h : ¬ sigValid s) (hc : s.create = .ok) (hrsa : s.cert ≠ .nonRsa) :
    connect f m s = ⟨.panic, [.connecting], false⟩ := by
  have hv := verify_ne_ok f m s hm h
  have hp := verify_panic_iff f m s
  unfold connect
  rw [hc]
  generalize verifySessionSignature f m s = v at hv hp
  generalize updateNamespaces s = ns
  generalize s.activate = ac
  rcases f with ⟨a, b, c⟩
  cases a <;> cases b <;> cases c <;> simp [CodeFacts.nilRepaired] at hf <;>
  cases v <;> simp at hv <;> (try simp [hrsa] at hp) <;> cases ac <;> cases ns <;> decide

/-- the witness of the finding: Sign mode, own certificate, one bit of the
    signature flipped -/
theorem C22_finding_nil_session_witness :
    (connect asIs .sign ⟨.ok, .own, .own, .right, .bitFlipped, .ok, .ok, true⟩).outcome = .panic := by
  decide

/-- FINDING C22.non-rsa-server-cert: a certificate with a non-RSA key in the
    CreateSessionResponse panics in `VerifySessionSignature`
    (`remoteX509Cert.PublicKey.(*rsa.PublicKey)`), whatever the signature is,
    also with the nil session repaired and also when the status is Bad. -/
theorem C22_finding_non_rsa (f : CodeFacts) (m : Mode) (s : Server) (hm : m ≠ .none)
    (hf : f.rsaAssertChecked = false) (hc : s.create = .ok ∨ s.create = .badStatus)
    (hcert : s.cert = .nonRsa) :
    (connect f m s).outcome = .panic := by
  have hp := (verify_panic_iff f m s).2 ⟨hm, hcert, hf⟩
  unfold connect
  rw [hp]
  generalize updateNamespaces s = ns
  generalize s.activate = ac
  rcases hc with hc | hc <;> rw [hc] <;> rfl

/-- REPAIRED: with the nil session repaired (either `return nil, err` in
    CreateSession or a nil check before use) and the comma-ok assertion, the
    reject half holds at full strength. -/
theorem C22_reject_repaired (f : CodeFacts) (hf : f.nilRepaired = true) (hr : f.rsaAssertChecked = true)
    (m : Mode) (s : Server) (hm : m ≠ .none) (h : ¬ sigValid s) :
    (connect f m s).outcome = .err ∧ (connect f m s).final = .closed ∧
    ConnState.connected ∉ (connect f m s).states ∧ (connect f m s).activateSent = false := by
  have hv := verify_ne_ok f m s hm h
  have hp := verify_panic_iff f m s
  unfold connect
  generalize verifySessionSignature f m s = v at hv hp
  generalize updateNamespaces s = ns
  generalize s.create = cr
  generalize s.activate = ac
  rcases f with ⟨a, b, c⟩
  simp only at hr; subst hr
  cases a <;> cases c <;> simp [CodeFacts.nilRepaired] at hf <;>
    cases v <;> simp at hv hp <;> cases cr <;> cases ac <;> cases ns <;> decide

/-- with only the nil session repaired, the reject half holds for every
    certificate except the non-RSA one -/
theorem C22_reject_repaired_rsa (f : CodeFacts) (hf : f.nilRepaired = true)
    (m : Mode) (s : Server) (hm : m ≠ .none) (h : ¬ sigValid s) (hrsa : s.cert ≠ .nonRsa) :
    (connect f m s).outcome = .err ∧ (connect f m s).final = .closed := by
  have hv := verify_ne_ok f m s hm h
  have hp := verify_panic_iff f m s
  unfold connect
  generalize verifySessionSignature f m s = v at hv hp
  generalize updateNamespaces s = ns
  generalize s.create = cr
  generalize s.activate = ac
  rcases f with ⟨a, b, c⟩
  cases a <;> cases b <;> cases c <;> simp [CodeFacts.nilRepaired] at hf <;>
    cases v <;> simp at hv <;> (try simp [hrsa] at hp) <;> cases cr <;> cases ac <;> cases ns <;> decide

/-- The property C22 (reject half) holds for code facts `f` exactly when both
    defects are repaired: the split of the domain is machine-checked. -/
theorem C22_reject_iff_repaired (f : CodeFacts) :
    (∀ (m : Mode) (s : Server), m ≠ .none → ¬ sigValid s → (connect f m s).outcome = .err) ↔
    (f.nilRepaired = true ∧ f.rsaAssertChecked = true) := by
  constructor
  · intro h
    have h1 := h .sign ⟨.ok, .own, .own, .right, .bitFlipped, .ok, .ok, true⟩ (by decide) (by decide)
    have h2 := h .sign ⟨.ok, .nonRsa, .own, .right, .intact, .ok, .ok, true⟩ (by decide) (by decide)
    rcases f with ⟨a, b, c⟩
    cases a <;> cases b <;> cases c <;> revert h1 h2 <;> decide
  · rintro ⟨h1, h2⟩ m s hm hs
    exact (C22_reject_repaired f h1 h2 m s hm hs).1

/-- … and therefore, on the working tree the generator read, C22's reject half
    holds iff the generated facts say both repairs are in. -/
theorem C22_reject_tree :
    (∀ (m : Mode) (s : Server), m ≠ .none → ¬ sigValid s → (connect Gen.sessionFacts m s).outcome = .err) ↔
    (Gen.sessionFacts.nilRepaired = true ∧ Gen.sessionFacts.rsaAssertChecked = true) :=
  C22_reject_iff_repaired Gen.sessionFacts

/-- C22, FULL STRENGTH, for the working tree (both repairs are in the source the
    generator read): in a signed mode, a server whose session signature does not
    verify gets an error, the client ends Closed, never reports Connected,
    never sends ActivateSession. -/
theorem C22_reject (m : Mode) (s : Server) (hm : m ≠ .none) (h : ¬ sigValid s) :
    (connect Gen.sessionFacts m s).outcome = .err ∧ (connect Gen.sessionFacts m s).final = .closed ∧
    ConnState.connected ∉ (connect Gen.sessionFacts m s).states ∧
    (connect Gen.sessionFacts m s).activateSent = false :=
  C22_reject_repaired Gen.sessionFacts (by decide) (by decide) m s hm h

/-- no panic at all once both repairs are in (every mode, every behaviour) -/
theorem C22_nopanic_repaired (f : CodeFacts) (hf : f.nilRepaired = true) (hr : f.rsaAssertChecked = true)
    (m : Mode) (s : Server) : (connect f m s).outcome ≠ .panic := by
  have hp := verify_panic_iff f m s
  unfold connect
  generalize verifySessionSignature f m s = v at hp
  generalize updateNamespaces s = ns
  generalize s.create = cr
  generalize s.activate = ac
  rcases f with ⟨a, b, c⟩
  simp only at hr; subst hr
  cases a <;> cases c <;> simp [CodeFacts.nilRepaired] at hf <;>
    cases v <;> simp at hp <;> cases cr <;> cases ac <;> cases ns <;> decide

/-- … and `Connect` does not panic for any server behaviour in any mode -/
theorem C22_nopanic (m : Mode) (s : Server) : (connect Gen.sessionFacts m s).outcome ≠ .panic :=
  C22_nopanic_repaired Gen.sessionFacts (by decide) (by decide) m s

/-- a certificate CHAIN in the response is identified by its first certificate
    (the one `ParseCertificate` returns, the sender's): a signature made with
    the key of a foreign certificate appended behind the genuine one proves
    nothing and is rejected; with the foreign certificate first it verifies
    only against the foreign key -/
theorem C22_chain_first_certificate_counts :
    ¬ sigValid ⟨.ok, .chainOwnOther, .other, .right, .intact, .ok, .ok, true⟩ ∧
    (connect Gen.sessionFacts .sign ⟨.ok, .chainOwnOther, .other, .right, .intact, .ok, .ok, true⟩).outcome = .err ∧
    sigValid ⟨.ok, .chainOwnOther, .own, .right, .intact, .ok, .ok, true⟩ ∧
    ¬ sigValid ⟨.ok, .chainOtherOwn, .own, .right, .intact, .ok, .ok, true⟩ := by
  decide

/-! ### the reconnect path (C22 composed into the C25 LTS) -/

/-- RECONNECT inherits C22: when the monitor goroutine re-creates the session
    (`recreateSession`) and the server's signature does not verify, the action
    ends in an error (next action: createSecureChannel), the client holds no
    session, sent no ActivateSessionRequest and did not panic — for every
    server behaviour, both signed modes, on the working tree. -/
theorem C22_reconnect_reject (m : Mode) (s : Server) (hm : m ≠ .none) (h : ¬ sigValid s) :
    ReconnectSession.recreateSession Gen.sessionFacts m s = ⟨.retry, false, false⟩ := by
  have hv := verify_ne_ok Gen.sessionFacts m s hm h
  have hp := verify_panic_iff Gen.sessionFacts m s
  unfold ReconnectSession.recreateSession
  generalize verifySessionSignature Gen.sessionFacts m s = v at hv hp
  generalize updateNamespaces s = ns
  generalize s.create = cr
  generalize s.activate = ac
  have hf : Gen.sessionFacts.rsaAssertChecked = true := by decide
  cases v <;> simp [hf] at hv hp <;> cases cr <;> cases ac <;> cases ns <;> decide

/-- … and a genuine server gets its session back -/
theorem C22_reconnect_accept (m : Mode) (s : Server) (hv : sigValid s)
    (hc : s.create = .ok) (ha : s.activate = .ok) (hn : s.nsRead = .ok) (hs : s.nsIsStrings = true) :
    ReconnectSession.recreateSession Gen.sessionFacts m s = ⟨.session, true, true⟩ := by
  have hns : updateNamespaces s = true := by simp [updateNamespaces, hn, hs]
  simp only [ReconnectSession.recreateSession, verify_ok Gen.sessionFacts m s hv, hc, ha, hns]
  decide

/-- the result of the action is a branch of the C25 LTS at `recreate1` (so the
    lifecycle theorems of C25 apply to it), and after a rejected signature that
    branch is "no session, recreate the secure channel": the client keeps
    reconnecting and cannot report `Connected` before a later successful
    CreateSession -/
theorem C22_reconnect_is_lts_step (m : Mode) (s : Server) (st : ConnLts.St) (hp : st.mpc = .recreate1)
    (hnp : (ReconnectSession.recreateSession Gen.sessionFacts m s).outcome ≠ .panic) :
    ∃ st', ReconnectSession.ltsTarget st (ReconnectSession.recreateSession Gen.sessionFacts m s) = some st' ∧
      st' ∈ ConnLts.tau st := by
  rcases st with ⟨upc, mpc, cl, ca, sess, last, auto, hooks, fa, stl⟩
  simp only at hp; subst hp
  generalize hr : ReconnectSession.recreateSession Gen.sessionFacts m s = r at hnp
  rcases r with ⟨o, hs, sent⟩
  cases o
  · -- session: hasSession is true by construction
    have : hs = true := by
      unfold ReconnectSession.recreateSession at hr
      revert hr
      repeat' split
      all_goals (intro hr; simp at hr; try exact hr.1)
    subst this
    exact ⟨_, rfl, by cases hooks <;> simp [ConnLts.tau, ConnLts.monHidden]⟩
  · cases hs <;> exact ⟨_, rfl, by cases hooks <;> simp [ConnLts.tau, ConnLts.monHidden]⟩
  · simp at hnp

/-- non-vacuity: there are behaviours with a valid and with an invalid signature,
    and the as-is model accepts the former -/
example : sigValid ⟨.ok, .own, .own, .right, .intact, .ok, .ok, true⟩ ∧
    ¬ sigValid ⟨.ok, .own, .other, .right, .intact, .ok, .ok, true⟩ ∧
    (connect asIs .signAndEncrypt ⟨.ok, .own, .own, .right, .intact, .ok, .ok, true⟩).outcome = .ok := by
  decide

end Opcua.Props.C22
