import OpcuaModel.Model.SendHandlers
import OpcuaModel.Gen.ReqID
import OpcuaModel.Gen.SendFacts
/-
  C18 — each request receives its own response, whatever the concurrency and
  ordering.

  `SendHandlers.step?` is the handler-table LTS (one label per `handlersMu`
  critical section / channel operation, see the model file); `Reachable` is
  quantified over any number of callers, any seed of the request id counter,
  any interleaving and any behaviour of the peer (reordered, dropped,
  duplicated, unsolicited responses are all `pop` labels).  Request ids come
  from the machine-translated `Gen.nextRequestID`.
-/
namespace Opcua.Props.C18
open Opcua Opcua.SendHandlers

/-- the atomicity the LTS assumes is what the source does: every access of
    `handlers` is under `handlersMu`, the client-side accesses of `requestID` are
    under `requestIDMu`, and the response channel has capacity one -/
theorem C18_facts :
    ((Gen.SendFacts.accesses.filter (·.field == "handlers")).all (·.held.contains "handlersMu") = true) ∧
    ((Gen.SendFacts.accesses.filter (fun a => a.field == "requestID" && a.fn != "handleOpenSecureChannelRequest")).all
        (·.held.contains "requestIDMu") = true) ∧
    (Gen.SendFacts.accesses.filter (·.field == "handlers")).length ≥ 4 ∧
    Gen.SendFacts.responseChanCap = 1 := by decide

/-- a response is only ever taken by the caller that registered the request id
    the response carries -/
theorem C18_own {s : St} (h : Reachable s) (k : Nat) (m : Msg) (hd : (k, m) ∈ s.delivered) :
    s.cs k = .got m.id m := ((reachable_inv h).dlv k m hd).1

/-- a caller takes at most one response -/
theorem C18_at_most_once_caller {s : St} (h : Reachable s) : (s.delivered.map (·.1)).Nodup :=
  (reachable_inv h).nodup

/-- a response (one arrival at the dispatcher) is handed to at most one caller -/
theorem C18_at_most_once_msg {s : St} (h : Reachable s) (k₁ k₂ : Nat) (m₁ m₂ : Msg)
    (h₁ : (k₁, m₁) ∈ s.delivered) (h₂ : (k₂, m₂) ∈ s.delivered) (hs : m₁.serial = m₂.serial) :
    k₁ = k₂ ∧ m₁ = m₂ := by
  have i := reachable_inv h
  have a := i.dlv k₁ m₁ h₁
  have b := i.dlv k₂ m₂ h₂
  have hk : k₁ = k₂ := by
    have := a.2.1; rw [hs, b.2.1] at this; exact (Option.some.inj this).symm
  subst hk
  refine ⟨rfl, ?_⟩
  have := a.1; rw [b.1] at this
  injection this with _ hm
  exact hm.symm

/-- the send into the capacity-1 response channel never finds it full (the
    `default:` branch of the dispatcher is dead) -/
theorem C18_send_never_full {s : St} (h : Reachable s) : s.full = 0 := (reachable_inv h).full

/-- a message whose handler was popped is on its way to exactly that caller:
    whoever holds a pending message registered its id -/
theorem C18_inflight_own {s : St} (h : Reachable s) (k : Nat) (m : Msg) (hb : s.box k = some m) :
    s.cs k = .registered m.id ∨ s.cs k = .abandoned m.id := ((reachable_inv h).box k m hb).1

/-- wrap-around: while an id is pending, a second registration of the same id
    is refused … -/
theorem C18_wrap_second_refused (s : St) (k k' id : Nat) (hp : s.handlers id = some k) (hc : s.cs k' = .hasId id) :
    step? s (.register k' true) = none := by
  simp [step?, hc, hp]

/-- … it fails with the duplicate-registration error and the first caller keeps its handler -/
theorem C18_wrap_first_keeps (s s' : St) (k k' id : Nat) (hp : s.handlers id = some k) (hc : s.cs k' = .hasId id)
    (hs : step? s (.register k' false) = some s') :
    s'.handlers = s.handlers ∧ s'.cs k' = .dup id ∧ s'.box = s.box := by
  simp [step?, hc, hp] at hs
  subst hs
  simp

/-- unsolicited, duplicate and late responses (no handler for the id) are dropped:
    no caller state, no pending channel and no handler changes -/
theorem C18_unsolicited_dropped (s : St) (id : Nat) (hn : s.handlers id = none) (hd : s.disp = none) :
    step? s (.pop id true) = none ∧
    ∃ s', step? s (.pop id false) = some s' ∧ s'.handlers = s.handlers ∧ s'.box = s.box ∧ s'.cs = s.cs ∧
      s'.delivered = s.delivered ∧ s'.disp = none ∧ s'.dropped = s.dropped + 1 := by
  simp [step?, hn, hd]

/-- the n-th id handed out after the counter had value c -/
def idAt (c : Int) : Nat → Int
  | 0 => c
  | n + 1 => (Gen.nextRequestID (idAt c n)).2

/-- one call of the machine-translated `nextRequestID` -/
theorem C18_next_value (x : Int) (h0 : 0 ≤ x) (h1 : x < 4294967296) :
    (Gen.nextRequestID x).2 = if x = 4294967295 then 1 else x + 1 := by
  simp only [Gen.nextRequestID]
  by_cases hx : x = 4294967295
  · subst hx; decide
  · have h2 : (x + 1) % 4294967296 = x + 1 := by omega
    have h3 : ¬ (x + 1 = 0) := by omega
    simp [h2, hx, h3]

/-- closed form of the machine-translated `nextRequestID`: ids cycle through
    1 … 2^32−1, zero is skipped -/
theorem C18_id_closed_form (c : Int) (h0 : 0 ≤ c) (h1 : c < 4294967296) (n : Nat) :
    idAt c (n + 1) = (c + n) % 4294967295 + 1 := by
  induction n with
  | zero =>
    show (Gen.nextRequestID c).2 = _
    rw [C18_next_value c h0 h1]
    split <;> omega
  | succ n ih =>
    show (Gen.nextRequestID (idAt c (n + 1))).2 = _
    rw [ih, C18_next_value _ (by omega) (by omega)]
    split <;> omega

/-- an id is never 0 and fits 32 bits -/
theorem C18_id_range (c : Int) (h0 : 0 ≤ c) (h1 : c < 4294967296) (n : Nat) :
    1 ≤ idAt c (n + 1) ∧ idAt c (n + 1) < 4294967296 := by
  rw [C18_id_closed_form c h0 h1 n]; omega

/-- any 2^32−1 consecutive calls hand out pairwise different ids: two requests
    can only share an id if at least 2^32−1 calls lie between them -/
theorem C18_ids_distinct_window (c : Int) (h0 : 0 ≤ c) (h1 : c < 4294967296) (i j : Nat)
    (hij : i < j) (hw : j < i + 4294967295) : idAt c (i + 1) ≠ idAt c (j + 1) := by
  rw [C18_id_closed_form c h0 h1 i, C18_id_closed_form c h0 h1 j]; omega

/-- the counter of the model stays inside 32 bits -/
theorem C18_counter_range {s : St} (h : Reachable s) : 0 ≤ s.counter ∧ s.counter < 4294967296 := by
  induction h with
  | init c hc => simp [init]; omega
  | step l _ hs ih =>
    cases l <;> simp only [step?] at hs
    case setCounter n => split at hs <;> simp at hs; subst hs; simp; omega
    case nextId k v =>
      split at hs
      · split at hs <;> simp at hs
        subst hs
        simp only [Gen.nextRequestID]
        split <;> omega
      · simp at hs
    all_goals (repeat' split at hs) <;> simp at hs <;> subst hs <;> exact ih

/-- typed assignment (`safeAssign` in client.go): a response of another type is
    reported as an error and the caller's result is left untouched; a response of
    the expected type is assigned -/
theorem C18_wrong_type (got want : Nat) (old : Option Nat) :
    (got ≠ want → safeAssign got want old = (false, old)) ∧
    (got = want → safeAssign got want old = (true, some got)) := by
  constructor <;> intro h <;> simp [safeAssign, h]

/-- non-vacuity: two callers, responses in reverse order, a duplicate of the
    second response and one unsolicited id; ids wrap from 2^32−1 to 1 -/
example :
    (run? (init 4294967294)
      [.nextId 0 4294967295, .nextId 1 1, .register 1 true, .register 0 true,
       .pop 1 true, .deliver, .pop 77 false, .pop 4294967295 true, .deliver, .pop 1 false,
       .recv 0, .recv 1]).map (fun s => (s.delivered, s.dropped))
    = some ([(1, ⟨1, 0⟩), (0, ⟨4294967295, 2⟩)], 2) := by decide

/-- non-vacuity of the wrap-around case: caller 0 is pending with id 5, the
    counter comes round to 4, caller 1 draws 5 again and is refused -/
example :
    (run? (init 4) [.nextId 0 5, .register 0 true, .setCounter 4, .nextId 1 5, .register 1 false]).map
      (fun s => (s.handlers 5, s.cs 1)) = some (some 0, .dup 5) := by decide

end Opcua.Props.C18
