import OpcuaModel.Base.Tactics
import OpcuaModel.Model.Interop
/-
  C37 — client and server interoperate under every supported security
  configuration. The quantifier is finite: `configTable` is computed from the
  generated list of supported policies and their modes (`Gen.interopPolicies`),
  the committed key sizes (`Gen.testKeys`) and the Part 7 key ranges (`Spec`);
  `connect` consumes the generated constructor guards and padding constants
  (`Gen.asymRows`). Everything is decided by kernel evaluation.
-/
namespace Opcua.Props.C37
open Opcua Opcua.Asym Opcua.Interop

/-- EVERY configuration of the table connects: the advertised endpoint and
    token are found, both ends accept both keys (OPN, session signatures,
    password encryption), the secured OpenSecureChannel request and response
    are one chunk whose MessageSize field equals its length and which fits the
    peer's receive buffer. -/
theorem C37_all : ∀ cfg ∈ configTable, connect cfg = .ok := by
  decide +kernel

/-- DEPENDENCY C30 ↔ C37 (discovery): if the server admitted only the enabled
    (policy, mode) pairs — the withdrawn C30 repair — every configuration whose
    server does not enable None/None would fail at discovery, because
    `opcua.GetEndpoints` needs an unsecured channel; only the policy-None rows
    would still connect. -/
theorem C37_enabled_only_breaks_discovery : ∀ cfg ∈ configTable,
    connectWith .enabledOnly cfg = (if polIsNone cfg.pol then .ok else .discoveryRefused) := by
  decide +kernel

/-- … whereas admitting the enabled pairs PLUS the unsecured discovery channel
    (Part 4 §5.4.1) keeps every configuration connecting: C30 can be repaired
    that way without breaking C37. -/
theorem C37_enabled_or_discovery_ok : ∀ cfg ∈ configTable,
    connectWith .enabledOrDiscovery cfg = .ok := by
  decide +kernel

/-- the table has the expected size: 5 secured policies × 2 modes × (4 + 4 + 9 + 9 + 9
    key-size pairs) × 2 token types = 140, + 2 anonymous rows for policy None, + 26 rows
    username-over-the-None-endpoint (13 (secured policy, server key) pairs × client key absent / 2048) -/
theorem C37_table_size : configTable.length = 168 := by
  decide +kernel

/-- the policy index means the same policy in both generated tables -/
theorem C37_index_aligned :
    Gen.interopPolicies.map (·.name) = Gen.asymRows.map (·.name) ∧
    Gen.interopPolicies.map (·.isNone) = Gen.asymRows.map (fun r => decide (r.scheme = .none)) := by
  decide +kernel

/-- The table is complete: for every supported policy with a Part 7 key range,
    every mode, every pair of committed key sizes and every token type, the row
    is in the table iff the mode has a security level for that policy and both
    keys are within the Part 7 range (Boolean form, evaluated by the kernel). -/
theorem C37_table_complete :
    ((enumFrom 0 Gen.interopPolicies).all fun (i, p) =>
      match Spec.keyBits p.name with
      | none => true
      | some r =>
        [1, 2, 3].all fun m => keySizes.all fun cb => keySizes.all fun sb =>
          [Auth.anonymous, Auth.username].all fun a =>
            (configTable.contains (⟨i, m, cb, sb, a, none⟩ : Config)) ==
              (p.modes.contains m && inRange r cb && inRange r sb)) = true := by
  decide +kernel

/-- no row of the table uses an unsupported policy, a mode without a security
    level, or (on a secured channel) a key outside the Part 7 range -/
theorem C37_table_sound :
    (configTable.all fun cfg =>
      match policyInfo cfg.pol with
      | none => false
      | some p => p.modes.contains cfg.mode &&
          (cfg.mode == 1 || (keyAllowed p.name cfg.cbits && keyAllowed p.name cfg.sbits)) &&
          (match cfg.extra with
           | none => true
           | some j => cfg.mode == 1 && cfg.auth == .username && keyAllowed (polName j) cfg.sbits && !polIsNone j)) = true := by
  decide +kernel

/-- username over the None endpoint: for every secured policy `q` and every
    committed server key size, the row is in the table iff `q` allows that key
    size (client key absent or 2048 bits) -/
theorem C37_table_complete_none_username :
    ((enumFrom 0 Gen.interopPolicies).all fun (i, p) => !p.isNone ||
      ((enumFrom 0 Gen.interopPolicies).all fun (j, q) => q.isNone ||
        keySizes.all fun sb => [0, 2048].all fun cb =>
          configTable.contains (⟨i, 1, cb, sb, .username, some j⟩ : Config) == keyAllowed q.name sb)) = true := by
  decide +kernel

/-- what a server enabling None together with a secured policy advertises on
    its None endpoint: the anonymous token and the username token under the
    secured policy -/
theorem C37_tokens_none_endpoint :
    ((enumFrom 0 Gen.interopPolicies).all fun (i, p) => !p.isNone ||
      ((enumFrom 0 Gen.interopPolicies).all fun (j, q) => q.isNone ||
        ((serverEndpoints [(i, 1), (j, 3)] [.anonymous, .username]).head?.map (·.tokens)) ==
          some [⟨.anonymous, none⟩, ⟨.username, some j⟩])) = true := by
  decide +kernel

/-- what a server enabling one (policy, mode) with both token types advertises:
    the anonymous token under policy None, and — unless the policy is None —
    the username token under the endpoint's own policy -/
theorem C37_tokens :
    ((enumFrom 0 Gen.interopPolicies).all fun (i, p) => p.modes.all fun m =>
      serverEndpoints [(i, m)] [.anonymous, .username] ==
        [⟨i, m, if p.isNone then [⟨.anonymous, none⟩] else [⟨.anonymous, none⟩, ⟨.username, some i⟩]⟩]) = true := by
  decide +kernel

/-- the PolicyID strings the Go code compares are pairwise distinct for the
    tokens a server can advertise, so comparing (type, policy) is the same -/
theorem C37_policy_ids_distinct :
    let toks : List Token := [⟨.anonymous, none⟩] ++ (List.range Gen.interopPolicies.length).map (fun i => ⟨.username, some i⟩)
    (toks.map policyIDString).Nodup := by
  decide +kernel

/-- the OPN request is one chunk for ANY certificate: for every server key size
    and padding constant that occurs, any client key up to 4096 bits, a header
    of up to 40 000 bytes (certificate chain) and a body of up to 200 bytes the
    secured chunk stays within the default 65 535-byte receive buffer -/
theorem C37_opn_fits_any_cert (H n sigLen : Int) (hH : 0 ≤ H) (hH2 : H ≤ 40000) (hn : 0 ≤ n) (hn2 : n ≤ 200)
    (hs : 0 ≤ sigLen) (hs2 : sigLen ≤ 512) :
    ∀ k ∈ [128, 256, 384, 512], ∀ pad ∈ [(11 : Int), 42, 130], k - pad > 0 →
      (asymSecure H n sigLen k pad pad).chunkLen ≤ 65535 ∧
      (asymSecure H n sigLen k pad pad).sizeField = (asymSecure H n sigLen k pad pad).chunkLen := by
  intro k hk pad hp hpos
  simp only [List.mem_cons, List.mem_nil_iff, or_false] at hk hp
  rcases hk with rfl | rfl | rfl | rfl <;> rcases hp with rfl | rfl | rfl <;>
    simp [asymSecure] at hpos ⊢ <;> go_divmod <;> (try split) <;> go_divmod <;> omega

/-- non-vacuity: the largest configuration -/
example : polName 1 = "Aes256_Sha256_RsaPss" ∧ connect ⟨1, 3, 4096, 4096, .username, none⟩ = .ok ∧
    (opnRequest ⟨1, 3, 4096, 4096, .username, none⟩).isSome = true := by
  decide +kernel

/-- a key outside the range is refused by the model as well -/
example : polName 3 = "Basic256" ∧ connect ⟨3, 3, 4096, 2048, .anonymous, none⟩ = .clientRefusesKeys := by decide +kernel

end Opcua.Props.C37
