import OpcuaModel.Base.Tactics
import OpcuaModel.Model.Interop
/-
  C37 — client and server interoperate under every supported security
  configuration. The quantifier is finite: `configTable` is computed from the
  generated list of supported policies and their modes (`Gen.interopPolicies`),
  the committed key sizes (`Gen.testKeys`) and the Part 7 key ranges (`Spec`);
  `connect` consumes the generated constructor guards and padding constants
  (`Gen.asymRows`). Everything is decided by kernel evaluation.
-/
namespace Opcua.Props.C37
open Opcua Opcua.Asym Opcua.Interop

/-- EVERY configuration of the table connects: the advertised endpoint and
    token are found, both ends accept both keys (OPN, session signatures,
    password encryption), the secured OpenSecureChannel request and response
    are one chunk whose MessageSize field equals its length and which fits the
    peer's receive buffer. -/
theorem C37_all : ∀ cfg ∈ configTable, connect cfg = .ok := by
  decide +kernel

/-- the table has the expected size: 5 secured policies × 2 modes × (4 + 4 + 9 + 9 + 9
    key-size pairs) × 2 token types + 2 rows for policy None -/
theorem C37_table_size : configTable.length = 142 := by
  decide +kernel

/-- The table is complete: for every supported policy with a Part 7 key range,
    every mode, every pair of committed key sizes and every token type, the row
    is in the table iff the mode has a security level for that policy and both
    keys are within the Part 7 range (Boolean form, evaluated by the kernel). -/
theorem C37_table_complete :
    (Gen.interopPolicies.all fun p => [1, 2, 3].all fun m => keySizes.all fun cb => keySizes.all fun sb =>
      [Auth.anonymous, Auth.username].all fun a =>
        !(Spec.keyBits p.name).isSome ||
        (decide ((⟨p.name, m, cb, sb, a⟩ : Config) ∈ configTable) ==
          (decide (m ∈ p.modes) && keyAllowed p.name cb && keyAllowed p.name sb))) = true := by
  decide +kernel

/-- no row of the table uses a key outside the Part 7 range, an unsupported
    policy, or a mode without a security level -/
theorem C37_table_sound : ∀ cfg ∈ configTable,
    (∃ p ∈ Gen.interopPolicies, p.name = cfg.pol ∧ cfg.mode ∈ p.modes) ∧
    (cfg.mode ≠ 1 → keyAllowed cfg.pol cfg.cbits = true ∧ keyAllowed cfg.pol cfg.sbits = true) := by
  decide +kernel

/-- what a server enabling one secured (policy, mode) with both token types
    advertises: the anonymous token under policy None and the username token
    under the endpoint's own policy; a server enabling only None advertises no
    username token -/
theorem C37_tokens : ∀ p ∈ Gen.interopPolicies, ∀ m ∈ p.modes,
    (serverEndpoints [(p.name, m)] [.anonymous, .username]).map (fun e => (e.pol, e.mode, e.tokens.map (·.policyID))) =
      [(p.name, m, if p.name = "None" then ["anonymous_none"] else ["anonymous_none", lower ("username_" ++ p.name)])] := by
  decide +kernel

/-- the OPN request is one chunk for ANY certificate: for every server key size
    and padding constant that occurs, any client key up to 4096 bits, a header
    of up to 40 000 bytes (certificate chain) and a body of up to 200 bytes the
    secured chunk stays within the default 65 535-byte receive buffer -/
theorem C37_opn_fits_any_cert (H n sigLen : Int) (hH : 0 ≤ H) (hH2 : H ≤ 40000) (hn : 0 ≤ n) (hn2 : n ≤ 200)
    (hs : 0 ≤ sigLen) (hs2 : sigLen ≤ 512) :
    ∀ k ∈ [128, 256, 384, 512], ∀ pad ∈ [(11 : Int), 42, 130], k - pad > 0 →
      (asymSecure H n sigLen k pad pad).chunkLen ≤ 65535 ∧
      (asymSecure H n sigLen k pad pad).sizeField = (asymSecure H n sigLen k pad pad).chunkLen := by
  intro k hk pad hp hpos
  simp only [List.mem_cons, List.mem_nil_iff, or_false] at hk hp
  rcases hk with rfl | rfl | rfl | rfl <;> rcases hp with rfl | rfl | rfl <;>
    simp [asymSecure] at hpos ⊢ <;> go_divmod <;> (try split) <;> go_divmod <;> omega

/-- non-vacuity: the largest configuration -/
example : connect ⟨"Aes256_Sha256_RsaPss", 3, 4096, 4096, .username⟩ = .ok ∧
    opnRequest ⟨"Aes256_Sha256_RsaPss", 3, 4096, 4096, .username⟩ = some ⟨2494, 2494⟩ := by
  decide +kernel

/-- a key outside the range is refused by the model as well -/
example : connect ⟨"Basic256", 3, 4096, 2048, .anonymous⟩ = .clientRefusesKeys := by decide +kernel

end Opcua.Props.C37
