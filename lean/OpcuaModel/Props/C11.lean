import OpcuaModel.Model.SendSeqInv
import OpcuaModel.Model.SendGate
import OpcuaModel.Gen.SeqNum
import OpcuaModel.Gen.SendFacts
/-
  C11 — outgoing sequence numbers increase by one per chunk, even across
  renewals, and the chunks of one message are never interleaved with another.

  `SendSeq.step?` is the LTS of concurrent senders and the token renewal (see
  the model file), `Linked base wire` says: every chunk carries
  `nextSequenceNumber` of its predecessor's number (the machine-translated
  function, wrap included) and a message's chunks are adjacent.

  Full strength (`Reachable s → Linked …`) is FALSE for the code as it is:
  three machine-checked counterexample traces (findings).  `C11_partial` proves
  it for every state reachable under the decidable guard `SendSeq.Guard`.
-/
namespace Opcua.Props.C11
open Opcua Opcua.SendSeq

/-- The atomicity and the orders the LTS assumes, re-extracted from the source:
    `sequenceNumber` is only touched under the instance mutex (except the
    constructor and `open`, whose caller `renew` holds it), `activeInstance`
    under `instancesMu`, the flag of a condition locker under its `lockMu`;
    `renew` locks the gate, waits for the wait group, locks the old instance and
    opens, in this order; a request passes the gate before it reads the active
    instance, and is counted by `pendingReq` only inside `sendRequestWithTimeout`. -/
theorem C11_facts :
    ((Gen.SendFacts.accesses.filter (fun a => a.field == "sequenceNumber" && a.fn != "NewServerSecureChannel" && a.fn != "open")).all
        (·.held.contains "inst") = true) ∧
    ((Gen.SendFacts.accesses.filter (·.field == "activeInstance")).all (·.held.contains "instancesMu") = true) ∧
    ((Gen.SendFacts.accesses.filter (·.field == "bLock")).all (·.held.contains "lockMu") = true) ∧
    (Gen.SendFacts.order_renew.filter (fun c => c != "s.reqLocker.unlock" && c != "context.Background")
        = ["s.reqLocker.lock", "s.pendingReq.Wait", "instance.Lock", "s.open"]) ∧
    (Gen.SendFacts.order_SendRequestWithTimeout.take 2 = ["s.reqLocker.waitIfLock", "s.getActiveChannelInstance"]) ∧
    (Gen.SendFacts.order_sendRequestWithTimeout.take 3 = ["s.pendingReq.Add", "s.sendAsyncWithTimeout", "s.pendingReq.Done"]) := by
  decide

/-- sequence numbers alone: newest first, each number is `next` of the one before -/
def Consecutive (base : Int) : List Chunk → Prop
  | [] => True
  | [c] => c.seq = next base
  | c2 :: c1 :: rest => c2.seq = next c1.seq ∧ Consecutive base (c1 :: rest)

instance (b : Int) : (w : List Chunk) → Decidable (Consecutive b w)
  | [] => isTrue trivial
  | [c] => by unfold Consecutive; exact inferInstance
  | c2 :: c1 :: rest => by
    unfold Consecutive
    have := instDecidableConsecutive b (c1 :: rest)
    exact inferInstance

/-- chunk adjacency alone -/
def Contiguous : List Chunk → Prop
  | [] => True
  | [c] => c.idx = 0
  | c2 :: c1 :: rest => Adj c2 c1 ∧ Contiguous (c1 :: rest)

theorem linked_split (base : Int) (w : List Chunk) : Linked base w ↔ Consecutive base w ∧ Contiguous w := by
  induction w with
  | nil => simp [Linked, Consecutive, Contiguous]
  | cons c w ih =>
    cases w with
    | nil => simp [Linked, Consecutive, Contiguous]
    | cons c1 rest =>
      simp only [Linked, Consecutive, Contiguous, ih]
      constructor
      · rintro ⟨a, b, c, d⟩; exact ⟨⟨a, c⟩, b, d⟩
      · rintro ⟨⟨a, c⟩, b, d⟩; exact ⟨a, b, c, d⟩

/-- PARTIAL (guard: `SendSeq.Guard`): for any number of request and response
    senders, any number of successive renewals and any interleaving that stays
    inside the guard, the wire is consecutively numbered and messages are contiguous -/
theorem C11_partial {s : St} (h : ReachableG s) : Consecutive s.base s.wire ∧ Contiguous s.wire :=
  (linked_split _ _).1 (reachableG_inv h).linked

/-- states reachable without any renewal and without aborted sends (server
    channels; a client channel between renewals) -/
inductive ReachableFixed : St → Prop where
  | init (b : Int) (tk : Nat) : ReachableFixed (init b tk)
  | step {s s' : St} (l : Label) : ReachableFixed s → l ≠ .rLock → (∀ t, l ≠ .abort t) → step? s l = some s' → ReachableFixed s'

theorem fixed_idle {s : St} (h : ReachableFixed s) : s.rpc = .idle ∧ ReachableG s := by
  induction h with
  | init b tk => exact ⟨rfl, ReachableG.init b tk⟩
  | @step s0 s1 l _ hl ha hs ih =>
    obtain ⟨hi, hg⟩ := ih
    have hG : Guard s0 l := by
      cases l <;> simp only [Guard]
      case rLock => exact absurd rfl hl
      case respGetActive t => exact hi
      case abort t => exact absurd rfl (ha t)
      case rFail => simp [step?, hi] at hs
    refine ⟨?_, ReachableG.step l hg hG hs⟩
    cases l <;> simp only [step?, hi] at hs
    case rLock => exact absurd rfl hl
    all_goals first
      | (simp at hs; done)
      | (repeat' split at hs) <;> simp at hs <;> (try subst hs) <;> (try simp only [settle]) <;> (try split) <;> simp_all

/-- for a fixed token (no renewal) the property holds at full strength -/
theorem C11_fixed_token {s : St} (h : ReachableFixed s) : Consecutive s.base s.wire ∧ Contiguous s.wire :=
  C11_partial (fixed_idle h).2

/-- the wrap of the machine-translated `nextSequenceNumber` is the one the
    specification allows (Part 6, 6.7.2.4: no wrap until the number is greater
    than 4 294 966 271, first number after the wrap below 1024) -/
theorem C11_wrap_spec (n : Int) (h0 : 0 ≤ n) (h1 : n ≤ 4294966272) :
    (n < 4294966272 → next n = n + 1) ∧ (n = 4294966272 → next n = 1) ∧
    1 ≤ next n ∧ next n ≤ 4294966272 ∧ (next n ≠ n + 1 → n > 4294966271 ∧ next n < 1024) := by
  have hm : (n + 1) % 4294967296 = n + 1 := by omega
  simp only [next, Gen.nextSequenceNumber, hm]
  by_cases hw : n + 1 > 4294967295 - 1023
  · simp; omega
  · simp; omega

/-- FINDING C11.stale-counter-after-renewal.  A sender that passed the gate and
    read the active instance before the renewal starts is not counted by
    `pendingReq`; after the renewal it numbers its chunk from the old instance's
    counter, which `open` had copied into the new one: the OPN request and the
    MSG chunk carry the same number (and the MSG the old token). -/
def staleTrace : List Label :=
  [.spawn, .gate 0, .getActive 0,
   .rLock, .rWaitBegin, .rWaitDone, .rLockOld, .rCopy, .rSendOPN 101, .rInstall 2, .rUnlockOld, .rUnlock,
   .pendAdd 0, .lockInst 0, .newMsg 0 1, .write 0 101]

theorem C11_finding_stale_counter :
    (run? (init 100 1) staleTrace).map (fun s => s.wire.map (fun c => (c.opn, c.tok, c.seq))) =
      some [(false, 1, 101), (true, 0, 101)] ∧
    (run? (init 100 1) staleTrace).map (fun s => decide (Consecutive s.base s.wire)) = some false := by
  decide

/-- FINDING C11.failed-renewal-burns-number.  A renewal whose OPN request is not
    answered leaves the old token active with its old counter, although the OPN
    request already used the next number. -/
def failedTrace : List Label :=
  [.spawn, .rLock, .rWaitBegin, .rWaitDone, .rLockOld, .rCopy, .rSendOPN 101, .rFail, .rUnlockOld, .rUnlock,
   .gate 0, .getActive 0, .pendAdd 0, .lockInst 0, .newMsg 0 1, .write 0 101]

theorem C11_finding_failed_renewal :
    (run? (init 100 1) failedTrace).map (fun s => s.wire.map (fun c => (c.opn, c.tok, c.seq))) =
      some [(false, 1, 101), (true, 0, 101)] := by
  decide

/-- FINDING C11.aborted-send-burns-number (narrowed by a repair: a context that is
    already done is now detected before `newRequestMessage`, label `unlockInst`
    straight after `lockInst`).  `newRequestMessage` still draws the number before
    the message is encoded, signed and written: a request that fails after that
    point (context ends in between, encode / sign / write error — label `abort`)
    has consumed a number and writes nothing; the next chunk skips one. -/
def abortTrace : List Label :=
  [.spawn, .spawn, .gate 0, .getActive 0, .pendAdd 0, .lockInst 0, .newMsg 0 1, .abort 0, .unlockInst 0, .pendDone 0,
   .gate 1, .getActive 1, .pendAdd 1, .lockInst 1, .newMsg 1 1, .write 1 102]

theorem C11_finding_aborted_send :
    (run? (init 100 1) abortTrace).map (fun s => s.wire.map (fun c => c.seq)) = some [102] ∧
    next 100 = 101 := by
  decide

/-- repaired part: a request whose context is already done draws no number —
    the thread unlocks straight after locking and the wire stays consecutive -/
theorem C11_cancelled_before_numbering_is_harmless :
    (run? (init 100 1)
      [.spawn, .spawn, .gate 0, .getActive 0, .pendAdd 0, .lockInst 0, .unlockInst 0, .pendDone 0,
       .gate 1, .getActive 1, .pendAdd 1, .lockInst 1, .newMsg 1 1, .write 1 101]).map
      (fun s => (s.wire.map (fun c => c.seq), decide (Consecutive s.base s.wire))) = some ([101], true) := by
  decide

/-- hence the property does not hold at full strength -/
theorem C11_not_full : ¬ ∀ s, Reachable s → Consecutive s.base s.wire := by
  intro h
  have hr : ∃ s, run? (init 100 1) staleTrace = some s := by
    cases hrun : run? (init 100 1) staleTrace with
    | none => exact absurd hrun (by decide)
    | some s => exact ⟨s, rfl⟩
  obtain ⟨s, hs⟩ := hr
  have := h s (reachable_run staleTrace (Reachable.init 100 1) hs)
  have hd : (run? (init 100 1) staleTrace).map (fun s => decide (Consecutive s.base s.wire)) = some false :=
    C11_finding_stale_counter.2
  rw [hs] at hd
  simp at hd
  exact hd this

/-- the guard is what separates the two: the stale trace leaves it exactly at
    `rLock` (thread 0 sits between the gate and `pendingReq.Add`) -/
theorem C11_guard_excludes_stale :
    (run? (init 100 1) (staleTrace.take 3)).map (fun s => decide (Guard s .rLock)) = some false := by
  decide

/-! ### several renewers and `Close()` on the gate (`Model/SendGate.lean`)

The sender / renewal LTS above has one renewer; its invariant `gate` ("the gate
is closed exactly while the renewer is busy") is what the gate LTS examines for
any number of renewers (`Renew()` called during a scheduled renewal) and
`Close()`. -/

/-- PARTIAL (guard: one renewal at a time, no `Close()` during a renewal): the gate
    is closed exactly while a renewal is in progress and no request passes it meanwhile -/
theorem C11_gate_partial {s : SendGate.St} (h : SendGate.ReachableG s) :
    (s.holders ≠ [] ↔ s.locked = true) ∧ s.badPass = 0 :=
  ⟨(SendGate.guarded_inv h).2.1, (SendGate.guarded_inv h).2.2⟩

/-- FINDING C11.overlapping-renewals: `conditionLocker.lock()` does not block, so a
    second `renew` (public `Renew()` during the scheduled renewal) proceeds, and the
    first one's `unlock()` opens the gate while the second renewal is in progress:
    requests pass, and the second renewal — which waited for the old instance's
    mutex — renews the superseded token from its stale counter -/
theorem C11_finding_overlapping_renewals :
    (SendGate.run? SendGate.init [.rLock 0, .rLock 1, .rUnlock 0, .pass 7]).map
      (fun s => (s.locked, s.holders, s.badPass)) = some (false, [1], 1) := by decide

/-- `Close()` during a renewal opens the gate as well (model level) -/
theorem C11_gate_close_counterexample :
    (SendGate.run? SendGate.init [.rLock 0, .close, .pass 7]).map
      (fun s => (s.locked, s.holders, s.badPass)) = some (false, [0], 1) := by decide

/-- non-vacuity of the partial theorem: two senders with a three-chunk and a
    one-chunk message around a complete renewal, inside the guard -/
example :
    (run? (init 4294966270 1)
      [.spawn, .spawn, .gate 0, .getActive 0, .pendAdd 0, .lockInst 0, .newMsg 0 3, .write 0 4294966271,
       .rLock, .rWaitBegin, .write 0 4294966272, .write 0 1, .unlockInst 0, .pendDone 0,
       .rWaitDone, .rLockOld, .rCopy, .rSendOPN 2, .rInstall 2, .rUnlockOld, .rUnlock,
       .gate 1, .getActive 1, .pendAdd 1, .lockInst 1, .newMsg 1 1, .write 1 3, .unlockInst 1, .pendDone 1]).map
      (fun s => (s.wire.map (fun c => (c.tok, c.seq)), decide (Linked s.base s.wire)))
    = some ([(2, 3), (0, 2), (1, 1), (1, 4294966272), (1, 4294966271)], true) := by decide

end Opcua.Props.C11
