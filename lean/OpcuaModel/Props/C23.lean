import OpcuaModel.Model.CfgAliasFacts
/-
  C23 — client options affect only the client they are applied to.

  `Model/CfgAlias.lean` is the heap model; `Gen/ConfigFacts.lean` carries, from
  the current source: the alias facts (`shared`: which objects of the default
  configuration are package-level objects), the write footprint of every
  `Option` constructor of config.go (`options`) and the pristine defaults.

  `Isolated F prog`: after any sequence of client constructions, every client
  reads at every configuration path what it would read had it been the only
  client ever built.  Since the repair of `DefaultDialer()` (it copies
  `*uacp.DefaultClientACK` instead of storing the pointer; finding
  C23.shared-default-client-ack, fixed) the regenerated alias facts are empty
  and the property is proved at FULL strength: `C23_isolation`, for every
  program, no guard.  The general theorems (any alias facts, dynamic and static
  guard) are kept: they say what must hold should a shared default reappear,
  and `C23_model_detects_sharing` shows that the model is not blind to one.
-/
namespace Opcua.Props.C23
open Opcua Opcua.CfgAlias

/-- ISOLATION under the dynamic guard, for any alias facts and every program
    (any number of clients, any options, any values, caller-supplied objects) -/
theorem C23_isolation_partial (F : Facts) (prog : List (List Step)) (hg : NoGlobalWrite F prog) :
    Isolated F prog :=
  isolated_of_noGlobalWrite F prog hg

/-- if the default constructors share nothing, every program in which no option installs an
    object belonging to an Option value is isolated -/
theorem C23_isolation_if_defaults_private (F : Facts) (hF : F.shared = []) (prog : List (List Step))
    (hv : ∀ steps ∈ prog, valueFree steps = true) :
    Isolated F prog :=
  isolated_of_noGlobalWrite F prog (noGlobalWrite_of_no_shared F hF prog hv)

theorem lookup_mem_str {k : String} {v : List (Path × Bool)} : ∀ {l : Footprints}, l.lookup k = some v → (k, v) ∈ l
  | [], h => by simp at h
  | (a, b) :: r, h => by
    rw [List.lookup_cons] at h
    cases hk : (k == a) with
    | true =>
      rw [hk] at h
      have : k = a := by simpa using hk
      cases h; subst this; exact List.mem_cons_self
    | false =>
      rw [hk] at h
      exact List.mem_cons_of_mem _ (lookup_mem_str h)

theorem redirOf_valueFree : ∀ (s : List Step) (r : Redir), valueFree s = true → RedirValueFree r →
    RedirValueFree (redirOf r s)
  | [], _, _, hr => hr
  | .write _ _ :: rest, r, hs, hr => by
    simp only [valueFree] at hs
    exact redirOf_valueFree rest r hs hr
  | .redirect p t :: rest, r, hs, hr => by
    simp only [valueFree, Bool.and_eq_true, Bool.not_eq_true'] at hs
    apply redirOf_valueFree rest _ hs.2
    intro e he
    rcases List.mem_cons.mp he with rfl | he
    · exact hs.1
    · exact hr e he

theorem uses_no_global (F : Facts) (opts : Footprints) (k : Nat) : ∀ (uses : List OptUse),
    (∀ u ∈ uses, Conforms opts u ∧ u.name ∉ sharedWriters F opts ∧ u.name ∉ sharedReplacers F opts ∧
      valueFree u.steps = true) →
    ∀ (r : Redir), RedirValueFree r → ∀ c ∈ cellsWritten F k r (flatten uses), isGlob c.1 = false
  | [], _, r, _, c, h => by simp [flatten, cellsWritten] at h
  | u :: rest, hall, r, hr, c, h => by
    have hu := hall u List.mem_cons_self
    have hflat : flatten (u :: rest) = u.steps ++ flatten rest := by simp [flatten]
    rw [hflat, cellsWritten_append, List.mem_append] at h
    rcases h with h | h
    · apply use_no_global F opts k u hu.1 _ hu.2.2.2 r hr c h
      intro fp hfp
      have hm := lookup_mem_str hfp
      constructor
      · cases hw : writesShared F fp with
        | false => rfl
        | true =>
          exfalso; apply hu.2.1
          simp only [sharedWriters, List.mem_map, List.mem_filter]
          exact ⟨(u.name, fp), ⟨hm, hw⟩, rfl⟩
      · cases hw : replacesShared F fp with
        | false => rfl
        | true =>
          exfalso; apply hu.2.2.1
          simp only [sharedReplacers, List.mem_map, List.mem_filter]
          exact ⟨(u.name, fp), ⟨hm, hw⟩, rfl⟩
    · exact uses_no_global F opts k rest (fun x hx => hall x (List.mem_cons_of_mem _ hx)) _
        (redirOf_valueFree u.steps r hu.2.2.2 hr) c h

/-- ISOLATION under the static guard: any program written with options whose
    generated footprint neither lies inside nor replaces a shared object is
    isolated (uses must stay inside the generated footprints) -/
theorem C23_isolation_by_option_names_partial (F : Facts) (opts : Footprints) (prog : List (List OptUse))
    (h : ∀ uses ∈ prog, ∀ u ∈ uses,
      Conforms opts u ∧ u.name ∉ sharedWriters F opts ∧ u.name ∉ sharedReplacers F opts ∧
      valueFree u.steps = true) :
    Isolated F (prog.map flatten) := by
  apply isolated_of_noGlobalWrite
  intro k steps hk c hc
  rw [List.getElem?_map] at hk
  cases hu : prog[k]? with
  | none => rw [hu] at hk; cases hk
  | some uses =>
    rw [hu] at hk
    simp only [Option.map_some, Option.some.injEq] at hk
    subst hk
    exact uses_no_global F opts k uses (h uses (List.mem_of_getElem? hu)) [] (by intro e he; simp at he) c hc

/-- the alias facts of the current source: the default constructors share
    NOTHING between clients (evaluation of newConfig() twice + go/ast), so no
    option's footprint can lie inside or replace a shared object; all 35 options
    of config.go are enumerated -/
theorem C23_defaults_private :
    Gen.Config.shared = [] ∧
    sharedWriters facts Gen.Config.options = [] ∧
    sharedReplacers facts Gen.Config.options = [] ∧
    Gen.Config.options.length = 35 := by
  decide +kernel

/-- no option constructor of config.go allocates outside the closure it returns: every
    application of an Option value installs objects of its own (go/ast over all 35 constructors) -/
theorem C23_no_option_captures_an_allocation : Gen.Config.captured = [] := by decide

/-- ISOLATION for the current source, at the level of steps: every program in which no step
    installs an object of an Option value — any number of clients, any assignments in any order
    with any values, caller-supplied objects — leaves every client reading, at every
    configuration path, exactly what its own options give on pristine defaults -/
theorem C23_isolation (prog : List (List Step)) (hv : ∀ steps ∈ prog, valueFree steps = true) :
    Isolated facts prog :=
  isolated_of_noGlobalWrite facts prog (noGlobalWrite_of_no_shared facts C23_defaults_private.1 prog hv)

/-- ISOLATION, full strength, at the level of Option VALUES: every program of applications —
    any Option value may be applied to any number of clients (a slice of base options), any
    client may get further applications — is isolated: what an application installs is decided
    by the generated allocation facts, and they say "its own objects", for all 35 options -/
theorem C23_isolation_option_values (prog : List (List App))
    (hraw : ∀ apps ∈ prog, ∀ a ∈ apps, valueFree a.steps = true) :
    Isolated facts (prog.map fun apps => apps.flatMap (realise Gen.Config.captured)) := by
  apply C23_isolation
  intro steps hs
  obtain ⟨apps, happs, rfl⟩ := List.mem_map.mp hs
  have key : ∀ (l : List App), (∀ a ∈ l, valueFree a.steps = true) →
      valueFree (l.flatMap (realise Gen.Config.captured)) = true := by
    intro l
    induction l with
    | nil => intro _; rfl
    | cons a rest ih =>
      intro h
      simp only [List.flatMap_cons, valueFree_append, Bool.and_eq_true]
      refine ⟨?_, ih (fun x hx => h x (List.mem_cons_of_mem _ hx))⟩
      rw [C23_no_option_captures_an_allocation, realise_nil]
      exact h a List.mem_cons_self
  exact key apps (hraw apps happs)

/-- the model is not blind to it: were `AuthUsername` to build its token when the Option value
    is made (facts `[("AuthUsername", [session.UserIdentityToken])]`), one value applied to two
    clients followed by `AuthPolicyID` on the second changes what the first reads -/
theorem C23_model_detects_captured_allocation :
    let capt : List (String × List Path) := [("AuthUsername", [["session", "UserIdentityToken"]])]
    let tok : Path := ["session", "UserIdentityToken"]
    let pid : Path := ["session", "UserIdentityToken", "PolicyID"]
    let base : App := ⟨"AuthUsername", 7, [.redirect tok .fresh, .write pid ""]⟩
    let prog : List (List App) := [[base], [base, ⟨"AuthPolicyID", 8, [.write pid "p2"]⟩]]
    let steps := prog.map fun apps => apps.flatMap (realise capt)
    effective facts pristine (runClients facts 0 emptyHeap steps) 0 (steps.getD 0 []) pid = "p2" ∧
    effective facts pristine (runSteps facts 0 emptyHeap [] (steps.getD 0 [])).1 0 (steps.getD 0 []) pid = "" := by
  decide +kernel

theorem resolve_redirected (F : Facts) (k : Nat) (r : Redir) (p : Path) (hr : RedirValueFree r)
    (h : ∃ e ∈ r, strictPrefix e.1 p = true) : isGlob (resolve F k r p).1 = false := by
  unfold resolve
  split
  · rfl
  · rfl
  · rename_i q w hq
    have := hr _ (List.mem_of_find?_eq_some hq)
    simp [isValueTarget] at this
  · rename_i hnone
    obtain ⟨e, he, hp⟩ := h
    have := List.find?_eq_none.mp hnone e he
    simp [hp] at this

/-- `Dialer(d)` with an object of the caller's own: everything assigned below
    `cfg.dialer` afterwards lands in the caller's object, never in the package default -/
theorem C23_dialer_option_is_private (F : Facts) (k u : Nat) (ws : List Step)
    (hws : ∀ w ∈ ws, strictPrefix ["dialer"] (stepPath w) = true) (hvf : valueFree ws = true) :
    ∀ c ∈ cellsWritten F k [] (.redirect ["dialer"] (.user u) :: ws), isGlob c.1 = false := by
  have key : ∀ (s : List Step) (r : Redir), (∀ w ∈ s, strictPrefix ["dialer"] (stepPath w) = true) →
      valueFree s = true → RedirValueFree r →
      (["dialer"], Target.user u) ∈ r → ∀ c ∈ cellsWritten F k r s, isGlob c.1 = false := by
    intro s
    induction s with
    | nil => intro r _ _ _ _ c h; simp [cellsWritten] at h
    | cons st rest ih =>
      intro r hall hs hrv hr c h
      cases st with
      | redirect p t =>
        simp only [valueFree, Bool.and_eq_true, Bool.not_eq_true'] at hs
        simp only [cellsWritten] at h
        refine ih _ (fun x hx => hall x (List.mem_cons_of_mem _ hx)) hs.2 ?_ (List.mem_cons_of_mem _ hr) c h
        intro e he
        rcases List.mem_cons.mp he with rfl | he
        · exact hs.1
        · exact hrv e he
      | write p v =>
        simp only [valueFree] at hs
        simp only [cellsWritten, List.mem_cons] at h
        rcases h with rfl | h
        · exact resolve_redirected F k r p hrv
            ⟨_, hr, by simpa [stepPath] using hall (.write p v) List.mem_cons_self⟩
        · exact ih r (fun x hx => hall x (List.mem_cons_of_mem _ hx)) hs hrv hr c h
  intro c hc
  simp only [cellsWritten] at hc
  refine key ws _ hws hvf ?_ List.mem_cons_self c hc
  intro e he
  simp only [List.mem_singleton] at he
  subst he
  rfl

/-! ### the former finding (C23.shared-default-client-ack, fixed) as a regression -/

def pMaxMessageSize : Path := ["dialer", "ClientACK", "MaxMessageSize"]
def pReceiveBufSize : Path := ["dialer", "ClientACK", "ReceiveBufSize"]

/-- `NewClient(url, MaxMessageSize(1234), ReceiveBufferSize(9999))`, then `NewClient(url)` -/
def witness₁ : List (List Step) := [[.write pMaxMessageSize "1234", .write pReceiveBufSize "9999"], []]

/-- `NewClient(url)`, then `NewClient(url, MaxMessageSize(7))` -/
def witness₂ : List (List Step) := [[], [.write pMaxMessageSize "7"]]

/-- the witnesses of the repaired defect: the later client now reads the pristine
    defaults, the existing client keeps its configuration, the configured client its own values -/
theorem C23_former_witnesses_isolated :
    effective facts pristine (runClients facts 0 emptyHeap witness₁) 1 [] pMaxMessageSize = "0" ∧
    effective facts pristine (runClients facts 0 emptyHeap witness₁) 1 [] pReceiveBufSize = "65535" ∧
    effective facts pristine (runClients facts 0 emptyHeap witness₁) 0 (witness₁.getD 0 []) pMaxMessageSize = "1234" ∧
    effective facts pristine (runClients facts 0 emptyHeap witness₂) 0 [] pMaxMessageSize = "0" := by
  decide +kernel

/-- the facts as they were before the repair -/
def factsBeforeRepair : Facts := ⟨[(["dialer", "ClientACK"], "uacp.DefaultClientACK")]⟩

/-- the model is not blind: under the facts of the unrepaired source the same
    programs are NOT isolated (so `Isolated` is not vacuously true, and a shared
    default reappearing in the regenerated facts breaks `C23_defaults_private`) -/
theorem C23_model_detects_sharing :
    ¬ Isolated factsBeforeRepair witness₁ ∧ ¬ Isolated factsBeforeRepair witness₂ ∧
    ¬ NoGlobalWrite factsBeforeRepair witness₁ := by
  refine ⟨?_, ?_, ?_⟩
  · intro h
    have h1 := h (fun _ => "0") 1 [] (by decide) pMaxMessageSize
    revert h1; decide +kernel
  · intro h
    have h1 := h (fun _ => "0") 0 [] (by decide) pMaxMessageSize
    revert h1; decide +kernel
  · intro h
    have := h 0 _ rfl (resolve factsBeforeRepair 0 [] pMaxMessageSize) (by simp [cellsWritten])
    revert this
    decide +kernel

/-! ### non-vacuity: a program the partial theorem covers -/

example : NoGlobalWrite facts
    [[.write ["sechan", "RequestTimeout"] "5", .redirect ["dialer"] (.user 0),
      .write ["dialer", "ClientACK", "MaxMessageSize"] "1"], [.write ["session", "SessionName"] "x"]] := by
  intro k steps hk c hc
  match k, hk with
  | 0, hk => cases hk; revert c; decide +kernel
  | 1, hk => cases hk; revert c; decide +kernel
  | k + 2, hk => simp at hk

end Opcua.Props.C23
