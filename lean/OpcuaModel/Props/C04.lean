import OpcuaModel.Model.NodeIdLemmas
/-
  C04 — NodeID textual form round-trips and equality matches identity.

  `toString` / `parseNodeID` / `parseExpanded` / `equal` model
  `(*ua.NodeID).String`, `ua.ParseNodeID`, `ua.ParseExpandedNodeID`,
  `(*ua.NodeID).Equal` statement by statement (Model/NodeIdParse.lean); the
  decimal, GUID and base64 codecs are modelled and their round trips PROVED
  (Model/NodeIdText.lean) — nothing about them is assumed.  `WF` = the NodeIDs
  the library can build (all six encodings, every namespace index, every
  identifier: any bytes for String and ByteString ids, any 16 bytes for GUIDs,
  any flag bits).  `SameNode` = same namespace and same identifier, numeric
  encodings identified, flag bits ignored.

  Since the repair of the parser (a text starting with "s=" is no longer cut
  at ';'; finding C04.string-ns0-semicolon, fixed) the round trip is proved at
  FULL strength: for every well-formed NodeID, no guard.  Since the repair of
  C04.nsu-uri-semicolon (the URI part of `nsu=` is unescaped: `%3B`, `%25`) every
  namespace URI of the table can be named (`C04_nsu_resolves`, no guard).
-/
namespace Opcua.Props.C04
open Opcua Opcua.NodeIdText

/-! ### the text codecs (proved, not assumed) -/

/-- `Atoi/ParseUint(Sprintf("%d", n)) = n`, the rendering is digits only -/
theorem C04_decimal_roundtrip (n : Nat) :
    digitsVal (dec n) = some n ∧ (∀ c ∈ dec n, isDigit c = true) ∧ 59 ∉ dec n :=
  ⟨digitsVal_dec n, dec_isDigit n, dec_no_semicolon n⟩

/-- `NewGUID(g.String()) = g` for every 16-byte GUID; the text has no ';' -/
theorem C04_guid_roundtrip (g : List Nat) (hl : g.length = 16) (hb : ∀ b ∈ g, b < 256) :
    newGUID (guidText g) = some g ∧ 59 ∉ guidText g :=
  ⟨newGUID_guidText g hl hb, guidText_no_semicolon g⟩

/-- `StdEncoding.DecodeString(EncodeToString(b)) = b` for every byte string; no ';' -/
theorem C04_base64_roundtrip (b : List Nat) (hb : ∀ x ∈ b, x < 256) :
    b64dec (b64enc b) = some b ∧ 59 ∉ b64enc b :=
  ⟨b64dec_b64enc b hb, b64enc_no_semicolon b⟩

/-! ### round trip -/

theorem parseNodeID_of {s : Text} {m : NodeID} (h : parseExpanded s none = some ⟨m, [], 0⟩) (hm : m.mask < 64) :
    parseNodeID s = some m := by
  have h1 : m.mask / 128 = 0 := by omega
  have h2 : m.mask / 64 = 0 := by omega
  simp [parseNodeID, h, hasURIFlag, hasIndexFlag, h1, h2]

/-- what the parser returns is the same node, and again a well-formed one -/
theorem C04_canon_same (n : NodeID) (h : WF n) : SameNode (canon n) n ∧ WF (canon n) := by
  rcases h with ⟨t, z, hv⟩ | ⟨t, hn, hv⟩ | ⟨t, hn, hv⟩ | ⟨t, hn⟩ | ⟨t, hn, g, hg, gl, gb⟩ | ⟨t, hn, ob⟩ <;>
    have t' : n.mask % 16 = _ := t <;> simp only [canon, t]
  · simp [z, hv, SameNode, ident, newTwoByte, NodeID.typ, WF, t']
  · split
    · rename_i c; simp [SameNode, ident, newTwoByte, NodeID.typ, WF, t', c.1, c.2]
    · split
      · rename_i c; simp [SameNode, ident, newFourByte, NodeID.typ, WF, t', c.1]; omega
      · simp [SameNode, ident, newNumeric, NodeID.typ, WF, t']; omega
  · split
    · rename_i c; simp [SameNode, ident, newTwoByte, NodeID.typ, WF, t', c.1, c.2]
    · split
      · rename_i c; simp [SameNode, ident, newFourByte, NodeID.typ, WF, t', c.1]; omega
      · simp [SameNode, ident, newNumeric, NodeID.typ, WF, t']; omega
  · simp [SameNode, ident, newString, NodeID.typ, WF, hn, t']
  · simp [SameNode, ident, NodeID.typ, WF, hn, hg, gl, t']; exact gb
  · simp [SameNode, ident, newByteString, NodeID.typ, WF, hn, t']; exact ob

/-- ROUND TRIP (full strength): the string form of every well-formed NodeID
    parses, and parses to `canon n` — the same node in the smallest numeric
    encoding with the flag bits cleared -/
theorem C04_parse_toString (n : NodeID) (h : WF n) :
    ∃ t, toString n = some t ∧ parseNodeID t = some (canon n) := by
  refine ⟨_, toString_eq n h, ?_⟩
  have hl := (letterOf_ne n).2
  have hl' := (letterOf_ne n).1
  rcases h with ⟨t, z, hv⟩ | ⟨t, hn, hv⟩ | ⟨t, hn, hv⟩ | ⟨t, hn⟩ | ⟨t, hn, g, hg, gl, gb⟩ | ⟨t, hn, ob⟩
  · apply parseNodeID_of
    · rw [parseExpanded_withNs _ _ _ (by omega) hl hl' (fun _ _ => by simp only [bodyOf, t]; exact dec_no_semicolon _)]
      simp only [letterOf, bodyOf, t]
      rw [parseIdent_num _ _ (by omega)]
      simp [canon, t, z, hv]
    · simp [canon, t, z, hv, newTwoByte]
  · apply parseNodeID_of
    · rw [parseExpanded_withNs _ _ _ (by omega) hl hl' (fun _ _ => by simp only [bodyOf, t]; exact dec_no_semicolon _)]
      simp only [letterOf, bodyOf, t]
      rw [parseIdent_num _ _ (by omega)]
      simp [canon, t]
    · simp only [canon, t]
      split
      · simp [newTwoByte]
      · split <;> simp [newFourByte, newNumeric]
  · apply parseNodeID_of
    · rw [parseExpanded_withNs _ _ _ (by omega) hl hl' (fun _ _ => by simp only [bodyOf, t]; exact dec_no_semicolon _)]
      simp only [letterOf, bodyOf, t]
      rw [parseIdent_num _ _ (by omega)]
      simp [canon, t]
    · simp only [canon, t]
      split
      · simp [newTwoByte]
      · split <;> simp [newFourByte, newNumeric]
  · apply parseNodeID_of
    · rw [parseExpanded_withNs _ _ _ (by omega) hl hl'
        (fun _ hne => absurd (by simp [letterOf, t]) hne)]
      simp only [letterOf, bodyOf, stringID, t]
      rw [parseIdent_str]
      simp [canon, t]
    · simp [canon, t, newString]
  · apply parseNodeID_of
    · rw [parseExpanded_withNs _ _ _ (by omega) hl hl'
        (fun _ _ => by simp only [bodyOf, stringID, t, hg]; exact guidText_no_semicolon _)]
      simp only [letterOf, bodyOf, stringID, t, hg]
      rw [parseIdent_guid _ _ gl gb]
      simp [canon, t, hg]
    · simp [canon, t]
  · apply parseNodeID_of
    · rw [parseExpanded_withNs _ _ _ (by omega) hl hl'
        (fun _ _ => by simp only [bodyOf, stringID, t]; exact b64enc_no_semicolon _)]
      simp only [letterOf, bodyOf, stringID, t]
      rw [parseIdent_opaque _ _ ob]
      simp [canon, t]
    · simp [canon, t, newByteString]

/-! ### equality -/

theorem SameNode.refl (a : NodeID) : SameNode a a := ⟨rfl, rfl⟩
theorem SameNode.symm {a b : NodeID} (h : SameNode a b) : SameNode b a := ⟨h.1.symm, h.2.symm⟩
theorem SameNode.trans {a b c : NodeID} (h : SameNode a b) (g : SameNode b c) : SameNode a c :=
  ⟨h.1.trans g.1, h.2.trans g.2⟩

/-- EQUALITY (full strength): two well-formed NodeIDs have the same string
    form — i.e. `Equal` holds, and they share a key in the string-keyed type
    registries — exactly when they are the same node -/
theorem C04_equal_iff (a b : NodeID) (ha : WF a) (hb : WF b) :
    (toString a = toString b ↔ SameNode a b) ∧ (equal a b = true ↔ SameNode a b) := by
  have key : toString a = toString b ↔ SameNode a b := by
    rw [toString_eq a ha, toString_eq b hb]
    constructor
    · intro h
      obtain ⟨h1, h2, h3⟩ := withNs_injective (letterOf_ne a).1 (letterOf_ne b).1 (Option.some.inj h)
      exact ⟨h1, (ident_eq_iff a b ha hb).mpr ⟨h2, h3⟩⟩
    · rintro ⟨h1, h2⟩
      obtain ⟨h3, h4⟩ := (ident_eq_iff a b ha hb).mp h2
      rw [h1, h3, h4]
  refine ⟨key, ?_⟩
  rw [← key]
  simp [equal]

/-- THE REGISTRIES (typereg.go key their maps by the string form): a type registered under `a` is
    found under `b` exactly when `a` and `b` are the same node — whatever numeric encoding or flag
    bits either carries, and never across namespaces -/
theorem C04_registry_hit_iff (a b : NodeID) (ha : WF a) (hb : WF b) (ty : Nat) :
    regLookup [(toString a, ty)] b = some ty ↔ SameNode a b := by
  rw [← (C04_equal_iff a b ha hb).1]
  simp only [regLookup, List.find?_cons, List.find?_nil]
  by_cases h : toString a = toString b
  · simp [h]
  · have : (toString a == toString b) = false := by simpa using h
    simp [this, h]

/-- the parsed NodeID is `Equal` to the original (the property as stated, full strength) -/
theorem C04_roundtrip_equal (n : NodeID) (h : WF n) :
    ∃ t n', toString n = some t ∧ parseNodeID t = some n' ∧ WF n' ∧ SameNode n' n ∧ equal n' n = true := by
  obtain ⟨t, h1, h2⟩ := C04_parse_toString n h
  obtain ⟨h3, h4⟩ := C04_canon_same n h
  exact ⟨t, canon n, h1, h2, h4, h3, ((C04_equal_iff (canon n) n h4 h).2).mpr h3⟩

/-- CANONICAL FORM: the parser's result is a unique normal form — two well-formed
    NodeIDs are the same node exactly when their text forms parse to the
    identical value (same encoding byte, same fields), and parsing the text of
    an already parsed id changes nothing -/
theorem C04_canon_unique (a b : NodeID) (ha : WF a) (hb : WF b) :
    (SameNode a b ↔ canon a = canon b) ∧ canon (canon a) = canon a := by
  have key : ∀ x y : NodeID, WF x → WF y → SameNode x y → canon x = canon y := by
    intro x y hx hy hs
    obtain ⟨t, h1, h2⟩ := C04_parse_toString x hx
    obtain ⟨u, h3, h4⟩ := C04_parse_toString y hy
    have : toString x = toString y := ((C04_equal_iff x y hx hy).1).mpr hs
    rw [h1, h3] at this
    cases this
    rw [h2] at h4
    exact Option.some.inj h4
  refine ⟨⟨key a b ha hb, ?_⟩, ?_⟩
  · intro h
    have h1 := (C04_canon_same a ha).1
    have h2 := (C04_canon_same b hb).1
    rw [h] at h1
    exact SameNode.trans (SameNode.symm h1) h2
  · obtain ⟨h1, h2⟩ := C04_canon_same a ha
    exact key (canon a) a h2 ha h1

/-! ### the former finding (C04.string-ns0-semicolon, fixed) as a regression -/

/-- `NewStringNodeID(0, "a;b").String()` = `s=a;b` now parses to the String id
    "a;b" of namespace 0; so do the look-alikes `s=ns=1;i=5` and `s=nsu=x;` -/
theorem C04_former_witness_roundtrips :
    toString (newString 0 [97, 59, 98]) = some [115, 61, 97, 59, 98] ∧
    parseNodeID [115, 61, 97, 59, 98] = some (newString 0 [97, 59, 98]) ∧
    parseNodeID [115, 61, 110, 115, 61, 49, 59, 105, 61, 53] = some (newString 0 [110, 115, 61, 49, 59, 105, 61, 53]) ∧
    parseNodeID [115, 61, 110, 115, 117, 61, 120, 59] = some (newString 0 [110, 115, 117, 61, 120, 59]) := by
  decide

/-- what stays an error: a text with a ';' whose first part is neither an `ns=`/`nsu=` part
    nor begins with the string prefix (`abc=0;i=2`, `i=1;x`, `foo;bar`) -/
theorem C04_malformed_namespace_rejected :
    parseNodeID [97, 98, 99, 61, 48, 59, 105, 61, 50] = none ∧
    parseNodeID [105, 61, 49, 59, 120] = none ∧
    parseNodeID [102, 111, 111, 59, 98, 97, 114] = none := by
  decide

/-- the empty text is the null NodeID `i=0` -/
theorem C04_parse_empty : parseNodeID [] = some (newTwoByte 0) := by decide

/-! ### namespace URIs (`nsu=`) against a namespace table -/

/-- the escape of the reserved characters is undone by the parser and leaves no ';' in the text -/
theorem C04_nsu_escape_roundtrip (u : Text) : unescNsu (escNsu u) = u ∧ 59 ∉ escNsu u :=
  ⟨unescNsu_escNsu u, escNsu_no_semicolon u⟩

/-- NAMESPACE URIs, full strength (since the repair of C04.nsu-uri-semicolon): EVERY URI the
    table contains — any bytes, ';' and '%' included — is named by its escaped text form:
    `nsu=<esc u>;<id>` gives the same namespace index and identifier as `ns=<index of u>;<id>`,
    for every identifier text (also when both fail) -/
theorem C04_nsu_resolves (tbl : List Text) (u rest : Text) (k : Nat)
    (hk : tbl.findIdx? (· == u) = some k) (hk' : k ≤ 65535) :
    (parseExpanded ([110, 115, 117, 61] ++ escNsu u ++ 59 :: rest) (some tbl)).map nodeKey =
    (parseExpanded ([110, 115, 61] ++ dec k ++ 59 :: rest) (some tbl)).map nodeKey := by
  rw [parseExpanded_nsu (escNsu u) rest tbl (escNsu_no_semicolon u), unescNsu_escNsu, hk, parseExpanded_nsIdx k hk']
  simp only [Nat.mod_eq_of_lt (show k < 65536 by omega)]
  exact parseIdent_nsu_key k u rest

/-- … and a URI the table does not contain is refused -/
theorem C04_nsu_unknown (tbl : List Text) (u rest : Text) (hk : tbl.findIdx? (· == u) = none) :
    parseExpanded ([110, 115, 117, 61] ++ escNsu u ++ 59 :: rest) (some tbl) = none := by
  rw [parseExpanded_nsu (escNsu u) rest tbl (escNsu_no_semicolon u), unescNsu_escNsu, hk]

/-- texts without escape sequences are read as before the repair: a URI without '%' names itself -/
theorem C04_nsu_plain_unchanged (u : Text) (h : 37 ∉ u) : unescNsu u = u := by
  induction u with
  | nil => rfl
  | cons c r ih =>
    have hc : c ≠ 37 := fun e => h (by simp [e])
    have hr : 37 ∉ r := fun e => h (List.mem_cons_of_mem _ e)
    simp [unescNsu, hc, ih hr]

def txt (s : String) : Text := s.toUTF8.toList.map (·.toNat)

/-- the former finding C04.nsu-uri-semicolon as a regression: with the table
    ["urn:a", "urn:a;b"] the URI "urn:a;b" is named by `nsu=urn:a%3Bb;i=1` (and `%3b`), "a%b" by
    `a%25b`, `%253B` is the literal text "%3B"; the raw text `nsu=urn:a;b;i=1` keeps its
    grammatical reading (URI "urn:a", bare String id "b;i=1") -/
theorem C04_former_nsu_witness :
    (parseExpanded (txt "nsu=urn:a%3Bb;i=1") (some [txt "urn:a", txt "urn:a;b"])).map nodeKey = some (1, Ident.num 1) ∧
    (parseExpanded (txt "nsu=urn:a%3bb;i=1") (some [txt "urn:a", txt "urn:a;b"])).map nodeKey = some (1, Ident.num 1) ∧
    (parseExpanded (txt "nsu=a%25b;i=1") (some [txt "x", txt "y", txt "a%b"])).map nodeKey = some (2, Ident.num 1) ∧
    (parseExpanded (txt "nsu=a%253Bb;i=1") (some [txt "a;b", txt "a%3Bb"])).map nodeKey = some (1, Ident.num 1) ∧
    (parseExpanded (txt "nsu=urn:a;b;i=1") (some [txt "urn:a", txt "urn:a;b"])).map nodeKey
      = some (0, Ident.str (txt "b;i=1")) := by
  decide +kernel

/-! ### non-vacuity -/

example : toString (newNumeric 2 300) = some (txt "ns=2;i=300") := by decide +kernel
example : parseNodeID (txt "ns=2;i=300") = some (newFourByte 2 300) := by decide +kernel
example : parseNodeID (txt "i=65535") = some (newNumeric 0 65535) := by decide +kernel
example : parseNodeID (txt "ns=5;s=a;b") = some (newString 5 (txt "a;b")) := by decide +kernel
example : toString (newByteString 0 [1, 2, 3]) = some (txt "b=AQID") := by decide +kernel
example : NodeIdText.toString (⟨4, 1, 0, [], some [0x11, 0x11, 0xAA, 0xAA, 0x22, 0xBB, 0x33, 0xCC, 0x44, 0xDD, 0x55, 0xEE, 0x77, 0xFF, 0x99, 0x00]⟩ : NodeID)
    = some (txt "ns=1;g=1111AAAA-22BB-33CC-44DD-55EE77FF9900") := by decide +kernel
example : equal (newFourByte 0 5) (newTwoByte 5) = true ∧ equal (newString 0 (txt "5")) (newTwoByte 5) = false := by
  decide +kernel

end Opcua.Props.C04
