import OpcuaModel.Model.CodecSafe
import OpcuaModel.Model.CodecMono
import OpcuaModel.Gen.Types
/-
  C02 — decoding arbitrary bytes is safe: no panic, no hang, bounded memory.

  The decoder model (Model/Codec.lean) makes every unsafe outcome of the Go
  decoder explicit: `panicNegLen` (`reflect.MakeSlice: negative len` in
  `Variant.Decode`), `panicSlice` / `panicIndex` / `diverge` (`split` run on a
  dimension list whose `int32` product wrapped), `depth` (nesting of coder calls
  beyond `fuel`, i.e. Go stack depth), `alloc` (more than `env.limit` slice
  elements requested from `reflect.MakeSlice` / `make` / `append`).

  Since the repairs of C02.variant-neg-len and C02.variant-dims-overflow the
  decoder never panics and never diverges (`C02_safe`, for every type and every
  byte string).  What remains false is the memory / depth part of the property:
  each remaining way in which it fails is a finding with a machine-checked
  witness below (pre-allocation from a length prefix, array amplification,
  unbounded nesting).
-/
namespace Opcua.Props.C02
open Opcua Opcua.Codec

/-- the decoder as the real code runs it (optionally with an allocation budget for the memory findings) -/
def env (limit : Option Nat := none) : Env := { limit := limit, exts := Gen.extObjTypes }

/-- the result is the failure `f` -/
def failIs {α : Type} (r : Res α) (f : Fail) : Bool :=
  match r with
  | .fail g => g == f
  | _ => false

def isPanicOrDiverge : Fail → Bool
  | .panicNegLen | .panicSlice | .panicIndex | .panicNilValue | .panicNilPtr | .diverge | .illTyped => true
  | _ => false

/-- **Safety of the decoder**, for every call-depth budget, allocation budget, type and input: the outcome is a
    value, an error, or an exceeded budget — never a panic, never non-termination. -/
theorem C02_safe (limit : Option Nat) (fuel : Nat) (t : Ty) (b : Bytes) (a : Nat) :
    match decode (env limit) fuel t ⟨b, a⟩ with
    | .ok _ _ => True
    | .fail f => isPanicOrDiverge f = false := by
  have := decode_safe (env limit) fuel t ⟨b, a⟩
  cases h : decode (env limit) fuel t ⟨b, a⟩ with
  | ok v s => trivial
  | fail f =>
    rw [h] at this
    rcases this with rfl | rfl | rfl <;> rfl

/-- **The depth budget is monotone.**  Whatever the decoder returns within call depth `fuel` (a value, an error, an
    exceeded allocation budget) it returns with every larger depth: only the outcome `depth` depends on the budget,
    so "the result of decoding" is well defined as the result at any sufficient depth. -/
theorem C02_depth_monotone (limit : Option Nat) (fuel k : Nat) (t : Ty) (b : Bytes) (a : Nat)
    (h : decode (env limit) fuel t ⟨b, a⟩ ≠ .fail .depth) :
    decode (env limit) (fuel + k) t ⟨b, a⟩ = decode (env limit) fuel t ⟨b, a⟩ :=
  decode_mono (env limit) fuel k t ⟨b, a⟩ h

/-- the decoder model is a total function and the budgets are the only non-structural exits: without a
    call-depth problem the result does not depend on which larger budget is given — stated for the entry
    point: zero fuel is the only way to get `depth` at the top -/
theorem C02_depth_zero (limit : Option Nat) (t : Ty) (b : Bytes) : decode (env limit) 0 t ⟨b, 0⟩ = .fail .depth := rfl

/-! ### repaired defects and remaining findings (each witness is replayed on the real code by the runner) -/

/-- repaired (was finding C02.variant-neg-len): `Variant.Decode([86 fe ff ff ff])`, array length −2, is an error;
    it used to reach `reflect.MakeSlice` and panic -/
theorem C02_fixed_variant_neg_len :
    decode (env) 2 .variant ⟨[0x86, 0xfe, 0xff, 0xff, 0xff], 0⟩ = .fail .err := rfl

/-- every array length below −1 is an error, whatever the type id and whatever follows -/
theorem C02_fixed_variant_neg_len_general (mask n : Nat) (rest : Bytes) (fuel : Nat)
    (hm : mask < 256) (ht : 1 ≤ mask % 64 ∧ mask % 64 ≤ 25) (harr : has mask 0x80 = true)
    (hn : 2147483648 ≤ n ∧ n < 4294967295) :
    decode (env) (fuel + 1) .variant ⟨leBytes 1 mask ++ leBytes 4 n ++ rest, 0⟩ = .fail .err := by
  have r1 := reads_readUInt 1 mask (mask_lt hm) (leBytes 4 n ++ rest) 0
  have r2 := reads_readUInt 4 n (by have : (256:Nat)^4 = 4294967296 := by decide
                                    omega) rest 0
  have h0 : ¬ mask % 64 = 0 := by omega
  have h25 : ¬ mask % 64 > 25 := by omega
  have hti : toInt32 n = (n : Int) - 4294967296 := by
    unfold toInt32
    have : ¬ n < 2147483648 := by omega
    simp [this]
  have h1 : ¬ toInt32 n > maxVariantArrayLength := by rw [hti]; simp only [maxVariantArrayLength]; omega
  have h2 : toInt32 n < -1 := by rw [hti]; omega
  simp only [decode, decVariant, Dec.bind_apply, List.append_assoc, r1, h0, h25, harr, not_true_eq_false, if_false, r2,
    h1, h2, if_true, env]
  rfl

/-- repaired (was finding C02.variant-dims-overflow): dimensions [6700417, 641] (product 2^32 + 1) with array length 1
    are rejected; with the `int32` product the check passed and `split` looped forever with step 0 -/
theorem C02_fixed_variant_dims_overflow_hang :
    decode (env) 2 .variant ⟨[0xc6, 1,0,0,0, 7,0,0,0, 2,0,0,0, 0x81,0x3d,0x66,0x00, 0x81,0x02,0,0], 0⟩ = .fail .err := rfl

/-- repaired: dimensions [3, 1431655769] (product 2^32 + 11) with array length 11 are rejected; `split` used to slice
    [9:12] out of 11 elements and panic -/
theorem C02_fixed_variant_dims_overflow_panic :
    failIs (decode (env) 2 .variant ⟨[0xc3, 11,0,0,0, 1,2,3,4,5,6,7,8,9,10,11, 2,0,0,0, 3,0,0,0, 0x59,0x55,0x55,0x55], 0⟩) .err = true := by
  decide +kernel

/-- repaired: a null array (length −1) cannot have dimensions (their `int32` product could wrap to −1:
    3·5·17·257·65537 = 2^32 − 1) -/
theorem C02_fixed_variant_nil_array_dims :
    failIs (decode (env) 2 .variant ⟨[0xc6, 0xff,0xff,0xff,0xff, 5,0,0,0, 3,0,0,0, 5,0,0,0, 17,0,0,0, 1,1,0,0, 1,0,1,0], 0⟩) .err = true := by
  decide +kernel

/-- `ua.Decode([ff ff ff 7f], *[]*ReadValueID)`: `decodeSlice` asks `reflect.MakeSlice` for 2^31−1 elements before reading any -/
theorem C02_finding_slice_prealloc :
    decode (env (some 16777216)) 3 (.slice (.ptr Gen.T_ReadValueID)) ⟨[0xff, 0xff, 0xff, 0x7f], 0⟩ = .fail .alloc := rfl

/-- the request is the attacker-chosen prefix, whatever (even nothing) follows: for every element type, every
    length prefix up to 2^31−1 above the budget exceeds it with 4 bytes of input -/
theorem C02_finding_slice_prealloc_general (l n : Nat) (e : Ty) (rest : Bytes) (fuel : Nat)
    (hn : n ≤ 2147483647) (hl : l < n) :
    decode (env (some l)) (fuel + 1) (.slice e) ⟨leBytes 4 n ++ rest, 0⟩ = .fail .alloc := by
  have r := reads_readUInt 4 n (by have : (256:Nat)^4 = 4294967296 := by decide
                                   omega) rest 0
  have h1 : ¬ n = null32 := by unfold null32; omega
  have h2 : ¬ n > maxInt32 := by unfold maxInt32; omega
  simp only [decode, decSlice, Dec.bind_apply, r, h1, h2, if_false, requestAt, request, Env.forSite, env, List.contains_nil, Bool.false_eq_true]
  have : l < n := hl
  simp [this]

/-- repaired (was finding C02.variant-dims-prealloc): a dimensions length of 2^31−1 with nothing behind it is an error
    before anything is allocated (`make([]int32, 2^31−1)` used to come first) -/
theorem C02_fixed_variant_dims_prealloc :
    decode (env (some 0)) 2 .variant ⟨[0xc6, 0,0,0,0, 0xff,0xff,0xff,0x7f], 0⟩ = .fail .err := rfl

/-- the dimension list never asks for more than a quarter of the bytes that are left -/
theorem C02_dims_request_bounded (e : Env) (dl : Nat) (s s' : St) (r : Option (List Nat))
    (h : decDimList e dl s = .ok r s') : 4 * dl ≤ s.buf.length := by
  by_cases hc : dl > s.buf.length / 4
  · simp [decDimList, checkDimCount, hc] at h
  · omega

/-- Variant arrays: 65535 elements are requested per 5 bytes of input, and the requests nest
    (10 bytes → 131070 elements; a chain of k headers keeps k·65535 elements alive) -/
theorem C02_finding_variant_array_amplification :
    decode (env (some 131069)) 3 .variant ⟨[0x98, 0xff,0xff,0,0, 0x98, 0xff,0xff,0,0], 0⟩ = .fail .alloc ∧
    decode (env (some 131070)) 3 .variant ⟨[0x98, 0xff,0xff,0,0, 0x98, 0xff,0xff,0,0], 0⟩ = .fail .err := ⟨rfl, rfl⟩

/-- a Variant of `n` one-byte elements with the `k` dimensions [n, 1, …, 1] (exact product, so it passes every check) -/
def dimsDepthInput (n k : Nat) : Bytes :=
  [0xc3] ++ leBytes 4 n ++ List.replicate n 7 ++ leBytes 4 k ++ leBytes 4 n ++ (List.replicate (k - 1) (leBytes 4 1)).flatten

/-- `split` builds one row per element on every level: for dimensions [n, 1, …, 1] it requests about n·k rows
    (plus n elements and k dimensions) — quadratic in the input.  3 elements with 4 dimensions (28 bytes): 16 elements
    requested; 24 elements with 24 dimensions (129 bytes): more than 576.  On the real code 20 kB take 41 s and
    allocate 1.1 GB. -/
theorem C02_finding_variant_dims_depth :
    failIs (decode (env (some 15)) 2 .variant ⟨dimsDepthInput 3 4, 0⟩) .alloc = true ∧
    failIs (decode (env (some 16)) 2 .variant ⟨dimsDepthInput 3 4, 0⟩) .alloc = false ∧
    (dimsDepthInput 24 24).length = 129 ∧
    failIs (decode (env (some 576)) 2 .variant ⟨dimsDepthInput 24 24, 0⟩) .alloc = true := by
  decide +kernel

/-- nesting is not bounded: `n` bytes 0x18 (a Variant holding a Variant holding …) need call depth above `n`,
    for every `n` — megabytes of them overflow the Go stack (fatal, not recoverable) -/
theorem C02_finding_unbounded_nesting (limit : Option Nat) (n : Nat) (a : Nat) :
    decode (env limit) n .variant ⟨List.replicate n 0x18, a⟩ = .fail .depth := by
  induction n with
  | zero => rfl
  | succ n ih =>
    have r := reads_readUInt 1 24 (by decide) (List.replicate n 0x18) a
    have hb : leBytes 1 24 = [0x18] := rfl
    rw [hb] at r
    simp only [List.replicate_succ, decode, decVariant, Dec.bind_apply]
    simp only [List.singleton_append] at r
    rw [r]
    simp only [show (24 % 64 = 0) = False by decide, show (24 % 64 > 25) = False by decide, if_false,
      show has 24 0x80 = false by decide, Bool.false_eq_true, not_false_eq_true, if_true, decVarValue,
      show ¬ (24 % 64 = 15) by decide, vElemTy, Dec.bind_apply, ih]

/-! ### non-vacuity: valid input decodes -/

example : decode (env) 3 .variant ⟨[0xc6, 4,0,0,0, 1,0,0,0, 2,0,0,0, 3,0,0,0, 4,0,0,0, 2,0,0,0, 2,0,0,0, 2,0,0,0], 0⟩
    = .ok (.variant 0xc6 4 2 (some [2, 2]) ⟨6, 2⟩ (.slice false [.slice false [.int 1, .int 2], .slice false [.int 3, .int 4]])) ⟨[], 0⟩ := rfl

end Opcua.Props.C02
