import OpcuaModel.Model.Recv
import OpcuaModel.Model.RecvRaw
import OpcuaModel.Model.Gate
import OpcuaModel.Gen.RecvFacts
/-
  C13 — the channel receive path survives any peer byte stream.

  Model: `Raw.rawStep` — one frame through `Conn.Receive`, `readChunk` and the
  loop body of `Receive`, for any state (before / after open, client / server
  kind: `opening`, `chans`) and any configuration; crypto as an oracle carried
  by the frame (see Model/RecvRaw.lean).  The decoder (`ua.DecodeService`) is
  outside the model: what it does with hostile bytes is C02.

  * no panic: holds for every frame and state as soon as the receive buffer has
    at least 12 bytes — which, since `fix:` 30678c7, the handshake guarantees for
    every client connection whose own configuration is sane (`C13_nopanic_client`,
    with the handshake facts read from the source); a server connection uses its
    own configuration.  Below 12 bytes the path does panic
    (`C13_small_rcvbuf_*_direct`): reachable only through a `Conn` constructed
    directly with such a buffer size, no longer from a peer (the former findings
    C13.ack-small-rcvbuf / C13.ack-huge-rcvbuf are repaired).
  * progress: every frame produces exactly one outcome; only a panic or EOF
    ends the run.
  * memory: the number of retained chunks and payload bytes is bounded by
    `MaxChunkCount · entries` resp. `· rcvBuf` — PER ACTIVE REQUEST ID; the
    bound independent of the number of request ids is FALSE: `n` intermediate
    chunks with `n` different ids are all kept (`C13_finding_unbounded_ids`).
-/
namespace Opcua.Props.C13
open Opcua Opcua.Recv Opcua.Recv.Raw

theorem finish_not_panic (cfg : RawCfg) (st : RawSt) (ct : Nat) (d : Bytes) :
    (finish cfg st ct d).2.isPanic = false := by
  unfold finish; split <;> rfl

theorem verified_not_panic (cfg : RawCfg) (st : RawSt) (ct : Nat) (p : Bytes) :
    (verified cfg st ct p).2.isPanic = false := by
  unfold verified
  repeat' split
  all_goals first | rfl | exact finish_not_panic ..

/-- **No panic.**  With a receive buffer of at least 12 bytes (the protocol
    minimum is 8192) no frame — any bytes, any oracle verdict — in any state
    makes the receive path panic. -/
theorem C13_nopanic (cfg : RawCfg) (h : 12 ≤ cfg.rcvBuf) (st : RawSt) (f : Frame) :
    (rawStep cfg st f).2.isPanic = false := by
  have h8 : ¬ cfg.rcvBuf < 8 := by omega
  have h12 : ¬ (f.raw.length < 12 ∧ cfg.rcvBuf < 12) := by omega
  unfold rawStep
  simp only [if_neg h8, if_neg h12]
  repeat' split
  all_goals first | rfl | exact finish_not_panic .. | exact verified_not_panic ..

/-- … so a whole run never panics -/
theorem C13_nopanic_run (cfg : RawCfg) (h : 12 ≤ cfg.rcvBuf) (st : RawSt) (fs : List Frame) :
    ∀ o ∈ runRaw cfg st fs, o.isPanic = false := by
  induction fs generalizing st with
  | nil => intro o ho; cases ho
  | cons f t ih =>
    intro o ho
    have hp := C13_nopanic cfg h st f
    unfold runRaw at ho
    split at ho
    · rename_i s heq; rw [heq] at hp; cases hp
    · simp at ho; rw [ho]; rfl
    · rename_i o' _ _
      rcases List.mem_cons.mp ho with rfl | ho
      · exact hp
      · exact ih _ o ho

/-- **No panic, client side (full strength).**  A client whose own Hello
    announces a receive buffer of 0 ("no preference") or at least 12 bytes, after
    a handshake that SUCCEEDED against any Acknowledge whatsoever, never panics
    on any frame in any state — provided the handshake refuses buffer sizes
    below some `minBuf ≥ 12`. -/
theorem C13_nopanic_client (minBuf : Nat) (capped : Bool) (hmin : 12 ≤ minBuf) (own ackRcv ackSnd b : Nat)
    (hown : own = 0 ∨ minBuf ≤ own) (hs : handshake minBuf capped own ackRcv ackSnd = some b)
    (cfg : RawCfg) (hcfg : cfg.rcvBuf = b) (st : RawSt) (f : Frame) :
    (rawStep cfg st f).2.isPanic = false := by
  have := handshake_lower hs hown
  exact C13_nopanic cfg (by omega) st f

/-- … instantiated with what the generator reads from `uacp.Conn.Handshake` of the
    current source (minimum 8192): the hypothesis `ReceiveBufSize ≥ 12` of
    `C13_nopanic` is discharged for every client connection with a sane own
    configuration -/
theorem C13_nopanic_client_current (own ackRcv ackSnd b : Nat)
    (hown : own = 0 ∨ Gen.RecvFacts.ackMinBufSize ≤ own)
    (hs : handshake Gen.RecvFacts.ackMinBufSize Gen.RecvFacts.ackRcvCappedByHello own ackRcv ackSnd = some b)
    (cfg : RawCfg) (hcfg : cfg.rcvBuf = b) (st : RawSt) (f : Frame) :
    (rawStep cfg st f).2.isPanic = false :=
  C13_nopanic_client _ _ (by decide) own ackRcv ackSnd b hown hs cfg hcfg st f

/-- the buffer a client allocates per frame is bounded by its own announcement:
    a hostile Acknowledge can no longer dictate it (former C13.ack-huge-rcvbuf) -/
theorem C13_client_rcvbuf_bounded (own ackRcv ackSnd b : Nat) (hown : own ≠ 0)
    (hcap : Gen.RecvFacts.ackRcvCappedByHello = true)
    (hs : handshake Gen.RecvFacts.ackMinBufSize Gen.RecvFacts.ackRcvCappedByHello own ackRcv ackSnd = some b) :
    b ≤ own := by
  rw [hcap] at hs
  exact handshake_upper hs hown

/-- the former witnesses are refused now: Acknowledge{4}, {10}; and 4294967295 is capped -/
theorem C13_hostile_ack_refused_or_capped :
    handshake Gen.RecvFacts.ackMinBufSize Gen.RecvFacts.ackRcvCappedByHello 65535 4 65535 = none ∧
    handshake Gen.RecvFacts.ackMinBufSize Gen.RecvFacts.ackRcvCappedByHello 65535 10 65535 = none ∧
    handshake Gen.RecvFacts.ackMinBufSize Gen.RecvFacts.ackRcvCappedByHello 65535 65535 100 = none ∧
    handshake Gen.RecvFacts.ackMinBufSize Gen.RecvFacts.ackRcvCappedByHello 65535 4294967295 65535 = some 65535 := by decide

/-- a `Conn` CONSTRUCTED DIRECTLY with `ReceiveBufSize < 8` (not reachable from a
    peer any more): `Conn.Receive` panics on its own buffer before it has read a byte -/
theorem C13_small_rcvbuf_conn_direct (cfg : RawCfg) (h : cfg.rcvBuf < 8) (st : RawSt) (f : Frame) :
    (rawStep cfg st f).2 = .panic .connSmallBuf := by
  simp [rawStep, h]

/-- likewise, constructed directly with `8 ≤ ReceiveBufSize < 12`: every frame of
    fewer than 12 bytes (other than ERR) makes `readChunk` panic in `b[:hdrlen]`;
    with a larger buffer the same frames are decode errors. -/
theorem C13_small_rcvbuf_header_direct (cfg : RawCfg) (h8 : 8 ≤ cfg.rcvBuf) (h12 : cfg.rcvBuf < 12)
    (st : RawSt) (f : Frame) (hl : f.raw.length < 12) (he : f.raw.take 3 ≠ tERR) :
    (rawStep cfg st f).2 = .panic .headerSlice := by
  have : ¬ cfg.rcvBuf < 8 := by omega
  simp [rawStep, this, he, hl, h12]

theorem C13_short_frame_is_error (cfg : RawCfg) (h12 : 12 ≤ cfg.rcvBuf)
    (st : RawSt) (f : Frame) (hl : f.raw.length < 12) (he : f.raw.take 3 ≠ tERR) :
    rawStep cfg st f = (st, .err .decodeChunk) := by
  have h1 : ¬ cfg.rcvBuf < 8 := by omega
  have h2 : ¬ cfg.rcvBuf < 12 := by omega
  simp [rawStep, h1, h2, he, hl]

/-- **Progress.**  Each frame is consumed by exactly one step: a run yields at
    most one outcome per frame, and exactly one per frame unless a panic or
    EOF ended it (there is no state in which a frame is neither consumed nor
    answered). -/
theorem C13_progress (cfg : RawCfg) (st : RawSt) (fs : List Frame) :
    (runRaw cfg st fs).length ≤ fs.length ∧
    ((∀ o ∈ runRaw cfg st fs, o.stops = false) → (runRaw cfg st fs).length = fs.length) := by
  induction fs generalizing st with
  | nil => simp [runRaw]
  | cons f t ih =>
    unfold runRaw
    split
    · refine ⟨by simp, fun h => ?_⟩
      have := h _ (List.mem_singleton.mpr rfl)
      cases this
    · refine ⟨by simp, fun h => ?_⟩
      have := h _ (List.mem_singleton.mpr rfl)
      cases this
    · obtain ⟨i1, i2⟩ := ih (rawStep cfg st f).1
      refine ⟨by simp; omega, fun h => ?_⟩
      simp only [List.length_cons]
      rw [i2 (fun o ho => h o (List.mem_cons_of_mem _ ho))]

/-- a stream of intermediate chunks is "useless but well-formed": every one of
    them is consumed with `continue` (the receiver goes on reading; it blocks
    only waiting for more bytes) -/
theorem C13_intermediate_consumed (cfg : Cfg) (b : Bufs) (c : Chunk) (hC : c.ct = ctC) :
    (step cfg b c).2 = .cont ∨ ∃ n, (step cfg b c).2 = .tooMany c.req n := by
  have hA : ¬ c.ct = ctA := by rw [hC]; decide
  unfold step
  simp only [if_neg hA, if_pos hC]
  split
  · exact Or.inr ⟨_, rfl⟩
  · exact Or.inl rfl

/-- **Memory (partial).**  While the chunk-count check is in force (limit not
    zero, or zero not meaning "unlimited"), after any chunk stream whatsoever
    the retained chunks number at most `MaxChunkCount` per map entry (= per
    active request id), and the retained payload at most
    `rcvBuf · MaxChunkCount` bytes per entry, `rcvBuf` bounding the payload of
    a chunk (a chunk never exceeds the receive buffer). -/
theorem C13_memory_partial (cfg : Cfg) (hact : limitActive cfg) (rcvBuf : Nat) (s : List Chunk)
    (hs : ∀ c ∈ s, c.data.length ≤ rcvBuf) :
    (runFinal cfg [] s).nchunks ≤ cfg.maxChunkCount * (runFinal cfg [] s).entries ∧
    (runFinal cfg [] s).held ≤ rcvBuf * cfg.maxChunkCount * (runFinal cfg [] s).entries := by
  have hB := run_boundedB rcvBuf cfg hact [] s hs (by intro e he; cases he)
  exact ⟨nchunks_le _ _ (fun e he => (hB e he).1), held_le _ _ _ hB⟩

/-- **Memory, exact constant (raw frames, unsecured channel).**  Whatever frames
    of at most `rcvBuf` bytes arrive, in any state reached from an empty table:
    every retained chunk carries at most `rcvBuf − 24` payload bytes (header 12,
    token id 4, sequence header 8), so the retained payload is at most
    `(rcvBuf − 24) · MaxChunkCount` bytes per active request id. -/
theorem C13_memory_exact (cfg : RawCfg) (hact : limitActive cfg.limits) (hsec : cfg.secure = false)
    (st : RawSt) (hst : st.bufs = []) (fs : List Frame) (hlen : ∀ f ∈ fs, f.raw.length ≤ cfg.rcvBuf) :
    (runRawFinal cfg st fs).bufs.held ≤
      (cfg.rcvBuf - 24) * cfg.limits.maxChunkCount * (runRawFinal cfg st fs).bufs.entries := by
  apply held_le
  apply runRaw_boundedB cfg hact hsec st fs hlen
  rw [hst]; intro e he; cases he

/-- the constant is attained: receive buffer 26, limit 2 — two intermediate
    chunks of request 5 with 2 payload bytes each: 4 = (26 − 24) · 2 · 1 bytes held -/
theorem C13_memory_exact_tight :
    (runRawFinal { rcvBuf := 26, limits := { maxChunkCount := 2, maxMessageSize := 100 }, secure := false }
      { bufs := [], opening := false, chans := [11] }
      [⟨[77,83,71,67, 26,0,0,0, 11,0,0,0, 22,0,0,0, 1,0,0,0, 5,0,0,0, 65,66], none, .ok⟩,
       ⟨[77,83,71,67, 26,0,0,0, 11,0,0,0, 22,0,0,0, 2,0,0,0, 5,0,0,0, 67,68], none, .ok⟩]).bufs.held = 4 := by decide

/-- **Release.**  A final chunk, an abort chunk and a chunk that exceeds the
    chunk limit all release what was retained for their request id: afterwards
    nothing is buffered for it (in any state, for any limits) -/
theorem C13_final_or_abort_releases (cfg : Cfg) (b : Bufs) (c : Chunk) (h : c.ct ≠ ctC) :
    (step cfg b c).1.get c.req = [] ∧ chunksBytes ((step cfg b c).1.get c.req) = 0 := by
  have hs := step_get_same cfg b c
  have h1 : (step1 cfg (b.get c.req) c).1 = [] := by
    unfold step1
    by_cases hA : c.ct = ctA
    · simp [hA]
    · simp only [if_neg hA, if_neg h]
      split <;> rfl
  have : (step cfg b c).1.get c.req = [] := by
    have := congrArg Prod.fst hs
    simpa [h1] using this
  exact ⟨this, by rw [this]; rfl⟩

theorem C13_too_many_releases (cfg : Cfg) (b : Bufs) (c : Chunk) (n : Nat)
    (h : (step cfg b c).2 = .tooMany c.req n) : (step cfg b c).1.get c.req = [] := by
  have hs := step_get_same cfg b c
  have h2 : (step1 cfg (b.get c.req) c).2 = .tooMany c.req n := by
    rw [← h]; exact (congrArg Prod.snd hs).symm
  have h1 : (step1 cfg (b.get c.req) c).1 = [] := by
    unfold step1 at h2 ⊢
    by_cases hA : c.ct = ctA
    · simp [hA]
    · by_cases hC : c.ct = ctC
      · simp only [if_neg hA, if_pos hC] at h2 ⊢
        by_cases hn : exceeds cfg.chunk0 (b.get c.req ++ [c]).length cfg.maxChunkCount = true
        · simp only [if_pos hn]
        · simp only [if_neg hn] at h2
          cases h2
      · simp only [if_neg hA, if_neg hC]
        split <;> rfl
  have := congrArg Prod.fst hs
  simpa [h1] using this

/-- FINDING C13.chunks-unbounded-ids: the bound does not hold independently of
    the number of request ids — for EVERY `n`, `n` intermediate chunks with
    `n` different request ids (no final chunk ever) are all retained, one map
    entry each; nothing ever removes them. -/
theorem C13_finding_unbounded_ids (cfg : Cfg) (hone : exceeds cfg.chunk0 1 cfg.maxChunkCount = false)
    (n : Nat) (payload : Bytes) :
    (runFinal cfg [] ((List.range n).map fun r => ⟨ctC, r + 1, r, payload⟩)).entries = n := by
  have := run_fresh_ids cfg hone (List.range n) List.nodup_range [] (by intro e he; cases he)
    (fun r => ⟨ctC, r + 1, r, payload⟩) (fun r => ⟨rfl, rfl⟩)
  simpa [Bufs.entries] using this

/-- so no bound `K` on the number of entries (hence on retained memory) exists -/
theorem C13_full_memory_bound_false (cfg : Cfg) (hone : exceeds cfg.chunk0 1 cfg.maxChunkCount = false) :
    ¬ ∃ K, ∀ s : List Chunk, (runFinal cfg [] s).entries ≤ K := by
  intro ⟨K, hK⟩
  have := hK ((List.range (K + 1)).map fun r => ⟨ctC, r + 1, r, []⟩)
  rw [C13_finding_unbounded_ids cfg hone (K + 1) []] at this
  omega

/-- Observation (not counted as a finding of C13, see notes): on a channel with
    an opening instance — every server channel — an OPN frame that names a real
    policy and carries an acceptable RSA certificate makes `readChunk` overwrite
    the instance's algorithm before anything is verified; on an open secured
    server channel properly sealed chunks are rejected from then on. -/
theorem C13_opn_clobbers_active_instance (cfg : RawCfg) (st : RawSt) (f : Frame) (c : Bytes)
    (h12 : 12 ≤ cfg.rcvBuf) (hsec : cfg.secure = true) (hclob : st.clobbered = true)
    (hlen : 16 ≤ f.raw.length) (hmsg : f.raw.take 3 = tMSG)
    (hchan : leVal ((f.raw.drop 8).take 4) ∈ st.chans) (ho : f.opens = some c) :
    rawStep cfg st f = (st, .err .security) := by
  have h1 : ¬ cfg.rcvBuf < 8 := by omega
  have h2 : ¬ (f.raw.length < 12 ∧ cfg.rcvBuf < 12) := by omega
  have h3 : ¬ f.raw.length < 12 := by omega
  have h4 : ¬ f.raw.length < 16 := by omega
  have e1 : ¬ (tMSG = tERR) := by decide
  have e2 : ¬ (tMSG = tOPN) := by decide
  have e3 : ¬ (tMSG = tCLO) := by decide
  simp [rawStep, verified, h1, h3, h4, hmsg, e1, e2, e3, hchan, hsec, ho, hclob]

/-! ### the receive gate of the client dispatcher (hostile OpenSecureChannelResponse) -/

/-- Observation (a): a response whose body is an
    OpenSecureChannelResponse locks the receive gate whenever its request id has
    a handler — the dispatcher never checks that an `open()` is in flight for it.
    A server can therefore answer ANY ordinary request that way. -/
theorem C13_gate_locked_by_any_opn_response (st : Gate.St) (r : Gate.Resp) (rest : List Gate.Resp)
    (hopen : st.locked = false) (hq : st.queue = r :: rest) (hh : r.req ∈ st.handlers) (hopn : r.isOPN = true) :
    (Gate.step st .dispatch).locked = true := by
  simp [Gate.step, hopen, hq, hh, hopn]

/-- (b): from then on, whatever arrives and however many requests are sent,
    nothing is delivered to any handler and nothing is read from the socket
    until some `open()` returns or the channel is closed -/
theorem C13_gate_wedged (st : Gate.St) (evs : List Gate.Ev) (hl : st.locked = true)
    (hq : ∀ e ∈ evs, e.quiet = true) :
    (Gate.run st evs).delivered = st.delivered ∧ st.queue.length ≤ (Gate.run st evs).queue.length :=
  (Gate.wedged st evs hl hq).2

/-- … but not for ever: the next `open()` that returns — the scheduled renewal
    does, at the latest by its request timeout — reopens the gate and the
    dispatcher goes on with the queued responses -/
theorem C13_gate_reopens (st : Gate.St) (r : Gate.Resp) (rest : List Gate.Resp)
    (hq : st.queue = r :: rest) (hh : r.req ∈ st.handlers) :
    (Gate.run st [.openReturns, .dispatch]).delivered = r.req :: st.delivered := by
  simp [Gate.run, Gate.step, hq, hh]

/-- the scenario of the runner: request 1 answered with an
    OpenSecureChannelResponse, request 2 answered properly — its response is
    delivered only after `open()` has returned -/
theorem C13_gate_witness :
    (Gate.run {} [.register 1, .arrive ⟨1, true⟩, .dispatch, .register 2, .arrive ⟨2, false⟩, .dispatch, .dispatch]).delivered = [1] ∧
    (Gate.run {} [.register 1, .arrive ⟨1, true⟩, .dispatch, .register 2, .arrive ⟨2, false⟩, .dispatch, .openReturns,
                  .dispatch]).delivered = [2, 1] := by decide

/-! ### non-vacuity: raw frames on an open None-mode channel (channel id 11) -/

def cfgN : RawCfg := { rcvBuf := 65535, limits := { maxChunkCount := 2, maxMessageSize := 100 }, secure := false }
def stOpen : RawSt := { bufs := [], opening := false, chans := [11] }

/-- MSG C (req 5, seq 1, "A"), MSG F (req 5, seq 2, "B") → merged "AB";
    an 8-byte frame → decode error; wrong channel id → no instance; CLO → EOF -/
example :
    runRaw cfgN stOpen
      [⟨[77,83,71,67, 25,0,0,0, 11,0,0,0, 22,0,0,0, 1,0,0,0, 5,0,0,0, 65], none, .ok⟩,
       ⟨[77,83,71,70, 25,0,0,0, 11,0,0,0, 22,0,0,0, 2,0,0,0, 5,0,0,0, 66], none, .ok⟩,
       ⟨[77,83,71,70, 8,0,0,0], none, .ok⟩,
       ⟨[77,83,71,70, 24,0,0,0, 12,0,0,0, 22,0,0,0, 2,0,0,0, 5,0,0,0], none, .ok⟩,
       ⟨[67,76,79,70, 16,0,0,0, 11,0,0,0, 22,0,0,0], none, .ok⟩,
       ⟨[77,83,71,70, 8,0,0,0], none, .ok⟩] =
      [.out .cont, .out (.merged 5 [65, 66]), .err .decodeChunk, .err .noInstance, .eof] := by decide

end Opcua.Props.C13
