import OpcuaModel.Model.MonMap
import OpcuaModel.Model.MonMapLemmas
/-
  C28 — monitor notifications name the right node and converge to the latest value.

  (A) the handle ↦ node map of `monitor.Subscription` and the client handle each
      server item received on the wire, over every history of AddMonitorItems /
      RemoveMonitorItems (any per-item results, failing calls, unknown items);
  (B) the server's change-notification path (value read under the lock when the
      notification is sent, FIFO channel, publish queue keyed by client handle) over
      every interleaving of writes, notification goroutines (including the initial-value
      goroutine of CreateMonitoredItems), collects and publishes.
-/
namespace Opcua.Props.C28
open Opcua Opcua.Mon

/-! ### (A) the right node -/

/-- For every history of AddMonitorItems / RemoveMonitorItems calls and reconnects that
    recreate the subscription from the stored request objects — any per-item results,
    failing calls, unknown items, requests that share one `*ua.MonitoringParameters`
    object, failed recreations —: whatever a server item sends, the message is delivered under the node that
    item samples, or as a "handle not found" error (item removed meanwhile), never under
    another node. -/
theorem C28_node (ops : List Op) :
    ∀ it ∈ (runOps St.empty ops).srv, ∀ n, deliver (runOps St.empty ops) it = some n → n = it.node := by
  intro it hit n hd
  exact ((invA_runOps ops St.empty invA_empty).2.1 it hit).2 n hd

/-- client handles are never reused: every handle of a call is above everything handed
    out before, and the handles of one call are pairwise different -/
theorem C28_handles_fresh (s : St) (reqs : List Req) (r : Req) (h : Nat)
    (hm : (r, h) ∈ assign s.next reqs) : s.next < h ∧ h ≤ s.next + reqs.length :=
  (mem_assign hm).2

/-- every mapped handle was handed out (is at most `nextClientHandle`) -/
theorem C28_handles_bounded (ops : List Op) (k : Nat) (n : Node)
    (h : (runOps St.empty ops).handles k = some n) : k ≤ (runOps St.empty ops).next :=
  (invA_runOps ops St.empty invA_empty).1 k n h

/-- Recreation keeps the handles: the items a recreated subscription has on the server carry
    exactly (node, client handle) pairs of the create requests stored before — each request
    object still holds the handle written when it was built (its own copy of the parameters),
    so recreated items cannot collide with each other or with handles handed out later. -/
theorem C28_recreate_keeps_handles (s : St) (order : List Nat) :
    ∀ it ∈ (recreate s order true).srv, ∃ e ∈ s.stored, it.node = e.node ∧ it.handle = e.handle := by
  intro it hit
  simp only [recreate, if_true, List.mem_map] at hit
  obtain ⟨x, hx, rfl⟩ := hit
  obtain ⟨e, he, h1, h2⟩ := mem_freshIds hx
  simp only [List.mem_filterMap] at he
  obtain ⟨k, _, hf⟩ := he
  exact ⟨e, List.mem_of_find?_eq_some hf, h1, h2⟩

/-- client handles are a uint32 counter starting at 100: as long as fewer than 2^32 − 101
    handles have been handed out (`next < 2^32`) no handle has wrapped around, which is the
    standing hypothesis of the model (`Nat` handles); `C28_handles_bounded` shows every
    handle in use is at most `next` -/
theorem C28_no_wrap (ops : List Op) (hw : (runOps St.empty ops).next < 4294967296) (k : Nat) (n : Node)
    (h : (runOps St.empty ops).handles k = some n) : k < 4294967296 :=
  Nat.lt_of_le_of_lt ((invA_runOps ops St.empty invA_empty).1 k n h) hw

/-- a reconnect in the middle of a history: items created with a shared parameters object,
    one refused item, a recreation (map order 2, 0, 1), a later add — every server item is
    still delivered under its own node and the refused item's request (key 0), which is
    re-sent and now accepted, is delivered as "handle not found" -/
example :
    let s := runOps St.empty [.add [⟨0, some 7⟩, ⟨1, some 7⟩, ⟨2, none⟩] [true, true, false],
                              .recreate [2, 0, 1] true, .add [⟨3, none⟩] [true]]
    s.srv = [⟨3, 1, 102⟩, ⟨4, 2, 103⟩, ⟨5, 0, 101⟩, ⟨6, 3, 104⟩] ∧
    s.srv.map (deliver s) = [some 1, none, some 0, some 3] := by
  decide

/-- the former finding C28.shared-params-handle-alias, now repaired: two requests that
    point to the same MonitoringParameters object go to the server with their own
    handles (101, 102) and each item's data is delivered under its own node -/
theorem C28_shared_params_ok :
    (add St.empty [⟨0, some 7⟩, ⟨1, some 7⟩] [true, true]).srv = [⟨1, 0, 101⟩, ⟨2, 1, 102⟩] ∧
    deliver (add St.empty [⟨0, some 7⟩, ⟨1, some 7⟩] [true, true]) ⟨1, 0, 101⟩ = some 0 ∧
    deliver (add St.empty [⟨0, some 7⟩, ⟨1, some 7⟩] [true, true]) ⟨2, 1, 102⟩ = some 1 := by
  decide

/-- a failed item loses its handle, the others keep theirs -/
example :
    (add St.empty [⟨0, some 7⟩, ⟨1, some 8⟩, ⟨2, none⟩] [true, false, true]).srv = [⟨1, 0, 101⟩, ⟨2, 2, 103⟩] ∧
    deliver (add St.empty [⟨0, some 7⟩, ⟨1, some 8⟩, ⟨2, none⟩] [true, false, true]) ⟨1, 0, 101⟩ = some 0 ∧
    (add St.empty [⟨0, some 7⟩, ⟨1, some 8⟩, ⟨2, none⟩] [true, false, true]).handles 102 = none := by
  decide

/-! ### (B) convergence -/

/-- The newest value on its way to the application (channel, queue, last delivery) for an
    item equals the node's current value whenever no notification for that node is still
    scheduled — in every reachable state, i.e. for every interleaving of concurrent
    writers, the initial-value goroutine, collects and publishes.  (Each item has its own
    client handle: `SReach`.) -/
theorem C28_newest_is_current (s : Srv) (hr : SReach s) (h : Nat) (n : Node)
    (hit : (h, n) ∈ s.items) (hp : n ∉ s.pending) : latest s h = some (s.vals n) :=
  (invB_reach hr).2 (h, n) hit hp

/-- Convergence: once writes have stopped and everything under way has been published
    (no scheduled notification, empty channel, empty queue), the last value delivered for
    every monitored item is the node's current value. -/
theorem C28_converge (s : Srv) (hr : SReach s) (hq : quiet s) (h : Nat) (n : Node)
    (hit : (h, n) ∈ s.items) : s.last h = some (s.vals n) := by
  obtain ⟨hp, hc, hqq⟩ := hq
  have := (invB_reach hr).2 (h, n) hit (by simp [hp])
  simpa [latest, hc, chanLast, hqq, orr] using this

/-- the write racing the initial-value goroutine (the race DESIGN.md expected to break
    convergence) is harmless on this code: the goroutine reads the value *under the lock
    when it sends*, so whichever order the two notifications run in, the newest value under
    way is the written one -/
theorem C28_initial_value_race :
    (srun Srv.empty [.create 5 0, .write 0 9, .cn 1, .cn 0, .collect, .collect, .publish]).map
        (fun s => (s.last 5, s.vals 0)) = some (some 9, 9) ∧
    (srun Srv.empty [.create 5 0, .write 0 9, .cn 0, .cn 0, .collect, .collect, .publish]).map
        (fun s => (s.last 5, s.vals 0)) = some (some 9, 9) := by
  decide

/-- why `SReach` asks for one client handle per item (which `C28_handles_fresh` gives for
    the monitor): two items with the same handle would share one queue slot — the state is
    quiet and the value delivered for handle 5 is node 0's, not node 1's -/
theorem C28_distinct_handles_needed :
    (srun Srv.empty [.create 5 0, .create 5 1, .cn 0, .cn 0, .write 0 9, .cn 0,
        .collect, .collect, .collect, .publish]).map
      (fun s => (s.pending, s.chan, s.last 5, s.vals 1)) = some ([], [], some 9, 0) := by
  decide

end Opcua.Props.C28
