import OpcuaModel.Model.AccessLemmas
/-
  C31 — node access levels are enforced for value reads and writes.

  `Access.nsAttribute` / `Access.nsSetAttribute` / `Access.step` mirror
  `NodeNameSpace.Attribute`, `NodeNameSpace.SetAttribute` and the attribute
  service (tied by the C31 correspondence run, in process and through a real
  client).  `lacks n flag` is the specification-side reading of "access level
  or user access level lacks the flag": the attribute is present and is not a
  `uint8` with the bit set (a missing attribute does not restrict, as the doc
  comment of `Node.Access` says).

  Per operation the property holds at full strength (`C31_read`, `C31_write`).
  Over request histories it holds for nodes that also lack CurrentWrite and for
  histories that do not write the access attributes (`C31_history_partial`);
  the unchanged code lets a client WRITE the AccessLevel / UserAccessLevel
  attributes of any node it may write, and then read a value it was denied
  (`C31_finding_client_rewrites_accesslevel`).
-/
namespace Opcua.Props.C31
open Opcua.Access

/-- the code's check and the specification's classification coincide:
    `Node.Access(flag)` answers true exactly for nodes that do not lack the flag -/
theorem C31_access_iff (n : Node) (f : Nat) : access n f = .allow ↔ lacks n f = false := by
  unfold access lacks
  cases h : accessSlot (n.get aUserAccessLevel) f <;>
    simp [Bool.or_eq_false_iff, ← accessSlot_allow_iff, h]

/-- reading ANY attribute (in particular Value) of a node that lacks CurrentRead
    never returns a value: the answer is BadUserAccessDenied (or the nil-Variant
    panic), and the node is untouched -/
theorem C31_read (n : Node) (attr : Nat) (h : lacks n fRead = true) :
    ((nsAttribute n attr).1 = .status .badUserAccessDenied ∨ (nsAttribute n attr).1 = .panic) ∧
    (nsAttribute n attr).1.isValue = false ∧ (nsAttribute n attr).2 = n := by
  have hne : access n fRead ≠ .allow := by
    intro ha; rw [(C31_access_iff n fRead).1 ha] at h; exact Bool.noConfusion h
  unfold nsAttribute
  cases ha : access n fRead <;> simp_all [Res.isValue]

/-- writing ANY attribute (in particular Value) of a node that lacks CurrentWrite
    is refused and leaves the node exactly as it was -/
theorem C31_write (n : Node) (attr : Nat) (d : DV) (h : lacks n fWrite = true) :
    ((nsSetAttribute n attr d).1 = .status .badUserAccessDenied ∨ (nsSetAttribute n attr d).1 = .panic) ∧
    (nsSetAttribute n attr d).2 = n := by
  have hne : access n fWrite ≠ .allow := by
    intro ha; rw [(C31_access_iff n fWrite).1 ha] at h; exact Bool.noConfusion h
  unfold nsSetAttribute
  cases ha : access n fWrite <;> simp_all

/-- the check is not vacuous: a node that does not lack CurrentRead returns
    its value, a node that does not lack CurrentWrite takes the new value -/
theorem C31_granted (n : Node) (d : DV) :
    (lacks n fRead = false → n.val ≠ .nilPtr → nsAttribute n aValue = (.value n.val, n)) ∧
    (lacks n fWrite = false → nsSetAttribute n aValue d = (.status .ok, { n with val := d })) := by
  constructor
  · intro h hv
    have ha := (C31_access_iff n fRead).2 h
    unfold nsAttribute
    rw [ha]
    cases hval : n.val <;> simp_all [aValue, aNodeID, aEventNotifier, aNodeClass]
  · intro h
    have ha := (C31_access_iff n fWrite).2 h
    simp [nsSetAttribute, ha, nodeSet]

/-- how the two levels combine — there is no precedence of one over the other as far as the
    verdict goes: access is granted iff BOTH present levels grant it; UserAccessLevel is merely
    looked at first, which only matters for which of two faults shows (a denial by
    UserAccessLevel hides a nil Variant in AccessLevel) -/
theorem C31_levels_combine (n : Node) (f : Nat) :
    (access n f = .allow ↔
      accessSlot (n.get aUserAccessLevel) f = .allow ∧ accessSlot (n.get aAccessLevel) f = .allow) ∧
    (accessSlot (n.get aUserAccessLevel) f = .deny → access n f = .deny) ∧
    (accessSlot (n.get aUserAccessLevel) f = .panic → access n f = .panic) ∧
    (accessSlot (n.get aUserAccessLevel) f = .allow → access n f = accessSlot (n.get aAccessLevel) f) := by
  unfold access
  cases h : accessSlot (n.get aUserAccessLevel) f <;> simp

/-- the frame of the property, explicit: the code applies the two levels to EVERY attribute (more
    than Part 3 asks: there they govern the Value attribute only), with the same verdict for all
    attributes; and an operation on another attribute, granted or not, neither reveals nor
    changes the value: the answer does not depend on the value slot and the value slot is kept -/
theorem C31_nonvalue_frame (n : Node) (attr : Nat) (d v' : DV) (hne : attr ≠ aValue) :
    -- same verdict for every attribute
    ((nsAttribute n attr).1 = .status .badUserAccessDenied ↔ (nsAttribute n aValue).1 = .status .badUserAccessDenied) ∧
    ((nsSetAttribute n attr d).1 = (nsSetAttribute n aValue d).1) ∧
    -- the value is not revealed …
    (nsAttribute { n with val := v' } attr).1 = (nsAttribute n attr).1 ∧
    -- … and not touched
    (nsAttribute n attr).2.val = n.val ∧ (nsSetAttribute n attr d).2.val = n.val := by
  have hacc : ∀ f, access { n with val := v' } f = access n f := fun f => rfl
  refine ⟨?_, ?_, ?_, ?_, ?_⟩
  · unfold nsAttribute
    cases ha : access n fRead <;> simp only []
    · -- allowed: neither answer is a denial
      constructor
      · intro h
        exfalso
        revert h
        repeat' split
        all_goals simp
      · intro h
        exfalso
        revert h
        simp only [aValue, aNodeID, aEventNotifier, aNodeClass,
          show (13:Nat) ≠ 1 by decide, show (13:Nat) ≠ 12 by decide, show (13:Nat) ≠ 2 by decide, ↓reduceIte]
        cases n.val <;> simp
    all_goals (try simp)
  · unfold nsSetAttribute
    cases access n fWrite <;> rfl
  · unfold nsAttribute
    rw [hacc fRead]
    cases access n fRead <;> simp only []
    simp only [hne, ↓reduceIte, Node.get]
    repeat' split
    all_goals rfl
  · have := core_read n attr
    simp only [core, Prod.mk.injEq] at this
    exact this.1
  · unfold nsSetAttribute
    cases access n fWrite <;> simp [nodeSet, hne]

/-- the panic outcome needs a DataValue without a Variant in one of the two
    access attributes -/
theorem C31_panic_only_nil_variant (n : Node) (f : Nat) (h : access n f = .panic) :
    n.get aUserAccessLevel = .noVariant ∨ n.get aAccessLevel = .noVariant := by
  have slot : ∀ d : DV, accessSlot d f = .panic → d = .noVariant := by
    intro d hd
    cases d with
    | nilPtr => simp [accessSlot] at hd
    | noVariant => rfl
    | v ty p => by_cases h1 : ty = tyByte <;> by_cases h2 : p &&& f = 0 <;> simp [accessSlot, h1, h2] at hd
  unfold access at h
  cases hu : accessSlot (n.get aUserAccessLevel) f with
  | allow => rw [hu] at h; exact Or.inr (slot _ h)
  | deny => rw [hu] at h; cases h
  | panic => exact Or.inl (slot _ hu)

-- ---------------------------------------------------------------- histories

/-- the guard of the history theorem for node (i,k): the node lacks CurrentWrite
    at the start, or no request of the history writes one of its two access
    attributes -/
def guard (n : Node) (i k : Nat) (ops : List Op) : Prop :=
  lacks n fWrite = true ∨ ∀ op ∈ ops, op.rewritesAccess i k = false

/-- pairs (request, answer) of a history -/
def answers (sv : Server) (ops : List Op) : List (Op × Res) := ops.zip (run sv ops).1

/-- over whole request histories: if node (i,k) lacks CurrentRead at the start,
    and (guard) it also lacks CurrentWrite or nobody rewrites its access
    attributes, then no Value read of that node anywhere in the history returns
    a value, and the node's value and access attributes are never changed when
    it lacks CurrentWrite -/
theorem C31_history_partial (ops : List Op) (sv : Server) (i k : Nat) (n : Node)
    (hn : sv.node i k = some n) (hr : lacks n fRead = true) (hg : guard n i k ops) :
    ∀ p ∈ answers sv ops, p.1.readsValue i k = true → p.2.isValue = false := by
  induction ops generalizing sv n with
  | nil => intro p hp; simp [answers, run] at hp
  | cons op rest ih =>
    obtain ⟨n', hn', hw, hrd, hoth⟩ := step_node sv op i k n hn
    -- the node after the step still lacks CurrentRead and satisfies the guard
    have hkeep : lacks n' fRead = true ∧ guard n' i k rest := by
      by_cases hisw : ∃ a d, op = .write i k a d
      · obtain ⟨a, d, rfl⟩ := hisw
        obtain ⟨e, _⟩ := hw a d rfl
        rcases hg with hlw | hno
        · have := (C31_write n a d hlw).2
          rw [e, this]; exact ⟨hr, Or.inl hlw⟩
        · have hna : ¬ (a = aAccessLevel ∨ a = aUserAccessLevel) := by
            have := hno (.write i k a d) (by simp)
            simpa [Op.rewritesAccess] using this
          obtain ⟨e1, e2⟩ := access_attrs_write n a d hna
          refine ⟨?_, Or.inr (fun o ho => hno o (by simp [ho]))⟩
          rw [e]; simp only [lacks, e1, e2]; exact hr
      · by_cases hisr : ∃ a, op = .read i k a
        · obtain ⟨a, rfl⟩ := hisr
          obtain ⟨e, _⟩ := hrd a rfl
          have hc := core_read n a
          rw [← e] at hc
          refine ⟨by rw [lacks_of_core hc]; exact hr, ?_⟩
          rcases hg with hlw | hno
          · exact Or.inl (by rw [lacks_of_core hc]; exact hlw)
          · exact Or.inr (fun o ho => hno o (by simp [ho]))
        · have e : n' = n := hoth (fun a d h => hisw ⟨a, d, h⟩) (fun a h => hisr ⟨a, h⟩)
          subst e
          refine ⟨hr, ?_⟩
          rcases hg with hlw | hno
          · exact Or.inl hlw
          · exact Or.inr (fun o ho => hno o (by simp [ho]))
    intro p hp hpr
    simp only [answers, run, List.zip_cons_cons, List.mem_cons] at hp
    rcases hp with rfl | hp
    · -- the first request
      cases op with
      | write _ _ _ _ => simp [Op.readsValue] at hpr
      | read i' k' a =>
        simp only [Op.readsValue, decide_eq_true_eq] at hpr
        obtain ⟨rfl, rfl, rfl⟩ := hpr
        obtain ⟨_, e⟩ := hrd aValue rfl
        simp only []; rw [e]; exact (C31_read n aValue hr).2.1
    · exact ih (step sv op).2 n' hn' hkeep.1 hkeep.2 p hp hpr

/-- over whole request histories: a node that lacks CurrentWrite keeps its value
    and both access attributes whatever clients send (reads of NodeClass may
    rewrite the stored NodeClass representation, nothing else) -/
theorem C31_history_frozen (ops : List Op) (sv : Server) (i k : Nat) (n : Node)
    (hn : sv.node i k = some n) (hw : lacks n fWrite = true) :
    ∃ n', (run sv ops).2.node i k = some n' ∧ core n' = core n := by
  induction ops generalizing sv n with
  | nil => exact ⟨n, hn, rfl⟩
  | cons op rest ih =>
    obtain ⟨n1, hn1, hwr, hrd, hoth⟩ := step_node sv op i k n hn
    have hc : core n1 = core n := by
      by_cases hisw : ∃ a d, op = .write i k a d
      · obtain ⟨a, d, rfl⟩ := hisw
        rw [(hwr a d rfl).1, (C31_write n a d hw).2]
      · by_cases hisr : ∃ a, op = .read i k a
        · obtain ⟨a, rfl⟩ := hisr
          rw [(hrd a rfl).1]; exact core_read n a
        · rw [hoth (fun a d h => hisw ⟨a, d, h⟩) (fun a h => hisr ⟨a, h⟩)]
    have hw1 : lacks n1 fWrite = true := by rw [lacks_of_core hc]; exact hw
    obtain ⟨n', h1, h2⟩ := ih (step sv op).2 n1 hn1 hw1
    exact ⟨n', by simpa [run] using h1, h2.trans hc⟩

/-- FINDING C31.client-rewrites-accesslevel — the guard is needed.  A write-only
    node (AccessLevel = CurrentWrite) holding 742: the client writes AccessLevel := 3
    through the Write service (accepted, the write path checks only CurrentWrite and
    never the attribute id), then reads the value it was denied before. -/
theorem C31_finding_client_rewrites_accesslevel :
    let n : Node := { attrs := [(aAccessLevel, .v tyByte 2)], val := .v tyInt32 742 }
    let sv : Server := fun i => if i = 1 then some (fun k => if k = 0 then some n else none) else none
    lacks n fRead = true ∧
    (run sv [.read 1 0 aValue, .write 1 0 aAccessLevel (.v tyByte 3), .read 1 0 aValue]).1 =
      [.status .badUserAccessDenied, .status .ok, .value (.v tyInt32 742)] := by
  decide

/-- the same escalation for a node without any access attribute is not even
    needed; and a client can also lock everybody out of a node (wrong type) -/
theorem C31_finding_client_locks_node :
    let n : Node := { attrs := [], val := .v tyInt32 5 }
    let sv : Server := fun i => if i = 1 then some (fun k => if k = 0 then some n else none) else none
    (run sv [.read 1 0 aValue, .write 1 0 aUserAccessLevel (.v tyUInt32 3), .read 1 0 aValue,
             .write 1 0 aUserAccessLevel (.v tyByte 3)]).1 =
      [.value (.v tyInt32 5), .status .ok, .status .badUserAccessDenied, .status .badUserAccessDenied] := by
  decide

/-- non-vacuity of the guard and of `lacks`: the four nodes of tests/go/server.go -/
example : lacks { attrs := [(aAccessLevel, .v tyByte 1), (aUserAccessLevel, .v tyByte 1)], val := .nilPtr } fRead = false ∧
    lacks { attrs := [(aAccessLevel, .v tyByte 1), (aUserAccessLevel, .v tyByte 1)], val := .nilPtr } fWrite = true ∧
    lacks { attrs := [(aAccessLevel, .v tyByte 0), (aUserAccessLevel, .v tyByte 0)], val := .nilPtr } fRead = true ∧
    lacks { attrs := [], val := .nilPtr } fRead = false ∧
    -- `ro_bool` of tests/go/server.go: UserAccessLevel is a uint32(1), the wrong type: nothing is allowed
    lacks { attrs := [(aUserAccessLevel, .v tyUInt32 1)], val := .nilPtr } fRead = true := by decide

end Opcua.Props.C31
