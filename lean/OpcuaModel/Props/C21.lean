import OpcuaModel.Model.ClientResp
import OpcuaModel.Model.ClientRespRepairs
import OpcuaModel.Gen.ClientSites
/-
  C21 — client calls never panic on any well-formed server response.

  `outcome op shape` is the model of every client operation as a function of
  the shape of the server's answers (Model/ClientResp.lean); `Gen.clientSites`
  is the list of index / slice / unchecked-assertion sites of the anchored
  files regenerated from the source; `auditedSites` classifies each of them.
-/
namespace Opcua.Props.C21
open Opcua.ClientResp

/-- TIE: the sites in the working tree are exactly the audited ones (same
    functions, same expressions, same multiplicity).  A new index expression
    or unchecked assertion in the anchored files breaks this theorem. -/
theorem C21_sites : Gen.clientSites = auditedSites.map (·.1) := by
  decide +kernel

/-- every site audited as `panics op` is backed by a shape on which the model
    of `op` panics (no site is blamed without a witness) -/
theorem C21_audit_witnessed : auditWitnessed = true := by
  decide +kernel

/-- … and every operation whose model can panic because of an index or an
    assertion in the anchored files has an audited site -/
theorem C21_panicking_ops_have_sites :
    ∀ op ∈ [Op.subCancel, .subMonitor, .subModifyItems, .recreateItems, .transferOnReconnect, .references,
            .browseName, .description, .displayName, .accessLevel, .userAccessLevel],
      ∃ p ∈ auditedSites, p.2 = .panics op := by
  decide +kernel

/-- EXACT SPLIT: an operation panics on a shape iff the shape matches one of
    the finding signatures (narrow decidable predicates) — for every operation
    and every shape (unbounded array lengths and chains). -/
theorem C21_panic_iff_sig (op : Op) (s : Shape) : outcome op s = .panic ↔ (sigOf op s).isSome = true := by
  cases op with
  | plain p => simp only [outcome, sigOf]; split <;> simp
  | call => simp only [outcome, sigOf]; split <;> (try split) <;> simp
  | nodeAttribute => simp only [outcome, sigOf, getter]; split <;> simp
  | subStats => simp only [outcome, sigOf, getter]; split <;> simp
  | nodeClass =>
    simp only [outcome, sigOf, getter, valFrom]
    cases nodeAttr s with
    | none => simp
    | some v =>
      rcases v with ⟨p, t, a, n⟩
      cases p <;> cases a <;> cases t <;> simp [variantInt] <;> omega
  | namespaceArray =>
    simp only [outcome, sigOf, getter]
    cases nodeAttr s with
    | none => simp
    | some v => rcases v with ⟨p, t, a, n⟩; cases a <;> cases t <;> simp
  | browseName =>
    simp only [outcome, sigOf, sigOf.typedSig, getter, valFrom]
    cases nodeAttr s with
    | none => simp
    | some v => rcases v with ⟨p, t, a, n⟩; cases p <;> cases a <;> cases t <;> simp [assertScalar]
  | description =>
    simp only [outcome, sigOf, sigOf.typedSig, getter, valFrom]
    cases nodeAttr s with
    | none => simp
    | some v => rcases v with ⟨p, t, a, n⟩; cases p <;> cases a <;> cases t <;> simp [assertScalar]
  | displayName =>
    simp only [outcome, sigOf, sigOf.typedSig, getter, valFrom]
    cases nodeAttr s with
    | none => simp
    | some v => rcases v with ⟨p, t, a, n⟩; cases p <;> cases a <;> cases t <;> simp [assertScalar]
  | accessLevel =>
    simp only [outcome, sigOf, sigOf.typedSig, getter, valFrom]
    cases nodeAttr s with
    | none => simp
    | some v => rcases v with ⟨p, t, a, n⟩; cases p <;> cases a <;> cases t <;> simp [assertScalar]
  | userAccessLevel =>
    simp only [outcome, sigOf, sigOf.typedSig, getter, valFrom]
    cases nodeAttr s with
    | none => simp
    | some v => rcases v with ⟨p, t, a, n⟩; cases p <;> cases a <;> cases t <;> simp [assertScalar]
  | references =>
    simp only [outcome, sigOf, references]
    cases hk : sendOk s.kind <;> simp
    by_cases h0 : s.nRes = 0 <;> simp [h0]
  | translate =>
    simp only [outcome, sigOf, translate]
    split <;> (try split) <;> (try split) <;> simp
  | subscribe => simp only [outcome, sigOf, subscribe]; split <;> (try split) <;> simp
  | subCancel =>
    simp only [outcome, sigOf, subDelete, Shape.nRes]
    cases hk : sendOk s.kind <;> simp
    cases hr : s.results with
    | nil => simp
    | cons st rest => cases st <;> simp
  | subMonitor =>
    simp only [outcome, sigOf, subMonitor]
    cases hk : sendOk s.kind <;> simp
    by_cases h : s.nRes < s.nReq <;> simp [indexLoop_zero_eq, h]
  | subModifyItems =>
    simp only [outcome, sigOf, subModifyItems, modifyLoop_eq, Nat.sub_zero]
    cases hi : s.idsKnown <;> simp
    cases hk : sendOk s.kind <;> simp
  | recreateItems =>
    simp only [outcome, sigOf, recreateItems]
    cases hk : sendOk s.kind <;> simp
    by_cases hm : false ∈ s.results <;> by_cases h : s.nRes < s.nReq <;> simp [hm, h, indexLoop_zero_eq]
  | transferOnReconnect =>
    simp only [outcome, sigOf, transferOnReconnect]
    cases hk : sendOk s.kind <;> simp
    by_cases h : s.nReq < s.nRes <;> simp [indexLoop_zero_eq, h]
  | publish => simp [outcome, sigOf, publish]

/-- C21, PARTIAL: no operation panics on a shape that matches no finding signature -/
theorem C21_nopanic_partial (op : Op) (s : Shape) (h : sigOf op s = none) : outcome op s ≠ .panic := by
  intro hp
  have := (C21_panic_iff_sig op s).1 hp
  simp [h] at this

/-- C21 at full strength for the operations without an unguarded site: every
    plain request/response call, Call, Node.Attribute/Value, Subscription.Stats,
    TranslateBrowsePathsToNodeIDs, Subscribe and the publish loop -/
theorem C21_nopanic_checked_ops (op : Op) (s : Shape)
    (h : (∃ p, op = .plain p) ∨ op = .call ∨ op = .nodeAttribute ∨ op = .subStats ∨ op = .translate ∨
         op = .subscribe ∨ op = .publish) :
    outcome op s ≠ .panic := by
  apply C21_nopanic_partial
  rcases h with ⟨p, rfl⟩ | rfl | rfl | rfl | rfl | rfl | rfl <;> rfl

/-- the client is safe against conforming servers: a conforming answer
    (see `conforming`) never panics, for every operation -/
theorem C21_nopanic_conforming (op : Op) (s : Shape) (h : conforming op s) : outcome op s ≠ .panic := by
  apply C21_nopanic_partial
  rcases h with ⟨hk, hn, h1, hv, hs, ht, hc⟩
  have hres : s.results ≠ [] := by
    intro h0; simp [Shape.nRes, h0] at h1
  have hattr : nodeAttr s = some s.val ∨ nodeAttr s = none := by
    unfold nodeAttr
    simp only [hk, sendOk]
    cases hr : s.results with
    | nil => exact absurd hr hres
    | cons st rest => cases st <;> simp [decodedVal, hv]
  cases op <;> simp only [sigOf, sigOf.typedSig, valFrom, hk, sendOk] <;> (try simp) <;> (try omega)
  case nodeClass => rcases hattr with h | h <;> simp [h, hs]
  case browseName => rcases hattr with h | h <;> simp [h, hs, ht .qname rfl]
  case description => rcases hattr with h | h <;> simp [h, hs, ht .ltext rfl]
  case displayName => rcases hattr with h | h <;> simp [h, hs, ht .ltext rfl]
  case accessLevel => rcases hattr with h | h <;> simp [h, hs, ht .byte rfl]
  case userAccessLevel => rcases hattr with h | h <;> simp [h, hs, ht .byte rfl]
  case references =>
    have := browseLoop_ne_panic s.chain hc
    simp [this]; omega
  case subModifyItems =>
    have : List.drop s.nReq s.results = [] := by
      apply List.drop_eq_nil_of_le; simp [Shape.nRes] at hn; omega
    simp [this]

/-- every signature `sigOf` can produce is in the list of recorded signatures -/
theorem C21_sigs_listed (op : Op) (s : Shape) (sig : String) (h : sigOf op s = some sig) : sig ∈ allSigs := by
  cases op <;> simp only [sigOf, sigOf.typedSig, valFrom] at h <;> (try cases h) <;>
    (repeat' split at h) <;> (try cases h) <;> simp [allSigs] <;> (try simp_all)

/-- once every recorded defect is repaired (error instead of panic), no
    operation panics on any shape: the 13 signatures are all there is -/
theorem C21_nopanic_when_repaired (R : List String) (hR : ∀ sig ∈ allSigs, sig ∈ R) (op : Op) (s : Shape) :
    outcomeR R op s ≠ .panic := by
  unfold outcomeR
  cases h : sigOf op s with
  | none => exact C21_nopanic_partial op s h
  | some sig =>
    have : R.contains sig = true := by simpa using hR sig (C21_sigs_listed op s sig h)
    simp only [this, if_true]
    split <;> simp

/-- the repairs recorded for the working tree are recorded signatures, and the
    model with those repairs agrees with the unrepaired one elsewhere -/
theorem C21_repairs_sound : (∀ r ∈ repairedSigs, r ∈ allSigs) ∧
    ∀ op s, sigOf op s = none → outcomeR repairedSigs op s = outcome op s := by
  refine ⟨by decide, ?_⟩
  intro op s h; simp [outcomeR, h]

/-- C21 as stated is false on the unchanged tree -/
theorem C21_nopanic_fails : ¬ ∀ (op : Op) (s : Shape), outcome op s ≠ .panic := by
  intro h; exact h .subCancel (witness .subCancel) (by decide)

/-! ### one counterexample per recorded finding: the witness shape panics and carries exactly that signature -/

theorem C21_finding_delete_empty_results :
    outcome .subCancel (witness .subCancel) = .panic ∧
    sigOf .subCancel (witness .subCancel) = some "C21.delete-empty-results" := by decide
theorem C21_finding_monitor_fewer_results :
    outcome .subMonitor (witness .subMonitor) = .panic ∧
    sigOf .subMonitor (witness .subMonitor) = some "C21.monitor-fewer-results" := by decide
theorem C21_finding_modify_more_results :
    outcome .subModifyItems (witness .subModifyItems) = .panic ∧
    sigOf .subModifyItems (witness .subModifyItems) = some "C21.modify-more-results" := by decide
theorem C21_finding_recreate_fewer_results :
    outcome .recreateItems (witness .recreateItems) = .panic ∧
    sigOf .recreateItems (witness .recreateItems) = some "C21.recreate-fewer-results" := by decide
theorem C21_finding_transfer_more_results :
    outcome .transferOnReconnect (witness .transferOnReconnect) = .panic ∧
    sigOf .transferOnReconnect (witness .transferOnReconnect) = some "C21.transfer-more-results" := by decide
theorem C21_finding_browse_empty_results :
    outcome .references (witness .references) = .panic ∧
    sigOf .references (witness .references) = some "C21.browse-empty-results" := by decide
theorem C21_finding_browsenext_empty_results :
    outcome .references { Shape.good with chain := [(.ok, 0)] } = .panic ∧
    sigOf .references { Shape.good with chain := [(.ok, 0)] } = some "C21.browsenext-empty-results" := by decide
theorem C21_finding_type_assertions :
    (∀ op ∈ [Op.browseName, .description, .displayName, .accessLevel, .userAccessLevel],
      outcome op (witness op) = .panic) ∧
    sigOf .browseName (witness .browseName) = some "C21.browsename-type-assertion" ∧
    sigOf .description (witness .description) = some "C21.description-type-assertion" ∧
    sigOf .displayName (witness .displayName) = some "C21.displayname-type-assertion" ∧
    sigOf .accessLevel (witness .accessLevel) = some "C21.accesslevel-type-assertion" ∧
    sigOf .userAccessLevel (witness .userAccessLevel) = some "C21.useraccesslevel-type-assertion" := by decide
/-- a DataValue without a Variant decodes to the Null variant: the typed
    getters panic on it as on any other unexpected type, NodeClass and
    NamespaceArray do not -/
theorem C21_absent_value_is_null :
    (∀ op ∈ [Op.browseName, .description, .displayName, .accessLevel, .userAccessLevel],
      outcome op { Shape.good with val := ⟨false, .int32, false, 0⟩ } = .panic) ∧
    outcome .nodeClass { Shape.good with val := ⟨false, .int32, false, 0⟩ } = .value ∧
    outcome .namespaceArray { Shape.good with val := ⟨false, .int32, false, 0⟩ } = .error := by
  decide
theorem C21_finding_nodeclass_empty_int_array :
    outcome .nodeClass (witness .nodeClass) = .panic ∧
    sigOf .nodeClass (witness .nodeClass) = some "C21.nodeclass-empty-int-array" := by decide

/-- non-vacuity: conforming shapes exist and give values -/
example : conforming .subMonitor { Shape.good with nReq := 3, results := [true, false, true] } ∧
    outcome .subMonitor { Shape.good with nReq := 3, results := [true, false, true] } = .value := by
  refine ⟨⟨rfl, rfl, by decide, rfl, rfl, ?_, ?_⟩, by decide⟩
  · intro t h; simp [wantTid] at h
  · intro kn h; simp [Shape.good] at h

end Opcua.Props.C21
