import OpcuaModel.Model.ClientResp
import OpcuaModel.Gen.ClientSites
/-
  C21 — client calls never panic on any well-formed server response.

  `outcome op shape` is the model of every client operation as a function of
  the shape of the server's answers (Model/ClientResp.lean); `Gen.clientSites`
  is the list of index / slice / unchecked-assertion sites of the anchored
  files regenerated from the source; `auditedSites` classifies each of them.
  (Round 2: the 13 defects found in round 1 are repaired in /repo; the model
  mirrors the repaired code and the property is proved for all operations.)
-/
namespace Opcua.Props.C21
open Opcua.ClientResp

/-- TIE: the sites in the working tree are exactly the audited ones (same
    functions, same operands, same multiplicity).  A new index expression or
    unchecked assertion in the anchored files breaks this theorem. -/
theorem C21_sites : Gen.clientSites = auditedSites.map (·.1) := by
  decide +kernel

/-- every audited site is guarded: none is marked as panicking -/
theorem C21_audit_all_safe : auditAllSafe = true := by
  decide +kernel

/-- C21, FULL STRENGTH: for every client operation (all plain calls, Call, the
    node getters, NamespaceArray, Stats, References/browseNext, Translate,
    Subscribe, Cancel, Monitor, ModifyMonitoredItems, the reconnect loop's
    recreate / transfer steps and the publish loop) and EVERY answer shape
    (any kind, unbounded array lengths and chains, any Variant class) the
    outcome is a value or an error, never a panic. -/
theorem C21_nopanic (op : Op) (s : Shape) : outcome op s ≠ .panic := by
  cases op with
  | plain p => simp only [outcome]; split <;> simp
  | call => simp only [outcome]; split <;> (try split) <;> simp
  | nodeAttribute => simp only [outcome, getter]; split <;> simp
  | subStats => simp only [outcome, getter]; split <;> simp
  | nodeClass => simp only [outcome, getter]; split <;> simp [variantInt]
  | namespaceArray => simp only [outcome, getter]; split <;> (try split) <;> simp
  | browseName => simp only [outcome, getter]; split <;> simp [assertScalar] <;> (repeat' split) <;> simp
  | description => simp only [outcome, getter]; split <;> simp [assertScalar] <;> (repeat' split) <;> simp
  | displayName => simp only [outcome, getter]; split <;> simp [assertScalar] <;> (repeat' split) <;> simp
  | accessLevel => simp only [outcome, getter]; split <;> simp [assertScalar] <;> (repeat' split) <;> simp
  | userAccessLevel => simp only [outcome, getter]; split <;> simp [assertScalar] <;> (repeat' split) <;> simp
  | references =>
    simp only [outcome, references]
    split <;> (try simp)
    split <;> (try simp)
    exact browseLoop_ne_panic' s.chain
  | translate => simp only [outcome, translate]; split <;> (try split) <;> (try split) <;> simp
  | subscribe => simp only [outcome, subscribe]; split <;> (try split) <;> simp
  | subCancel =>
    simp only [outcome, subDelete]
    split <;> (try simp)
    split <;> simp
  | subMonitor =>
    simp only [outcome, subMonitor]
    split <;> (try simp)
    by_cases h : s.nRes = s.nReq <;> simp [h, indexLoop_zero_eq]
  | subModifyItems =>
    simp only [outcome, subModifyItems, modifyLoop_eq, Nat.sub_zero]
    split <;> (try simp)
    split <;> (try simp)
    by_cases h : s.nRes = s.nReq
    · have : List.drop s.nReq s.results = [] := by
        apply List.drop_eq_nil_of_le; simp [Shape.nRes] at h; omega
      simp [h, this]
    · simp [h]
  | recreateItems =>
    simp only [outcome, recreateItems]
    split <;> (try simp)
    by_cases h : s.nRes = s.nReq <;> simp [h, indexLoop_zero_eq]
  | transferOnReconnect =>
    simp only [outcome, transferOnReconnect]
    split <;> (try simp)
    by_cases h : s.nRes = s.nReq <;> simp [h, indexLoop_zero_eq]
  | publish => simp only [outcome, publish]; split <;> (try simp); exact handleAcks_ne_panic _ _

/-- the shapes that made the unrepaired code panic now give an error (the
    reconnect loop logs and drops it, NodeClass of an array is 0: `value`) -/
theorem C21_old_witnesses_handled :
    oldWitnesses.map (fun p => outcome p.1 p.2) =
      [.error, .error, .error, .value, .value, .error, .error, .error, .error, .error, .error, .error, .value] := by
  decide

/-- a malformed answer is never mistaken for a good one: fewer or more results
    than request items give an error in Monitor / ModifyMonitoredItems, an
    empty result array in Cancel / References -/
theorem C21_length_mismatch_is_error (s : Shape) (hk : s.kind = .ok) (hi : s.idsKnown = true) (h : s.nRes ≠ s.nReq) :
    outcome .subMonitor s = .error ∧ outcome .subModifyItems s = .error := by
  simp [outcome, subMonitor, subModifyItems, sendOk, hk, hi, h]

/-- a conforming answer (see `conforming`) is accepted: Monitor, Cancel,
    References and the typed getters return a value on it -/
theorem C21_conforming_accepted (s : Shape) (hm : conforming .subMonitor s) : outcome .subMonitor s = .value := by
  rcases hm with ⟨hk, hn, _, _, _, _, _⟩
  simp [outcome, subMonitor, sendOk, hk, hn, indexLoop_zero_eq]

/-- non-vacuity: conforming shapes exist and give values; errors are errors -/
example : outcome .subMonitor { Shape.good with nReq := 3, results := [true, false, true] } = .value ∧
    outcome .browseName { Shape.good with val := ⟨true, .qname, false, 0⟩ } = .value ∧
    outcome .browseName Shape.good = .error ∧
    outcome .references { Shape.good with chain := [(.ok, 2), (.ok, 1)] } = .value := by
  decide

end Opcua.Props.C21
