import OpcuaModel.Model.Recv
import OpcuaModel.Model.RecvSpec
import OpcuaModel.Model.RecvTok
/-
  C10 — a replayed secured chunk is never delivered twice.

  The full-strength statement ("a chunk that is re-sent verbatim, or re-ordered
  to arrive after later chunks, is rejected; accepted sequence numbers strictly
  increase") is FALSE on the unchanged code: `readChunk` decodes the sequence
  header after `verifyAndDecrypt` and never compares it with anything, and
  `SecureChannel` has no field that could remember a received sequence number.
  This file proves the negation on the model (`C10_finding_*`, universally, not
  only for one witness) and the one thing the code does guarantee: the
  duplicate filter of `mergeChunks` drops a chunk that immediately follows a
  chunk with the same number *inside one multi-chunk message*.
-/
namespace Opcua.Props.C10
open Opcua Opcua.Recv Opcua.Recv.Spec

/-- a chunk that `Receive` treats as final -/
def isFinal (c : Chunk) : Prop := c.ct ≠ ctA ∧ c.ct ≠ ctC

theorem step_final_single (cfg : Cfg) (bufs : Bufs) (c : Chunk) (hf : isFinal c)
    (hempty : bufs.get c.req = []) (hfit : exceeds cfg.size0 c.data.length cfg.maxMessageSize = false) :
    (step cfg bufs c).2 = .merged c.req c.data ∧ (step cfg bufs c).1.get c.req = [] := by
  have h := step_get_same cfg bufs c
  have h1 : step1 cfg (bufs.get c.req) c = ([], .merged c.req c.data) := by
    simp [step1, hf.1, hf.2, hempty, mergeChunks, hfit]
  rw [h1] at h
  exact ⟨(Prod.mk.inj h).2, (Prod.mk.inj h).1⟩

/-- FINDING C10.replay-delivered-twice, for EVERY single-chunk message: fed
    twice in a row, the copy is delivered a second time, whatever its
    sequence number. -/
theorem C10_finding_replay_single (cfg : Cfg) (bufs : Bufs) (c : Chunk) (hf : isFinal c)
    (hempty : bufs.get c.req = []) (hfit : exceeds cfg.size0 c.data.length cfg.maxMessageSize = false) :
    runOuts cfg bufs [c, c] = [.merged c.req c.data, .merged c.req c.data] := by
  obtain ⟨h1, h2⟩ := step_final_single cfg bufs c hf hempty hfit
  obtain ⟨h3, _⟩ := step_final_single cfg (step cfg bufs c).1 c hf h2 hfit
  simp [runOuts, h1, h3]

/-- the same for secured frames: whatever `verifyAndDecrypt` and the header
    decoding do (`unwrap`), a frame that opens to a single-chunk message is
    delivered again when it is re-sent verbatim. -/
theorem C10_finding_replay_sealed (unwrap : Bytes → Option Chunk) (cfg : Cfg) (bufs : Bufs)
    (frame : Bytes) (c : Chunk) (hu : unwrap frame = some c) (hf : isFinal c)
    (hempty : bufs.get c.req = []) (hfit : exceeds cfg.size0 c.data.length cfg.maxMessageSize = false) :
    deliveredSealed (runSealed unwrap cfg bufs [frame, frame]) = [(c.req, c.data), (c.req, c.data)] := by
  obtain ⟨h1, h2⟩ := step_final_single cfg bufs c hf hempty hfit
  obtain ⟨h3, _⟩ := step_final_single cfg (step cfg bufs c).1 c hf h2 hfit
  simp [runSealed, stepSealed, hu, deliveredSealed, delivered, h1, h3]

/-- … and for EVERY complete message of any number of chunks (within the
    limits, guard of C12): replaying its whole chunk sequence delivers the body
    a second time. -/
theorem C10_finding_replay_message (cfg : Cfg) (m : SMsg) (bufs : Bufs)
    (hfit : m.fits cfg) (hg : m.noDrop) (hna : m.abort = false) (hfresh : bufs.get m.req = []) :
    delivered (runOuts cfg bufs (m.chunks ++ m.chunks)) = [(m.req, m.body), (m.req, m.body)] := by
  have hchunks : ∀ c ∈ m.chunks, c.req = m.req := by
    intro c hc
    simp only [SMsg.chunks, SMsg.interChunks, SMsg.lastChunk, List.mem_append, List.mem_map, List.mem_singleton] at hc
    rcases hc with ⟨p, _, rfl⟩ | rfl <;> rfl
  have hproj : m.chunks.filter (fun c => c.req == m.req) = m.chunks := by
    rw [List.filter_eq_self]
    intro c hc
    simp [hchunks c hc]
  have once : ∀ b : Bufs, b.get m.req = [] →
      delivered (runOuts cfg b m.chunks) = [(m.req, m.body)] ∧ (runFinal cfg b m.chunks).get m.req = [] := by
    intro b hb
    have h := run_spec cfg [m] (by simpa using hfit) (by simpa using hg) m.chunks b
      (by intro c hc; exact ⟨m, by simp, (hchunks c hc).symm⟩)
      (by
        intro m' hm'
        have : m' = m := by simpa using hm'
        subst this
        right
        rw [hproj, hb]
        exact ⟨by simp [SMsg.chunks], rfl⟩)
    refine ⟨?_, h.2.1 m (by simp)⟩
    rw [h.1]
    -- the specification's result list for the chunks of one message
    have hmap : m.chunks.map (specOut [m]) = m.interChunks.map (fun _ => Out.cont) ++ [m.expected] := by
      simp only [SMsg.chunks, List.map_append, List.map_cons, List.map_nil]
      congr 1
      · apply List.map_congr_left
        intro c hc
        simp [specOut, interChunks_ct m hc]
      · have : m.lastChunk.ct ≠ ctC := lastChunk_ct m
        have hr : m.lastChunk.req = m.req := rfl
        simp [specOut, this, hr]
    rw [hmap, delivered_append]
    simp [delivered, SMsg.expected, hna]
  obtain ⟨d1, f1⟩ := once bufs hfresh
  obtain ⟨d2, _⟩ := once (runFinal cfg bufs m.chunks) f1
  rw [runOuts_append, delivered_append, d1, d2]
  rfl

/-- FINDING C10.no-sequence-check: the result of a final chunk with nothing
    buffered does not depend on its sequence number at all — re-ordered,
    decreasing, repeated numbers are all accepted. -/
theorem C10_finding_seq_ignored (cfg : Cfg) (bufs : Bufs) (c : Chunk) (s : Nat) (hf : isFinal c)
    (hempty : bufs.get c.req = []) :
    (step cfg bufs { c with seq := s }).2 = (step cfg bufs c).2 := by
  have h1 := step_get_same cfg bufs c
  have h2 := step_get_same cfg bufs { c with seq := s }
  have e : step1 cfg (bufs.get c.req) { c with seq := s } = step1 cfg (bufs.get c.req) c := by
    obtain ⟨hA, hC⟩ := hf
    simp [step1, hA, hC, hempty, mergeChunks]
  have h2' : (step cfg bufs { c with seq := s }).2 = (step1 cfg (bufs.get c.req) { c with seq := s }).2 := by
    rw [← h2]
  have h1' : (step cfg bufs c).2 = (step1 cfg (bufs.get c.req) c).2 := by rw [← h1]
  rw [h2', h1', e]

/-- counterexample to "accepted sequence numbers strictly increase": numbers
    9, 3, 3 are accepted and all three messages delivered -/
theorem C10_finding_reorder :
    delivered (runOuts { maxChunkCount := 512, maxMessageSize := 2097152 } [] [⟨ctF, 9, 1, [1]⟩, ⟨ctF, 3, 2, [2]⟩, ⟨ctF, 3, 3, [3]⟩]) =
      [(1, [1]), (2, [2]), (3, [3])] := by decide

/-! ### what the code does guarantee -/

/-- a chunk that immediately follows a chunk with the same sequence number is
    skipped by the loop of `mergeChunks` -/
theorem C10_consecutive_duplicate_dropped (prev : Nat) (c d : Chunk) (t : List Chunk) (h : d.seq = c.seq) :
    mergeLoop prev (c :: d :: t) = mergeLoop prev (c :: t) := by
  by_cases hc : c.seq = prev
  · simp [mergeLoop, hc, h]
  · simp [mergeLoop, hc, h]

/-- so inside a multi-chunk message a verbatim copy right after the original
    does not change the merged body (the message must have two or more chunks
    apart from the copy: the single-chunk shortcut bypasses the filter — which
    is harmless there, `[c, c]` merges to `c.data` as well) -/
theorem C10_duplicate_in_message (pre : List Chunk) (c : Chunk) (post : List Chunk) :
    mergeChunks (pre ++ c :: c :: post) = mergeChunks (pre ++ c :: post) := by
  have loop : ∀ (prev : Nat) (pre : List Chunk),
      mergeLoop prev (pre ++ c :: c :: post) = mergeLoop prev (pre ++ c :: post) := by
    intro prev pre
    induction pre generalizing prev with
    | nil => exact C10_consecutive_duplicate_dropped prev c c post rfl
    | cons x r ih =>
      simp only [List.cons_append, mergeLoop]
      split
      · exact ih prev
      · rw [ih x.seq]
  match pre, post with
  | [], [] => simp [mergeChunks, mergeLoop]
  | [], z :: w => simp [mergeChunks, mergeLoop]
  | [x], _ =>
    simp only [List.cons_append, List.nil_append, mergeChunks]
    have := loop x.seq []
    simp only [List.nil_append] at this
    rw [this]
  | x :: y :: r, _ =>
    simp only [List.cons_append, mergeChunks]
    have := loop x.seq (y :: r)
    simpa using congrArg (x.data ++ ·) this

/-- the guarantee is that narrow: a copy that does not follow its original
    immediately is merged a second time, and a copy of a two-chunk message's
    final chunk, arriving after the message, is delivered as a message of its
    own -/
theorem C10_guarantee_is_narrow :
    mergeChunks [⟨ctC, 5, 1, [1]⟩, ⟨ctC, 6, 1, [2]⟩, ⟨ctC, 5, 1, [1]⟩, ⟨ctF, 7, 1, [3]⟩] = [1, 2, 1, 3] ∧
    delivered (runOuts { maxChunkCount := 512, maxMessageSize := 2097152 } [] [⟨ctC, 5, 1, [1]⟩, ⟨ctF, 6, 1, [2]⟩, ⟨ctF, 6, 1, [2]⟩]) =
      [(1, [1, 2]), (1, [2])] := by decide

/-! ### replay across a token renewal (client channel; ties C10 with C17's instance table) -/

open Opcua.Tokens Opcua.RecvTok in
/-- FINDING C10.replay-delivered-twice, across renewals: a frame secured under
    a token of channel `f.chan` and delivered once is delivered AGAIN when it is
    re-sent after ANY sequence of OpenSecureChannel responses (renewals) and
    expiry timers in which no expiring token id equals the channel id — the
    superseded instance is never removed (C17) and no sequence number is
    compared (C10), so the replay window of a captured chunk never closes
    while the connection lives. -/
theorem C10_finding_replay_across_renewal (cfg : Cfg) (st : RecvTok.St) (f : SFrame) (i : Inst) (evs : List Ev)
    (hm : i ∈ st.table.get f.chan) (hk : i.key = f.key) (hno : NoTokEqChan f.chan evs)
    (hf : isFinal f.chunk) (hempty : st.bufs.get f.chunk.req = [])
    (hfit : exceeds cfg.size0 f.chunk.data.length cfg.maxMessageSize = false) :
    deliveredTok (RecvTok.run cfg st (.frame f :: (evs.map In.table ++ [.frame f]))) =
      [(f.chunk.req, f.chunk.data), (f.chunk.req, f.chunk.data)] := by
  obtain ⟨tok1, hv1⟩ := verify_accepts_of_mem st.table f.chan f.key i hm hk
  obtain ⟨tok2, hv2⟩ := verify_accepts_of_mem (runEvs st.table evs) f.chan f.key i
    (kept_forever f.chan evs st.table i hno hm) hk
  obtain ⟨h1, h2⟩ := step_final_single cfg st.bufs f.chunk hf hempty hfit
  obtain ⟨h3, _⟩ := step_final_single cfg (Recv.step cfg st.bufs f.chunk).1 f.chunk hf h2 hfit
  have hstep1 : RecvTok.step cfg st (.frame f) =
      ({ st with bufs := (Recv.step cfg st.bufs f.chunk).1 }, some (.merged f.chunk.req f.chunk.data)) := by
    simp [RecvTok.step, hv1, h1]
  simp only [RecvTok.run, hstep1, run_append, final_table_events, deliveredTok, List.filterMap_cons,
    List.filterMap_append, run_table_events, id]
  simp [RecvTok.step, hv2, h3, delivered]

open Opcua.Tokens Opcua.RecvTok in
/-- what closes the window: when the token id equals the channel id and its
    expiry has run (keys unique per token), the copy is rejected by `readChunk` -/
theorem C10_old_token_copy_rejected_after_expiry (cfg : Cfg) (st : RecvTok.St) (f : SFrame) (i : Inst)
    (hi : i.chan = f.chan) (hk : i.key = f.key) (htok : i.tok = i.chan)
    (huniq : ∀ o ∈ st.table.get i.chan, o.key = i.key → o.tok = i.tok) :
    (RecvTok.step cfg { st with table := expire st.table i } (.frame f)).2 = none := by
  have hv : ∀ tok, verify (expire st.table i) f.chan f.key ≠ .accepted tok := by
    rw [← hi, ← hk]
    -- Props.C17.C17_rejected_when_tok_eq_chan, re-proved here from the model lemmas
    intro tok hv
    unfold verify at hv
    have hget : (expire st.table i).get i.chan = (st.table.get i.chan).filter (fun o => !(o.tok == i.tok)) := by
      rw [← htok]; exact expire_get_tok st.table i
    rw [hget] at hv
    cases hl : (st.table.get i.chan).filter (fun o => !(o.tok == i.tok)) with
    | nil => rw [hl] at hv; cases hv
    | cons a l =>
      rw [hl] at hv
      change (match (a :: l).reverse.find? (fun j => j.key == i.key) with
        | some i => Verdict.accepted i.tok
        | none => Verdict.securityFailed) = Verdict.accepted tok at hv
      cases hfd : (a :: l).reverse.find? (fun j => j.key == i.key) with
      | none => rw [hfd] at hv; cases hv
      | some j =>
        have hj := List.mem_of_find?_eq_some hfd
        have hkk := List.find?_some hfd
        have hj' : j ∈ (st.table.get i.chan).filter (fun o => !(o.tok == i.tok)) := by
          rw [hl]; exact List.mem_reverse.mp hj
        obtain ⟨hj1, hj2⟩ := List.mem_filter.mp hj'
        have : j.tok = i.tok := huniq j hj1 (by simpa using hkk)
        simp [this] at hj2
  cases hvv : verify (expire st.table i) f.chan f.key with
  | accepted tok => exact absurd hvv (hv tok)
  | noInstance => simp [RecvTok.step, hvv]
  | securityFailed => simp [RecvTok.step, hvv]

/-- the witness: channel 7, token 1 (keys 101) → renewed by token 2 (keys 102)
    → expiry of token 1 fires → the captured frame of token 1 is delivered again -/
theorem C10_finding_replay_across_renewal_witness :
    RecvTok.deliveredTok (RecvTok.run { maxChunkCount := 512, maxMessageSize := 2097152 }
      { table := [(7, [⟨7, 1, 101⟩])], bufs := [] }
      [.frame ⟨7, 101, ⟨ctF, 5, 9, [1, 2]⟩⟩, .table (.opn ⟨7, 2, 102⟩), .table (.expire ⟨7, 1, 101⟩),
       .frame ⟨7, 101, ⟨ctF, 5, 9, [1, 2]⟩⟩]) = [(9, [1, 2]), (9, [1, 2])] := by decide

/-! ### OPN chunks

  An OPN chunk that passed `verifyAndDecrypt` goes through the very same loop
  body (`Recv.step`): chunk-type switch, merge, `ua.DecodeService`; a decoded
  OpenSecureChannelRequest is then handed to `handleOpenSecureChannelRequest`.
  Nothing on this path compares a sequence number either, so the theorems
  above apply verbatim to OPN chunks: a replayed OpenSecureChannel request is
  decoded — and handled — a second time (`C10_finding_replay_single` with the
  OPN chunk as `c`; confirmed on the real code by the runner, case `opn-replay`). -/

end Opcua.Props.C10
