import OpcuaModel.Model.SrvRobustLemmas
/-
  C29 — no client can crash or hang the server.

  `Srv.step` (Model/SrvHandlers.lean) gives every handler as a total function
  state × token × request shape → state × (answer | fault | crash); a `crash`
  is an unrecovered Go panic in the dispatcher goroutine or a subscription
  goroutine (`Gen.SrvRobust.recoverers = []`): the process exits.
  `Srv.dispatch` models the single dispatcher that writes responses without a
  deadline.

  Handlers: the crashing request shapes of the model are characterised exactly
  (C29_crash_iff: crash ⇔ ¬ safe, with `safe` reading the regenerated source
  facts).  All handler-level crash sites found on the original code have been
  repaired; with the regenerated facts of the current tree the property holds
  at FULL STRENGTH for the handlers: in every well-formed state — the empty
  server is one and every request keeps it so — no request shape with any token
  makes the process exit (C29_wf_invariant, C29_nopanic, C29_nopanic_sequences);
  the C29_repaired_* lemmas restate the former counterexamples.  A reverted
  repair flips a fact and breaks these proofs.
  Hang: still FALSE — one client that does not read its responses blocks the
  single dispatcher for everybody (C29_finding_nonreading_hang); with reading
  clients everybody is served (C29_readers_served).
-/
namespace Opcua.Props.C29
open Opcua Opcua.Srv Opcua.Gen.SrvRobust

/-! ### source facts -/

/-- `handleService` runs inline in the only dispatcher loop, responses are written without a
    deadline, nothing in packages server / uasc recovers from a panic, and `suitableRefType` no longer
    contains the loop around `slices.Delete` (repaired together with C33). -/
theorem C29_facts :
    Gen.SrvSession.subIdByLen = false ∧ Gen.SrvSession.setModeUnknownContinues = true ∧
    Gen.SrvSession.setModeMismatchContinues = true ∧ Gen.SrvSession.delItemsUnknownContinues = true ∧
    Gen.SrvSession.delItemsMismatchContinues = true ∧
    Gen.SrvSession.newSessionSignatureChecked = true ∧ Gen.SrvSession.verifySessionSignatureChecked = true ∧
    Gen.SrvSession.findServersChecksEndpoints = true ∧ Gen.SrvSession.dataTypeAssertionChecked = true ∧
    Gen.SrvSession.publishingIntervalRevised = true ∧
    dispatcherInline = true ∧ responseWriteDeadline = false ∧ recoverers = [] ∧ refTypeDeleteLoop = false ∧
    signedChunkLengthChecked = true ∧ receiveBufFullCapacity = true := by decide

/-- On the regenerated `getSubRefs` lists the deletion loop of `suitableRefType` panics for exactly
    these reference types: References, HierarchicalReferences, HasChild (relevant only while
    `refTypeDeleteLoop` holds). -/
theorem C29_browse_table :
    (subRefs.filter fun p => listPanics p.2).map (·.1) = [31, 33, 34] := by decide +kernel

/-- Whatever the list: once `HasSubtype` sits at an index n > 0 the loop never terminates normally —
    it deletes index n until `slices.Delete` is out of range. -/
theorem C29_deleteLoop_always_panics (l : List Nat) (n : Nat) (hn : 0 < n) :
    deleteLoop (l.length + 1) l n = none :=
  deleteLoop_panics (l.length + 1) l n hn (by omega) (by omega)

/-- `time.NewTicker` gets a non-positive duration for every interval below one millisecond … -/
theorem C29_interval_subms (dur : Int) (h1 : dur ≤ 0) (h2 : -9223372036854 < dur) :
    intervalOf dur = .subMs := by
  unfold intervalOf wrap64
  have : (1000000 * dur + 9223372036854775808) % 18446744073709551616 - 9223372036854775808 ≤ 0 := by
    rw [Int.emod_eq_of_lt (by omega) (by omega)]; omega
  simp [this]

/-- … and a positive one for every interval from 1 ms up to 292 years. -/
theorem C29_interval_ok (dur : Int) (h1 : 0 < dur) (h2 : dur < 9223372036854) :
    intervalOf dur ≠ .subMs := by
  unfold intervalOf wrap64
  have : ¬ ((1000000 * dur + 9223372036854775808) % 18446744073709551616 - 9223372036854775808 ≤ 0) := by
    rw [Int.emod_eq_of_lt (by omega) (by omega)]; omega
  simp only [this, if_false]
  split <;> simp

/-! ### the handlers: exactly which request shapes crash -/

/-- A request crashes the server iff it is not `safe` — for every state, token and request.
    `safe` = the dispatcher answers itself (no handler, stub, nil-checked session lookup that fails:
    all read from the regenerated table) or the handler body cannot panic on this shape. -/
theorem C29_crash_iff (st : St) (t : Tok) (r : Req) :
    (step st t r).2.isCrash = !safe st t r := by
  unfold safe
  cases hp : preempted st t r with
  | true => simp [step_preempted st t r hp]
  | false => rw [step_not_preempted st t r hp, body_crash_iff]; simp

/-- C29 for the handlers, on the part of the input space where it holds. -/
theorem C29_nopanic_partial (st : St) (t : Tok) (r : Req) (g : safe st t r = true) :
    (step st t r).2.isCrash = false := by
  rw [C29_crash_iff, g]; rfl

/-- A safe request sequence never loses the server. -/
theorem C29_sequence_partial (st : St) (l : List (Tok × Req))
    (g : ∀ x ∈ l, ∀ st', safe st' x.1 x.2 = true) : (runSteps st l).2.isCrash = false := by
  induction l generalizing st with
  | nil => rfl
  | cons x rest ih =>
    obtain ⟨t, r⟩ := x
    unfold runSteps
    have hc := C29_nopanic_partial st t r (g (t, r) (by simp) st)
    have ih := fun s => ih s (fun y hy => g y (by simp [hy]))
    cases hs : step st t r with
    | mk st' o =>
      rw [hs] at hc
      cases o with
      | crash s => simp [Out.isCrash] at hc
      | ok d =>
        simp only []
        split
        · rfl
        · exact ih st'
      | sessionErr =>
        simp only []
        split
        · rfl
        · exact ih st'
      | fault c =>
        simp only []
        split
        · rfl
        · exact ih st'
      | noResponse =>
        simp only []
        split
        · rfl
        · exact ih st'

/-- Every crashing request of the model falls under one of the recorded signatures. -/
theorem C29_sig_cover (st : St) (t : Tok) (r : Req) (h : (step st t r).2.isCrash = true) :
    sig29 st t r ≠ "C29.unclassified" := by
  rw [C29_crash_iff] at h
  unfold safe at h
  have hb : safeBody st t r = false := by
    cases hs : safeBody st t r with
    | false => rfl
    | true => simp [hs] at h
  cases r <;> simp [safeBody] at hb <;> simp [sig29] <;> (try split) <;> simp

/-! ### counterexamples: one per finding -/

/-- session 1 created and activated, session 2 created and activated, subscription 1 (item 1) owned
    by session 1, subscription 2 owned by session 2 -/
def st2 : St :=
  { sessions := [⟨1, true, 0, true⟩, ⟨2, true, 0, true⟩], subs := [⟨1, some 1⟩, ⟨2, some 2⟩], items := [⟨1, 1⟩], nextItem := 1, lastSub := 2, value := 5 }

/-- repaired (was finding C29.findservers-no-endpoints): FindServers on a server without endpoints
    answers (with an empty server list) instead of indexing an empty slice. -/
theorem C29_repaired_findservers (st : St) (t : Tok) : step st t .findServers = (st, .ok "") := by
  have h : Gen.SrvSession.findServersChecksEndpoints = true := by decide
  simp [step, Req.name, handlerOf_findServers, body, h]

/-- repaired (was findings C29.createsession-nonrsa-certificate / C29.activatesession-nonrsa-certificate):
    a client certificate without RSA key is refused with a fault on signed channels, by CreateSession
    (BadCertificateInvalid) and by ActivateSession (BadSecurityChecksFailed). -/
theorem C29_repaired_nonrsa_certificate :
    (step st2 0 (.createSession 3 true .nonRsa)).2 = .fault "BadCertificateInvalid" ∧
    (step st2 0 (.createSession 3 true .unparsable)).2 = .fault "BadInternalError" ∧
    (step st2 0 (.createSession 3 false .nonRsa)).2 = .ok "" ∧
    (step { st2 with sessions := [⟨3, false, 0, false⟩] } 3 (.activateSession true true)).2 = .fault "BadSecurityChecksFailed" := by
  decide

/-- repaired (was finding C29.createsubscription-nonpositive-interval): the raw arithmetic still says
    that 0 ms, NaN (→ minimum int64) or an overflowing value would hand `time.NewTicker` a non-positive
    duration, but CreateSubscription now revises the interval first (regenerated fact
    `publishingIntervalRevised`): no interval class kills the subscription goroutine. -/
theorem C29_repaired_interval :
    intervalOf 0 = .subMs ∧ intervalOf (-9223372036854775808) = .subMs ∧ intervalOf 9223372036855 = .subMs ∧
    Gen.SrvSession.publishingIntervalRevised = true ∧
    (step st2 1 (.createSubscription .subMs)).2 = .ok "" ∧
    (step st2 1 (.createSubscription .small)).2 = .ok "" := by decide

/-- the revised interval is always one the ticker accepts -/
theorem C29_revised_interval_ok (ms : Int) : intervalOf (reviseMs ms) ≠ .subMs := by
  apply C29_interval_ok <;> unfold reviseMs <;> (repeat' split) <;> omega

/-- with a session, CreateSubscription never crashes, whatever interval is requested -/
theorem C29_createsubscription_safe (st : St) (t : Tok) (iv : Interval) (h : (findSession st t).isSome = true) :
    (step st t (.createSubscription iv)).2.isCrash = false := by
  rw [C29_crash_iff]
  have hr : Gen.SrvSession.publishingIntervalRevised = true := by decide
  cases iv <;> simp [safe, safeBody, effectiveInterval, sessionKnown, h, hr]

/-! ### repaired: the nil-session call sites (were findings C29.createsubscription-nil-session-tick,
    C29.deletesubscriptions-nil-session, C29.createmonitoreditems-nil-session,
    C29.setmonitoringmode-nil-session, C29.deletemonitoreditems-nil-session) -/

/-- A request of the subscription / monitored-item services whose token is not in the session table
    never reaches a handler body: it is answered with a session fault, nothing changes, nothing is
    dereferenced — for every state, id list, subscription id, item count and interval. -/
theorem C29_repaired_nil_session (st : St) (t : Tok) (h : findSession st t = none)
    (iv : Interval) (ids : List Nat) (sub n : Nat) :
    step st t (.createSubscription iv) = (st, .sessionErr) ∧
    step st t (.deleteSubscriptions ids) = (st, .sessionErr) ∧
    step st t (.createMonitoredItems sub n) = (st, .sessionErr) ∧
    step st t (.setMonitoringMode ids) = (st, .sessionErr) ∧
    step st t (.deleteMonitoredItems ids) = (st, .sessionErr) := by
  refine ⟨?_, ?_, ?_, ?_, ?_⟩ <;>
    simp [step, Req.name, handlerOf_createSubscription, handlerOf_deleteSubscriptions,
      handlerOf_createMonitoredItems, handlerOf_setMonitoringMode, handlerOf_deleteMonitoredItems, h]

/-- Every subscription has an owning session (`ownersSet`) and no request can create one without: subscriptions with a nil session pointer (the other
    half of the old crashes: an activated session touching such a subscription) are unreachable. -/
theorem C29_owners_invariant (st : St) (t : Tok) (r : Req) (h : ownersSet st = true) :
    ownersSet (step st t r).1 = true := by
  cases hp : preempted st t r with
  | true =>
    have : (step st t r).1 = st := by
      unfold preempted at hp
      unfold step
      cases hh : handlerOf r.name with
      | none => rfl
      | some x =>
        simp only [hh] at hp
        by_cases hu : x.unsupported = true
        · simp [hu]
        · simp only [hu, Bool.false_or, Bool.false_eq_true, if_false] at hp ⊢
          simp [hp]
    rw [this]; exact h
  | false =>
    rw [step_not_preempted st t r hp]
    cases r with
    | createSubscription iv =>
      -- not pre-empted and the table row says nil-checked: the session exists
      have hk : (findSession st t).isSome = true := by
        unfold preempted at hp
        simp only [Req.name, handlerOf_createSubscription] at hp
        cases hf : findSession st t <;> simp [hf] at hp ⊢
      obtain ⟨x, hx⟩ := Option.isSome_iff_exists.mp hk
      cases iv <;> simp only [body, hx, Option.map_some] <;> (repeat' split) <;> exact putSub_owners _ _ _ h
    | deleteSubscriptions ids =>
      simp only [body]
      split
      · exact h
      · unfold ownersSet at *
        exact List.all_eq_true.mpr fun s hs => List.all_eq_true.mp h s (List.mem_filter.mp hs).1
    | createMonitoredItems s n => simp only [body]; (repeat' split) <;> exact h
    | setMonitoringMode ids => simp only [body]; split <;> exact h
    | deleteMonitoredItems ids => simp only [body]; split <;> exact h
    | findServers => simp only [body]; split <;> exact h
    | getEndpoints => exact h
    | createSession k s c => cases s <;> cases c <;> simp only [body] <;> (repeat' split) <;> exact h
    | activateSession s ok => simp only [body]; (repeat' split) <;> exact h
    | closeSession => exact h
    | read => simp only [body]; split <;> exact h
    | write v => simp only [body]; split <;> exact h
    | writeAttr w a => simp only [body]; (repeat' split) <;> exact h
    | browse c b => simp only [body]; (repeat' split) <;> exact h
    | publish => simp only [body]; split <;> exact h
    | other n => exact h

theorem C29_finding_deletesubscriptions :
    step st2 0 (.deleteSubscriptions [1]) = (st2, .sessionErr) ∧
    (step st2 1 (.deleteSubscriptions [7, 1])).2 = .ok "BadSubscriptionIDInvalid,Good" ∧
    (step st2 2 (.deleteSubscriptions [1])).2 = .ok "BadSessionIDInvalid" := by decide

theorem C29_finding_createmonitoreditems :
    step st2 0 (.createMonitoredItems 1 1) = (st2, .sessionErr) ∧
    (step st2 2 (.createMonitoredItems 1 1)).2 = .fault "BadUnexpectedError" ∧
    (step st2 1 (.createMonitoredItems 1 2)).2 = .ok "Good,Good" := by decide

/-- SetMonitoringMode / DeleteMonitoredItems: unknown ids and foreign items are answered per id
    (repaired with C32), a missing session is a session fault (this repair). -/
theorem C29_finding_setmonitoringmode :
    step st2 0 (.setMonitoringMode [1]) = (st2, .sessionErr) ∧
    (step st2 1 (.setMonitoringMode [9, 1])).2 = .ok "BadMonitoredItemIDInvalid,Good" ∧
    (step st2 2 (.setMonitoringMode [1])).2 = .ok "BadSessionIDInvalid" := by decide

theorem C29_finding_deletemonitoreditems :
    step st2 0 (.deleteMonitoredItems [1]) = (st2, .sessionErr) ∧
    step st2 1 (.deleteMonitoredItems [9]) = (st2, .ok "BadMonitoredItemIDInvalid") ∧
    step st2 2 (.deleteMonitoredItems [1]) = (st2, .ok "BadSessionIDInvalid") ∧
    step st2 1 (.deleteMonitoredItems [1]) = ({ st2 with items := [] }, .ok "Good") := by decide

/-- Browse with IncludeSubtypes = false no longer reaches a deletion loop (the generated fact says
    the loop is gone): every Browse class is `plain`.  Had the loop stayed, References (31),
    HierarchicalReferences (33) and HasChild (34) would kill the server (C29_browse_table,
    C29_deleteLoop_always_panics) — this was finding C29.browse-suitablereftype-loop. -/
theorem C29_browse_no_loop (rt : Nat) (inc other : Bool) : browseClsOf rt inc other = .plain := by
  have h : refTypeDeleteLoop = false := by decide
  simp [browseClsOf, h]

/-- repaired (was finding C29.browse-datatype-type-assertion): any client may still overwrite the
    DataType attribute of a node with a value of another type (a C31 matter), but Browse treats such a
    value like a missing attribute instead of asserting its type. -/
theorem C29_repaired_browse_datatype :
    step st2 0 (.writeAttr "DataType" .wrongType) = ({ st2 with dataTypeAttr := .wrongType }, .ok "Good") ∧
    (step { st2 with dataTypeAttr := .wrongType } 0 (.browse .plain true)).2 = .ok "Good" ∧
    (step { st2 with dataTypeAttr := .noValue } 0 (.browse .plain true)).2 = .ok "Good" := by decide

/-! ### full strength for the handlers: with the repairs in place no request shape of the model
    crashes the server, in any state the services can reach -/

/-- the tables stay well-formed (every subscription owned, every item's subscription present) -/
theorem C29_wf_invariant (st : St) (t : Tok) (r : Req) (h : wf st = true) : wf (step st t r).1 = true := by
  unfold wf at *
  rw [Bool.and_eq_true] at *
  refine ⟨C29_owners_invariant st t r h.1, ?_⟩
  obtain ⟨ho, hi⟩ := h
  cases hp : preempted st t r with
  | true =>
    have : (step st t r).1 = st := by
      unfold preempted at hp
      unfold step
      cases hh : handlerOf r.name with
      | none => rfl
      | some x =>
        simp only [hh] at hp
        by_cases hu : x.unsupported = true
        · simp [hu]
        · simp only [hu, Bool.false_or, Bool.false_eq_true, if_false] at hp ⊢
          simp [hp]
    rw [this]; exact hi
  | false =>
    rw [step_not_preempted st t r hp]
    unfold itemsHaveSubs at *
    have hex : ∀ it ∈ st.items, ∃ s ∈ st.subs, s.id = it.sub := fun it hit =>
      (findSub_isSome_iff st it.sub).mp (List.all_eq_true.mp hi it hit)
    cases r with
    | createSubscription iv =>
      have key : ∀ (sb : Sub) (l : Nat), (st.items.all fun it => (findSub { st with subs := putSub st.subs sb, lastSub := l } it.sub).isSome) = true := by
        intro sb l
        apply List.all_eq_true.mpr
        intro it hit
        exact (findSub_isSome_iff _ it.sub).mpr (putSub_exists st.subs sb it.sub (hex it hit))
      cases iv <;> simp only [body] <;> (repeat' split) <;> exact key _ _
    | deleteSubscriptions ids =>
      simp only [body]
      split
      · exact hi
      · rename_i codes dels _
        apply List.all_eq_true.mpr
        intro it hit
        rw [List.mem_filter] at hit
        obtain ⟨s, hs, hx⟩ := hex it hit.1
        refine (findSub_isSome_iff _ it.sub).mpr ⟨s, ?_, hx⟩
        show s ∈ st.subs.filter _
        rw [List.mem_filter]
        exact ⟨hs, by rw [hx]; exact hit.2⟩
    | createMonitoredItems sub n =>
      simp only [body]
      split
      · exact hi
      · rename_i sb hsb
        (repeat' split) <;> try exact hi
        apply List.all_eq_true.mpr
        intro it hit
        rw [List.mem_append] at hit
        rcases hit with hit | hit
        · exact List.all_eq_true.mp hi it hit
        · rw [newItems_sub _ _ _ it hit]
          show (findSub st sub).isSome = true
          rw [hsb]; rfl
    | deleteMonitoredItems ids =>
      simp only [body]
      split
      · exact hi
      · apply List.all_eq_true.mpr
        intro it hit
        exact List.all_eq_true.mp hi it (List.mem_filter.mp hit).1
    | setMonitoringMode ids => simp only [body]; split <;> exact hi
    | findServers => simp only [body]; split <;> exact hi
    | getEndpoints => exact hi
    | createSession k s c => cases s <;> cases c <;> simp only [body] <;> (repeat' split) <;> exact hi
    | activateSession s ok => simp only [body]; (repeat' split) <;> exact hi
    | closeSession => exact hi
    | read => simp only [body]; split <;> exact hi
    | write v => simp only [body]; split <;> exact hi
    | writeAttr w a => simp only [body]; (repeat' split) <;> exact hi
    | browse c b => simp only [body]; (repeat' split) <;> exact hi
    | publish => simp only [body]; split <;> exact hi
    | other n => exact hi

/-- C29 for the handlers at full strength: in every well-formed state — in particular in every state
    reachable from the freshly started server — no request of any modelled shape, with any token,
    makes the server process exit. -/
theorem C29_nopanic (st : St) (t : Tok) (r : Req) (hw : wf st = true)
    (hr : ∀ b, r ≠ .browse .loopPanics b) :   -- no Browse has this class any more: C29_browse_no_loop
    (step st t r).2.isCrash = false := by
  rw [C29_crash_iff]
  unfold safe
  cases hp : preempted st t r with
  | true => rfl
  | false =>
    simp only [Bool.false_or, Bool.not_eq_false']
    unfold wf at hw
    rw [Bool.and_eq_true] at hw
    obtain ⟨ho, hi⟩ := hw
    have f1 : Gen.SrvSession.findServersChecksEndpoints = true := by decide
    have f2 : Gen.SrvSession.newSessionSignatureChecked = true := by decide
    have f3 : Gen.SrvSession.verifySessionSignatureChecked = true := by decide
    have f4 : Gen.SrvSession.dataTypeAssertionChecked = true := by decide
    have f5 : Gen.SrvSession.publishingIntervalRevised = true := by decide
    have f6 : Gen.SrvSession.setModeUnknownContinues = true := by decide
    have f7 : Gen.SrvSession.delItemsUnknownContinues = true := by decide
    have f8 : refTypeDeleteLoop = false := by decide
    -- a request of a nil-checked handler that was not pre-empted has its session in the table
    have known : ∀ x, handlerOf r.name = some x → x.unsupported = false → x.lookup = "session" → x.nilChecked = true →
        sessionKnown st t = true := by
      intro x hx hu hl hn
      unfold preempted at hp
      simp only [hx, hu, hl, hn, Bool.false_or, beq_self_eq_true, Bool.true_and] at hp
      unfold sessionKnown
      cases hf : findSession st t <;> simp [hf] at hp ⊢
    have itemok : ∀ id it, findItem st id = some it → itemOk st id = true := by
      intro id it hit
      unfold itemOk
      rw [hit]
      have hs := List.all_eq_true.mp hi it (findItem_mem st id it hit)
      cases hsub : findSub st it.sub with
      | none => simp [hsub] at hs
      | some sb => exact subOwned_of_wf st ho it.sub sb hsub
    cases r with
    | findServers => simp [safeBody, f1]
    | getEndpoints => rfl
    | createSession k s c => simp [safeBody, f2]
    | activateSession s ok => simp only [safeBody]; split <;> simp [f3]
    | closeSession => rfl
    | read => rfl
    | write v => rfl
    | writeAttr w a => rfl
    | browse c b =>
      cases c with
      | plain => simp [safeBody, f4]
      | loopPanics => exact absurd rfl (hr b)
    | createSubscription iv =>
      have hk := known _ handlerOf_createSubscription rfl rfl rfl
      cases iv <;> simp [safeBody, effectiveInterval, f5, hk]
    | publish => rfl
    | deleteSubscriptions ids =>
      have hk := known _ handlerOf_deleteSubscriptions rfl rfl rfl
      simp only [safeBody, hk, Bool.true_and]
      apply List.all_eq_true.mpr
      intro id _
      cases hs : findSub st id with
      | none => rfl
      | some sb => simp [subOwned_of_wf st ho id sb hs]
    | createMonitoredItems sub n =>
      have hk := known _ handlerOf_createMonitoredItems rfl rfl rfl
      simp only [safeBody, hk, Bool.true_and]
      cases hs : findSub st sub with
      | none => rfl
      | some sb => simp [subOwned_of_wf st ho sub sb hs]
    | setMonitoringMode ids =>
      have hk := known _ handlerOf_setMonitoringMode rfl rfl rfl
      simp only [safeBody, itemSafe, f6, hk, Bool.true_and]
      apply List.all_eq_true.mpr
      intro id _
      cases hit : findItem st id with
      | none => rfl
      | some it => exact itemok id it hit
    | deleteMonitoredItems ids =>
      have hk := known _ handlerOf_deleteMonitoredItems rfl rfl rfl
      simp only [safeBody, itemSafe, f7, hk, Bool.true_and]
      apply List.all_eq_true.mpr
      intro id _
      cases hit : findItem st id with
      | none => rfl
      | some it => exact itemok id it hit
    | other n => rfl

/-- … hence no request sequence does, starting from a freshly started server (empty tables). -/
theorem C29_nopanic_sequences (st : St) (l : List (Tok × Req)) (hw : wf st = true)
    (hr : ∀ x ∈ l, ∀ b, x.2 ≠ .browse .loopPanics b) :
    (runSteps st l).2.isCrash = false := by
  induction l generalizing st with
  | nil => rfl
  | cons x rest ih =>
    obtain ⟨t, r⟩ := x
    unfold runSteps
    have hc := C29_nopanic st t r hw (hr (t, r) (by simp))
    have ih := fun s hs => ih s hs (fun y hy => hr y (by simp [hy]))
    have hwf := C29_wf_invariant st t r hw
    cases hs : step st t r with
    | mk st' o =>
      rw [hs] at hc hwf
      cases o with
      | crash s => simp [Out.isCrash] at hc
      | ok d =>
        simp only []
        split
        · rfl
        · exact ih st' hwf
      | sessionErr =>
        simp only []
        split
        · rfl
        · exact ih st' hwf
      | fault c =>
        simp only []
        split
        · rfl
        · exact ih st' hwf
      | noResponse =>
        simp only []
        split
        · rfl
        · exact ih st' hwf

theorem C29_initial_wf : wf {} = true := by decide

/-- Raw frames of any declared size, straight after the handshake or on an open channel, cost at most
    their own connection: `Receive` still reads into a slice with the whole receive buffer behind it
    (regenerated fact; an exact-size allocation would turn 8..11-byte frames into a panic in readChunk). -/
theorem C29_raw_frame_safe (size : Nat) : rawFrameOutcome size = .noResponse := by
  have h : receiveBufFullCapacity = true := by decide
  unfold rawFrameOutcome
  split
  · rfl
  · simp [h]

/-! ### hang: one client that does not read -/

/-- clients that read their responses are all served, whatever the order -/
theorem C29_readers_served (cap used : Nat) (jobs : List Job) (h : ∀ j ∈ jobs, j.fromAttacker = false) :
    dispatch cap used jobs = jobs.map fun _ => true := by
  induction jobs generalizing used with
  | nil => rfl
  | cons j rest ih =>
    have hj := h j (by simp)
    unfold dispatch
    simp only [hj, Bool.false_eq_true, if_false, List.map_cons]
    rw [ih used (fun x hx => h x (by simp [hx]))]

/-- Whatever the socket buffers hold (`cap`): after `cap + 1` one-byte responses owed to a client that
    does not read, the dispatcher is blocked and a request of ANOTHER client is never answered. -/
theorem C29_finding_nonreading_hang (cap : Nat) :
    (dispatch cap 0 (List.replicate (cap + 1) ⟨true, 1⟩ ++ [⟨false, 1⟩])).getLast? = some false := by
  have h := dispatch_fill cap 0 cap (⟨true, 1⟩ :: [⟨false, 1⟩]) (by omega)
  rw [show List.replicate (cap + 1) (⟨true, 1⟩ : Job) ++ [⟨false, 1⟩] = List.replicate cap ⟨true, 1⟩ ++ (⟨true, 1⟩ :: [⟨false, 1⟩]) by
    rw [List.replicate_succ', List.append_assoc]; rfl]
  rw [h]
  have hb : (dispatcherInline && !responseWriteDeadline) = true := by decide
  have hc : ¬ (cap + 1 ≤ cap) := by omega
  simp [dispatch, hb, hc]

/-- A signed chunk of any length is at worst an error on its own channel: the length is checked
    before the signature is sliced off (repaired together with C09; it used to be finding
    C29.uasc-short-signed-chunk: 16..31 byte chunks killed the server). -/
theorem C29_signed_chunk_safe (chunkLen sigLen : Nat) : signedChunkOutcome chunkLen sigLen = .noResponse := by
  have h : signedChunkLengthChecked = true := by decide
  unfold signedChunkOutcome
  split
  · rfl
  · simp [h]

/-! ### hang: value changes of a node monitored by a stalled subscription -/

open Opcua.Notify in
/-- source facts: ChangeNotification sends on the 100-entry NotifyChannel with a plain send under its
    mutex, and SetAttribute calls it on the dispatcher goroutine -/
theorem C29_notify_facts :
    notifySendUnderLock = true ∧ setAttributeNotifiesInline = true ∧ notifyChanCap = 100 := by decide

open Opcua.Notify in
/-- As long as the channel has room the writes are answered, whatever the subscription goroutine does … -/
theorem C29_notify_fill (s : NState) (k : Nat) (hb : s.blocked = false) (hr : s.registered = true)
    (hk : s.queued + k ≤ notifyChanCap) :
    runN s (List.replicate k .write) = ({ s with queued := s.queued + k }, List.replicate k true) :=
  fill s k hb hr hk

open Opcua.Notify in
/-- … and the first write that finds it full blocks the dispatcher, the mutex held. -/
theorem C29_notify_blocks (s : NState) (hb : s.blocked = false) (hr : s.registered = true)
    (hq : s.queued = notifyChanCap) : stepN s .write = ({ s with blocked := true }, false) := by
  have hf : (notifySendUnderLock && setAttributeNotifiesInline) = true := by decide
  simp [stepN, hb, hr, hf, hq]

open Opcua.Notify in
/-- Permanence: once the dispatcher is blocked and the subscription goroutine is not receiving (stalled
    in a send to a connection that is not read, or already gone), NO sequence of events — further
    requests, closing the stalled connection, anything — ever unblocks it, and no request of any client
    is answered again: the goroutine's own clean-up needs the mutex the dispatcher holds. -/
theorem C29_finding_notify_permanent (s : NState) (h : stuck s = true) (l : List Ev) :
    stuck (runN s l).1 = true ∧
    (runN s (l ++ [.request])).2.getLast? = some false ∧ (runN s (l ++ [.write])).2.getLast? = some false := by
  have hs := stuck_run s l h
  have hu := stuck_unanswered (runN s l).1 hs
  refine ⟨hs, ?_, ?_⟩ <;> simp [runN_append, runN, hu.1, hu.2]

open Opcua.Notify in
/-- a receiving goroutine resolves the situation: the pending send completes -/
theorem C29_notify_drain_unblocks (s : NState) (hc : s.consumer = .running) (hb : s.blocked = true) :
    (stepN s .drain).1.blocked = false := by
  simp [stepN, hc, hb]

open Opcua.Notify in
/-- the whole attack from the freshly created subscription: the goroutine stalls on its unread
    connection, 100 value changes are queued, the 101st blocks the dispatcher; closing the stalled
    connection afterwards does not help; a request of another client is never answered -/
theorem C29_finding_notify_hang :
    (runN {} ([.stall] ++ List.replicate 100 .write ++ [.write, .connClosed, .request])).2.getLast? = some false ∧
    stuck (runN {} ([.stall] ++ List.replicate 100 .write ++ [.write, .connClosed])).1 = true ∧
    -- closing the connection BEFORE the channel is full lets the clean-up run: everybody is served
    (runN {} ([.stall] ++ List.replicate 100 .write ++ [.connClosed, .write, .request])).2.getLast? = some true := by
  decide

/-! ### non-vacuity -/

example : safe st2 1 (.deleteSubscriptions [1, 7]) = true ∧ safe st2 0 .read = true ∧ safe st2 0 (.setMonitoringMode [1]) = true := by decide
example : wf st2 = true ∧ (runSteps st2 [(0, .read), (0, .createSession 3 true .nonRsa), (1, .setMonitoringMode [9, 1])]).2 = .ok "BadMonitoredItemIDInvalid,Good" := by decide

end Opcua.Props.C29
