import OpcuaModel.Model.SrvRobustLemmas
/-
  C29 — no client can crash or hang the server.

  `Srv.step` (Model/SrvHandlers.lean) gives every handler as a total function
  state × token × request shape → state × (answer | fault | crash); a `crash`
  is an unrecovered Go panic in the dispatcher goroutine or a subscription
  goroutine (`Gen.SrvRobust.recoverers = []`): the process exits.
  `Srv.dispatch` models the single dispatcher that writes responses without a
  deadline.

  On the unchanged code the property is FALSE.  The crashing request shapes of
  the model are characterised exactly (C29_crash_iff: crash ⇔ ¬ safe), every one
  of them has a finding signature (C29_sig_cover) and a machine-checked
  counterexample (C29_finding_*); the property is proved on the complement
  (C29_nopanic_partial).  The hang caused by one client that does not read its
  responses is C29_finding_nonreading_hang; with reading clients everybody is
  served (C29_readers_served).
-/
namespace Opcua.Props.C29
open Opcua Opcua.Srv Opcua.Gen.SrvRobust

/-! ### source facts -/

/-- `handleService` runs inline in the only dispatcher loop, responses are written without a
    deadline, nothing in packages server / uasc recovers from a panic, and `suitableRefType` no longer
    contains the loop around `slices.Delete` (repaired together with C33). -/
theorem C29_facts :
    Gen.SrvSession.subIdByLen = false ∧ Gen.SrvSession.setModeUnknownContinues = true ∧
    Gen.SrvSession.setModeMismatchContinues = true ∧ Gen.SrvSession.delItemsUnknownContinues = true ∧
    Gen.SrvSession.delItemsMismatchContinues = true ∧
    Gen.SrvSession.newSessionSignatureChecked = false ∧ Gen.SrvSession.verifySessionSignatureChecked = true ∧
    dispatcherInline = true ∧ responseWriteDeadline = false ∧ recoverers = [] ∧ refTypeDeleteLoop = false ∧
    signedChunkLengthChecked = true := by decide

/-- On the regenerated `getSubRefs` lists the deletion loop of `suitableRefType` panics for exactly
    these reference types: References, HierarchicalReferences, HasChild (relevant only while
    `refTypeDeleteLoop` holds). -/
theorem C29_browse_table :
    (subRefs.filter fun p => listPanics p.2).map (·.1) = [31, 33, 34] := by decide +kernel

/-- Whatever the list: once `HasSubtype` sits at an index n > 0 the loop never terminates normally —
    it deletes index n until `slices.Delete` is out of range. -/
theorem C29_deleteLoop_always_panics (l : List Nat) (n : Nat) (hn : 0 < n) :
    deleteLoop (l.length + 1) l n = none :=
  deleteLoop_panics (l.length + 1) l n hn (by omega) (by omega)

/-- `time.NewTicker` gets a non-positive duration for every interval below one millisecond … -/
theorem C29_interval_subms (dur : Int) (h1 : dur ≤ 0) (h2 : -9223372036854 < dur) :
    intervalOf dur = .subMs := by
  unfold intervalOf wrap64
  have : (1000000 * dur + 9223372036854775808) % 18446744073709551616 - 9223372036854775808 ≤ 0 := by
    rw [Int.emod_eq_of_lt (by omega) (by omega)]; omega
  simp [this]

/-- … and a positive one for every interval from 1 ms up to 292 years. -/
theorem C29_interval_ok (dur : Int) (h1 : 0 < dur) (h2 : dur < 9223372036854) :
    intervalOf dur ≠ .subMs := by
  unfold intervalOf wrap64
  have : ¬ ((1000000 * dur + 9223372036854775808) % 18446744073709551616 - 9223372036854775808 ≤ 0) := by
    rw [Int.emod_eq_of_lt (by omega) (by omega)]; omega
  simp only [this, if_false]
  split <;> simp

/-! ### the handlers: exactly which request shapes crash -/

/-- A request crashes the server iff it is not `safe` — for every state, token and request.
    `safe` = the dispatcher answers itself (no handler, stub, nil-checked session lookup that fails:
    all read from the regenerated table) or the handler body cannot panic on this shape. -/
theorem C29_crash_iff (st : St) (t : Tok) (r : Req) :
    (step st t r).2.isCrash = !safe st t r := by
  unfold safe
  cases hp : preempted st t r with
  | true => simp [step_preempted st t r hp]
  | false => rw [step_not_preempted st t r hp, body_crash_iff]; simp

/-- C29 for the handlers, on the part of the input space where it holds. -/
theorem C29_nopanic_partial (st : St) (t : Tok) (r : Req) (g : safe st t r = true) :
    (step st t r).2.isCrash = false := by
  rw [C29_crash_iff, g]; rfl

/-- A safe request sequence never loses the server. -/
theorem C29_sequence_partial (st : St) (l : List (Tok × Req))
    (g : ∀ x ∈ l, ∀ st', safe st' x.1 x.2 = true) : (runSteps st l).2.isCrash = false := by
  induction l generalizing st with
  | nil => rfl
  | cons x rest ih =>
    obtain ⟨t, r⟩ := x
    unfold runSteps
    have hc := C29_nopanic_partial st t r (g (t, r) (by simp) st)
    have ih := fun s => ih s (fun y hy => g y (by simp [hy]))
    cases hs : step st t r with
    | mk st' o =>
      rw [hs] at hc
      cases o with
      | crash s => simp [Out.isCrash] at hc
      | ok d =>
        simp only []
        split
        · rfl
        · exact ih st'
      | sessionErr =>
        simp only []
        split
        · rfl
        · exact ih st'
      | fault c =>
        simp only []
        split
        · rfl
        · exact ih st'
      | noResponse =>
        simp only []
        split
        · rfl
        · exact ih st'

/-- Every crashing request of the model falls under one of the recorded signatures. -/
theorem C29_sig_cover (st : St) (t : Tok) (r : Req) (h : (step st t r).2.isCrash = true) :
    sig29 st t r ≠ "C29.unclassified" := by
  rw [C29_crash_iff] at h
  unfold safe at h
  have hb : safeBody st t r = false := by
    cases hs : safeBody st t r with
    | false => rfl
    | true => simp [hs] at h
  cases r <;> simp [safeBody] at hb <;> simp [sig29] <;> (try split) <;> simp

/-! ### counterexamples: one per finding -/

/-- session 1 created and activated, session 2 created and activated, subscription 1 (item 1) owned
    by session 1, subscription 2 owned by session 2 -/
def st2 : St :=
  { sessions := [⟨1, true, 0, true⟩, ⟨2, true, 0, true⟩], subs := [⟨1, some 1⟩, ⟨2, some 2⟩], items := [⟨1, 1⟩], nextItem := 1, lastSub := 2, value := 5 }

theorem C29_finding_findservers :
    step { st2 with endpointsEmpty := true } 0 .findServers = ({ st2 with endpointsEmpty := true }, .crash "DiscoveryService.FindServers") ∧
    sig29 st2 0 .findServers = "C29.findservers-no-endpoints" := by decide

theorem C29_finding_createsession_nonrsa :
    (step st2 0 (.createSession 3 true .nonRsa)).2 = .crash "SecureChannel.NewSessionSignature" ∧
    (step st2 0 (.createSession 3 false .nonRsa)).2 = .ok "" ∧
    -- ActivateSession of such a session over a signed channel is refused since VerifySessionSignature
    -- checks the key type (it used to be finding C29.activatesession-nonrsa-certificate)
    (step { st2 with sessions := [⟨3, false, 0, false⟩] } 3 (.activateSession true true)).2 = .fault "BadSecurityChecksFailed" := by
  decide

/-- a publishing interval of 0 ms, 0.5 ms, NaN (→ minimum int64) or anything whose nanosecond
    count wraps to ≤ 0 kills the process from the subscription goroutine, with a valid session -/
theorem C29_finding_createsubscription_interval :
    intervalOf 0 = .subMs ∧ intervalOf (-9223372036854775808) = .subMs ∧ intervalOf 9223372036855 = .subMs ∧
    (step st2 1 (.createSubscription .subMs)).2 = .crash "Subscription.run" ∧
    sig29 st2 1 (.createSubscription .subMs) = "C29.createsubscription-nonpositive-interval" := by decide

/-! ### repaired: the nil-session call sites (were findings C29.createsubscription-nil-session-tick,
    C29.deletesubscriptions-nil-session, C29.createmonitoreditems-nil-session,
    C29.setmonitoringmode-nil-session, C29.deletemonitoreditems-nil-session) -/

/-- A request of the subscription / monitored-item services whose token is not in the session table
    never reaches a handler body: it is answered with a session fault, nothing changes, nothing is
    dereferenced — for every state, id list, subscription id, item count and interval. -/
theorem C29_repaired_nil_session (st : St) (t : Tok) (h : findSession st t = none)
    (iv : Interval) (ids : List Nat) (sub n : Nat) :
    step st t (.createSubscription iv) = (st, .sessionErr) ∧
    step st t (.deleteSubscriptions ids) = (st, .sessionErr) ∧
    step st t (.createMonitoredItems sub n) = (st, .sessionErr) ∧
    step st t (.setMonitoringMode ids) = (st, .sessionErr) ∧
    step st t (.deleteMonitoredItems ids) = (st, .sessionErr) := by
  refine ⟨?_, ?_, ?_, ?_, ?_⟩ <;>
    simp [step, Req.name, handlerOf_createSubscription, handlerOf_deleteSubscriptions,
      handlerOf_createMonitoredItems, handlerOf_setMonitoringMode, handlerOf_deleteMonitoredItems, h]

/-- Every subscription has an owning session (`ownersSet`) and no request can create one without: subscriptions with a nil session pointer (the other
    half of the old crashes: an activated session touching such a subscription) are unreachable. -/
theorem C29_owners_invariant (st : St) (t : Tok) (r : Req) (h : ownersSet st = true) :
    ownersSet (step st t r).1 = true := by
  cases hp : preempted st t r with
  | true =>
    have : (step st t r).1 = st := by
      unfold preempted at hp
      unfold step
      cases hh : handlerOf r.name with
      | none => rfl
      | some x =>
        simp only [hh] at hp
        by_cases hu : x.unsupported = true
        · simp [hu]
        · simp only [hu, Bool.false_or, Bool.false_eq_true, if_false] at hp ⊢
          simp [hp]
    rw [this]; exact h
  | false =>
    rw [step_not_preempted st t r hp]
    cases r with
    | createSubscription iv =>
      -- not pre-empted and the table row says nil-checked: the session exists
      have hk : (findSession st t).isSome = true := by
        unfold preempted at hp
        simp only [Req.name, handlerOf_createSubscription] at hp
        cases hf : findSession st t <;> simp [hf] at hp ⊢
      obtain ⟨x, hx⟩ := Option.isSome_iff_exists.mp hk
      cases iv <;> simp only [body, hx, Option.map_some] <;> (repeat' split) <;> exact putSub_owners _ _ _ h
    | deleteSubscriptions ids =>
      simp only [body]
      split
      · exact h
      · unfold ownersSet at *
        exact List.all_eq_true.mpr fun s hs => List.all_eq_true.mp h s (List.mem_filter.mp hs).1
    | createMonitoredItems s n => simp only [body]; (repeat' split) <;> exact h
    | setMonitoringMode ids => simp only [body]; split <;> exact h
    | deleteMonitoredItems ids => simp only [body]; split <;> exact h
    | findServers => simp only [body]; split <;> exact h
    | getEndpoints => exact h
    | createSession k s c => cases s <;> cases c <;> simp only [body] <;> (repeat' split) <;> exact h
    | activateSession s ok => simp only [body]; (repeat' split) <;> exact h
    | closeSession => exact h
    | read => simp only [body]; split <;> exact h
    | write v => simp only [body]; split <;> exact h
    | writeAttr w a => simp only [body]; (repeat' split) <;> exact h
    | browse c b => simp only [body]; (repeat' split) <;> exact h
    | publish => simp only [body]; split <;> exact h
    | other n => exact h

theorem C29_finding_deletesubscriptions :
    step st2 0 (.deleteSubscriptions [1]) = (st2, .sessionErr) ∧
    (step st2 1 (.deleteSubscriptions [7, 1])).2 = .ok "BadSubscriptionIDInvalid,Good" ∧
    (step st2 2 (.deleteSubscriptions [1])).2 = .ok "BadSessionIDInvalid" := by decide

theorem C29_finding_createmonitoreditems :
    step st2 0 (.createMonitoredItems 1 1) = (st2, .sessionErr) ∧
    (step st2 2 (.createMonitoredItems 1 1)).2 = .fault "BadUnexpectedError" ∧
    (step st2 1 (.createMonitoredItems 1 2)).2 = .ok "Good,Good" := by decide

/-- SetMonitoringMode / DeleteMonitoredItems: unknown ids and foreign items are answered per id
    (repaired with C32), a missing session is a session fault (this repair). -/
theorem C29_finding_setmonitoringmode :
    step st2 0 (.setMonitoringMode [1]) = (st2, .sessionErr) ∧
    (step st2 1 (.setMonitoringMode [9, 1])).2 = .ok "BadMonitoredItemIDInvalid,Good" ∧
    (step st2 2 (.setMonitoringMode [1])).2 = .ok "BadSessionIDInvalid" := by decide

theorem C29_finding_deletemonitoreditems :
    step st2 0 (.deleteMonitoredItems [1]) = (st2, .sessionErr) ∧
    step st2 1 (.deleteMonitoredItems [9]) = (st2, .ok "BadMonitoredItemIDInvalid") ∧
    step st2 2 (.deleteMonitoredItems [1]) = (st2, .ok "BadSessionIDInvalid") ∧
    step st2 1 (.deleteMonitoredItems [1]) = ({ st2 with items := [] }, .ok "Good") := by decide

/-- Browse with IncludeSubtypes = false no longer reaches a deletion loop (the generated fact says
    the loop is gone): every Browse class is `plain`.  Had the loop stayed, References (31),
    HierarchicalReferences (33) and HasChild (34) would kill the server (C29_browse_table,
    C29_deleteLoop_always_panics) — this was finding C29.browse-suitablereftype-loop. -/
theorem C29_browse_no_loop (rt : Nat) (inc other : Bool) : browseClsOf rt inc other = .plain := by
  have h : refTypeDeleteLoop = false := by decide
  simp [browseClsOf, h]

/-- any client may overwrite the DataType attribute of a node with a value of another type; the next
    Browse that lists the node as a target dies in an unchecked type assertion -/
theorem C29_finding_browse_datatype :
    step st2 0 (.writeAttr "DataType" .wrongType) = ({ st2 with dataTypeAttr := .wrongType }, .ok "Good") ∧
    (step { st2 with dataTypeAttr := .wrongType } 0 (.browse .plain true)).2 = .crash "Node.DataType" ∧
    (step { st2 with dataTypeAttr := .noValue } 0 (.browse .plain true)).2 = .ok "Good" := by decide

/-- the property at full strength does not hold for the handlers as they are -/
theorem C29_nopanic_false : ¬ ∀ st t r, (step st t r).2.isCrash = false := by
  intro h
  have := h st2 0 (.createSession 3 true .nonRsa)
  rw [C29_finding_createsession_nonrsa.1] at this
  exact absurd this (by decide)

/-! ### hang: one client that does not read -/

/-- clients that read their responses are all served, whatever the order -/
theorem C29_readers_served (cap used : Nat) (jobs : List Job) (h : ∀ j ∈ jobs, j.fromAttacker = false) :
    dispatch cap used jobs = jobs.map fun _ => true := by
  induction jobs generalizing used with
  | nil => rfl
  | cons j rest ih =>
    have hj := h j (by simp)
    unfold dispatch
    simp only [hj, Bool.false_eq_true, if_false, List.map_cons]
    rw [ih used (fun x hx => h x (by simp [hx]))]

/-- Whatever the socket buffers hold (`cap`): after `cap + 1` one-byte responses owed to a client that
    does not read, the dispatcher is blocked and a request of ANOTHER client is never answered. -/
theorem C29_finding_nonreading_hang (cap : Nat) :
    (dispatch cap 0 (List.replicate (cap + 1) ⟨true, 1⟩ ++ [⟨false, 1⟩])).getLast? = some false := by
  have h := dispatch_fill cap 0 cap (⟨true, 1⟩ :: [⟨false, 1⟩]) (by omega)
  rw [show List.replicate (cap + 1) (⟨true, 1⟩ : Job) ++ [⟨false, 1⟩] = List.replicate cap ⟨true, 1⟩ ++ (⟨true, 1⟩ :: [⟨false, 1⟩]) by
    rw [List.replicate_succ', List.append_assoc]; rfl]
  rw [h]
  have hb : (dispatcherInline && !responseWriteDeadline) = true := by decide
  have hc : ¬ (cap + 1 ≤ cap) := by omega
  simp [dispatch, hb, hc]

/-- A signed chunk of any length is at worst an error on its own channel: the length is checked
    before the signature is sliced off (repaired together with C09; it used to be finding
    C29.uasc-short-signed-chunk: 16..31 byte chunks killed the server). -/
theorem C29_signed_chunk_safe (chunkLen sigLen : Nat) : signedChunkOutcome chunkLen sigLen = .noResponse := by
  have h : signedChunkLengthChecked = true := by decide
  unfold signedChunkOutcome
  split
  · rfl
  · simp [h]

/-! ### non-vacuity -/

example : safe st2 1 (.deleteSubscriptions [1, 7]) = true ∧ safe st2 0 .read = true ∧ safe st2 0 (.setMonitoringMode [1]) = true := by decide
example : (runSteps st2 [(0, .read), (1, .createSubscription .subMs), (0, .read)]).2 = .crash "Subscription.run" := by decide

end Opcua.Props.C29
