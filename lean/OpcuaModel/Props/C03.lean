import OpcuaModel.Model.CodecMain
import OpcuaModel.Gen.Types
/-
  C03 — any successfully decoded value can be re-encoded and decodes identically.

  Same model as C01/C02.  `C03_stable_partial` is the proved region: a decoded
  value that is well typed (`wt`) and in normal form (`norm v = v`, which is what
  the decoder returns for every encoder-produced input by C01) re-encodes without
  error or panic and decodes to itself.  Both guards are decidable; the runner
  evaluates them on every decoded value and reports how many fall under the theorem.
  Outside the guard lie the non-canonical encodings: there the property is sampled
  by the differential run, and every way in which it was seen to fail is a finding
  with a machine-checked witness below.
-/
namespace Opcua.Props.C03
open Opcua Opcua.Codec

set_option maxRecDepth 8192

def env : Env := { limit := none, exts := Gen.extObjTypes }

/-- the result is `ok v` (ignoring what is left of the input) -/
def okIs (r : Res Val) (p : Val → Bool) : Bool :=
  match r with
  | .ok v _ => p v
  | .fail _ => false

def failIs {α : Type} (r : Res α) (f : Fail) : Bool :=
  match r with
  | .fail g => g == f
  | _ => false

/-- **Stability on the well-typed normal forms.** -/
theorem C03_stable_partial (fuel : Nat) (t : Ty) (v : Val) (a : Nat)
    (hw : wt env fuel t v = true) (hn : norm env fuel t v = v) :
    ∃ bs, encode env fuel t v = .ok bs ∧ decode env fuel t ⟨bs, a⟩ = .ok v ⟨[], a⟩ := by
  obtain ⟨bs, hb, r⟩ := rt_all env rfl fuel t v hw
  refine ⟨bs, hb, ?_⟩
  have := r [] a
  rw [List.append_nil, hn] at this
  exact this

/-- what `decode` returns for an encoder-produced input is again decodable from its own re-encoding whenever it is
    well typed: one more round trip reproduces the normal form of the normal form -/
theorem C03_second_round_trip (fuel : Nat) (t : Ty) (v : Val) (a : Nat)
    (hw : wt env fuel t v = true) (hw' : wt env fuel t (norm env fuel t v) = true) :
    ∃ b1 b2, encode env fuel t v = .ok b1 ∧ decode env fuel t ⟨b1, a⟩ = .ok (norm env fuel t v) ⟨[], a⟩ ∧
      encode env fuel t (norm env fuel t v) = .ok b2 ∧
      decode env fuel t ⟨b2, a⟩ = .ok (norm env fuel t (norm env fuel t v)) ⟨[], a⟩ := by
  obtain ⟨b1, h1, r1⟩ := rt_all env rfl fuel t v hw
  obtain ⟨b2, h2, r2⟩ := rt_all env rfl fuel t _ hw'
  refine ⟨b1, b2, h1, ?_, h2, ?_⟩
  · have := r1 [] a; rwa [List.append_nil] at this
  · have := r2 [] a; rwa [List.append_nil] at this

/-! ### findings: successfully decoded values that cannot be re-encoded, or re-encode to something else -/

/-- repaired (was finding C03.extobj-nil-value): an extension object with a type id the registry does not know
    (`ns=0;i=99`) decodes with `Value == nil` and a non-zero mask; it is re-encoded with a null body (the unknown body
    itself is not kept) and decodes to the same value — `Encode` used to panic in `ua.Encode(nil)`.  Such values are
    now inside the guard of `C03_stable_partial`. -/
theorem C03_fixed_extobj_unknown_type :
    decode env 5 .extObj ⟨[1, 0, 99, 0, 1, 2, 0, 0, 0, 0xaa, 0xbb], 0⟩
      = .ok (.extObj 1 (some ⟨some ⟨1, 0, 99, none, none⟩, [], 0⟩) "" .nil) ⟨[], 0⟩ ∧
    encode env 5 .extObj (.extObj 1 (some ⟨some ⟨1, 0, 99, none, none⟩, [], 0⟩) "" .nil)
      = .ok [1, 0, 99, 0, 1, 0xff, 0xff, 0xff, 0xff] ∧
    decode env 5 .extObj ⟨[1, 0, 99, 0, 1, 0xff, 0xff, 0xff, 0xff], 0⟩
      = .ok (.extObj 1 (some ⟨some ⟨1, 0, 99, none, none⟩, [], 0⟩) "" .nil) ⟨[], 0⟩ ∧
    wt env 5 .extObj (.extObj 1 (some ⟨some ⟨1, 0, 99, none, none⟩, [], 0⟩) "" .nil) = true :=
  ⟨rfl, rfl, rfl, rfl⟩

/-- repaired: the same for a known type id sent with body length 0 -/
theorem C03_fixed_extobj_empty_body :
    decode env 5 .extObj ⟨[1, 0, 121, 0, 1, 0, 0, 0, 0], 0⟩
      = .ok (.extObj 1 (some ⟨some ⟨1, 0, 121, none, none⟩, [], 0⟩) "" .nil) ⟨[], 0⟩ ∧
    encode env 5 .extObj (.extObj 1 (some ⟨some ⟨1, 0, 121, none, none⟩, [], 0⟩) "" .nil)
      = .ok [1, 0, 121, 0, 1, 0xff, 0xff, 0xff, 0xff] ∧
    decode env 5 .extObj ⟨[1, 0, 121, 0, 1, 0xff, 0xff, 0xff, 0xff], 0⟩
      = .ok (.extObj 1 (some ⟨some ⟨1, 0, 121, none, none⟩, [], 0⟩) "" .nil) ⟨[], 0⟩ :=
  ⟨rfl, rfl, rfl⟩

/-- an extension object of a registered type without fields (i=121, `DataTypeDefinition`) decodes to a value whatever
    its body holds, re-encodes with body length 0, and that decodes to `Value == nil` -/
theorem C03_finding_extobj_zero_field_type :
    decode env 5 .extObj ⟨[0, 121, 1, 2, 0, 0, 0, 0xaa, 0xbb], 0⟩
      = .ok (.extObj 1 (some ⟨some ⟨0, 0, 121, none, none⟩, [], 0⟩) "DataTypeDefinition" (.ptr (.struct []))) ⟨[], 0⟩ ∧
    encode env 5 .extObj (.extObj 1 (some ⟨some ⟨0, 0, 121, none, none⟩, [], 0⟩) "DataTypeDefinition" (.ptr (.struct [])))
      = .ok [0, 121, 1, 0, 0, 0, 0] ∧
    decode env 5 .extObj ⟨[0, 121, 1, 0, 0, 0, 0], 0⟩
      = .ok (.extObj 1 (some ⟨some ⟨0, 0, 121, none, none⟩, [], 0⟩) "" .nil) ⟨[], 0⟩ :=
  ⟨rfl, rfl, rfl⟩

/-- DateTime 9999-12-31T23:59:59Z (ticks 2650467743990000000, the usual "max" value) is outside the int64-nanosecond
    range: it decodes to a wrapped time, which re-encodes to other ticks, which decode to yet another time -/
theorem C03_finding_datetime_range :
    ticksTime 2650467743990000000 = some (-4852116232933722624) ∧
    timeTicks (some (-4852116232933722624)) = 67923573670662774 ∧
    ticksTime 67923573670662774 = some (-4852116232933722600) ∧
    decode env 1 .time ⟨leBytes 8 2650467743990000000, 0⟩ = .ok (.time (ticksTime 2650467743990000000)) ⟨[], 0⟩ ∧
    encode env 1 .time (.time (some (-4852116232933722624))) = .ok (leBytes 8 (timeTicks (some (-4852116232933722624)))) := by
  refine ⟨by decide +kernel, by decide +kernel, by decide +kernel, ?_, rfl⟩
  have := reads_readUInt 8 2650467743990000000 (by decide) [] 0
  simp only [List.append_nil] at this
  simp [decode, readTime, this]

/-- repaired (was finding C03.variant-scalar-dims-bit): a scalar Variant whose mask carries the dimensions bit (0x46:
    Int32 + 0x40) is re-encoded without a dimensions field, so a DataValue holding it is stable.  `Encode` used to
    append `arrayDimensionsLength` (4 bytes) that `Decode` never reads for a scalar: the status 0x12345678 behind it
    came back as 0. -/
theorem C03_fixed_variant_scalar_dims_bit :
    decode env 3 .dataValue ⟨[3, 0x46, 42, 0, 0, 0, 0x78, 0x56, 0x34, 0x12], 0⟩
      = .ok (.dataValue 3 (.variant 0x46 0 0 none ⟨6, 0⟩ (.int 42)) 0x12345678 none 0 none 0) ⟨[], 0⟩ ∧
    encode env 3 .dataValue (.dataValue 3 (.variant 0x46 0 0 none ⟨6, 0⟩ (.int 42)) 0x12345678 none 0 none 0)
      = .ok [3, 0x46, 42, 0, 0, 0, 0x78, 0x56, 0x34, 0x12] ∧
    wt env 3 .dataValue (.dataValue 3 (.variant 0x46 0 0 none ⟨6, 0⟩ (.int 42)) 0x12345678 none 0 none 0) = true :=
  ⟨rfl, rfl, rfl⟩

/-- repaired (was finding C03.variant-bytestring-array): an array of ByteString is re-encoded with its elements and
    is stable (`Encode` used to drop them, see C01_fixed_variant_bytestring_array) -/
theorem C03_fixed_variant_bytestring_array :
    decode env 3 .variant ⟨[0x8f, 1, 0, 0, 0, 1, 0, 0, 0, 0xaa], 0⟩
      = .ok (.variant 0x8f 1 0 none ⟨15, 1⟩ (.slice false [.bytes (some [0xaa])])) ⟨[], 0⟩ ∧
    encode env 3 .variant (.variant 0x8f 1 0 none ⟨15, 1⟩ (.slice false [.bytes (some [0xaa])]))
      = .ok [0x8f, 1, 0, 0, 0, 1, 0, 0, 0, 0xaa] :=
  ⟨rfl, rfl⟩

/-! ### non-vacuity: non-canonical input that is stable -/

/-- a one-dimensional array sent with a dimensions field of one entry (legal, non-canonical) is well typed, normal and stable -/
example :
    let v : Val := .variant 0xc6 2 1 (some [2]) ⟨6, 1⟩ (.slice false [.int 7, .int 9])
    decode env 3 .variant ⟨[0xc6, 2,0,0,0, 7,0,0,0, 9,0,0,0, 1,0,0,0, 2,0,0,0], 0⟩ = .ok v ⟨[], 0⟩ ∧
    wt env 3 .variant v = true ∧ norm env 3 .variant v = v :=
  ⟨rfl, rfl, rfl⟩

end Opcua.Props.C03
