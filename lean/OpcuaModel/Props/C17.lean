import OpcuaModel.Model.Tokens
/-
  C17 — chunks secured with an expired token are rejected.

  Full strength ("once a token has been replaced and 1.25 · lifetime has
  elapsed, a chunk under that token's keys is rejected") is FALSE for the
  client channel of the unchanged code: `scheduleExpiration` looks the table
  up by the instance's TOKEN id although the table is keyed by CHANNEL id.
  Unless the two numbers coincide the expiry step leaves the channel's entry
  untouched, so every superseded instance — and its keys — is kept until the
  channel is closed (`C17_finding_*`).  What does hold is proved as well: the
  step does its job exactly when token id = channel id (`C17_expiry_*`).
-/
namespace Opcua.Props.C17
open Opcua Opcua.Tokens

/-- FINDING C17.expiry-indexes-by-token-id: for EVERY table and instance whose
    token id differs from its channel id, the expiry step leaves the entry of
    the channel exactly as it was. -/
theorem C17_finding_expiry_noop (t : Table) (i : Inst) (h : i.tok ≠ i.chan) :
    (expire t i).get i.chan = t.get i.chan :=
  expire_get_other t i (fun e => h e.symm)

/-- the only entry the step can change is the one keyed by the token id -/
theorem C17_expiry_touches_only_token_key (t : Table) (i : Inst) (r : Nat) (h : r ≠ i.tok) :
    (expire t i).get r = t.get r := expire_get_other t i h

/-- … so a superseded instance is kept FOREVER: whatever renewals and expiry
    timers follow (in any order, at any time), as long as no expiring token id
    equals the channel id (`NoTokEqChan`), an instance once stored for channel
    `c` is still stored, -/
theorem C17_finding_kept_forever (c : Nat) (evs : List Ev) (t : Table) (i : Inst)
    (hno : NoTokEqChan c evs) (hm : i ∈ t.get c) : i ∈ (runEvs t evs).get c :=
  kept_forever c evs t i hno hm

/-- … and a chunk secured with its keys is still accepted. -/
theorem C17_finding_old_keys_accepted (c : Nat) (evs : List Ev) (t : Table) (i : Inst)
    (hno : NoTokEqChan c evs) (hm : i ∈ t.get c) :
    ∃ tok, verify (runEvs t evs) c i.key = .accepted tok :=
  verify_accepts_of_mem _ c i.key i (C17_finding_kept_forever c evs t i hno hm) rfl

/-- the witness: channel 7, token 1 (keys 101) renewed by token 2 (keys 102);
    the expiry of token 1 fires; a chunk under keys 101 is still accepted, and
    the table still holds both instances -/
theorem C17_finding_witness :
    verdicts [] [.opn ⟨7, 1, 101⟩, .opn ⟨7, 2, 102⟩, .expire ⟨7, 1, 101⟩, .chunk 7 101] = [.accepted 1] ∧
    (runEvs [] [.opn ⟨7, 1, 101⟩, .opn ⟨7, 2, 102⟩, .expire ⟨7, 1, 101⟩]).get 7 = [⟨7, 1, 101⟩, ⟨7, 2, 102⟩] := by
  decide

/-- the full-strength statement is refuted -/
theorem C17_full_strength_false :
    ¬ (∀ (t : Table) (i : Inst), ∀ tok, verify (expire t i) i.chan i.key ≠ .accepted tok) := by
  intro h
  exact h [(7, [⟨7, 1, 101⟩, ⟨7, 2, 102⟩])] ⟨7, 1, 101⟩ 1 (by decide)

/-! ### what holds: token id = channel id -/

/-- when the token id equals the channel id the step removes exactly the
    instances of that token and keeps all others, in order -/
theorem C17_expiry_when_tok_eq_chan (t : Table) (i : Inst) (h : i.tok = i.chan) :
    (expire t i).get i.chan = (t.get i.chan).filter (fun o => !(o.tok == i.tok)) := by
  rw [← h]; exact expire_get_tok t i

/-- … and then a chunk under the expired token's keys is rejected, provided no
    other stored instance uses the same keys (keys are per token) -/
theorem C17_rejected_when_tok_eq_chan (t : Table) (i : Inst) (h : i.tok = i.chan)
    (huniq : ∀ o ∈ t.get i.chan, o.key = i.key → o.tok = i.tok) :
    ∀ tok, verify (expire t i) i.chan i.key ≠ .accepted tok := by
  intro tok hv
  unfold verify at hv
  rw [C17_expiry_when_tok_eq_chan t i h] at hv
  cases hl : (t.get i.chan).filter (fun o => !(o.tok == i.tok)) with
  | nil => rw [hl] at hv; cases hv
  | cons a l =>
    rw [hl] at hv
    change (match (a :: l).reverse.find? (fun j => j.key == i.key) with
      | some i => Verdict.accepted i.tok
      | none => Verdict.securityFailed) = Verdict.accepted tok at hv
    cases hf : (a :: l).reverse.find? (fun j => j.key == i.key) with
    | none => rw [hf] at hv; cases hv
    | some j =>
      have hj := List.mem_of_find?_eq_some hf
      have hk := List.find?_some hf
      have hj' : j ∈ (t.get i.chan).filter (fun o => !(o.tok == i.tok)) := by
        rw [hl]; exact List.mem_reverse.mp hj
      obtain ⟨hj1, hj2⟩ := List.mem_filter.mp hj'
      have : j.tok = i.tok := huniq j hj1 (by simpa using hk)
      simp [this] at hj2

/-! ### channels in mode None

  The property speaks of chunks "protected with that token's keys"; a mode-None
  channel has no keys, so its statement does not apply there — but the code's
  behaviour is worth stating: the token id a chunk carries is never looked at
  (in any mode: `readChunk` decodes the symmetric security header and drops
  it), and in mode None every chunk for a channel id with a stored instance is
  accepted. -/

/-- in mode None a chunk is accepted iff some instance is stored for the
    channel id of its header — whatever token id it carries, whatever was
    renewed or has expired in between (the verdict does not depend on the
    chunk's second component at all) -/
theorem C17_none_mode_accepts_every_token (t : Table) (evs : List Ev) (c k k' : Nat) (rest : List Ev) :
    verdictsNone t (evs ++ .chunk c k :: rest) = verdictsNone t (evs ++ .chunk c k' :: rest) := by
  induction evs generalizing t with
  | nil => simp [verdictsNone]
  | cons e r ih => cases e <;> simp [verdictsNone, ih]

theorem C17_none_mode_accepted_iff (t : Table) (c : Nat) :
    (∃ tok, verifyNone t c = .accepted tok) ↔ t.get c ≠ [] := by
  unfold verifyNone
  cases h : (t.get c).reverse with
  | nil => simp [List.reverse_eq_nil_iff.mp h]
  | cons i l =>
    have : t.get c ≠ [] := by
      intro h0; rw [h0] at h; cases h
    simp [this]

/-- so an instance that survives its expiry (token id ≠ channel id) keeps the
    channel open for any chunk; and when token id = channel id and the expiry
    removes the only instance, the channel accepts nothing any more -/
theorem C17_none_mode_witness :
    verdictsNone [] [.opn ⟨7, 1, 0⟩, .chunk 7 99, .opn ⟨7, 2, 0⟩, .expire ⟨7, 1, 0⟩, .chunk 7 1, .chunk 8 1,
                     .opn ⟨5, 5, 0⟩, .expire ⟨5, 5, 0⟩, .chunk 5 5] =
      [.accepted 1, .accepted 2, .noInstance, .noInstance] := by decide

/-- non-vacuity: channel 5 whose first token is also numbered 5 — the first
    token does expire, the second (6 ≠ 5) never does -/
example :
    verdicts [] [.opn ⟨5, 5, 1⟩, .opn ⟨5, 6, 2⟩, .chunk 5 1, .expire ⟨5, 5, 1⟩, .chunk 5 1, .chunk 5 2,
                 .opn ⟨5, 7, 3⟩, .expire ⟨5, 6, 2⟩, .chunk 5 2, .chunk 9 1] =
      [.accepted 5, .securityFailed, .accepted 6, .accepted 6, .noInstance] := by decide

end Opcua.Props.C17
