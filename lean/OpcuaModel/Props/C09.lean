import OpcuaModel.Model.Tamper
/-
  C09 — tampered, truncated or forged secured chunks are rejected.

  Structural theorems hold for EVERY decryption and verification function
  (nothing cryptographic is assumed); `C09_tamper_partial` is conditional on
  an explicit unforgeability hypothesis.
-/
namespace Opcua.Props.C09
open Opcua Opcua.Tamper

/-- PARTIAL (guard `wellSized`): for all byte strings, all decryption and
    verification functions, `verifyAndDecrypt` returns data or an error — no
    slice or index expression fails. The unguarded statement is false, see the
    `C09_finding_*` theorems. -/
theorem C09_total_partial (P : Params) (dec : Bytes → Option Bytes) (verify : Bytes → Bytes → Bool)
    (r : Bytes) (h : wellSized P dec r = true) :
    (verifyAndDecrypt P dec verify r).isPanic = false := by
  unfold wellSized at h
  unfold verifyAndDecrypt
  simp only [Bool.and_eq_true, decide_eq_true_eq] at h
  obtain ⟨hH, h⟩ := h
  have h1 : ¬ r.length < P.H := by omega
  simp only [h1, if_false]
  cases hd : decrypted P dec r with
  | none => simp [Out.isPanic]
  | some b =>
    simp only [hd, Bool.and_eq_true, decide_eq_true_eq] at h ⊢
    obtain ⟨hb, h⟩ := h
    have h2 : ¬ b.length < P.RS := by omega
    simp only [h2, if_false]
    cases hv : verify (b.take (b.length - P.RS)) (b.drop (b.length - P.RS)) with
    | false => simp [Out.isPanic]
    | true =>
      simp only [Bool.not_true, Bool.false_eq_true, if_false]
      cases hp : paddingLength P (b.take (b.length - P.RS)) with
      | error s => simp [hp] at h
      | ok pl =>
        simp only [hp, decide_eq_true_eq] at h
        have hl : (b.take (b.length - P.RS)).length = b.length - P.RS := by
          simp [List.length_take]
        have h3 : ¬ (b.length - P.RS < P.H + pl) := by omega
        simp [h3, Out.isPanic]

/-- PARTIAL (guard `sigFits`: the chunk, after decryption, is at least as long
    as a signature): a chunk whose signature does not verify — anything made or
    modified without the keys — is answered with an error, never a panic and
    never data. -/
theorem C09_rejected_partial (P : Params) (dec : Bytes → Option Bytes) (verify : Bytes → Bytes → Bool)
    (r : Bytes) (h : sigFits P dec r = true)
    (hbad : ∀ b, decrypted P dec r = some b →
      verify (b.take (b.length - P.RS)) (b.drop (b.length - P.RS)) = false) :
    verifyAndDecrypt P dec verify r = .err := by
  unfold sigFits at h
  unfold verifyAndDecrypt
  simp only [Bool.and_eq_true, decide_eq_true_eq] at h
  obtain ⟨hH, h⟩ := h
  have h1 : ¬ r.length < P.H := by omega
  simp only [h1, if_false]
  cases hd : decrypted P dec r with
  | none => rfl
  | some b =>
    simp only [hd, decide_eq_true_eq] at h ⊢
    have h2 : ¬ b.length < P.RS := by omega
    simp [h2, hbad b hd]

/-- If data is returned, the signature check was evaluated, and succeeded, over
    ALL bytes of header ‖ plaintext except the signature itself (the two parts
    partition `b`), the header inside the verified message is the header that
    was received, and the returned data is a contiguous piece of the verified
    message that starts right after the header. -/
theorem C09_covered (P : Params) (dec : Bytes → Option Bytes) (verify : Bytes → Bytes → Bool)
    (r p : Bytes) (h : verifyAndDecrypt P dec verify r = .ok p) :
    ∃ b, decrypted P dec r = some b ∧
      verify (b.take (b.length - P.RS)) (b.drop (b.length - P.RS)) = true ∧
      b.take (b.length - P.RS) ++ b.drop (b.length - P.RS) = b ∧
      P.H + P.RS ≤ b.length ∧
      (P.H ≤ r.length ∧ (b.take (b.length - P.RS)).take P.H = r.take P.H) ∧
      ∃ n, p = ((b.take (b.length - P.RS)).drop P.H).take n := by
  unfold verifyAndDecrypt at h
  by_cases h1 : r.length < P.H
  · simp [h1] at h
  · simp only [h1, if_false] at h
    cases hd : decrypted P dec r with
    | none => simp [hd] at h
    | some b =>
      simp only [hd] at h
      by_cases h2 : b.length < P.RS
      · simp [h2] at h
      · simp only [h2, if_false] at h
        cases hv : verify (b.take (b.length - P.RS)) (b.drop (b.length - P.RS)) with
        | false => simp [hv] at h
        | true =>
          simp only [hv, Bool.not_true, Bool.false_eq_true, if_false] at h
          cases hp : paddingLength P (b.take (b.length - P.RS)) with
          | error s => simp [hp] at h
          | ok pl =>
            simp only [hp] at h
            have hl : (b.take (b.length - P.RS)).length = b.length - P.RS := by
              simp [List.length_take]
            rw [hl] at h
            by_cases h3 : b.length - P.RS < P.H + pl
            · simp [h3] at h
            · simp only [h3, if_false, Out.ok.injEq] at h
              refine ⟨b, rfl, hv, List.take_append_drop _ _, by omega, ⟨by omega, ?_⟩, ⟨_, h.symm⟩⟩
              -- the first H bytes of b are the first H bytes of r
              have hbH : b.take P.H = r.take P.H := by
                unfold decrypted at hd
                by_cases he : P.enc = true
                · simp only [he, if_true, Option.map_eq_some_iff] at hd
                  obtain ⟨q, _, rfl⟩ := hd
                  have : (r.take P.H).length = P.H := by simp [List.length_take]; omega
                  rw [List.take_append_of_le_length (by omega)]
                  rw [List.take_take]; simp
                · simp only [he, Bool.false_eq_true, if_false, Option.some.injEq] at hd
                  rw [hd]
              rw [List.take_take, ← hbH]
              congr 1
              omega

/-- PARTIAL (hypothesis = unforgeability, stated over the set `sent` of
    plaintext chunks `header ‖ body ‖ padding ‖ signature` the key holder
    produced; `encf` is the encryption whose inverse `dec` is): every chunk the
    receiver accepts is byte-identical on the wire to a chunk the key holder
    sent. Hence any modification of any byte, truncation, extension, or a chunk
    made with other keys is not accepted. -/
theorem C09_tamper_partial (P : Params) (dec : Bytes → Option Bytes) (encf : Bytes → Bytes)
    (verify : Bytes → Bytes → Bool) (sent : List Bytes)
    (hUF : ∀ m s, verify m s = true → m ++ s ∈ sent)
    (hdec : ∀ y x, dec y = some x → y = encf x)
    (r p : Bytes) (h : verifyAndDecrypt P dec verify r = .ok p) :
    ∃ c ∈ sent, r = if P.enc then c.take P.H ++ encf (c.drop P.H) else c := by
  obtain ⟨b, hd, hv, hpart, hlen, ⟨hH, _⟩, _⟩ := C09_covered P dec verify r p h
  refine ⟨b, ?_, ?_⟩
  · have := hUF _ _ hv
    rwa [hpart] at this
  · unfold decrypted at hd
    by_cases he : P.enc = true
    · simp only [he, if_true, Option.map_eq_some_iff] at hd ⊢
      obtain ⟨q, hq, rfl⟩ := hd
      have hl : (r.take P.H).length = P.H := by simp [List.length_take]; omega
      have e1 : (r.take P.H ++ q).take P.H = r.take P.H := by
        rw [List.take_append_of_le_length (by omega), List.take_take]; simp
      have e2 : (r.take P.H ++ q).drop P.H = q := by
        have := List.drop_left (l₁ := r.take P.H) (l₂ := q)
        rwa [hl] at this
      rw [e1, e2, ← hdec _ _ hq, List.take_append_drop]
    · simp only [he, Bool.false_eq_true, if_false, Option.some.injEq] at hd ⊢
      exact hd

/-- On a channel whose mode is Sign or SignAndEncrypt the unsecured carve-out is
    never taken — whatever the SecurityPolicyURI field of the configuration says
    (readChunk overwrites it from every incoming OPN chunk before verification)
    and whatever kind of chunk arrives: every chunk goes through verification. -/
theorem C09_secured_mode_never_raw (policyNone isAsym : Bool) (P : Params) (dec : Bytes → Option Bytes)
    (verify : Bytes → Bytes → Bool) (r : Bytes) :
    receive false policyNone isAsym P dec verify r = verifyAndDecrypt P dec verify r := by
  simp [receive, carveOut]

/-- hence, in such a mode, a chunk whose signature does not verify is rejected
    by the whole function (same guard as `C09_rejected_partial`) -/
theorem C09_secured_mode_rejects_partial (policyNone isAsym : Bool) (P : Params) (dec : Bytes → Option Bytes)
    (verify : Bytes → Bytes → Bool) (r : Bytes) (h : sigFits P dec r = true)
    (hbad : ∀ b, decrypted P dec r = some b →
      verify (b.take (b.length - P.RS)) (b.drop (b.length - P.RS)) = false) :
    receive false policyNone isAsym P dec verify r = .err := by
  rw [C09_secured_mode_never_raw]
  exact C09_rejected_partial P dec verify r h hbad

/-- the carve-out is taken only when the mode is None, and then exactly for
    policy None or symmetric chunks (an OPN under a real policy is still
    decrypted and verified while the mode reads None) -/
theorem C09_carveout_table (m p a : Bool) :
    carveOut m p a = true ↔ m = true ∧ (p = true ∨ a = false) := by
  cases m <;> cases p <;> cases a <;> simp [carveOut]

/-! ### Findings: where the unguarded totality statement fails -/

/-- FINDING C09.sig-slice-short-chunk. Sign mode (no decryption): every chunk
    that decodes (≥ header) but is shorter than a signature makes
    `b[len(b)-RemoteSignatureLength():]` panic — whatever the keys, before any
    check: no key is needed to trigger it. -/
theorem C09_finding_sig_slice_short_chunk (P : Params) (dec : Bytes → Option Bytes)
    (verify : Bytes → Bytes → Bool) (r : Bytes)
    (he : P.enc = false) (h1 : P.H ≤ r.length) (h2 : r.length < P.RS) :
    verifyAndDecrypt P dec verify r = .panic .sigSlice := by
  have : ¬ r.length < P.H := by omega
  simp [verifyAndDecrypt, decrypted, he, this, h2]

/-- the recorded witness: the 16-byte chunk `MSGF | 16 | channel 1 | token 1`
    on a Basic256Sha256 / Sign channel (RemoteSignatureLength 32) -/
theorem C09_finding_sig_slice_witness (dec : Bytes → Option Bytes) (verify : Bytes → Bytes → Bool) :
    verifyAndDecrypt { H := 16, RS := 32, S := 32, enc := false } dec verify
      [0x4d, 0x53, 0x47, 0x46, 16, 0, 0, 0, 1, 0, 0, 0, 1, 0, 0, 0] = .panic .sigSlice :=
  C09_finding_sig_slice_short_chunk _ dec verify _ rfl (by decide) (by decide)

/-- FINDING C09.padding-exceeds-chunk. SignAndEncrypt (or any OPN): a chunk
    whose signature verifies — made by the peer that holds the keys, or for an
    OpenSecureChannel request by anybody, since the verification key is taken
    from the certificate inside the same chunk — and whose padding-size byte
    is larger than the body makes
    `messageToVerify[headerLength : len(messageToVerify)-paddingLength]` panic.
    Witness shape: header(16) ‖ sequence header(8) ‖ 7 body bytes ‖ 0xFF ‖ signature(32). -/
theorem C09_finding_padding_exceeds_chunk :
    verifyAndDecrypt { H := 16, RS := 32, S := 32, enc := true } some (fun _ _ => true)
      (List.replicate 16 1 ++ List.replicate 15 0 ++ [0xff] ++ List.replicate 32 7) = .panic .bodySlice := by
  decide

/-- General form: whenever the signature verifies and the padding count read
    from the chunk exceeds what is there, the function panics. -/
theorem C09_finding_padding_general (P : Params) (dec : Bytes → Option Bytes) (verify : Bytes → Bytes → Bool)
    (r b : Bytes) (pl : Nat) (hH : P.H ≤ r.length) (hd : decrypted P dec r = some b) (hb : P.RS ≤ b.length)
    (hv : verify (b.take (b.length - P.RS)) (b.drop (b.length - P.RS)) = true)
    (hp : paddingLength P (b.take (b.length - P.RS)) = .ok pl)
    (hbig : b.length - P.RS < P.H + pl) :
    verifyAndDecrypt P dec verify r = .panic .bodySlice := by
  have h1 : ¬ r.length < P.H := by omega
  have h2 : ¬ b.length < P.RS := by omega
  have hl : (b.take (b.length - P.RS)).length = b.length - P.RS := by simp [List.length_take]
  simp [verifyAndDecrypt, h1, hd, h2, hv, hp, hl, hbig]

/-- FINDING C09.opn-empty-body (same slice expression): an OpenSecureChannel
    chunk with NO encrypted part at all, whose signature sits in the
    ReceiverCertificateThumbprint field at the end of the security header
    (`RSA Decrypt` of zero bytes succeeds with zero bytes): the verified message
    is a prefix of the header, so the final slice starts behind its end. Any
    verification function that accepts (the sender signs with its own key) and
    any header of at least a signature's length. -/
theorem C09_finding_opn_empty_body (P : Params) (verify : Bytes → Bytes → Bool) (hdr : Bytes)
    (he : P.enc = true) (hH : hdr.length = P.H) (hRS : 0 < P.RS) (hfit : P.RS ≤ P.H)
    (hv : ∀ m s, verify m s = true) :
    (verifyAndDecrypt P (fun c => if c = [] then some [] else none) verify hdr).isPanic = true := by
  have h1 : ¬ hdr.length < P.H := by omega
  have hd : decrypted P (fun c => if c = [] then some [] else none) hdr = some hdr := by
    have : hdr.drop P.H = [] := by rw [← hH]; simp
    simp [decrypted, he, ← hH]
  have h2 : ¬ hdr.length < P.RS := by omega
  simp only [verifyAndDecrypt, h1, if_false, hd, h2, hv, Bool.not_true, Bool.false_eq_true]
  cases hp : paddingLength P (hdr.take (hdr.length - P.RS)) with
  | error s => simp [Out.isPanic]
  | ok pl =>
    have hl : (hdr.take (hdr.length - P.RS)).length = hdr.length - P.RS := by simp [List.length_take]
    have : hdr.length - P.RS < P.H + pl := by omega
    simp [this, Out.isPanic]

/-- The remaining index expressions are panic sites of the model too (they need
    a signature that verifies over a message shorter than the header, which for
    HMAC means a 2^-64 coincidence; no finding is recorded for them, the guard
    `wellSized` excludes them). -/
theorem C09_guard_is_needed :
    verifyAndDecrypt { H := 0, RS := 2, S := 2, enc := true } some (fun _ _ => true) [1, 2] = .panic .padByte ∧
    verifyAndDecrypt { H := 0, RS := 2, S := 300, enc := true } some (fun _ _ => true) [9, 1, 2] = .panic .padByte2 ∧
    verifyAndDecrypt { H := 16, RS := 2, S := 2, enc := false } some (fun _ _ => true) [1, 2, 3] = .panic .hdr := by
  decide

/-! ### Non-vacuity -/

/-- a well-formed SignAndEncrypt chunk is accepted and yields exactly the
    sequence header and body (padding and signature stripped) -/
example :
    verifyAndDecrypt { H := 16, RS := 32, S := 32, enc := true } some (fun _ s => s == List.replicate 32 7)
      (List.replicate 16 1 ++ List.replicate 8 2 ++ [5, 5, 5] ++ [4, 4, 4, 4, 4] ++ List.replicate 32 7)
    = .ok (List.replicate 8 2 ++ [5, 5, 5]) := by decide

/-- flipping a signature byte of that chunk gives an error -/
example :
    verifyAndDecrypt { H := 16, RS := 32, S := 32, enc := true } some (fun _ s => s == List.replicate 32 7)
      (List.replicate 16 1 ++ List.replicate 8 2 ++ [5, 5, 5] ++ [4, 4, 4, 4, 4] ++ List.replicate 31 7 ++ [6])
    = .err := by decide

end Opcua.Props.C09
