import OpcuaModel.Model.Tamper
import OpcuaModel.Model.TamperChan
/-
  C09 — tampered, truncated or forged secured chunks are rejected.

  State: after the `fix:` commit that added the two length checks to
  `verifyAndDecrypt`. Structural theorems hold for EVERY decryption and
  verification function and every byte string; the only hypotheses left are
  facts about the parameters, not about the chunk: `headerLength ≥ 2` (it is
  `12 + security header length` in the code) and `headerLength ≤ |r|` (it is the
  number of bytes `MessageChunk.Decode` consumed from `r`).
  `C09_tamper_partial` is conditional on an explicit unforgeability hypothesis.
-/
namespace Opcua.Props.C09
open Opcua Opcua.Tamper

/-- TOTALITY, full strength: for ALL byte strings of all lengths, all
    decryption and verification functions, `verifyAndDecrypt` returns data or
    an error; no slice or index expression fails. -/
theorem C09_total (P : Params) (dec : Bytes → Option Bytes) (verify : Bytes → Bytes → Bool)
    (r : Bytes) (hH : 2 ≤ P.H) (hdec : P.H ≤ r.length) :
    (verifyAndDecrypt P dec verify r).isPanic = false := by
  unfold verifyAndDecrypt
  have h1 : ¬ r.length < P.H := by omega
  simp only [h1, decide_false, Bool.and_false, Bool.false_eq_true, if_false]
  cases hd : decrypted P dec r with
  | none => simp [Out.isPanic]
  | some b =>
    simp only
    by_cases hb : b.length < P.H + P.RS
    · simp [hb, Out.isPanic]
    · simp only [hb, if_false]
      cases hv : verify (b.take (b.length - P.RS)) (b.drop (b.length - P.RS)) with
      | false => simp [Out.isPanic]
      | true =>
        simp only [Bool.not_true, Bool.false_eq_true, if_false]
        have hl := take_length_sub b P.RS
        have hp : ∃ pl, paddingLength P (b.take (b.length - P.RS)) = .ok pl := by
          unfold paddingLength
          by_cases he : P.enc = true
          · have h0 : ¬ (b.take (b.length - P.RS)).length = 0 := by omega
            have h2 : ¬ (b.take (b.length - P.RS)).length < 2 := by omega
            simp only [he, Bool.not_true, Bool.false_eq_true, if_false, h0, h2]
            by_cases hS : P.S > 256 <;> simp [hS]
          · simp [he]
        obtain ⟨pl, hp⟩ := hp
        simp only [hp]
        split <;> simp [Out.isPanic]

/-- A chunk whose signature does not verify — anything made or modified without
    the keys, of ANY length — is answered with an error: never data, never a
    panic. (No length guard any more.) -/
theorem C09_rejected (P : Params) (dec : Bytes → Option Bytes) (verify : Bytes → Bytes → Bool)
    (r : Bytes) (hdec : P.H ≤ r.length)
    (hbad : ∀ b, decrypted P dec r = some b →
      verify (b.take (b.length - P.RS)) (b.drop (b.length - P.RS)) = false) :
    verifyAndDecrypt P dec verify r = .err := by
  unfold verifyAndDecrypt
  have h1 : ¬ r.length < P.H := by omega
  simp only [h1, decide_false, Bool.and_false, Bool.false_eq_true, if_false]
  cases hd : decrypted P dec r with
  | none => rfl
  | some b =>
    simp only
    by_cases hb : b.length < P.H + P.RS
    · simp [hb]
    · simp [hb, hbad b hd]

/-- If data is returned, the signature check was evaluated, and succeeded, over
    ALL bytes of header ‖ plaintext except the signature itself (the two parts
    partition `b`), the header inside the verified message is the header that
    was received, and the returned data is a contiguous piece of the verified
    message that starts right after the header. -/
theorem C09_covered (P : Params) (dec : Bytes → Option Bytes) (verify : Bytes → Bytes → Bool)
    (r p : Bytes) (hdec : P.H ≤ r.length) (h : verifyAndDecrypt P dec verify r = .ok p) :
    ∃ b, decrypted P dec r = some b ∧
      verify (b.take (b.length - P.RS)) (b.drop (b.length - P.RS)) = true ∧
      b.take (b.length - P.RS) ++ b.drop (b.length - P.RS) = b ∧
      P.H + P.RS ≤ b.length ∧
      (b.take (b.length - P.RS)).take P.H = r.take P.H ∧
      ∃ n, p = ((b.take (b.length - P.RS)).drop P.H).take n := by
  unfold verifyAndDecrypt at h
  have h1 : ¬ r.length < P.H := by omega
  simp only [h1, decide_false, Bool.and_false, Bool.false_eq_true, if_false] at h
  cases hd : decrypted P dec r with
  | none => simp [hd] at h
  | some b =>
    simp only [hd] at h
    by_cases h2 : b.length < P.H + P.RS
    · simp [h2] at h
    · simp only [h2, if_false] at h
      cases hv : verify (b.take (b.length - P.RS)) (b.drop (b.length - P.RS)) with
      | false => simp [hv] at h
      | true =>
        simp only [hv, Bool.not_true, Bool.false_eq_true, if_false] at h
        cases hp : paddingLength P (b.take (b.length - P.RS)) with
        | error s => simp [hp] at h
        | ok pl =>
          simp only [hp] at h
          split at h
          · cases h
          · simp only [Out.ok.injEq] at h
            refine ⟨b, rfl, hv, List.take_append_drop _ _, by omega, ?_, ⟨_, h.symm⟩⟩
            have hbH : b.take P.H = r.take P.H := by
              unfold decrypted at hd
              by_cases he : P.enc = true
              · simp only [he, if_true, Option.map_eq_some_iff] at hd
                obtain ⟨q, _, rfl⟩ := hd
                have : (r.take P.H).length = P.H := by simp [List.length_take]; omega
                rw [List.take_append_of_le_length (by omega)]
                rw [List.take_take]; simp
              · simp only [he, Bool.false_eq_true, if_false, Option.some.injEq] at hd
                rw [hd]
            rw [List.take_take, ← hbH]
            congr 1
            omega

/-- PARTIAL (hypothesis = unforgeability, stated over the set `sent` of
    plaintext chunks `header ‖ body ‖ padding ‖ signature` the key holder
    produced; `encf` is the encryption whose inverse `dec` is): every chunk the
    receiver accepts is byte-identical on the wire to a chunk the key holder
    sent. Hence any modification of any byte, truncation, extension, or a chunk
    made with other keys is not accepted. -/
theorem C09_tamper_partial (P : Params) (dec : Bytes → Option Bytes) (encf : Bytes → Bytes)
    (verify : Bytes → Bytes → Bool) (sent : List Bytes)
    (hUF : ∀ m s, verify m s = true → m ++ s ∈ sent)
    (hdec : ∀ y x, dec y = some x → y = encf x)
    (r p : Bytes) (hH : P.H ≤ r.length) (h : verifyAndDecrypt P dec verify r = .ok p) :
    ∃ c ∈ sent, r = if P.enc then c.take P.H ++ encf (c.drop P.H) else c := by
  obtain ⟨b, hd, hv, hpart, hlen, _, _⟩ := C09_covered P dec verify r p hH h
  refine ⟨b, ?_, ?_⟩
  · have := hUF _ _ hv
    rwa [hpart] at this
  · unfold decrypted at hd
    by_cases he : P.enc = true
    · simp only [he, if_true, Option.map_eq_some_iff] at hd ⊢
      obtain ⟨q, hq, rfl⟩ := hd
      have hl : (r.take P.H).length = P.H := by simp [List.length_take]; omega
      have e1 : (r.take P.H ++ q).take P.H = r.take P.H := by
        rw [List.take_append_of_le_length (by omega), List.take_take]; simp
      have e2 : (r.take P.H ++ q).drop P.H = q := by
        have := List.drop_left (l₁ := r.take P.H) (l₂ := q)
        rwa [hl] at this
      rw [e1, e2, ← hdec _ _ hq, List.take_append_drop]
    · simp only [he, Bool.false_eq_true, if_false, Option.some.injEq] at hd ⊢
      exact hd

/-- On a channel whose mode is Sign or SignAndEncrypt the unsecured carve-out is
    never taken — whatever the SecurityPolicyURI field of the configuration says
    (readChunk overwrites it from every incoming OPN chunk before verification)
    and whatever kind of chunk arrives: every chunk goes through verification. -/
theorem C09_secured_mode_never_raw (policyNone isAsym : Bool) (P : Params) (dec : Bytes → Option Bytes)
    (verify : Bytes → Bytes → Bool) (r : Bytes) :
    receive false policyNone isAsym P dec verify r = verifyAndDecrypt P dec verify r := by
  simp [receive, carveOut]

/-- hence, in such a mode, a chunk whose signature does not verify is rejected
    by the whole function -/
theorem C09_secured_mode_rejects (policyNone isAsym : Bool) (P : Params) (dec : Bytes → Option Bytes)
    (verify : Bytes → Bytes → Bool) (r : Bytes) (hdec : P.H ≤ r.length)
    (hbad : ∀ b, decrypted P dec r = some b →
      verify (b.take (b.length - P.RS)) (b.drop (b.length - P.RS)) = false) :
    receive false policyNone isAsym P dec verify r = .err := by
  rw [C09_secured_mode_never_raw]
  exact C09_rejected P dec verify r hdec hbad

/-- the carve-out is taken only when the mode is None, and then exactly for
    policy None or symmetric chunks (an OPN under a real policy is still
    decrypted and verified while the mode reads None) -/
theorem C09_carveout_table (m p a : Bool) :
    carveOut m p a = true ↔ m = true ∧ (p = true ∨ a = false) := by
  cases m <;> cases p <;> cases a <;> simp [carveOut]

/-! ### The channel level: `readChunk` and the retry over the stored instances -/

/-- one instance on one decoded chunk never panics (the header length comes
    from `parseHeaders`, so `16 ≤ H ≤ |f|`) -/
theorem C09_instance_total (st : ChanState) (f : Bytes) (h : Headers) (hp : parseHeaders f = some h)
    (i : Inst) : (instVerify st h i f).isPanic = false := by
  have hb := parseHeaders_bounds f h hp
  unfold instVerify receive
  split
  · simp [Out.isPanic]
  · exact C09_total _ _ _ _ (by simp [paramsOf]; omega) (by simp [paramsOf]; omega)

/-- TOTALITY of `readChunk`: for EVERY received frame (any bytes, any length),
    every channel state, every certificate-derived algorithm: a chunk, an error
    or EOF — never a panic. -/
theorem C09_channel_total (derive : Bytes → Bytes → Option Inst) (uriIsNone : Bytes → Bool)
    (st : ChanState) (f : Bytes) : (readChunk derive uriIsNone st f).2.isPanic = false := by
  unfold readChunk
  cases hp : parseHeaders f with
  | none => simp [ROut.isPanic]
  | some h =>
    have fin : ∀ (st' : ChanState) (g : Option Inst),
        (match channelVerify st' h g f with
          | .err => (st', ROut.err)
          | .panic s => (st', ROut.panic s)
          | .ok d => if d.length < 8 then (st', ROut.err) else (st', ROut.deliver (d.take 8) (d.drop 8))).2.isPanic = false := by
      intro st' g
      have hc : (channelVerify st' h g f).isPanic = false := by
        unfold channelVerify
        cases g with
        | some i => exact C09_instance_total st' f h hp i
        | none => exact tryInstances_noPanic _ _ _ _ (fun i _ => C09_instance_total st' f h hp i)
      cases hv : channelVerify st' h g f with
      | ok d => simp only; split <;> simp [ROut.isPanic]
      | err => simp [ROut.isPanic]
      | panic s => simp [hv, Out.isPanic] at hc
    simp only
    cases h.kind with
    | clo => simp [ROut.isPanic]
    | msg => exact fin st none
    | opn =>
      simp only
      cases st.opening with
      | none => simp [ROut.isPanic]
      | some op =>
        simp only
        split
        · exact fin _ _
        · cases derive h.uri h.cert with
          | none => simp [ROut.isPanic]
          | some a => exact fin _ _

/-- a MSG chunk for a SecureChannelID without stored instances is an error -/
theorem C09_channel_unknown_id (derive : Bytes → Bytes → Option Inst) (uriIsNone : Bytes → Bool)
    (st : ChanState) (f : Bytes) (h : Headers) (hp : parseHeaders f = some h) (hk : h.kind = .msg)
    (hnone : st.instances h.channelID = []) : readChunk derive uriIsNone st f = (st, .err) := by
  simp [readChunk, hp, hk, channelVerify, hnone, tryInstances]

/-- COVERAGE at the channel level: if `readChunk` returns a chunk, then the
    headers decoded and SOME instance the channel may use for this chunk (the
    stored instances of its SecureChannelID for MSG; the opening instance, or the
    algorithm derived from the certificate in the chunk, for OPN) accepted ALL of
    the frame's bytes: `instVerify = ok (sequence header ‖ body)`. Nothing is
    delivered that no instance verified. -/
theorem C09_covered_channel (derive : Bytes → Bytes → Option Inst) (uriIsNone : Bytes → Bool)
    (st st' : ChanState) (f sh body : Bytes)
    (hr : readChunk derive uriIsNone st f = (st', .deliver sh body)) :
    ∃ h, parseHeaders f = some h ∧ ∃ i ∈ candidates derive uriIsNone st h,
      instVerify st' h i f = .ok (sh ++ body) ∧ sh.length = 8 := by
  unfold readChunk at hr
  cases hp : parseHeaders f with
  | none => simp [hp] at hr
  | some h =>
    refine ⟨h, rfl, ?_⟩
    simp only [hp] at hr
    have fin : ∀ (s1 : ChanState) (g : Option Inst),
        (match channelVerify s1 h g f with
          | .err => (s1, ROut.err)
          | .panic s => (s1, ROut.panic s)
          | .ok d => if d.length < 8 then (s1, ROut.err) else (s1, ROut.deliver (d.take 8) (d.drop 8)))
          = (st', .deliver sh body) →
        s1 = st' ∧ channelVerify s1 h g f = .ok (sh ++ body) ∧ sh.length = 8 := by
      intro s1 g hm
      cases hv : channelVerify s1 h g f with
      | err => simp [hv] at hm
      | panic s => simp [hv] at hm
      | ok d =>
        simp only [hv] at hm
        by_cases h8 : d.length < 8
        · simp [h8] at hm
        · simp only [h8, if_false, Prod.mk.injEq, ROut.deliver.injEq] at hm
          obtain ⟨rfl, rfl, rfl⟩ := hm
          refine ⟨rfl, by rw [List.take_append_drop], ?_⟩
          simp [List.length_take]; omega
    cases hk : h.kind with
    | clo => simp [hk] at hr
    | msg =>
      simp only [hk] at hr
      obtain ⟨rfl, hv, h8⟩ := fin st none hr
      unfold channelVerify at hv
      obtain ⟨i, hi, hvi⟩ := tryInstances_ok _ _ _ _ _ hv
      exact ⟨i, by simpa [candidates, hk] using hi, hvi, h8⟩
    | opn =>
      simp only [hk] at hr
      cases ho : st.opening with
      | none => simp [ho] at hr
      | some op =>
        simp only [ho] at hr
        by_cases hn : uriIsNone h.uri = true
        · simp only [hn, if_true] at hr
          obtain ⟨rfl, hv, h8⟩ := fin _ _ hr
          exact ⟨op, by simp [candidates, hk, ho, hn], by simpa [channelVerify] using hv, h8⟩
        · simp only [hn, Bool.false_eq_true, if_false] at hr
          cases hd : derive h.uri h.cert with
          | none => simp [hd] at hr
          | some a =>
            simp only [hd] at hr
            obtain ⟨rfl, hv, h8⟩ := fin _ _ hr
            exact ⟨a, by simp [candidates, hk, ho, hn, hd], by simpa [channelVerify] using hv, h8⟩

/-- … and on a channel in Sign or SignAndEncrypt mode that instance's signature
    check succeeded over all bytes of header ‖ plaintext minus the signature. -/
theorem C09_covered_channel_secured (derive : Bytes → Bytes → Option Inst) (uriIsNone : Bytes → Bool)
    (st st' : ChanState) (f sh body : Bytes) (hm : st'.modeNone = false)
    (hr : readChunk derive uriIsNone st f = (st', .deliver sh body)) :
    ∃ h, parseHeaders f = some h ∧ ∃ i ∈ candidates derive uriIsNone st h, ∃ b,
      decrypted (paramsOf st' h i) i.dec f = some b ∧
      i.verify (b.take (b.length - i.RS)) (b.drop (b.length - i.RS)) = true ∧
      b.take (b.length - i.RS) ++ b.drop (b.length - i.RS) = b := by
  obtain ⟨h, hp, i, hi, hv, _⟩ := C09_covered_channel derive uriIsNone st st' f sh body hr
  have hb := parseHeaders_bounds f h hp
  refine ⟨h, hp, i, hi, ?_⟩
  unfold instVerify at hv
  rw [hm, C09_secured_mode_never_raw] at hv
  obtain ⟨b, hd, hvb, hpart, _⟩ := C09_covered _ _ _ _ _ (by simp [paramsOf]; omega) hv
  exact ⟨b, hd, hvb, hpart⟩

/-- the retry loop tries the NEWEST stored instance first: what it accepts is
    the result, whatever older instances would say -/
theorem C09_channel_newest_first (st : ChanState) (h : Headers) (f d : Bytes) (older : List Inst) (newest : Inst)
    (hi : st.instances h.channelID = older ++ [newest]) (hv : instVerify st h newest f = .ok d) :
    channelVerify st h none f = .ok d := by
  simp [channelVerify, hi, tryInstances, hv]

/-- in Sign / SignAndEncrypt mode a MSG chunk whose signature verifies under
    NONE of the stored instances of its channel is an error -/
theorem C09_channel_rejected (derive : Bytes → Bytes → Option Inst) (uriIsNone : Bytes → Bool)
    (st : ChanState) (f : Bytes) (h : Headers) (hp : parseHeaders f = some h) (hk : h.kind = .msg)
    (hm : st.modeNone = false)
    (hbad : ∀ i ∈ st.instances h.channelID, ∀ b, decrypted (paramsOf st h i) i.dec f = some b →
      i.verify (b.take (b.length - i.RS)) (b.drop (b.length - i.RS)) = false) :
    readChunk derive uriIsNone st f = (st, .err) := by
  have hb := parseHeaders_bounds f h hp
  have : channelVerify st h none f = .err := by
    unfold channelVerify
    apply tryInstances_err
    intro i hi
    unfold instVerify
    rw [hm]
    exact C09_secured_mode_rejects _ _ _ _ _ _ (by simp [paramsOf]; omega)
      (fun b hd => hbad i (by simpa using hi) b hd)
  simp [readChunk, hp, hk, this]

/-! ### The three repaired defects: the former witnesses are now rejected -/

/-- was C09.sig-slice-short-chunk: Sign mode, a chunk that decodes but is shorter
    than header + signature → error (before: panic `[-16:]`), for every dec/verify -/
theorem C09_fixed_short_chunk (P : Params) (dec : Bytes → Option Bytes)
    (verify : Bytes → Bytes → Bool) (r : Bytes)
    (he : P.enc = false) (h2 : r.length < P.H + P.RS) :
    verifyAndDecrypt P dec verify r = .err := by
  simp [verifyAndDecrypt, decrypted, he, h2]

/-- the recorded witness: the 16-byte chunk `MSGF | 16 | channel 1 | token 1`
    on a Basic256Sha256 / Sign channel -/
theorem C09_fixed_short_chunk_witness (dec : Bytes → Option Bytes) (verify : Bytes → Bytes → Bool) :
    verifyAndDecrypt { H := 16, RS := 32, S := 32, enc := false } dec verify
      [0x4d, 0x53, 0x47, 0x46, 16, 0, 0, 0, 1, 0, 0, 0, 1, 0, 0, 0] = .err :=
  C09_fixed_short_chunk _ dec verify _ rfl (by decide)

/-- was C09.padding-exceeds-chunk / C09.opn-padding-exceeds-chunk: the signature
    verifies and the padding count read from the chunk exceeds the body → error
    (before: panic in the final slice), in general -/
theorem C09_fixed_padding_exceeds (P : Params) (dec : Bytes → Option Bytes) (verify : Bytes → Bytes → Bool)
    (r b : Bytes) (pl : Nat) (hH : P.H ≤ r.length) (hd : decrypted P dec r = some b)
    (hp : paddingLength P (b.take (b.length - P.RS)) = .ok pl)
    (hbig : b.length - P.RS < P.H + pl) :
    verifyAndDecrypt P dec verify r = .err := by
  have h1 : ¬ r.length < P.H := by omega
  have hl := take_length_sub b P.RS
  unfold verifyAndDecrypt
  simp only [h1, decide_false, Bool.and_false, Bool.false_eq_true, if_false, hd]
  by_cases h2 : b.length < P.H + P.RS
  · simp [h2]
  · simp only [h2, if_false, hp]
    cases hv : verify (b.take (b.length - P.RS)) (b.drop (b.length - P.RS)) with
    | false => simp
    | true =>
      have : b.length - P.RS - P.H < pl := by omega
      simp [this]

/-- the recorded witness shape header(16) ‖ seq(8) ‖ 7 body bytes ‖ 0xFF ‖ signature(32) -/
theorem C09_fixed_padding_witness :
    verifyAndDecrypt { H := 16, RS := 32, S := 32, enc := true } some (fun _ _ => true)
      (List.replicate 16 1 ++ List.replicate 15 0 ++ [0xff] ++ List.replicate 32 7) = .err := by
  decide

/-- was the OPN variant with no encrypted part and the signature in the
    thumbprint field: the chunk is shorter than header + signature → error -/
theorem C09_fixed_opn_empty_body (P : Params) (verify : Bytes → Bytes → Bool) (hdr : Bytes)
    (he : P.enc = true) (hH : hdr.length = P.H) (hRS : 0 < P.RS) :
    verifyAndDecrypt P (fun c => if c = [] then some [] else none) verify hdr = .err := by
  have h1 : ¬ hdr.length < P.H := by omega
  have hd : decrypted P (fun c => if c = [] then some [] else none) hdr = some hdr := by
    have : hdr.drop P.H = [] := by rw [← hH]; simp
    simp [decrypted, he, ← hH]
  have h2 : hdr.length < P.H + P.RS := by omega
  simp [verifyAndDecrypt, h1, hd, h2]

/-- the two parameter hypotheses of `C09_total` are needed in the MODEL (the
    code never has such parameters: `headerLength ≥ 12`, and `r` is the slice the
    headers were decoded from) -/
theorem C09_parameter_hypotheses_needed :
    verifyAndDecrypt { H := 0, RS := 2, S := 2, enc := true } some (fun _ _ => true) [1, 2] = .panic .padByte ∧
    verifyAndDecrypt { H := 1, RS := 2, S := 300, enc := true } some (fun _ _ => true) [9, 1, 2] = .panic .padByte2 ∧
    verifyAndDecrypt { H := 16, RS := 2, S := 2, enc := true } some (fun _ _ => true) [1, 2, 3] = .panic .hdr := by
  decide

/-! ### Non-vacuity -/

/-- a well-formed SignAndEncrypt chunk is accepted and yields exactly the
    sequence header and body (padding and signature stripped) -/
example :
    verifyAndDecrypt { H := 16, RS := 32, S := 32, enc := true } some (fun _ s => s == List.replicate 32 7)
      (List.replicate 16 1 ++ List.replicate 8 2 ++ [5, 5, 5] ++ [4, 4, 4, 4, 4] ++ List.replicate 32 7)
    = .ok (List.replicate 8 2 ++ [5, 5, 5]) := by decide

/-- flipping a signature byte of that chunk gives an error -/
example :
    verifyAndDecrypt { H := 16, RS := 32, S := 32, enc := true } some (fun _ s => s == List.replicate 32 7)
      (List.replicate 16 1 ++ List.replicate 8 2 ++ [5, 5, 5] ++ [4, 4, 4, 4, 4] ++ List.replicate 31 7 ++ [6])
    = .err := by decide

end Opcua.Props.C09
