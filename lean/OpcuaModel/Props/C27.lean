import OpcuaModel.Model.PubLoop
import OpcuaModel.Model.PubLoopLemmas
import OpcuaModel.Gen.SubsFacts
/-
  C27 — subscription API calls and the publish loop never deadlock.

  The LTS of `Model/PubLoop.lean`: publish loop, Subscribe, ForgetSubscription (for a
  registered id and for an id that is gone — a repeated Cancel), the reconnect code of
  Client.monitor, the two signal channels with the capacities read from NewClient, and
  the write lock subMux.  `canStep` = some thread or the environment (publish
  response, timeout) can move; `atRest` = every call returned and the loop waits paused.

  The full statement is false on the unchanged code (three machine-checked deadlock
  traces); it is proved under the guard "at most one thread besides the loop sends a
  pause signal" for any number of Subscribe calls.
-/
namespace Opcua.Props.C27
open Opcua Opcua.PubLoop

/-! ### tie to the source: generated facts -/

/-- the facts the LTS is built on, as read from client.go / client_sub.go: capacities of
    pausech / resumech, the pause token queued by NewClient, the three send sites
    (Subscribe sends on resumech outside a select, i.e. without ctx), forget pauses when
    the registry is empty while ForgetSubscription holds the lock, and the loop pauses
    itself when publish() fails -/
theorem C27_gen_facts :
    pauseCap = 2 ∧ resumeCap = 2 ∧ Gen.Subs.newClientPauses = 1 ∧ Gen.Subs.monitorPauses = 1 ∧
    Gen.Subs.sends = [("Subscribe", "resumech"), ("pauseSubscriptions", "pausech"), ("resumeSubscriptions", "resumech")] ∧
    Gen.Subs.forgetPauseCond = "len(c.subs) == 0" ∧
    Gen.Subs.forgetCalls = ["c.subMux.Lock", "c.forgetSubscription_NeedsSubMuxLock", "c.subMux.Unlock"] ∧
    Gen.Subs.loopSelfPause = true := by decide

/-! ### the deadlocks -/

/-- FINDING (C27.self-pause-full).  One subscription; while a PublishRequest is
    outstanding the application cancels it twice (the second Cancel finds the registry
    empty and pauses again): two tokens sit in pausech.  The publish then fails
    (BadNoSubscription, EOF, …) and the loop signals pause *to itself* on the full
    channel: it blocks for good, nobody else reads pausech. -/
theorem C27_finding_self_pause_full :
    ∃ dead, run (init 1 1 1 0 0 0)
        [.selTakePause, .subSendResume, .subRegister, .pausedTakeResume, .selDefault, .pubStart,
         .fgLock, .fgSendPause, .fgStaleLock, .fgSendPause, .respErr] = some dead ∧
      dead.loop = .selfPause ∧ dead.pause = pauseCap ∧ canStep dead = false ∧ atRest dead = false := by
  refine ⟨_, rfl, ?_⟩
  decide

/-- FINDING (C27.forget-blocks-holding-submux).  A third forget while the publish is
    still outstanding blocks in `pauseSubscriptions` *holding subMux*; when the response
    arrives the loop blocks on `subMux.Lock()`: the API call and the loop wait for each
    other. -/
theorem C27_finding_forget_holds_mux :
    ∃ dead, run (init 1 1 2 0 0 0)
        [.selTakePause, .subSendResume, .subRegister, .pausedTakeResume, .selDefault, .pubStart,
         .fgLock, .fgSendPause, .fgStaleLock, .fgSendPause, .fgStaleLock, .respOk] = some dead ∧
      dead.loop = .wantLock ∧ dead.mux = .forgetSending ∧ canStep dead = false ∧ atRest dead = false := by
  refine ⟨_, rfl, ?_⟩
  decide

/-- the same wedge also stops the reconnect: Client.monitor blocks in its own
    `pauseSubscriptions` and never reaches the reconnect actions -/
theorem C27_finding_reconnect_blocked :
    ∃ dead, run (init 1 1 1 0 1 0)
        [.selTakePause, .subSendResume, .subRegister, .pausedTakeResume, .selDefault, .pubStart,
         .fgLock, .fgSendPause, .fgStaleLock, .fgSendPause, .respErr] = some dead ∧
      dead.monPause = 1 ∧ canStep dead = false ∧ atRest dead = false := by
  refine ⟨_, rfl, ?_⟩
  decide

/-- hence the unguarded statement is false -/
theorem C27_no_deadlock_fails :
    ¬ ∀ s, Reachable (init 1 1 1 0 0 0) s → canStep s = true ∨ atRest s = true := by
  intro h
  obtain ⟨dead, hrun, _, _, hc, ha⟩ := C27_finding_self_pause_full
  have := h dead (run_reachable _ _ _ Reachable.refl hrun)
  simp [hc, ha] at this

/-! ### the guarded statement -/

/-- PARTIAL.  If at most one thread besides the loop ever sends a pause signal (one
    ForgetSubscription / Cancel, or one reconnect round) — with any number of Subscribe
    calls, any registry size, every interleaving and every sequence of publish outcomes —
    then in every reachable state some thread or the environment can move, or everything
    is at rest. -/
theorem C27_no_deadlock_partial (subscribes forgets stale staleD reconnects nsubs : Nat)
    (hg : forgets + stale + staleD + reconnects ≤ 1) (s : St)
    (hr : Reachable (init subscribes forgets stale staleD reconnects nsubs) s) :
    canStep s = true ∨ atRest s = true :=
  progress (inv_reachable (inv_init subscribes forgets stale staleD reconnects nsubs hg) hr)

/-- under the same guard no send on pausech ever finds the channel full: the queue
    never holds more than `pauseCap` tokens and a sender always has room -/
theorem C27_pause_never_full (subscribes forgets stale staleD reconnects nsubs : Nat)
    (hg : forgets + stale + staleD + reconnects ≤ 1) (s : St)
    (hr : Reachable (init subscribes forgets stale staleD reconnects nsubs) s) :
    s.pause ≤ pauseCap ∧ (s.loop = .selfPause → s.pause < pauseCap) ∧
    (0 < pausers s → s.pause < pauseCap) := by
  have hi := inv_reachable (inv_init subscribes forgets stale staleD reconnects nsubs hg) hr
  obtain ⟨h1, h2⟩ := hi
  have hc := caps.1
  refine ⟨?_, ?_, ?_⟩
  · cases hl : s.loop <;> simp [hl, bound] at h2 <;> omega
  · intro hl; simp [hl, bound] at h2; omega
  · intro hp; cases hl : s.loop <;> simp [hl, bound] at h2 <;> omega

/-- the loop never holds subMux while it hands a notification to the application
    (`notifySubscription` runs after `Unlock`): an API call made by the consumer of the
    notification channel is not blocked by the delivery it is about to receive -/
theorem C27_notify_without_lock (s s' : St) (h : step s .handleD = some s') :
    s'.loop = .notifying ∧ s'.mux = .free := by
  simp only [step] at h
  split at h
  · rename_i hg
    simp only [Option.some.injEq] at h
    subst h
    exact ⟨rfl, hg.2⟩
  · simp at h

/-- the error path never waits for the application: a failing publish — including the
    fan-out of an error to every subscription (`notifyAllSubscriptionsOfError` /
    `notifySubscriptionOfError` start one goroutine per subscription and return) — takes the
    loop straight to its self-pause with the lock state unchanged; there is no state in which
    the loop holds `subMux` (not even for reading) while an error notification is pending -/
theorem C27_error_fanout_without_lock (s s' : St) (h : step s .respErr = some s') :
    s'.loop = .selfPause ∧ s'.mux = s.mux ∧ s'.pause = s.pause ∧ s'.resume = s.resume := by
  simp only [step] at h
  split at h
  · simp only [Option.some.injEq] at h
    subst h
    exact ⟨rfl, rfl, rfl, rfl⟩
  · simp at h

/-- a ForgetSubscription / Cancel called with a context that has a deadline never wedges the
    client: while it holds subMux waiting for room in pausech, giving up at the deadline
    is always possible, after which the lock is free again.  (Compare
    `C27_finding_forget_holds_mux`: with a context that never ends the same state is dead.) -/
theorem C27_deadline_forget_gives_up (s : St) (h : s.mux = .forgetSendingD) :
    canStep s = true ∧ ∃ s', step s .fgGiveUp = some s' ∧ s'.mux = .free ∧ s'.pause = s.pause := by
  refine ⟨canStep_of .fgGiveUp (by simp [step, h]), ?_⟩
  simp [step, h]

/-- the wedge of `C27_finding_forget_holds_mux` with a deadline on the third forget: after
    the deadline the loop handles the response and everything comes to rest -/
example :
    (run (init 1 1 1 1 0 0)
      [.selTakePause, .subSendResume, .subRegister, .pausedTakeResume, .selDefault, .pubStart,
       .fgLock, .fgSendPause, .fgStaleLock, .fgSendPause, .fgStaleDLock, .respOk, .fgGiveUp, .handle,
       .selTakePause, .pausedTakePause]).map (fun s => (atRest s, s.loop)) = some (true, .paused) := by decide

/-! ### lost wake-up: the loop paused although subscriptions are registered -/

/-- FINDING (C27.pause-overtakes-resume).  A select over two ready channels picks at
    random, so a pause token can be taken *after* a resume token that was sent later
    than it.  Cancel the only subscription and subscribe again while a publish is
    outstanding: when the response arrives the loop may read the fresh resume first
    ("ignore since not paused") and the stale pause second — it stays paused with a
    registered subscription and never publishes again. -/
theorem C27_finding_pause_overtakes_resume :
    ∃ s, run (init 2 1 0 0 0 0)
        [.selTakePause, .subSendResume, .subRegister, .pausedTakeResume, .selDefault, .pubStart,
         .fgLock, .fgSendPause, .subSendResume, .subRegister, .respOk, .handle,
         .selTakeResume, .selTakePause] = some s ∧ stalled s = true ∧ s.nsubs = 1 := by
  refine ⟨_, rfl, ?_⟩
  decide

/-- the same race exists right after `Connect`: the token NewClient queued and the
    resume of the very first Subscribe can be read in the wrong order -/
theorem C27_finding_initial_pause_race :
    ∃ s, run (init 1 0 0 0 0 0) [.subSendResume, .subRegister, .selTakeResume, .selTakePause] = some s ∧
      stalled s = true := by
  refine ⟨_, rfl, ?_⟩
  decide

/-- FINDING (C27.badnosubscription-pauses-for-good).  A publish that fails while a
    subscription is registered and nothing else is going on — the server answers
    BadNoSubscription (a late answer to a request it processed while it had none) — makes
    the loop pause itself; `Client.monitor` skips exactly this error (`continue`), so no
    reconnect and no resume follow: the loop stays paused with a registered subscription. -/
theorem C27_finding_error_pauses_with_subscription :
    ∃ s, run (init 1 0 0 0 0 0)
        [.selTakePause, .subSendResume, .subRegister, .pausedTakeResume, .selDefault, .pubStart,
         .respErr, .selfPause, .selTakePause] = some s ∧ stalled s = true ∧ s.nsubs = 1 := by
  refine ⟨_, rfl, ?_⟩
  decide

/-- what a failing publish does when nothing else is under way (no token queued, no call
    in progress, lock free): whatever the number of registered subscriptions, the only run
    of the loop is self-pause → read the own token → paused, at rest, registry untouched —
    stalled exactly when a subscription is registered. -/
theorem C27_error_pauses (s : St) (hl : s.loop = .inflight) (hp : s.pause = 0) (hr : s.resume = 0)
    (hm : s.mux = .free) (h1 : s.subSend = 0) (h2 : s.subLock = 0) (h3 : s.fgStart = 0) (h4 : s.fgStale = 0)
    (h5 : s.fgStaleD = 0) (h6 : s.monPause = 0) (h7 : s.monResume = 0) :
    ∃ s', run s [.respErr, .selfPause, .selTakePause] = some s' ∧ s'.loop = .paused ∧ atRest s' = true ∧
      s'.nsubs = s.nsubs ∧ (stalled s' = true ↔ 0 < s.nsubs) := by
  have hc := caps.1
  refine ⟨{ s with loop := .paused }, ?_, rfl, ?_, rfl, ?_⟩
  · simp [run, step, hl, hp, hc]
  · simp [atRest, h1, h2, h3, h4, h5, h6, h7, hm, hp, hr]
  · simp [stalled, atRest, h1, h2, h3, h4, h5, h6, h7, hm, hp, hr]

/-- PARTIAL.  Once the loop has consumed the initial token, with Subscribe calls only
    (no forget, no reconnect) and no failing publish, the loop is never left paused
    while a subscription is registered — for any number of Subscribe calls and every
    interleaving. -/
theorem C27_no_stall_partial (n : Nat) (s : St) (hr : ReachableNoErr (started n) s) :
    stalled s = false :=
  not_stalled_of_inv (noStall_reachable hr)

/-- the guard is tight: two pausing threads already suffice for the deadlock -/
example : ¬ (1 + 1 + 0 ≤ 1) := by decide

/-- non-vacuity: a full healthy cycle (subscribe, publish, response, cancel) ends at rest -/
example :
    (run (init 1 1 0 0 0 0)
      [.selTakePause, .subSendResume, .subRegister, .pausedTakeResume, .selDefault, .pubStart, .respOk, .handle,
       .selDefault, .pubStart, .fgLock, .fgSendPause, .respErr, .selfPause, .selTakePause, .pausedTakePause]).map
      (fun s => (atRest s, s.pause, s.loop)) = some (true, 0, .paused) := by decide

end Opcua.Props.C27
