import OpcuaModel.Model.LinearApp
import OpcuaModel.Gen.Dispatch
/-
  C34 — concurrent reads and writes of node values are linearizable.

  The server executes every request in ONE goroutine: `monitorConnections`
  takes a message from the channel all connections feed and calls
  `handleService` synchronously; the Read / Write handlers and everything they
  reach start no goroutine.  These structural facts are extracted from the
  source with go/ast on every run (`Gen/Dispatch.lean`, `C34_facts`).  Under
  them a request history is a well-formed trace of the machine `Linear.mrun`
  (invocation, atomic dispatcher step, response), and for every such trace the
  dispatch order is a linearization (`C34_linearizable`).  `C34_step_refines`
  shows that the handler of the attribute service (the C31 model) refines one
  register per node, successful Value reads/writes being the register
  operations and everything else leaving the registers alone; so the dispatch
  log restricted to successful operations is a legal register history
  (`C34_register_history`).  The correspondence run checks on real concurrent
  clients that the hooked dispatcher order is such a linearization.

  The embedding application (part 3, `Model/LinearApp.lean`): the node value has no
  lock (`Gen.nodeMethodLockOps = 0`); mutual exclusion of client requests comes
  from the dispatcher only, and application code runs outside it.  Application
  steps that touch only the value word of a node (`node.SetAttribute(Value, …)`,
  `node.Value()`, the background `go ChangeNotification`) may fall between the
  access check and the value access of a client handler; they commute with the
  check (`C34_value_steps_commute`), so every such history is still linearized
  by the order of the single accesses to `n.val` (`C34_app_atomic`,
  `C34_app_step_refines`).  An application write of AccessLevel /
  UserAccessLevel between check and access is where it ends: the split handler
  then produces a history without any linearization
  (`C34_app_access_write_not_linearizable`) — and physically it is a concurrent
  Go map write.  Remaining hypotheses: `Server.Start` is called once; word-sized
  loads and stores of `n.val` are coherent (true on the supported platforms, not
  promised by the Go memory model for racy accesses); the application does not
  write other attributes of a node while clients use that node.
-/
namespace Opcua.Props.C34
open Opcua.Linear Opcua.Access

/-- the structural facts, re-extracted from the source on every run -/
theorem C34_facts :
    Gen.handleServiceCallSites = 1 ∧ Gen.handleServiceConcurrentSites = 0 ∧
    Gen.handleServiceCallers = ["monitorConnections"] ∧ Gen.handleServiceLoopDepth = 1 ∧
    Gen.dispatcherGoSites = 1 ∧ Gen.dispatcherGoSitesInLoop = 0 ∧ Gen.dispatcherOtherCalls = 0 ∧
    Gen.dispatcherStarters = ["Start"] ∧ Gen.valuePathGoStmts = 0 := by decide

/-- MAIN (generic): for every well-formed trace of a single-dispatcher machine
    the dispatch order `log` is a linearization of the history:
    (1) it is a legal sequential run of the handler from the initial state, ending in the final state;
    (2) every response delivered to a client is the result the sequential run gave to that operation;
    (3) real time: an operation whose response precedes the invocation of another one precedes it in `log`. -/
theorem C34_linearizable {σ O R : Type} [DecidableEq R] (step : σ → O → R × σ) (s0 : σ)
    (tr : List (Ev O R)) (m : M σ O R) (h : mrun step (M.init s0) tr = some m) :
    seqRun step s0 (m.log.map (·.2.1)) = (m.log.map (·.2.2), m.st) ∧
    (∀ id r, Ev.resp id r ∈ tr → ∃ op, (id, op, r) ∈ m.log) ∧
    (∀ t1 t2 b opb, tr = t1 ++ Ev.inv b opb :: t2 → ∀ a r, Ev.resp a r ∈ t1 →
      ∃ l1 l2, m.log = l1 ++ l2 ∧ a ∈ logIds l1 ∧ b ∉ logIds l1) := by
  obtain ⟨hw, _⟩ := WF_run step s0 tr _ m (WF_init step s0) h
  refine ⟨hw.legal, resp_logged step s0 tr _ m (WF_init step s0) h, ?_⟩
  intro t1 t2 b opb htr a r ha
  subst htr
  rw [mrun_append] at h
  cases h1 : mrun step (M.init s0) t1 with
  | none => simp [h1] at h
  | some m1 =>
    simp only [h1, Option.bind_some, mrun] at h
    obtain ⟨hw1, _⟩ := WF_run step s0 t1 _ m1 (WF_init step s0) h1
    cases h2 : mstep step m1 (Ev.inv b opb) with
    | none => simp [h2] at h
    | some m2 =>
      simp only [h2] at h
      obtain ⟨hw2, l2, hl2⟩ := WF_step step s0 m1 m2 _ hw1 h2
      obtain ⟨_, l3, hl3⟩ := WF_run step s0 t2 m2 m hw2 h
      obtain ⟨opa, hopa⟩ := resp_logged step s0 t1 _ m1 (WF_init step s0) h1 a r ha
      refine ⟨m1.log, l2 ++ l3, by rw [hl3, hl2, List.append_assoc], ?_, ?_⟩
      · exact List.mem_map.2 ⟨_, hopa, rfl⟩
      · intro hb
        have hu := hw1.logUsed b hb
        simp only [mstep] at h2
        simp [hu] at h2

/-- REFINEMENT: one handler step of the attribute service against one register per node.
    A successful Value read returns the register's content and changes no register; a successful
    Value write sets exactly that register; every other request (other attributes, refused,
    unknown node, panic) leaves all registers as they are. -/
theorem C34_step_refines (sv : Server) (op : Op) :
    match regEv op (step sv op).1 with
    | .read k d => abs sv k = some d ∧ abs (step sv op).2 = abs sv
    | .write k d => (∃ old, abs sv k = some old) ∧ abs (step sv op).2 = (abs sv).set k d
    | .none => abs (step sv op).2 = abs sv := by
  have keep : ∀ (i k : Nat) (s : Store) (n n' : Node), sv i = some s → s k = some n → n'.val = n.val →
      abs (sv.set i (s.set k n')) = abs sv := by
    intro i k s n n' hs hk hv
    funext j
    by_cases hj : j = (i, k)
    · subst hj; rw [abs_set_same, hv]; simp [abs, Server.node, hs, hk]
    · exact abs_set_other sv i k s n' hs j hj
  -- requests that address no node change nothing and are not successful
  have missing : ∀ (i k : Nat), ((∃ a, op = .read i k a) ∨ (∃ a d, op = .write i k a d)) →
      (sv i = none ∨ ∃ s, sv i = some s ∧ s k = none) →
      (match regEv op (step sv op).1 with
       | .read k d => abs sv k = some d ∧ abs (step sv op).2 = abs sv
       | .write k d => (∃ old, abs sv k = some old) ∧ abs (step sv op).2 = (abs sv).set k d
       | .none => abs (step sv op).2 = abs sv) := by
    intro i k hop h
    obtain ⟨h1, h2⟩ := step_missing sv op i k hop h
    have hnone : regEv op (step sv op).1 = .none := by
      rcases hop with ⟨a, rfl⟩ | ⟨a, d, rfl⟩
      · cases hr : (step sv (.read i k a)).1 with
        | value r => exact absurd hr (h2 r).1
        | status st => simp [regEv]
        | panic => simp [regEv]
      · cases hr : (step sv (.write i k a d)).1 with
        | value r => simp [regEv]
        | panic => simp [regEv]
        | status st =>
          cases st <;> simp [regEv]
          exact absurd hr (h2 (.nilPtr)).2
    rw [hnone]; simp only []; rw [h1]
  cases op with
  | read i k a =>
    cases hs : sv i with
    | none => exact missing i k (Or.inl ⟨a, rfl⟩) (Or.inl hs)
    | some s =>
      cases hk : s k with
      | none => exact missing i k (Or.inl ⟨a, rfl⟩) (Or.inr ⟨s, hs, hk⟩)
      | some n =>
        rw [step_read_eq sv i k a s n hs hk]
        have hkeep := keep i k s n (nsAttribute n a).2 hs hk (nsAttribute_val n a)
        cases hr : (nsAttribute n a).1 with
        | status st => simpa [regEv] using hkeep
        | panic => simpa [regEv] using hkeep
        | value d =>
          simp only [regEv]
          by_cases ha : a = aValue
          · subst ha
            simp only [↓reduceIte]
            refine ⟨?_, hkeep⟩
            rw [nsAttribute_value n d hr]
            simp [abs, Server.node, hs, hk]
          · simpa [ha] using hkeep
  | write i k a d =>
    cases hs : sv i with
    | none => exact missing i k (Or.inr ⟨a, d, rfl⟩) (Or.inl hs)
    | some s =>
      cases hk : s k with
      | none => exact missing i k (Or.inr ⟨a, d, rfl⟩) (Or.inr ⟨s, hs, hk⟩)
      | some n =>
        rw [step_write_eq sv i k a d s n hs hk]
        unfold nsSetAttribute
        cases hacc : access n fWrite with
        | panic => simpa [regEv] using keep i k s n n hs hk rfl
        | deny => simpa [regEv] using keep i k s n n hs hk rfl
        | allow =>
          simp only [regEv]
          by_cases ha : a = aValue
          · subst ha
            simp only [↓reduceIte]
            refine ⟨⟨n.val, by simp [abs, Server.node, hs, hk]⟩, ?_⟩
            funext j
            by_cases hj : j = (i, k)
            · subst hj; rw [abs_set_same]; simp [Regs.set, nodeSet]
            · rw [abs_set_other sv i k s _ hs j hj]; simp [Regs.set, hj]
          · simp only [ha, ↓reduceIte]
            exact keep i k s n _ hs hk (by simp [nodeSet, ha])

/-- a register history is legal: every read returns the last value written (or the initial one) -/
def regLegal : Regs → List RegEv → Prop
  | _, [] => True
  | r, .read k d :: rest => r k = some d ∧ regLegal r rest
  | r, .write k d :: rest => regLegal (r.set k d) rest
  | r, .none :: rest => regLegal r rest

/-- the successful Value operations of any sequential run of the attribute service form a
    legal history of one register per node — so, with `C34_linearizable`, the dispatch
    order restricted to successful operations linearizes the clients' history -/
theorem C34_register_history (ops : List Op) (sv : Server) :
    regLegal (abs sv) ((ops.zip (seqRun step sv ops).1).map (fun p => regEv p.1 p.2)) := by
  induction ops generalizing sv with
  | nil => simp [seqRun, regLegal]
  | cons op rest ih =>
    have hr := C34_step_refines sv op
    have ih' := ih (step sv op).2
    simp only [seqRun, List.zip_cons_cons, List.map_cons]
    cases he : regEv op (step sv op).1 with
    | read k d => simp only [he] at hr; rw [hr.2] at ih'; exact ⟨hr.1, ih'⟩
    | write k d => simp only [he] at hr; rw [hr.2] at ih'; exact ih'
    | none => simp only [he] at hr; rw [hr] at ih'; exact ih'

/-- the two together, for the attribute service model: any well-formed concurrent trace is
    linearized by its dispatch order, which is a legal register history -/
theorem C34_server_linearizable (sv0 : Server) (tr : List (Ev Op Res)) (m : M Server Op Res)
    (h : mrun step (M.init sv0) tr = some m) :
    regLegal (abs sv0) (m.log.map (fun e => regEv e.2.1 e.2.2)) ∧
    (∀ id r, Ev.resp id r ∈ tr → ∃ op, (id, op, r) ∈ m.log) := by
  obtain ⟨h1, h2, _⟩ := C34_linearizable step sv0 tr m h
  refine ⟨?_, h2⟩
  have := C34_register_history (m.log.map (·.2.1)) sv0
  rw [h1] at this
  have hz : ∀ l : List (Nat × Op × Res),
      ((l.map (·.2.1)).zip (l.map (·.2.2))).map (fun p => regEv p.1 p.2) = l.map (fun e => regEv e.2.1 e.2.2) := by
    intro l; induction l with
    | nil => rfl
    | cons e r ih => simp [ih]
  rw [hz] at this
  exact this

-- ---------------------------------------------------------------- the embedding application

/-- application steps taken as atomic steps next to the client requests: the generic theorem applies,
    the linearization order is the order of the steps -/
theorem C34_app_atomic (sv0 : Server) (tr : List (Ev XOp Res)) (m : M Server XOp Res)
    (h : mrun stepX (M.init sv0) tr = some m) :
    seqRun stepX sv0 (m.log.map (·.2.1)) = (m.log.map (·.2.2), m.st) ∧
    (∀ id r, Ev.resp id r ∈ tr → ∃ op, (id, op, r) ∈ m.log) ∧
    (∀ t1 t2 b opb, tr = t1 ++ Ev.inv b opb :: t2 → ∀ a r, Ev.resp a r ∈ t1 →
      ∃ l1 l2, m.log = l1 ++ l2 ∧ a ∈ logIds l1 ∧ b ∉ logIds l1) :=
  C34_linearizable stepX sv0 tr m h

/-- what the application steps are as register operations: `SetAttribute(Value, d)` sets exactly
    the register of that node (no access check), a read returns the register and changes
    nothing, a write of another attribute changes no register -/
theorem C34_app_step_refines (sv : Server) (i k : Nat) (d : DV) (a : Nat) :
    (abs (stepX sv (.appSetValue i k d)).2 =
      fun key => if key = (i, k) then (abs sv key).map (fun _ => d) else abs sv key) ∧
    ((stepX sv (.appGetValue i k)).2 = sv ∧
      ∀ x, (stepX sv (.appGetValue i k)).1 = .value x → abs sv (i, k) = some x) ∧
    (abs (stepX sv (.appSetAttr i k a d)).2 = abs sv) := by
  refine ⟨?_, ⟨rfl, ?_⟩, ?_⟩
  · funext key
    obtain ⟨i', k'⟩ := key
    simp only [stepX, abs, node_updNode]
    by_cases h : i' = i ∧ k' = k
    · obtain ⟨rfl, rfl⟩ := h
      cases sv.node i' k' <;> simp
    · have : ¬ ((i', k') = (i, k)) := by simpa using h
      simp [h, this]
  · intro x hx
    simp only [stepX, abs] at hx ⊢
    cases hn : sv.node i k with
    | none => simp [hn] at hx
    | some n =>
      simp only [hn] at hx
      cases hv : n.val <;> simp_all
  · funext key
    obtain ⟨i', k'⟩ := key
    simp only [stepX, abs, node_updNode]
    by_cases h : i' = i ∧ k' = k
    · obtain ⟨rfl, rfl⟩ := h
      cases sv.node i' k' <;> simp
    · simp [h]

/-- MAIN for the application: whatever application steps that touch only value words fall
    between the access check of a client handler and its value access, the handler's outcome
    and effect are those of the atomic handler executed at the moment of the value access -/
theorem C34_value_steps_commute (sv : Server) (op : Op) (xs : List XOp)
    (h : ∀ x ∈ xs, x.valueOnly = true) :
    act (runX sv xs) op (chk sv op) = step (runX sv xs) op := by
  rw [← chk_runX_valueOnly xs sv h op, act_chk]

/-- … and that is exactly where it ends.  Node without restriction holding 0; a client write of 7
    passes the check; the application then makes the node read-only and reads 0; the handler
    stores 7 and answers Good.  The three completed operations have NO linearization w.r.t. the
    access-checked register (the write must precede the level change, the read follows the
    level change, yet it saw the old value); with a value-only step in the same place they do -/
theorem C34_app_access_write_not_linearizable :
    let n : Node := { attrs := [], val := .v tyInt32 0 }
    let sv : Server := fun i => if i = 1 then some (fun k => if k = 0 then some n else none) else none
    let w : Op := .write 1 0 aValue (.v tyInt32 7)
    let a : XOp := .appSetAttr 1 0 aAccessLevel (.v tyByte 1)
    let r : XOp := .appGetValue 1 0
    -- the split execution: check, application steps, value access
    (stepX (stepX sv a).2 r).1 = .value (.v tyInt32 0) ∧
    (act (runX sv [a, r]) w (chk sv w)).1 = .status .ok ∧
    ((act (runX sv [a, r]) w (chk sv w)).2.node 1 0).map (·.val) = some (.v tyInt32 7) ∧
    -- the atomic handler at that moment would have refused
    (step (runX sv [a, r]) w).1 = .status .badUserAccessDenied ∧
    -- no linearization of the observed history
    linB sv [⟨.client w, .status .ok, 0, 7⟩, ⟨a, .status .ok, 2, 3⟩, ⟨r, .value (.v tyInt32 0), 4, 5⟩] = false ∧
    -- the same shape with a value-only application step is linearizable
    linB sv [⟨.client w, .status .ok, 0, 7⟩, ⟨.appSetValue 1 0 (.v tyInt32 3), .status .ok, 2, 3⟩,
             ⟨r, .value (.v tyInt32 3), 4, 5⟩] = true := by
  decide

/-- non-vacuity: two clients, overlapping write and read; both orders of the dispatcher are traces -/
example :
    let n : Node := { attrs := [], val := .v 6 0 }
    let sv : Server := fun i => if i = 1 then some (fun k => if k = 0 then some n else none) else none
    (mrun step (M.init sv) [.inv 1 (.write 1 0 aValue (.v 6 7)), .inv 2 (.read 1 0 aValue), .disp 2, .disp 1,
        .resp 2 (.value (.v 6 0)), .resp 1 (.status .ok)]).isSome = true ∧
    (mrun step (M.init sv) [.inv 1 (.write 1 0 aValue (.v 6 7)), .inv 2 (.read 1 0 aValue), .disp 1, .disp 2,
        .resp 2 (.value (.v 6 7)), .resp 1 (.status .ok)]).isSome = true ∧
    -- a response with a value nobody wrote is not a trace
    (mrun step (M.init sv) [.inv 2 (.read 1 0 aValue), .disp 2, .resp 2 (.value (.v 6 9))]).isSome = false := by
  decide

end Opcua.Props.C34
