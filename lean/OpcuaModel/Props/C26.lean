import OpcuaModel.Model.Subs
import OpcuaModel.Model.SubsLemmas
import OpcuaModel.Gen.SubsFacts
import OpcuaModel.Model.Republish
import OpcuaModel.Model.RepublishLemmas
/-
  C26 — subscriptions survive reconnects and notifications are acknowledged once.

  (a) acknowledgements: theorems over every publish history (list of
      `PubEvent`s: responses with arbitrary result lists, errors) of the model of
      `handleAcks` / `handleNotification` / `publish`.
  (b) reconnect: the action loop of `Client.monitor` restricted to the
      subscription state.  The full statement "after a successful reconnect all
      subscriptions are there with their items and the publish loop runs" holds for
      every reconnect that keeps the session (repaired) and, under explicit guards, for
      the transfer / recreate paths; it is still false when a recreate fails (the
      counterexamples are theorems).
  The generated facts (`Gen.Subs`) tie the tables of the model to client.go /
  client_sub.go.
-/
namespace Opcua.Props.C26
open Opcua Opcua.Subs

/-! ### tie to the source: generated tables -/

/-- the model's action constants are the `reconnectAction` constants in iota order -/
theorem C26_gen_actions : Action.all.map Action.goName = Gen.Subs.actionNames ∧
    ∀ a ∈ Action.all, Action.all[a.code]? = some a := by decide

/-- every case of `switch action` assigns exactly the targets the model's `step` uses -/
theorem C26_gen_targets :
    Gen.Subs.actionTargets.length = 6 ∧
    ∀ a ∈ Action.all, a ≠ .none →
      Gen.Subs.actionTargets.lookup a.goName = some ((targets a).map Action.goName) := by decide

/-- the error classification of `monitor` is `initialAction` -/
theorem C26_gen_initial :
    Gen.Subs.initialActions = ErrKind.all.map fun k => (k.goName, (initialAction k).goName) := by decide

/-- `handleAcks` drops an acknowledgement exactly for the three final status codes,
    re-queues it otherwise, and resets on a length mismatch; the loop is resumed when
    `activeSubs > 0` or subscriptions are still registered -/
theorem C26_gen_acks :
    Gen.Subs.ackFinal = [AckRes.ok.goName, AckRes.subInvalid.goName, AckRes.seqUnknown.goName] ∧
    Gen.Subs.ackRetryDefault = true ∧
    Gen.Subs.ackResetCond = "len(c.pendingAcks) != len(res)" ∧
    Gen.Subs.resumeConds = ["activeSubs > 0", "len(c.SubscriptionIDs()) > 0"] := by decide

/-- `step` only ever moves to one of the listed targets -/
theorem C26_step_targets (m m' : Mon) (o : Out) (h : step m o = some m') :
    m'.action ∈ targets m.action := step_mem_targets h

/-! ### (a) acknowledgements -/

/-- a data notification of a registered subscription is acknowledged in the very
    next PublishRequest -/
theorem C26_acks_next (c : Client) (e : PubEvent) (a : Ack) (h : received c e = some a) :
    a ∈ requestAcks (onEvent c e) := received_mem_next h

/-- an acknowledgement stays in every following request as long as publish calls
    fail (timeouts, errors): nothing is lost before the server answered -/
theorem C26_acks_kept_on_error (c : Client) (a : Ack) (n : Nat) (h : a ∈ requestAcks c) :
    ∀ r ∈ requests c (List.replicate n .err), a ∈ r := kept_on_errors h

/-- `handleAcks` never invents or reorders acknowledgements -/
theorem C26_acks_sublist (p : List Ack) (r : List AckRes) : (handleAcks p r).Sublist p :=
  handleAcks_sublist p r

/-- with a matching result count an acknowledgement is retried iff some position
    that carries it was answered with a non-final status -/
theorem C26_acks_retry_iff (p : List Ack) (r : List AckRes) (hl : p.length = r.length) (a : Ack) :
    a ∈ handleAcks p r ↔ ∃ i, ∃ (h₁ : i < p.length) (h₂ : i < r.length), p[i] = a ∧ r[i].retry = true :=
  mem_handleAcks_iff hl a

/-- once the server has answered the acknowledgements of a request (Good,
    BadSequenceNumberUnknown or BadSubscriptionIDInvalid for each), none of them is
    ever sent again — unless the same notification is received again -/
theorem C26_acks_never_again (c : Client) (e : PubEvent) (es : List PubEvent) (a : Ack)
    (hw : wellAnswered c e = true) (hin : a ∈ requestAcks c)
    (hnew : received c e ≠ some a)
    (hlater : ∀ c' e', (c', e') ∈ statesOf (onEvent c e) es → received c' e' ≠ some a) :
    ∀ r ∈ requests (onEvent c e) es, a ∉ r :=
  never_again hw hin hnew hlater

/-- exactly once: against a server that answers every acknowledgement, the
    request that follows an event acknowledges exactly the notification of that
    event (if any) and nothing else -/
theorem C26_acks_exactly_once (c : Client) (e : PubEvent) (hw : wellAnswered c e = true) :
    requestAcks (onEvent c e) = (received c e).toList := exactly_once hw

/-! ### (b) reconnect -/

/-- (formerly the finding C26.restore-session-no-resume, repaired.)  The TCP connection is
    cut, the session is still valid on the server: createSecureChannel → restoreSession →
    restoreSubscriptions runs with empty work lists, `activeSubs` stays 0, and the publish loop
    is resumed because the subscription is still registered. -/
theorem C26_restore_session_resumes :
    (run (onError [⟨1, 1⟩] .eof) [.dialed, .restoreRes false true true, .restoreSubsRes [] []]).map finish
      = some { action := .none, subs := [⟨1, 1⟩], toRepublish := [], toRecreate := [],
               activeSubs := 0, connected := true, loop := .running } := by decide

/-- every reconnect that keeps the session (`restoreSubscriptions` entered with empty work
    lists) ends Connected with the registry untouched — every subscription keeps all its
    items — and the publish loop running if anything is registered (with an empty registry
    the loop stays as it was: paused) -/
theorem C26_restore_path_resumes (m m' : Mon) (rep : List Bool) (rec : List Recreate)
    (ha : m.action = .restoreSubscriptions) (h1 : m.toRepublish = []) (h2 : m.toRecreate = [])
    (hs : step m (.restoreSubsRes rep rec) = some m') :
    m'.connected = true ∧ m'.action = .none ∧ m'.subs = m.subs ∧ m'.activeSubs = 0 ∧
    (m.subs ≠ [] → (finish m').loop = .running) ∧ (m.subs = [] → (finish m').loop = m.loop) :=
  restore_empty ha h1 h2 hs

/-- whichever path the reconnect took: if it ends with a subscription registered, the
    publish loop is running -/
theorem C26_connected_with_subs_runs (m : Mon) (h : m.subs ≠ []) : (finish m).loop = .running :=
  finish_running h

/-- FINDING (C26.recreate-failure-ignored): server restart with two subscriptions.
    The ids are recreated in map order 2, 1; the new server hands out id 1 for the
    first one while the client still has its old subscription 1 registered:
    registerSubscription refuses, the error only `continue`s the loop, the client
    reports Connected and one subscription is gone. -/
theorem C26_finding_recreate_failure_ignored :
    (run (onError [⟨1, 1⟩, ⟨2, 3⟩] .eof)
      [.dialed, .restoreRes false false true, .recreateRes true true true,
       .transferRes [2, 1] .unsupported,
       .restoreSubsRes [] [.created 1 true, .created 2 true]]).map finish
      = some { action := .none, subs := [⟨2, 1⟩], toRepublish := [], toRecreate := [2, 1],
               activeSubs := 1, connected := true, loop := .running } := by decide

/-- a failing CreateSubscription during the recreate is swallowed the same way -/
theorem C26_finding_recreate_create_error_ignored :
    (run (onError [⟨1, 2⟩] .eof)
      [.dialed, .restoreRes false false true, .recreateRes true true true,
       .transferRes [1] .failed, .restoreSubsRes [] [.createFail]]).map finish
      = some { action := .none, subs := [], toRepublish := [], toRecreate := [1],
               activeSubs := 0, connected := true, loop := .paused } := by decide

/-- PARTIAL (recreate path): all registered ids are to be recreated, every
    CreateSubscription succeeds, the server never hands out an id that collides
    (`Fresh`: each new id is non-zero and differs from the ids still waiting to be
    recreated and from the new ids handed out before) and all items are recreated.
    Then every subscription is registered again (under the new ids) with all its
    items, and the publish loop is resumed. -/
theorem C26_restore_partial_recreate (m m' : Mon) (nids : List Nat)
    (ha : m.action = .restoreSubscriptions) (h1 : m.toRepublish = [])
    (hperm : m.toRecreate.Perm (m.subs.map (·.id))) (hnd : (m.subs.map (·.id)).Nodup)
    (hlen : nids.length = m.toRecreate.length)
    (hfresh : Fresh m.toRecreate nids [])
    (hne : m.subs ≠ [])
    (hs : step m (.restoreSubsRes [] (nids.map fun n => .created n true)) = some m') :
    m'.connected = true ∧ (finish m').loop = .running ∧ m'.activeSubs = m.subs.length ∧
    (m'.subs.map (·.items)).Perm (m.subs.map (·.items)) ∧ (m'.subs.map (·.id)).Perm nids :=
  restore_recreate_ok ha h1 hperm hnd hlen hfresh hne hs

/-- the guard is the exact boundary: the collision of the finding violates `Fresh` -/
theorem C26_finding_collision_not_fresh : ¬ Fresh [2, 1] [1, 2] [] := by
  simp [Fresh]

/-- PARTIAL (transfer + republish path): every subscription was transferred and
    republished.  The registry is untouched and the loop is resumed. -/
theorem C26_restore_partial_republish (m m' : Mon)
    (ha : m.action = .restoreSubscriptions) (h2 : m.toRecreate = [])
    (hne : m.toRepublish ≠ [])
    (hs : step m (.restoreSubsRes (m.toRepublish.map fun _ => true) []) = some m') :
    m'.connected = true ∧ (finish m').loop = .running ∧ m'.subs = m.subs ∧
    m'.activeSubs = m.toRepublish.length :=
  restore_republish_ok ha h2 hne hs

/-- the work lists set up by `transferSubscriptions` cover every registered id once -/
theorem C26_transfer_covers (m m' : Mon) (ids : List Nat) (r : Transfer)
    (hr : ∀ bad, r = .results bad → bad.length = ids.length)
    (hs : step m (.transferRes ids r) = some m') :
    (m'.toRepublish ++ m'.toRecreate).Perm ids ∧ ids.length = m.subs.length ∧
    (∀ s ∈ m.subs, s.id ∈ ids) :=
  transfer_covers hr hs

/-! ### (c) transfer + republish

  `Rep.loop` mirrors `sendRepublishRequests`; `Rep.honest q` is a server that answers from
  its retransmission queue `q` (the sequence numbers it sent and that were not
  acknowledged); `avail` is the AvailableSequenceNumbers list of the transfer result. -/

/-- Nothing is skipped: if the queue holds a gap-free run from the client's `nextSeq` on
    (everything sent after the last message the client received is still there), the loop
    ends normally and hands every held notification from `nextSeq` on to the application. -/
theorem C26_republish_nothing_skipped (q avail : List Nat) (ha : avail = [] ∨ ∀ x, x ∈ avail ↔ x ∈ q)
    (n fuel : Nat) (hf : (q.filter (fun x => decide (n ≤ x))).length < fuel) (hc : Rep.contiguousFrom q n) :
    (Rep.republish avail (Rep.honest q) fuel n).outcome = .done ∧
    ∀ s ∈ q, n ≤ s → s ∈ (Rep.republish avail (Rep.honest q) fuel n).delivered := by
  have hd := Rep.loop_terminates q avail fuel n [] [] hf
  obtain ⟨h1, _, h3, _, h5⟩ := Rep.loop_honest q avail ha fuel n [] []
  refine ⟨hd, ?_⟩
  intro s hs hns
  refine (h1 s).mpr (Or.inr ⟨hns, ?_⟩)
  by_cases hlt : s < (Rep.loop avail (Rep.honest q) fuel n [] []).nextSeq
  · exact hlt
  · exact absurd (hc s hs hns _ h3 (by omega)) (h5 hd)

/-- Nothing twice, nothing old: the delivered sequence numbers are strictly increasing,
    all are in the server's queue and none is below `nextSeq` (what the client had received
    before the connection loss is not delivered again). -/
theorem C26_republish_no_duplicates (q avail : List Nat) (ha : avail = [] ∨ ∀ x, x ∈ avail ↔ x ∈ q)
    (n fuel : Nat) :
    (Rep.republish avail (Rep.honest q) fuel n).delivered.Pairwise (· < ·) ∧
    ∀ s ∈ (Rep.republish avail (Rep.honest q) fuel n).delivered, n ≤ s ∧ s ∈ q := by
  refine ⟨Rep.loop_sorted q avail fuel n [] [] List.Pairwise.nil (by simp), ?_⟩
  obtain ⟨h1, h2, _, _, _⟩ := Rep.loop_honest q avail ha fuel n [] []
  intro s hs
  rcases (h1 s).mp hs with h | ⟨h, h'⟩
  · simp at h
  · exact ⟨h, h2 s h h'⟩

/-- after the loop the subscription expects the first sequence number the server does not hold -/
theorem C26_republish_next (q avail : List Nat) (ha : avail = [] ∨ ∀ x, x ∈ avail ↔ x ∈ q)
    (n fuel : Nat) (hf : (q.filter (fun x => decide (n ≤ x))).length < fuel) :
    (Rep.republish avail (Rep.honest q) fuel n).nextSeq ∉ q ∧
    n ≤ (Rep.republish avail (Rep.honest q) fuel n).nextSeq := by
  obtain ⟨_, _, h3, _, h5⟩ := Rep.loop_honest q avail ha fuel n [] []
  exact ⟨h5 (Rep.loop_terminates q avail fuel n [] [] hf), h3⟩

/-- FINDING (C26.republish-gives-up-at-gap).  The guard `contiguousFrom` is needed: when the
    message the client expects next (2) has left the server's queue but later ones (3) are
    still held, the first RepublishRequest is answered BadMessageNotAvailable and the loop
    returns: the held notification is never delivered. -/
theorem C26_finding_republish_gap :
    Rep.republish [3] (Rep.honest [3]) 10 2 = ⟨[], [2], 2, .done⟩ ∧ ¬ Rep.contiguousFrom [3] 2 := by
  refine ⟨by decide, ?_⟩
  intro h
  have := h 3 (by simp) (by omega) 2 (by omega) (by omega)
  simp at this

/-- (formerly the finding C26.republished-never-acknowledged, repaired.)  Every notification
    received through Republish is queued for acknowledgement: the next PublishRequest carries
    what was pending before plus exactly one acknowledgement per republished message, in the
    order of delivery. -/
theorem C26_republished_acked (c : Client) (id : Nat) (s : SubSeq) (r : Rep.Result)
    (hs : findSub c.subs id = some s) :
    requestAcks (Rep.intoClient c id r) = requestAcks c ++ r.delivered.map (fun q => ⟨id, q⟩) := by
  unfold Rep.intoClient
  rw [hs]
  simp only [requestAcks]
  split
  · rename_i h; simp [h]
  · rfl

/-- Exactly once, republished notifications included: against a server that answers from its
    queue, the acknowledgements queued by the republish loop are pairwise different (one per
    message), and once the server has answered the request that carries them — Good /
    unknown for each — the following request acknowledges only what that response delivered:
    each republished notification is acknowledged in exactly one PublishRequest. -/
theorem C26_republished_acks_exactly_once (c : Client) (id : Nat) (s : SubSeq) (q avail : List Nat)
    (n fuel : Nat) (hs : findSub c.subs id = some s) (hp : c.pending = []) (e : PubEvent)
    (hw : wellAnswered (Rep.intoClient c id (Rep.republish avail (Rep.honest q) fuel n)) e = true) :
    let c' := Rep.intoClient c id (Rep.republish avail (Rep.honest q) fuel n)
    requestAcks c' = (Rep.republish avail (Rep.honest q) fuel n).delivered.map (fun x => ⟨id, x⟩) ∧
    (requestAcks c').Nodup ∧
    requestAcks (onEvent c' e) = (received c' e).toList := by
  have h1 := C26_republished_acked c id s (Rep.republish avail (Rep.honest q) fuel n) hs
  simp only [requestAcks, hp, List.nil_append] at h1
  refine ⟨h1, ?_, exactly_once hw⟩
  simp only [requestAcks] at h1 ⊢
  rw [h1]
  have hsorted := Rep.loop_sorted q avail fuel n [] [] List.Pairwise.nil (by simp)
  exact List.Pairwise.map (fun x => (⟨id, x⟩ : Ack))
    (fun a b (h : a < b) (he : (⟨id, a⟩ : Ack) = ⟨id, b⟩) => by
      have : a = b := by simpa using he
      omega) hsorted

/-- the former counterexample: after republishing 1/2 and 1/3 the next request acknowledges both -/
example :
    requestAcks (Rep.intoClient ⟨[], [⟨1, 1, 2⟩]⟩ 1 (Rep.republish [2, 3] (Rep.honest [2, 3]) 10 2))
      = [⟨1, 2⟩, ⟨1, 3⟩] := by decide

/-- which loop outcomes make `monitor` fall back to recreating the subscription:
    BadSessionIDInvalid is swallowed by `republishSubscription`, every other error recreates -/
theorem C26_republish_fallback :
    Rep.republishOk .done = true ∧ Rep.republishOk .failSession = true ∧
    Rep.republishOk .failSub = false ∧ Rep.republishOk .failOther = false := by decide

/-- non-vacuity: two lost messages are republished with two requests (the transfer result
    says 4 is not available, so no third request is sent) -/
example : Rep.republish [2, 3] (Rep.honest [2, 3]) 10 2 = ⟨[2, 3], [2, 3], 4, .done⟩ := by decide

/-- non-vacuity: the good recreate path (server restart, one subscription) -/
example :
    (run (onError [⟨1, 2⟩] .eof)
      [.dialed, .restoreRes false false true, .recreateRes true true true,
       .transferRes [1] .unsupported, .restoreSubsRes [] [.created 1 true]]).map finish
      = some { action := .none, subs := [⟨1, 2⟩], toRepublish := [], toRecreate := [1],
               activeSubs := 1, connected := true, loop := .running } := by decide

/-- non-vacuity: acknowledgement rounds -/
example :
    requests ⟨[], [⟨1, 0, 1⟩]⟩
      [.resp ⟨[], 1, 1, 1⟩, .err, .resp ⟨[.other], 1, 2, 1⟩, .resp ⟨[.ok, .seqUnknown], 1, 2, 0⟩, .resp ⟨[], 1, 3, 1⟩]
      = [[], [⟨1, 1⟩], [⟨1, 1⟩], [⟨1, 1⟩, ⟨1, 2⟩], []] := by decide

end Opcua.Props.C26
