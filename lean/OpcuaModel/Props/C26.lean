import OpcuaModel.Model.Subs
import OpcuaModel.Model.SubsLemmas
import OpcuaModel.Gen.SubsFacts
/-
  C26 — subscriptions survive reconnects and notifications are acknowledged once.

  (a) acknowledgements: theorems over every publish history (list of
      `PubEvent`s: responses with arbitrary result lists, errors) of the model of
      `handleAcks` / `handleNotification` / `publish`.
  (b) reconnect: the action loop of `Client.monitor` restricted to the
      subscription state.  The full statement "after a successful reconnect all
      subscriptions are there with their items and the publish loop runs" holds for
      every reconnect that keeps the session (repaired) and, under explicit guards, for
      the transfer / recreate paths; it is still false when a recreate fails (the
      counterexamples are theorems).
  The generated facts (`Gen.Subs`) tie the tables of the model to client.go /
  client_sub.go.
-/
namespace Opcua.Props.C26
open Opcua Opcua.Subs

/-! ### tie to the source: generated tables -/

/-- the model's action constants are the `reconnectAction` constants in iota order -/
theorem C26_gen_actions : Action.all.map Action.goName = Gen.Subs.actionNames ∧
    ∀ a ∈ Action.all, Action.all[a.code]? = some a := by decide

/-- every case of `switch action` assigns exactly the targets the model's `step` uses -/
theorem C26_gen_targets :
    Gen.Subs.actionTargets.length = 6 ∧
    ∀ a ∈ Action.all, a ≠ .none →
      Gen.Subs.actionTargets.lookup a.goName = some ((targets a).map Action.goName) := by decide

/-- the error classification of `monitor` is `initialAction` -/
theorem C26_gen_initial :
    Gen.Subs.initialActions = ErrKind.all.map fun k => (k.goName, (initialAction k).goName) := by decide

/-- `handleAcks` drops an acknowledgement exactly for the three final status codes,
    re-queues it otherwise, and resets on a length mismatch; the loop is resumed when
    `activeSubs > 0` or subscriptions are still registered -/
theorem C26_gen_acks :
    Gen.Subs.ackFinal = [AckRes.ok.goName, AckRes.subInvalid.goName, AckRes.seqUnknown.goName] ∧
    Gen.Subs.ackRetryDefault = true ∧
    Gen.Subs.ackResetCond = "len(c.pendingAcks) != len(res)" ∧
    Gen.Subs.resumeConds = ["activeSubs > 0", "len(c.SubscriptionIDs()) > 0"] := by decide

/-- `step` only ever moves to one of the listed targets -/
theorem C26_step_targets (m m' : Mon) (o : Out) (h : step m o = some m') :
    m'.action ∈ targets m.action := step_mem_targets h

/-! ### (a) acknowledgements -/

/-- a data notification of a registered subscription is acknowledged in the very
    next PublishRequest -/
theorem C26_acks_next (c : Client) (e : PubEvent) (a : Ack) (h : received c e = some a) :
    a ∈ requestAcks (onEvent c e) := received_mem_next h

/-- an acknowledgement stays in every following request as long as publish calls
    fail (timeouts, errors): nothing is lost before the server answered -/
theorem C26_acks_kept_on_error (c : Client) (a : Ack) (n : Nat) (h : a ∈ requestAcks c) :
    ∀ r ∈ requests c (List.replicate n .err), a ∈ r := kept_on_errors h

/-- `handleAcks` never invents or reorders acknowledgements -/
theorem C26_acks_sublist (p : List Ack) (r : List AckRes) : (handleAcks p r).Sublist p :=
  handleAcks_sublist p r

/-- with a matching result count an acknowledgement is retried iff some position
    that carries it was answered with a non-final status -/
theorem C26_acks_retry_iff (p : List Ack) (r : List AckRes) (hl : p.length = r.length) (a : Ack) :
    a ∈ handleAcks p r ↔ ∃ i, ∃ (h₁ : i < p.length) (h₂ : i < r.length), p[i] = a ∧ r[i].retry = true :=
  mem_handleAcks_iff hl a

/-- once the server has answered the acknowledgements of a request (Good,
    BadSequenceNumberUnknown or BadSubscriptionIDInvalid for each), none of them is
    ever sent again — unless the same notification is received again -/
theorem C26_acks_never_again (c : Client) (e : PubEvent) (es : List PubEvent) (a : Ack)
    (hw : wellAnswered c e = true) (hin : a ∈ requestAcks c)
    (hnew : received c e ≠ some a)
    (hlater : ∀ c' e', (c', e') ∈ statesOf (onEvent c e) es → received c' e' ≠ some a) :
    ∀ r ∈ requests (onEvent c e) es, a ∉ r :=
  never_again hw hin hnew hlater

/-- exactly once: against a server that answers every acknowledgement, the
    request that follows an event acknowledges exactly the notification of that
    event (if any) and nothing else -/
theorem C26_acks_exactly_once (c : Client) (e : PubEvent) (hw : wellAnswered c e = true) :
    requestAcks (onEvent c e) = (received c e).toList := exactly_once hw

/-! ### (b) reconnect -/

/-- (formerly the finding C26.restore-session-no-resume, repaired.)  The TCP connection is
    cut, the session is still valid on the server: createSecureChannel → restoreSession →
    restoreSubscriptions runs with empty work lists, `activeSubs` stays 0, and the publish loop
    is resumed because the subscription is still registered. -/
theorem C26_restore_session_resumes :
    (run (onError [⟨1, 1⟩] .eof) [.dialed, .restoreRes false true true, .restoreSubsRes [] []]).map finish
      = some { action := .none, subs := [⟨1, 1⟩], toRepublish := [], toRecreate := [],
               activeSubs := 0, connected := true, loop := .running } := by decide

/-- every reconnect that keeps the session (`restoreSubscriptions` entered with empty work
    lists) ends Connected with the registry untouched — every subscription keeps all its
    items — and the publish loop running if anything is registered (with an empty registry
    the loop stays as it was: paused) -/
theorem C26_restore_path_resumes (m m' : Mon) (rep : List Bool) (rec : List Recreate)
    (ha : m.action = .restoreSubscriptions) (h1 : m.toRepublish = []) (h2 : m.toRecreate = [])
    (hs : step m (.restoreSubsRes rep rec) = some m') :
    m'.connected = true ∧ m'.action = .none ∧ m'.subs = m.subs ∧ m'.activeSubs = 0 ∧
    (m.subs ≠ [] → (finish m').loop = .running) ∧ (m.subs = [] → (finish m').loop = m.loop) :=
  restore_empty ha h1 h2 hs

/-- whichever path the reconnect took: if it ends with a subscription registered, the
    publish loop is running -/
theorem C26_connected_with_subs_runs (m : Mon) (h : m.subs ≠ []) : (finish m).loop = .running :=
  finish_running h

/-- FINDING (C26.recreate-failure-ignored): server restart with two subscriptions.
    The ids are recreated in map order 2, 1; the new server hands out id 1 for the
    first one while the client still has its old subscription 1 registered:
    registerSubscription refuses, the error only `continue`s the loop, the client
    reports Connected and one subscription is gone. -/
theorem C26_finding_recreate_failure_ignored :
    (run (onError [⟨1, 1⟩, ⟨2, 3⟩] .eof)
      [.dialed, .restoreRes false false true, .recreateRes true true true,
       .transferRes [2, 1] .unsupported,
       .restoreSubsRes [] [.created 1 true, .created 2 true]]).map finish
      = some { action := .none, subs := [⟨2, 1⟩], toRepublish := [], toRecreate := [2, 1],
               activeSubs := 1, connected := true, loop := .running } := by decide

/-- a failing CreateSubscription during the recreate is swallowed the same way -/
theorem C26_finding_recreate_create_error_ignored :
    (run (onError [⟨1, 2⟩] .eof)
      [.dialed, .restoreRes false false true, .recreateRes true true true,
       .transferRes [1] .failed, .restoreSubsRes [] [.createFail]]).map finish
      = some { action := .none, subs := [], toRepublish := [], toRecreate := [1],
               activeSubs := 0, connected := true, loop := .paused } := by decide

/-- PARTIAL (recreate path): all registered ids are to be recreated, every
    CreateSubscription succeeds, the server never hands out an id that collides
    (`Fresh`: each new id is non-zero and differs from the ids still waiting to be
    recreated and from the new ids handed out before) and all items are recreated.
    Then every subscription is registered again (under the new ids) with all its
    items, and the publish loop is resumed. -/
theorem C26_restore_partial_recreate (m m' : Mon) (nids : List Nat)
    (ha : m.action = .restoreSubscriptions) (h1 : m.toRepublish = [])
    (hperm : m.toRecreate.Perm (m.subs.map (·.id))) (hnd : (m.subs.map (·.id)).Nodup)
    (hlen : nids.length = m.toRecreate.length)
    (hfresh : Fresh m.toRecreate nids [])
    (hne : m.subs ≠ [])
    (hs : step m (.restoreSubsRes [] (nids.map fun n => .created n true)) = some m') :
    m'.connected = true ∧ (finish m').loop = .running ∧ m'.activeSubs = m.subs.length ∧
    (m'.subs.map (·.items)).Perm (m.subs.map (·.items)) ∧ (m'.subs.map (·.id)).Perm nids :=
  restore_recreate_ok ha h1 hperm hnd hlen hfresh hne hs

/-- the guard is the exact boundary: the collision of the finding violates `Fresh` -/
theorem C26_finding_collision_not_fresh : ¬ Fresh [2, 1] [1, 2] [] := by
  simp [Fresh]

/-- PARTIAL (transfer + republish path): every subscription was transferred and
    republished.  The registry is untouched and the loop is resumed. -/
theorem C26_restore_partial_republish (m m' : Mon)
    (ha : m.action = .restoreSubscriptions) (h2 : m.toRecreate = [])
    (hne : m.toRepublish ≠ [])
    (hs : step m (.restoreSubsRes (m.toRepublish.map fun _ => true) []) = some m') :
    m'.connected = true ∧ (finish m').loop = .running ∧ m'.subs = m.subs ∧
    m'.activeSubs = m.toRepublish.length :=
  restore_republish_ok ha h2 hne hs

/-- the work lists set up by `transferSubscriptions` cover every registered id once -/
theorem C26_transfer_covers (m m' : Mon) (ids : List Nat) (r : Transfer)
    (hr : ∀ bad, r = .results bad → bad.length = ids.length)
    (hs : step m (.transferRes ids r) = some m') :
    (m'.toRepublish ++ m'.toRecreate).Perm ids ∧ ids.length = m.subs.length ∧
    (∀ s ∈ m.subs, s.id ∈ ids) :=
  transfer_covers hr hs

/-- non-vacuity: the good recreate path (server restart, one subscription) -/
example :
    (run (onError [⟨1, 2⟩] .eof)
      [.dialed, .restoreRes false false true, .recreateRes true true true,
       .transferRes [1] .unsupported, .restoreSubsRes [] [.created 1 true]]).map finish
      = some { action := .none, subs := [⟨1, 2⟩], toRepublish := [], toRecreate := [1],
               activeSubs := 1, connected := true, loop := .running } := by decide

/-- non-vacuity: acknowledgement rounds -/
example :
    requests ⟨[], [⟨1, 0, 1⟩]⟩
      [.resp ⟨[], 1, 1, 1⟩, .err, .resp ⟨[.other], 1, 2, 1⟩, .resp ⟨[.ok, .seqUnknown], 1, 2, 0⟩, .resp ⟨[], 1, 3, 1⟩]
      = [[], [⟨1, 1⟩], [⟨1, 1⟩], [⟨1, 1⟩, ⟨1, 2⟩], []] := by decide

end Opcua.Props.C26
