import OpcuaModel.Model.CryptoKeys
import OpcuaModel.Gen.KeyAssign
/-
  C14 — symmetric keys follow the specification's P_SHA derivation and are
  direction separated.

  Implementation side: `Keys.generateKeys` (the loop of uapolicy/crypto_key.go)
  and `Keys.symmetric` driven by the rows of `Gen.keyAssignRows`, which the
  generator topic `keyassign` extracts from uapolicy/policy*.go on every run
  (hash, secret/seed of both `generateKeys` calls, lengths, which key set feeds
  encrypt / decrypt / signature / verifySignature).
  Specification side: `Keys.Spec` (P_hash by the A(i) recursion, the key table of
  Part 6 §6.7.5, the profile parameters of Part 7), written independently.

  All theorems are for ALL nonces (any length, any content) and any keyed hash
  `hmac` whose output length is the hash length.
-/
namespace Opcua.Props.C14
open Opcua Opcua.Keys Opcua.CryptoRef

/-- the only thing assumed about the keyed hash: its output length -/
def HmacLen (hmac : HashAlg → Bytes → Bytes → Bytes) : Prop :=
  ∀ alg key m, (hmac alg key m).length = alg.outLen

/-- a generated constructor row implements a specification profile: same name,
    both `generateKeys` calls use the profile's hash and lengths, AES key length
    = encrypting key length, HMAC of the profile's hash, signature length -/
def Implements (ka : KeyAssign) (p : Spec.Profile) : Bool :=
  ka.name == p.name &&
  ka.first.hash == p.hash && ka.second.hash == p.hash &&
  ka.first.sigLen == p.sigKeyLen && ka.second.sigLen == p.sigKeyLen &&
  ka.first.encLen == p.encKeyLen && ka.second.encLen == p.encKeyLen &&
  ka.first.ivLen == p.blockLen && ka.second.ivLen == p.blockLen &&
  ka.encryptKeyBits == 8 * p.encKeyLen && ka.decryptKeyBits == 8 * p.encKeyLen &&
  ka.signatureHash == p.hash && ka.verifyHash == p.hash && ka.signatureLength == p.sigLen

/-- `generateKeys` is the specification's P_SHA: for ALL secrets (inside `h`),
    seeds and lengths the three keys are the slices at offsets 0, a, a+b of
    P_hash(secret, seed) truncated to a+b+c bytes -/
theorem C14_psha (h : Bytes → Bytes) (seed : Bytes) (hl : Nat) (hpos : 0 < hl)
    (hh : ∀ m, (h m).length = hl) (a b c : Nat) :
    generateKeys h seed a b c =
      { signing := (Spec.pSha h seed (a + b + c)).take a,
        encryption := ((Spec.pSha h seed (a + b + c)).drop a).take b,
        iv := ((Spec.pSha h seed (a + b + c)).drop (a + b)).take c } :=
  generateKeys_eq_spec h seed hl hpos hh a b c

/-- P_hash truncated to `n` bytes has exactly `n` bytes, and the three derived
    keys have exactly the requested lengths — for all inputs (only the hash
    length is used) -/
theorem C14_key_lengths (h : Bytes → Bytes) (seed : Bytes) (hl : Nat) (hpos : 0 < hl)
    (hh : ∀ m, (h m).length = hl) (a b c : Nat) :
    (Spec.pSha h seed (a + b + c)).length = a + b + c ∧
    (generateKeys h seed a b c).signing.length = a ∧ (generateKeys h seed a b c).encryption.length = b ∧
    (generateKeys h seed a b c).iv.length = c :=
  ⟨pSha_length h seed hl hpos hh _, generateKeys_lengths h seed hl hpos hh a b c⟩

/-- P_hash is ONE stream: asking for more bytes only extends what a shorter
    request returns (so the key lengths of a profile decide where the keys are
    cut, never what the bytes before the cut are) — for all lengths -/
theorem C14_psha_prefix (h : Bytes → Bytes) (seed : Bytes) (hl : Nat) (hpos : 0 < hl)
    (hh : ∀ m, (h m).length = hl) (n m : Nat) (hnm : n ≤ m) :
    (Spec.pSha h seed m).take n = Spec.pSha h seed n := by
  obtain ⟨d, rfl⟩ := Nat.exists_eq_add_of_le hnm
  have hlen : n ≤ (Spec.stream h seed n 1).length := by
    rw [stream_length h seed hl hh]
    exact Nat.le_mul_of_pos_right n hpos
  simp only [Spec.pSha, stream_append, List.take_take, Nat.min_eq_left (Nat.le_add_right n d)]
  rw [List.take_append_of_le_length hlen]

/-- the generated table and the specification's profile table describe the same
    five policies with the same hashes and key lengths -/
theorem C14_profiles :
    Gen.keyAssignRows.length = Spec.profiles.length ∧
    (List.zipWith Implements Gen.keyAssignRows Spec.profiles).all id = true := by decide

theorem rows_cases {ka : KeyAssign} {p : Spec.Profile} (h : (ka, p) ∈ Gen.keyAssignRows.zip Spec.profiles) :
    (ka = Gen.kaAes128Sha256RsaOaep ∧ p.name = "Aes128_Sha256_RsaOaep") ∨
    (ka = Gen.kaAes256Sha256RsaPss ∧ p.name = "Aes256_Sha256_RsaPss") ∨
    (ka = Gen.kaBasic128Rsa15 ∧ p.name = "Basic128Rsa15") ∨
    (ka = Gen.kaBasic256 ∧ p.name = "Basic256") ∨
    (ka = Gen.kaBasic256Sha256 ∧ p.name = "Basic256Sha256") := by
  simp only [Gen.keyAssignRows, Spec.profiles, List.zip_cons_cons, List.zip_nil_right, List.mem_cons,
    List.not_mem_nil, or_false, Prod.mk.injEq] at h
  rcases h with ⟨rfl, rfl⟩ | ⟨rfl, rfl⟩ | ⟨rfl, rfl⟩ | ⟨rfl, rfl⟩ | ⟨rfl, rfl⟩ <;> simp

/-- KEY ASSIGNMENT.  For every policy row (paired with its profile), all nonces:
    a CLIENT (`localNonce` = ClientNonce, `remoteNonce` = ServerNonce) signs and
    encrypts with the specification's Client keys and verifies / decrypts with
    the Server keys; a SERVER (`localNonce` = ServerNonce) the other way round. -/
theorem C14_assignment (ka : KeyAssign) (p : Spec.Profile) (hk : (ka, p) ∈ Gen.keyAssignRows.zip Spec.profiles)
    (hmac : HashAlg → Bytes → Bytes → Bytes) (hlen : HmacLen hmac) (clientNonce serverNonce : Bytes) :
    (symmetric ka hmac clientNonce serverNonce).send = Spec.clientKeys p hmac clientNonce serverNonce ∧
    (symmetric ka hmac clientNonce serverNonce).recv = Spec.serverKeys p hmac clientNonce serverNonce ∧
    (symmetric ka hmac serverNonce clientNonce).send = Spec.serverKeys p hmac clientNonce serverNonce ∧
    (symmetric ka hmac serverNonce clientNonce).recv = Spec.clientKeys p hmac clientNonce serverNonce := by
  have g : ∀ (alg : HashAlg) (key seed : Bytes) (a b c : Nat),
      generateKeys (hmac alg key) seed a b c =
        { signing := (Spec.derive (hmac alg key) seed a b c).signing,
          encryption := (Spec.derive (hmac alg key) seed a b c).encrypting,
          iv := (Spec.derive (hmac alg key) seed a b c).iv } := by
    intro alg key seed a b c
    exact generateKeys_eq_spec _ seed alg.outLen (by cases alg <;> decide) (hlen alg key) a b c
  simp only [Gen.keyAssignRows, Spec.profiles, List.zip_cons_cons, List.zip_nil_right, List.mem_cons,
    List.not_mem_nil, or_false, Prod.mk.injEq] at hk
  rcases hk with ⟨rfl, rfl⟩ | ⟨rfl, rfl⟩ | ⟨rfl, rfl⟩ | ⟨rfl, rfl⟩ | ⟨rfl, rfl⟩ <;>
    simp [symmetric, SymKeys.send, SymKeys.recv, KeyAssign.keySet, KeySetSpec.derive, NonceSel.pick, g,
      Spec.clientKeys, Spec.serverKeys, Gen.kaAes128Sha256RsaOaep, Gen.kaAes256Sha256RsaPss,
      Gen.kaBasic128Rsa15, Gen.kaBasic256, Gen.kaBasic256Sha256]

/-- MIRROR.  What one side uses for sending is what its peer (the same
    constructor with the nonces swapped) uses for receiving — for every row, all
    nonces, any `hmac` (no assumption at all). -/
theorem C14_mirror (ka : KeyAssign) (hk : ka ∈ Gen.keyAssignRows)
    (hmac : HashAlg → Bytes → Bytes → Bytes) (x y : Bytes) :
    (symmetric ka hmac x y).send = (symmetric ka hmac y x).recv ∧
    (symmetric ka hmac x y).recv = (symmetric ka hmac y x).send := by
  simp only [Gen.keyAssignRows, List.mem_cons, List.not_mem_nil, or_false] at hk
  rcases hk with rfl | rfl | rfl | rfl | rfl <;> exact ⟨rfl, rfl⟩

/-- the three key slices determine the first a+b+c bytes of the P_hash output -/
theorem derive_injective (h₁ h₂ : Bytes → Bytes) (s₁ s₂ : Bytes) (a b c : Nat)
    (e : Spec.derive h₁ s₁ a b c = Spec.derive h₂ s₂ a b c) :
    Spec.pSha h₁ s₁ (a + b + c) = Spec.pSha h₂ s₂ (a + b + c) := by
  have key : ∀ p : Bytes, p.length ≤ a + b + c →
      p = p.take a ++ ((p.drop a).take b ++ (p.drop (a + b)).take c) := by
    intro p hp
    have h3 : (p.drop (a + b)).take c = p.drop (a + b) :=
      List.take_of_length_le (by simp only [List.length_drop]; omega)
    rw [h3, ← List.drop_drop, List.take_append_drop, List.take_append_drop]
  have l1 : (Spec.pSha h₁ s₁ (a + b + c)).length ≤ a + b + c := by
    simp only [Spec.pSha, List.length_take]; omega
  have l2 : (Spec.pSha h₂ s₂ (a + b + c)).length ≤ a + b + c := by
    simp only [Spec.pSha, List.length_take]; omega
  simp only [Spec.derive, DirKeys.mk.injEq] at e
  rw [key _ l1, key _ l2, e.1, e.2.1, e.2.2]

/-- SEPARATION (partial: under an explicit PRF-distinctness hypothesis, which is
    a property of the hash and cannot be proved for a concrete one).  If
    swapping the roles of the two nonces changes the P_hash output, then the
    keys a side sends with differ from the keys it receives with — so traffic
    reflected to its sender is not protected with the keys the sender expects.
    The correspondence run samples the rejection on the real code. -/
theorem C14_separation_partial (ka : KeyAssign) (p : Spec.Profile)
    (hk : (ka, p) ∈ Gen.keyAssignRows.zip Spec.profiles)
    (hmac : HashAlg → Bytes → Bytes → Bytes) (hlen : HmacLen hmac) (x y : Bytes)
    (hprf : Spec.pSha (hmac p.hash y) x (p.sigKeyLen + p.encKeyLen + p.blockLen) ≠
            Spec.pSha (hmac p.hash x) y (p.sigKeyLen + p.encKeyLen + p.blockLen)) :
    (symmetric ka hmac x y).send ≠ (symmetric ka hmac x y).recv := by
  obtain ⟨h1, h2, -, -⟩ := C14_assignment ka p hk hmac hlen x y
  rw [h1, h2]
  intro e
  exact hprf (derive_injective _ _ _ _ _ _ _ e)

/-- non-vacuity: the table pairs are what `C14_assignment` quantifies over -/
example : (Gen.kaBasic256Sha256, ⟨"Basic256Sha256", .sha256, 32, 32, 16, 32⟩) ∈
    Gen.keyAssignRows.zip Spec.profiles := by decide

end Opcua.Props.C14
