import OpcuaModel.Model.Recv
import OpcuaModel.Model.RecvSpec
import OpcuaModel.Model.RecvBridge
/-
  C12 — chunk streams from any conforming peer are reassembled correctly.

  Model: `Recv.step` (the loop body of `SecureChannel.Receive` after
  `readChunk`, with `mergeChunks` and both limit checks), tied to the code by
  the C12 correspondence run (hook `VerifMergeChunks` and the real `Receive` on
  a None-mode channel fed by a reference chunk writer over TCP).
  Specification: `Recv.Spec` — messages split into chunks, any interleaving by
  request id, aborts, any conforming numbering.

  Since the repair of C12.merge-drops-seq0 (`mergeChunks` always keeps the first
  chunk) the property holds at full strength: `C12_reassemble` needs nothing but
  conformance — limits respected, per-request-id sub-streams are the messages'
  chunk sequences, numbering as Part 6 prescribes (start anywhere, +1, wrap to
  any value below 1024, 0 included) — for every stream shorter than one full
  numbering cycle (4294965249 chunks).  The former counterexamples are kept as
  regression theorems (`C12_seq0_*`).
-/
namespace Opcua.Props.C12
open Opcua Opcua.Recv Opcua.Recv.Spec

/-- **Reassembly (partial).**  `msgs` are messages within the negotiated limits
    that satisfy the guard; `stream` is any chunk stream whose sub-stream per
    request id is the chunk sequence of the message with that id (that is: any
    interleaving of the messages' chunks) and the table holds nothing for these
    ids.  Then `Receive` returns, chunk by chunk, exactly what the specification
    prescribes — nothing for intermediate chunks, the complete body for the
    final chunk of a message, the abort status for an abort chunk — it ends
    with nothing buffered for these ids and never touches other ids. -/
theorem C12_reassemble_partial (cfg : Cfg) (msgs : List SMsg) (stream : List Chunk) (bufs : Bufs)
    (hfit : ∀ m ∈ msgs, m.fits cfg) (hguard : ∀ m ∈ msgs, m.noDrop)
    (hcover : ∀ c ∈ stream, ∃ m ∈ msgs, m.req = c.req)
    (hproj : ∀ m ∈ msgs, stream.filter (fun c => c.req == m.req) = m.chunks)
    (hfresh : ∀ m ∈ msgs, bufs.get m.req = []) :
    runOuts cfg bufs stream = stream.map (specOut msgs) ∧
    (∀ m ∈ msgs, (runFinal cfg bufs stream).get m.req = []) ∧
    (∀ r, (∀ m ∈ msgs, m.req ≠ r) → (runFinal cfg bufs stream).get r = bufs.get r) := by
  apply run_spec cfg msgs hfit hguard stream bufs hcover
  intro m hm
  right
  rw [hproj m hm, hfresh m hm]
  exact ⟨by simp [SMsg.chunks], rfl⟩

/-- what reaches the service decoder is, in the order of the final chunks, the
    complete body of every message that was not aborted — "delivered stream =
    messages minus aborted" -/
theorem C12_delivered_partial (cfg : Cfg) (msgs : List SMsg) (stream : List Chunk) (bufs : Bufs)
    (hfit : ∀ m ∈ msgs, m.fits cfg) (hguard : ∀ m ∈ msgs, m.noDrop)
    (hcover : ∀ c ∈ stream, ∃ m ∈ msgs, m.req = c.req)
    (hproj : ∀ m ∈ msgs, stream.filter (fun c => c.req == m.req) = m.chunks)
    (hfresh : ∀ m ∈ msgs, bufs.get m.req = []) :
    delivered (runOuts cfg bufs stream) = delivered (stream.map (specOut msgs)) := by
  rw [(C12_reassemble_partial cfg msgs stream bufs hfit hguard hcover hproj hfresh).1]

/-- **Reassembly (full strength).**  Any stream a conforming peer may send:
    messages within the limits, any interleaving, aborts, and a numbering as
    Part 6 prescribes — any start value (0 included), +1 per chunk, wrap-around
    to any value below 1024 (0 included) once 4294966271 is passed — over fewer
    chunks than one full numbering cycle.  `Receive` returns chunk by chunk what
    the specification prescribes and ends with empty buffers. -/
theorem C12_reassemble (cfg : Cfg) (msgs : List SMsg) (stream : List Chunk) (bufs : Bufs)
    (hfit : ∀ m ∈ msgs, m.fits cfg)
    (hnum : Numbered (stream.map (·.seq))) (hlen : stream.length ≤ 4294965249)
    (hcover : ∀ c ∈ stream, ∃ m ∈ msgs, m.req = c.req)
    (hproj : ∀ m ∈ msgs, stream.filter (fun c => c.req == m.req) = m.chunks)
    (hfresh : ∀ m ∈ msgs, bufs.get m.req = []) :
    runOuts cfg bufs stream = stream.map (specOut msgs) ∧
    (∀ m ∈ msgs, (runFinal cfg bufs stream).get m.req = []) ∧
    (∀ r, (∀ m ∈ msgs, m.req ≠ r) → (runFinal cfg bufs stream).get r = bufs.get r) := by
  have hnd : (stream.map (·.seq)).Nodup := numbered_nodup hnum (by simpa using hlen)
  exact C12_reassemble_partial cfg msgs stream bufs hfit
    (fun m hm => noDrop_of_nodup m stream (hproj m hm) hnd) hcover hproj hfresh

/-- "delivered stream = messages minus aborted" for conforming streams -/
theorem C12_delivered (cfg : Cfg) (msgs : List SMsg) (stream : List Chunk) (bufs : Bufs)
    (hfit : ∀ m ∈ msgs, m.fits cfg)
    (hnum : Numbered (stream.map (·.seq))) (hlen : stream.length ≤ 4294965249)
    (hcover : ∀ c ∈ stream, ∃ m ∈ msgs, m.req = c.req)
    (hproj : ∀ m ∈ msgs, stream.filter (fun c => c.req == m.req) = m.chunks)
    (hfresh : ∀ m ∈ msgs, bufs.get m.req = []) :
    delivered (runOuts cfg bufs stream) = delivered (stream.map (specOut msgs)) := by
  rw [(C12_reassemble cfg msgs stream bufs hfit hnum hlen hcover hproj hfresh).1]

/-- the bound on the length is about the numbering only: a conforming numbering
    never repeats a number within 4294965249 chunks -/
theorem C12_numbering_nodup (l : List Nat) (h : Numbered l) (hlen : l.length ≤ 4294965249) : l.Nodup :=
  numbered_nodup h hlen

/-- abort chunks cancel only their own request: a step for request id `c.req`
    leaves the buffer of every other id as it was (any chunk, any state) -/
theorem C12_other_ids_untouched (cfg : Cfg) (bufs : Bufs) (c : Chunk) (r : Nat) (h : r ≠ c.req) :
    (step cfg bufs c).1.get r = bufs.get r :=
  step_get_other cfg bufs c h

/-! ### regression: the former finding C12.merge-drops-seq0 (repaired) -/

/-- witness message: request 7, chunks `C seq0 "AA"`, `F seq1 "BB"` -/
def w0 : SMsg := { req := 7, inter := [(0, [65, 65])], lastSeq := 1, last := [66, 66], abort := false }
/-- the same after a wrap-around: numbers 4294967295, 0, 1 (a single-chunk
    message of request 6 first) -/
def w1a : SMsg := { req := 6, inter := [], lastSeq := 4294967295, last := [90, 90], abort := false }
def w1b : SMsg := { req := 7, inter := [(0, [65, 65])], lastSeq := 1, last := [66, 66], abort := false }

def cfg0 : Cfg := { maxChunkCount := 512, maxMessageSize := 2097152 }

/-- numbering 0,1 from the start of the channel: the body "AABB" is delivered
    (before the repair: "BB") -/
theorem C12_seq0_start :
    Numbered (w0.chunks.map (·.seq)) ∧ w0.fits cfg0 ∧
    runOuts cfg0 [] w0.chunks = [.cont, .merged 7 [65, 65, 66, 66]] := by decide

/-- wrap-around 4294967295 → 0 -/
theorem C12_seq0_wrap :
    Numbered ((w1a.chunks ++ w1b.chunks).map (·.seq)) ∧
    runOuts cfg0 [] (w1a.chunks ++ w1b.chunks) = [.merged 6 [90, 90], .cont, .merged 7 [65, 65, 66, 66]] := by decide

/-- in general: the first chunk of a message is always part of the merged body -/
theorem C12_first_chunk_kept (c d : Chunk) (t : List Chunk) :
    mergeChunks (c :: d :: t) = c.data ++ mergeLoop c.seq (d :: t) := rfl

/-- what the duplicate filter still does (and a conforming peer never triggers):
    a chunk repeating its predecessor's number is skipped -/
theorem C12_repeated_number_skipped (c d : Chunk) (t : List Chunk) (h : d.seq = c.seq) :
    mergeChunks (c :: d :: t) = mergeChunks (c :: t) := by
  cases t with
  | nil => simp [mergeChunks, mergeLoop, h]
  | cons e r => simp [mergeChunks, mergeLoop, h]

/-! ### the whole stack: interleaved sessions on the byte level (C07's model)

  `Chunk.sendSession` (C07, `Model/Chunk.lean`) is the byte-level sender: service
  bodies → chunks → sequence numbers → signed / encrypted wire chunks.  Several
  sessions with pairwise different request ids write to one channel; their chunk
  streams may interleave in any way.  `RecvBridge.noninterference` (the
  per-request-id locality of `Chunk.receiveStep`) and `Chunk.session_roundtrip`
  give: what `Receive` returns for the chunks of session `k` is exactly the
  list of session `k`'s messages. -/

open Opcua.Chunk Opcua.RecvBridge in
/-- **Interleaved sessions through the whole receive stack.**  `sessions` =
    start counter and messages (request id, body) of each sender; `s` = ANY
    interleaving of their wire streams (every chunk tagged with its session;
    `stream k s` is what session `k` wrote, in order).  Request ids of different
    sessions are different, every message respects the receiver's limits and
    has nothing buffered.  Then, for every session `k`, the non-`continue`
    results `Receive` produces at the chunks of session `k` are exactly that
    session's messages, in order, with their request ids, channel id and bodies. -/
theorem C12_stack_interleaved {S R : Side} (hp : Paired S R) (insts : Nat → List Side) (lim : Limits)
    (maxBody : Nat) (hmb : 0 < maxBody) (chan tok : Nat) (hc : chan < 4294967296)
    (hi : ∃ rest, (insts chan).reverse = R :: rest)
    (sessions : List (Int × List (Nat × Bytes))) (t : Table)
    (hm : ∀ ss ∈ sessions, SeqInv ss.1 ∧ ∀ m ∈ ss.2, m.1 < 4294967296 ∧ m.2.length < 4294967296 ∧ t m.1 = [] ∧
      (lim.maxChunkCount = 0 ∨ m.2.length / maxBody ≤ lim.maxChunkCount) ∧
      (lim.maxMessageSize = 0 ∨ m.2.length ≤ lim.maxMessageSize))
    (hdis : ∀ (i j : Nat) (hi' : i < sessions.length) (hj : j < sessions.length), i ≠ j →
      ∀ a ∈ sessions[i].2, ∀ b ∈ sessions[j].2, a.1 ≠ b.1)
    (s : List (Nat × Bytes)) (htag : ∀ x ∈ s, x.1 < sessions.length)
    (hstream : ∀ (k : Nat) (hk : k < sessions.length), ∃ seq',
      sendSession S maxBody chan tok sessions[k].1 sessions[k].2 = (seq', .ok (stream k s))) :
    ∀ (k : Nat) (hk : k < sessions.length),
      (((outsTagged insts lim t s).filter (fun o => o.1 == k)).map (·.2)).filterMap id =
        sessions[k].2.map (fun m => .ok ⟨m.1, chan, m.2⟩) := by
  intro k hk
  -- request ids read back from the chunks of session j
  have hreqs : ∀ (j : Nat) (hj : j < sessions.length), ∀ x ∈ s, x.1 = j →
      ∃ r, reqOf insts x.2 = some r ∧ r ∈ sessions[j].2.map (·.1) := by
    intro j hj x hx hxj
    obtain ⟨sq, hs⟩ := hstream j hj
    have hmj := (hm sessions[j] (List.getElem_mem hj)).2
    apply session_reqs hp insts maxBody hmb chan tok hc hi sessions[j].2
      (fun m hm' => ⟨(hmj m hm').1, (hmj m hm').2.1⟩) sessions[j].1 (stream j s) sq hs
    simp only [stream, List.mem_map, List.mem_filter]
    exact ⟨x, ⟨hx, by simp [hxj]⟩, rfl⟩
  have hni := noninterference insts lim k (fun r => r ∈ sessions[k].2.map (·.1)) s t t
    (by
      intro x hx hxk r hr
      obtain ⟨r', h1, h2⟩ := hreqs k hk x hx hxk
      rw [hr] at h1; cases h1; exact h2)
    (by
      intro x hx hxk r hr hin
      have hj := htag x hx
      obtain ⟨r', h1, h2⟩ := hreqs x.1 hj x hx rfl
      rw [hr] at h1; cases h1
      obtain ⟨a, ha, ha'⟩ := List.mem_map.mp hin
      obtain ⟨b, hb, hb'⟩ := List.mem_map.mp h2
      exact hdis k x.1 hk hj (fun e => hxk e.symm) a ha b hb (by rw [ha', hb']))
    (fun _ _ => rfl)
  rw [hni]
  obtain ⟨hinv, hmk⟩ := hm sessions[k] (List.getElem_mem hk)
  obtain ⟨wire, sq, hs, -, -, hrt⟩ := session_roundtrip hp insts lim maxBody hmb chan tok hc hi sessions[k].2 t hmk sessions[k].1 hinv
  obtain ⟨sq', hs'⟩ := hstream k hk
  have hw : wire = stream k s := by
    rw [hs] at hs'
    simpa using (Prod.mk.inj hs').2
  rw [← hw, ← receiveMany_eq_outs insts lim wire.length t wire (Nat.le_refl _)]
  exact hrt _ (Nat.le_refl _)

/-! ### non-vacuity: interleaved messages, an abort, numbering across a wrap to 5 -/

def e1 : SMsg := { req := 1, inter := [(4294967294, [97, 98]), (5, [99, 100])], lastSeq := 7, last := [101, 102], abort := false }
def e2 : SMsg := { req := 2, inter := [(4294967295, [120, 120])], lastSeq := 6, last := [1, 0, 0x80, 0x80, 0, 0, 0, 0], abort := true }
def e3 : SMsg := { req := 3, inter := [], lastSeq := 8, last := [115, 105, 110, 103, 108, 101], abort := false }
def estream : List Chunk :=
  [⟨ctC, 4294967294, 1, [97, 98]⟩, ⟨ctC, 4294967295, 2, [120, 120]⟩, ⟨ctC, 5, 1, [99, 100]⟩,
   ⟨ctA, 6, 2, [1, 0, 0x80, 0x80, 0, 0, 0, 0]⟩, ⟨ctF, 7, 1, [101, 102]⟩, ⟨ctF, 8, 3, [115, 105, 110, 103, 108, 101]⟩]

example : Numbered (estream.map (·.seq)) ∧
    (∀ m ∈ [e1, e2, e3], m.fits cfg0 ∧ estream.filter (fun c => c.req == m.req) = m.chunks) ∧
    runOuts cfg0 [] estream =
      [.cont, .cont, .cont, .abort 2 0x80800001, .merged 1 [97, 98, 99, 100, 101, 102], .merged 3 [115, 105, 110, 103, 108, 101]] ∧
    runFinal cfg0 [] estream = [] := by decide

end Opcua.Props.C12
