import OpcuaModel.Model.Recv
import OpcuaModel.Model.RecvSpec
/-
  C12 — chunk streams from any conforming peer are reassembled correctly.

  Model: `Recv.step` (the loop body of `SecureChannel.Receive` after
  `readChunk`, with `mergeChunks` and both limit checks), tied to the code by
  the C12 correspondence run (hook `VerifMergeChunks` and the real `Receive` on
  a None-mode channel fed by a reference chunk writer over TCP).
  Specification: `Recv.Spec` — messages split into chunks, any interleaving by
  request id, aborts, any conforming numbering.

  The full-strength statement is FALSE on the unchanged code: `mergeChunks`
  starts its duplicate filter at 0 and silently drops a first chunk numbered 0
  (`C12_finding_seq0_start`, `C12_finding_seq0_wrap`, `C12_finding_seq0_general`).
  `C12_reassemble_partial` proves reassembly under the guard `SMsg.noDrop`, and
  `C12_reassemble_numbered` discharges the guard for every numbering without
  repetition that does not use 0.
-/
namespace Opcua.Props.C12
open Opcua Opcua.Recv Opcua.Recv.Spec

/-- **Reassembly (partial).**  `msgs` are messages within the negotiated limits
    that satisfy the guard; `stream` is any chunk stream whose sub-stream per
    request id is the chunk sequence of the message with that id (that is: any
    interleaving of the messages' chunks) and the table holds nothing for these
    ids.  Then `Receive` returns, chunk by chunk, exactly what the specification
    prescribes — nothing for intermediate chunks, the complete body for the
    final chunk of a message, the abort status for an abort chunk — it ends
    with nothing buffered for these ids and never touches other ids. -/
theorem C12_reassemble_partial (cfg : Cfg) (msgs : List SMsg) (stream : List Chunk) (bufs : Bufs)
    (hfit : ∀ m ∈ msgs, m.fits cfg) (hguard : ∀ m ∈ msgs, m.noDrop)
    (hcover : ∀ c ∈ stream, ∃ m ∈ msgs, m.req = c.req)
    (hproj : ∀ m ∈ msgs, stream.filter (fun c => c.req == m.req) = m.chunks)
    (hfresh : ∀ m ∈ msgs, bufs.get m.req = []) :
    runOuts cfg bufs stream = stream.map (specOut msgs) ∧
    (∀ m ∈ msgs, (runFinal cfg bufs stream).get m.req = []) ∧
    (∀ r, (∀ m ∈ msgs, m.req ≠ r) → (runFinal cfg bufs stream).get r = bufs.get r) := by
  apply run_spec cfg msgs hfit hguard stream bufs hcover
  intro m hm
  right
  rw [hproj m hm, hfresh m hm]
  exact ⟨by simp [SMsg.chunks], rfl⟩

/-- what reaches the service decoder is, in the order of the final chunks, the
    complete body of every message that was not aborted — "delivered stream =
    messages minus aborted" -/
theorem C12_delivered_partial (cfg : Cfg) (msgs : List SMsg) (stream : List Chunk) (bufs : Bufs)
    (hfit : ∀ m ∈ msgs, m.fits cfg) (hguard : ∀ m ∈ msgs, m.noDrop)
    (hcover : ∀ c ∈ stream, ∃ m ∈ msgs, m.req = c.req)
    (hproj : ∀ m ∈ msgs, stream.filter (fun c => c.req == m.req) = m.chunks)
    (hfresh : ∀ m ∈ msgs, bufs.get m.req = []) :
    delivered (runOuts cfg bufs stream) = delivered (stream.map (specOut msgs)) := by
  rw [(C12_reassemble_partial cfg msgs stream bufs hfit hguard hcover hproj hfresh).1]

/-- the guard holds for every message of a stream whose sequence numbers are
    pairwise different and never 0 — in particular for every numbering that
    does not wrap around inside the stream and does not start at 0 -/
theorem C12_reassemble_numbered (cfg : Cfg) (msgs : List SMsg) (stream : List Chunk) (bufs : Bufs)
    (hfit : ∀ m ∈ msgs, m.fits cfg)
    (hnd : (stream.map (·.seq)).Nodup) (h0 : 0 ∉ stream.map (·.seq))
    (hcover : ∀ c ∈ stream, ∃ m ∈ msgs, m.req = c.req)
    (hproj : ∀ m ∈ msgs, stream.filter (fun c => c.req == m.req) = m.chunks)
    (hfresh : ∀ m ∈ msgs, bufs.get m.req = []) :
    runOuts cfg bufs stream = stream.map (specOut msgs) :=
  (C12_reassemble_partial cfg msgs stream bufs hfit
    (fun m hm => noDrop_of_nodup m stream (hproj m hm) hnd h0) hcover hproj hfresh).1

/-- consecutive numbers from a start value ≥ 1 (what gopcua's own sender
    produces between two wrap-arounds) are pairwise different and never 0 -/
theorem C12_consecutive_ok (s : Nat) (hs : 1 ≤ s) (l : List Nat) (h : consecutive s l) :
    l.Nodup ∧ 0 ∉ l := by
  refine ⟨consecutive_nodup h, fun h0 => ?_⟩
  have := consecutive_lb h 0 h0
  omega

/-- abort chunks cancel only their own request: a step for request id `c.req`
    leaves the buffer of every other id as it was (any chunk, any state) -/
theorem C12_other_ids_untouched (cfg : Cfg) (bufs : Bufs) (c : Chunk) (r : Nat) (h : r ≠ c.req) :
    (step cfg bufs c).1.get r = bufs.get r :=
  step_get_other cfg bufs c h

/-! ### the finding: a first chunk numbered 0 is dropped -/


/-- witness message: request 7, chunks `C seq0 "AA"`, `F seq1 "BB"` -/
def w0 : SMsg := { req := 7, inter := [(0, [65, 65])], lastSeq := 1, last := [66, 66], abort := false }
/-- the same after a wrap-around: numbers 4294967295, 0, 1 (a single-chunk
    message of request 6 first) -/
def w1a : SMsg := { req := 6, inter := [], lastSeq := 4294967295, last := [90, 90], abort := false }
def w1b : SMsg := { req := 7, inter := [(0, [65, 65])], lastSeq := 1, last := [66, 66], abort := false }

def cfg0 : Cfg := { maxChunkCount := 512, maxMessageSize := 2097152 }

/-- FINDING C12.merge-drops-seq0 (start at 0): the stream is conforming —
    numbering 0,1 is allowed, the message fits — and the specification
    prescribes the body "AABB", but `Receive` hands "BB" to the decoder. -/
theorem C12_finding_seq0_start :
    Numbered (w0.chunks.map (·.seq)) ∧ w0.fits cfg0 ∧
    specOut [w0] w0.lastChunk = .merged 7 [65, 65, 66, 66] ∧
    runOuts cfg0 [] w0.chunks = [.cont, .merged 7 [66, 66]] ∧
    ¬ w0.noDrop := by decide

/-- FINDING C12.merge-drops-seq0 (wrap-around): the number after 4294967295 is
    0 (Part 6: "less than 1024"); the two-chunk message that starts there loses
    its first chunk. -/
theorem C12_finding_seq0_wrap :
    Numbered ((w1a.chunks ++ w1b.chunks).map (·.seq)) ∧ w1a.fits cfg0 ∧ w1b.fits cfg0 ∧
    (w1a.chunks ++ w1b.chunks).map (specOut [w1a, w1b]) = [.merged 6 [90, 90], .cont, .merged 7 [65, 65, 66, 66]] ∧
    runOuts cfg0 [] (w1a.chunks ++ w1b.chunks) = [.merged 6 [90, 90], .cont, .merged 7 [66, 66]] := by decide

/-- the defect in general: whenever a message of two or more chunks starts with
    number 0, `mergeChunks` returns the concatenation of the *other* chunks only -/
theorem C12_finding_seq0_general (c d : Chunk) (t : List Chunk) (h0 : c.seq = 0) :
    mergeChunks (c :: d :: t) = mergeLoop 0 (d :: t) := by
  simp [mergeChunks, mergeLoop, h0]

/-- … so a non-empty first payload is lost and the result is shorter than the body -/
theorem C12_finding_seq0_shorter (c d : Chunk) (t : List Chunk) (h0 : c.seq = 0) (hne : c.data ≠ []) :
    (mergeChunks (c :: d :: t)).length < (allData (c :: d :: t)).length := by
  rw [C12_finding_seq0_general c d t h0]
  have hle : ∀ (s : Nat) (l : List Chunk), (mergeLoop s l).length ≤ (allData l).length := by
    intro s l
    induction l generalizing s with
    | nil => simp [mergeLoop, allData]
    | cons x r ih =>
      simp only [mergeLoop, allData, List.map_cons, List.flatten_cons, List.length_append]
      split
      · have := ih s; simp only [allData] at this; omega
      · have := ih x.seq; simp only [allData, List.length_append] at this ⊢; omega
  have h1 := hle 0 (d :: t)
  have h2 : 0 < c.data.length := List.length_pos_iff.mpr hne
  simp only [allData, List.map_cons, List.flatten_cons, List.length_append] at h1 ⊢
  omega

/-! ### non-vacuity: interleaved messages, an abort, numbering across a wrap to 5 -/

def e1 : SMsg := { req := 1, inter := [(4294967294, [97, 98]), (5, [99, 100])], lastSeq := 7, last := [101, 102], abort := false }
def e2 : SMsg := { req := 2, inter := [(4294967295, [120, 120])], lastSeq := 6, last := [1, 0, 0x80, 0x80, 0, 0, 0, 0], abort := true }
def e3 : SMsg := { req := 3, inter := [], lastSeq := 8, last := [115, 105, 110, 103, 108, 101], abort := false }
def estream : List Chunk :=
  [⟨ctC, 4294967294, 1, [97, 98]⟩, ⟨ctC, 4294967295, 2, [120, 120]⟩, ⟨ctC, 5, 1, [99, 100]⟩,
   ⟨ctA, 6, 2, [1, 0, 0x80, 0x80, 0, 0, 0, 0]⟩, ⟨ctF, 7, 1, [101, 102]⟩, ⟨ctF, 8, 3, [115, 105, 110, 103, 108, 101]⟩]

example : Numbered (estream.map (·.seq)) ∧
    (∀ m ∈ [e1, e2, e3], m.fits cfg0 ∧ m.noDrop ∧ estream.filter (fun c => c.req == m.req) = m.chunks) ∧
    runOuts cfg0 [] estream =
      [.cont, .cont, .cont, .abort 2 0x80800001, .merged 1 [97, 98, 99, 100, 101, 102], .merged 3 [115, 105, 110, 103, 108, 101]] ∧
    runFinal cfg0 [] estream = [] := by decide

end Opcua.Props.C12
