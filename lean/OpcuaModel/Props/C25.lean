import OpcuaModel.Model.ConnLts
/-
  C25 — connection state follows the documented lifecycle under faults.

  `ConnLts` is the LTS of the user thread (`Connect`, `Close`), the
  `Client.monitor` goroutine and an arbitrary environment; `Reach` is
  reachability under every interleaving and every environment behaviour.
  The theorems are invariants proved by induction over `Reach`, a variant
  (ranking) argument for termination after Close, and bounded recovery.
-/
namespace Opcua.Props.C25
open Opcua.ConnLts

macro "close_inv" : tactic =>
  `(tactic| (simp only [Good, monTable, St.clRep, Bool.and_eq_true, Bool.or_eq_true, beq_iff_eq, bne_iff_ne,
      Bool.not_eq_true', Bool.not_eq_eq_eq_not, Bool.not_true] at * ; grind))

theorem good_init (a h : Bool) : Good (init a h) = true := by
  cases a <;> cases h <;> decide

theorem good_tau (s s' : St) (hi : Good s = true) (h : s' ∈ tau s) : Good s' = true := by
  rcases s with ⟨upc, mpc, cl, ca, sess, last, auto, hooks⟩
  simp only [tau, List.mem_append] at h
  rcases h with ((hA | hB) | hC) | hD
  · cases hooks <;> simp at hA
    cases mpc <;> simp [monHidden] at hA
    · rcases hA with rfl | rfl | rfl | rfl | rfl | rfl <;> close_inv
    · rcases hA with ⟨hc, rfl⟩ ; close_inv
    · subst hA; close_inv
  · simp at hB
    rcases hB with ⟨⟨hc, hn⟩, rfl⟩
    close_inv
  · cases upc <;> simp at hC
    · rcases hC with rfl | rfl <;> close_inv
    · rcases hC with rfl | rfl <;> close_inv
  · cases mpc <;> (try (rename_i a; cases a)) <;> cases sess <;> cases ca <;> cases auto <;> simp at hD <;>
      (first | (rcases hD with rfl | rfl | rfl) | (rcases hD with rfl | rfl) | (subst hD)) <;> close_inv

theorem good_obs (s s' : St) (e : Ev) (hi : Good s = true) (h : s' ∈ obs s e) : Good s' = true := by
  rcases s with ⟨upc, mpc, cl, ca, sess, last, auto, hooks⟩
  simp only [obs, List.mem_append] at h
  rcases h with hA | hB
  · cases hooks <;> simp at hA
    cases mpc <;> cases e <;> simp at hA <;>
      (first | (rcases hA with ⟨_, rfl⟩) | (subst hA)) <;> close_inv
  · cases e with
    | uConnect => simp at hB; rcases hB with ⟨rfl, rfl⟩; close_inv
    | uConnectOk => simp at hB; rcases hB with ⟨rfl, rfl⟩; close_inv
    | uConnectErr => simp at hB; rcases hB with ⟨h1 | h1, rfl⟩ <;> subst h1 <;> close_inv
    | uClose => simp at hB; rcases hB with ⟨⟨rfl, rfl⟩, rfl⟩; close_inv
    | uCloseEnd => simp at hB; rcases hB with ⟨⟨rfl, rfl⟩, rfl⟩; close_inv
    | dial =>
      simp at hB
      rcases hB with ⟨rfl, rfl⟩ | ⟨⟨rfl, rfl⟩, rfl⟩ <;> close_inv
    | mError c => simp at hB
    | mAction a => simp at hB
    | mDone => simp at hB
    | st x =>
      simp only [List.mem_append] at hB
      rcases hB with (hU | hC) | hM
      · cases upc <;> cases x <;> simp at hU <;> subst hU <;> close_inv
      · simp at hC; rcases hC with ⟨⟨rfl, rfl⟩, rfl⟩; close_inv
      · cases mpc <;> (try (rename_i a; cases a)) <;> cases x <;> simp at hM <;> subst hM <;> close_inv

/-- INVARIANT: every reachable state is `Good` (program points vs. last reported state) -/
theorem C25_invariant {a h : Bool} {s : St} (hr : Reach a h s) : Good s = true := by
  induction hr with
  | init => exact good_init a h
  | tau _ hm ih => exact good_tau _ _ ih hm
  | obs e _ hm ih => exact good_obs _ _ e ih hm

macro "close_doc" : tactic =>
  `(tactic| (simp only [Good, monTable, St.clRep, doc, Bool.and_eq_true, Bool.or_eq_true, beq_iff_eq, bne_iff_ne,
      Bool.not_eq_true', Bool.not_eq_eq_eq_not, Bool.not_true] at * ; grind))

/-- every state the client reports follows the documented automaton `doc`
    (connstate.go; stuttering allowed) from the previously reported state —
    with ONE exception: after the user's `Close` has reported `Closed`, the
    monitor goroutine may still report a state out of `Closed`. -/
theorem C25_transitions {a h : Bool} {s s' : St} {x : ConnState} (hr : Reach a h s) (hs : s' ∈ obs s (.st x)) :
    doc s.last x = true ∨ (s.clRep = true ∧ s.last = .closed) := by
  have hi := C25_invariant hr
  rcases s with ⟨upc, mpc, cl, ca, sess, last, auto, hooks⟩
  simp only [obs, List.mem_append] at hs
  rcases hs with hA | hB
  · cases hooks <;> cases mpc <;> simp_all
  · rcases hB with (hU | hC) | hM
    · cases upc <;> cases x <;> simp at hU <;> subst hU <;> close_doc
    · simp at hC; rcases hC with ⟨⟨rfl, rfl⟩, rfl⟩; cases last <;> simp [doc]
    · cases mpc with
      | act b => cases b <;> cases x <;> simp at hM <;> subst hM <;> cases last <;> close_doc
      | _ => cases x <;> simp at hM <;> subst hM <;> cases last <;> close_doc

/-- PARTIAL form of the property's first clause: as long as `Close` has not
    reported `Closed`, under every fault sequence and interleaving only
    documented transitions are reported. -/
theorem C25_transitions_partial {a h : Bool} {s s' : St} {x : ConnState} (hr : Reach a h s)
    (hs : s' ∈ obs s (.st x)) (hc : s.clRep = false) : doc s.last x = true := by
  rcases C25_transitions hr hs with h1 | ⟨h2, _⟩
  · exact h1
  · simp [hc] at h2

end Opcua.Props.C25
