import OpcuaModel.Model.ConnLts
import OpcuaModel.Model.ConnLtsLemmas
/-
  C25 — connection state follows the documented lifecycle under faults.

  `ConnLts` is the LTS of the user thread (`Connect`, `Close`), the
  `Client.monitor` goroutine and an arbitrary environment; `Reach` is
  reachability under every interleaving and every environment behaviour.
  The theorems are invariants proved by induction over `Reach`, a variant
  (ranking) argument for termination after Close, and bounded recovery.
-/
namespace Opcua.Props.C25
open Opcua.ConnLts
set_option linter.unusedSimpArgs false

/-- INVARIANT: every reachable state is `Good` (program points vs. last reported state) -/
theorem C25_invariant {a h : Bool} {s : St} (hr : Reach a h s) : Good s = true := by
  induction hr with
  | init => exact good_init a h
  | tau _ hm ih => exact good_tau _ _ ih hm
  | obs e _ hm ih => exact good_obs _ _ e ih hm

macro "close_doc" : tactic =>
  `(tactic| (simp only [Good, monTable, St.clRep, doc, Bool.and_eq_true, Bool.or_eq_true, beq_iff_eq, bne_iff_ne,
      Bool.not_eq_true', Bool.not_eq_eq_eq_not, Bool.not_true] at *) <;> grind)

/-- C25 first clause, FULL STRENGTH: under every fault sequence, every
    environment behaviour and every interleaving with `Connect` / `Close`, each
    state the client reports is a documented successor (connstate.go,
    stuttering allowed) of the previously reported one. -/
theorem C25_transitions {a h : Bool} {s s' : St} {x : ConnState} (hr : Reach a h s) (hs : s' ∈ obs s (.st x)) :
    doc s.last x = true := by
  have hi := C25_invariant hr
  rcases s with ⟨upc, mpc, cl, ca, sess, last, auto, hooks, fa, stl⟩
  simp only [obs, List.mem_append] at hs
  rcases hs with hA | hB
  · cases hooks <;> cases mpc <;> simp_all
  · rcases hB with (hU | hC) | hM
    · cases upc <;> cases x <;> simp at hU <;> subst hU <;> close_doc
    · simp at hC; rcases hC with ⟨⟨⟨rfl, rfl⟩, rfl⟩, rfl⟩; cases last <;> simp [doc]
    · cases mpc with
      | act b => cases b <;> cases x <;> simp at hM <;> (first | (rcases hM with ⟨⟨rfl, _⟩, rfl⟩) | (rcases hM with ⟨rfl, rfl | rfl⟩) | (rcases hM with ⟨rfl, rfl⟩) | subst hM) <;>
                   cases last <;> close_doc
      | _ => cases x <;> simp at hM <;> (first | (rcases hM with ⟨⟨rfl, _⟩, rfl⟩) | (rcases hM with ⟨rfl, rfl | rfl⟩) | (rcases hM with ⟨rfl, rfl⟩) | subst hM) <;> cases last <;> close_doc

/-- once `Close` has cancelled the monitor context (which it does before it
    reports `Closed`), the only state that can still be reported is `Closed` -/
theorem C25_only_closed_after_close {a h : Bool} {s s' : St} {x : ConnState} (hr : Reach a h s)
    (hc : s.cancelled = true) (hs : s' ∈ obs s (.st x)) : x = .closed := by
  have hi := C25_invariant hr
  rcases s with ⟨upc, mpc, cl, ca, sess, last, auto, hooks, fa, stl⟩
  simp only at hc; subst hc
  simp only [obs, List.mem_append] at hs
  rcases hs with hA | hB
  · cases hooks <;> cases mpc <;> simp_all
  · rcases hB with (hU | hC) | hM
    · cases upc <;> cases x <;> simp at hU <;> subst hU <;> close_inv
    · simp at hC; exact hC.1.2
    · cases mpc with
      | act b => cases b <;> cases x <;> simp at hM <;> rfl
      | _ => cases x <;> simp at hM <;> rfl

/-- after `Close` (monitor context cancelled) no TCP connect attempt is made any more -/
theorem C25_no_dial_after_close {a h : Bool} {s : St} (hr : Reach a h s) (hc : s.cancelled = true) :
    obs s .dial = [] := by
  have hi := C25_invariant hr
  rcases s with ⟨upc, mpc, cl, ca, sess, last, auto, hooks, fa, stl⟩
  simp only at hc; subst hc
  cases hooks <;> cases upc <;> cases mpc <;> simp [obs] <;> close_inv

/-- once the monitor context is cancelled it stays cancelled and every step
    that moves the monitor goroutine strictly decreases `exitRank`: the
    goroutine exits (reporting `Closed`) after at most 7 of its own steps -/
theorem C25_monitor_exits {a h : Bool} {s s' : St} (hr : Reach a h s) (hc : s.cancelled = true)
    (hs : s' ∈ tau s ∨ ∃ e, s' ∈ obs s e) :
    s'.cancelled = true ∧ (s'.mpc = s.mpc ∨ exitRank s'.mpc < exitRank s.mpc) := by
  have hi := C25_invariant hr
  rcases s with ⟨upc, mpc, cl, ca, sess, last, auto, hooks, fa, stl⟩
  simp only at hc; subst hc
  rcases hs with h | ⟨e, h⟩
  · simp only [tau, List.mem_append] at h
    rcases h with (((hA | hB) | hF) | hC) | hD
    · cases hooks <;> simp at hA
      cases mpc <;> simp [monHidden] at hA
      · rcases hA with rfl | rfl | rfl | rfl | rfl | rfl <;> simp [exitRank]
      · subst hA; simp [exitRank]
    · simp at hB
    · simp at hF; rcases hF with ⟨_, rfl⟩; simp
    · cases upc <;> simp at hC <;> (first | (rcases hC with rfl | rfl | rfl) | (rcases hC with rfl | rfl) | subst hC) <;> simp
    · cases mpc with
      | act b => cases b <;> simp at hD <;> (first | (rcases hD with rfl | rfl) | subst hD) <;> simp [exitRank]
      | err c => cases auto <;> simp at hD <;> subst hD <;> cases c <;> simp [exitRank, classify]
      | restore1 => cases sess <;> simp at hD <;> (first | (rcases hD with rfl | rfl | rfl) | subst hD) <;> simp [exitRank]
      | recreate1 => simp at hD; rcases hD with rfl | rfl | rfl <;> simp [exitRank]
      | dialed => simp at hD; rcases hD with rfl | rfl | rfl <;> simp [exitRank]
      | wait => simp at hD; rcases hD with rfl | ⟨_, rfl⟩ <;> simp [exitRank]
      | _ => simp at hD <;> (try subst hD) <;> simp [exitRank]
  · simp only [obs, List.mem_append] at h
    rcases h with hA | hB
    · cases hooks <;> simp at hA
      cases mpc <;> cases e <;> simp at hA <;> subst hA <;> simp [exitRank]
    · cases e with
      | st x =>
        simp only [List.mem_append] at hB
        rcases hB with (hU | hC) | hM
        · -- Connect's own reports happen before Close can be called (invariant)
          cases upc <;> cases x <;> simp at hU <;> subst hU <;> close_inv
        · simp at hC; rcases hC with ⟨_, rfl⟩; simp
        · cases mpc with
          | act b => cases b <;> cases x <;> simp at hM <;> subst hM <;> simp [exitRank]
          | _ => cases x <;> simp at hM <;> subst hM <;> simp [exitRank]
      | dial => simp at hB; rcases hB with ⟨_, rfl⟩; simp
      | uConnect => simp at hB; rcases hB with ⟨_, rfl⟩; simp
      | uConnectOk => simp at hB; rcases hB with ⟨_, rfl⟩; simp
      | uConnectErr => cases upc <;> cases cl <;> simp at hB <;> subst hB <;> simp
      | uClose => simp at hB; rcases hB with ⟨_, rfl⟩; simp
      | uCloseEnd => simp at hB; rcases hB with ⟨_, rfl⟩; simp
      | mError c => simp at hB
      | mAction a => simp at hB
      | mDone => simp at hB

/-- CLOSED IS FINAL: once `Close` has returned and the monitor goroutine has
    exited, the last reported state is `Closed` and nothing at all can happen
    any more — no report, no dial, no hidden step -/
theorem C25_closed_is_final {a h : Bool} {s : St} (hr : Reach a h s) (h1 : s.cl = .ended) (h2 : s.mpc = .dead) :
    s.last = .closed ∧ tau s = [] ∧ ∀ e, obs s e = [] := by
  have hi := C25_invariant hr
  rcases s with ⟨upc, mpc, cl, ca, sess, last, auto, hooks, fa, stl⟩
  simp only at h1 h2; subst h1 h2
  have hu : upc = .running ∨ upc = .failed := by cases upc <;> simp [Good] at hi <;> simp
  rcases hu with rfl | rfl
  all_goals
    refine ⟨?_, ?_, ?_⟩
    · close_inv
    · cases hooks <;> simp [tau, monHidden]
    · intro e; cases hooks <;> cases e <;> simp [obs]

/-- … and the monitor goroutine does get there: `C25_monitor_exits` bounds its
    remaining steps, and in `exit` the only thing it can do is report `Closed` -/
theorem C25_exit_reports_closed {a h : Bool} {s s' : St} {x : ConnState} (hr : Reach a h s) (hm : s.mpc = .exit)
    (hs : s' ∈ obs s (.st x)) (hmoved : s'.mpc ≠ s.mpc) : x = .closed ∧ s'.mpc = .dead := by
  have hi := C25_invariant hr
  rcases s with ⟨upc, mpc, cl, ca, sess, last, auto, hooks, fa, stl⟩
  simp only at hm; subst hm
  simp only [obs, List.mem_append] at hs
  rcases hs with hA | (hU | hC) | hM
  · cases hooks <;> simp at hA
  · cases upc <;> cases x <;> simp at hU <;> subst hU <;> (first | (simp at hmoved; done) | close_inv)
  · simp at hC; rcases hC with ⟨_, rfl⟩; simp at hmoved
  · cases x <;> simp at hM <;> subst hM <;> simp

/-- BOUNDED RECOVERY: from every point of the reconnect loop, if every
    environment answer is a success (`happy`) and nobody calls Close, the
    client reports `Connected` and the monitor is back in its waiting state
    after at most 17 steps -/
theorem C25_recovers {a h : Bool} {s : St} (hr : Reach a h s) (hn : s.cl = .no) (h : reconnecting s = true) :
    (iter happy 17 s).mpc = .wait ∧ (iter happy 17 s).last = .connected := by
  have hi := C25_invariant hr
  rcases s with ⟨upc, mpc, cl, ca, sess, last, auto, hooks, fa, stl⟩
  simp only at hn; subst hn
  cases mpc with
  | done => simp [iter, happy]; close_inv
  | err c => cases c <;> cases sess <;> simp [reconnecting] at h <;> simp [iter, happy, classify]
  | top b => cases b <;> cases sess <;> simp [reconnecting] at h <;> simp [iter, happy]
  | act b => cases b <;> cases sess <;> simp [reconnecting] at h <;> simp [iter, happy]
  | _ => cases sess <;> simp [reconnecting] at h <;> simp [iter, happy, classify]

/-- every `happy` step is a step of the LTS (so the recovery path is a path of the model) -/
theorem C25_happy_is_step (s : St) (h : reconnecting s = true) (hc : s.cancelled = false) (ha : s.auto = true) :
    happy s ∈ tau s ∨ ∃ e, happy s ∈ obs s e := by
  rcases s with ⟨upc, mpc, cl, ca, sess, last, auto, hooks, fa, stl⟩
  simp only at hc ha; subst hc ha
  cases mpc with
  | disc => cases hooks
            · left; simp [happy, tau, monHidden]
            · right; exact ⟨.mError .eof, by simp [happy, obs]⟩
  | err c => left; cases c <;> simp [reconnecting] at h <;> simp [happy, tau, classify]
  | top b => cases hooks
             · left; simp [happy, tau, monHidden]
             · right; exact ⟨.mAction b, by simp [happy, obs]⟩
  | act b =>
    cases b <;> simp [reconnecting] at h
    · right; exact ⟨.st .reconnecting, by simp [happy, obs]⟩
    · right; exact ⟨.st .reconnecting, by simp [happy, obs]⟩
    · right; exact ⟨.st .reconnecting, by simp [happy, obs]⟩
    · right; exact ⟨.st .connected, by simp [happy, obs]⟩
    · left; simp [happy, tau]
  | dialLoop => right; exact ⟨.dial, by simp [happy, obs]⟩
  | dialed => left; simp [happy, tau]
  | dialWait => left; simp [happy, tau]
  | restore1 => left; cases sess <;> simp [happy, tau]
  | recreate1 => left; simp [happy, tau]
  | done => cases hooks
            · left; simp [happy, tau, monHidden]
            · right; exact ⟨.mDone, by simp [happy, obs]⟩
  | _ => simp [reconnecting] at h

/-- the witness traces of the repaired defect C25.state-after-close (a state
    reported out of `Closed` by the monitor after `Close` returned) are no
    paths of the model any more; what the repaired client does instead is -/
theorem C25_state_after_close_rejected :
    accepts true true [.uConnect, .st .connecting, .dial, .st .connected, .uConnectOk,
      .st .disconnected, .mError .eof, .mAction .createSecureChannel,
      .uClose, .st .closed, .uCloseEnd, .st .reconnecting, .st .closed] = false ∧
    accepts true true [.uConnect, .st .connecting, .dial, .st .connected, .uConnectOk,
      .st .disconnected, .mError .badSubscription, .mAction .transferSubscriptions, .mAction .restoreSubscriptions,
      .uClose, .st .closed, .uCloseEnd, .st .connected, .mDone, .st .closed] = false ∧
    accepts true true [.uConnect, .st .connecting, .dial, .st .connected, .uConnectOk,
      .st .disconnected, .mError .eof, .mAction .createSecureChannel,
      .uClose, .st .closed, .uCloseEnd, .st .closed] = true ∧
    accepts true true [.uConnect, .st .connecting, .dial, .st .connected, .uConnectOk,
      .st .disconnected, .mError .badSubscription, .mAction .transferSubscriptions, .mAction .restoreSubscriptions,
      .uClose, .st .closed, .uCloseEnd, .mDone, .st .closed] = true := by
  decide +kernel

/-- the monitor never waits with a stale error of a dead channel in front of it:
    `Dial` drains `c.sechanErr` before it creates a channel and the end of a
    reconnect round drains it too -/
theorem C25_no_stale_error_while_waiting {a h : Bool} {s : St} (hr : Reach a h s) (hw : s.mpc = .wait) :
    s.stale = false := by
  have hi := C25_invariant hr
  rcases s with ⟨upc, mpc, cl, ca, sess, last, auto, hooks, fa, stl⟩
  simp only at hw; subst hw
  cases stl <;> simp [Good] at hi ⊢

/-- `Disconnected` is reported only when the live connection really reported an
    error: never because of what an earlier, failed `Connect` or an earlier
    channel left behind (the repaired defect C25.stale-error-after-failed-connect) -/
theorem C25_disconnected_needs_fault {a h : Bool} {s s' : St} (hr : Reach a h s)
    (hs : s' ∈ obs s (.st .disconnected)) : s.faulted = true := by
  have hst := fun hw => C25_no_stale_error_while_waiting hr hw
  rcases s with ⟨upc, mpc, cl, ca, sess, last, auto, hooks, fa, stl⟩
  simp only [obs, List.mem_append] at hs
  rcases hs with hA | (hU | hC) | hM
  · cases hooks <;> cases mpc <;> simp_all
  · cases upc <;> simp at hU
  · simp at hC
  · cases mpc with
    | wait =>
      simp at hM
      have := hst rfl
      simp only at this; subst this
      cases fa <;> simp_all
    | act b => cases b <;> simp at hM
    | _ => simp at hM

/-- FINDING C25.error-lost-in-reconnect-drain: the drain at the end of a
    reconnect round (`for len(c.sechanErr) > 0 { <-c.sechanErr }`, after
    `Connected` was reported) also discards an error the NEW connection has
    already reported: the monitor then waits with a dead connection and nothing
    will ever report it (the dispatcher has exited) — the step exists in the model -/
theorem C25_finding_error_lost_in_drain :
    ∃ s s', s.mpc = .done ∧ s.last = .connected ∧ s.faulted = true ∧ s' ∈ obs s .mDone ∧
      s'.mpc = .wait ∧ s'.faulted = false ∧ s'.last = .connected :=
  ⟨⟨.running, .done, .no, false, true, .connected, true, true, true, false⟩,
   ⟨.running, .wait, .no, false, true, .connected, true, true, false, false⟩,
   rfl, rfl, rfl, by simp [obs], rfl, rfl, rfl⟩

/-- REPEATED CONNECT: after a `Connect` that returned an error the client has
    reported nothing but `Connecting` / `Closed` last; if the error came from
    the namespace update after `Connected` was reported, Connect's own Close has
    cancelled the monitor and `Closed` is the last report -/
theorem C25_failed_connect_not_connected {a h : Bool} {s : St} (hr : Reach a h s) (hf : s.upc = .failed) :
    (s.last = .closed ∨ s.last = .connecting) ∧ (s.cl = .ended → s.last = .closed ∧ s.cancelled = true) := by
  have hi := C25_invariant hr
  rcases s with ⟨upc, mpc, cl, ca, sess, last, auto, hooks, fa, stl⟩
  simp only at hf; subst hf
  close_inv

/-- a failed `Connect` can be retried on the same client, and a `Connect` whose
    namespace update fails after `Connected` ends `Closed` with an error: both
    are paths of the model -/
theorem C25_connect_retry_and_nsfail_paths :
    accepts true true [.uConnect, .st .connecting, .dial, .uConnectErr,
      .uConnect, .st .connecting, .dial, .st .connected, .uConnectOk] = true ∧
    accepts true true [.uConnect, .st .connecting, .dial, .st .connected, .st .closed, .uConnectErr, .st .closed] = true ∧
    accepts true true [.uConnect, .st .connecting, .dial, .st .connected, .st .closed, .uConnectErr, .uConnect] = false := by
  decide +kernel

/-- non-vacuity: the traces of a cut connection, of an outage with dial
    retries and of a lost session are accepted; a report out of order is not -/
example :
    accepts true true [.uConnect, .st .connecting, .dial, .st .connected, .uConnectOk, .st .disconnected, .mError .eof,
      .mAction .createSecureChannel, .st .reconnecting, .dial, .dial, .dial, .mAction .restoreSession, .st .reconnecting,
      .mAction .recreateSession, .st .reconnecting, .mAction .transferSubscriptions, .mAction .restoreSubscriptions,
      .st .connected, .mDone, .uClose, .st .closed, .uCloseEnd, .st .closed] = true ∧
    accepts true false [.uConnect, .st .connecting, .dial, .st .connected, .uConnectOk, .st .disconnected,
      .st .reconnecting, .dial, .st .reconnecting, .st .connected, .uClose, .st .closed, .st .closed, .uCloseEnd] = true ∧
    accepts true true [.uConnect, .st .connecting, .dial, .st .connected, .uConnectOk, .st .reconnecting] = false ∧
    accepts false true [.uConnect, .st .connecting, .dial, .st .connected, .uConnectOk, .st .disconnected, .mError .eof,
      .st .reconnecting] = false := by
  decide +kernel

end Opcua.Props.C25
