import OpcuaModel.Model.SrvHandlersLemmas
/-
  C35 — services other than discovery and session set-up require an activated
  session: a non-exempt request whose authentication token does not name a
  created, activated, not closed session is refused with a session error and
  changes nothing.

  `step` (Model/SrvHandlers.lean) is the model of `handleService` and the
  handlers; which handler looks the session up and which one compares it with
  nil is read from the regenerated table `Gen.SrvSession.handlers` (C35_table).

  On the current code the property is FALSE for Read, Write and Browse (no
  session lookup at all), for the 23 stub services (they answer
  BadServiceUnsupported, not a session error) and, for a created but never
  activated session, for every service (there is no activation flag at all:
  C35_activation_is_ghost).  Each family has a machine-checked counterexample
  (C35_finding_*); the property is proved where it holds (C35_partial,
  C35_checked_services) and the exempt services are proved to work without a
  session (C35_exempt_answered).
-/
namespace Opcua.Props.C35
open Opcua Opcua.Srv Opcua.Gen.SrvSession

/-- C35 for one request in one state -/
def Holds (st : St) (t : Tok) (r : Req) : Prop :=
  exempt r = false → validToken st t = false →
    (step st t r).2.isSessionErr = true ∧ (step st t r).1 = st

/-! ### the regenerated handler table -/

/-- The registration table of `initHandlers` with the per-handler facts, and the
    fact that the dispatcher itself never looks at the session.  A newly
    registered service, a stub that starts doing work, or a new session check
    changes the generated file and breaks this theorem. -/
theorem C35_table :
    handlers.map (fun h => (h.request, h.unsupported, h.lookup, h.nilChecked)) =
      [("FindServersRequest", false, "none", false), ("FindServersOnNetworkRequest", true, "none", false),
       ("GetEndpointsRequest", false, "none", false), ("RegisterServerRequest", true, "none", false),
       ("RegisterServer2Request", true, "none", false), ("CreateSessionRequest", false, "none", false),
       ("ActivateSessionRequest", false, "session", true), ("CloseSessionRequest", false, "close", false),
       ("CancelRequest", true, "none", false), ("AddNodesRequest", true, "none", false),
       ("AddReferencesRequest", true, "none", false), ("DeleteNodesRequest", true, "none", false),
       ("DeleteReferencesRequest", true, "none", false), ("BrowseRequest", false, "none", false),
       ("BrowseNextRequest", true, "none", false), ("TranslateBrowsePathsToNodeIDsRequest", true, "none", false),
       ("RegisterNodesRequest", true, "none", false), ("UnregisterNodesRequest", true, "none", false),
       ("QueryFirstRequest", true, "none", false), ("QueryNextRequest", true, "none", false),
       ("ReadRequest", false, "none", false), ("HistoryReadRequest", true, "none", false),
       ("WriteRequest", false, "none", false), ("HistoryUpdateRequest", true, "none", false),
       ("CallRequest", true, "none", false), ("CreateSubscriptionRequest", false, "session", true),
       ("ModifySubscriptionRequest", true, "none", false), ("SetPublishingModeRequest", true, "none", false),
       ("PublishRequest", false, "session", true), ("RepublishRequest", true, "none", false),
       ("TransferSubscriptionsRequest", true, "none", false), ("DeleteSubscriptionsRequest", false, "session", true),
       ("CreateMonitoredItemsRequest", false, "session", true), ("ModifyMonitoredItemsRequest", true, "none", false),
       ("SetMonitoringModeRequest", false, "session", true), ("SetTriggeringRequest", true, "none", false),
       ("DeleteMonitoredItemsRequest", false, "session", true)] ∧
    dispatcherLookup = "none" ∧ dispatcherNilChecked = false ∧ subIdByLen = false := by decide

/-- the 14 services the server implements; everything else is a stub -/
theorem C35_implemented :
    (handlers.filter (fun h => !h.unsupported)).map (·.request) =
      ["FindServersRequest", "GetEndpointsRequest", "CreateSessionRequest", "ActivateSessionRequest",
       "CloseSessionRequest", "BrowseRequest", "ReadRequest", "WriteRequest", "CreateSubscriptionRequest",
       "PublishRequest", "DeleteSubscriptionsRequest", "CreateMonitoredItemsRequest",
       "SetMonitoringModeRequest", "DeleteMonitoredItemsRequest"] := by decide

/-! ### what holds -/

/-- Discovery and CreateSession are answered whatever the token is (server with endpoints). -/
theorem C35_exempt_answered (st : St) (t : Tok) (k : Tok) (c : CertCls) :
    (st.endpointsEmpty = false → step st t .findServers = (st, .ok "")) ∧
    step st t .getEndpoints = (st, .ok "") ∧
    (step st t (.createSession k false c)).2 = .ok "" := by
  refine ⟨fun h => ?_, ?_, ?_⟩
  · simp [step, Req.name, handlerOf_findServers, body, h]
  · simp [step, Req.name, handlerOf_getEndpoints, body]
  · simp [step, Req.name, handlerOf_createSession, body]

/-- The handlers that compare the looked-up session with nil — Publish, ActivateSession and, since the
    nil-session repair, the subscription and monitored-item services — refuse a token that is not in
    the session table with a session error and change nothing. -/
theorem C35_checked_services (st : St) (t : Tok) (h : findSession st t = none) (sec ok : Bool)
    (iv : Interval) (ids : List Nat) (sub n : Nat) :
    step st t .publish = (st, .sessionErr) ∧
    step st t (.activateSession sec ok) = (st, .sessionErr) ∧
    step st t (.createSubscription iv) = (st, .sessionErr) ∧
    step st t (.deleteSubscriptions ids) = (st, .sessionErr) ∧
    step st t (.createMonitoredItems sub n) = (st, .sessionErr) ∧
    step st t (.setMonitoringMode ids) = (st, .sessionErr) ∧
    step st t (.deleteMonitoredItems ids) = (st, .sessionErr) := by
  refine ⟨?_, ?_, ?_, ?_, ?_, ?_, ?_⟩ <;>
    simp [step, Req.name, handlerOf_publish, handlerOf_activateSession, handlerOf_createSubscription,
      handlerOf_deleteSubscriptions, handlerOf_createMonitoredItems, handlerOf_setMonitoringMode,
      handlerOf_deleteMonitoredItems, h]

/-- Signed and encrypted channels: ActivateSession checks the client signature — a wrong one is refused
    with BadSecurityChecksFailed and changes nothing, a right one activates — but that is all the
    signature is good for … -/
theorem C35_activation_signed (st : St) (t : Tok) (x : Session) (h : findSession st t = some x)
    (hr : x.certRsa = true) :
    step st t (.activateSession true false) = (st, .fault "BadSecurityChecksFailed") ∧
    (step st t (.activateSession true true)).2 = .ok "" := by
  constructor <;> simp [step, Req.name, handlerOf_activateSession, body, h, hr]

/-- the guard under which C35 holds: the handler looks the session up and nil-checks it
    (per the regenerated table) and the token is not in the session table -/
def guard (st : St) (t : Tok) (r : Req) : Bool :=
  match handlerOf r.name with
  | some h => !h.unsupported && h.lookup == "session" && h.nilChecked && (findSession st t).isNone
  | none => false

/-- C35 on the part of the input space where it holds. -/
theorem C35_partial (st : St) (t : Tok) (r : Req) (g : guard st t r = true) : Holds st t r := by
  intro _ _
  unfold guard at g
  unfold step
  cases hh : handlerOf r.name with
  | none => simp [hh] at g
  | some h =>
    simp only [hh, Bool.and_eq_true, Bool.not_eq_true', beq_iff_eq] at g
    obtain ⟨⟨⟨hu, hl⟩, hn⟩, hs⟩ := g
    simp [hu, hl, hn, hs, Out.isSessionErr]

/-- Publish without a session in the table satisfies the guard: the partial theorem is not vacuous. -/
theorem C35_partial_publish (st : St) (t : Tok) (h : findSession st t = none) : Holds st t .publish :=
  C35_partial st t .publish (by simp [guard, Req.name, handlerOf_publish, h])

/-! ### what does not hold -/

/-- Read, Write and Browse never look at the token: the answer is the same for every token. -/
theorem C35_token_ignored (st : St) (t t' : Tok) (v : Int) (w : String) (a : AttrV) (c : BrowseCls) (b : Bool) :
    step st t .read = step st t' .read ∧
    step st t (.write v) = step st t' (.write v) ∧
    step st t (.writeAttr w a) = step st t' (.writeAttr w a) ∧
    step st t (.browse c b) = step st t' (.browse c b) := by
  refine ⟨?_, ?_, ?_, ?_⟩ <;> simp [step, Req.name, handlerOf_read, handlerOf_write, handlerOf_browse, body]

/-- Read is answered with the value, Write changes the value, for any token at all
    (node with default access attributes). -/
theorem C35_read_write_unchecked (st : St) (t : Tok) (v : Int) (h : st.accessAttr = .absent) :
    step st t .read = (st, .ok "Good") ∧
    step st t (.write v) = ({ st with value := v }, .ok "Good") := by
  constructor <;> simp [step, Req.name, handlerOf_read, handlerOf_write, body, accessCheck, h]

/-- CreateSubscription for a token in the session table creates a subscription owned by that session
    (whether or not the session was ever activated). -/
theorem C35_createSubscription_owned (st : St) (t : Tok) (x : Session) (h : findSession st t = some x) :
    step st t (.createSubscription .huge) =
      ({ st with subs := putSub st.subs ⟨st.lastSub + 1, some x.token⟩, lastSub := st.lastSub + 1 }, .ok "") := by
  have hb : subIdByLen = false := by decide
  simp [step, Req.name, handlerOf_createSubscription, body, effectiveInterval, h, hb]

/-- A stub service answers BadServiceUnsupported (not a session error) and changes nothing. -/
theorem C35_stub_unsupported (st : St) (t : Tok) (n : String)
    (h : ∀ x, handlerOf n = some x → x.unsupported = true) :
    step st t (.other n) = (st, .fault "BadServiceUnsupported") := by
  unfold step
  simp only [Req.name]
  cases hh : handlerOf n with
  | none => rfl
  | some x => simp [h x hh, unsupportedFault]

/-- The activation flag is ghost state: the answer to any request is the same whether or
    not the sessions in the table were ever activated. -/
theorem C35_activation_is_ghost (st : St) (t : Tok) (r : Req) :
    (step (deactivate st) t r).2 = (step st t r).2 :=
  step_deactivate_out st t r

/-- the state of the recorded counterexamples: session 1 created and activated, session 2
    created only, subscription 1 (with item 1) owned by session 1, test value 5 -/
def st1 : St :=
  { sessions := [⟨1, true, 0, true⟩, ⟨2, false, 0, true⟩], subs := [⟨1, some 1⟩], items := [⟨1, 1⟩], nextItem := 1, lastSub := 1, value := 5 }

/-- finding C35.read-without-session: no token, the value is returned. -/
theorem C35_finding_read :
    exempt .read = false ∧ validToken st1 0 = false ∧ step st1 0 .read = (st1, .ok "Good") ∧
    classify35 st1 0 .read = "C35.read-without-session" := by decide

/-- finding C35.write-without-session: an unknown token, the value changes. -/
theorem C35_finding_write :
    validToken st1 77 = false ∧ step st1 77 (.write 9) = ({ st1 with value := 9 }, .ok "Good") ∧
    classify35 st1 77 (.write 9) = "C35.write-without-session" := by decide

/-- finding C35.browse-without-session -/
theorem C35_finding_browse :
    step st1 0 (.browse .plain false) = (st1, .ok "Good") ∧
    classify35 st1 0 (.browse .plain false) = "C35.browse-without-session" := by decide

/-- repaired (was finding C35.subscription-without-session): CreateSubscription and
    DeleteSubscriptions without a session are refused with a session error and change nothing —
    no subscription with a nil owner can be created any more. -/
theorem C35_repaired_subscription :
    step st1 0 (.createSubscription .huge) = (st1, .sessionErr) ∧
    step st1 0 (.deleteSubscriptions [7]) = (st1, .sessionErr) ∧
    step st1 0 (.deleteSubscriptions [1]) = (st1, .sessionErr) ∧
    step st1 77 (.createSubscription .small) = (st1, .sessionErr) := by decide

/-- repaired (was finding C35.monitoreditems-without-session) -/
theorem C35_repaired_monitoreditems :
    step st1 0 (.createMonitoredItems 7 1) = (st1, .sessionErr) ∧
    step st1 0 (.createMonitoredItems 1 1) = (st1, .sessionErr) ∧
    step st1 0 (.setMonitoringMode []) = (st1, .sessionErr) ∧
    step st1 0 (.setMonitoringMode [1]) = (st1, .sessionErr) ∧
    step st1 0 (.deleteMonitoredItems [1]) = (st1, .sessionErr) := by decide

/-- finding C35.unsupported-without-session: a stub answers BadServiceUnsupported, not a session error. -/
theorem C35_finding_unsupported :
    exempt (.other "CallRequest") = false ∧
    step st1 0 (.other "CallRequest") = (st1, .fault "BadServiceUnsupported") ∧
    classify35 st1 0 (.other "CallRequest") = "C35.unsupported-without-session" := by decide

/-- finding C35.not-activated-session-accepted: the token of a session that was created but
    never activated is served like an activated one (Publish is queued, Write writes). -/
theorem C35_finding_not_activated :
    validToken st1 2 = false ∧ notActivated st1 2 = true ∧
    step st1 2 .publish = ({ st1 with sessions := [⟨1, true, 0, true⟩, ⟨2, false, 1, true⟩] }, .noResponse) ∧
    step st1 2 (.write 9) = ({ st1 with value := 9 }, .ok "Good") ∧
    (step st1 2 (.createSubscription .huge)).2 = .ok "" ∧
    classify35 st1 2 .publish = "C35.not-activated-session-accepted" := by decide

/-- … the session whose activation was REFUSED is served like an activated one (same finding
    C35.not-activated-session-accepted; channel security plays no role in any handler) -/
theorem C35_finding_refused_activation_still_served :
    step st1 2 (.activateSession true false) = (st1, .fault "BadSecurityChecksFailed") ∧
    notActivated st1 2 = true ∧
    step st1 2 .read = (st1, .ok "Good") ∧
    step st1 2 (.write 9) = ({ st1 with value := 9 }, .ok "Good") := by decide

/-- the property at full strength does not hold for the code as it is -/
theorem C35_full_false : ¬ ∀ st t r, Holds st t r := by
  intro h
  have := (h st1 0 .read C35_finding_read.1 C35_finding_read.2.1).1
  rw [C35_finding_read.2.2.1] at this
  exact absurd this (by decide)

/-! ### non-vacuity -/

example : step st1 1 .publish = ({ st1 with sessions := [⟨1, true, 1, true⟩, ⟨2, false, 0, true⟩] }, .noResponse) := by decide
example : step st1 0 .publish = (st1, .sessionErr) := by decide
example : step st1 1 (.deleteSubscriptions [1]) = ({ st1 with subs := [], items := [] }, .ok "Good") := by decide
example : guard st1 0 .publish = true ∧ guard st1 0 .read = false := by decide

end Opcua.Props.C35
