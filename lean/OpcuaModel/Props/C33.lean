import OpcuaModel.Model.Browse
import OpcuaModel.Model.AccessLemmas
import OpcuaModel.Gen.RefTypes
/-
  C33 — Browse returns exactly the matching references.

  `Browse.browse` mirrors the loop of `NodeNameSpace.Browse` with `suitableRef`,
  `suitableRefType`, `getSubRefs` (tied by the C33 correspondence run against the
  real Browse service on the live address space).  `Gen.refTypeSubs` is the
  HasSubtype forest the code walks, dumped from `server.New()` on every run.

  `SpecMatch` is the property's filter (direction, reference type equal or —
  only when subtypes are requested — a transitive subtype, class of the target
  node in the mask).  After the repairs of `suitableRefType` (the subtypes are not
  consulted when IncludeSubtypes is false; the deletion loop that ran out of the
  slice is gone) and of the class mask (`suitableRef` looks at the class the
  target node has now, not at the class recorded in the reference) the code
  satisfies it for EVERY request on EVERY node whose references are well formed
  (`C33_filter`); the only hypothesis left is that the HasSubtype forest is
  acyclic, which is proved for the regenerated standard hierarchy.
-/
namespace Opcua.Props.C33
open Opcua.Browse

/-- the DFS of `getSubRefs` computes exactly the transitive HasSubtype closure on
    every acyclic forest, for any fuel above the rank of the start node (the Go
    recursion is unbounded: it terminates exactly on such forests) -/
theorem C33_subrefs_closure (g : Graph) (rank : Nat → Nat) (hr : RankOK g rank) (fuel t x : Nat)
    (hf : rank t < fuel) : x ∈ getSubRefs g fuel t ↔ Sub g x t :=
  mem_getSubRefs g rank hr fuel t x hf

/-- the regenerated standard hierarchy is acyclic, with the generated rank table -/
theorem C33_std_acyclic : RankOK Gen.refTypeSubs (lookupRank Gen.refTypeRank) :=
  rankOK_of_check _ _ (by decide +kernel)

/-- … and `Gen.refTypeFuel` is above every rank, so the driver's fuel is enough -/
theorem C33_std_fuel : ∀ t, lookupRank Gen.refTypeRank t < Gen.refTypeFuel := by
  have h : Gen.refTypeRank.all (fun e => decide (e.2 < Gen.refTypeFuel)) = true := by decide +kernel
  have h0 : 0 < Gen.refTypeFuel := by decide
  intro t
  generalize Gen.refTypeRank = tbl at h
  induction tbl with
  | nil => simpa [lookupRank] using h0
  | cons e r ih =>
    obtain ⟨a, b⟩ := e
    simp only [List.all_cons, Bool.and_eq_true, decide_eq_true_eq] at h
    unfold lookupRank
    by_cases ha : a = t
    · simp [ha, h.1]
    · simp only [ha, ↓reduceIte]; exact ih h.2

/-- the constants of the model are the ones of the source -/
theorem C33_ids : hasSubtype = Gen.hasSubtypeId ∧ hasTypeDefinition = Gen.hasTypeDefinitionId := by decide

/-- MAIN: on an acyclic forest, for a node whose references are well formed,
    and EVERY request (any direction value,
    reference type, subtype flag and class mask): Browse returns, up to order,
    exactly the references the specification selects — no more, no fewer, with
    multiplicity -/
theorem C33_filter (g : Graph) (rank : Nat → Nat) (hr : RankOK g rank) (fuel : Nat) (d : Desc)
    (hf : rank d.refType < fuel) (refs : List Ref)
    (hwf : ∀ r ∈ refs, r.nilField = false) :
    (browse g fuel d refs).Perm (refs.filter (specMatchB g fuel d)) ∧
      (∀ r, specMatchB g fuel d r = true ↔ SpecMatch g d r) ∧
      (∀ r, r ∈ browse g fuel d refs ↔ r ∈ refs ∧ SpecMatch g d r) := by
  have hp := browseLoop_perm g fuel d refs [] hwf
  have hiff := specMatchB_iff g rank hr fuel d hf
  refine ⟨by simpa [browse] using hp, hiff, ?_⟩
  intro r
  unfold browse
  rw [hp.mem_iff]
  simp [List.mem_filter, hiff r]

/-- the same for the regenerated standard hierarchy, with the driver's fuel -/
theorem C33_filter_std (d : Desc) (refs : List Ref)
    (hwf : ∀ r ∈ refs, r.nilField = false) :
    ∀ r, r ∈ browse Gen.refTypeSubs Gen.refTypeFuel d refs ↔ r ∈ refs ∧ SpecMatch Gen.refTypeSubs d r :=
  (C33_filter Gen.refTypeSubs _ C33_std_acyclic Gen.refTypeFuel d (C33_std_fuel d.refType) refs hwf).2.2

/-- the reference type test alone is the specification's clause, for every pair of
    types and both values of the flag (no guard any more) -/
theorem C33_reftype (g : Graph) (rank : Nat → Nat) (hr : RankOK g rank) (fuel t1 t2 : Nat) (sub : Bool)
    (hf : rank t1 < fuel) :
    suitableRefType g fuel t1 t2 sub = true ↔ (t1 = 0 ∨ t2 = t1 ∨ (sub = true ∧ Sub g t2 t1)) := by
  have h := suitableRefType_eq g fuel ⟨0, t1, sub, 0⟩ t2
  simp only at h
  rw [h]
  simp only [typeOkB, Bool.or_eq_true, Bool.and_eq_true, decide_eq_true_eq, List.contains_iff_mem,
    mem_getSubRefs g rank hr fuel t1 t2 hf, or_assoc]

/-- REPAIRED (was C33.subtypes-match-when-excluded): with IncludeSubtypes=false a
    proper subtype no longer matches — Aggregates (44) vs HasComponent (47) /
    HasProperty (46), NonHierarchicalReferences (32) vs HasTypeDefinition (40) —
    while the type itself and, with the flag, the subtypes still do -/
theorem C33_repaired_subtypes_excluded :
    suitableRefType Gen.refTypeSubs Gen.refTypeFuel 44 47 false = false ∧
    suitableRefType Gen.refTypeSubs Gen.refTypeFuel 44 46 false = false ∧
    suitableRefType Gen.refTypeSubs Gen.refTypeFuel 32 40 false = false ∧
    suitableRefType Gen.refTypeSubs Gen.refTypeFuel 44 44 false = true ∧
    suitableRefType Gen.refTypeSubs Gen.refTypeFuel 44 47 true = true := by
  decide +kernel

/-- REPAIRED (was C33.browse-panics-hassubtype-deletion): References (31),
    HierarchicalReferences (33), HasChild (34) with IncludeSubtypes=false simply
    select nothing but the type itself; the Objects folder example returns the
    empty list -/
theorem C33_repaired_no_panic :
    suitableRefType Gen.refTypeSubs Gen.refTypeFuel 33 35 false = false ∧
    suitableRefType Gen.refTypeSubs Gen.refTypeFuel 31 35 false = false ∧
    suitableRefType Gen.refTypeSubs Gen.refTypeFuel 34 47 false = false ∧
    browse Gen.refTypeSubs Gen.refTypeFuel ⟨0, 33, false, 0⟩
      [⟨40, true, 61, 8, 8, true, false⟩, ⟨35, true, 2253, 1, 1, true, false⟩] = [] := by
  decide +kernel

/-- REPAIRED (was C33.nodeclass-mask-uses-stale-class): a reference recorded as
    Variable (2) whose target node now says Object (1) is returned by mask=Object and
    dropped by mask=Variable, as the specification says; for a target outside the
    address space the recorded class is all there is -/
theorem C33_repaired_class_mask :
    let r : Ref := ⟨47, true, 2255, 2, 1, true, false⟩
    let x : Ref := ⟨47, true, 9999, 2, 0, false, false⟩
    browse [] 1 ⟨0, 0, true, 1⟩ [r] = [r] ∧ SpecMatch [] ⟨0, 0, true, 1⟩ r ∧
    browse [] 1 ⟨0, 0, true, 2⟩ [r] = [] ∧ ¬ SpecMatch [] ⟨0, 0, true, 2⟩ r ∧
    browse [] 1 ⟨0, 0, true, 2⟩ [x] = [x] := by
  refine ⟨by decide, ?_, by decide, ?_, by decide⟩ <;> simp [SpecMatch, suitableDirection, Ref.cls]

/-- `Node.NodeClass()` on the stored attribute: the class number for the Int32 and the UInt32
    storage form, Object (1) otherwise -/
def nodeClassOf (d : Access.DV) : Nat :=
  match d with
  | .v ty p => if ty = Access.tyInt32 ∨ ty = Access.tyUInt32 then p else 1
  | _ => 1

/-- the class Browse applies the mask to does not depend on what clients have READ before: the read
    path (`NodeNameSpace.Attribute`, C31 model) rewrites a stored UInt32 NodeClass into Int32 in place,
    and for every node and every attribute read the class `Node.NodeClass()` derives from the stored
    attribute is the same afterwards (reference type ids, like all node ids, are abstract keys in the
    model: numeric, string and GUID ids alike; only the null id is special) -/
theorem C33_class_stable_under_reads (n : Access.Node) (attr : Nat) :
    nodeClassOf ((Access.nsAttribute n attr).2.get Access.aNodeClass) = nodeClassOf (n.get Access.aNodeClass) := by
  unfold Access.nsAttribute
  cases Access.access n Access.fRead <;> simp only []
  repeat' split
  all_goals first
    | rfl
    | (simp_all [nodeClassOf, Access.Node.get, Access.lookup_setAttr_same, Access.tyInt32, Access.tyUInt32])

/-- non-vacuity: with subtypes, HierarchicalReferences selects Organizes and
    HasComponent but not HasTypeDefinition -/
example : suitableRefType Gen.refTypeSubs Gen.refTypeFuel 33 35 true = true ∧
    suitableRefType Gen.refTypeSubs Gen.refTypeFuel 33 47 true = true ∧
    suitableRefType Gen.refTypeSubs Gen.refTypeFuel 33 40 true = false ∧
    getSubRefs Gen.refTypeSubs Gen.refTypeFuel 46 = [] := by decide +kernel

end Opcua.Props.C33
