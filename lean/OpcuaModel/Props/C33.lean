import OpcuaModel.Model.Browse
import OpcuaModel.Gen.RefTypes
/-
  C33 — Browse returns exactly the matching references.

  `Browse.browse` mirrors the loop of `NodeNameSpace.Browse` with `suitableRef`,
  `suitableRefType`, `getSubRefs` (tied by the C33 correspondence run against the
  real Browse service on the live address space).  `Gen.refTypeSubs` is the
  HasSubtype forest the code walks, dumped from `server.New()` on every run.

  `SpecMatch` is the property's filter (direction, reference type equal or —
  only when subtypes are requested — a transitive subtype, class of the target
  node in the mask).  The unchanged code satisfies it when subtypes are
  requested, when no reference type is given, or when the requested type has no
  subtypes (`C33_filter`).  Otherwise it is wrong in two ways, both recorded as
  findings with machine-checked counterexamples on the generated hierarchy:
  subtypes still match, and when HasSubtype itself is among the subtypes
  (References, HierarchicalReferences, HasChild) the deletion loop runs out of
  the slice and panics.  A third finding: the class mask is applied to the class
  recorded in the reference, which can differ from the target node's class.
-/
namespace Opcua.Props.C33
open Opcua.Browse

/-- the DFS of `getSubRefs` computes exactly the transitive HasSubtype closure on
    every acyclic forest, for any fuel above the rank of the start node (the Go
    recursion is unbounded: it terminates exactly on such forests) -/
theorem C33_subrefs_closure (g : Graph) (rank : Nat → Nat) (hr : RankOK g rank) (fuel t x : Nat)
    (hf : rank t < fuel) : x ∈ getSubRefs g fuel t ↔ Sub g x t :=
  mem_getSubRefs g rank hr fuel t x hf

/-- the regenerated standard hierarchy is acyclic, with the generated rank table -/
theorem C33_std_acyclic : RankOK Gen.refTypeSubs (lookupRank Gen.refTypeRank) :=
  rankOK_of_check _ _ (by decide +kernel)

/-- … and `Gen.refTypeFuel` is above every rank, so the driver's fuel is enough -/
theorem C33_std_fuel : ∀ t, lookupRank Gen.refTypeRank t < Gen.refTypeFuel := by
  have h : Gen.refTypeRank.all (fun e => decide (e.2 < Gen.refTypeFuel)) = true := by decide +kernel
  have h0 : 0 < Gen.refTypeFuel := by decide
  intro t
  generalize Gen.refTypeRank = tbl at h
  induction tbl with
  | nil => simpa [lookupRank] using h0
  | cons e r ih =>
    obtain ⟨a, b⟩ := e
    simp only [List.all_cons, Bool.and_eq_true, decide_eq_true_eq] at h
    unfold lookupRank
    by_cases ha : a = t
    · simp [ha, h.1]
    · simp only [ha, ↓reduceIte]; exact ih h.2

/-- the constants of the model are the ones of the source -/
theorem C33_ids : hasSubtype = Gen.hasSubtypeId ∧ hasTypeDefinition = Gen.hasTypeDefinitionId := by decide

/-- MAIN: on an acyclic forest, for a node whose references are well formed and
    carry the class of their target, and a request inside the guard (subtypes
    requested, or no reference type given, or a type without subtypes): Browse
    does not panic and returns, up to order, exactly the references the
    specification selects — no more, no fewer, with multiplicity -/
theorem C33_filter (g : Graph) (rank : Nat → Nat) (hr : RankOK g rank) (fuel : Nat) (d : Desc)
    (hf : rank d.refType < fuel) (hg : Guard g fuel d) (refs : List Ref)
    (hwf : ∀ r ∈ refs, r.nilField = false ∧ r.storedClass = r.targetClass) :
    ∃ l, browse g fuel d refs = .ok l ∧ l.Perm (refs.filter (specMatchB g fuel d)) ∧
      (∀ r, specMatchB g fuel d r = true ↔ SpecMatch g d r) ∧
      (∀ r, r ∈ l ↔ r ∈ refs ∧ SpecMatch g d r) := by
  obtain ⟨l, hl, hp⟩ := browseLoop_guard g fuel d hg refs [] hwf
  have hiff := specMatchB_iff g rank hr fuel d hf
  refine ⟨l, hl, by simpa using hp, hiff, ?_⟩
  intro r
  rw [hp.mem_iff]
  simp [List.mem_filter, hiff r]

/-- the same for the regenerated standard hierarchy, with the driver's fuel -/
theorem C33_filter_std (d : Desc) (hg : Guard Gen.refTypeSubs Gen.refTypeFuel d) (refs : List Ref)
    (hwf : ∀ r ∈ refs, r.nilField = false ∧ r.storedClass = r.targetClass) :
    ∃ l, browse Gen.refTypeSubs Gen.refTypeFuel d refs = .ok l ∧
      (∀ r, r ∈ l ↔ r ∈ refs ∧ SpecMatch Gen.refTypeSubs d r) := by
  obtain ⟨l, h1, _, _, h4⟩ := C33_filter Gen.refTypeSubs _ C33_std_acyclic Gen.refTypeFuel d
    (C33_std_fuel d.refType) hg refs hwf
  exact ⟨l, h1, h4⟩

/-- exact characterisation of the reference type test outside the guard: it is
    right iff it does not panic and the offered type is not a proper subtype -/
theorem C33_reftype_partial (g : Graph) (fuel t1 t2 : Nat) (h0 : t1 ≠ 0) (hne : t1 ≠ t2) :
    suitableRefType g fuel t1 t2 false =
      if (getSubRefs g fuel t1).contains hasSubtype ∧ (getSubRefs g fuel t1).idxOf hasSubtype > 0 then .panic
      else if (getSubRefs g fuel t1).contains t2 then .yes else .no := by
  simp [suitableRefType, h0, hne]

/-- FINDING C33.subtypes-match-when-excluded — Aggregates (44) with
    IncludeSubtypes=false still matches HasComponent (47) and HasProperty (46);
    NonHierarchicalReferences (32) still matches HasTypeDefinition (40) -/
theorem C33_finding_subtypes_match_when_excluded :
    suitableRefType Gen.refTypeSubs Gen.refTypeFuel 44 47 false = .yes ∧
    suitableRefType Gen.refTypeSubs Gen.refTypeFuel 44 46 false = .yes ∧
    suitableRefType Gen.refTypeSubs Gen.refTypeFuel 32 40 false = .yes ∧
    ¬ SpecMatch Gen.refTypeSubs ⟨0, 44, false, 0⟩ ⟨47, true, 1, 1, 1, false⟩ := by
  refine ⟨by decide +kernel, by decide +kernel, by decide +kernel, ?_⟩
  simp [SpecMatch]

/-- FINDING C33.browse-panics-hassubtype-deletion — with IncludeSubtypes=false and
    References (31), HierarchicalReferences (33) or HasChild (34) any reference
    of another type in the requested direction makes `suitableRefType` panic
    (`slices.Delete` out of range): e.g. the Organizes (35) references of the
    Objects folder -/
theorem C33_finding_browse_panics :
    suitableRefType Gen.refTypeSubs Gen.refTypeFuel 33 35 false = .panic ∧
    suitableRefType Gen.refTypeSubs Gen.refTypeFuel 31 35 false = .panic ∧
    suitableRefType Gen.refTypeSubs Gen.refTypeFuel 34 47 false = .panic ∧
    browse Gen.refTypeSubs Gen.refTypeFuel ⟨0, 33, false, 0⟩
      [⟨40, true, 61, 8, 8, false⟩, ⟨35, true, 2253, 1, 1, false⟩] = .panic := by
  refine ⟨by decide +kernel, by decide +kernel, by decide +kernel, by decide +kernel⟩

/-- FINDING C33.nodeclass-mask-uses-stale-class — the mask is applied to the class
    stored in the reference: a reference recorded as Variable (2) whose target
    node now says Object (1) is dropped by mask=Object and returned by mask=Variable -/
theorem C33_finding_stale_class :
    let r : Ref := ⟨47, true, 2255, 2, 1, false⟩
    browse [] 1 ⟨0, 0, true, 1⟩ [r] = .ok [] ∧ SpecMatch [] ⟨0, 0, true, 1⟩ r ∧
    browse [] 1 ⟨0, 0, true, 2⟩ [r] = .ok [r] ∧ ¬ SpecMatch [] ⟨0, 0, true, 2⟩ r := by
  refine ⟨by decide, ?_, by decide, ?_⟩ <;> simp [SpecMatch, suitableDirection]

/-- non-vacuity: with subtypes, HierarchicalReferences selects Organizes and
    HasComponent but not HasTypeDefinition; the guard holds for leaf types -/
example : suitableRefType Gen.refTypeSubs Gen.refTypeFuel 33 35 true = .yes ∧
    suitableRefType Gen.refTypeSubs Gen.refTypeFuel 33 47 true = .yes ∧
    suitableRefType Gen.refTypeSubs Gen.refTypeFuel 33 40 true = .no ∧
    getSubRefs Gen.refTypeSubs Gen.refTypeFuel 46 = [] := by decide +kernel

end Opcua.Props.C33
