import OpcuaModel.Gen.Asym
/- helper lemmas about the generated table of asymmetric policy rows -/
namespace Opcua.Asym
open Opcua

theorem rows_cases {r : AsymRow} (h : r ∈ Gen.asymRows) :
    r = Gen.asymAes128_Sha256_RsaOaep ∨ r = Gen.asymAes256_Sha256_RsaPss ∨ r = Gen.asymBasic128Rsa15 ∨
    r = Gen.asymBasic256 ∨ r = Gen.asymBasic256Sha256 ∨ r = Gen.asymNone := by
  simpa [Gen.asymRows] using h

end Opcua.Asym
