import OpcuaModel.Base.Bytes
/-
  Line-protocol driver loop: one request per line on stdin, exactly one answer
  line on stdout.  Tokens are separated by single spaces.
-/
namespace Opcua

partial def driverLoop (h : IO.FS.Stream) (out : IO.FS.Stream) (f : List String → String) : IO Unit := do
  let line ← h.getLine
  if line.isEmpty then
    out.flush
    return ()
  let toks := ((line.trimAscii).toString.splitOn " ").filter (· ≠ "")
  out.putStrLn (f toks)
  out.flush
  driverLoop h out f

def runDriver (f : List String → String) : IO Unit := do
  driverLoop (← IO.getStdin) (← IO.getStdout) f

/-- stateful variant: the handler threads a state through the lines -/
partial def driverLoopS {σ : Type} (h : IO.FS.Stream) (out : IO.FS.Stream)
    (f : σ → List String → σ × String) (s : σ) : IO Unit := do
  let line ← h.getLine
  if line.isEmpty then
    out.flush
    return ()
  let toks := ((line.trimAscii).toString.splitOn " ").filter (· ≠ "")
  let (s', o) := f s toks
  out.putStrLn o
  out.flush
  driverLoopS h out f s'

def runDriverS {σ : Type} (f : σ → List String → σ × String) (init : σ) : IO Unit := do
  driverLoopS (← IO.getStdin) (← IO.getStdout) f init

end Opcua
