/-
  Numeric parameters of a `uapolicy.EncryptionAlgorithm` as the channel code
  reads them (`BlockSize()`, `PlaintextBlockSize()`, `SignatureLength()`,
  `RemoteSignatureLength()`).  Values are generated into `Gen/Policies.lean`.
-/
namespace Opcua

structure AlgoParams where
  name : String := ""
  blockSize : Int
  plaintextBlockSize : Int
  signatureLength : Int
  remoteSignatureLength : Int
  deriving Repr, DecidableEq

/-- `ua.MessageSecurityMode` -/
inductive Mode where
  | none | sign | signAndEncrypt
  deriving Repr, DecidableEq

def Mode.ofNat? : Nat → Option Mode
  | 1 => some .none
  | 2 => some .sign
  | 3 => some .signAndEncrypt
  | _ => Option.none

end Opcua
