/-
  Base definitions shared by every model: byte strings, hex text of the line
  protocol, little-endian integer codecs (Nat div/mod, omega friendly) and the
  driver loop.  Core Lean only: everything a driver imports must stay free of
  Mathlib so that the `lean_exe` targets link.
-/
namespace Opcua

abbrev Bytes := List UInt8

def hexDigit (n : Nat) : Char :=
  if n < 10 then Char.ofNat (48 + n) else Char.ofNat (87 + n)

def toHex (b : Bytes) : String :=
  if b.isEmpty then "-" else
  String.ofList (b.flatMap fun x => [hexDigit (x.toNat / 16), hexDigit (x.toNat % 16)])

def hexVal (c : Char) : Option Nat :=
  if '0' ≤ c ∧ c ≤ '9' then some (c.toNat - 48)
  else if 'a' ≤ c ∧ c ≤ 'f' then some (c.toNat - 87)
  else none

def fromHexAux : List Char → Option Bytes
  | [] => some []
  | a :: b :: r => do
      let x ← hexVal a
      let y ← hexVal b
      let t ← fromHexAux r
      pure (UInt8.ofNat (x * 16 + y) :: t)
  | _ => none

/-- `-` is the empty byte string in the line protocol. -/
def fromHex (s : String) : Option Bytes :=
  if s = "-" then some [] else fromHexAux s.toList

/-- little-endian encoding of `v` on `n` bytes (value taken mod 256^n) -/
def leBytes : Nat → Nat → Bytes
  | 0, _ => []
  | n + 1, v => UInt8.ofNat (v % 256) :: leBytes n (v / 256)

/-- little-endian value of a byte list -/
def leVal : Bytes → Nat
  | [] => 0
  | b :: r => b.toNat + 256 * leVal r

@[simp] theorem leBytes_length (n v : Nat) : (leBytes n v).length = n := by
  induction n generalizing v with
  | zero => rfl
  | succ n ih => simp [leBytes, ih]

theorem leVal_leBytes (n v : Nat) : leVal (leBytes n v) = v % 256 ^ n := by
  induction n generalizing v with
  | zero => simp [leBytes, leVal, Nat.mod_one]
  | succ n ih =>
    simp only [leBytes, leVal, ih]
    have h : (UInt8.ofNat (v % 256)).toNat = v % 256 := by
      simp [UInt8.toNat_ofNat']
    rw [h, Nat.pow_succ, Nat.mul_comm (256 ^ n) 256, Nat.mod_mul]

end Opcua
