/-
  Small proof helpers shared by the property files (no Mathlib).
-/
namespace Opcua

/-- Rewrites Go's truncating `/` and `%` (`Int.tdiv`, `Int.tmod`) into the
    Euclidean ones that `omega` understands, wherever `omega` can show that the
    dividend is non-negative.  Never fails. -/
macro "go_divmod" : tactic =>
  `(tactic| try simp (disch := omega) only [Int.tmod_eq_emod_of_nonneg, Int.tdiv_eq_ediv_of_nonneg])

end Opcua
