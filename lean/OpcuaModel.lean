-- Root of the `OpcuaModel` library.  Property files are built on demand by
-- `./check`; this root only pulls in the shared base.
import OpcuaModel.Base.Bytes
import OpcuaModel.Base.Loop
