import OpcuaModel.Base.Loop
import OpcuaModel.Model.MonMap
/-
  Driver for C28 (stateful: the monitor model of one subscription).
    reset                          → ok
    add <reqs> <oks>               → wire=<handles on the wire> <state>
    adderr <reqs>                  → <state>
    remove <ids>                   → <state>
    recreate <handles> <0|1>       → <state>   (a reconnect re-sent the stored requests with these handles, in this order)
    notify <handle>                → <node> | none
    explain <obs>…                 → yes | no
    mono <obs>…                    → yes | no   (values sent for a handle never go back)
  reqs = comma separated `node:ptr` (ptr `-` = nil MonitoringParameters), oks = bits,
  state = next=<n> handles=<h:node,…> items=<id:node:handle,…> srv=<id:node:handle,…> stored=<key:node:handle,… sorted>,
  obs = `E:<handle>:<value>` (enqueue under the service lock) | `P:<handle>:<value>,…` (published batch).
-/
open Opcua Opcua.Mon

def lst (s : String) : List String := if s = "-" then [] else s.splitOn ","

def parseReq (s : String) : Option Req :=
  match s.splitOn ":" with
  | [n, p] => do
    let n ← n.toNat?
    if p = "-" then pure ⟨n, none⟩ else pure ⟨n, some (← p.toNat?)⟩
  | _ => none

def join (l : List String) : String := if l.isEmpty then "-" else ",".intercalate l

def showState (s : St) : String :=
  let hs := (List.range (s.next + 1)).filterMap fun k => (s.handles k).map fun n => s!"{k}:{n}"
  let its := s.items.map fun i => s!"{i.id}:{i.node}:{i.handle}"
  let sv := s.srv.map fun i => s!"{i.id}:{i.node}:{i.handle}"
  let st := s.stored.map fun e => s!"{e.key}:{e.node}:{e.handle}"
  s!"next={s.next} handles={join hs} items={join its} srv={join sv} stored={join (st.mergeSort)}"

def parsePair (s : String) : Option (Nat × Int) :=
  match s.splitOn ":" with
  | [h, v] => do pure (← h.toNat?, ← v.toInt?)
  | _ => none

def parseObs (s : String) : Option Obs :=
  match s.splitOn ":" with
  | ["E", h, v] => do pure (.enq (← h.toNat?) (← v.toInt?))
  | "P" :: rest =>
    let body := ":".intercalate rest
    (lst body).mapM parsePair |>.map Obs.pub
  | _ => none

def bits (s : String) : Option (List Bool) :=
  if s = "-" then some [] else s.toList.mapM fun c => if c = '1' then some true else if c = '0' then some false else none

def handle (s : St) : List String → St × String
  | ["reset"] => (St.empty, "ok")
  | ["state"] => (s, showState s)
  | ["add", reqs, oks] =>
    match (lst reqs).mapM parseReq, bits oks with
    | some rs, some os =>
      let all := assign s.next rs
      let w := all.map fun (_, h) => toString h
      let s' := add s rs os
      (s', s!"wire={join w} {showState s'}")
    | _, _ => (s, "bad-op")
  | ["adderr", reqs] =>
    match (lst reqs).mapM parseReq with
    | some rs => let s' := addErr s rs; (s', showState s')
    | none => (s, "bad-op")
  | ["remove", ids] =>
    match (lst ids).mapM (·.toNat?) with
    | some is => let s' := remove s is; (s', showState s')
    | none => (s, "bad-op")
  | ["recreate", hs, ok] =>
    -- the order is given by the client handles of the re-sent requests
    match (lst hs).mapM (·.toNat?) with
    | some hl =>
      let order := hl.filterMap fun h => (s.stored.find? (·.handle == h)).map (·.key)
      let s' := recreate s order (ok == "1")
      (s', showState s')
    | none => (s, "bad-op")
  | ["notify", h] =>
    match h.toNat? with
    | some h => (s, match s.handles h with | some n => toString n | none => "none")
    | none => (s, "bad-op")
  | "explain" :: obs =>
    match obs.mapM parseObs with
    | some os => (s, if explain (2 * os.length + 10) [] os then "yes" else "no")
    | none => (s, "bad-op")
  | "mono" :: obs =>
    match obs.mapM parseObs with
    | some os => (s, if monoOK [] os then "yes" else "no")
    | none => (s, "bad-op")
  | _ => (s, "bad-op")

def main : IO Unit := runDriverS handle St.empty
