import Drv.RecvCommon
import OpcuaModel.Model.RecvRaw
import OpcuaModel.Model.Gate
/-
  Driver for C13:
    raw <rcvBuf> <maxChunkCount> <maxMessageSize> <secure 0|1|2 (2 = SignAndEncrypt)> <opening 0|1> <chan,chan,…|-> <frame>…
      frame = <hex>[/o=<hex of the plaintext the frame opens to>][/c=certErr|notRsa|policyErr|ok]
      → one outcome per frame until a panic or EOF: panic:conn | panic:hdr | eof | err:<class> | <result as in recv>,
        then held=<entries>/<chunks>/<bytes>
    handshake <own rcvBuf> <ack rcvBuf> <ack sndBuf>  → refused | rcvbuf=<n>   (the client's HEL/ACK handshake)
    recv … as in C12 (retained memory of chunk streams)
-/
open Opcua Opcua.Recv Opcua.Recv.Raw

def parseFrame (s : String) : Option Frame :=
  match s.splitOn "/" with
  | [] => none
  | hx :: opts => do
    let raw ← fromHex hx
    let mut f : Frame := { raw := raw }
    for o in opts do
      if o.startsWith "o=" then
        let c ← fromHex (o.drop 2).toString
        f := { f with opens := some c }
      else if o == "c=certErr" then f := { f with cert := .certErr }
      else if o == "c=notRsa" then f := { f with cert := .notRsa }
      else if o == "c=policyErr" then f := { f with cert := .policyErr }
      else if o == "c=ok" then f := { f with cert := .ok }
      else none
    pure f

def parseFrames : List String → Option (List Frame)
  | [] => some []
  | s :: r => do
    let f ← parseFrame s
    let t ← parseFrames r
    pure (f :: t)

def errText : ErrCls → String
  | .decodeChunk => "decodeChunk" | .noOpening => "noOpening" | .cert => "cert"
  | .notRsa => "notRsa" | .policy => "policy" | .noInstance => "noInstance" | .security => "security"
  | .seqHeader => "seqHeader"

def rawOutText : RawOut → String
  | .panic .connSmallBuf => "panic:conn"
  | .panic .headerSlice => "panic:hdr"
  | .eof => "eof"
  | .err c => "err:" ++ errText c
  | .out o => o.text

def parseChans (s : String) : Option (List Nat) :=
  if s == "-" then some [] else (s.splitOn ",").mapM (·.toNat?)

/-- `gate <ev>…`  ev = r:<req> | t:<req> | a:<req>:<0|1 OPN body> | d | o | c → locked=<0|1> delivered=<ids oldest first> queued=<n> -/
def parseGateEv (s : String) : Option Gate.Ev :=
  match s.splitOn ":" with
  | ["r", q] => do pure (.register (← q.toNat?))
  | ["t", q] => do pure (.timeout (← q.toNat?))
  | ["a", q, o] => do pure (.arrive ⟨← q.toNat?, o == "1"⟩)
  | ["d"] => some .dispatch
  | ["o"] => some .openReturns
  | ["c"] => some .close
  | _ => none

def handleGate (toks : List String) : String :=
  match toks.mapM parseGateEv with
  | some evs =>
    let st := Gate.run {} evs
    s!"locked={if st.locked then 1 else 0} delivered={",".intercalate (st.delivered.reverse.map toString)} queued={st.queue.length}"
  | none => "bad-op"

def handle : List String → String
  | "raw" :: rb :: mc :: mm :: sec :: opn :: chans :: fs =>
    match rb.toNat?, mc.toNat?, mm.toNat?, parseChans chans, parseFrames fs with
    | some rb, some mc, some mm, some chans, some fs =>
      let lim : Cfg := ⟨mc, mm, Gen.RecvFacts.chunkLimitZeroUnlimited, Gen.RecvFacts.sizeLimitZeroUnlimited⟩
      let cfg : RawCfg := ⟨rb, lim, sec == "1" || sec == "2", sec == "2"⟩
      let st : RawSt := ⟨[], opn == "1", chans, false⟩
      let outs := runRaw cfg st fs
      " ".intercalate (outs.map rawOutText ++ [heldText (runRawFinal cfg st fs).bufs])
    | _, _, _, _, _ => "bad-op"
  | ["handshake", own, r, sd] =>
    match own.toNat?, r.toNat?, sd.toNat? with
    | some own, some r, some sd =>
      match handshake Gen.RecvFacts.ackMinBufSize Gen.RecvFacts.ackRcvCappedByHello own r sd with
      | none => "refused"
      | some b => s!"rcvbuf={b}"
    | _, _, _ => "bad-op"
  | "gate" :: r => handleGate r
  | "recv" :: r => handleRecv r
  | _ => "bad-op"

def main : IO Unit := runDriver handle
