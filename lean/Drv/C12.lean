import Drv.RecvCommon
/-
  Driver for C12:
    merge <seq>:<hex> …                                   → <hex of mergeChunks>
    recv <maxChunkCount> <maxMessageSize> <ct>:<seq>:<req>:<hex> …
                                                          → one result per chunk, then held=<entries>/<chunks>/<bytes>
-/
open Opcua Opcua.Recv

def handle : List String → String
  | "merge" :: r => handleMerge r
  | "recv" :: r => handleRecv r
  | _ => "bad-op"

def main : IO Unit := runDriver handle
