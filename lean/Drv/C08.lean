import OpcuaModel.Base.Loop
import OpcuaModel.Model.ChunkRef
import OpcuaModel.Model.ChunkSpec
/-
  Driver for C08: the SPECIFICATION side as an independent implementation of the
  Part 6 chunk layout — `Spec.secureChunk` / `Spec.openChunk` with the reference
  AES-CBC / HMAC and keys derived by `Keys.Spec` (P_SHA, §6.7.5 table, profile
  lengths of Part 7).  Nothing of the implementation model is used here.

    selftest
        → ok | names of failed vectors
    specsecure <policy> <mode> <client|server> <clientNonce> <serverNonce> <MSG|CLO> <flag char> <chan> <tok> <seq> <req> <k> <body>
        → <hex of the chunk the <role> sends> | err
    specopen <policy> <mode> <client|server> <clientNonce> <serverNonce> <wire>
        → ok <hex of SequenceHeader ‖ Body> | reject       (a chunk sent by <role>, opened by its peer)
    footer <plainBlock> <sigSize> <extra 0|1> <bytesToWrite> <k>
        → <paddingSize> <hex of PaddingSize ‖ Padding ‖ [ExtraPaddingSize]>
-/
open Opcua Opcua.Chunk Opcua.Keys Opcua.CryptoRef Opcua.ChunkRef Opcua.Spec

def findProfile (name : String) : Option Spec.Profile := Keys.Spec.profiles.find? (·.name == name)

def roleKeys (p : Spec.Profile) (role : String) (cn sn : Bytes) : Option DirKeys :=
  if role = "client" then some (Keys.Spec.clientKeys p hmac cn sn)
  else if role = "server" then some (Keys.Spec.serverKeys p hmac cn sn)
  else none

/-- the suite of the sending role: sign / encrypt and (for the peer) verify /
    decrypt with that role's keys -/
def suiteFor (policy role : String) (cn sn : Bytes) : Option Suite :=
  if policy == "None" then some ⟨1, 1, 0, false, noneCrypto⟩ else
  match findProfile policy with
  | none => none
  | some p =>
    match roleKeys p role cn sn with
    | none => none
    | some k =>
      some { plainBlock := p.blockLen, cipherBlock := p.blockLen, sigSize := p.sigLen, extraPadding := false,
             crypto := { enc := aesEncrypt (8 * p.encKeyLen) k.encrypting k.iv,
                         dec := aesDecrypt k.encrypting k.iv,
                         sign := fun m => some (hmac p.hash k.signing m),
                         verify := fun m s => decide (hmac p.hash k.signing m = s) } }

def flags (mode : Nat) : Option (Bool × Bool) :=
  match mode with
  | 1 => some (false, false)
  | 2 => some (true, false)
  | 3 => some (true, true)
  | _ => none

def handle : List String → String
  | ["selftest"] =>
    match CryptoRef.selfTestFailures ++ (if cbcCrossCheck then [] else ["cbc-list-vs-bytearray"]) with
    | [] => "ok"
    | l => " ".intercalate l
  | ["specsecure", pol, m, role, cn, sn, mt, flag, chan, tok, seq, req, k, body] =>
    match m.toNat? >>= flags, unhexFast cn, unhexFast sn, unhexFast body with
    | some (signed, encrypted), some cn, some sn, some body =>
      match chan.toNat?, tok.toNat?, seq.toNat?, req.toNat?, k.toNat?, suiteFor pol role cn sn with
      | some chan, some tok, some seq, some req, some k, some s =>
        let parts : Parts := { msgType := mt.toUTF8.data.toList, isFinal := (flag.toUTF8.data.toList.headD 70),
                               channelId := chan, secHeader := leBytes 4 tok, seqNum := seq, requestId := req, body := body }
        match secureChunk s signed encrypted parts k with
        | some w => toHex w
        | none => "err"
      | _, _, _, _, _, _ => "bad-op"
    | _, _, _, _ => "bad-op"
  | ["specopen", pol, m, role, cn, sn, wire] =>
    match m.toNat? >>= flags, unhexFast cn, unhexFast sn, unhexFast wire with
    | some (signed, encrypted), some cn, some sn, some wire =>
      match suiteFor pol role cn sn with
      | some s =>
        match openChunk s signed encrypted 16 wire with
        | some d => s!"ok {toHex d}"
        | none => "reject"
      | none => "bad-op"
    | _, _, _, _ => "bad-op"
  | ["footer", pb, sig, extra, n, k] =>
    match pb.toNat?, sig.toNat?, extra.toNat?, n.toNat?, k.toNat? with
    | some pb, some sig, some extra, some n, some k =>
      let s : Suite := ⟨pb, pb, sig, extra == 1, noneCrypto⟩
      let ps := paddingSize s n k
      s!"{ps} {toHex (footer s ps)}"
    | _, _, _, _, _ => "bad-op"
  | _ => "bad-op"

def main : IO Unit := runDriver handle
