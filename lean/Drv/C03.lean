import OpcuaModel.Model.CodecDrv
/-
  Driver for C03: the codec line protocol (see OpcuaModel/Model/CodecDrv.lean).
-/
def main : IO Unit := Opcua.runDriver Opcua.CodecDrv.handle
