import OpcuaModel.Base.Loop
import OpcuaModel.Model.Access
/-
  Driver for C31.
    h <nsCount> <N> <node>*N <op>*           → <res>* | <final node>*N
      node  = ns:key:valDV:attr=DV,attr=DV,…   (attribute list `-` when empty)
      op    = r:ns:key:attr | w:ns:key:attr:DV[:f<1 status code, 2 source timestamp, 4 IndexRange — all ignored by the code>]
      DV    = nil | nov | <ty>.<payload>
      res   = ok | bad | unk | den | inv | val:<DV> | panic
      final = valDV;al;ual;nodeclass
    acc <ualDV> <alDV> <flag>                 → allow | deny | panic   lacks=<0|1>
-/
open Opcua Opcua.Access

def parseDV (s : String) : Option DV :=
  if s = "nil" then some .nilPtr
  else if s = "nov" then some .noVariant
  else match s.splitOn "." with
    | [a, b] => do pure (.v (← a.toNat?) (← b.toNat?))
    | _ => none

def showDV : DV → String
  | .nilPtr => "nil"
  | .noVariant => "nov"
  | .v t p => s!"{t}.{p}"

def parseAttrs (s : String) : Option (List (Nat × DV)) :=
  if s = "-" then some [] else
  (s.splitOn ",").mapM fun kv =>
    match kv.splitOn "=" with
    | [k, d] => do pure ((← k.toNat?), (← parseDV d))
    | _ => none

def parseNode (s : String) : Option (Nat × Nat × Node) :=
  match s.splitOn ":" with
  | [ns, key, val, ats] => do
    pure ((← ns.toNat?), (← key.toNat?), { attrs := (← parseAttrs ats), val := (← parseDV val) })
  | _ => none

def parseOp (s : String) : Option Op :=
  match s.splitOn ":" with
  | ["r", ns, key, a] => do pure (.read (← ns.toNat?) (← key.toNat?) (← a.toNat?))
  | ["w", ns, key, a, d] => do pure (.write (← ns.toNat?) (← key.toNat?) (← a.toNat?) (← parseDV d))
  -- a 6th field says which extra DataValue fields (status code, source timestamp) the request
  -- carries; the code, and so the model, does not look at them
  | ["w", ns, key, a, d, _] => do pure (.write (← ns.toNat?) (← key.toNat?) (← a.toNat?) (← parseDV d))
  | _ => none

def showSt : St → String
  | .ok => "ok" | .bad => "bad" | .badNodeIDUnknown => "unk"
  | .badUserAccessDenied => "den" | .badAttributeIDInvalid => "inv"

def showRes : Res → String
  | .status s => showSt s
  | .value d => "val:" ++ showDV d
  | .panic => "panic"

def mkServer (nsCount : Nat) (nodes : List (Nat × Nat × Node)) : Server :=
  fun i => if i < nsCount then
      some (fun k => (nodes.find? (fun x => x.1 = i ∧ x.2.1 = k)).map (·.2.2))
    else none

def showFinal (sv : Server) (x : Nat × Nat × Node) : String :=
  match sv.node x.1 x.2.1 with
  | none => "gone"
  | some n => s!"{showDV n.val};{showDV (n.get aAccessLevel)};{showDV (n.get aUserAccessLevel)};{showDV (n.get aNodeClass)}"

def showAcc : Acc → String
  | .allow => "allow" | .deny => "deny" | .panic => "panic"

def handle : List String → String
  | "h" :: nsc :: cnt :: rest =>
    match nsc.toNat?, cnt.toNat? with
    | some nsCount, some n =>
      match (rest.take n).mapM parseNode, (rest.drop n).mapM parseOp with
      | some nodes, some ops =>
        if nodes.length ≠ n then "bad-op" else
        let (res, sv') := run (mkServer nsCount nodes) ops
        " ".intercalate (res.map showRes ++ ["|"] ++ nodes.map (showFinal sv'))
      | _, _ => "bad-op"
    | _, _ => "bad-op"
  | ["acc", u, a, f] =>
    match parseDV u, parseDV a, f.toNat? with
    | some du, some da, some flag =>
      let n : Node := { attrs := [(aUserAccessLevel, du), (aAccessLevel, da)], val := .nilPtr }
      s!"{showAcc (access n flag)} lacks={if lacks n flag then 1 else 0}"
    | _, _, _ => "bad-op"
  | _ => "bad-op"

def main : IO Unit := runDriver handle
