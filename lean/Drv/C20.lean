import OpcuaModel.Base.Loop
import OpcuaModel.Model.Own
import OpcuaModel.Gen.RecvAlias
/-
  Driver for C20:
    own <op>…   op = <s|n><f|c>:<req>   (secured|not, final|intermediate chunk, request id)
      → frozen|VIOLATED, then the buffer identity of every delivered message in order: d=<id>,<id>,…
-/
open Opcua Opcua.Own

def parseOp (s : String) : Option Op :=
  match s.splitOn ":" with
  | [k, r] =>
    match k.toList, r.toNat? with
    | [a, b], some req =>
      if (a == 's' || a == 'n') && (b == 'f' || b == 'c') then some ⟨a == 's', b == 'f', req⟩ else none
    | _, _ => none
  | _ => none

def parseOps : List String → Option (List Op)
  | [] => some []
  | s :: r => do
    let o ← parseOp s
    let t ← parseOps r
    pure (o :: t)

def handle : List String → String
  | "own" :: r =>
    match parseOps r with
    | some ops =>
      let st := run Gen.RecvAlias.facts {} ops
      let fr := if decide (Frozen st.trace) then "frozen" else "VIOLATED"
      fr ++ " d=" ++ ",".intercalate ((delivered st.trace).reverse.map toString)
    | none => "bad-op"
  | _ => "bad-op"

def main : IO Unit := runDriver handle
