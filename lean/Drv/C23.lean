import OpcuaModel.Base.Loop
import OpcuaModel.Model.CfgAliasFacts
/-
  Driver for C23.
    run ((c | cx) | w <path> <valueHex> | r <path> (u<N> | v<N> | fresh))*
  `c` starts the next client (`cx`: its construction fails after the options ran — not reported); `w` = an option assigns the selector path (components joined by '.'),
  `r` = an option replaces the pointer at the path by a caller-supplied object u<N>, an object of the Option value v<N>, or a fresh one.
  Answer: every (client, path) whose effective value at the end of the program differs from the
  pristine default, and every cell of a package-level object that differs from its pristine
  content, as `<k>:<path>=<valueHex>` / `<global>:<path>=<valueHex>`, sorted; `-` if none.
-/
open Opcua Opcua.CfgAlias

def parsePath (s : String) : Path := s.splitOn "."
def showPath (p : Path) : String := ".".intercalate p

def hexStr (s : String) : String := toHex s.toUTF8.toList
def unhexStr (s : String) : Option String := (fromHex s).bind fun b => String.fromUTF8? (ByteArray.mk b.toArray)

/-- tokens → clients (in order); the flag says "construction failed: not reported" -/
def parseProg : List String → List (Bool × List Step) → Bool × List Step → Option (List (Bool × List Step))
  | [], acc, cur => some (acc ++ [cur])
  | "c" :: rest, acc, cur => parseProg rest (acc ++ [cur]) (false, [])
  | "cx" :: rest, acc, cur => parseProg rest (acc ++ [cur]) (true, [])
  | "w" :: p :: v :: rest, acc, cur =>
    match unhexStr v with
    | some s => parseProg rest acc (cur.1, cur.2 ++ [.write (parsePath p) s])
    | none => none
  | "r" :: p :: t :: rest, acc, cur =>
    if t = "fresh" then parseProg rest acc (cur.1, cur.2 ++ [.redirect (parsePath p) .fresh])
    else match (t.drop 1).toNat? with
      | some n =>
        let tgt := if t.startsWith "v" then Target.value n else Target.user n
        parseProg rest acc (cur.1, cur.2 ++ [.redirect (parsePath p) tgt])
      | none => none
  | _, _, _ => none

def writtenPaths : List Step → List Path
  | [] => []
  | .write p _ :: r => p :: writtenPaths r
  | .redirect _ _ :: r => writtenPaths r

def dedup (l : List String) : List String := l.foldl (fun acc x => if acc.contains x then acc else acc ++ [x]) []

def report (flagged : List (Bool × List Step)) : String :=
  let prog := flagged.map (·.2)
  let h := runClients facts 0 emptyHeap prog
  let perClient := ((List.range prog.length).filter fun k => !(flagged.getD k (true, [])).1).flatMap fun k =>
    let steps := prog.getD k []
    let paths := Gen.Config.defaults.map (·.1) ++ writtenPaths steps
    paths.filterMap fun p =>
      let v := effective facts pristine h k steps p
      let d := (Gen.Config.defaults.lookup p).getD "<absent>"
      if v = d ∨ v = "<absent>" then none else some s!"{k}:{showPath p}={hexStr v}"
  let globals := Gen.Config.shared.flatMap fun (q, g) =>
    (Gen.Config.defaults.filter fun e => strictPrefix q e.1).filterMap fun (p, d) =>
      let c : Cell := (.glob g, p.drop q.length)
      let v := (h c).getD (pristine c)
      if v = d then none else some s!"{g}:{showPath (p.drop q.length)}={hexStr v}"
  let all := (dedup (perClient ++ globals)).mergeSort (fun a b => decide (a ≤ b))
  if all.isEmpty then "-" else " ".intercalate all

def handle : List String → String
  | "run" :: "c" :: toks =>
    match parseProg toks [] (false, []) with
    | some prog => report prog
    | none => "bad-op"
  | "run" :: "cx" :: toks =>
    match parseProg toks [] (true, []) with
    | some prog => report prog
    | none => "bad-op"
  | ["run"] => "-"
  | _ => "bad-op"

def main : IO Unit := runDriver handle
