import OpcuaModel.Base.Loop
import OpcuaModel.Model.SrvWire
import OpcuaModel.Model.SrvRobust
import OpcuaModel.Model.SrvNotify
/-
  Driver for C29 (state / request / outcome formats: Model/SrvWire.lean).
    step <state> | <tok> | <req…>            → <out> | <state'>
    sig29 <state> | <tok> | <req…>           → C29.<signature>
    safe <state> | <tok> | <req…>            → 0 | 1
    browsecls <refTypeId> <inc 0|1> <other 0|1> → plain | loop
    interval <int64 of time.Duration(ms)>    → subms | small | huge
    revise <ms>                              → revised publishing interval in ms
    rawframe <declared size>                 → <out>     (a raw frame after HEL/ACK)
    signedchunk <chunkLen> <sigLen>          → <out>
    notify <drained> <w>                     → served | blocked   (write number w of a node monitored by a subscription
                                                whose goroutine stalled after receiving <drained> notifications)
    notifyafterclose <drained> <w>           → served | blocked   (another client's request after w writes and the close of
                                                the stalled connection)
    hang <cap> <respBytes> <n>               → served | blocked     (a reading client's request after n
                                                responses of respBytes owed to a client that does not read)
-/
open Opcua Opcua.Srv

def withCase (toks : List String) (f : St → Tok → Req → String) : String :=
  let (st, rest) := splitBar toks
  let (tk, rq) := splitBar rest
  match parseState st, tk, parseReq rq with
  | some s, [t], some r =>
    match t.toNat? with
    | some tok => f s tok r
    | none => "bad-op"
  | _, _, _ => "bad-op"

def handle : List String → String
  | "step" :: rest => handleStep rest
  | "sig29" :: rest => withCase rest sig29
  | "safe" :: rest => withCase rest fun s t r => b01 (safe s t r)
  | ["browsecls", rt, inc, other] =>
    match rt.toNat?, parseBool inc, parseBool other with
    | some r, some i, some o => (match browseClsOf r i o with | .plain => "plain" | .loopPanics => "loop")
    | _, _, _ => "bad-op"
  | ["interval", d] =>
    match d.toInt? with
    | some k => (match intervalOf k with | .subMs => "subms" | .small => "small" | .huge => "huge")
    | none => "bad-op"
  | ["revise", ms] =>
    match ms.toInt? with
    | some k => toString (reviseMs k)
    | none => "bad-op"
  | ["notify", drained, writes] =>
    -- a subscription whose goroutine received `drained` notifications and then stalled: is write number
    -- `writes` of the monitored node (counted from 1) answered?
    match drained.toNat?, writes.toNat? with
    | some d, some w =>
      let evs := List.replicate d Opcua.Notify.Ev.write ++ List.replicate d Opcua.Notify.Ev.drain ++ [Opcua.Notify.Ev.stall] ++
        List.replicate (w - d) Opcua.Notify.Ev.write
      match (Opcua.Notify.runN {} evs).2.getLast? with
      | some true => "served"
      | _ => "blocked"
    | _, _ => "bad-op"
  | ["notifyafterclose", drained, writes] =>
    match drained.toNat?, writes.toNat? with
    | some d, some w =>
      let evs := List.replicate d Opcua.Notify.Ev.write ++ List.replicate d Opcua.Notify.Ev.drain ++ [Opcua.Notify.Ev.stall] ++
        List.replicate (w - d) Opcua.Notify.Ev.write ++ [Opcua.Notify.Ev.connClosed, Opcua.Notify.Ev.request]
      match (Opcua.Notify.runN {} evs).2.getLast? with
      | some true => "served"
      | _ => "blocked"
    | _, _ => "bad-op"
  | ["rawframe", n] =>
    match n.toNat? with
    | some k => showOut (rawFrameOutcome k)
    | none => "bad-op"
  | ["signedchunk", l, s] =>
    match l.toNat?, s.toNat? with
    | some a, some b => showOut (signedChunkOutcome a b)
    | _, _ => "bad-op"
  | ["hang", cap, resp, n] =>
    match cap.toNat?, resp.toNat?, n.toNat? with
    | some c, some r, some k =>
      match (dispatch c 0 (List.replicate k ⟨true, r⟩ ++ [⟨false, 1⟩])).getLast? with
      | some true => "served"
      | _ => "blocked"
    | _, _, _ => "bad-op"
  | _ => "bad-op"

def main : IO Unit := runDriver handle
