import OpcuaModel.Base.Loop
import OpcuaModel.Model.SrvWire
/-
  Driver for C35 (formats: Model/SrvWire.lean).
    step <state> | <tok> | <req…>      → <out> | <state'>
    class35 <state> | <tok> | <req…>   → C35.<signature>
-/
open Opcua Opcua.Srv

def handle : List String → String
  | "step" :: rest => handleStep rest
  | "class35" :: rest => handleClass35 rest
  | _ => "bad-op"

def main : IO Unit := runDriver handle
