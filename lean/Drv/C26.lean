import OpcuaModel.Base.Loop
import OpcuaModel.Model.Subs
import OpcuaModel.Model.Republish
/-
  Driver for C26.
    acks <pending> <results>                         → <pending'>
    notif <known> <last> <next> <pending> <sub> <seq> <ndata>  → <last'> <next'> <pending'>
    rounds <subs> <pending> <event>…                 → <acks of request 1>/<acks of request 2>/…/<final pending> ; <subs'>
    reconnect <registry> <errkind> <step>…           → <action> <connected> <activeSubs> <loop> <registry'> | invalid
    republish <avail> <queue> <nextSeq>              → delivered=<seqs> requested=<seqs> next=<n> outcome=<…> ok=<0|1> acks=<seqs queued for acknowledgement>
                                                       (server answering from its retransmission queue)
  lists are comma separated, `-` is the empty list; an ack is `sub:seq`, results are
  letters o (Good) i (BadSubscriptionIDInvalid) u (BadSequenceNumberUnknown) x (other);
  a subscription is `id:last:next`, a registry entry `id:items`;
  events: `E` | `R:<results>:<sub>:<seq>:<ndata>`;
  steps: `D` | `R<nil><act><ns>` | `S<create><act><ns>` | `T:<ids>:<u|f|r<bits>>` |
         `P:<bits>:<recreate,…>` with recreate = `f` | `c<id>o` | `c<id>x`.
-/
open Opcua Opcua.Subs

def listOf (s : String) : List String := if s = "-" then [] else s.splitOn ","

def parseAck (s : String) : Option Ack :=
  match s.splitOn ":" with
  | [a, b] => do pure ⟨← a.toNat?, ← b.toNat?⟩
  | _ => none

def parseAcks (s : String) : Option (List Ack) := (listOf s).mapM parseAck

def showAcks (l : List Ack) : String :=
  if l.isEmpty then "-" else ",".intercalate (l.map fun a => s!"{a.sub}:{a.seq}")

def parseRes (s : String) : Option (List AckRes) :=
  if s = "-" then some [] else
  s.toList.mapM fun c => match c with
    | 'o' => some .ok | 'i' => some .subInvalid | 'u' => some .seqUnknown | 'x' => some .other
    | _ => none

def parseSub (s : String) : Option SubSeq :=
  match s.splitOn ":" with
  | [a, b, c] => do pure ⟨← a.toNat?, ← b.toNat?, ← c.toNat?⟩
  | _ => none

def showSubs (l : List SubSeq) : String :=
  if l.isEmpty then "-" else ",".intercalate (l.map fun s => s!"{s.id}:{s.lastSeq}:{s.nextSeq}")

def parseEvent (s : String) : Option PubEvent :=
  if s = "E" then some .err else
  match s.splitOn ":" with
  | ["R", res, sub, seq, nd] => do
    pure (.resp ⟨← parseRes res, ← sub.toNat?, ← seq.toNat?, ← nd.toNat?⟩)
  | _ => none

def parseReg (s : String) : Option (List CSub) :=
  (listOf s).mapM fun e => match e.splitOn ":" with
    | [a, b] => do pure ⟨← a.toNat?, ← b.toNat?⟩
    | _ => none

def showReg (l : List CSub) : String :=
  if l.isEmpty then "-" else ",".intercalate (l.map fun s => s!"{s.id}:{s.items}")

def parseErr : String → Option ErrKind
  | "eof" => some .eof | "refused" => some .connRefused | "chan" => some .badSecureChannelID
  | "sess" => some .badSessionID | "sub" => some .badSubscriptionID | "cert" => some .badCertificate
  | "other" => some .other | _ => none

def bit (c : Char) : Option Bool := if c = '1' then some true else if c = '0' then some false else none

def parseBits (s : String) : Option (List Bool) := if s = "-" then some [] else s.toList.mapM bit

def parseNats (s : String) : Option (List Nat) := (listOf s).mapM (·.toNat?)

def parseRecreate (s : String) : Option Recreate :=
  if s = "f" then some .createFail else
  match s.toList with
  | 'c' :: rest =>
    match rest.reverse with
    | 'o' :: d => (String.ofList d.reverse).toNat?.map fun n => .created n true
    | 'x' :: d => (String.ofList d.reverse).toNat?.map fun n => .created n false
    | _ => none
  | _ => none

def parseStep (s : String) : Option Out :=
  if s = "D" then some .dialed else
  match s.toList with
  | ['R', a, b, c] => do pure (.restoreRes (← bit a) (← bit b) (← bit c))
  | ['S', a, b, c] => do pure (.recreateRes (← bit a) (← bit b) (← bit c))
  | _ =>
    match s.splitOn ":" with
    | ["T", ids, r] => do
      let ids ← parseNats ids
      let tr ← (if r = "u" then some Transfer.unsupported else if r = "f" then some Transfer.failed else
        match r.toList with
        | 'r' :: bits => (bits.mapM bit).map Transfer.results
        | _ => none)
      pure (.transferRes ids tr)
    | ["P", bits, recs] => do
      pure (.restoreSubsRes (← parseBits bits) (← (listOf recs).mapM parseRecreate))
    | _ => none

def showLoop : Loop → String
  | .paused => "paused" | .running => "running"

def handle : List String → String
  | ["acks", p, r] =>
    match parseAcks p, parseRes r with
    | some p, some r => showAcks (handleAcks p r)
    | _, _ => "bad-op"
  | ["notif", known, last, next, p, sub, seq, nd] =>
    match known.toNat?, last.toNat?, next.toNat?, parseAcks p, sub.toNat?, seq.toNat?, nd.toNat? with
    | some k, some l, some n, some p, some sub, some seq, some nd =>
      let s : SubSeq := ⟨sub, l, n⟩
      if k = 0 then s!"{l} {n} {showAcks p}" else
      let c := handleNotification ⟨p, [s]⟩ s ⟨[], sub, seq, nd⟩
      match findSub c.subs sub with
      | some s' => s!"{s'.lastSeq} {s'.nextSeq} {showAcks c.pending}"
      | none => "bad-op"
    | _, _, _, _, _, _, _ => "bad-op"
  | "rounds" :: subs :: p :: evs =>
    match (listOf subs).mapM parseSub, parseAcks p, evs.mapM parseEvent with
    | some subs, some p, some evs =>
      let c : Client := ⟨p, subs⟩
      let c' := runEvents c evs
      "/".intercalate ((requests c evs).map showAcks ++ [showAcks c'.pending]) ++ " ; " ++ showSubs c'.subs
    | _, _, _ => "bad-op"
  | "reconnect" :: reg :: ek :: steps =>
    match parseReg reg, parseErr ek, steps.mapM parseStep with
    | some reg, some ek, some steps =>
      match run (onError reg ek) steps with
      | some m =>
        let m := finish m
        s!"{m.action.code} {if m.connected then 1 else 0} {m.activeSubs} {showLoop m.loop} {showReg m.subs}"
      | none => "invalid"
    | _, _, _ => "bad-op"
  | ["republish", avail, queue, next] =>
    match parseNats avail, parseNats queue, next.toNat? with
    | some av, some q, some n =>
      let r := Opcua.Rep.republish av (Opcua.Rep.honest q) (q.length + 5) n
      let sh := fun (l : List Nat) => if l.isEmpty then "-" else ",".intercalate (l.map toString)
      let oc := match r.outcome with
        | .done => "done" | .failSession => "failSession" | .failSub => "failSub"
        | .failOther => "failOther" | .running => "running"
      -- acks: what the loop queues in pendingAcks for a registered subscription with nothing pending
      let c' := Opcua.Rep.intoClient ⟨[], [⟨1, 0, n⟩]⟩ 1 r
      let acks := (requestAcks c').map (·.seq)
      s!"delivered={sh r.delivered} requested={sh r.requested} next={r.nextSeq} outcome={oc} ok={if Opcua.Rep.republishOk r.outcome then 1 else 0} acks={sh acks}"
    | _, _, _ => "bad-op"
  | _ => "bad-op"

def main : IO Unit := runDriver handle
