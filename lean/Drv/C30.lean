import OpcuaModel.Base.Loop
import OpcuaModel.Model.SrvSec
/-
  Driver for C30.
    enable <p:m> …                              → <p:m> … | -        (EnableSecurity calls in order → cfg.enabledSec)
    endp <n> <url>×n <p:m> …                    → <url>|<p>|<m> … | -   (initEndpoints)
    getep <requrl> <n> <url>×n <p:m> …          → <url>|<p>|<m> … | -   (GetEndpoints)
    opn <policy> <cert> <body> <ver> <tok> <mode> <p:m> … → accept <policy> <mode> | reject
          cert ∈ absent|unparsable|nonrsa|badsize|good, body ∈ plain|secured|garbage,
          the trailing pairs are the server's enabled set (which the code ignores)
    renew <p1> <m1> <p2> <m2> <p:m> …           → accept <policy> <mode> | reject   (second OPN of a conforming client)
    classrenew <policy> <mode> <p:m> …          → enabled | C30.renew-switches-security
    class <policy> <mode> <p:m> …               → enabled | C30.<signature>
  Policy names may carry the URI prefix; `-` is the empty string.
-/
open Opcua Opcua.SrvSec

def unDash (s : String) : String := if s = "-" then "" else s

def parsePair (t : String) : Option (String × Nat) :=
  let parts := t.splitOn ":"
  match parts.getLast?, parts.length with
  | some m, n + 2 => m.toNat?.map fun k => (normalize (unDash (":".intercalate (parts.take (n + 1)))), k)
  | _, _ => none

def parsePairs (ts : List String) : Option (List (String × Nat)) := ts.mapM parsePair

def showSecs (l : List Sec) : String :=
  if l.isEmpty then "-" else " ".intercalate (l.map fun s => s!"{s.policy}:{s.mode}")

def showEps (l : List Endpoint) : String :=
  if l.isEmpty then "-" else " ".intercalate (l.map fun e => s!"{e.url}|{e.sec.policy}|{e.sec.mode}")

def parseCert : String → Option Cert
  | "absent" => some .absent | "unparsable" => some .unparsable | "nonrsa" => some .nonRsa
  | "badsize" => some .rsaBadSize | "good" => some .good | _ => none

def parseBody : String → Option Body
  | "plain" => some .plain | "secured" => some .secured | "garbage" => some .garbage | _ => none

def secsOf (ps : List (String × Nat)) : List Sec := ps.map fun p => ⟨p.1, p.2⟩

def handle : List String → String
  | "enable" :: rest =>
    match parsePairs rest with
    | some calls => showSecs (enabledOf calls)
    | none => "bad-op"
  | "endp" :: n :: rest =>
    match n.toNat? with
    | some k =>
      match parsePairs (rest.drop k) with
      | some ps => showEps (initEndpoints ⟨secsOf ps, rest.take k⟩)
      | none => "bad-op"
    | none => "bad-op"
  | "getep" :: u :: n :: rest =>
    match n.toNat? with
    | some k =>
      match parsePairs (rest.drop k) with
      | some ps => showEps (getEndpoints ⟨secsOf ps, rest.take k⟩ (unDash u))
      | none => "bad-op"
    | none => "bad-op"
  | "opn" :: p :: c :: b :: v :: t :: m :: rest =>
    match parseCert c, parseBody b, v.toNat?, t.toNat?, m.toNat?, parsePairs rest with
    | some cert, some body, some ver, some tok, some mode, some ps =>
      match serverOpn ⟨secsOf ps, []⟩ { policy := normalize (unDash p), cert := cert, body := body, protoVer := ver, authTok := tok, mode := mode } with
      | .accept s => s!"accept {s.policy} {s.mode}"
      | .reject => "reject"
    | _, _, _, _, _, _ => "bad-op"
  | "renew" :: p1 :: m1 :: p2 :: m2 :: rest =>
    -- a conforming client opens with (p1, m1) and then renews with (p2, m2): outcome of the renewal
    match m1.toNat?, m2.toNat?, parsePairs rest with
    | some a, some b, some ps =>
      let mk (p : String) (m : Nat) : Opn :=
        let q := normalize (unDash p)
        if q == policyNone then { policy := q, cert := .absent, body := .plain, mode := m }
        else { policy := q, cert := .good, body := .secured, mode := m }
      match opnSeq ⟨secsOf ps, []⟩ (some freshChan) [mk p1 a, mk p2 b] with
      | [_, .accept s] => s!"accept {s.policy} {s.mode}"
      | [_, .reject] => "reject"
      | _ => "bad-op"
    | _, _, _ => "bad-op"
  | "classrenew" :: p :: m :: rest =>
    match m.toNat?, parsePairs rest with
    | some mode, some ps => classifyRenew ⟨secsOf ps, []⟩ ⟨normalize (unDash p), mode⟩
    | _, _ => "bad-op"
  | "class" :: p :: m :: rest =>
    match m.toNat?, parsePairs rest with
    | some mode, some ps => classify ⟨secsOf ps, []⟩ ⟨normalize (unDash p), mode⟩
    | _, _ => "bad-op"
  | _ => "bad-op"

def main : IO Unit := runDriver handle
