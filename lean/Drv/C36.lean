import OpcuaModel.Base.Loop
import OpcuaModel.Model.LocksetTable
import OpcuaModel.Gen.RaceFacts
/-
  Driver for C36 (lockset table of the current source).
    count                              → <number of sites> <number of fields>
    verdict <field>                    → sync | atomic | readonly | protected <mutex> | foreign <mutex> | candidate
    at <file> <line>                   → <id>:<field>:<kind>;…   (sites at that source line)  | none
    classify <fileA> <lineA> <fileB> <lineB>
                                       → <field>=<verdict words joined by _>;…  for every field with a site at
                                         both positions | outside
    pairs <field>                      → number of site pairs of the field that share no mutex (one a write)
-/
open Opcua Opcua.Lockset Opcua.Gen.RaceFacts

def sitesAt (file : String) (line : Nat) : List Site :=
  sites.filter (fun s => s.file == file && s.line == line)

def dedup (xs : List String) : List String :=
  xs.foldl (fun acc x => if acc.contains x then acc else acc ++ [x]) []

def verdictWord (f : String) : String :=
  ((verdict sites lockOwners f).text.splitOn " ").foldl (fun a b => if a == "" then b else a ++ "_" ++ b) ""

def handle : List String → String
  | ["count"] => s!"{sites.length} {fields.length}"
  | ["verdict", f] => (verdict sites lockOwners f).text
  | ["at", file, line] =>
    match line.toNat? with
    | some n =>
      let xs := (sitesAt file n).map (fun s => s!"{s.id}:{s.field}:{s.kind}")
      if xs.isEmpty then "none" else ";".intercalate xs
    | none => "bad-op"
  | ["classify", fa, la, fb, lb] =>
    match la.toNat?, lb.toNat? with
    | some a, some b =>
      let A := dedup ((sitesAt fa a).map (·.field))
      let B := dedup ((sitesAt fb b).map (·.field))
      let common := A.filter (fun f => B.contains f)
      if common.isEmpty then "outside"
      else ";".intercalate (common.map (fun f => s!"{f}={verdictWord f}"))
    | _, _ => "bad-op"
  | ["pairs", f] => toString (candidatePairs sites f).length
  | _ => "bad-op"

def main : IO Unit := runDriver handle
