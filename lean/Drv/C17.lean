import OpcuaModel.Base.Loop
import OpcuaModel.Model.Tokens
/-
  Driver for C17:
    tokensnone <ev> …  the same on a mode-None channel (c:<chan>:<token id carried by the chunk>)
    tokens <ev> …   ev = o:<chan>:<tok>:<key> | e:<chan>:<tok>:<key> | c:<chan>:<key>
      → one verdict per chunk event (acc | noinstance | security), then
        tab=<chan>:<tok>,<tok>;…  (entries sorted by key, empty entries omitted)
-/
open Opcua Opcua.Tokens

def parseEv (s : String) : Option Ev :=
  match s.splitOn ":" with
  | ["o", c, t, k] => do pure (.opn ⟨← c.toNat?, ← t.toNat?, ← k.toNat?⟩)
  | ["e", c, t, k] => do pure (.expire ⟨← c.toNat?, ← t.toNat?, ← k.toNat?⟩)
  | ["c", c, k] => do pure (.chunk (← c.toNat?) (← k.toNat?))
  | _ => none

def parseEvs : List String → Option (List Ev)
  | [] => some []
  | s :: r => do
    let e ← parseEv s
    let t ← parseEvs r
    pure (e :: t)

def insertSorted (e : Nat × List Inst) : List (Nat × List Inst) → List (Nat × List Inst)
  | [] => [e]
  | x :: r => if e.1 ≤ x.1 then e :: x :: r else x :: insertSorted e r

def tableText (t : Table) : String :=
  let es := (t.filter fun e => !e.2.isEmpty).foldr insertSorted []
  "tab=" ++ ";".intercalate (es.map fun e => s!"{e.1}:" ++ ",".intercalate (e.2.map fun i => toString i.tok))

def handle : List String → String
  | "tokens" :: r =>
    match parseEvs r with
    | some evs =>
      let vs := (verdicts [] evs).map fun
        | .accepted _ => "acc"
        | .noInstance => "noinstance"
        | .securityFailed => "security"
      " ".intercalate (vs ++ [tableText (runEvs [] evs)])
    | none => "bad-op"
  | "tokensnone" :: r =>
    match parseEvs r with
    | some evs =>
      let vs := (verdictsNone [] evs).map fun
        | .accepted _ => "acc"
        | .noInstance => "noinstance"
        | .securityFailed => "security"
      " ".intercalate (vs ++ [tableText (runEvs [] evs)])
    | none => "bad-op"
  | _ => "bad-op"

def main : IO Unit := runDriver handle
