import OpcuaModel.Model.CodecDrv
/-
  Driver for C01: the codec line protocol (see OpcuaModel/Model/CodecDrv.lean).
-/
def main : IO Unit := Opcua.runDriver Opcua.CodecDrv.handle
