import OpcuaModel.Base.Loop
import OpcuaModel.Model.Interop
/-
  Driver for C37.
    table                                      → <n> <row>;<row>;…   (rows `pol,mode,cbits,sbits,auth,extra`, sorted)
    connect <pol> <mode> <cbits> <sbits> <auth> <extraPol|-> → ok | fail:<stage>
    opnlen  <pol> <mode> <cbits> <sbits>        → <reqChunkLen> <reqSizeField> <respChunkLen> <respSizeField>
    pwlen   <pol> <sbits> <passwordBytes>       → <cipherLen> | none
-/
open Opcua Opcua.Interop

def authOf : String → Option Auth
  | "anonymous" => some .anonymous
  | "username" => some .username
  | _ => none

def handle : List String → String
  | ["table"] =>
    let rows := (configTable.map Config.show).mergeSort (fun a b => decide (a ≤ b))
    s!"{rows.length} {";".intercalate rows}"
  | ["connect", p, m, cb, sb, a, x] =>
    let extra : Option (Option Nat) := if x = "-" then some none else (polIndex x).map some
    match polIndex p, m.toNat?, cb.toNat?, sb.toNat?, authOf a, extra with
    | some i, some mode, some c, some s, some auth, some ex => (connect ⟨i, mode, c, s, auth, ex⟩).name
    | none, _, _, _, _, _ => Stage.unsupportedPolicy.name
    | _, _, _, _, _, _ => "bad-op"
  | ["opnlen", p, m, cb, sb] =>
    match polIndex p, m.toNat?, cb.toNat?, sb.toNat? with
    | some i, some mode, some c, some s =>
      let cfg : Config := ⟨i, mode, c, s, .anonymous, none⟩
      match opnRequest cfg, opnResponse cfg with
      | some q, some r => s!"{q.chunkLen} {q.sizeField} {r.chunkLen} {r.sizeField}"
      | _, _ => "none"
    | _, _, _, _ => "bad-op"
  | ["pwlen", p, sb, n] =>
    match polIndex p, sb.toNat?, n.toNat? with
    | some i, some s, some k =>
      match passwordCipherLen i s k with
      | some l => toString l
      | none => "none"
    | _, _, _ => "bad-op"
  | _ => "bad-op"

def main : IO Unit := runDriver handle
