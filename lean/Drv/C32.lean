import OpcuaModel.Base.Loop
import OpcuaModel.Model.SrvIds
/-
  Driver for C32.
    run <itemCtr> <subCtr> <op>*  →  <out>* | subs=<id>@<owner>,… items=<id>@<subId>@<owner>@<mode>,… pend=<id>,… ctr=<n> sctr=<n>
      op  = cs:<sess> | ds:<sess>:<ids> | ap:<k> | ci:<sess>:<sub>:<n> | sm:<sess>:<mode>:<ids> | di:<sess>:<ids>
      ids = comma separated, `-` when empty
      out = id=<n> | st=<ok|sub|ses|itm>,… | ids=<n>,… | nosub | notyours | nosession | panic | hit | miss | nopending
    (lists in the final state are sorted by id; `-` when empty)
-/
open Opcua Opcua.SrvIds

def parseIds (s : String) : Option (List Nat) :=
  if s = "-" then some [] else (s.splitOn ",").mapM (·.toNat?)

def parseOp (s : String) : Option Op :=
  match s.splitOn ":" with
  | ["cs", a] => do pure (.createSub (← a.toNat?))
  | ["ds", a, ids] => do pure (.deleteSubs (← a.toNat?) (← parseIds ids))
  | ["ap", k] => do pure (.apply (← k.toNat?))
  | ["ci", a, b, n] => do pure (.createItems (← a.toNat?) (← b.toNat?) (← n.toNat?))
  | ["sm", a, m, ids] => do pure (.setMode (← a.toNat?) (← m.toNat?) (← parseIds ids))
  | ["di", a, ids] => do pure (.deleteItems (← a.toNat?) (← parseIds ids))
  | _ => none

def commaList (l : List String) : String := if l.isEmpty then "-" else ",".intercalate l

def showStatus : Status → String
  | .ok => "ok" | .badSubscriptionIdInvalid => "sub" | .badSessionIdInvalid => "ses" | .badMonitoredItemIdInvalid => "itm"

def showOut : Out → String
  | .subId n => s!"id={n}"
  | .statuses l => "st=" ++ commaList (l.map showStatus)
  | .itemIds l => "ids=" ++ commaList (l.map toString)
  | .errNoSub => "nosub"
  | .errNotYours => "notyours"
  | .panic => "panic"
  | .errNoSession => "nosession"
  | .applied true => "hit"
  | .applied false => "miss"
  | .noSuchPending => "nopending"

def insertSorted (key : α → Nat) (x : α) : List α → List α
  | [] => [x]
  | y :: r => if key x ≤ key y then x :: y :: r else y :: insertSorted key x r

def sortBy (key : α → Nat) (l : List α) : List α := l.foldr (insertSorted key) []

def showState (st : St) : String :=
  let subs := (sortBy (·.1) st.subs).map fun e => s!"{e.1}@{e.2.owner}"
  let items := (sortBy (·.id) st.items).map fun it => s!"{it.id}@{it.sub.id}@{it.sub.owner}@{it.mode}"
  let pend := (sortBy id st.pending).map toString
  s!"subs={commaList subs} items={commaList items} pend={commaList pend} ctr={st.itemCtr} sctr={st.subCtr}"

def handle : List String → String
  | "run" :: ctr :: sctr :: ops =>
    match ctr.toNat?, sctr.toNat?, ops.mapM parseOp with
    | some c, some sc, some l =>
      let (outs, st) := run (St.init c sc) l
      " ".intercalate (outs.map showOut ++ ["|", showState st])
    | _, _, _ => "bad-op"
  | _ => "bad-op"

def main : IO Unit := runDriver handle
