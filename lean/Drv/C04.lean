import OpcuaModel.Base.Loop
import OpcuaModel.Model.NodeIdParse
/-
  Driver for C04.  A NodeID is five tokens: <mask> <ns> <nid> <bidHex> <gidHex|nil>.
    str   <node>                      → <hex of String()> | panic
    eq    <node> <node>               → true | false | panic
    reg   <node> <node>               → hit | miss | panic   (TypeRegistry: registered under the first, New(second))
    parse <textHex>                   → err | ok <node>                       (ua.ParseNodeID)
    parsex <textHex> nil              → err | ok <node> <nsuHex> <serverIndex> (ua.ParseExpandedNodeID, nil table)
    parsex <textHex> tbl <uriHex>*    → …                                      (with a namespace table)
    b64d  <textHex>                   → err | ok <hex>                        (base64.StdEncoding.DecodeString)
    b64e  <hex>                       → <hex>
    guid  <textHex>                   → nil | ok <hex of the 16 bytes>        (ua.NewGUID)
-/
open Opcua Opcua.NodeIdText

def toText (b : Bytes) : Text := b.map (·.toNat)
def ofText (t : Text) : Bytes := t.map UInt8.ofNat
def hexT (t : Text) : String := toHex (ofText t)
def unhexT (s : String) : Option Text := (fromHex s).map toText

def parseNode : List String → Option NodeID
  | [m, ns, nid, bid, gid] => do
      let mask ← m.toNat?
      let n ← ns.toNat?
      let i ← nid.toNat?
      let b ← unhexT bid
      let g ← if gid = "nil" then some none else (unhexT gid).map some
      pure ⟨mask, n, i, b, g⟩
  | _ => none

def showNode (n : NodeID) : String :=
  let g := match n.gid with
    | none => "nil"
    | some g => hexT g
  s!"{n.mask} {n.ns} {n.nid} {hexT n.bid} {g}"

def showExp : Option Expanded → String
  | none => "err"
  | some e => s!"ok {showNode e.node} {hexT e.nsu} {e.serverIndex}"

def unhexAll : List String → Option (List Text)
  | [] => some []
  | s :: r => do
      let a ← unhexT s
      let t ← unhexAll r
      pure (a :: t)

def handle : List String → String
  | "str" :: node =>
    match parseNode node with
    | some n => match toString n with
      | some t => hexT t
      | none => "panic"
    | none => "bad-op"
  | "eq" :: a1 :: a2 :: a3 :: a4 :: a5 :: b =>
    match parseNode [a1, a2, a3, a4, a5], parseNode b with
    | some x, some y =>
      match toString x, toString y with
      | some _, some _ => if equal x y then "true" else "false"
      | _, _ => "panic"
    | _, _ => "bad-op"
  | "reg" :: a1 :: a2 :: a3 :: a4 :: a5 :: b =>
    -- a registry keyed by the string form (typereg.go) holding one entry registered under a
    match parseNode [a1, a2, a3, a4, a5], parseNode b with
    | some x, some y =>
      match toString x, toString y with
      | some _, some _ => if (regLookup [(toString x, 1)] y).isSome then "hit" else "miss"
      | _, _ => "panic"
    | _, _ => "bad-op"
  | ["parse", t] =>
    match unhexT t with
    | some s => match parseNodeID s with
      | some n => s!"ok {showNode n}"
      | none => "err"
    | none => "bad-op"
  | ["parsex", t, "nil"] =>
    match unhexT t with
    | some s => showExp (parseExpanded s none)
    | none => "bad-op"
  | "parsex" :: t :: "tbl" :: uris =>
    match unhexT t, unhexAll uris with
    | some s, some tbl => showExp (parseExpanded s (some tbl))
    | _, _ => "bad-op"
  | ["b64d", t] =>
    match unhexT t with
    | some s => match b64dec s with
      | some b => s!"ok {hexT b}"
      | none => "err"
    | none => "bad-op"
  | ["b64e", t] =>
    match unhexT t with
    | some s => hexT (b64enc s)
    | none => "bad-op"
  | ["guid", t] =>
    match unhexT t with
    | some s => match newGUID s with
      | some g => s!"ok {hexT g}"
      | none => "nil"
    | none => "bad-op"
  | _ => "bad-op"

def main : IO Unit := runDriver handle
