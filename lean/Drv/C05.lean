import OpcuaModel.Base.Loop
import OpcuaModel.Model.Uacp
/-
  Driver for C05.
    recv <rcvBuf> <seg> <seg> …    segments in hex ("-" = empty read)
      → <k> <len>:<fnv32> … <stop>
    where the k delivered frames are given as length and FNV-1a hash and
    <stop> is eof | ueof | toolarge | toosmall | errf <code> <reasonhex> | errdecode | panic
-/
open Opcua Opcua.Uacp

def nib (c : UInt8) : Nat :=
  if 48 ≤ c.toNat ∧ c.toNat ≤ 57 then c.toNat - 48
  else if 97 ≤ c.toNat ∧ c.toNat ≤ 102 then c.toNat - 87
  else 0

/-- tail-recursive hex reader (segments of a MiB occur) -/
def hexFast (s : String) : Bytes :=
  if s == "-" then [] else
  let a := s.toUTF8
  let rec go : Nat → Bytes → Bytes
    | 0, acc => acc
    | k + 1, acc => go k (UInt8.ofNat (nib a[2 * k]! * 16 + nib a[2 * k + 1]!) :: acc)
  go (a.size / 2) []

def fnv32 (b : Bytes) : Nat :=
  b.foldl (fun h x => ((h ^^^ x.toNat) * 16777619) % 4294967296) 2166136261

def showStop : Stop → String
  | .eof => "eof"
  | .unexpectedEOF => "ueof"
  | .tooLarge => "toolarge"
  | .tooSmall => "toosmall"
  | .errf c r => s!"errf {c} {toHex r}"
  | .errDecode => "errdecode"
  | .panic => "panic"

def handle : List String → String
  | "recv" :: rb :: segs =>
    match rb.toNat? with
    | some rcvBuf =>
      let (fs, o) := receiveAll rcvBuf (segs.map hexFast)
      let parts := fs.map fun f => s!"{f.length}:{fnv32 f}"
      String.intercalate " " (toString fs.length :: parts ++ [showStop o])
    | none => "bad-op"
  | _ => "bad-op"

def main : IO Unit := runDriver handle
