import OpcuaModel.Base.Loop
import OpcuaModel.Model.Uacp
import OpcuaModel.Model.UacpMsg
/-
  Driver for C05.
    recv <rcvBuf> <seg> <seg> …    segments in hex ("-" = empty read)
      → <k> <len>:<fnv32> … <stop>
    where the k delivered frames are given as length and FNV-1a hash and
    <stop> is eof | ueof | toolarge | toosmall | errf <code> <reasonhex> | errdecode | panic
    sendrecv <sndBuf> <rcvBuf> <typ hex> hello|ack|rhe|err <fields…>
      → send-refused | sent <n> stop <stop> | sent <n> frame <len>:<fnv32> <decoded message | nodecode>
-/
open Opcua Opcua.Uacp

def nib (c : UInt8) : Nat :=
  if 48 ≤ c.toNat ∧ c.toNat ≤ 57 then c.toNat - 48
  else if 97 ≤ c.toNat ∧ c.toNat ≤ 102 then c.toNat - 87
  else 0

/-- tail-recursive hex reader (segments of a MiB occur) -/
def hexFast (s : String) : Bytes :=
  if s == "-" then [] else
  let a := s.toUTF8
  let rec go : Nat → Bytes → Bytes
    | 0, acc => acc
    | k + 1, acc => go k (UInt8.ofNat (nib a[2 * k]! * 16 + nib a[2 * k + 1]!) :: acc)
  go (a.size / 2) []

def fnv32 (b : Bytes) : Nat :=
  b.foldl (fun h x => ((h ^^^ x.toNat) * 16777619) % 4294967296) 2166136261

def showStop : Stop → String
  | .eof => "eof"
  | .unexpectedEOF => "ueof"
  | .tooLarge => "toolarge"
  | .tooSmall => "toosmall"
  | .errf c r => s!"errf {c} {toHex r}"
  | .errDecode => "errdecode"
  | .panic => "panic"

def showMsg : Msg → String
  | .hello v r s mm mc url => s!"hello {v} {r} {s} {mm} {mc} {toHex url}"
  | .ack v r s mm mc => s!"ack {v} {r} {s} {mm} {mc}"
  | .rhe uri url => s!"rhe {toHex uri} {toHex url}"
  | .err c reason => s!"err {c} {toHex reason}"

def parseMsg : List String → Option Msg
  | ["hello", v, r, s, mm, mc, url] => do
      pure (.hello (← v.toNat?) (← r.toNat?) (← s.toNat?) (← mm.toNat?) (← mc.toNat?) (hexFast url))
  | ["ack", v, r, s, mm, mc] => do
      pure (.ack (← v.toNat?) (← r.toNat?) (← s.toNat?) (← mm.toNat?) (← mc.toNat?))
  | ["rhe", uri, url] => some (.rhe (hexFast uri) (hexFast url))
  | ["err", c, reason] => do pure (.err (← c.toNat?) (hexFast reason))
  | _ => none

/-- sendrecv <sndBuf> <rcvBuf> <typ hex> <msg…>: `Send` on one Conn, one `Receive` on the peer,
    then the handshake code's decoding of the delivered frame -/
def sendRecv (sndBuf rcvBuf : Nat) (typ : Bytes) (m : Msg) : String :=
  match send sndBuf typ m.body with
  | none => "send-refused"
  | some f =>
    match receive rcvBuf [f] with
    | .stop o => s!"sent {f.length} stop {showStop o}"
    | .frame g _ =>
      let dec := match decodeFrame g with
        | some m' => showMsg m'
        | none => "nodecode"
      s!"sent {f.length} frame {g.length}:{fnv32 g} {dec}"

def handle : List String → String
  | "sendrecv" :: sb :: rb :: typ :: msg =>
    match sb.toNat?, rb.toNat?, parseMsg msg with
    | some s, some r, some m => sendRecv s r (hexFast typ) m
    | _, _, _ => "bad-op"
  | "recv" :: rb :: segs =>
    match rb.toNat? with
    | some rcvBuf =>
      let (fs, o) := receiveAll rcvBuf (segs.map hexFast)
      let parts := fs.map fun f => s!"{f.length}:{fnv32 f}"
      String.intercalate " " (toString fs.length :: parts ++ [showStop o])
    | none => "bad-op"
  | _ => "bad-op"

def main : IO Unit := runDriver handle
