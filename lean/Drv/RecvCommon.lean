import OpcuaModel.Base.Loop
import OpcuaModel.Model.Recv
import OpcuaModel.Gen.RecvFacts
/-
  Text forms shared by the drivers of the receive-path properties
  (C12, C10, C13): a chunk is `<ct>:<seq>:<req>:<hex>`, results are
  `cont`, `abort:<req>:<code>`, `abortbad:<req>`, `toomany:<req>:<n>`,
  `toolarge:<req>:<len>`, `merged:<req>:<hex>`.
-/
namespace Opcua.Recv
open Opcua

def parseChunk (s : String) : Option Chunk :=
  match s.splitOn ":" with
  | [ct, seq, req, hx] => do
    let ct ← ct.toNat?
    let seq ← seq.toNat?
    let req ← req.toNat?
    let d ← fromHex hx
    pure ⟨ct, seq, req, d⟩
  | _ => none

def parseChunks : List String → Option (List Chunk)
  | [] => some []
  | s :: r => do
    let c ← parseChunk s
    let t ← parseChunks r
    pure (c :: t)

def Out.text : Out → String
  | .cont => "cont"
  | .abort r c => s!"abort:{r}:{c}"
  | .abortBad r => s!"abortbad:{r}"
  | .tooMany r n => s!"toomany:{r}:{n}"
  | .tooLarge r n => s!"toolarge:{r}:{n}"
  | .merged r b => s!"merged:{r}:{toHex b}"

def heldText (b : Bufs) : String := s!"held={b.entries}/{b.nchunks}/{b.held}"

/-- `recv <maxChunkCount> <maxMessageSize> <chunk>…` -/
def handleRecv : List String → String
  | mc :: mm :: cs =>
    match mc.toNat?, mm.toNat?, parseChunks cs with
    | some mc, some mm, some cs =>
      let cfg : Cfg := ⟨mc, mm, Gen.RecvFacts.chunkLimitZeroUnlimited, Gen.RecvFacts.sizeLimitZeroUnlimited⟩
      let outs := runOuts cfg [] cs
      let fin := runFinal cfg [] cs
      " ".intercalate (outs.map Out.text ++ [heldText fin])
    | _, _, _ => "bad-op"
  | _ => "bad-op"

/-- `sealed <maxChunkCount> <maxMessageSize> <chunk | x>…`: the frames as the
    reference sealer describes them — the chunk a frame opens to, or `x` for a
    frame that does not verify.  Results: as `recv`, `rej` for a rejected frame. -/
def handleSealed : List String → String
  | mc :: mm :: fs =>
    match mc.toNat?, mm.toNat? with
    | some mc, some mm =>
      let cfg : Cfg := ⟨mc, mm, Gen.RecvFacts.chunkLimitZeroUnlimited, Gen.RecvFacts.sizeLimitZeroUnlimited⟩
      -- a frame is represented by its token; `unwrap` parses it
      let unwrap : Bytes → Option Chunk := fun b =>
        match String.fromUTF8? (ByteArray.mk b.toArray) with
        | some s => if s = "x" then none else parseChunk s
        | none => none
      let frames : List Bytes := fs.map fun s => s.toUTF8.toList
      let outs := runSealed unwrap cfg [] frames
      " ".intercalate (outs.map fun o => match o with | none => "rej" | some o => o.text)
    | _, _ => "bad-op"
  | _ => "bad-op"

/-- `merge <seq>:<hex>…` -/
def handleMerge (toks : List String) : String :=
  let parse (s : String) : Option Chunk :=
    match s.splitOn ":" with
    | [seq, hx] => do
      let seq ← seq.toNat?
      let d ← fromHex hx
      pure ⟨ctC, seq, 0, d⟩
    | _ => none
  let rec go : List String → Option (List Chunk)
    | [] => some []
    | s :: r => do
      let c ← parse s
      let t ← go r
      pure (c :: t)
  match go toks with
  | some cs => toHex (mergeChunks cs)
  | none => "bad-op"

end Opcua.Recv
