import OpcuaModel.Base.Loop
import OpcuaModel.Model.Limits
/-
  Driver for C06.
    xfer <c2s|s2c> <hello: rcv snd maxMsg maxChunks> <ack: rcv snd maxMsg maxChunks> <n>
      → neg <client view> | <server view> open ok wire <count> <max> <last> send <sent|refused> recv <verdict>
      → neg <client view> | <server view> open refused-by-<server|client> <verdict> opn <wire> <body>
      → handshake refused-by-client      (Acknowledge with a buffer below 8192)
  policy None / mode None, as in the correspondence run; `xfer-sign …` is the same under
  Basic256Sha256 / Sign (no OpenSecureChannel model: the runner only uses configurations that open).
-/
open Opcua Opcua.Limits

def showAck (a : Ack) : String := s!"{a.rcv} {a.snd} {a.maxMsg} {a.maxChunks}"

def showVerdict : Verdict → String
  | .ok => "ok"
  | .chunkTooLarge => "chunk-too-large"
  | .tooManyChunks => "too-many-chunks"
  | .messageTooLarge => "message-too-large"

def nats (l : List String) : Option (List Nat) := l.mapM (·.toNat?)

/-- `xfer-sign`: the same transfer under Basic256Sha256 / Sign (the channel is assumed to open) -/
def handleSign (dir : String) (rest : List String) : String :=
  match nats rest, Gen.symmetricRows.find? (·.name == "Basic256Sha256") with
  | some [c1, c2, c3, c4, s1, s2, s3, s4, n], some a =>
    if !handshakeAccepts ⟨s1, s2, s3, s4⟩ then "handshake refused-by-client" else
    let vs := negotiate ⟨c1, c2, c3, c4⟩ ⟨s1, s2, s3, s4⟩
    let pre := s!"neg {showAck vs.client} | {showAck vs.server}"
    let sides : Option (Ack × Ack) :=
      if dir == "c2s" then some (vs.client, vs.server)
      else if dir == "s2c" then some (vs.server, vs.client) else none
    match sides with
    | none => "bad-op"
    | some (sv, rv) =>
      let verdict := (transfer a .sign sv rv n).2
      match send a .sign sv n with
      | .refused => s!"{pre} open ok wire 0 0 0 send refused recv nothing-sent"
      | .sent wire =>
        s!"{pre} open ok wire {wire.length} {wire.foldl max 0} {wire.getLast?.getD 0} send sent recv {showVerdict verdict}"
  | _, _ => "bad-op"

def handle : List String → String
  | "xfer-sign" :: dir :: rest => handleSign dir rest
  | "xfer" :: dir :: rest =>
    match nats rest with
    | some [c1, c2, c3, c4, s1, s2, s3, s4, n] =>
      let hello : Ack := ⟨c1, c2, c3, c4⟩
      let ack : Ack := ⟨s1, s2, s3, s4⟩
      if !handshakeAccepts ack then "handshake refused-by-client" else
      let vs := negotiate hello ack
      let pre := s!"neg {showAck vs.client} | {showAck vs.server}"
      match openChannel vs with
      | .refusedByServer v w b => s!"{pre} open refused-by-server {showVerdict v} opn {w} {b}"
      | .refusedByClient v w b => s!"{pre} open refused-by-client {showVerdict v} opn {w} {b}"
      | .ok =>
        let sides : Option (Ack × Ack) :=
          if dir == "c2s" then some (vs.client, vs.server)
          else if dir == "s2c" then some (vs.server, vs.client) else none
        match sides with
        | none => "bad-op"
        | some (sv, rv) =>
          let verdict := (transfer Gen.symNone .none sv rv n).2
          match send Gen.symNone .none sv n with
          | .refused => s!"{pre} open ok wire 0 0 0 send refused recv nothing-sent"
          | .sent wire =>
            let mx := wire.foldl max 0
            let last := wire.getLast?.getD 0
            s!"{pre} open ok wire {wire.length} {mx} {last} send sent recv {showVerdict verdict}"
    | _ => "bad-op"
  | _ => "bad-op"

def main : IO Unit := runDriver handle
