import OpcuaModel.Base.Loop
import OpcuaModel.Model.SendHandlers
/-
  Driver for C18 (trace validation of the handler-table LTS).
    reset <counter>                  → ok                (start a new trace)
    lts setctr <n>                   → ok | reject
    lts nextid <k> <v>               → ok | reject
    lts register <k> <1|0>           → ok | reject
    lts pop <id> <1|0>               → ok | reject
    lts deliver                      → ok | reject
    lts recv <k>                     → ok | reject
    lts abandon <k> <1|0>            → ok | reject
    summary                          → delivered=<k:id:serial,…> dropped=<n> full=<n> counter=<c>
    handler <id>                     → none | <k>
    safeassign <gotType> <wantType>  → ok | err
  After a rejected label every further `lts` answers `rejected-before`.
-/
open Opcua Opcua.SendHandlers

def parseBool : String → Option Bool
  | "1" => some true
  | "0" => some false
  | _ => none

def parseLabel : List String → Option Label
  | ["setctr", n] => n.toNat? >>= fun n => some (.setCounter n)
  | ["nextid", k, v] => do let k ← k.toNat?; let v ← v.toNat?; some (.nextId k v)
  | ["register", k, b] => do let k ← k.toNat?; let b ← parseBool b; some (.register k b)
  | ["pop", i, b] => do let i ← i.toNat?; let b ← parseBool b; some (.pop i b)
  | ["deliver"] => some .deliver
  | ["recv", k] => do let k ← k.toNat?; some (.recv k)
  | ["abandon", k, b] => do let k ← k.toNat?; let b ← parseBool b; some (.abandon k b)
  | _ => none

def showDelivered (l : List (Nat × Msg)) : String :=
  let items := l.reverse.map (fun (k, m) => s!"{k}:{m.id}:{m.serial}")
  if items.isEmpty then "-" else String.intercalate "," items

def handle (st : Option St) : List String → Option St × String
  | ["reset", c] =>
    match c.toNat? with
    | some c => (some (init c), "ok")
    | none => (st, "bad-op")
  | "lts" :: rest =>
    match st with
    | none => (none, "rejected-before")
    | some s =>
      match parseLabel rest with
      | none => (st, "bad-op")
      | some l =>
        match step? s l with
        | some s' => (some s', "ok")
        | none => (none, "reject")
  | ["summary"] =>
    match st with
    | none => (st, "rejected-before")
    | some s => (st, s!"delivered={showDelivered s.delivered} dropped={s.dropped} full={s.full} counter={s.counter}")
  | ["handler", i] =>
    match st, i.toNat? with
    | some s, some i => (st, match s.handlers i with | some k => toString k | none => "none")
    | _, _ => (st, "bad-op")
  | ["safeassign", g, w] =>
    match g.toNat?, w.toNat? with
    | some g, some w => (st, if (safeAssign g w none).1 then "ok" else "err")
    | _, _ => (st, "bad-op")
  | _ => (st, "bad-op")

def main : IO Unit := runDriverS handle (some (init 0))
