import OpcuaModel.Base.Loop
import OpcuaModel.Model.ConnLts
/-
  Driver for C25 (trace validation).
    trace <auto 0|1> <hooks 0|1> <ev> <ev> …   → ok <n>  |  reject <index> <ev>
      ev: u.connect u.connect.ok u.connect.err u.close u.close.end dial m.done
          st:<Closed|Connected|Connecting|Disconnected|Reconnecting>
          m.error:<eof|refused|badChannel|badSession|badSubscription|other>
          m.action:<createSecureChannel|restoreSession|recreateSession|restoreSubscriptions|transferSubscriptions|abortReconnect>
    doc <State> <State>                         → 1 | 0      (documented transition?)
-/
open Opcua Opcua.ConnLts

def state? : String → Option ConnState
  | "Closed" => some .closed | "Connected" => some .connected | "Connecting" => some .connecting
  | "Disconnected" => some .disconnected | "Reconnecting" => some .reconnecting | _ => none

def action? : String → Option Action
  | "createSecureChannel" => some .createSecureChannel | "restoreSession" => some .restoreSession
  | "recreateSession" => some .recreateSession | "restoreSubscriptions" => some .restoreSubscriptions
  | "transferSubscriptions" => some .transferSubscriptions | "abortReconnect" => some .abortReconnect | _ => none

def errClass? : String → Option ErrClass
  | "eof" => some .eof | "refused" => some .refused | "badChannel" => some .badChannel
  | "badSession" => some .badSession | "badSubscription" => some .badSubscription | "other" => some .other | _ => none

def ev? (s : String) : Option Ev :=
  match s with
  | "u.connect" => some .uConnect | "u.connect.ok" => some .uConnectOk | "u.connect.err" => some .uConnectErr
  | "u.close" => some .uClose | "u.close.end" => some .uCloseEnd | "dial" => some .dial | "m.done" => some .mDone
  | _ =>
    match s.splitOn ":" with
    | ["st", x] => (state? x).map .st
    | ["m.error", c] => (errClass? c).map .mError
    | ["m.action", a] => (action? a).map .mAction
    | _ => none

def handle : List String → String
  | "trace" :: a :: h :: evs =>
    match evs.mapM ev? with
    | none => "bad-op"
    | some t =>
      match run [init (a == "1") (h == "1")] t 0 with
      | .ok l => s!"ok {l.length}"
      | .error i => s!"reject {i} {evs.getD i "?"}"
  | ["doc", x, y] =>
    match state? x, state? y with
    | some x, some y => if doc x y then "1" else "0"
    | _, _ => "bad-op"
  | _ => "bad-op"

def main : IO Unit := runDriver handle
