import Drv.RecvCommon
import OpcuaModel.Model.RecvTok
/-
  Driver for C10:
    sealed <maxChunkCount> <maxMessageSize> <ct>:<seq>:<req>:<hex> | x …   → one result per frame (`rej` = rejected by readChunk)
    tokrun <maxChunkCount> <maxMessageSize> <in>…   in = f:<chan>:<key>:<ct>:<seq>:<req>:<hex> | o:<chan>:<tok>:<key> | e:<chan>:<tok>:<key>
                                                     → per frame: rej | result as in recv
    recv / merge as in C12
-/
open Opcua Opcua.Recv

def parseIn (s : String) : Option RecvTok.In :=
  match s.splitOn ":" with
  | ["f", c, k, ct, sq, rq, hx] => do
    let ch ← parseChunk (":".intercalate [ct, sq, rq, hx])
    pure (.frame ⟨← c.toNat?, ← k.toNat?, ch⟩)
  | ["o", c, t, k] => do pure (.table (.opn ⟨← c.toNat?, ← t.toNat?, ← k.toNat?⟩))
  | ["e", c, t, k] => do pure (.table (.expire ⟨← c.toNat?, ← t.toNat?, ← k.toNat?⟩))
  | _ => none

def handleTokrun : List String → String
  | mc :: mm :: ins =>
    match mc.toNat?, mm.toNat?, ins.mapM parseIn with
    | some mc, some mm, some ins =>
      let cfg : Cfg := ⟨mc, mm, Gen.RecvFacts.chunkLimitZeroUnlimited, Gen.RecvFacts.sizeLimitZeroUnlimited⟩
      let outs := RecvTok.run cfg ⟨[], []⟩ ins
      let frames := ins.zip outs |>.filterMap fun (i, o) =>
        match i, o with
        | .frame _, none => some "rej"
        | .frame _, some o => some o.text
        | _, _ => none
      " ".intercalate frames
    | _, _, _ => "bad-op"
  | _ => "bad-op"

def handle : List String → String
  | "sealed" :: r => handleSealed r
  | "tokrun" :: r => handleTokrun r
  | "merge" :: r => handleMerge r
  | "recv" :: r => handleRecv r
  | _ => "bad-op"

def main : IO Unit := runDriver handle
