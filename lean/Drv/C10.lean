import Drv.RecvCommon
/-
  Driver for C10:
    sealed <maxChunkCount> <maxMessageSize> <ct>:<seq>:<req>:<hex> | x …   → one result per frame (`rej` = rejected by readChunk)
    recv / merge as in C12
-/
open Opcua Opcua.Recv

def handle : List String → String
  | "sealed" :: r => handleSealed r
  | "merge" :: r => handleMerge r
  | "recv" :: r => handleRecv r
  | _ => "bad-op"

def main : IO Unit := runDriver handle
