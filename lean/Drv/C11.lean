import OpcuaModel.Base.Loop
import OpcuaModel.Model.SendSeqDrv
import OpcuaModel.Model.SendGate
/-
  Driver for C11: trace validation of the sender / renewal LTS
  (protocol: see OpcuaModel/Model/SendSeqDrv.lean).
-/
open Opcua Opcua.SendSeq

/-- `gt <label> …` runs a trace of the gate LTS: rLock<i> rUnlock<i> close pass<t> -/
def parseGate (w : String) : Option SendGate.Label :=
  if w == "close" then some .close
  else if w.startsWith "rLock" then (w.drop 5).toNat? >>= fun i => some (.rLock i)
  else if w.startsWith "rUnlock" then (w.drop 7).toNat? >>= fun i => some (.rUnlock i)
  else if w.startsWith "pass" then (w.drop 4).toNat? >>= fun i => some (.pass i)
  else none

def handle (st : Option St) (toks : List String) : Option St × String :=
  match toks with
  | "gt" :: ws =>
    match ws.mapM parseGate with
    | none => (st, "bad-op")
    | some ls =>
      match SendGate.run? SendGate.init ls with
      | none => (st, "reject")
      | some g => (st, s!"locked={g.locked} holders={g.holders.length} badPass={g.badPass}")
  | _ =>
    match handleSeq st toks with
    | some r => r
    | none => (st, "bad-op")

def main : IO Unit := runDriverS handle (some (init 0 1))
