import OpcuaModel.Base.Loop
import OpcuaModel.Model.SendSeqDrv
/-
  Driver for C11: trace validation of the sender / renewal LTS
  (protocol: see OpcuaModel/Model/SendSeqDrv.lean).
-/
open Opcua Opcua.SendSeq

def handle (st : Option St) (toks : List String) : Option St × String :=
  match handleSeq st toks with
  | some r => r
  | none => (st, "bad-op")

def main : IO Unit := runDriverS handle (some (init 0 1))
