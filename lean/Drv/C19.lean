import OpcuaModel.Base.Loop
import OpcuaModel.Model.SendTimeoutInv
/-
  Driver for C19 (trace validation of the timeout / receive-gate LTS).
    reset <n> <slack>              → ok
    lts cSend <k> <tmo> <0|1>      lts cSendFail <k>    lts cRecv <k>
    lts cTimeout <k> <0|1>         lts cCancel <k> <0|1>   lts cUnlock <k>
    lts dRecv <id> <opn 0|1> <hit 0|1>   lts dRcvLock   lts dSend   lts dWait   lts tick <d>
                                   → ok | reject   (after a reject: rejected-before)
    guard <label…>                 → in | out
    wedged                         → true | false
    caller <k>                     → idle | waiting <deadline> | returned <t> <how> | finished <t> <how>
    summary                        → now=<t> locked=<b> delivered=<n> dropped=<n>
    handler <k>                    → 0 | 1
-/
open Opcua Opcua.SendTimeout

def pb : String → Option Bool
  | "1" => some true
  | "0" => some false
  | _ => none

def parseLabel : List String → Option Label
  | ["cSend", k, t, o] => do let k ← k.toNat?; let t ← t.toNat?; let o ← pb o; some (.cSend k t o)
  | ["cSendFail", k] => do let k ← k.toNat?; some (.cSendFail k)
  | ["cRecv", k] => do let k ← k.toNat?; some (.cRecv k)
  | ["cTimeout", k, b] => do let k ← k.toNat?; let b ← pb b; some (.cTimeout k b)
  | ["cCancel", k, b] => do let k ← k.toNat?; let b ← pb b; some (.cCancel k b)
  | ["cUnlock", k] => do let k ← k.toNat?; some (.cUnlock k)
  | ["dRecv", i, o, b] => do let i ← i.toNat?; let o ← pb o; let b ← pb b; some (.dRecv i o b)
  | ["dRcvLock"] => some .dRcvLock
  | ["dSend"] => some .dSend
  | ["dWait"] => some .dWait
  | ["tick", d] => do let d ← d.toNat?; some (.tick d)
  | _ => none

def showHow : How → String
  | .got => "got" | .timeout => "timeout" | .cancelled => "cancelled" | .sendError => "sendError"

def showCpc : CPC → String
  | .idle => "idle"
  | .waiting dl _ => s!"waiting {dl}"
  | .returned t h _ => s!"returned {t} {showHow h}"
  | .finished t h => s!"finished {t} {showHow h}"

def handle (st : Option St) : List String → Option St × String
  | ["reset", n, sl] =>
    match n.toNat?, sl.toNat? with
    | some n, some sl => (some (init n sl), "ok")
    | _, _ => (st, "bad-op")
  | "lts" :: rest =>
    match st with
    | none => (none, "rejected-before")
    | some s =>
      match parseLabel rest with
      | none => (st, "bad-op")
      | some l =>
        match step? s l with
        | some s' => (some s', "ok")
        | none => (none, "reject")
  | "guard" :: rest =>
    match st, parseLabel rest with
    | some s, some l => (st, if decide (Guard s l) then "in" else "out")
    | _, _ => (st, "bad-op")
  | ["wedged"] =>
    match st with
    | some s => (st, if decide (Wedged s) then "true" else "false")
    | none => (st, "rejected-before")
  | ["caller", k] =>
    match st, k.toNat? with
    | some s, some k => (st, showCpc (s.cpc k))
    | _, _ => (st, "bad-op")
  | ["handler", k] =>
    match st, k.toNat? with
    | some s, some k => (st, if s.handlers k then "1" else "0")
    | _, _ => (st, "bad-op")
  | ["summary"] =>
    match st with
    | some s => (st, s!"now={s.now} locked={s.rcvLocked} delivered={s.delivered} dropped={s.dropped}")
    | none => (st, "rejected-before")
  | _ => (st, "bad-op")

def main : IO Unit := runDriverS handle (some (init 0 0))
