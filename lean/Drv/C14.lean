import OpcuaModel.Base.Loop
import OpcuaModel.Model.ChunkRef
/-
  Driver for C14: key derivation, implementation model and specification side,
  with the reference HMAC / AES-CBC.

    selftest
        → ok | names of failed vectors
    impl <policy> <localNonce> <remoteNonce>
        → <signKey> <encryptKey> <encryptIV> <verifyKey> <decryptKey> <decryptIV>
          (`Keys.symmetric` with the generated key-assignment row: what
           `uapolicy.Symmetric(uri, localNonce, remoteNonce)` holds)
    spec <policy> <client|server> <clientNonce> <serverNonce>
        → <signingKey> <encryptingKey> <iv>     (Part 6 §6.7.5 keys of that role, profile table of Part 7)
    psha <sha1|sha256> <secret> <seed> <n>
        → <hex>                                  (`Spec.pSha`)
    genkeys <sha1|sha256> <secret> <seed> <a> <b> <c>
        → <signing> <encryption> <iv>            (`Keys.generateKeys`, the loop)
    mac <policy> <client|server> <clientNonce> <serverNonce> <msg>
        → <hex>      HMAC of the profile's hash with the specification's signing key of the role
    enc <policy> <client|server> <clientNonce> <serverNonce> <plaintext>
        → <hex> | err      AES-CBC with the specification's encrypting key and IV of the role
    dec <policy> <client|server> <clientNonce> <serverNonce> <ciphertext>
        → <hex> | err
-/
open Opcua Opcua.Keys Opcua.CryptoRef Opcua.ChunkRef

def findProfile (name : String) : Option Spec.Profile := Spec.profiles.find? (·.name == name)

def hashOf : String → Option HashAlg
  | "sha1" => some .sha1
  | "sha256" => some .sha256
  | _ => none

def specKeys (p : Spec.Profile) (role : String) (cn sn : Bytes) : Option DirKeys :=
  if role = "client" then some (Spec.clientKeys p hmac cn sn)
  else if role = "server" then some (Spec.serverKeys p hmac cn sn)
  else none

def handle : List String → String
  | ["selftest"] =>
    match CryptoRef.selfTestFailures ++ (if cbcCrossCheck then [] else ["cbc-list-vs-bytearray"]) with
    | [] => "ok"
    | l => " ".intercalate l
  | ["impl", pol, ln, rn] =>
    match findKA pol, unhexFast ln, unhexFast rn with
    | some ka, some ln, some rn =>
      let k := symmetric ka hmac ln rn
      s!"{toHex k.signKey} {toHex k.encryptKey} {toHex k.encryptIV} {toHex k.verifyKey} {toHex k.decryptKey} {toHex k.decryptIV}"
    | _, _, _ => "bad-op"
  | ["spec", pol, role, cn, sn] =>
    match findProfile pol, unhexFast cn, unhexFast sn with
    | some p, some cn, some sn =>
      match specKeys p role cn sn with
      | some k => s!"{toHex k.signing} {toHex k.encrypting} {toHex k.iv}"
      | none => "bad-op"
    | _, _, _ => "bad-op"
  | ["psha", hs, secret, seed, n] =>
    match hashOf hs, unhexFast secret, unhexFast seed, n.toNat? with
    | some alg, some secret, some seed, some n => toHex (Spec.pSha (hmac alg secret) seed n)
    | _, _, _, _ => "bad-op"
  | ["genkeys", hs, secret, seed, a, b, c] =>
    match hashOf hs, unhexFast secret, unhexFast seed, a.toNat?, b.toNat?, c.toNat? with
    | some alg, some secret, some seed, some a, some b, some c =>
      let k := generateKeys (hmac alg secret) seed a b c
      s!"{toHex k.signing} {toHex k.encryption} {toHex k.iv}"
    | _, _, _, _, _, _ => "bad-op"
  | [cmd, pol, role, cn, sn, data] =>
    match findProfile pol, unhexFast cn, unhexFast sn, unhexFast data with
    | some p, some cn, some sn, some data =>
      match specKeys p role cn sn with
      | none => "bad-op"
      | some k =>
        if cmd = "mac" then toHex (hmac p.hash k.signing data)
        else if cmd = "enc" then
          match aesEncrypt (8 * p.encKeyLen) k.encrypting k.iv data with
          | some c => toHex c
          | none => "err"
        else if cmd = "dec" then
          match aesDecrypt k.encrypting k.iv data with
          | some c => toHex c
          | none => "err"
        else "bad-op"
    | _, _, _, _ => "bad-op"
  | _ => "bad-op"

def main : IO Unit := runDriver handle
