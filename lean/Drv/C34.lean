import OpcuaModel.Base.Loop
import OpcuaModel.Model.LinearApp
/-
  Driver for C34.  Nodes are (namespace 1, key 0..n-1), initial value Int32 0, no access attributes.
    lin <nNodes> <op>*       → the answers of the attribute service model to the operations in this order
        op  = r:<node> | w:<node>:<val> | ar:<node> | aw:<node>:<val>     answer = v<val> | ok | <other>
        (ar / aw: the embedding application reads / replaces the value outside the dispatcher)
    trace <nNodes> <ev>*     → valid | invalid@<index>
        ev  = i:<id>:r:<node> | i:<id>:w:<node>:<val> | d:<id> | p:<id>:v<val> | p:<id>:ok
        (the well-formed traces of the single-dispatcher machine `Linear.mrun`)
-/
open Opcua Opcua.Access Opcua.Linear

def mkServer (n : Nat) : Server :=
  fun i => if i = 1 then some (fun k => if k < n then some { attrs := [], val := .v tyInt32 0 } else none) else none

def parseOp (l : List String) : Option Op :=
  match l with
  | ["r", k] => do pure (.read 1 (← k.toNat?) aValue)
  | ["w", k, v] => do pure (.write 1 (← k.toNat?) aValue (.v tyInt32 (← v.toNat?)))
  | _ => none

def parseXOp (l : List String) : Option XOp :=
  match l with
  | ["ar", k] => do pure (.appGetValue 1 (← k.toNat?))
  | ["aw", k, v] => do pure (.appSetValue 1 (← k.toNat?) (.v tyInt32 (← v.toNat?)))
  | other => (parseOp other).map .client

def showRes : Res → String
  | .value (.v _ p) => s!"v{p}"
  | .status .ok => "ok"
  | .status _ => "bad"
  | .value _ => "odd"
  | .panic => "panic"

def parseRes (s : String) : Option Res :=
  if s = "ok" then some (.status .ok)
  else if s.startsWith "v" then (s.drop 1).toNat?.map (fun p => .value (.v tyInt32 p))
  else none

def parseEv (s : String) : Option (Ev Op Res) :=
  match s.splitOn ":" with
  | "i" :: id :: rest => do pure (.inv (← id.toNat?) (← parseOp rest))
  | ["d", id] => do pure (.disp (← id.toNat?))
  | ["p", id, r] => do pure (.resp (← id.toNat?) (← parseRes r))
  | _ => none

def runTrace (m : M Server Op Res) (idx : Nat) : List (Ev Op Res) → String
  | [] => "valid"
  | e :: r => match mstep step m e with
    | none => s!"invalid@{idx}"
    | some m' => runTrace m' (idx + 1) r

def handle : List String → String
  | "lin" :: n :: ops =>
    match n.toNat?, ops.mapM (fun s => parseXOp (s.splitOn ":")) with
    | some k, some l => " ".intercalate ((seqRun stepX (mkServer k) l).1.map showRes)
    | _, _ => "bad-op"
  | "trace" :: n :: evs =>
    match n.toNat?, evs.mapM parseEv with
    | some k, some l => runTrace (M.init (mkServer k)) 0 l
    | _, _ => "bad-op"
  | _ => "bad-op"

def main : IO Unit := runDriver handle
