import OpcuaModel.Base.Loop
import OpcuaModel.Model.ClientResp
/-
  Driver for C21.
    op  <op> <kind> <nReq> <results> <val> <chain> <flags> <notifs>  → <value|error|panic> <delivered|->
      results : "-" or letters g (Good) / b (Bad), one per result
      val     : "absent" | <tid>:s | <tid>:a<len>      tid ∈ null byte sbyte int32 qname ltext string double extobj extobjNoBody
      chain   : "-" or kind:n,kind:n,…                 (the BrowseNext answers)
      flags   : "-" or letters z (subscription id 0) d (duplicate id) u (unknown item id) k (publish: unknown subscription)
                p / P (publish: 1 / 2 acknowledgements pending)
      notifs  : "-" or letters d e s o n               (dataChange event statusChange otherType noBody)
      delivered (publish only): letters v (value) / e (error) in delivery order
-/
open Opcua Opcua.ClientResp

def kind? : String → Option Kind
  | "ok" => some .ok | "badStatus" => some .badStatus | "fault" => some .fault | "wrongType" => some .wrongType
  | "notResponse" => some .notResponse
  | _ => none

def tid? : String → Option Tid
  | "null" => some .null | "byte" => some .byte | "sbyte" => some .sbyte | "int32" => some .int32
  | "qname" => some .qname | "ltext" => some .ltext | "string" => some .string | "double" => some .double
  | "extobj" => some .extobj | "extobjNoBody" => some .extobjNoBody
  | _ => none

def op? : String → Option Op
  | "read" => some (.plain .read) | "write" => some (.plain .write) | "browse" => some (.plain .browse)
  | "browseNext" => some (.plain .browseNext) | "registerNodes" => some (.plain .registerNodes)
  | "unregisterNodes" => some (.plain .unregisterNodes) | "historyRead" => some (.plain .historyRead)
  | "findServers" => some (.plain .findServers) | "findServersOnNetwork" => some (.plain .findServersOnNetwork)
  | "getEndpoints" => some (.plain .getEndpoints) | "nodeAttributes" => some (.plain .nodeAttributes)
  | "subModify" => some (.plain .subModify) | "subUnmonitor" => some (.plain .subUnmonitor)
  | "subSetMonitoringMode" => some (.plain .subSetMonitoringMode) | "subSetTriggering" => some (.plain .subSetTriggering)
  | "call" => some .call | "nodeAttribute" => some .nodeAttribute | "nodeClass" => some .nodeClass
  | "browseName" => some .browseName | "description" => some .description | "displayName" => some .displayName
  | "accessLevel" => some .accessLevel | "userAccessLevel" => some .userAccessLevel
  | "namespaceArray" => some .namespaceArray | "subStats" => some .subStats | "references" => some .references
  | "translate" => some .translate | "subscribe" => some .subscribe | "subCancel" => some .subCancel
  | "subMonitor" => some .subMonitor | "subModifyItems" => some .subModifyItems
  | "recreateItems" => some .recreateItems | "transferOnReconnect" => some .transferOnReconnect
  | "publish" => some .publish
  | _ => none

def results? (s : String) : Option (List Bool) :=
  if s == "-" then some [] else
  s.toList.mapM fun c => if c == 'g' then some true else if c == 'b' then some false else none

def val? (s : String) : Option Val :=
  if s == "absent" then some ⟨false, .null, false, 0⟩ else
  match s.splitOn ":" with
  | [t, "s"] => (tid? t).map fun t => ⟨true, t, false, 0⟩
  | [t, a] =>
    if a.startsWith "a" then
      match tid? t, (a.drop 1).toString.toNat? with
      | some t, some n => some ⟨true, t, true, n⟩
      | _, _ => none
    else none
  | _ => none

def chain? (s : String) : Option (List (Kind × Nat)) :=
  if s == "-" then some [] else
  (s.splitOn ",").mapM fun e =>
    match e.splitOn ":" with
    | [k, n] => match kind? k, n.toNat? with
      | some k, some n => some (k, n)
      | _, _ => none
    | _ => none

def notifs? (s : String) : Option (List Notif) :=
  if s == "-" then some [] else
  s.toList.mapM fun c =>
    match c with
    | 'd' => some .dataChange | 'e' => some .event | 's' => some .statusChange
    | 'o' => some .otherType | 'n' => some .noBody | _ => none

def outcomeName : Outcome → String
  | .value => "value" | .error => "error" | .panic => "panic"

def handle : List String → String
  | [cmd, o, k, nReq, rs, v, ch, fl, nf] =>
    match op? o, kind? k, nReq.toNat?, results? rs, val? v, chain? ch, notifs? nf with
    | some op, some k, some nReq, some rs, some v, some ch, some nf =>
      let has (c : Char) : Bool := fl.toList.contains c
      let s : Shape := { kind := k, nReq := nReq, results := rs, val := v, chain := ch,
                         subIdZero := has 'z', subIdDup := has 'd', idsKnown := !has 'u', subKnown := !has 'k', notifs := nf,
                         pendingAcks := if has 'P' then 2 else if has 'p' then 1 else 0 }
      let deliv :=
        if op == .publish then
          let d := publishDelivered s
          if d.isEmpty then "-" else String.ofList (d.map fun b => if b then 'v' else 'e')
        else "-"
      if cmd == "op" then s!"{outcomeName (outcome op s)} {deliv}"
      else "bad-op"
    | _, _, _, _, _, _, _ => "bad-op"
  | _ => "bad-op"

def main : IO Unit := runDriver handle
