import OpcuaModel.Base.Loop
import OpcuaModel.Model.SendSeqDrv
import OpcuaModel.Model.SendRenew
import OpcuaModel.Model.SendFloat
/-
  Driver for C16.
    delay <lifetime ms>      → <delay of scheduleRenewal in ns>
    window <lifetime ms>     → in | out       (L/2 ≤ delay < L)
    f64 <lifetime ns>        → int64(float64(x)*0.75) by the IEEE-754 model (exact product, round to nearest even on 53 bits, truncate)
    rk <label> <label> …     → wire of the server re-key LTS, newest first: m|o ':' sym<k>|asym …  | reject
                               labels: readOPN handleAsym respLock respWrite respUnlock installSym sLock<t> sSecure<t> sUnlock<t>
    reset / lts / guard / wire / linked / renewed / state : the sender / renewal LTS (see SendSeqDrv.lean)
-/
open Opcua Opcua.SendSeq Opcua.SendRenew

def parseRk (w : String) : Option RLabel :=
  if w == "readOPN" then some .readOPN
  else if w == "handleAsym" then some .handleAsym
  else if w == "respLock" then some .respLock
  else if w == "respWrite" then some .respWrite
  else if w == "respUnlock" then some .respUnlock
  else if w == "installSym" then some .installSym
  else if w.startsWith "sLock" then (w.drop 5).toNat? >>= fun t => some (.sLock t)
  else if w.startsWith "sSecure" then (w.drop 7).toNat? >>= fun t => some (.sSecure t)
  else if w.startsWith "sUnlock" then (w.drop 7).toNat? >>= fun t => some (.sUnlock t)
  else none

def showAlgo : Algo → String
  | .sym k => s!"sym{k}"
  | .asym => "asym"

def handle (st : Option St) (toks : List String) : Option St × String :=
  match toks with
  | ["delay", l] =>
    match l.toNat? with
    | some l => (st, toString (renewDelayNs l))
    | none => (st, "bad-op")
  | ["f64", x] =>
    match x.toNat? with
    | some x => (st, toString (SendFloat.f64mul075 x))
    | none => (st, "bad-op")
  | ["window", l] =>
    match l.toNat? with
    | some l => (st, if decide (InWindow l) then "in" else "out")
    | none => (st, "bad-op")
  | "rk" :: ws =>
    match ws.mapM parseRk with
    | none => (st, "bad-op")
    | some ls =>
      match rrun? rinit ls with
      | none => (st, "reject")
      | some s => (st, if s.wire.isEmpty then "-" else
          String.intercalate " " (s.wire.map (fun c => (if c.1 then "o:" else "m:") ++ showAlgo c.2)))
  | _ =>
    match handleSeq st toks with
    | some r => r
    | none => (st, "bad-op")

def main : IO Unit := runDriverS handle (some (init 0 1))
