import OpcuaModel.Base.Loop
import OpcuaModel.Model.Endpoint
/-
  Driver for C24.
    fmt <policyHex>                                         → <hex of FormatSecurityPolicyURI(policy)>
    sel <policyHex> <mode> (<uriHex> <mode> <level>)*       → err | ok <level of the selected endpoint>
  The identity of the endpoint among equal levels is not reported: `sort.Sort`
  is free to order ties (theorem C24_level_unique: the level is determined).
-/
open Opcua Opcua.EndpointSel

def parseEps : List String → Option (List Endpoint)
  | [] => some []
  | u :: m :: l :: r => do
      let ub ← fromHex u
      let mode ← m.toNat?
      let lvl ← l.toNat?
      let t ← parseEps r
      pure (⟨ub, mode, lvl⟩ :: t)
  | _ => none

def handle : List String → String
  | ["fmt", p] =>
    match fromHex p with
    | some b => toHex (formatPolicy b)
    | none => "bad-op"
  | "sel" :: p :: m :: rest =>
    match fromHex p, m.toNat?, parseEps rest with
    | some pb, some mode, some eps =>
      match selectWith sortDesc eps pb mode with
      | some e => s!"ok {e.level}"
      | none => "err"
    | _, _, _ => "bad-op"
  | _ => "bad-op"

def main : IO Unit := runDriver handle
