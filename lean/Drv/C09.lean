import OpcuaModel.Base.Loop
import OpcuaModel.Model.Tamper
/-
  Driver for C09.
    vad <enc 0|1> <H> <RS> <S> <v 0|1> <dec aes|ok|fail> <hex b>
        → ok <dataLen> | err | panic <site>
    carve <modeNone 0|1> <policyNone 0|1> <asym 0|1> → raw | secured
  `b` is the chunk in its post-decryption form (header ‖ plaintext); `dec`
  selects how `c.algo.Decrypt` behaves on `b[H:]`: `aes` = length preserving,
  refuses < 16 bytes and non-multiples of 16 (uapolicy/crypto_aes.go), `ok` =
  succeeds with these bytes, `fail` = error. `v` = whether the signature
  verifies (1 only for chunks made with the right keys).
-/
open Opcua Opcua.Tamper

def siteName : Site → String
  | .hdr => "hdr"
  | .padByte => "padByte"
  | .padByte2 => "padByte2"

def decOf : String → Option (Bytes → Option Bytes)
  | "aes" => some fun x => if 16 ≤ x.length ∧ x.length % 16 = 0 then some x else none
  | "ok" => some fun x => some x
  | "fail" => some fun _ => none
  | _ => none

def handle : List String → String
  | ["vad", e, h, rs, s, v, d, hex] =>
    match h.toNat?, rs.toNat?, s.toNat?, decOf d, fromHex hex with
    | some H, some RS, some S, some dec, some b =>
      let P : Params := { H := H, RS := RS, S := S, enc := e == "1" }
      match verifyAndDecrypt P dec (fun _ _ => v == "1") b with
      | .ok data => s!"ok {data.length}"
      | .err => "err"
      | .panic site => s!"panic {siteName site}"
    | _, _, _, _, _ => "bad-op"
  | ["carve", m, p, a] => if carveOut (m == "1") (p == "1") (a == "1") then "raw" else "secured"
  | _ => "bad-op"

def main : IO Unit := runDriver handle
