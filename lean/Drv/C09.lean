import OpcuaModel.Base.Loop
import OpcuaModel.Model.Tamper
import OpcuaModel.Model.TamperChan
/-
  Driver for C09.
    vad <enc 0|1> <H> <RS> <S> <v 0|1> <dec aes|ok|fail> <hex b>
        → ok <dataLen> | err | panic <site>
    carve <modeNone 0|1> <policyNone 0|1> <asym 0|1> → raw | secured
    chan <modeNone> <modeSE> <policyNone> <opening|-> <derive|none> <chanID> <n> <inst>*n <hex frame>
        → deliver <seqHdrHex> <bodyLen> <policyNone'> | err <policyNone'> | eof | panic
      inst = RS:S:v:mode:plainhex   (mode id|aes|fail; plain `-` = decryption is the identity);
      the n instances are those stored for <chanID>, oldest first
  `b` is the chunk in its post-decryption form (header ‖ plaintext); `dec`
  selects how `c.algo.Decrypt` behaves on `b[H:]`: `aes` = length preserving,
  refuses < 16 bytes and non-multiples of 16 (uapolicy/crypto_aes.go), `ok` =
  succeeds with these bytes, `fail` = error. `v` = whether the signature
  verifies (1 only for chunks made with the right keys).
-/
open Opcua Opcua.Tamper

def siteName : Site → String
  | .hdr => "hdr"
  | .padByte => "padByte"
  | .padByte2 => "padByte2"

def decOf : String → Option (Bytes → Option Bytes)
  | "aes" => some fun x => if 16 ≤ x.length ∧ x.length % 16 = 0 then some x else none
  | "ok" => some fun x => some x
  | "fail" => some fun _ => none
  | _ => none

def noneURI : Bytes := "http://opcfoundation.org/UA/SecurityPolicy#None".toUTF8.toList

def instOf (tok : String) : Option Inst :=
  match tok.splitOn ":" with
  | [rs, s, v, mode, plain] =>
    match rs.toNat?, s.toNat?, (if plain = "-" then some none else (fromHex plain).map some) with
    | some RS, some S, some pl =>
      let out : Bytes → Bytes := fun x => pl.getD x
      let dec : Option (Bytes → Option Bytes) :=
        if mode = "id" then some fun x => some (out x)
        else if mode = "aes" then some fun x => if 16 ≤ x.length ∧ x.length % 16 = 0 then some (out x) else none
        else if mode = "fail" then some fun _ => none
        else none
      dec.map fun d => { RS := RS, S := S, dec := d, verify := fun _ _ => v == "1" }
    | _, _, _ => none
  | _ => none

def mkState (a b c : Bool) (op : Option Inst) (cid : Nat) (il : List Inst) : ChanState :=
  ⟨a, b, c, op, fun k => if k = cid then il else []⟩

def handleChan (mn mse pn opening derive chanID : String) (rest : List String) : String :=
  match chanID.toNat?, rest.reverse with
  | some cid, hex :: revInsts =>
    let insts := revInsts.reverse.drop 1
    match fromHex hex, insts.mapM instOf,
        (if opening = "-" then some none else (instOf opening).map some),
        (if derive = "none" then some none else (instOf derive).map some) with
    | some f, some il, some op, some dv =>
      let st : ChanState := mkState (mn == "1") (mse == "1") (pn == "1") op cid il
      let (st', r) := readChunk (fun _ _ => dv) (fun u => u == noneURI) st f
      let p := if st'.policyNone then "1" else "0"
      match r with
      | .deliver sh body => s!"deliver {toHex sh} {body.length} {p}"
      | .err => s!"err {p}"
      | .eof => "eof"
      | .panic _ => "panic"
    | _, _, _, _ => "bad-op"
  | _, _ => "bad-op"

def handle : List String → String
  | "chan" :: mn :: mse :: pn :: opening :: derive :: chanID :: rest => handleChan mn mse pn opening derive chanID rest
  | ["vad", e, h, rs, s, v, d, hex] =>
    match h.toNat?, rs.toNat?, s.toNat?, decOf d, fromHex hex with
    | some H, some RS, some S, some dec, some b =>
      let P : Params := { H := H, RS := RS, S := S, enc := e == "1" }
      match verifyAndDecrypt P dec (fun _ _ => v == "1") b with
      | .ok data => s!"ok {data.length}"
      | .err => "err"
      | .panic site => s!"panic {siteName site}"
    | _, _, _, _, _ => "bad-op"
  | ["carve", m, p, a] => if carveOut (m == "1") (p == "1") (a == "1") then "raw" else "secured"
  | _ => "bad-op"

def main : IO Unit := runDriver handle
