import OpcuaModel.Base.Loop
import OpcuaModel.Model.Browse
import OpcuaModel.Gen.RefTypes
/-
  Driver for C33 (the HasSubtype forest is the generated one).
    b <dir> <refType> <sub 0|1> <mask> <ref>*   → ok <type:fwd:target>*   (implementation order)
        ref = type:fwd(0|1):target:storedClass:nil(0|1):targetClass:targetExists(0|1)
    srt <t1> <t2> <sub 0|1>                     → yes | no
    subs <t>                                    → the list getSubRefs returns (`-` when empty)
-/
open Opcua Opcua.Browse

def parseRef (s : String) : Option Ref :=
  match s.splitOn ":" with
  | [t, f, tg, c, n, tc, te] => do
    pure { refType := (← t.toNat?), isForward := (← f.toNat?) == 1, target := (← tg.toNat?),
           storedClass := (← c.toNat?), targetClass := (← tc.toNat?), targetExists := (← te.toNat?) == 1,
           nilField := (← n.toNat?) == 1 }
  | _ => none

def showRef (r : Ref) : String := s!"{r.refType}:{if r.isForward then 1 else 0}:{r.target}"

def showB (b : Bool) : String := if b then "yes" else "no"

def handle : List String → String
  | "b" :: dir :: rt :: sub :: mask :: refs =>
    match dir.toNat?, rt.toNat?, sub.toNat?, mask.toNat?, refs.mapM parseRef with
    | some d, some t, some s, some m, some rs =>
      " ".intercalate ("ok" :: (browse Gen.refTypeSubs Gen.refTypeFuel ⟨d, t, s == 1, m⟩ rs).map showRef)
    | _, _, _, _, _ => "bad-op"
  | ["srt", a, b, s] =>
    match a.toNat?, b.toNat?, s.toNat? with
    | some t1, some t2, some sub => showB (suitableRefType Gen.refTypeSubs Gen.refTypeFuel t1 t2 (sub == 1))
    | _, _, _ => "bad-op"
  | ["subs", a] =>
    match a.toNat? with
    | some t =>
      let l := getSubRefs Gen.refTypeSubs Gen.refTypeFuel t
      if l.isEmpty then "-" else " ".intercalate (l.map toString)
    | none => "bad-op"
  | _ => "bad-op"

def main : IO Unit := runDriver handle
