import OpcuaModel.Base.Loop
import OpcuaModel.Model.Session
import OpcuaModel.Gen.SessionFacts
import OpcuaModel.Model.ReconnectSession
/-
  Driver for C22.
    facts                                    → <verifyErrReturned> <rsaAssertChecked> <nilSessionChecked>
    connect <mode> <create> <cert> <sigkey> <sigdata> <mangle> <activate> <nsread> <nsStrings>
                                             → <ok|err|panic> <state,state,…> <activateSent 0|1>
    sigvalid <cert> <sigkey> <sigdata> <mangle>  → valid | invalid
    recreate <mode> <create> <cert> <sigkey> <sigdata> <mangle> <activate> <nsread> <nsStrings>
                                             → <session|retry|panic> <activateSent 0|1>     (monitor action recreateSession)
  The model is evaluated with the code facts the generator read from the tree.
-/
open Opcua Opcua.Session

def resp? : String → Option Resp
  | "ok" => some .ok | "badStatus" => some .badStatus | "fault" => some .fault | "wrongType" => some .wrongType
  | _ => none
def cert? : String → Option Cert
  | "own" => some .own | "otherRsa" => some .otherRsa | "wrongSize" => some .wrongSize
  | "unparsable" => some .unparsable | "empty" => some .empty | "nonRsa" => some .nonRsa
  | "chainOwnOther" => some .chainOwnOther | "chainOtherOwn" => some .chainOtherOwn
  | _ => none
def sigKey? : String → Option SigKey
  | "own" => some .own | "other" => some .other | _ => none
def sigData? : String → Option SigData
  | "right" => some .right | "wrongNonce" => some .wrongNonce | "wrongCert" => some .wrongCert | _ => none
def mangle? : String → Option Mangle
  | "intact" => some .intact | "bitFlipped" => some .bitFlipped | "truncated" => some .truncated | "empty" => some .empty
  | _ => none
def bool? : String → Option Bool
  | "0" => some false | "1" => some true | _ => none

def stateName : ConnState → String
  | .closed => "Closed" | .connected => "Connected" | .connecting => "Connecting"
  | .disconnected => "Disconnected" | .reconnecting => "Reconnecting"
def outcomeName : Outcome → String
  | .ok => "ok" | .err => "err" | .panic => "panic"
def b01 (b : Bool) : String := if b then "1" else "0"

def handle : List String → String
  | ["facts"] =>
    let f := Gen.sessionFacts
    s!"{b01 f.verifyErrReturned} {b01 f.rsaAssertChecked} {b01 f.nilSessionChecked}"
  | ["connect", m, cr, ce, sk, sd, mg, ac, nr, ni] =>
    match m.toNat? >>= Mode.ofNat?, resp? cr, cert? ce, sigKey? sk, sigData? sd, mangle? mg, resp? ac, resp? nr, bool? ni with
    | some m, some cr, some ce, some sk, some sd, some mg, some ac, some nr, some ni =>
      let r := connect Gen.sessionFacts m ⟨cr, ce, sk, sd, mg, ac, nr, ni⟩
      s!"{outcomeName r.outcome} {",".intercalate (r.states.map stateName)} {b01 r.activateSent}"
    | _, _, _, _, _, _, _, _, _ => "bad-op"
  | ["recreate", m, cr, ce, sk, sd, mg, ac, nr, ni] =>
    match m.toNat? >>= Mode.ofNat?, resp? cr, cert? ce, sigKey? sk, sigData? sd, mangle? mg, resp? ac, resp? nr, bool? ni with
    | some m, some cr, some ce, some sk, some sd, some mg, some ac, some nr, some ni =>
      let r := ReconnectSession.recreateSession Gen.sessionFacts m ⟨cr, ce, sk, sd, mg, ac, nr, ni⟩
      let o := match r.outcome with | .session => "session" | .retry => "retry" | .panic => "panic"
      s!"{o} {b01 r.activateSent}"
    | _, _, _, _, _, _, _, _, _ => "bad-op"
  | ["sigvalid", ce, sk, sd, mg] =>
    match cert? ce, sigKey? sk, sigData? sd, mangle? mg with
    | some ce, some sk, some sd, some mg =>
      if sigVerifies ⟨.ok, ce, sk, sd, mg, .ok, .ok, true⟩ then "valid" else "invalid"
    | _, _, _, _ => "bad-op"
  | _ => "bad-op"

def main : IO Unit := runDriver handle
