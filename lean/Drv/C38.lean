import OpcuaModel.Base.Loop
import OpcuaModel.Model.SecureLen
import OpcuaModel.Gen.MaxBody
import OpcuaModel.Gen.Policies
/-
  Driver for C38 (also used by C07 for the length part).
    maxbody <policy> <chunkSize>          → <maxBodySize>
    seclen  <policy> <mode> <bodyLen>     → <chunkLen> <sizeField> <ok|encrypt-refuses>
-/
open Opcua

def findRow (name : String) : Option AlgoParams :=
  Gen.symmetricRows.find? (·.name == name)

def handle : List String → String
  | ["maxbody", p, cs] =>
    match findRow p, cs.toInt? with
    | some a, some c => toString (Gen.setMaximumBodySize a c)
    | _, _ => "bad-op"
  | ["seclen", p, m, n] =>
    match findRow p, m.toNat? >>= Mode.ofNat?, n.toInt? with
    | some a, some mode, some k =>
      let r := secureLen a mode (rawLenOfBody k)
      s!"{r.chunkLen} {r.sizeField} {if r.encryptOk then "ok" else "encrypt-refuses"}"
    | _, _, _ => "bad-op"
  | _ => "bad-op"

def main : IO Unit := runDriver handle
