import OpcuaModel.Base.Loop
import OpcuaModel.Model.PubLoop
/-
  Driver for C27.
    trace <subscribes> <forgets> <stale> <staleD> <reconnects> <nsubs> <label>…  → ok <dead|rest|live> <state> | invalid <k>
    after <state> <op>            → the quiescent states reachable by internal steps, separated by `|`
    member <state> <op> <obs>     → yes | no      (obs = projection of a quiescent state)
  state = pause,resume,mux,loop,subSend,subLock,fgStart,fgStale,fgStaleD,monPause,monResume,nsubs
  op    = S (a Subscribe call starts) | F (ForgetSubscription of a registered id) |
          G (… of an id that is not registered) | Gt (… with a context deadline) | Dl (that deadline passes) |
          Rdata (the outstanding publish is answered with a data notification) | T (the application takes it) | M (a reconnect round of Client.monitor starts) |
          Rok | Rign | Rerr (the outstanding publish ends) | X (connection dropped: publish fails and a
          reconnect round starts) | N (nothing)
  obs   = pause,resume,loop,mux,subSend,subLock,fgWait,monPause,nsubs   (nsubs = ? while the lock is held)
-/
open Opcua Opcua.PubLoop

/-- full names for the state text (the observation only sees `wantLock`) -/
def loopFull : Loop → String
  | .wantLockD => "wantLockD"
  | l => match l with
    | .sel => "sel" | .paused => "paused" | .pubStart => "pubStart" | .inflight => "inflight"
    | .wantLock => "wantLock" | .wantLockD => "wantLockD" | .notifying => "notifying" | .selfPause => "selfPause"

def loopName : Loop → String
  | .sel => "sel" | .paused => "paused" | .pubStart => "pubStart" | .inflight => "inflight"
  | .wantLock => "wantLock" | .wantLockD => "wantLock" | .notifying => "notifying" | .selfPause => "selfPause"

def parseLoop : String → Option Loop
  | "sel" => some .sel | "paused" => some .paused | "pubStart" => some .pubStart
  | "inflight" => some .inflight | "wantLock" => some .wantLock | "wantLockD" => some .wantLockD
  | "notifying" => some .notifying | "selfPause" => some .selfPause
  | _ => none

def muxName : Mux → String
  | .free => "free" | .forgetSending => "held" | .forgetSendingD => "held"

def muxFull : Mux → String
  | .free => "free" | .forgetSending => "held" | .forgetSendingD => "heldD"

def parseMux : String → Option Mux
  | "free" => some .free | "held" => some .forgetSending | "heldD" => some .forgetSendingD | _ => none

def showSt (s : St) : String :=
  s!"{s.pause},{s.resume},{muxFull s.mux},{loopFull s.loop},{s.subSend},{s.subLock},{s.fgStart},{s.fgStale},{s.fgStaleD},{s.monPause},{s.monResume},{s.nsubs}"

def parseSt (t : String) : Option St :=
  match t.splitOn "," with
  | [p, r, m, l, a, b, c, d, dd, e, f, n] => do
    pure { pause := ← p.toNat?, resume := ← r.toNat?, mux := ← parseMux m, loop := ← parseLoop l,
           subSend := ← a.toNat?, subLock := ← b.toNat?, fgStart := ← c.toNat?, fgStale := ← d.toNat?,
           fgStaleD := ← dd.toNat?, monPause := ← e.toNat?, monResume := ← f.toNat?, nsubs := ← n.toNat? }
  | _ => none

def obsOf (s : St) : String :=
  let n := if s.mux = .free then toString s.nsubs else "?"
  s!"{s.pause},{s.resume},{loopName s.loop},{muxName s.mux},{s.subSend},{s.subLock},{s.fgStart + s.fgStale + s.fgStaleD},{s.monPause},{n}"

def parseLabel (t : String) : Option Label :=
  Label.all.find? fun l => (reprStr l).endsWith ("." ++ t)

def applyOp (s : St) : String → Option St
  | "S" => some { s with subSend := s.subSend + 1 }
  | "F" => some { s with fgStart := s.fgStart + 1 }
  | "G" => some { s with fgStale := s.fgStale + 1 }
  | "Gt" => some { s with fgStaleD := s.fgStaleD + 1 }
  | "Dl" => some ((step s .fgGiveUp).getD s)
  | "Rdata" => step s .respData
  | "T" => step s .appTake
  | "M" => some { s with monPause := s.monPause + 1 }
  | "Rok" => step s .respOk
  | "Rign" => step s .respIgnored
  | "Rerr" => step s .respErr
  | "Rlie" => step s .respErr
  | "Rbad" =>
    -- a publish response with an unhandled bad ServiceResult: publish() fails (after
    -- handing the error to detached per-subscription goroutines) and the same status
    -- reaches Client.monitor, which starts a reconnect round
    let s1 := (step s .respErr).getD s
    some { s1 with monPause := s1.monPause + 1 }
  | "X" =>
    let s1 := (step s .respErr).getD s
    some { s1 with monPause := s1.monPause + 1 }
  | "N" => some s
  | _ => none

def handle : List String → String
  | "trace" :: a :: b :: c :: cd :: d :: n :: labels =>
    match a.toNat?, b.toNat?, c.toNat?, cd.toNat?, d.toNat?, n.toNat?, labels.mapM parseLabel with
    | some a, some b, some c, some cd, some d, some n, some ls =>
      let rec go (s : St) (k : Nat) : List Label → String
        | [] =>
          let v := if canStep s then "live" else if atRest s then "rest" else "dead"
          s!"ok {v} {showSt s}"
        | l :: rest => match step s l with
          | some s' => go s' (k + 1) rest
          | none => s!"invalid {k}"
      go (init a b c cd d n) 0 ls
    | _, _, _, _, _, _, _ => "bad-op"
  | ["after", st, op] =>
    match parseSt st >>= (applyOp · op) with
    | some s => "|".intercalate ((quiesce 4000 [s] []).map showSt)
    | none => "invalid"
  | ["member", st, op, obs] =>
    match parseSt st >>= (applyOp · op) with
    | some s => if (quiesce 4000 [s] []).any (fun q => obsOf q == obs) then "yes" else "no"
    | none => "invalid"
  | ["pick", st, op, obs] =>
    match parseSt st >>= (applyOp · op) with
    | some s => match (quiesce 4000 [s] []).find? (fun q => obsOf q == obs) with
      | some q => showSt q
      | none => "none"
    | none => "invalid"
  | ["verdict", st] =>
    match parseSt st with
    | some s => if canStep s then "live" else if stalled s then "stalled" else if atRest s then "rest" else "dead"
    | none => "invalid"
  | _ => "bad-op"

def main : IO Unit := runDriver handle
