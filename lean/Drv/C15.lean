import OpcuaModel.Base.Loop
import OpcuaModel.Model.Asym
import OpcuaModel.Gen.Asym
import OpcuaModel.Model.RsaRef
/-
  Driver for C15.
    accept <policy> <localBits|-> <remoteBits|->   → ok | err
    params <policy> <localBytes> <remoteBytes>     → <blockSize> <plaintextBlockSize> <sigLen> <remoteSigLen> <nonceLen>
    enc    <policy> <kBytes> <len>                 → ok <cipherLen> <rt|nort> | err | panic | diverge
    raw    <scheme> <kBytes> <len>                 → the same through the bare struct (no constructor limits)
    dec    <policy> <kBytes> <len> <trunc>         → ok <plainLen> | err      (ciphertext of a <len>-byte plaintext cut to <trunc> bytes)
    nokey                                          → err err
    rsaverify <sha1|sha256> <nHex> <e> <msgHex> <sigHex> → ok | bad      (Lean reference RSASSA-PKCS1-v1_5 verification)
    rsaem <nHex> <e> <sigHex>                      → <hex of I2OSP(sig^e mod n, k)> | bad
-/
open Opcua Opcua.Asym
open Opcua.RsaRef in
def hashOf : String → Option Opcua.CryptoRef.HashAlg
  | "sha1" => some .sha1
  | "sha256" => some .sha256
  | _ => none

def findRow (name : String) : Option AsymRow :=
  Gen.asymRows.find? (·.name == name)

def schemeOf : String → Option (Scheme × Int)
  | "pkcs1v15" => some (.pkcs1v15, Gen.pKCS1v15MinPadding)
  | "oaepSha1" => some (.oaepSha1, Gen.rSAOAEPMinPaddingSHA1)
  | "oaepSha256" => some (.oaepSha256, Gen.rSAOAEPMinPaddingSHA256)
  | _ => none

def plain (n : Nat) : Bytes := (List.range n).map fun i => UInt8.ofNat (i % 251)

def mkToy (s : Scheme) (k : Nat) : Option BlockRSA :=
  let cap := Spec.capacity s k
  if h : cap + 2 ≤ k ∧ k < 65536 then some (toy k cap h.1 h.2) else none

def showEnc (R : BlockRSA) (pad : Int) (n : Nat) : String :=
  let p := plain n
  match encrypt true R (fun i => i + 1) pad p with
  | .ok c =>
    let rt := match decrypt true R c with
      | .ok q => if q = p then "rt" else "nort"
      | _ => "nort"
    s!"ok {c.length} {rt}"
  | .err => "err"
  | .panic => "panic"
  | .diverge => "diverge"

def optBits (s : String) : Option (Bool × Int) :=
  if s = "-" then some (false, 0) else s.toInt?.map fun b => (true, b)

def handle : List String → String
  | ["accept", p, l, r] =>
    match findRow p, optBits l, optBits r with
    | some row, some (hl, ls), some (hr, rs) => if row.accept hl ls hr rs then "ok" else "err"
    | _, _, _ => "bad-op"
  | ["params", p, l, r] =>
    match findRow p, l.toInt?, r.toInt? with
    | some row, some ls, some rs =>
      if row.scheme = .none then "1 1 0 0 0"
      else s!"{rs} {rs - row.ptPad} {ls} {rs} {row.nonceLength}"
    | _, _, _ => "bad-op"
  | ["enc", p, k, n] =>
    match findRow p, k.toNat?, n.toNat? with
    | some row, some kk, some nn =>
      if row.scheme = .none then s!"ok {nn} rt" else
      match mkToy row.scheme kk with
      | some R => showEnc R row.encPad nn
      | none => "bad-op"
    | _, _, _ => "bad-op"
  | ["raw", s, k, n] =>
    match schemeOf s, k.toNat?, n.toNat? with
    | some (sc, pad), some kk, some nn =>
      match mkToy sc kk with
      | some R => showEnc R pad nn
      | none => "bad-op"
    | _, _, _ => "bad-op"
  | ["dec", p, k, n, t] =>
    match findRow p, k.toNat?, n.toNat?, t.toNat? with
    | some row, some kk, some nn, some tt =>
      match mkToy row.scheme kk with
      | some R =>
        match encrypt true R (fun i => i + 1) row.encPad (plain nn) with
        | .ok c =>
          match decrypt true R (c.take tt) with
          | .ok q => s!"ok {q.length}"
          | .err => "err"
          | .panic => "panic"
          | .diverge => "diverge"
        | _ => "bad-op"
      | none => "bad-op"
    | _, _, _, _ => "bad-op"
  | ["rsaverify", alg, nHex, e, msgHex, sigHex] =>
    match hashOf alg, fromHex nHex, e.toNat?, fromHex msgHex, fromHex sigHex with
    | some h, some nb, some ee, some msg, some sig =>
      if Opcua.RsaRef.rsaVerifyPkcs1v15 (Opcua.RsaRef.os2ip nb) ee h msg sig then "ok" else "bad"
    | _, _, _, _, _ => "bad-op"
  | ["rsaem", nHex, e, sigHex] =>
    match fromHex nHex, e.toNat?, fromHex sigHex with
    | some nb, some ee, some sig =>
      let n := Opcua.RsaRef.os2ip nb
      let k := Opcua.RsaRef.byteLen n
      if sig.length ≠ k ∨ Opcua.RsaRef.os2ip sig ≥ n then "bad"
      else toHex (Opcua.RsaRef.i2osp (Opcua.RsaRef.modPow (Opcua.RsaRef.os2ip sig) ee n) k)
    | _, _, _ => "bad-op"
  | ["nokey"] =>
    match mkToy .oaepSha1 256 with
    | some R =>
      let a := match encrypt false R (fun _ => 0) 42 [1] with | .err => "err" | _ => "other"
      let b := match decrypt false R [1] with | .err => "err" | _ => "other"
      s!"{a} {b}"
    | none => "bad-op"
  | _ => "bad-op"

def main : IO Unit := runDriver handle
