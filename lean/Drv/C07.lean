import OpcuaModel.Base.Loop
import OpcuaModel.Model.ChunkRef
import OpcuaModel.Model.Uacp
/-
  Driver for C07: the byte-level chunk model with reference crypto.

    selftest
        → ok | <names of failed test vectors>
    maxbody <policy> <cs>
        → <maxBodySize>
    enc <maxBody> <MSG|CLO> <chan> <tok> <seq> <req> <body>
        → <n> <sha256 of chunk 1> …                      (`encodeChunks`)
    sec <policy> <mode> <localNonce> <remoteNonce> <MSG|…> <rawchunk>
        → ok <len> <sha256> | err | panic                 (`signAndEncrypt`)
    vad <policy> <mode> <localNonce> <remoteNonce> <wirechunk>
        → ok <hex of data> | err | panic                  (`verifyAndDecrypt`, symmetric)
    merge <seq>:<hexdata> …
        → <hex>                                           (`mergeChunks`)
    send <policy> <mode> <cs> <seq> <chan> <tok> <req> <localNonce> <remoteNonce> <body>
        → ok <seq'> <n> <len>.<flag>.<sizefield>.<sha256> … | err | panic   (`sendMessage`)
    sendhex …same arguments…
        → ok <seq'> <hex of chunk 1> …                    (for diagnosis)
    asymparams <localSize> <remoteSize> <pad>
        → <blockSize> <plaintextBlockSize> <signatureLength> <remoteSignatureLength>   (`asymParams`)
    asymlen <mode> <sig> <rsl> <pbs> <bs> <hl> <rawlen>
        → ok <len> <sizefield> | err | panic      (`signAndEncrypt`, asymmetric, length-preserving dummy primitives)
    asymtail <mode> <sig> <rsl> <hl> <header ‖ decrypted plaintext>
        → ok <hex> | err | panic                  (`verifyTail`, asymmetric, signature verdict = valid)
    session <policy> <mode> <cs> <seq> <chan> <tok> <localNonce> <remoteNonce> <req>:<body> …
        → ok <seq'> <n> <len>.<flag>.<sizefield>.<sha256> … | err | panic   (`sendSession`: several messages, one instance)
    recvmany <policy> <mode> <maxChunkCount> <maxMessageSize> <localNonce> <remoteNonce> <wirechunk> …
        → <k> <req>.<chan>.<len>.<sha256>|err|panic …                       (`receiveMany`, empty table)
    frames <rcvBuf> <tcp segment> …
        → <n> <eof|other> <sha256 of frame 1> …    (`Uacp.receiveAll`: the framing layer on a segmented stream)
    recv <policy> <mode> <maxChunkCount> <maxMessageSize> <localNonce> <remoteNonce> <wirechunk> …
        → ok <req> <chan> <len> <sha256 of body> <leftover> | continue | err | panic   (`receiveAll`, empty table)
-/
open Opcua Opcua.Chunk Opcua.ChunkRef

def modeOf (s : String) : Option Mode := s.toNat? >>= Mode.ofNat?

def mtOf (s : String) : Bytes := s.toUTF8.data.toList

def chunkDigest (w : Bytes) : String :=
  let flag := match (w.drop 3).head? with
    | some f => String.singleton (Char.ofNat f.toNat)
    | none => "?"
  s!"{w.length}.{flag}.{u32At w 4}.{sha256Hex w}"

def resStr {α : Type} (r : Res α) (f : α → String) : String :=
  match r with
  | .ok a => f a
  | .err => "err"
  | .panic => "panic"

def parseChunks (l : List String) : Option (List Bytes) := l.mapM unhexFast

def parseMerge (l : List String) : Option (List RChunk) :=
  l.mapM fun t =>
    match t.splitOn ":" with
    | [s, d] => do
      let sq ← s.toNat?
      let dd ← unhexFast d
      pure { chunkType := chunkC, channelID := 0, seq := sq, requestID := 0, data := dd }
    | _ => none

/-- an asymmetric side with length-faithful dummy primitives: the RSA
    operations themselves are the subject of C15, here only the layout logic -/
def asymSide (mode : Mode) (sig rsl pbs bs : Nat) : Side :=
  ⟨mode, false,
   { name := "asym", blockSize := bs, plaintextBlockSize := pbs, signatureLength := sig, remoteSignatureLength := rsl },
   { enc := fun p => some (List.replicate (p.length / pbs * bs) 0), dec := fun _ => none,
     sign := fun _ => some (List.replicate sig 0), verify := fun _ _ => true }⟩

def handle : List String → String
  | ["selftest"] =>
    match CryptoRef.selfTestFailures ++ (if cbcCrossCheck then [] else ["cbc-list-vs-bytearray"]) with
    | [] => "ok"
    | l => " ".intercalate l
  | ["maxbody", p, cs] =>
    match findRow p, cs.toInt? with
    | some a, some c => toString (maxBodyOf a c)
    | _, _ => "bad-op"
  | ["enc", mb, mt, chan, tok, seq, req, body] =>
    match mb.toNat?, chan.toNat?, tok.toNat?, seq.toNat?, req.toNat?, unhexFast body with
    | some mb, some chan, some tok, some seq, some req, some body =>
      let cs := encodeChunks mb ⟨mtOf mt, chan, tok, seq, req⟩ body
      s!"{cs.length} " ++ " ".intercalate (cs.map sha256Hex)
    | _, _, _, _, _, _ => "bad-op"
  | ["sec", p, m, ln, rn, raw] =>
    match modeOf m, unhexFast ln, unhexFast rn, unhexFast raw with
    | some mode, some ln, some rn, some raw =>
      match mkSide p mode ln rn with
      | some s => resStr (signAndEncrypt s false 16 raw) fun w => s!"ok {w.length} {sha256Hex w}"
      | none => "bad-op"
    | _, _, _, _ => "bad-op"
  | ["vad", p, m, ln, rn, wire] =>
    match modeOf m, unhexFast ln, unhexFast rn, unhexFast wire with
    | some mode, some ln, some rn, some wire =>
      match mkSide p mode ln rn with
      | some s => resStr (verifyAndDecrypt s false 16 wire) fun d => s!"ok {toHex d}"
      | none => "bad-op"
    | _, _, _, _ => "bad-op"
  | "merge" :: rest =>
    match parseMerge rest with
    | some cs => toHex (mergeChunks cs)
    | none => "bad-op"
  | ["asymparams", ls, rs, pad] =>
    match ls.toNat?, rs.toNat?, pad.toNat? with
    | some ls, some rs, some pad =>
      let a := asymParams ls rs pad
      s!"{a.blockSize} {a.plaintextBlockSize} {a.signatureLength} {a.remoteSignatureLength}"
    | _, _, _ => "bad-op"
  | ["asymlen", m, sig, rsl, pbs, bs, hl, rawlen] =>
    match modeOf m, sig.toNat?, rsl.toNat?, pbs.toNat?, bs.toNat?, hl.toNat?, rawlen.toNat? with
    | some mode, some sig, some rsl, some pbs, some bs, some hl, some rawlen =>
      resStr (signAndEncrypt (asymSide mode sig rsl pbs bs) true hl (List.replicate rawlen 0))
        fun w => s!"ok {w.length} {u32At w 4}"
    | _, _, _, _, _, _, _ => "bad-op"
  | ["asymtail", m, sig, rsl, hl, data] =>
    match modeOf m, sig.toNat?, rsl.toNat?, hl.toNat?, unhexFast data with
    | some mode, some sig, some rsl, some hl, some data =>
      resStr (verifyTail (asymSide mode sig rsl 1 1) true hl data) fun d => s!"ok {toHex d}"
    | _, _, _, _, _ => "bad-op"
  | "session" :: p :: m :: cs :: seq :: chan :: tok :: ln :: rn :: msgs =>
    match modeOf m, cs.toInt?, seq.toInt?, chan.toNat?, tok.toNat?, unhexFast ln, unhexFast rn with
    | some mode, some cs, some seq, some chan, some tok, some ln, some rn =>
      let parsed : Option (List (Nat × Bytes)) := msgs.mapM fun t =>
        match t.splitOn ":" with
        | [r, b] => do
          let rr ← r.toNat?
          let bb ← unhexFast b
          pure (rr, bb)
        | _ => none
      match mkSide p mode ln rn, parsed with
      | some s, some ms =>
        let r := sendSession s (maxBodyOf s.algo cs) chan tok seq ms
        resStr r.2 fun ws => s!"ok {r.1} {ws.length} " ++ " ".intercalate (ws.map chunkDigest)
      | _, _ => "bad-op"
    | _, _, _, _, _, _, _ => "bad-op"
  | "recvmany" :: p :: m :: mcc :: mms :: ln :: rn :: chunks =>
    match modeOf m, mcc.toNat?, mms.toNat?, unhexFast ln, unhexFast rn, parseChunks chunks with
    | some mode, some mcc, some mms, some ln, some rn, some ws =>
      match mkSide p mode ln rn with
      | some s =>
        let rs := receiveMany (fun _ => [s]) ⟨mcc, mms⟩ ws.length (fun _ => []) ws
        s!"{rs.length} " ++ " ".intercalate (rs.map fun r =>
          resStr r fun o => s!"{o.requestID}.{o.channelID}.{o.body.length}.{sha256Hex o.body}")
      | none => "bad-op"
    | _, _, _, _, _, _ => "bad-op"
  | "frames" :: rb :: segs =>
    match rb.toNat?, parseChunks segs with
    | some rb, some ss =>
      let r := Uacp.receiveAll rb ss
      let stop := match r.2 with
        | .eof => "eof"
        | _ => "other"
      s!"{r.1.length} {stop} " ++ " ".intercalate (r.1.map sha256Hex)
    | _, _ => "bad-op"
  | "recv" :: p :: m :: mcc :: mms :: ln :: rn :: chunks =>
    match modeOf m, mcc.toNat?, mms.toNat?, unhexFast ln, unhexFast rn, parseChunks chunks with
    | some mode, some mcc, some mms, some ln, some rn, some ws =>
      match mkSide p mode ln rn with
      | some s =>
        match receiveAll (fun _ => [s]) ⟨mcc, mms⟩ (fun _ => []) ws with
        | (_, none, _) => "continue"
        | (_, some r, left) =>
          resStr r fun o => s!"ok {o.requestID} {o.channelID} {o.body.length} {sha256Hex o.body} {left.length}"
      | none => "bad-op"
    | _, _, _, _, _, _ => "bad-op"
  | [cmd, p, m, cs, seq, chan, tok, req, ln, rn, body] =>
    if cmd ≠ "send" ∧ cmd ≠ "sendhex" then "bad-op" else
    match modeOf m, cs.toInt?, seq.toInt?, chan.toNat?, tok.toNat?, req.toNat? with
    | some mode, some cs, some seq, some chan, some tok, some req =>
      match unhexFast ln, unhexFast rn, unhexFast body with
      | some ln, some rn, some body =>
        match mkSide p mode ln rn with
        | some s =>
          let r := sendMessage s (maxBodyOf s.algo cs) seq typeMSG chan tok req body
          resStr r.2 fun ws =>
            if cmd = "send" then s!"ok {r.1} {ws.length} " ++ " ".intercalate (ws.map chunkDigest)
            else s!"ok {r.1} " ++ " ".intercalate (ws.map toHex)
        | none => "bad-op"
      | _, _, _ => "bad-op"
    | _, _, _, _, _, _ => "bad-op"
  | _ => "bad-op"

def main : IO Unit := runDriver handle
