package sscript

import (
	"bufio"
	"bytes"
	"fmt"
	"os"
	"os/exec"
	"strings"
	"time"
)

// Answer is what a batch child said about one case.
type Answer struct {
	Line  string // the child's answer line ("" = none)
	Extra string // text after " | " (panic message, error text)
	Died  string // non-empty: the child process died on this case; first panic line of its stderr
	Infra string // non-empty: infrastructure trouble, says nothing about the case
}

// RunBatch feeds cases[idx...] to child processes (re-exec of this binary with
// env) over stdin, one line "<index> <seed> <case>" each; the child answers
// "<index> <answer> | <extra>" per case.  A child that dies is replaced and
// the case it was working on is marked Died (a panic outside the goroutine
// that runs the case kills the whole process: that is the observation).
func RunBatch(env []string, cases []string, idx []int, outs []Answer, seed uint64, perCase time.Duration) {
	pos, restarts := 0, 0
	for pos < len(idx) {
		cmd := exec.Command(os.Args[0])
		cmd.Env = append(append(os.Environ(), "GOTRACEBACK=single"), env...)
		var se bytes.Buffer
		cmd.Stderr = &se
		stdin, _ := cmd.StdinPipe()
		stdout, _ := cmd.StdoutPipe()
		if err := cmd.Start(); err != nil {
			outs[idx[pos]].Infra = err.Error()
			return
		}
		go func(from int) {
			for _, i := range idx[from:] {
				fmt.Fprintf(stdin, "%d %d %s\n", i, seed*1000003+uint64(i), cases[i])
			}
			stdin.Close()
		}(pos)
		rd := bufio.NewScanner(stdout)
		rd.Buffer(make([]byte, 1<<20), 1<<20)
		timer := time.AfterFunc(2*time.Minute+perCase*time.Duration(len(idx)-pos), func() { cmd.Process.Kill() })
		for rd.Scan() {
			l := rd.Text()
			if strings.HasPrefix(l, "infra") {
				outs[idx[pos]].Infra = l
				cmd.Process.Kill()
				cmd.Wait()
				timer.Stop()
				return
			}
			var i int
			if _, err := fmt.Sscan(l, &i); err != nil || pos >= len(idx) || i != idx[pos] {
				continue
			}
			rest := strings.SplitN(l, " ", 2)[1]
			parts := strings.SplitN(rest, " | ", 2)
			outs[i].Line = strings.TrimSpace(parts[0])
			if len(parts) == 2 {
				outs[i].Extra = parts[1]
			}
			pos++
		}
		cmd.Wait()
		timer.Stop()
		if pos < len(idx) {
			txt := se.String()
			if strings.Contains(txt, "panic:") || strings.Contains(txt, "fatal error:") {
				first := ""
				for _, l := range strings.Split(txt, "\n") {
					if strings.HasPrefix(l, "panic:") || strings.HasPrefix(l, "fatal error:") {
						first = l
						break
					}
				}
				outs[idx[pos]] = Answer{Died: first}
				pos++
				continue
			}
			restarts++
			if restarts > 2 {
				if len(txt) > 600 {
					txt = txt[len(txt)-600:]
				}
				outs[idx[pos]].Infra = "child died without a panic: " + txt
				return
			}
		}
	}
}
