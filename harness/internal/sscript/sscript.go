// Package sscript is a scripted OPC-UA server for the client-side properties
// (C22 session, C21 client responses): it speaks UACP + UASC with the real
// uacp / uasc packages of /repo on the server side (so the secure channel is
// the genuine one for every policy and mode) and answers every service
// request with whatever the script returns.  Nothing of /repo/server is used.
package sscript

import (
	"context"
	"crypto/rsa"
	"fmt"
	"io"
	mrand "math/rand"
	"strings"
	"sync"
	"sync/atomic"
	"time"

	"github.com/gopcua/opcua/id"
	"github.com/gopcua/opcua/ua"
	"github.com/gopcua/opcua/uacp"
	"github.com/gopcua/opcua/uasc"
)

// Script answers one service request.  Returning nil means "use the default
// answer" (see Default).  The returned response is sent as is.
type Script func(s *Server, sc *uasc.SecureChannel, req ua.Request) ua.Response

// NoAnswer, returned by a Script, means: send nothing for this request.
var NoAnswer ua.Response = &ua.ServiceFault{}

// RawMessage, returned by a Script, sends Body — any registered service
// structure, e.g. a request — under the request id instead of a response.
type RawMessage struct {
	*ua.ServiceFault
	Body interface{}
}

// Server is one listening scripted server.
type Server struct {
	Cert   []byte
	Key    *rsa.PrivateKey
	Script Script

	// Log of the request type names received (for oracles).
	mu       sync.Mutex
	Requests []string

	l      *uacp.Listener
	cancel func()
	chanID uint32
	conns  atomic.Int32
	live   map[*uacp.Conn]bool
}

// Start listens on a random local port.
func Start(cert []byte, key *rsa.PrivateKey, script Script) (*Server, error) {
	ctx, cancel := context.WithCancel(context.Background())
	l, err := uacp.Listen(ctx, "opc.tcp://127.0.0.1:0", nil)
	if err != nil {
		cancel()
		return nil, err
	}
	s := &Server{Cert: cert, Key: key, Script: script, l: l, cancel: cancel, chanID: 1000}
	go s.accept(ctx)
	return s, nil
}

// URL is the endpoint URL of the server.
func (s *Server) URL() string { return "opc.tcp://" + s.l.Addr().String() }

// Conns is the number of UACP connections accepted so far.
func (s *Server) Conns() int { return int(s.conns.Load()) }

func (s *Server) Close() {
	s.cancel()
	s.l.Close()
}

// Seen returns a copy of the request log.
func (s *Server) Seen() []string {
	s.mu.Lock()
	defer s.mu.Unlock()
	return append([]string(nil), s.Requests...)
}

func (s *Server) accept(ctx context.Context) {
	for {
		c, err := s.l.Accept(ctx)
		if err != nil {
			select {
			case <-ctx.Done():
				return
			default:
			}
			if _, ok := err.(interface{ Temporary() bool }); ok && ctx.Err() == nil {
				// a failed handshake on one connection: keep listening
				time.Sleep(time.Millisecond)
				continue
			}
			return
		}
		s.conns.Add(1)
		go s.serve(ctx, c)
	}
}

// DropAll closes every open connection (the client sees EOF); the listener stays.
func (s *Server) DropAll() {
	s.mu.Lock()
	defer s.mu.Unlock()
	for c := range s.live {
		c.Close()
	}
}

func (s *Server) serve(ctx context.Context, c *uacp.Conn) {
	s.mu.Lock()
	if s.live == nil {
		s.live = map[*uacp.Conn]bool{}
	}
	s.live[c] = true
	s.mu.Unlock()
	defer func() {
		s.mu.Lock()
		delete(s.live, c)
		s.mu.Unlock()
		c.Close()
	}()
	cfg := &uasc.Config{
		SecurityPolicyURI: ua.SecurityPolicyURINone,
		SecurityMode:      ua.MessageSecurityModeNone,
		Lifetime:          uint32(time.Hour / time.Millisecond),
		Certificate:       s.Cert,
		LocalKey:          s.Key,
	}
	id := atomic.AddUint32(&s.chanID, 1)
	errch := make(chan error, 1)
	sc, err := uasc.NewServerSecureChannel("", c, cfg, errch, id, uint32(mrand.Int31n(1023)+1), id+7)
	if err != nil {
		return
	}
	for {
		select {
		case <-ctx.Done():
			return
		default:
		}
		msg := sc.Receive(ctx)
		if msg.Err == io.EOF || msg.Err != nil {
			return
		}
		req := msg.Request()
		if req == nil {
			continue // the OpenSecureChannel exchange is answered inside uasc
		}
		s.mu.Lock()
		s.Requests = append(s.Requests, TypeName(req))
		s.mu.Unlock()
		var resp ua.Response
		if s.Script != nil {
			resp = s.Script(s, sc, req)
		}
		if resp == NoAnswer {
			continue
		}
		if resp == nil {
			resp = Default(s, sc, req)
		}
		if resp == nil {
			continue
		}
		if raw, ok := resp.(*RawMessage); ok {
			if err := sc.SendMsgWithContext(ctx, nil, msg.RequestID, raw.Body); err != nil {
				return
			}
			continue
		}
		if err := sc.SendResponseWithContext(ctx, msg.RequestID, resp); err != nil {
			return
		}
	}
}

// Header builds an OK (or other) response header for the request.
func Header(req ua.Request, code ua.StatusCode) *ua.ResponseHeader {
	return &ua.ResponseHeader{
		Timestamp:          time.Now(),
		RequestHandle:      req.Header().RequestHandle,
		ServiceResult:      code,
		ServiceDiagnostics: &ua.DiagnosticInfo{},
		StringTable:        []string{},
		AdditionalHeader:   ua.NewExtensionObject(nil),
	}
}

// Fault is a ServiceFault with the given status.
func Fault(req ua.Request, code ua.StatusCode) ua.Response {
	return &ua.ServiceFault{ResponseHeader: Header(req, code)}
}

// Default gives the well-behaved answer of a minimal server: sessions are
// created (with a genuine signature) and activated, the namespace array reads
// as one string, every other read returns an Int32, everything else is
// answered with BadServiceUnsupported.
func Default(s *Server, sc *uasc.SecureChannel, r ua.Request) ua.Response {
	switch req := r.(type) {
	case *ua.CreateSessionRequest:
		sig, alg, err := sc.NewSessionSignature(req.ClientCertificate, req.ClientNonce)
		if err != nil {
			return Fault(r, ua.StatusBadInternalError)
		}
		return &ua.CreateSessionResponse{
			ResponseHeader:        Header(r, ua.StatusOK),
			SessionID:             ua.NewNumericNodeID(1, 4711),
			AuthenticationToken:   ua.NewNumericNodeID(1, 4712),
			RevisedSessionTimeout: 60000,
			ServerNonce:           make([]byte, 32),
			ServerCertificate:     s.Cert,
			ServerSignature:       &ua.SignatureData{Algorithm: alg, Signature: sig},
			ServerEndpoints:       []*ua.EndpointDescription{},
		}
	case *ua.ActivateSessionRequest:
		return &ua.ActivateSessionResponse{ResponseHeader: Header(r, ua.StatusOK), ServerNonce: make([]byte, 32)}
	case *ua.CloseSessionRequest:
		return &ua.CloseSessionResponse{ResponseHeader: Header(r, ua.StatusOK)}
	case *ua.ReadRequest:
		res := make([]*ua.DataValue, len(req.NodesToRead))
		for i, n := range req.NodesToRead {
			var v *ua.Variant
			if n.NodeID != nil && n.NodeID.Namespace() == 0 && n.NodeID.IntID() == id.Server_NamespaceArray {
				v = ua.MustVariant([]string{"http://opcfoundation.org/UA/"})
			} else {
				v = ua.MustVariant(int32(42))
			}
			res[i] = &ua.DataValue{EncodingMask: ua.DataValueValue, Value: v}
		}
		return &ua.ReadResponse{ResponseHeader: Header(r, ua.StatusOK), Results: res}
	}
	return Fault(r, ua.StatusBadServiceUnsupported)
}

// TypeName is the short type name of a request ("Read" for *ua.ReadRequest).
func TypeName(v interface{}) string {
	return strings.TrimSuffix(strings.TrimPrefix(fmt.Sprintf("%T", v), "*ua."), "Request")
}
