package srvx

// Episode: one server child process, two raw None channels and a cast of
// sessions; every request is recorded with the canonical server state before
// and after it (the format of Model/SrvWire.lean).  Shared by C35 and C29.

import (
	"context"
	"fmt"
	"sort"
	"strings"
	"time"

	"github.com/gopcua/opcua/ua"

	"verifharness/internal/h"
)

func (e *Episode) spec() ChildSpec {
	s := e.Spec
	s.Keys = e.O.Keys
	return s
}

// NewEpisode prepares an episode (nothing is started yet).
func NewEpisode(name string, o *h.Opts, rnd *h.Rand, spec ChildSpec) *Episode {
	return &Episode{Name: name, O: o, Rnd: rnd, Spec: spec, TokIdx: map[string]int{}, Act: map[int]bool{}, NonRSA: map[int]bool{}}
}

type Rec struct {
	Ep     string
	N      int
	Kind   string // token kind
	Tok    int    // model token
	Req    string // model request
	Pre    string
	Post   string
	Out    string
	Exempt bool
	Family string
	Note   string
}

type Sess struct {
	Idx int
	Tok *ua.NodeID
	// what CreateSession / the last ActivateSession returned (needed for the client signature)
	ServerNonce []byte
	ServerCert  []byte
	// SessionID is the public id of the session (not a credential)
	SessionID *ua.NodeID
}

type Episode struct {
	Name   string
	O      *h.Opts
	Rnd    *h.Rand
	Spec   ChildSpec
	Child  *Child
	ChA    *Chan
	ChB    *Chan
	TokIdx map[string]int
	Act    map[int]bool
	Next   int
	Recs   []Rec
	Infra  string
	Dead   bool
	// NoChannel: the server (Spec.NoSecurity) accepted no secure channel at all
	NoChannel bool
	// SecPolicy / SecMode / Client / ServerCertDER: channel A is opened with this security (channel B stays None)
	SecPolicy     string
	SecMode       ua.MessageSecurityMode
	Client        *Identity
	ServerCertDER []byte
	// NonRSA marks sessions created with a certificate that is not an RSA certificate
	NonRSA map[int]bool
	// PostWait: how long to watch the server process after an answered request (crashes in
	// goroutines the request started); reset by the caller
	PostWait time.Duration
	// LastSub is the id of the most recently created subscription (the server's id counter)
	LastSub uint32
	pending int
	// sessions by role
	Valid, Valid2, NotAct, Closed *Sess
}

func attrCls(s string, good string) string {
	switch s {
	case "absent":
		return "absent"
	case "novalue", "<nil>":
		return "novalue"
	case good:
		return "good"
	}
	return "wrongtype"
}

// Canon renders the child's tables in the model's state format.
func (e *Episode) Canon(st *State) string {
	var ss []string
	type srow struct {
		idx int
		s   string
	}
	var rows []srow
	for _, s := range st.Sessions {
		k, ok := e.TokIdx[s.Token]
		if !ok && e.pending > 0 {
			// CreateSession failed after NewSession(): the session exists, the client never saw its token
			k, ok = e.pending, true
			e.TokIdx[s.Token] = k
			e.pending = 0
		}
		if !ok {
			k = 700000 + len(rows) // a session the harness did not create: cannot happen
		}
		a := 0
		if e.Act[k] {
			a = 1
		}
		rsa := 1
		if e.NonRSA[k] {
			rsa = 0
		}
		rows = append(rows, srow{k, fmt.Sprintf("%d:%d:%d:%d", k, a, s.Queued, rsa)})
	}
	sort.Slice(rows, func(i, j int) bool { return rows[i].idx < rows[j].idx })
	for _, r := range rows {
		ss = append(ss, r.s)
	}
	var us []string
	for _, u := range st.Subs {
		o := "-"
		if u.Owner != "" {
			if k, ok := e.TokIdx[u.Owner]; ok {
				o = fmt.Sprint(k)
			} else {
				o = "700000"
			}
		}
		us = append(us, fmt.Sprintf("%d:%s", u.ID, o))
	}
	var is []string
	for _, i := range st.Items {
		is = append(is, fmt.Sprintf("%d:%d", i.ID, i.Sub))
	}
	od := func(l []string) string {
		if len(l) == 0 {
			return "-"
		}
		return strings.Join(l, ",")
	}
	acc := attrCls(st.Attrs["UserAccessLevel"], "uint8")
	if acc == "absent" {
		acc = attrCls(st.Attrs["AccessLevel"], "uint8")
	}
	ee := 0
	if e.Spec.NoSecurity {
		ee = 1
	}
	return fmt.Sprintf("S=%s U=%s I=%s N=%d L=%d V=%s E=%d A=%s D=%s", od(ss), od(us), od(is), st.ItemCounter, e.LastSub, st.Value, ee, acc,
		attrCls(st.Attrs["DataType"], "*ua.ExpandedNodeID"))
}

func (e *Episode) State() (string, *State) {
	st, err := e.Child.State()
	if err != nil {
		return "", nil
	}
	return e.Canon(st), st
}

// token resolves a token kind to the NodeID put into the request header and the model token.
func (e *Episode) Token(kind string) (*ua.NodeID, int) {
	switch kind {
	case "missing":
		return nil, 0
	case "unknown":
		return ua.NewNumericNodeID(0, 3000000000+uint32(e.Rnd.Intn(1000))), 900000
	case "unknownstr":
		return ua.NewStringNodeID(1, "no-such-session"), 900001
	case "aliasns":
		// the numeric identifier of the valid session's token in another namespace: a different NodeID
		return ua.NewNumericNodeID(7, e.Valid.Tok.IntID()), 900002
	case "aliasstr":
		// … and as a string identifier with the same digits
		return ua.NewStringNodeID(0, fmt.Sprint(e.Valid.Tok.IntID())), 900003
	case "sessionid":
		// the PUBLIC SessionID of the valid session, presented as authentication token
		return e.Valid.SessionID, 900004
	case "closedsid":
		// the public SessionID of the closed session
		return e.Closed.SessionID, 900005
	case "closed":
		return e.Closed.Tok, e.Closed.Idx
	case "notactivated":
		return e.NotAct.Tok, e.NotAct.Idx
	case "valid", "validB":
		return e.Valid.Tok, e.Valid.Idx
	case "valid2":
		return e.Valid2.Tok, e.Valid2.Idx
	}
	panic("token kind " + kind)
}

func Family(req string) (string, bool) {
	switch strings.Fields(req)[0] {
	case "findservers", "getendpoints", "createsession", "activate", "close":
		return "exempt", true
	case "read":
		return "read", false
	case "write", "writeattr":
		return "write", false
	case "browse":
		return "browse", false
	case "createsub", "delsubs":
		return "subscription", false
	case "publish":
		return "publish", false
	case "createitems", "setmode", "delitems":
		return "monitoreditems", false
	case "other":
		n := strings.Fields(req)[1]
		if n == "FindServersOnNetworkRequest" || n == "RegisterServerRequest" || n == "RegisterServer2Request" {
			return "exempt", true
		}
		return "unsupported", false
	}
	return "?", false
}

// do sends one request and records pre-state, outcome and post-state.
func (e *Episode) Do(kind, mreq string, req ua.Request, note string) Result {
	return e.DoOn(nil, kind, mreq, req, note)
}

// DoOn is Do over a given channel (nil: channel A, or B for kind validB).
func (e *Episode) DoOn(on *Chan, kind, mreq string, req ua.Request, note string) Result {
	if e.Dead || e.Infra != "" {
		return Result{Class: "skipped"}
	}
	pre, _ := e.State()
	if pre == "" {
		e.Infra = "no state before " + mreq
		return Result{Class: "skipped"}
	}
	tok, mtok := e.Token(kind)
	ch := e.ChA
	if kind == "validB" {
		ch = e.ChB
	}
	if on != nil {
		ch = on
	}
	timeout := 4 * time.Second
	if strings.HasPrefix(mreq, "publish") && (kind == "valid" || kind == "validB" || kind == "valid2" || kind == "notactivated") {
		timeout = 1200 * time.Millisecond // a queued PublishRequest is never answered here
	}
	res := ch.Do(req, tok, timeout)
	out := res.String()
	fam, ex := Family(mreq)
	r := Rec{Ep: e.Name, N: len(e.Recs), Kind: kind, Tok: mtok, Req: mreq, Pre: pre, Exempt: ex, Family: fam, Note: note}
	if f := strings.Fields(mreq); f[0] == "createsession" {
		sec, cert := "0", "rsa"
		if len(f) == 4 {
			sec, cert = f[2], f[3]
		}
		r.Req = fmt.Sprintf("createsession %d %s %s", e.Next+1, sec, cert) // the index the new session will get
	}
	// did the server survive?
	if res.Class == "closed" || res.Class == "noresponse" {
		wait := 200 * time.Millisecond
		if res.Class == "closed" {
			wait = 5 * time.Second
		}
		if e.Child.WaitExit(wait) {
			site, msg := e.Child.CrashSite()
			r.Out = "crash " + site
			r.Post = pre
			r.Note += " [" + msg + "]"
			e.Recs = append(e.Recs, r)
			e.Dead = true
			return res
		}
		if res.Class == "closed" {
			e.Infra = fmt.Sprintf("%s: connection lost but the server process lives (%s)", mreq, kind)
			return res
		}
	}
	// bookkeeping the canonical state needs
	if f := strings.Fields(mreq); f[0] == "createsession" && res.Class != "ok" {
		e.Next++
		e.pending = e.Next
		if len(f) == 4 && f[3] != "rsa" {
			e.NonRSA[e.Next] = true
		}
	}
	switch resp := res.Resp.(type) {
	case *ua.CreateSessionResponse:
		e.Next++
		e.TokIdx[resp.AuthenticationToken.String()] = e.Next
		if f := strings.Fields(mreq); len(f) == 4 && f[3] != "rsa" {
			e.NonRSA[e.Next] = true
		}
	case *ua.CreateSubscriptionResponse:
		e.LastSub = resp.SubscriptionID
	case *ua.ActivateSessionResponse:
		e.Act[mtok] = true
	case *ua.DeleteSubscriptionsResponse:
		// deletion runs in a goroutine: wait for the ids answered Good to disappear
		want := map[uint32]bool{}
		if dr, ok := req.(*ua.DeleteSubscriptionsRequest); ok {
			for i, c := range resp.Results {
				if c == ua.StatusOK && i < len(dr.SubscriptionIDs) {
					want[dr.SubscriptionIDs[i]] = true
				}
			}
		}
		WaitUntil(5*time.Second, func() bool {
			_, st := e.State()
			if st == nil {
				return true
			}
			for _, u := range st.Subs {
				if want[u.ID] {
					return false
				}
			}
			for _, it := range st.Items {
				if want[it.Sub] {
					return false
				}
			}
			return true
		})
	case *ua.DeleteMonitoredItemsResponse:
		want := map[uint32]bool{}
		if dr, ok := req.(*ua.DeleteMonitoredItemsRequest); ok {
			for i, c := range resp.Results {
				if c == ua.StatusOK && i < len(dr.MonitoredItemIDs) {
					want[dr.MonitoredItemIDs[i]] = true
				}
			}
		}
		WaitUntil(5*time.Second, func() bool {
			_, st := e.State()
			if st == nil {
				return true
			}
			for _, it := range st.Items {
				if want[it.ID] {
					return false
				}
			}
			return true
		})
	}
	if e.PostWait > 0 && e.Child.WaitExit(e.PostWait) {
		site, msg := e.Child.CrashSite()
		r.Out = "crash " + site
		r.Post = pre
		r.Note += " [" + msg + "] after answer: " + out
		e.Recs = append(e.Recs, r)
		e.Dead = true
		return res
	}
	post, _ := e.State()
	if post == "" {
		if e.Child.WaitExit(3 * time.Second) {
			site, msg := e.Child.CrashSite()
			r.Out = "crash " + site
			r.Post = pre
			r.Note += " [" + msg + "]"
			e.Recs = append(e.Recs, r)
			e.Dead = true
			return res
		}
		e.Infra = "no state after " + mreq
		return res
	}
	r.Out = out
	r.Post = post
	e.Recs = append(e.Recs, r)
	return res
}

// NewSession creates (and optionally activates / closes) a session with the given token kind in the header.
func (e *Episode) NewSession(kind string, activate, closeIt bool) *Sess {
	sec, cert := "0", []byte(nil)
	if e.SecPolicy != "" {
		sec, cert = "1", e.Client.Cert
	}
	res := e.Do(kind, "createsession ? "+sec+" rsa", CreateSessionReq(e.Child.URL, cert), "")
	cr, ok := res.Resp.(*ua.CreateSessionResponse)
	if !ok {
		if e.Infra == "" && !e.Dead {
			e.Infra = "CreateSession failed: " + res.String()
		}
		return &Sess{}
	}
	s := &Sess{Idx: e.TokIdx[cr.AuthenticationToken.String()], Tok: cr.AuthenticationToken}
	s.ServerNonce, s.ServerCert, s.SessionID = cr.ServerNonce, cr.ServerCertificate, cr.SessionID
	save := e.Valid
	e.Valid = s
	if activate {
		e.Activate(s, true)
	}
	if closeIt {
		e.Do("valid", "close", &ua.CloseSessionRequest{DeleteSubscriptions: true}, "")
	}
	e.Valid = save
	return s
}

// Activate sends ActivateSession for s (as the "valid" role must already point to it, or kind is
// resolved by the caller) with a correct or a wrong client signature; on an unsecured channel the
// signature is empty and always accepted.
func (e *Episode) Activate(s *Sess, good bool) Result {
	save := e.Valid
	e.Valid = s
	defer func() { e.Valid = save }()
	if e.SecPolicy == "" {
		return e.Do("valid", "activate 0 1", ActivateSessionReq(nil, ""), "")
	}
	sig, alg, err := e.ChA.SC.NewSessionSignature(s.ServerCert, s.ServerNonce)
	if err != nil {
		e.Infra = "NewSessionSignature: " + err.Error()
		return Result{Class: "skipped"}
	}
	if !good {
		sig = append([]byte(nil), sig...)
		sig[len(sig)/2] ^= 0x40
		return e.Do("valid", "activate 1 0", ActivateSessionReq(sig, alg), "wrong client signature")
	}
	r := e.Do("valid", "activate 1 1", ActivateSessionReq(sig, alg), "")
	if ar, ok := r.Resp.(*ua.ActivateSessionResponse); ok {
		s.ServerNonce = ar.ServerNonce
	}
	return r
}

func (e *Episode) Setup() bool {
	ctx := context.Background()
	var err error
	e.Child, err = StartChild(e.spec())
	if err != nil {
		e.Infra = "start server: " + err.Error()
		return false
	}
	if e.Spec.NoSecurity {
		// a server that enabled no security setting may refuse every channel (it does since the C30 repair)
		e.ChA, err = OpenStd(ctx, e.Child.URL, ua.SecurityPolicyURINone, ua.MessageSecurityModeNone, nil, nil, 3*time.Second)
		if err != nil {
			e.ChA, e.NoChannel = nil, true
			return true
		}
		e.ChB = nil
		return true
	}
	if e.SecPolicy != "" {
		e.ChA, err = OpenStd(ctx, e.Child.URL, e.SecPolicy, e.SecMode, e.Client, e.ServerCertDER, 10*time.Second)
	} else {
		e.ChA, err = OpenStd(ctx, e.Child.URL, ua.SecurityPolicyURINone, ua.MessageSecurityModeNone, nil, nil, 8*time.Second)
	}
	if err == nil {
		e.ChB, err = OpenStd(ctx, e.Child.URL, ua.SecurityPolicyURINone, ua.MessageSecurityModeNone, nil, nil, 8*time.Second)
	}
	if err != nil {
		e.Infra = "open channel: " + err.Error()
		return false
	}
	return true
}

func (e *Episode) Finish() {
	if e.ChA != nil {
		e.ChA.Close()
	}
	if e.ChB != nil {
		e.ChB.Close()
	}
	if e.Child != nil {
		e.Child.Kill()
	}
}

// sessionsFor creates the standard cast: valid (created + activated), valid2, notAct (created only), closed.
func (e *Episode) Cast() {
	e.Valid = e.NewSession("missing", true, false)
	e.Valid2 = e.NewSession("missing", true, false)
	e.NotAct = e.NewSession("missing", false, false)
	e.Closed = e.NewSession("missing", true, true)
}
