package srvx

import (
	"context"
	"errors"
	"fmt"
	"reflect"
	"sort"
	"strings"
	"time"

	"github.com/gopcua/opcua/id"
	"github.com/gopcua/opcua/ua"
)

// Result is the canonical class of a server's answer to one request.
//
//	ok <detail>      typed response with ServiceResult Good (detail: per-element status codes)
//	sessionerr       BadSessionIDInvalid / BadSessionClosed / BadSessionNotActivated
//	fault <Status>   any other bad ServiceResult
//	noresponse       nothing within the timeout, connection still there
//	closed           the connection went away
type Result struct {
	Class  string
	Detail string
	Resp   ua.Response
}

func (r Result) String() string {
	if r.Detail != "" || r.Class == "ok" {
		if r.Detail == "" {
			return r.Class + " -"
		}
		return r.Class + " " + r.Detail
	}
	return r.Class
}

// StatusName is the short name of a status code ("BadSessionIDInvalid").
func StatusName(c ua.StatusCode) string {
	if c == ua.StatusOK {
		return "Good"
	}
	if d, ok := ua.StatusCodes[c]; ok {
		return strings.TrimPrefix(d.Name, "Status")
	}
	return fmt.Sprintf("0x%08X", uint32(c))
}

func isSessionStatus(c ua.StatusCode) bool {
	return c == ua.StatusBadSessionIDInvalid || c == ua.StatusBadSessionClosed || c == ua.StatusBadSessionNotActivated
}

func codes(cs []ua.StatusCode) string {
	s := make([]string, len(cs))
	for i, c := range cs {
		s[i] = StatusName(c)
	}
	return strings.Join(s, ",")
}

// detailOf extracts the per-element results of the responses the models talk about.
func detailOf(resp ua.Response) string {
	switch r := resp.(type) {
	case *ua.ReadResponse:
		var cs []ua.StatusCode
		for _, dv := range r.Results {
			cs = append(cs, dv.Status)
		}
		return codes(cs)
	case *ua.WriteResponse:
		return codes(r.Results)
	case *ua.BrowseResponse:
		var cs []ua.StatusCode
		for _, b := range r.Results {
			cs = append(cs, b.StatusCode)
		}
		return codes(cs)
	case *ua.DeleteSubscriptionsResponse:
		return codes(r.Results)
	case *ua.SetMonitoringModeResponse:
		return codes(r.Results)
	case *ua.DeleteMonitoredItemsResponse:
		return codes(r.Results)
	case *ua.CreateMonitoredItemsResponse:
		var cs []ua.StatusCode
		for _, m := range r.Results {
			cs = append(cs, m.StatusCode)
		}
		return codes(cs)
	}
	return ""
}

// Do sends req with the given token and classifies the answer.
func (c *Chan) Do(req ua.Request, token *ua.NodeID, timeout time.Duration) Result {
	Fill(req)
	ctx, cancel := context.WithTimeout(context.Background(), timeout+2*time.Second)
	defer cancel()
	resp, err := c.Call(ctx, req, token, timeout)
	if err == nil {
		if resp == nil {
			return Result{Class: "noresponse"}
		}
		return Result{Class: "ok", Detail: detailOf(resp), Resp: resp}
	}
	var sc ua.StatusCode
	if errors.As(err, &sc) {
		switch {
		case isSessionStatus(sc):
			return Result{Class: "sessionerr", Detail: ""}
		case sc == ua.StatusBadTimeout:
			return Result{Class: "noresponse"}
		}
		return Result{Class: "fault", Detail: StatusName(sc)}
	}
	if errors.Is(err, context.DeadlineExceeded) || strings.Contains(err.Error(), "timeout") {
		return Result{Class: "noresponse"}
	}
	return Result{Class: "closed", Detail: ""}
}

// ---------------------------------------------------------------- request constructors

func ReadReq(n *ua.NodeID, attr ua.AttributeID) *ua.ReadRequest {
	return &ua.ReadRequest{NodesToRead: []*ua.ReadValueID{{NodeID: n, AttributeID: attr}}}
}

func WriteValueReq(n *ua.NodeID, v int32) *ua.WriteRequest {
	return &ua.WriteRequest{NodesToWrite: []*ua.WriteValue{{NodeID: n, AttributeID: ua.AttributeIDValue,
		Value: &ua.DataValue{EncodingMask: ua.DataValueValue, Value: ua.MustVariant(v)}}}}
}

// WriteAttrReq writes an arbitrary DataValue into an attribute.
func WriteAttrReq(n *ua.NodeID, attr ua.AttributeID, dv *ua.DataValue) *ua.WriteRequest {
	return &ua.WriteRequest{NodesToWrite: []*ua.WriteValue{{NodeID: n, AttributeID: attr, Value: dv}}}
}

func BrowseReq(n *ua.NodeID, refType *ua.NodeID, subtypes bool, dir ua.BrowseDirection) *ua.BrowseRequest {
	return &ua.BrowseRequest{
		View:          &ua.ViewDescription{ViewID: ua.NewTwoByteNodeID(0)},
		NodesToBrowse: []*ua.BrowseDescription{{NodeID: n, BrowseDirection: dir, ReferenceTypeID: refType, IncludeSubtypes: subtypes, ResultMask: uint32(ua.BrowseResultMaskAll)}},
	}
}

func CreateSubReq(intervalMs float64, lifetime, keepalive uint32) *ua.CreateSubscriptionRequest {
	return &ua.CreateSubscriptionRequest{RequestedPublishingInterval: intervalMs, RequestedLifetimeCount: lifetime,
		RequestedMaxKeepAliveCount: keepalive, PublishingEnabled: true}
}

func DeleteSubsReq(ids ...uint32) *ua.DeleteSubscriptionsRequest {
	return &ua.DeleteSubscriptionsRequest{SubscriptionIDs: ids}
}

func CreateItemsReq(sub uint32, n int, node *ua.NodeID) *ua.CreateMonitoredItemsRequest {
	req := &ua.CreateMonitoredItemsRequest{SubscriptionID: sub, TimestampsToReturn: ua.TimestampsToReturnBoth}
	for i := 0; i < n; i++ {
		req.ItemsToCreate = append(req.ItemsToCreate, &ua.MonitoredItemCreateRequest{
			ItemToMonitor:  &ua.ReadValueID{NodeID: node, AttributeID: ua.AttributeIDValue, DataEncoding: &ua.QualifiedName{}},
			MonitoringMode: ua.MonitoringModeReporting,
			RequestedParameters: &ua.MonitoringParameters{ClientHandle: uint32(100 + i), SamplingInterval: 1000, QueueSize: 1,
				DiscardOldest: true, Filter: ua.NewExtensionObject(nil)},
		})
	}
	return req
}

func SetModeReq(sub uint32, ids ...uint32) *ua.SetMonitoringModeRequest {
	return &ua.SetMonitoringModeRequest{SubscriptionID: sub, MonitoringMode: ua.MonitoringModeReporting, MonitoredItemIDs: ids}
}

func DeleteItemsReq(sub uint32, ids ...uint32) *ua.DeleteMonitoredItemsRequest {
	return &ua.DeleteMonitoredItemsRequest{SubscriptionID: sub, MonitoredItemIDs: ids}
}

func PublishReq() *ua.PublishRequest {
	return &ua.PublishRequest{SubscriptionAcknowledgements: []*ua.SubscriptionAcknowledgement{}}
}

func CreateSessionReq(url string, cert []byte) *ua.CreateSessionRequest {
	return &ua.CreateSessionRequest{
		ClientDescription: &ua.ApplicationDescription{ApplicationURI: "urn:verif:client", ProductURI: "urn:verif",
			ApplicationName: ua.NewLocalizedText("verif"), ApplicationType: ua.ApplicationTypeClient},
		EndpointURL:             url,
		SessionName:             "verif",
		ClientNonce:             make([]byte, 32),
		ClientCertificate:       cert,
		RequestedSessionTimeout: 60000,
	}
}

func ActivateSessionReq(sig []byte, alg string) *ua.ActivateSessionRequest {
	return &ua.ActivateSessionRequest{
		ClientSignature:            &ua.SignatureData{Signature: sig, Algorithm: alg},
		ClientSoftwareCertificates: []*ua.SignedSoftwareCertificate{},
		LocaleIDs:                  []string{},
		UserIdentityToken:          ua.NewExtensionObject(&ua.AnonymousIdentityToken{PolicyID: "anonymous_none"}),
		UserTokenSignature:         &ua.SignatureData{},
	}
}

// StubRequests returns, by request type name, a zero request for every service
// type the ua package knows whose name is in names (requests the server only
// answers with BadServiceUnsupported).
func StubRequest(name string) ua.Request {
	if f, ok := stubCtors[name]; ok {
		return f()
	}
	return nil
}

var stubCtors = map[string]func() ua.Request{
	"FindServersOnNetworkRequest": func() ua.Request { return &ua.FindServersOnNetworkRequest{} },
	"RegisterServerRequest": func() ua.Request {
		return &ua.RegisterServerRequest{Server: &ua.RegisteredServer{}}
	},
	"RegisterServer2Request": func() ua.Request {
		return &ua.RegisterServer2Request{Server: &ua.RegisteredServer{}}
	},
	"CancelRequest":           func() ua.Request { return &ua.CancelRequest{} },
	"AddNodesRequest":         func() ua.Request { return &ua.AddNodesRequest{} },
	"AddReferencesRequest":    func() ua.Request { return &ua.AddReferencesRequest{} },
	"DeleteNodesRequest":      func() ua.Request { return &ua.DeleteNodesRequest{} },
	"DeleteReferencesRequest": func() ua.Request { return &ua.DeleteReferencesRequest{} },
	"BrowseNextRequest":       func() ua.Request { return &ua.BrowseNextRequest{} },
	"TranslateBrowsePathsToNodeIDsRequest": func() ua.Request {
		return &ua.TranslateBrowsePathsToNodeIDsRequest{}
	},
	"RegisterNodesRequest":   func() ua.Request { return &ua.RegisterNodesRequest{} },
	"UnregisterNodesRequest": func() ua.Request { return &ua.UnregisterNodesRequest{} },
	"QueryFirstRequest": func() ua.Request {
		return &ua.QueryFirstRequest{View: &ua.ViewDescription{ViewID: ua.NewTwoByteNodeID(0)}, Filter: &ua.ContentFilter{}}
	},
	"QueryNextRequest":             func() ua.Request { return &ua.QueryNextRequest{} },
	"HistoryReadRequest":           func() ua.Request { return &ua.HistoryReadRequest{HistoryReadDetails: ua.NewExtensionObject(nil)} },
	"HistoryUpdateRequest":         func() ua.Request { return &ua.HistoryUpdateRequest{} },
	"CallRequest":                  func() ua.Request { return &ua.CallRequest{} },
	"ModifySubscriptionRequest":    func() ua.Request { return &ua.ModifySubscriptionRequest{} },
	"SetPublishingModeRequest":     func() ua.Request { return &ua.SetPublishingModeRequest{} },
	"RepublishRequest":             func() ua.Request { return &ua.RepublishRequest{} },
	"TransferSubscriptionsRequest": func() ua.Request { return &ua.TransferSubscriptionsRequest{} },
	"ModifyMonitoredItemsRequest":  func() ua.Request { return &ua.ModifyMonitoredItemsRequest{} },
	"SetTriggeringRequest":         func() ua.Request { return &ua.SetTriggeringRequest{} },
}

// StubNames lists the request names StubRequest knows, sorted.
func StubNames() []string {
	var out []string
	for k := range stubCtors {
		out = append(out, k)
	}
	sort.Strings(out)
	return out
}

// ReqName is the type name of a request ("ReadRequest").
func ReqName(r ua.Request) string { return reflect.TypeOf(r).Elem().Name() }

var _ = id.ObjectsFolder

// Fill replaces nil pointer fields of a request (recursively, also inside
// slices) by zero values: the encoder writes nothing at all for a nil pointer,
// which makes the message undecodable for the server.  The request header is
// left alone (the channel sets it).
func Fill(req ua.Request) ua.Request {
	fill(reflect.ValueOf(req), 0)
	return req
}

var (
	tNodeID   = reflect.TypeOf(&ua.NodeID{})
	tExpNode  = reflect.TypeOf(&ua.ExpandedNodeID{})
	tExtObj   = reflect.TypeOf(&ua.ExtensionObject{})
	tReqHdr   = reflect.TypeOf(&ua.RequestHeader{})
	tVariant  = reflect.TypeOf(&ua.Variant{})
	tTimeType = reflect.TypeOf(time.Time{})
)

func fill(v reflect.Value, depth int) {
	if depth > 8 {
		return
	}
	switch v.Kind() {
	case reflect.Ptr:
		if v.IsNil() {
			return
		}
		fill(v.Elem(), depth+1)
	case reflect.Struct:
		if v.Type() == tTimeType {
			return
		}
		for i := 0; i < v.NumField(); i++ {
			f := v.Field(i)
			if !f.CanSet() {
				continue
			}
			if f.Kind() == reflect.Ptr && f.IsNil() {
				switch f.Type() {
				case tReqHdr:
					continue
				case tNodeID:
					f.Set(reflect.ValueOf(ua.NewTwoByteNodeID(0)))
					continue
				case tExpNode:
					f.Set(reflect.ValueOf(ua.NewTwoByteExpandedNodeID(0)))
					continue
				case tExtObj:
					f.Set(reflect.ValueOf(ua.NewExtensionObject(nil)))
					continue
				case tVariant:
					continue // a nil Variant inside a DataValue is governed by the encoding mask
				}
				if f.Type().Elem().Kind() == reflect.Struct {
					f.Set(reflect.New(f.Type().Elem()))
				}
			}
			fill(f, depth+1)
		}
	case reflect.Slice:
		for i := 0; i < v.Len(); i++ {
			fill(v.Index(i), depth+1)
		}
	}
}
