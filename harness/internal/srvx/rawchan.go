package srvx

import (
	"context"
	"fmt"
	"time"

	"github.com/gopcua/opcua/id"
	"github.com/gopcua/opcua/ua"
	"github.com/gopcua/opcua/uacp"
	"github.com/gopcua/opcua/uasc"
)

// RawChan is a policy-None secure channel driven by hand: the harness writes
// chunks itself and reads only when it wants to (a client that does not read
// its responses cannot be built with the uasc client channel, whose dispatcher
// always reads).
type RawChan struct {
	Conn      *uacp.Conn
	ChannelID uint32
	TokenID   uint32
	inst      *uasc.VerifInstance
	reqID     uint32
}

// OpenRawNone dials, sends a plain OpenSecureChannel request and reads the answer.
func OpenRawNone(ctx context.Context, url string) (*RawChan, error) {
	conn, err := uacp.Dial(ctx, url)
	if err != nil {
		return nil, err
	}
	o := &RawOPN{PolicyURI: ua.SecurityPolicyURINone, ModeField: uint32(ua.MessageSecurityModeNone), NonceLen: -1, ReqID: 1,
		RequestType: ua.SecurityTokenRequestTypeIssue}
	b, _, err := o.Build(conn.SendBufSize())
	if err != nil {
		conn.Close()
		return nil, err
	}
	if _, err := conn.Write(b); err != nil {
		conn.Close()
		return nil, err
	}
	conn.SetReadDeadline(time.Now().Add(8 * time.Second))
	raw, err := conn.Receive()
	conn.SetReadDeadline(time.Time{})
	if err != nil {
		conn.Close()
		return nil, fmt.Errorf("OPN answer: %w", err)
	}
	m := new(uasc.Message)
	if _, err := m.Decode(raw); err != nil {
		conn.Close()
		return nil, fmt.Errorf("OPN answer: %w", err)
	}
	resp, ok := m.Service.(*ua.OpenSecureChannelResponse)
	if !ok {
		conn.Close()
		return nil, fmt.Errorf("OPN answer is %T", m.Service)
	}
	inst, err := uasc.VerifNewSymmetricInstance(ua.SecurityPolicyURINone, ua.MessageSecurityModeNone, nil, nil)
	if err != nil {
		conn.Close()
		return nil, err
	}
	inst.SetIDs(resp.SecurityToken.ChannelID, resp.SecurityToken.TokenID)
	inst.SetSequenceNumber(1)
	inst.SetMaximumBodySize(int(conn.SendBufSize()))
	return &RawChan{Conn: conn, ChannelID: resp.SecurityToken.ChannelID, TokenID: resp.SecurityToken.TokenID, inst: inst, reqID: 1}, nil
}

// Encode returns the chunks of a request message.
func (r *RawChan) Encode(req ua.Request, token *ua.NodeID) ([][]byte, error) {
	Fill(req)
	if token == nil {
		token = ua.NewTwoByteNodeID(0)
	}
	r.reqID++
	req.SetHeader(&ua.RequestHeader{AuthenticationToken: token, Timestamp: time.Now(), RequestHandle: r.reqID, AdditionalHeader: ua.NewExtensionObject(nil)})
	typeID := ua.ServiceTypeID(req)
	m := r.inst.NewMessage(req, typeID, r.reqID)
	return m.EncodeChunks(r.inst.MaxBodySize())
}

// Send writes a request without waiting for anything.
func (r *RawChan) Send(req ua.Request, token *ua.NodeID, deadline time.Duration) error {
	chunks, err := r.Encode(req, token)
	if err != nil {
		return err
	}
	for _, c := range chunks {
		r.Conn.SetWriteDeadline(time.Now().Add(deadline))
		if _, err := r.Conn.Write(c); err != nil {
			return err
		}
	}
	return nil
}

// Recv reads one (single-chunk) response message from the connection.
func (r *RawChan) Recv(timeout time.Duration) (interface{}, error) {
	r.Conn.SetReadDeadline(time.Now().Add(timeout))
	defer r.Conn.SetReadDeadline(time.Time{})
	raw, err := r.Conn.Receive()
	if err != nil {
		return nil, err
	}
	m := new(uasc.Message)
	if _, err := m.Decode(raw); err != nil {
		return nil, err
	}
	return m.Service, nil
}

func (r *RawChan) Close() { r.Conn.Close() }

var _ = id.ReadRequest_Encoding_DefaultBinary
