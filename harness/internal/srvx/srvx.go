// Package srvx is the helper library of the server-side properties C30, C35
// and C29: start an in-process gopcua server on a free port, open raw secure
// channels to it (standard uasc client channel, or a hand-built
// OpenSecureChannel chunk with chosen policy / SecurityMode field), and look at
// the server's tables through the verif hooks.
package srvx

import (
	"context"
	"crypto/ecdsa"
	"crypto/elliptic"
	"crypto/rand"
	"crypto/rsa"
	"crypto/x509"
	"crypto/x509/pkix"
	"fmt"
	"io"
	"log"
	"math/big"
	"net"
	"strings"
	"sync"
	"time"

	"github.com/gopcua/opcua/id"
	"github.com/gopcua/opcua/server"
	"github.com/gopcua/opcua/ua"
	"github.com/gopcua/opcua/uacp"
	"github.com/gopcua/opcua/uapolicy"
	"github.com/gopcua/opcua/uasc"
)

const PolicyPrefix = "http://opcfoundation.org/UA/SecurityPolicy#"

func Short(uri string) string { return strings.TrimPrefix(uri, PolicyPrefix) }

// Quiet silences the standard logger (the server prints "Started listening").
func Quiet() { log.SetOutput(io.Discard) }

// Inst is one running in-process server.
type Inst struct {
	S      *server.Server
	V      server.VerifSrvA
	URL    string // opc.tcp://127.0.0.1:<port>
	cancel context.CancelFunc
}

// Start starts a server with the given options plus an endpoint on a free
// port of localhost.
func Start(opts ...server.Option) (*Inst, error) {
	opts = append(opts, server.EndPoint("localhost", 0))
	s := server.New(opts...)
	return StartServer(s)
}

// StartServer starts an already constructed server (its first endpoint must
// be on port 0 of localhost).
func StartServer(s *server.Server) (*Inst, error) {
	ctx, cancel := context.WithCancel(context.Background())
	if err := s.Start(ctx); err != nil {
		cancel()
		return nil, err
	}
	v := server.VerifSrvA{S: s}
	a, ok := v.ListenAddr().(*net.TCPAddr)
	if !ok {
		cancel()
		return nil, fmt.Errorf("no listen address")
	}
	return &Inst{S: s, V: v, URL: fmt.Sprintf("opc.tcp://localhost:%d", a.Port), cancel: cancel}, nil
}

func (i *Inst) Close() {
	done := make(chan struct{})
	go func() { i.S.Close(); close(done) }()
	select {
	case <-done:
	case <-time.After(3 * time.Second):
	}
	i.cancel()
}

// WaitUntil polls cond every millisecond.
func WaitUntil(timeout time.Duration, cond func() bool) bool {
	dl := time.Now().Add(timeout)
	for {
		if cond() {
			return true
		}
		if time.Now().After(dl) {
			return false
		}
		time.Sleep(500 * time.Microsecond)
	}
}

// Identity is a key pair with its certificate.
type Identity struct {
	Key  *rsa.PrivateKey
	Cert []byte
}

func (id *Identity) Pub() *rsa.PublicKey {
	if id == nil || id.Key == nil {
		return nil
	}
	return &id.Key.PublicKey
}

// CertPub extracts the RSA public key of a DER certificate.
func CertPub(der []byte) (*rsa.PublicKey, error) {
	c, err := x509.ParseCertificate(der)
	if err != nil {
		return nil, err
	}
	k, ok := c.PublicKey.(*rsa.PublicKey)
	if !ok {
		return nil, fmt.Errorf("not an RSA certificate")
	}
	return k, nil
}

// ---------------------------------------------------------------- raw OPN

// RawOPN describes a hand-built OpenSecureChannel request chunk.
type RawOPN struct {
	PolicyURI   string // written into the asymmetric security header
	ModeField   uint32 // SecurityMode field of the request
	Secure      bool   // sign and encrypt the chunk with the policy's asymmetric algorithm
	SendCert    bool   // put the client certificate into the header
	Client      *Identity
	ServerCert  []byte
	ProtoVer    uint32
	AuthTokenID uint32 // numeric authentication token of the request header (0 = null)
	NonceLen    int    // -1: the policy's nonce length
	RequestType ua.SecurityTokenRequestType
	ChannelID   uint32
	Seq         uint32
	ReqID       uint32
}

// Build returns the chunk bytes.
func (o *RawOPN) Build(sendBuf uint32) ([]byte, []byte, error) {
	cryptoMode := ua.MessageSecurityModeNone
	if o.Secure {
		cryptoMode = ua.MessageSecurityModeSign
	}
	var cert, thumb []byte
	if o.SendCert && o.Client != nil {
		cert = o.Client.Cert
	}
	var lk *rsa.PrivateKey
	var rk *rsa.PublicKey
	cryptoURI := o.PolicyURI
	if o.Secure {
		lk = o.Client.Key
		k, err := CertPub(o.ServerCert)
		if err != nil {
			return nil, nil, err
		}
		rk = k
		thumb = uapolicy.Thumbprint(o.ServerCert)
	} else {
		cryptoURI = ua.SecurityPolicyURINone
	}
	inst, err := uasc.VerifNewAsymmetricInstance(cryptoURI, cryptoMode, lk, rk, cert, thumb)
	if err != nil {
		return nil, nil, err
	}
	// the URI written on the wire is independent of the algorithm used
	inst.SrvsecCfg().SecurityPolicyURI = o.PolicyURI
	if !o.Secure {
		inst.SrvsecCfg().Thumbprint = nil
	}
	inst.SetIDs(o.ChannelID, 0)
	inst.SetSequenceNumber(o.Seq)
	inst.SetMaximumBodySize(int(sendBuf))
	nl := o.NonceLen
	if nl < 0 {
		a, err := uapolicy.Asymmetric(orNone(o.PolicyURI), nil, nil)
		if err == nil {
			nl = a.NonceLength()
		} else {
			nl = 32
		}
	}
	nonce := make([]byte, nl)
	rand.Read(nonce)
	if nl == 0 {
		nonce = nil
	}
	rt := o.RequestType
	req := &ua.OpenSecureChannelRequest{
		RequestHeader: &ua.RequestHeader{
			AuthenticationToken: ua.NewNumericNodeID(0, o.AuthTokenID),
			Timestamp:           time.Now(),
			RequestHandle:       o.ReqID,
			AdditionalHeader:    ua.NewExtensionObject(nil),
		},
		ClientProtocolVersion: o.ProtoVer,
		RequestType:           rt,
		SecurityMode:          ua.MessageSecurityMode(o.ModeField),
		ClientNonce:           nonce,
		RequestedLifetime:     3600000,
	}
	if o.AuthTokenID == 0 {
		req.RequestHeader.AuthenticationToken = ua.NewTwoByteNodeID(0)
	}
	m := inst.NewMessage(req, id.OpenSecureChannelRequest_Encoding_DefaultBinary, o.ReqID)
	chunks, err := m.EncodeChunks(inst.MaxBodySize())
	if err != nil {
		return nil, nil, err
	}
	b, err := inst.SignAndEncrypt(m, chunks[0])
	if err != nil {
		return nil, nil, err
	}
	return b, nonce, nil
}

func orNone(uri string) string {
	for _, p := range uapolicy.SupportedPolicies() {
		if p == uri {
			return uri
		}
	}
	return ua.SecurityPolicyURINone
}

// ---------------------------------------------------------------- standard client channel

// Chan is a client secure channel opened with the real uasc code.
type Chan struct {
	Conn *uacp.Conn
	SC   *uasc.SecureChannel
	Errs chan error
	once sync.Once
}

// DialRegistered dials the server and waits until the channel broker has
// registered the connection's secure channel (RegisterConn runs in its own
// goroutine after Accept).  Connections must be made one at a time per server:
// the broker numbers channels consecutively, so the new channel's id is the
// counter value before the dial plus one.
func (i *Inst) DialRegistered(ctx context.Context) (*uacp.Conn, uint32, error) {
	base := i.V.ChannelCounter()
	conn, err := uacp.Dial(ctx, i.URL)
	if err != nil {
		return nil, 0, fmt.Errorf("dial: %w", err)
	}
	id := base + 1
	if !WaitUntil(8*time.Second, func() bool { _, ok := i.Channel(id); return ok }) {
		conn.Close()
		return nil, 0, fmt.Errorf("channel %d was not registered", id)
	}
	return conn, id, nil
}

// Channel returns the broker's entry for a channel id.
func (i *Inst) Channel(id uint32) (server.VerifChanA, bool) {
	for _, c := range i.V.Channels() {
		if c.ID == id {
			return c, true
		}
	}
	return server.VerifChanA{}, false
}

// Verdict waits for the server's reaction to the first OpenSecureChannel
// request sent on a registered channel: "accept <policy> <mode>" when the
// channel got an active instance, "reject" when the broker dropped the channel.
func (i *Inst) Verdict(id uint32) string {
	out := "undecided"
	WaitUntil(8*time.Second, func() bool {
		c, ok := i.Channel(id)
		if !ok {
			out = "reject"
			return true
		}
		if c.Active {
			out = fmt.Sprintf("accept %s %d", Short(c.Policy), uint32(c.Mode))
			return true
		}
		return false
	})
	return out
}

// OpenStd dials url and opens a secure channel with the real uasc client code.
// reqTimeout bounds how long Open waits for the server's answer.
func OpenStd(ctx context.Context, url, policyURI string, mode ua.MessageSecurityMode, cl *Identity, serverCert []byte, reqTimeout time.Duration) (*Chan, error) {
	conn, err := uacp.Dial(ctx, url)
	if err != nil {
		return nil, fmt.Errorf("dial: %w", err)
	}
	return OpenOn(ctx, conn, url, policyURI, mode, cl, serverCert, reqTimeout)
}

// OpenOn opens a secure channel on an established connection.
func OpenOn(ctx context.Context, conn *uacp.Conn, url, policyURI string, mode ua.MessageSecurityMode, cl *Identity, serverCert []byte, reqTimeout time.Duration) (*Chan, error) {
	cfg := &uasc.Config{
		SecurityPolicyURI: policyURI,
		SecurityMode:      mode,
		Lifetime:          3600000,
		RequestTimeout:    reqTimeout,
	}
	if policyURI != ua.SecurityPolicyURINone {
		cfg.Certificate = cl.Cert
		cfg.LocalKey = cl.Key
		cfg.RemoteCertificate = serverCert
		cfg.Thumbprint = uapolicy.Thumbprint(serverCert)
	}
	errs := make(chan error, 8)
	sc, err := uasc.NewSecureChannel(url, conn, cfg, errs)
	if err != nil {
		conn.Close()
		return nil, fmt.Errorf("config: %w", err)
	}
	c := &Chan{Conn: conn, SC: sc, Errs: errs}
	if err := sc.Open(ctx); err != nil {
		c.Close()
		return nil, fmt.Errorf("open: %w", err)
	}
	return c, nil
}

func (c *Chan) Close() {
	c.once.Do(func() {
		done := make(chan struct{})
		go func() { c.SC.Close(); close(done) }()
		select {
		case <-done:
		case <-time.After(2 * time.Second):
		}
		c.Conn.Close()
	})
}

// Call sends req with the given authentication token and returns the response
// (a *ua.ServiceFault is returned as a response, not as an error, when the
// channel delivers it; the channel turns faults into errors of type
// ua.StatusCode, which Call returns as err).
func (c *Chan) Call(ctx context.Context, req ua.Request, token *ua.NodeID, timeout time.Duration) (ua.Response, error) {
	var out ua.Response
	err := c.SC.SendRequestWithTimeout(ctx, req, token, timeout, func(r ua.Response) error {
		out = r
		return nil
	})
	return out, err
}

// NonRSACert returns a self-signed certificate with an ECDSA key.
func NonRSACert() []byte {
	k, err := ecdsa.GenerateKey(elliptic.P256(), rand.Reader)
	if err != nil {
		return nil
	}
	tmpl := &x509.Certificate{SerialNumber: big.NewInt(7), Subject: pkix.Name{CommonName: "verif ecdsa"},
		NotBefore: time.Now().Add(-time.Hour), NotAfter: time.Now().Add(24 * time.Hour)}
	der, err := x509.CreateCertificate(rand.Reader, tmpl, tmpl, &k.PublicKey, k)
	if err != nil {
		return nil
	}
	return der
}
