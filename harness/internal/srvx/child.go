package srvx

// The server under test in a CHILD PROCESS (re-exec of the runner binary), so
// that a crash of the server is an observable outcome instead of the end of
// the runner.  The child prints "READY <url>" and then answers one-line
// commands on stdin with one line of JSON on stdout; its stderr (the Go panic
// trace) is captured by the parent.

import (
	"bufio"
	"bytes"
	"context"
	"encoding/json"
	"fmt"
	"io"
	"os"
	"os/exec"
	"regexp"
	"strconv"
	"strings"
	"sync"
	"time"

	"github.com/gopcua/opcua/id"
	"github.com/gopcua/opcua/server"
	"github.com/gopcua/opcua/ua"

	"verifharness/internal/h"
)

const childEnv = "VERIF_SRV_CHILD"

// ChildSpec configures the child's server.
type ChildSpec struct {
	Keys       string   // key directory
	Pairs      []string // EnableSecurity calls "Policy:mode"; nil = None:1, Basic256Sha256:2, Basic256Sha256:3
	NoSecurity bool     // no EnableSecurity at all (the endpoint list is empty)
	NoKey      bool     // no private key / certificate
}

// State is what the parent can see of the server's tables.
type State struct {
	Sessions    []server.VerifSessA
	Subs        []server.VerifSubA
	Items       []server.VerifItemA
	ItemCounter uint32
	Value       string            // value of the test variable ns=1;s=v
	Attrs       map[string]string // attribute map entries of the test variable: UserAccessLevel, AccessLevel, DataType
	Channels    int
}

// TestNS is the index of the test namespace, TestVar the writable test variable.
const TestNS = 1

func TestVar() *ua.NodeID    { return ua.NewStringNodeID(TestNS, "v") }
func TestBigVar() *ua.NodeID { return ua.NewStringNodeID(TestNS, "big") }
func TestFolder() *ua.NodeID { return ua.NewNumericNodeID(TestNS, id.ObjectsFolder) }

// MaybeChild must be the first call of a runner's main: in the child process
// it runs the server and never returns.
func MaybeChild() {
	js := os.Getenv(childEnv)
	if js == "" {
		return
	}
	Quiet()
	var spec ChildSpec
	if err := json.Unmarshal([]byte(js), &spec); err != nil {
		fmt.Fprintln(os.Stderr, "child: bad spec:", err)
		os.Exit(3)
	}
	inst, err := startSpec(&spec)
	if err != nil {
		fmt.Fprintln(os.Stderr, "child: start:", err)
		os.Exit(3)
	}
	out := bufio.NewWriter(os.Stdout)
	fmt.Fprintf(out, "READY %s\n", inst.URL)
	out.Flush()
	in := bufio.NewReader(os.Stdin)
	for {
		line, err := in.ReadString('\n')
		if err != nil {
			os.Exit(0) // parent went away
		}
		f := strings.Fields(line)
		if len(f) == 0 {
			continue
		}
		switch f[0] {
		case "state":
			b, _ := json.Marshal(inst.State())
			out.Write(b)
			out.WriteByte('\n')
		case "delsub":
			n, _ := strconv.Atoi(f[1])
			inst.S.SubscriptionService.DeleteSubscription(uint32(n))
			out.WriteString("{}\n")
		case "quit":
			out.WriteString("{}\n")
			out.Flush()
			os.Exit(0)
		default:
			out.WriteString("{}\n")
		}
		out.Flush()
	}
}

func startSpec(spec *ChildSpec) (*Inst, error) {
	var opts []server.Option
	if !spec.NoKey {
		k, err := h.LoadKey(spec.Keys, 2048, "a")
		if err != nil {
			return nil, err
		}
		opts = append(opts, server.PrivateKey(k.Key), server.Certificate(k.CertDER))
	}
	pairs := spec.Pairs
	if pairs == nil && !spec.NoSecurity {
		pairs = []string{"None:1", "Basic256Sha256:2", "Basic256Sha256:3"}
	}
	for _, p := range pairs {
		i := strings.LastIndex(p, ":")
		m, _ := strconv.Atoi(p[i+1:])
		opts = append(opts, server.EnableSecurity(p[:i], ua.MessageSecurityMode(m)))
	}
	opts = append(opts, server.EnableAuthMode(ua.UserTokenTypeAnonymous), server.EndPoint("localhost", 0))
	if os.Getenv("VERIF_SRV_LOG") != "" {
		opts = append(opts, server.SetLogger(stderrLogger{}))
	}
	s := server.New(opts...)
	// the test namespace: ns=1, a writable int32 and a large byte string under its Objects folder
	ns := server.NewNodeNameSpace(s, "verif")
	root, _ := s.Namespace(0)
	root.Objects().AddRef(ns.Objects(), id.HasComponent, true)
	v := ns.AddNewVariableStringNode("v", int32(5))
	ns.Objects().AddRef(v, id.HasComponent, true)
	big := ns.AddNewVariableStringNode("big", bytes.Repeat([]byte{0x5a}, 60000))
	ns.Objects().AddRef(big, id.HasComponent, true)
	// ns=2: a map-backed namespace (other locking, other code path for Read / Write / notifications)
	mp := server.NewMapNamespace(s, "verifmap")
	mp.Data["m"] = int32(7)
	mp.Data["t"] = "text"
	return StartServer(s)
}

// TestMapVar is a variable of the map-backed namespace ns=2.
func TestMapVar() *ua.NodeID { return ua.NewStringNodeID(2, "m") }

// stderrLogger prints the server's warnings and errors (debugging aid: VERIF_SRV_LOG=1).
type stderrLogger struct{}

func (stderrLogger) Debug(msg string, args ...any) {}
func (stderrLogger) Info(msg string, args ...any)  {}
func (stderrLogger) Warn(msg string, args ...any)  { fmt.Fprintf(os.Stderr, "WARN "+msg+"\n", args...) }
func (stderrLogger) Error(msg string, args ...any) {
	fmt.Fprintf(os.Stderr, "ERROR "+msg+"\n", args...)
}

// State reads the server's tables through the hooks.
func (i *Inst) State() *State {
	st := &State{Attrs: map[string]string{}}
	st.Sessions = i.V.Sessions()
	st.Subs = i.V.Subs()
	st.Items, st.ItemCounter = i.V.Items()
	st.Channels = len(i.V.Channels())
	if ns, err := i.S.Namespace(TestNS); err == nil {
		if nn, ok := ns.(*server.NodeNameSpace); ok {
			if n := nn.Node(TestVar()); n != nil {
				if dv := n.Value(); dv != nil && dv.Value != nil {
					st.Value = fmt.Sprint(dv.Value.Value())
				} else {
					st.Value = "novalue"
				}
			}
		}
	}
	for name, a := range map[string]ua.AttributeID{"UserAccessLevel": ua.AttributeIDUserAccessLevel, "AccessLevel": ua.AttributeIDAccessLevel, "DataType": ua.AttributeIDDataType} {
		st.Attrs[name] = i.V.AttrDesc(TestVar(), a)
	}
	return st
}

// ---------------------------------------------------------------- parent side

type lockedBuf struct {
	mu sync.Mutex
	b  bytes.Buffer
}

func (l *lockedBuf) Write(p []byte) (int, error) {
	l.mu.Lock()
	defer l.mu.Unlock()
	if l.b.Len() < 1<<20 {
		l.b.Write(p)
	}
	return len(p), nil
}
func (l *lockedBuf) String() string {
	l.mu.Lock()
	defer l.mu.Unlock()
	return l.b.String()
}

// Child is a running server process.
type Child struct {
	URL    string
	cmd    *exec.Cmd
	in     io.WriteCloser
	lines  chan string
	stderr *lockedBuf
	exited chan struct{}
	mu     sync.Mutex
}

// StartChild re-executes the running binary as a server process.
func StartChild(spec ChildSpec) (*Child, error) {
	js, _ := json.Marshal(spec)
	cmd := exec.Command(os.Args[0])
	cmd.Env = append(os.Environ(), childEnv+"="+string(js), "GOTRACEBACK=single")
	in, err := cmd.StdinPipe()
	if err != nil {
		return nil, err
	}
	out, err := cmd.StdoutPipe()
	if err != nil {
		return nil, err
	}
	c := &Child{cmd: cmd, in: in, lines: make(chan string, 16), stderr: &lockedBuf{}, exited: make(chan struct{})}
	cmd.Stderr = c.stderr
	if err := cmd.Start(); err != nil {
		return nil, err
	}
	go func() {
		rd := bufio.NewReaderSize(out, 1<<20)
		for {
			l, err := rd.ReadString('\n')
			if l != "" {
				c.lines <- strings.TrimRight(l, "\n")
			}
			if err != nil {
				break
			}
		}
		cmd.Wait()
		close(c.exited)
	}()
	select {
	case l := <-c.lines:
		if !strings.HasPrefix(l, "READY ") {
			c.Kill()
			return nil, fmt.Errorf("child said %q", l)
		}
		c.URL = strings.TrimPrefix(l, "READY ")
	case <-c.exited:
		return nil, fmt.Errorf("child exited during start: %s", tail(c.stderr.String(), 400))
	case <-time.After(60 * time.Second):
		c.Kill()
		return nil, fmt.Errorf("child did not become ready")
	}
	return c, nil
}

func tail(s string, n int) string {
	if len(s) > n {
		return s[len(s)-n:]
	}
	return s
}

func (c *Child) ask(cmd string, timeout time.Duration) (string, error) {
	c.mu.Lock()
	defer c.mu.Unlock()
	if c.Exited() {
		return "", fmt.Errorf("server process exited")
	}
	if _, err := io.WriteString(c.in, cmd+"\n"); err != nil {
		return "", err
	}
	select {
	case l := <-c.lines:
		return l, nil
	case <-c.exited:
		return "", fmt.Errorf("server process exited")
	case <-time.After(timeout):
		return "", fmt.Errorf("control request %q timed out", cmd)
	}
}

// State asks the child for its tables.
func (c *Child) State() (*State, error) {
	l, err := c.ask("state", 10*time.Second)
	if err != nil {
		return nil, err
	}
	st := new(State)
	if err := json.Unmarshal([]byte(l), st); err != nil {
		return nil, fmt.Errorf("state: %v in %q", err, l)
	}
	return st, nil
}

// DeleteSub removes a subscription behind the services' back (cleanup).
func (c *Child) DeleteSub(id uint32) error {
	_, err := c.ask(fmt.Sprintf("delsub %d", id), 10*time.Second)
	return err
}

func (c *Child) Exited() bool {
	select {
	case <-c.exited:
		return true
	default:
		return false
	}
}

// WaitExit waits up to d for the process to end.
func (c *Child) WaitExit(d time.Duration) bool {
	select {
	case <-c.exited:
		return true
	case <-time.After(d):
		return false
	}
}

func (c *Child) Kill() {
	if c.cmd.Process != nil {
		c.cmd.Process.Kill()
	}
	select {
	case <-c.exited:
	case <-time.After(3 * time.Second):
	}
}

func (c *Child) Stderr() string { return c.stderr.String() }

var frameRE = regexp.MustCompile(`^github\.com/gopcua/opcua/(\w+)\.(?:\(\*?(\w+)\)\.|(\w+)\.)?(\w+)`)

// CrashSite extracts from the panic trace the innermost function of the
// library that was executing: "Type.Method" or "function", and the panic text.
func (c *Child) CrashSite() (site, msg string) {
	lines := strings.Split(c.Stderr(), "\n")
	running := false
	for _, l := range lines {
		if strings.HasPrefix(l, "panic: ") || strings.HasPrefix(l, "fatal error: ") {
			if msg == "" {
				msg = strings.TrimSpace(l)
			}
		}
		if strings.HasPrefix(l, "goroutine ") && strings.Contains(l, "[running]") {
			running = true
			continue
		}
		if running && site == "" {
			if m := frameRE.FindStringSubmatch(l); m != nil {
				fn := m[4]
				typ := m[2]
				if typ == "" {
					typ = m[3]
				}
				// closures: pkg.(*T).run.func1 -> the regexp stops at "run"
				if typ != "" && typ != fn {
					site = typ + "." + fn
				} else {
					site = fn
				}
			}
		}
	}
	if len(msg) > 160 {
		msg = msg[:160]
	}
	return
}

// Canary opens its own channel to the server, reads the server clock and
// closes again; it reports how long that took.
func Canary(url string, timeout time.Duration) (time.Duration, error) {
	t0 := time.Now()
	ctx, cancel := context.WithTimeout(context.Background(), timeout)
	defer cancel()
	ch, err := OpenStd(ctx, url, ua.SecurityPolicyURINone, ua.MessageSecurityModeNone, nil, nil, timeout)
	if err != nil {
		return time.Since(t0), err
	}
	defer ch.Close()
	res := ch.Do(ReadReq(ua.NewNumericNodeID(0, 2258), ua.AttributeIDValue), nil, timeout)
	if res.Class != "ok" || res.Detail != "Good" {
		return time.Since(t0), fmt.Errorf("canary read: %s", res.String())
	}
	return time.Since(t0), nil
}
