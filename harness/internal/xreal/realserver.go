package xreal

import (
	"context"
	"fmt"
	"io"
	"log"
	"net"
	"sync"
	"time"

	"github.com/gopcua/opcua/id"
	"github.com/gopcua/opcua/server"
	"github.com/gopcua/opcua/ua"
)

func init() {
	// the server package logs "Started listening…" through the std logger
	log.SetOutput(io.Discard)
}

// Real is the gopcua server of /repo/server running in-process with one node
// namespace that holds N writable Int32 variables v0..v{N-1}.
type Real struct {
	S      *server.Server
	NS     *server.NodeNameSpace
	Nodes  []*server.Node
	Port   int
	cancel func()
	mu     sync.Mutex
}

// FreePort asks the kernel for a free TCP port.
func FreePort() (int, error) {
	l, err := net.Listen("tcp", "127.0.0.1:0")
	if err != nil {
		return 0, err
	}
	defer l.Close()
	return l.Addr().(*net.TCPAddr).Port, nil
}

// StartReal starts a server on the given port (0 = pick one) with n variables.
func StartReal(port, n int) (*Real, error) {
	var err error
	if port == 0 {
		if port, err = FreePort(); err != nil {
			return nil, err
		}
	}
	s := server.New(
		server.EnableSecurity("None", ua.MessageSecurityModeNone),
		server.EnableAuthMode(ua.UserTokenTypeAnonymous),
		server.EndPoint("127.0.0.1", port),
	)
	root, _ := s.Namespace(0)
	ns := server.NewNodeNameSpace(s, "verif")
	root.Objects().AddRef(ns.Objects(), id.HasComponent, true)
	r := &Real{S: s, NS: ns, Port: port}
	for i := 0; i < n; i++ {
		nd := ns.AddNewVariableStringNode(fmt.Sprintf("v%d", i), int32(0))
		ns.Objects().AddRef(nd, id.HasComponent, true)
		r.Nodes = append(r.Nodes, nd)
	}
	ctx, cancel := context.WithCancel(context.Background())
	r.cancel = cancel
	// the listener may need a moment when a previous server on the same port
	// has just been closed
	for try := 0; ; try++ {
		if err = s.Start(ctx); err == nil {
			break
		}
		if try > 50 {
			cancel()
			return nil, err
		}
		time.Sleep(20 * time.Millisecond)
	}
	return r, nil
}

func (r *Real) Addr() string { return fmt.Sprintf("127.0.0.1:%d", r.Port) }
func (r *Real) URL() string  { return "opc.tcp://" + r.Addr() }

// NodeID of variable i.
func (r *Real) NodeID(i int) *ua.NodeID { return ua.NewStringNodeID(r.NS.ID(), fmt.Sprintf("v%d", i)) }

// Set writes variable i on the server side the way the Write service does:
// SetAttribute on the namespace (which sends the change notification).
func (r *Real) Set(i int, v int32) ua.StatusCode {
	dv := &ua.DataValue{EncodingMask: ua.DataValueValue | ua.DataValueSourceTimestamp, Value: ua.MustVariant(v), SourceTimestamp: time.Now()}
	return r.NS.SetAttribute(r.NodeID(i), ua.AttributeIDValue, dv)
}

// Get reads variable i on the server side.
func (r *Real) Get(i int) (int32, bool) {
	dv := r.NS.Attribute(r.NodeID(i), ua.AttributeIDValue)
	if dv == nil || dv.Value == nil {
		return 0, false
	}
	v, ok := dv.Value.Value().(int32)
	return v, ok
}

func (r *Real) Close() {
	r.cancel()
	r.S.Close()
}
