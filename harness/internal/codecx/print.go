// Package codecx is the Go side of the codec correspondence (properties
// C01-C03): the canonical text of types and values that the Lean drivers
// parse and print (lean/OpcuaModel/Model/CodecText.lean), produced from real
// Go values by reflection, and type-directed random generators.
package codecx

import (
	"encoding/hex"
	"fmt"
	"math"
	"reflect"
	"strings"
	"time"

	"github.com/gopcua/opcua/ua"
)

var (
	tTime      = reflect.TypeOf(time.Time{})
	tGUID      = reflect.TypeOf((*ua.GUID)(nil))
	tNodeID    = reflect.TypeOf((*ua.NodeID)(nil))
	tExpNodeID = reflect.TypeOf((*ua.ExpandedNodeID)(nil))
	tLocText   = reflect.TypeOf((*ua.LocalizedText)(nil))
	tDiag      = reflect.TypeOf((*ua.DiagnosticInfo)(nil))
	tDataValue = reflect.TypeOf((*ua.DataValue)(nil))
	tVariant   = reflect.TypeOf((*ua.Variant)(nil))
	tExtObj    = reflect.TypeOf((*ua.ExtensionObject)(nil))
	tByteArray = reflect.TypeOf(ua.ByteArray{})
	tBytes     = reflect.TypeOf([]byte{})
	tXMLPtr    = reflect.TypeOf((*ua.XMLElement)(nil))

	customName = map[reflect.Type]string{
		tGUID: "guid", tNodeID: "nodeid", tExpNodeID: "expnodeid", tLocText: "loctext",
		tDiag: "diag", tDataValue: "datavalue", tVariant: "variant", tExtObj: "extobj",
	}
)

// VariantTypeOf maps a built-in type id to the Go type of a scalar value.
var VariantTypeOf = ua.VerifVariantTypes()

var variantIDOf = func() map[reflect.Type]int {
	m := map[reflect.Type]int{}
	for id, t := range VariantTypeOf {
		if t != nil {
			m[t] = int(id)
		}
	}
	return m
}()

// TyExpr is the type expression of the line protocol for a Go type.
func TyExpr(t reflect.Type) string {
	if n, ok := customName[t]; ok {
		return n
	}
	if t.Kind() == reflect.Struct && t.ConvertibleTo(tTime) {
		return "time"
	}
	switch t.Kind() {
	case reflect.Bool:
		return "bool"
	case reflect.Int8, reflect.Uint8:
		return "i1"
	case reflect.Int16, reflect.Uint16:
		return "i2"
	case reflect.Int32, reflect.Uint32:
		return "i4"
	case reflect.Int64, reflect.Uint64:
		return "i8"
	case reflect.Float32:
		return "f4"
	case reflect.Float64:
		return "f8"
	case reflect.String:
		return "str"
	case reflect.Slice:
		if t.Elem().Kind() == reflect.Uint8 {
			return "bytes"
		}
		return "sl( " + TyExpr(t.Elem()) + " )"
	case reflect.Ptr:
		return "ptr( " + TyExpr(t.Elem()) + " )"
	case reflect.Struct:
		if t.PkgPath() == "github.com/gopcua/opcua/ua" && t.Name() != "" {
			return "@" + t.Name()
		}
		var fs []string
		for i := 0; i < t.NumField(); i++ {
			fs = append(fs, TyExpr(t.Field(i).Type))
		}
		return "st( " + strings.Join(append(fs, ")"), " ")
	}
	return "?" + t.String()
}

func hx(b []byte) string {
	if len(b) == 0 {
		return "-"
	}
	return hex.EncodeToString(b)
}

// Printer writes the canonical text of a value. With Norm set it applies the
// normalisations under which C01 compares a value with its round trip:
// DateTime truncated to 100 ns (toward zero), an empty ByteString read through
// Buffer.ReadBytes (NodeID identifier, Variant ByteString) is nil, the Variant
// of a DataValue whose mask lacks the value bit is the zero Variant, a nil
// *ExtensionObject is the empty extension object, a nil NodeID inside an
// ExpandedNodeID is the two-byte node id 0.
type Printer struct {
	Norm bool
	sb   strings.Builder
}

func Print(v interface{}) string {
	p := &Printer{}
	p.val(reflect.ValueOf(v), false)
	return p.sb.String()
}

func PrintNorm(v interface{}) string {
	p := &Printer{Norm: true}
	p.val(reflect.ValueOf(v), false)
	return p.sb.String()
}

func (p *Printer) w(s string) { p.sb.WriteString(s) }

func (p *Printer) time(t time.Time) {
	if t.IsZero() {
		p.w("tz")
		return
	}
	ns := t.UnixNano()
	if p.Norm {
		ns = ns / 100 * 100
	}
	fmt.Fprintf(&p.sb, "t%d", ns)
}

func f32bits(f float32) uint32 {
	if f != f {
		return 0xffc00000
	}
	return math.Float32bits(f)
}

func f64bits(f float64) uint64 {
	if f != f {
		return 0xfff8000000000000
	}
	return math.Float64bits(f)
}

func (p *Printer) guid(g *ua.GUID) {
	if g == nil {
		p.w("n")
		return
	}
	fmt.Fprintf(&p.sb, "g( %d %d %d %s )", g.Data1, g.Data2, g.Data3, hx(g.Data4))
}

func (p *Printer) bytesOpt(b []byte, readBytes bool) {
	if b == nil || (p.Norm && readBytes && len(b) == 0) {
		p.w("bn")
		return
	}
	p.w("b" + hx(b))
}

func (p *Printer) nodeID(n *ua.NodeID) {
	if n == nil {
		p.w("n")
		return
	}
	mask, ns, nid, bid, gid := ua.VerifNodeIDFields(n)
	fmt.Fprintf(&p.sb, "N( %d %d %d ", mask, ns, nid)
	p.bytesOpt(bid, true)
	p.w(" ")
	p.guid(gid)
	p.w(" )")
}

func (p *Printer) expNodeID(e *ua.ExpandedNodeID) {
	if e == nil {
		p.w("n")
		return
	}
	p.w("E( ")
	if e.NodeID == nil && p.Norm {
		p.w("N( 0 0 0 bn n )")
	} else {
		p.nodeID(e.NodeID)
	}
	fmt.Fprintf(&p.sb, " s%s %d )", hx([]byte(e.NamespaceURI)), e.ServerIndex)
}

func (p *Printer) variantValue(v reflect.Value) {
	t := v.Type()
	if t == tByteArray {
		if v.IsNil() {
			p.w("ln")
			return
		}
		p.w("l(")
		for i := 0; i < v.Len(); i++ {
			fmt.Fprintf(&p.sb, " i%d", v.Index(i).Uint())
		}
		p.w(" )")
		return
	}
	if t.Kind() == reflect.Slice && t != tBytes {
		if v.IsNil() {
			p.w("ln")
			return
		}
		p.w("l(")
		for i := 0; i < v.Len(); i++ {
			p.w(" ")
			p.variantValue(v.Index(i))
		}
		p.w(" )")
		return
	}
	p.val(v, true)
}

// VTag is the (built-in type id, slice depth) of the Go type of a Variant value; id 99 = not a built-in type.
func VTag(t reflect.Type) (base, depth int) {
	for {
		if id, ok := variantIDOf[t]; ok {
			return id, depth
		}
		if t == tByteArray {
			return 3, depth + 1
		}
		if t.Kind() == reflect.Slice {
			depth++
			t = t.Elem()
			continue
		}
		return 99, depth
	}
}

func (p *Printer) variant(m *ua.Variant) {
	if m == nil {
		p.w("n")
		return
	}
	mask, alen, dlen, dims, value := ua.VerifVariantFields(m)
	fmt.Fprintf(&p.sb, "A( %d %d %d ", mask, uint32(alen), uint32(dlen))
	if dims == nil {
		p.w("mn")
	} else {
		p.w("m(")
		for _, d := range dims {
			fmt.Fprintf(&p.sb, " %d", uint32(d))
		}
		p.w(" )")
	}
	if value == nil {
		p.w(" 0 0 n )")
		return
	}
	rv := reflect.ValueOf(value)
	base, depth := VTag(rv.Type())
	fmt.Fprintf(&p.sb, " %d %d ", base, depth)
	p.variantValue(rv)
	p.w(" )")
}

// PrintVariantInput prints a value handed to ua.NewVariant: built-in type id and slice depth of its Go type, and its text.
func PrintVariantInput(x interface{}) (base, depth int, text string) {
	if x == nil {
		return 0, 0, "n"
	}
	rv := reflect.ValueOf(x)
	base, depth = VTag(rv.Type())
	p := &Printer{}
	p.variantValue(rv)
	return base, depth, p.sb.String()
}

const zeroVariantText = "A( 0 0 0 mn 0 0 n )"

func (p *Printer) dataValue(d *ua.DataValue) {
	if d == nil {
		p.w("n")
		return
	}
	fmt.Fprintf(&p.sb, "V( %d ", d.EncodingMask)
	if p.Norm && d.EncodingMask&ua.DataValueValue == 0 {
		p.w(zeroVariantText)
	} else {
		p.variant(d.Value)
	}
	fmt.Fprintf(&p.sb, " %d ", uint32(d.Status))
	p.time(d.SourceTimestamp)
	fmt.Fprintf(&p.sb, " %d ", d.SourcePicoseconds)
	p.time(d.ServerTimestamp)
	fmt.Fprintf(&p.sb, " %d )", d.ServerPicoseconds)
}

func (p *Printer) diag(d *ua.DiagnosticInfo) {
	if d == nil {
		p.w("n")
		return
	}
	p.w("D(")
	for ; d != nil; d = d.InnerDiagnosticInfo {
		fmt.Fprintf(&p.sb, " ( %d %d %d %d %d s%s %d )", d.EncodingMask, uint32(d.SymbolicID), uint32(d.NamespaceURI),
			uint32(d.Locale), uint32(d.LocalizedText), hx([]byte(d.AdditionalInfo)), uint32(d.InnerStatusCode))
	}
	p.w(" )")
}

func (p *Printer) extObj(e *ua.ExtensionObject) {
	if e == nil {
		if p.Norm {
			p.w("X( 0 E( N( 0 0 0 bn n ) s- 0 ) - n )")
		} else {
			p.w("n")
		}
		return
	}
	fmt.Fprintf(&p.sb, "X( %d ", e.EncodingMask)
	p.expNodeID(e.TypeID)
	if e.Value == nil {
		p.w(" - n )")
		return
	}
	rv := reflect.ValueOf(e.Value)
	t := rv.Type()
	name := "?" + strings.ReplaceAll(t.String(), " ", "")
	if t == tXMLPtr {
		name = "XMLElement"
	} else if t.Kind() == reflect.Ptr && t.Elem().Kind() == reflect.Struct && t.Elem().PkgPath() == "github.com/gopcua/opcua/ua" {
		name = t.Elem().Name()
	}
	p.w(" " + name + " ")
	p.val(rv, false)
	p.w(" )")
}

// val prints v by its static type. inVariant: a []byte here was read with Buffer.ReadBytes.
func (p *Printer) val(v reflect.Value, inVariant bool) {
	t := v.Type()
	switch t {
	case tGUID:
		p.guid(v.Interface().(*ua.GUID))
		return
	case tNodeID:
		p.nodeID(v.Interface().(*ua.NodeID))
		return
	case tExpNodeID:
		p.expNodeID(v.Interface().(*ua.ExpandedNodeID))
		return
	case tLocText:
		l := v.Interface().(*ua.LocalizedText)
		if l == nil {
			p.w("n")
			return
		}
		fmt.Fprintf(&p.sb, "L( %d s%s s%s )", l.EncodingMask, hx([]byte(l.Locale)), hx([]byte(l.Text)))
		return
	case tDiag:
		p.diag(v.Interface().(*ua.DiagnosticInfo))
		return
	case tDataValue:
		p.dataValue(v.Interface().(*ua.DataValue))
		return
	case tVariant:
		p.variant(v.Interface().(*ua.Variant))
		return
	case tExtObj:
		p.extObj(v.Interface().(*ua.ExtensionObject))
		return
	}
	if t.Kind() == reflect.Struct && t.ConvertibleTo(tTime) {
		p.time(v.Convert(tTime).Interface().(time.Time))
		return
	}
	switch t.Kind() {
	case reflect.Bool:
		if v.Bool() {
			p.w("T")
		} else {
			p.w("F")
		}
	case reflect.Int8, reflect.Int16, reflect.Int32, reflect.Int64:
		bits := uint(t.Size() * 8)
		u := uint64(v.Int())
		if bits < 64 {
			u &= (uint64(1) << bits) - 1
		}
		fmt.Fprintf(&p.sb, "i%d", u)
	case reflect.Uint8, reflect.Uint16, reflect.Uint32, reflect.Uint64:
		fmt.Fprintf(&p.sb, "i%d", v.Uint())
	case reflect.Float32:
		fmt.Fprintf(&p.sb, "f%d", f32bits(float32(v.Float())))
	case reflect.Float64:
		fmt.Fprintf(&p.sb, "d%d", f64bits(v.Float()))
	case reflect.String:
		p.w("s" + hx([]byte(v.String())))
	case reflect.Slice:
		if t.Elem().Kind() == reflect.Uint8 {
			if v.IsNil() {
				p.w("bn")
			} else {
				p.bytesOpt(v.Bytes(), inVariant)
			}
			return
		}
		if v.IsNil() {
			p.w("ln")
			return
		}
		p.w("l(")
		for i := 0; i < v.Len(); i++ {
			p.w(" ")
			p.val(v.Index(i), false)
		}
		p.w(" )")
	case reflect.Ptr:
		if v.IsNil() {
			p.w("n")
			return
		}
		p.w("p( ")
		p.val(v.Elem(), false)
		p.w(" )")
	case reflect.Struct:
		p.w("r(")
		for i := 0; i < v.NumField(); i++ {
			p.w(" ")
			p.val(v.Field(i), false)
		}
		p.w(" )")
	default:
		p.w("?" + t.String())
	}
}
