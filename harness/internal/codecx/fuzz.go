package codecx

import (
	"bytes"
	"encoding/binary"
	"encoding/hex"
	"fmt"
	"os"
	"os/exec"
	"reflect"
	"runtime/debug"
	"runtime/metrics"
	"strconv"
	"strings"
	"syscall"
	"time"

	"github.com/gopcua/opcua/ua"

	"verifharness/internal/h"
)

// Target is a type to decode into (always a pointer type: what is handed to ua.Decode).
type Target struct {
	Name string
	Type reflect.Type
	Ty   string // type expression of the line protocol
}

type vecTarget struct {
	A []*ua.ReadValueID
	B [][]string
}

// Targets returns the decode targets in a fixed order (parent and child processes index into it):
// the hand-written codecs, a few generic shapes, then every registered type.
func Targets() []Target {
	var out []Target
	add := func(t reflect.Type) {
		n := t.String()
		out = append(out, Target{Name: n, Type: t, Ty: TyExpr(t)})
	}
	for _, t := range []reflect.Type{tVariant, tDataValue, tDiag, tExtObj, tNodeID, tExpNodeID, tLocText, tGUID,
		reflect.TypeOf((*ua.QualifiedName)(nil)), reflect.TypeOf((*[]*ua.ReadValueID)(nil)), reflect.TypeOf((*[]string)(nil)),
		reflect.TypeOf((*[]uint32)(nil)), reflect.TypeOf((*[]byte)(nil)), reflect.TypeOf((*string)(nil)), reflect.TypeOf((*time.Time)(nil)),
		reflect.TypeOf((*vecTarget)(nil)), reflect.TypeOf((*[]*ua.Variant)(nil)), reflect.TypeOf((*[]*ua.ExtensionObject)(nil))} {
		add(t)
	}
	for _, r := range RegisteredTypes() {
		add(r.Type)
	}
	return out
}

// PanicKind maps a panic message to the model's failure names.
func PanicKind(msg string) string {
	switch {
	case strings.Contains(msg, "on zero Value"):
		return "panic-nilvalue"
	case strings.Contains(msg, "nil pointer dereference"):
		return "panic-nilptr"
	case strings.Contains(msg, "negative len"):
		return "panic-neglen"
	case strings.Contains(msg, "slice index out of bounds"), strings.Contains(msg, "slice bounds out of range"):
		return "panic-slice"
	case strings.Contains(msg, "index out of range"):
		return "panic-index"
	}
	return "panic-other:" + strings.ReplaceAll(trunc(msg, 80), " ", "_")
}

func trunc(s string, n int) string {
	if len(s) > n {
		return s[:n]
	}
	return s
}

// Outcome of running the real decoder on one input.
type Outcome struct {
	Res   string        // "ok <n> <value>" | "fail err" | "fail panic-…" | "fail hang" | "fail memory" | "fail stack-overflow" | "fail oom" | "fail crash"
	Value reflect.Value // decoded value (pointer) when Res starts with ok
	N     int
	Stack string // panic / fatal error stack (for classification)
	Alloc uint64 // bytes allocated during the call (in-process runs)
}

// DecodeInProc runs ua.Decode in this process, guarded against panics (recover), hangs and memory growth.
func DecodeInProc(b []byte, t reflect.Type) Outcome {
	if b == nil {
		b = []byte{}
	}
	var o Outcome
	out := reflect.New(t.Elem())
	g := Guard(20*time.Second, 6<<30, func() {
		defer func() {
			if e := recover(); e != nil {
				o.Res = "fail " + PanicKind(fmt.Sprint(e))
				o.Stack = string(debug.Stack())
			}
		}()
		n, err := ua.Decode(b, out.Interface())
		if err != nil {
			o.Res = "fail err"
			return
		}
		o.N = n
		o.Value = out
		o.Res = fmt.Sprintf("ok %d %s", n, Print(out.Interface()))
	})
	if g != "" {
		return Outcome{Res: "fail " + g}
	}
	return o
}

// DecodeServiceInProc runs ua.DecodeService (type id, service registry lookup, body) in this process, guarded like
// DecodeInProc. The result names the looked-up type, so the registry step is part of the compared outcome.
func DecodeServiceInProc(b []byte) Outcome {
	if b == nil {
		b = []byte{}
	}
	var o Outcome
	g := Guard(20*time.Second, 6<<30, func() {
		defer func() {
			if e := recover(); e != nil {
				o.Res = "fail " + PanicKind(fmt.Sprint(e))
				o.Stack = string(debug.Stack())
			}
		}()
		id, v, err := ua.DecodeService(b)
		if err != nil {
			o.Res = "fail err"
			return
		}
		o.Res = fmt.Sprintf("ok %s %s %s", Print(id), reflect.TypeOf(v).Elem().Name(), Print(v))
	})
	if g != "" {
		return Outcome{Res: "fail " + g}
	}
	return o
}

var allocSample = []metrics.Sample{{Name: "/gc/heap/allocs:bytes"}}

// AllocBytes is the cumulative number of heap bytes allocated by this process (no stop-the-world).
func AllocBytes() uint64 {
	metrics.Read(allocSample)
	if allocSample[0].Value.Kind() == metrics.KindUint64 {
		return allocSample[0].Value.Uint64()
	}
	return 0
}

// ---------------------------------------------------------------- child process

const childEnv = "VERIF_CODEC_CHILD"

// Input is a byte string, possibly given as unit^count ++ suffix (deep nesting without megabytes of hex).
type Input struct {
	Prefix []byte
	Unit   []byte
	Count  int
	Suffix []byte
}

func Plain(b []byte) Input { return Input{Suffix: b} }

func (in Input) Bytes() []byte {
	if in.Count == 0 {
		return in.Suffix
	}
	return append(append(append([]byte{}, in.Prefix...), bytes.Repeat(in.Unit, in.Count)...), in.Suffix...)
}

func (in Input) String() string {
	if in.Count == 0 {
		return h.Hex(in.Suffix)
	}
	if len(in.Prefix) > 0 {
		return fmt.Sprintf("pre:%s:%s:%d:%s", h.Hex(in.Prefix), h.Hex(in.Unit), in.Count, h.Hex(in.Suffix))
	}
	return fmt.Sprintf("rep:%s:%d:%s", h.Hex(in.Unit), in.Count, h.Hex(in.Suffix))
}

func ParseInput(s string) (Input, error) {
	if strings.HasPrefix(s, "pre:") {
		p := strings.Split(s, ":")
		if len(p) != 5 {
			return Input{}, fmt.Errorf("bad input %q", s)
		}
		n, err := strconv.Atoi(p[3])
		if err != nil {
			return Input{}, err
		}
		return Input{Prefix: unhex(p[1]), Unit: unhex(p[2]), Count: n, Suffix: unhex(p[4])}, nil
	}
	if strings.HasPrefix(s, "rep:") {
		p := strings.Split(s, ":")
		if len(p) != 4 {
			return Input{}, fmt.Errorf("bad input %q", s)
		}
		n, err := strconv.Atoi(p[2])
		if err != nil {
			return Input{}, err
		}
		return Input{Unit: unhex(p[1]), Count: n, Suffix: unhex(p[3])}, nil
	}
	return Input{Suffix: unhex(s)}, nil
}

func unhex(s string) []byte {
	if s == "-" || s == "" {
		return []byte{}
	}
	b, err := hex.DecodeString(s)
	if err != nil {
		return nil
	}
	return b
}

// ChildMain must be called first thing in main(): when the process was started by
// DecodeInChild it decodes the one case described in the environment under an address
// space limit and a small maximum stack, prints the outcome and exits.
func ChildMain() {
	spec := os.Getenv(childEnv)
	if spec == "" {
		return
	}
	p := strings.SplitN(spec, " ", 3)
	idx, _ := strconv.Atoi(p[0])
	limit, _ := strconv.ParseUint(p[1], 10, 64)
	in, err := ParseInput(p[2])
	ts := Targets()
	if err != nil || idx < 0 || idx >= len(ts) {
		fmt.Println("fail bad-child-spec")
		os.Exit(3)
	}
	lim := syscall.Rlimit{Cur: limit, Max: limit}
	syscall.Setrlimit(syscall.RLIMIT_AS, &lim)
	syscall.Setrlimit(syscall.RLIMIT_CORE, &syscall.Rlimit{}) // GOTRACEBACK=crash aborts: no core files
	debug.SetMaxStack(16 << 20)
	debug.SetGCPercent(20)
	o := DecodeInProc(in.Bytes(), ts[idx].Type)
	if len(o.Res) > 4000 {
		o.Res = o.Res[:4000]
	}
	fmt.Println(o.Res)
	if o.Stack != "" {
		fmt.Fprintln(os.Stderr, o.Stack)
	}
	os.Exit(0)
}

// DecodeInChild runs one case in a child process (the same binary) with an address space limit
// (bytes) and a timeout. Fatal errors of the Go runtime become "fail stack-overflow" /
// "fail oom"; a child that does not finish gets SIGQUIT (for the goroutine dump) and is "fail hang".
func DecodeInChild(idx int, in Input, asLimit uint64, timeout time.Duration) Outcome {
	cmd := exec.Command(os.Args[0])
	cmd.Env = append(os.Environ(), fmt.Sprintf("%s=%d %d %s", childEnv, idx, asLimit, in.String()), "GOTRACEBACK=crash", "GOMAXPROCS=2")
	var so, se bytes.Buffer
	cmd.Stdout, cmd.Stderr = &so, &se
	if err := cmd.Start(); err != nil {
		return Outcome{Res: "fail crash", Stack: err.Error()}
	}
	done := make(chan error, 1)
	go func() { done <- cmd.Wait() }()
	hang, grew := false, false
	deadline := time.After(timeout)
	tick := time.NewTicker(40 * time.Millisecond)
	defer tick.Stop()
wait:
	for {
		select {
		case <-done:
			break wait
		case <-deadline:
			hang = true
		case <-tick.C:
			if rssBytes(cmd.Process.Pid) > rssLimit {
				grew = true
			}
		}
		if hang || grew {
			// ask the Go runtime of the child for its goroutine dump, then make sure it is gone
			cmd.Process.Signal(syscall.SIGQUIT)
			select {
			case <-done:
			case <-time.After(15 * time.Second):
				cmd.Process.Kill()
				<-done
			}
			break wait
		}
	}
	stack := se.String()
	if i := strings.Index(stack, "github.com/gopcua/opcua/ua."); i > 2000 {
		stack = stack[:1000] + "\n…\n" + stack[i-600:] // keep the head (the fatal error) and the first frames inside the library
	}
	if len(stack) > 12000 {
		stack = stack[:12000]
	}
	switch {
	case strings.Contains(stack, "stack overflow") || strings.Contains(stack, "stack exceeds"):
		return Outcome{Res: "fail stack-overflow", Stack: stack}
	case grew || strings.Contains(stack, "out of memory") || strings.Contains(stack, "cannot allocate memory"):
		return Outcome{Res: "fail oom", Stack: stack}
	case hang:
		return Outcome{Res: "fail hang", Stack: stack}
	}
	line := strings.TrimSpace(so.String())
	if line == "" {
		return Outcome{Res: "fail crash", Stack: stack}
	}
	return Outcome{Res: line, Stack: stack}
}

// resident set limit of a child: a decoder that keeps allocating is stopped here (the address space limit only
// catches single huge requests; the Go runtime itself needs a few GiB of address space)
const rssLimit = 200 << 20

func rssBytes(pid int) uint64 {
	b, err := os.ReadFile(fmt.Sprintf("/proc/%d/statm", pid))
	if err != nil {
		return 0
	}
	f := strings.Fields(string(b))
	if len(f) < 2 {
		return 0
	}
	n, _ := strconv.ParseUint(f[1], 10, 64)
	return n * uint64(os.Getpagesize())
}

// ---------------------------------------------------------------- malformed inputs

// Hostile 32 bit values for length prefixes.
var Hostile = []uint32{0xfffffffe, 0xffffffff, 0, 1, 2, 0xffff, 0x10000, 0x7fffffff, 0x80000000, 0x40000000, 0xfffffffd, 0x80000001}

// Mutate returns a structure-unaware mutation of a valid encoding: truncation, byte flips, a hostile
// little-endian 32 bit value written over a random window, inserted and appended bytes.
func Mutate(r *h.Rand, b []byte) []byte {
	b = append([]byte{}, b...)
	k := 1 + r.Intn(3)
	for i := 0; i < k; i++ {
		switch r.Intn(7) {
		case 0:
			if len(b) > 0 {
				b = b[:r.Intn(len(b))]
			}
		case 1:
			if len(b) > 0 {
				b[r.Intn(len(b))] ^= byte(1 << uint(r.Intn(8)))
			}
		case 2, 3:
			if len(b) >= 4 {
				v := Hostile[r.Intn(7)] // -2, -1, 0, 1, 2, 65535, 65536
				if r.Chance(25) {
					v = uint32(r.Intn(70000))
				} else if r.Chance(8) {
					v = Hostile[r.Intn(len(Hostile))]
				}
				binary.LittleEndian.PutUint32(b[r.Intn(len(b)-3):], v)
			}
		case 4:
			if len(b) > 0 {
				b[r.Intn(len(b))] = byte(r.U64())
			}
		case 5:
			p := r.Intn(len(b) + 1)
			b = append(b[:p], append(r.Bytes(1+r.Intn(4)), b[p:]...)...)
		default:
			b = append(b, r.Bytes(1+r.Intn(6))...)
		}
	}
	return b
}

func le32(v uint32) []byte {
	b := make([]byte, 4)
	binary.LittleEndian.PutUint32(b, v)
	return b
}

// VariantHeader builds mask ++ arrayLength ++ elems ++ [dimsLength ++ dims].
func VariantHeader(mask byte, alen uint32, elems []byte, dims []uint32, withDims bool) []byte {
	b := []byte{mask}
	b = append(b, le32(alen)...)
	b = append(b, elems...)
	if withDims {
		b = append(b, le32(uint32(len(dims)))...)
		for _, d := range dims {
			b = append(b, le32(d)...)
		}
	}
	return b
}

// WrapDims returns dimension lists (every entry in 1..2^31-1) whose product is n + k·2^32 for some k ≥ 1:
// the int32 product in Variant.Decode wraps around to n.
func WrapDims(r *h.Rand, n uint32) [][]uint32 {
	var out [][]uint32
	for k := uint64(1); k <= 6 && len(out) < 4; k++ {
		p := uint64(n) + k<<32
		// split p = a * b with a small
		for a := uint64(2); a < 4000 && len(out) < 4; a++ {
			if p%a == 0 && p/a < 1<<31 {
				out = append(out, []uint32{uint32(a), uint32(p / a)})
				if p/a%2 == 0 && p/a/2 >= 1 && r.Bool() {
					out = append(out, []uint32{uint32(a), 2, uint32(p / a / 2)})
				}
			}
		}
	}
	return out
}
