package codecx

import (
	"runtime"
	"time"
)

// Guard runs f on its own goroutine and waits for it. It gives up when f has not
// returned after timeout or when the process has obtained more than maxSys bytes
// from the OS (a decoder that loops while appending). The goroutine cannot be
// stopped: after a "hang"/"memory" verdict the caller must write its result and exit.
func Guard(timeout time.Duration, maxSys uint64, f func()) string {
	done := make(chan struct{})
	go func() {
		defer close(done)
		f()
	}()
	deadline := time.After(timeout)
	tick := time.NewTicker(20 * time.Millisecond)
	defer tick.Stop()
	var ms runtime.MemStats
	n := 0
	for {
		select {
		case <-done:
			return ""
		case <-deadline:
			return "hang"
		case <-tick.C:
			n++
			if n%5 == 0 {
				runtime.ReadMemStats(&ms)
				if ms.Sys > maxSys {
					return "memory"
				}
			}
		}
	}
}
