package codecx

import (
	"math"
	"reflect"
	"sort"
	"time"

	"github.com/gopcua/opcua/ua"

	"verifharness/internal/h"
)

// Registered is a registered protocol type (pointer to struct).
type Registered struct {
	ID   string
	Name string
	Type reflect.Type // *ua.T
	Svc  bool         // also in the service registry
}

// RegisteredTypes lists every type of the extension object registry (which
// contains all service types as well), sorted by name; service-only types
// are appended.
func RegisteredTypes() []Registered {
	seen := map[reflect.Type]int{}
	var out []Registered
	for _, e := range ua.VerifExtensionObjectTypes() {
		if _, ok := seen[e.Type]; ok {
			continue
		}
		seen[e.Type] = len(out)
		out = append(out, Registered{ID: e.ID, Name: e.Type.Elem().Name(), Type: e.Type})
	}
	for _, e := range ua.VerifServiceTypes() {
		if i, ok := seen[e.Type]; ok {
			out[i].Svc = true
			continue
		}
		seen[e.Type] = len(out)
		out = append(out, Registered{ID: e.ID, Name: e.Type.Elem().Name(), Type: e.Type, Svc: true})
	}
	sort.Slice(out, func(i, j int) bool { return out[i].Name < out[j].Name })
	return out
}

// Gen generates random well-formed values (the domain of C01's theorem unless
// a Wild option is set).
type Gen struct {
	R   *h.Rand
	Reg []Registered
	// MaxDepth bounds the nesting of Variant / ExtensionObject / DataValue values.
	MaxDepth int
	// Hit records which shapes were generated.
	Hit func(string)
	// EmptyBodies allows extension objects whose value encodes to zero bytes.
	EmptyBodies bool
}

// CanEncodeEmpty reports whether a non-nil value of type t can encode to zero bytes
// (a struct without fields, or one that only contains such structs).
func CanEncodeEmpty(t reflect.Type) bool {
	if _, ok := customName[t]; ok {
		return false
	}
	switch t.Kind() {
	case reflect.Ptr:
		return CanEncodeEmpty(t.Elem())
	case reflect.Struct:
		if t.ConvertibleTo(tTime) {
			return false
		}
		for i := 0; i < t.NumField(); i++ {
			if !CanEncodeEmpty(t.Field(i).Type) {
				return false
			}
		}
		return true
	}
	return false
}

func (g *Gen) hit(s string) {
	if g.Hit != nil {
		g.Hit(s)
	}
}

func (g *Gen) u64() uint64 {
	switch g.R.Intn(8) {
	case 0:
		return 0
	case 1:
		return 1
	case 2:
		return math.MaxUint64
	case 3:
		return uint64(1) << uint(g.R.Intn(64))
	case 4:
		return (uint64(1) << uint(g.R.Intn(64))) - 1
	case 5:
		return uint64(g.R.Intn(300))
	}
	return g.R.U64()
}

func (g *Gen) str() string {
	switch g.R.Intn(10) {
	case 0, 1:
		return ""
	case 2:
		return "a"
	case 3:
		return "nul\x00inside"
	case 4:
		return string([]byte{0xff, 0xfe, 0x80})
	case 5:
		return string(g.R.Bytes(100 + g.R.Intn(300)))
	case 6:
		return "http://opcfoundation.org/UA/"
	}
	return string(g.R.Bytes(1 + g.R.Intn(12)))
}

func (g *Gen) bytes() []byte {
	switch g.R.Intn(6) {
	case 0:
		return nil
	case 1:
		return []byte{}
	case 2:
		return g.R.Bytes(200 + g.R.Intn(200))
	}
	return g.R.Bytes(1 + g.R.Intn(9))
}

// Time returns a time in the int64-nanosecond range (the range C01 quantifies over) or the zero time.
func (g *Gen) Time() time.Time {
	var ns int64
	switch g.R.Intn(10) {
	case 0, 1:
		return time.Time{}
	case 2:
		ns = 0
	case 3:
		ns = math.MaxInt64
	case 4:
		ns = math.MinInt64
	case 5:
		ns = int64(g.R.Intn(400)) - 200
	case 6:
		ns = int64(g.R.U64()>>1) / 100 * 100
	case 7:
		ns = -int64(g.R.U64() >> 1)
	default:
		ns = 1_600_000_000_000_000_000 + int64(g.R.U64()%1_000_000_000_000_000_00)
	}
	return time.Unix(0, ns).UTC()
}

func (g *Gen) f32() float32 {
	switch g.R.Intn(8) {
	case 0:
		return float32(math.NaN())
	case 1:
		return math.Float32frombits(0x7f800001) // signalling NaN
	case 2:
		return float32(math.Inf(1 - 2*g.R.Intn(2)))
	case 3:
		return math.Float32frombits(uint32(g.R.Intn(100))) // denormal
	case 4:
		return math.Float32frombits(0x80000000)
	}
	return math.Float32frombits(uint32(g.R.U64()))
}

func (g *Gen) f64() float64 {
	switch g.R.Intn(8) {
	case 0:
		return math.NaN()
	case 1:
		return math.Float64frombits(0x7ff0000000000001)
	case 2:
		return math.Inf(1 - 2*g.R.Intn(2))
	case 3:
		return math.Float64frombits(uint64(g.R.Intn(100)))
	case 4:
		return math.Float64frombits(0x8000000000000000)
	}
	return math.Float64frombits(g.R.U64())
}

func (g *Gen) GUID() *ua.GUID {
	return &ua.GUID{Data1: uint32(g.u64()), Data2: uint16(g.u64()), Data3: uint16(g.u64()), Data4: g.R.Bytes(8)}
}

func guidString(gd *ua.GUID) string { return gd.String() }

func (g *Gen) NodeID() *ua.NodeID {
	var n *ua.NodeID
	switch g.R.Intn(6) {
	case 0:
		n = ua.NewTwoByteNodeID(uint8(g.u64()))
	case 1:
		n = ua.NewFourByteNodeID(uint8(g.u64()), uint16(g.u64()))
	case 2:
		n = ua.NewNumericNodeID(uint16(g.u64()), uint32(g.u64()))
	case 3:
		n = ua.NewStringNodeID(uint16(g.u64()), g.str())
	case 4:
		n = ua.NewGUIDNodeID(uint16(g.u64()), guidString(g.GUID()))
	default:
		n = ua.NewByteStringNodeID(uint16(g.u64()), g.bytes())
	}
	g.hit("nodeid-type:" + n.Type().String())
	return n
}

func (g *Gen) ExpandedNodeID() *ua.ExpandedNodeID {
	uri, idx := "", uint32(0)
	if g.R.Chance(40) {
		uri = g.str()
	}
	if g.R.Chance(40) {
		idx = uint32(g.u64())
	}
	e := ua.NewExpandedNodeID(g.NodeID(), uri, idx)
	if g.R.Chance(10) {
		e.NodeID.SetURIFlag() // flag with an empty URI
	}
	if g.R.Chance(10) {
		e.NodeID.SetIndexFlag()
	}
	if uri != "" {
		g.hit("expnodeid:uri")
	}
	if idx != 0 {
		g.hit("expnodeid:index")
	}
	return e
}

func (g *Gen) LocalizedText() *ua.LocalizedText {
	l := &ua.LocalizedText{EncodingMask: uint8(g.R.Intn(4))}
	if g.R.Chance(10) {
		l.EncodingMask |= uint8(g.R.Intn(64)) << 2
	}
	if l.EncodingMask&ua.LocalizedTextLocale != 0 {
		l.Locale = g.str()
	}
	if l.EncodingMask&ua.LocalizedTextText != 0 {
		l.Text = g.str()
	}
	g.hit("loctext-mask&3:" + string(rune('0'+l.EncodingMask&3)))
	return l
}

func (g *Gen) DiagnosticInfo(depth int) *ua.DiagnosticInfo {
	d := &ua.DiagnosticInfo{EncodingMask: uint8(g.R.Intn(128))}
	if g.R.Chance(5) {
		d.EncodingMask |= 0x80
	}
	if depth >= 3 {
		d.EncodingMask &^= ua.DiagnosticInfoInnerDiagnosticInfo
	}
	if d.Has(ua.DiagnosticInfoSymbolicID) {
		d.SymbolicID = int32(g.u64())
	}
	if d.Has(ua.DiagnosticInfoNamespaceURI) {
		d.NamespaceURI = int32(g.u64())
	}
	if d.Has(ua.DiagnosticInfoLocale) {
		d.Locale = int32(g.u64())
	}
	if d.Has(ua.DiagnosticInfoLocalizedText) {
		d.LocalizedText = int32(g.u64())
	}
	if d.Has(ua.DiagnosticInfoAdditionalInfo) {
		d.AdditionalInfo = g.str()
	}
	if d.Has(ua.DiagnosticInfoInnerStatusCode) {
		d.InnerStatusCode = ua.StatusCode(g.u64())
	}
	if d.Has(ua.DiagnosticInfoInnerDiagnosticInfo) {
		d.InnerDiagnosticInfo = g.DiagnosticInfo(depth + 1)
		g.hit("diag:inner")
	}
	return d
}

func (g *Gen) DataValue(depth int) *ua.DataValue {
	d := &ua.DataValue{EncodingMask: uint8(g.R.Intn(64))}
	if g.R.Chance(5) {
		d.EncodingMask |= uint8(g.R.Intn(4)) << 6
	}
	if d.Has(ua.DataValueValue) {
		d.Value = g.Variant(depth + 1)
	} else if g.R.Bool() {
		d.Value = &ua.Variant{} // what Decode leaves there
	}
	if d.Has(ua.DataValueStatusCode) {
		d.Status = ua.StatusCode(g.u64())
	}
	if d.Has(ua.DataValueSourceTimestamp) {
		d.SourceTimestamp = g.Time()
	}
	if d.Has(ua.DataValueSourcePicoseconds) {
		d.SourcePicoseconds = uint16(g.u64())
	}
	if d.Has(ua.DataValueServerTimestamp) {
		d.ServerTimestamp = g.Time()
	}
	if d.Has(ua.DataValueServerPicoseconds) {
		d.ServerPicoseconds = uint16(g.u64())
	}
	return d
}

// ExtensionObject returns nil, an empty object, an XML element or a registered struct.
func (g *Gen) ExtensionObject(depth int) *ua.ExtensionObject {
	k := g.R.Intn(10)
	if depth >= g.MaxDepth && k >= 3 {
		k = g.R.Intn(3)
	}
	switch k {
	case 0:
		g.hit("extobj:nil-pointer")
		return nil
	case 1:
		g.hit("extobj:empty")
		return ua.NewExtensionObject(nil)
	case 2:
		g.hit("extobj:xml")
		x := ua.XMLElement(g.str())
		return ua.NewExtensionObject(&x)
	}
	r := g.Reg[g.R.Intn(len(g.Reg))]
	for !g.EmptyBodies && CanEncodeEmpty(r.Type) {
		// an extension object whose body encodes to zero bytes is the finding C01.extobj-empty-body
		r = g.Reg[g.R.Intn(len(g.Reg))]
	}
	v := g.Value(r.Type, depth+1)
	g.hit("extobj:registered")
	e := ua.NewExtensionObject(v.Interface())
	if g.R.Chance(10) {
		e.EncodingMask = uint8(3 + g.R.Intn(253)) // Decode treats every mask other than 0 and 2 as binary
		g.hit("extobj:mask>2")
	}
	return e
}

// VariantShape describes an array shape for a generated Variant.
type VariantShape struct {
	Kind string // scalar, nil-array, array
	Dims []int
}

func (g *Gen) variantScalar(id int, depth int) reflect.Value {
	t := VariantTypeOf[ua.TypeID(id)]
	if id == int(ua.TypeIDByteString) {
		return reflect.ValueOf(g.bytes())
	}
	return g.Value(t, depth)
}

// VariantOf builds the Go value (scalar or nested slices) for NewVariant.
func (g *Gen) VariantOf(id int, sh VariantShape, depth int) interface{} {
	if id == 0 {
		return nil
	}
	et := VariantTypeOf[ua.TypeID(id)]
	if sh.Kind == "scalar" {
		return g.variantScalar(id, depth).Interface()
	}
	// slice types from the innermost dimension outwards
	types := make([]reflect.Type, len(sh.Dims))
	st := reflect.SliceOf(et)
	if id == int(ua.TypeIDByte) {
		st = tByteArray
	}
	for i := len(sh.Dims) - 1; i >= 0; i-- {
		types[i] = st
		st = reflect.SliceOf(st)
	}
	if sh.Kind == "nil-array" {
		return reflect.Zero(types[0]).Interface()
	}
	var build func(level int) reflect.Value
	build = func(level int) reflect.Value {
		n := sh.Dims[level]
		s := reflect.MakeSlice(types[level], n, n)
		for i := 0; i < n; i++ {
			if level == len(sh.Dims)-1 {
				s.Index(i).Set(g.variantScalar(id, depth))
			} else {
				s.Index(i).Set(build(level + 1))
			}
		}
		return s
	}
	return build(0).Interface()
}

// Shape draws an array shape; zeroDim allows zero-length dimensions in multi-dimensional arrays
// and empty multi-dimensional arrays (both are C01 findings).
func (g *Gen) Shape(zeroDim bool) VariantShape {
	switch g.R.Intn(10) {
	case 0, 1, 2:
		return VariantShape{Kind: "scalar"}
	case 3:
		return VariantShape{Kind: "nil-array", Dims: []int{0}}
	case 4:
		return VariantShape{Kind: "array", Dims: []int{0}}
	case 5, 6:
		return VariantShape{Kind: "array", Dims: []int{1 + g.R.Intn(4)}}
	case 7:
		return VariantShape{Kind: "array", Dims: []int{1 + g.R.Intn(3), 1 + g.R.Intn(3)}}
	case 8:
		return VariantShape{Kind: "array", Dims: []int{1 + g.R.Intn(2), 1 + g.R.Intn(3), 1 + g.R.Intn(2)}}
	}
	if zeroDim {
		switch g.R.Intn(3) {
		case 0:
			return VariantShape{Kind: "array", Dims: []int{2, 0}}
		case 1:
			return VariantShape{Kind: "array", Dims: []int{0, 2}}
		}
		return VariantShape{Kind: "array", Dims: []int{1 + g.R.Intn(2), 0, 2}}
	}
	return VariantShape{Kind: "array", Dims: []int{1, 1 + g.R.Intn(3)}}
}

// Variant returns a Variant built by ua.NewVariant from a random built-in value.
func (g *Gen) Variant(depth int) *ua.Variant {
	id := g.R.Intn(26)
	if depth >= g.MaxDepth && id >= 22 {
		id = 1 + g.R.Intn(21)
	}
	sh := g.Shape(false)
	x := g.VariantOf(id, sh, depth+1)
	v, err := ua.NewVariant(x)
	if err != nil {
		panic("codecx: NewVariant failed on a generated value: " + err.Error())
	}
	g.hit("variant:" + sh.Kind)
	return v
}

// Value returns a random value of type t (pointers are never nil, except *ExtensionObject).
func (g *Gen) Value(t reflect.Type, depth int) reflect.Value {
	switch t {
	case tGUID:
		return reflect.ValueOf(g.GUID())
	case tNodeID:
		return reflect.ValueOf(g.NodeID())
	case tExpNodeID:
		return reflect.ValueOf(g.ExpandedNodeID())
	case tLocText:
		return reflect.ValueOf(g.LocalizedText())
	case tDiag:
		return reflect.ValueOf(g.DiagnosticInfo(0))
	case tDataValue:
		return reflect.ValueOf(g.DataValue(depth))
	case tVariant:
		return reflect.ValueOf(g.Variant(depth))
	case tExtObj:
		return reflect.ValueOf(g.ExtensionObject(depth))
	}
	v := reflect.New(t).Elem()
	if t.Kind() == reflect.Struct && t.ConvertibleTo(tTime) {
		v.Set(reflect.ValueOf(g.Time()).Convert(t))
		return v
	}
	switch t.Kind() {
	case reflect.Bool:
		v.SetBool(g.R.Bool())
	case reflect.Int8, reflect.Int16, reflect.Int32, reflect.Int64:
		bits := uint(t.Size() * 8)
		u := g.u64()
		v.SetInt(int64(u<<(64-bits)) >> (64 - bits))
	case reflect.Uint8, reflect.Uint16, reflect.Uint32, reflect.Uint64:
		bits := uint(t.Size() * 8)
		v.SetUint(g.u64() << (64 - bits) >> (64 - bits))
	case reflect.Float32:
		v.SetFloat(float64(g.f32()))
	case reflect.Float64:
		v.SetFloat(g.f64())
	case reflect.String:
		v.SetString(g.str())
	case reflect.Slice:
		if t.Elem().Kind() == reflect.Uint8 {
			v.SetBytes(g.bytes())
			return v
		}
		n := 0
		switch g.R.Intn(8) {
		case 0, 1:
			return v // nil
		case 2:
			n = 0
		case 3:
			n = 3 + g.R.Intn(5)
		default:
			n = 1 + g.R.Intn(2)
		}
		if depth > 2 && n > 1 {
			n = 1
		}
		s := reflect.MakeSlice(t, n, n)
		for i := 0; i < n; i++ {
			s.Index(i).Set(g.Value(t.Elem(), depth))
		}
		v.Set(s)
	case reflect.Ptr:
		p := reflect.New(t.Elem())
		p.Elem().Set(g.Value(t.Elem(), depth))
		v.Set(p)
	case reflect.Struct:
		for i := 0; i < t.NumField(); i++ {
			v.Field(i).Set(g.Value(t.Field(i).Type, depth))
		}
	default:
		panic("codecx: cannot generate " + t.String())
	}
	return v
}
