// Source analysis for C23 (shared by the generator topic cfgalias and the
// runner cmd/c23): alias facts of the default client configuration and the
// write footprint of every Option constructor, by go/ast over config.go.
package h

import (
	"fmt"
	"go/ast"
	"go/parser"
	"go/token"
	"os"
	"path/filepath"
	"sort"
	"strconv"
	"strings"
)

const modulePath = "github.com/gopcua/opcua"

type cfgFile struct {
	fset    *token.FileSet
	file    *ast.File
	funcs   map[string]*ast.FuncDecl
	imports map[string]string // local name -> import path
	repo    string
}

func parseCfg(repo string) (*cfgFile, error) {
	fset := token.NewFileSet()
	f, err := parser.ParseFile(fset, filepath.Join(repo, "config.go"), nil, 0)
	if err != nil {
		return nil, err
	}
	c := &cfgFile{fset: fset, file: f, funcs: map[string]*ast.FuncDecl{}, imports: map[string]string{}, repo: repo}
	for _, d := range f.Decls {
		if fd, ok := d.(*ast.FuncDecl); ok && fd.Recv == nil {
			c.funcs[fd.Name.Name] = fd
		}
	}
	for _, im := range f.Imports {
		p, _ := strconv.Unquote(im.Path.Value)
		name := p[strings.LastIndex(p, "/")+1:]
		if im.Name != nil {
			name = im.Name.Name
		}
		c.imports[name] = p
	}
	return c, nil
}

// ---------------------------------------------------------------- alias facts

// pkgVarKind reports how the package-level name is declared in the package
// directory: "const", "ref" (var holding a pointer / slice / map / made
// value), "value" (any other var), "" (not found).
func pkgVarKind(dir, name string) (string, error) {
	fset := token.NewFileSet()
	pkgs, err := parser.ParseDir(fset, dir, func(fi os.FileInfo) bool { return !strings.HasSuffix(fi.Name(), "_test.go") }, 0)
	if err != nil {
		return "", err
	}
	for _, pkg := range pkgs {
		for _, f := range pkg.Files {
			for _, d := range f.Decls {
				gd, ok := d.(*ast.GenDecl)
				if !ok || (gd.Tok != token.VAR && gd.Tok != token.CONST) {
					continue
				}
				for _, s := range gd.Specs {
					vs := s.(*ast.ValueSpec)
					for i, n := range vs.Names {
						if n.Name != name {
							continue
						}
						if gd.Tok == token.CONST {
							return "const", nil
						}
						if isRefType(vs.Type) {
							return "ref", nil
						}
						if i < len(vs.Values) && isRefExpr(vs.Values[i]) {
							return "ref", nil
						}
						return "value", nil
					}
				}
			}
		}
	}
	return "", nil
}

func isRefType(t ast.Expr) bool {
	switch x := t.(type) {
	case *ast.StarExpr, *ast.MapType, *ast.ChanType:
		return true
	case *ast.ArrayType:
		return x.Len == nil
	}
	return false
}

func isRefExpr(e ast.Expr) bool {
	switch x := e.(type) {
	case *ast.UnaryExpr:
		return x.Op == token.AND
	case *ast.CompositeLit:
		return isRefType(x.Type)
	case *ast.CallExpr:
		if id, ok := x.Fun.(*ast.Ident); ok && (id.Name == "new" || id.Name == "make") {
			return true
		}
	}
	return false
}

type sharedFact struct{ path, global string }

// returnedLit finds the composite literal a constructor returns.
func returnedLit(fd *ast.FuncDecl) *ast.CompositeLit {
	var lit *ast.CompositeLit
	ast.Inspect(fd.Body, func(n ast.Node) bool {
		if r, ok := n.(*ast.ReturnStmt); ok && len(r.Results) == 1 && lit == nil {
			lit = asLit(r.Results[0])
		}
		return lit == nil
	})
	return lit
}

func asLit(e ast.Expr) *ast.CompositeLit {
	switch x := e.(type) {
	case *ast.CompositeLit:
		return x
	case *ast.UnaryExpr:
		if x.Op == token.AND {
			return asLit(x.X)
		}
	case *ast.ParenExpr:
		return asLit(x.X)
	}
	return nil
}

func (c *cfgFile) walkDefaults(path string, lit *ast.CompositeLit, out *[]sharedFact, seen map[string]bool) error {
	for _, el := range lit.Elts {
		kv, ok := el.(*ast.KeyValueExpr)
		if !ok {
			continue // positional elements (slices of scalars): no aliasing through them
		}
		key, ok := kv.Key.(*ast.Ident)
		if !ok {
			continue
		}
		p := key.Name
		if path != "" {
			p = path + "." + key.Name
		}
		switch v := kv.Value.(type) {
		case *ast.CompositeLit, *ast.UnaryExpr, *ast.ParenExpr:
			if l := asLit(v); l != nil {
				if err := c.walkDefaults(p, l, out, seen); err != nil {
					return err
				}
			}
		case *ast.CallExpr:
			// a constructor of this file: follow it; any other call computes a fresh value
			// (the address comparison below would expose a call returning a shared object)
			if id, ok := v.Fun.(*ast.Ident); ok {
				if fd := c.funcs[id.Name]; fd != nil && !seen[id.Name] {
					seen[id.Name] = true
					if l := returnedLit(fd); l != nil {
						if err := c.walkDefaults(p, l, out, seen); err != nil {
							return err
						}
					}
				}
			}
		case *ast.SelectorExpr:
			x, ok := v.X.(*ast.Ident)
			if !ok {
				continue
			}
			imp, ok := c.imports[x.Name]
			if !ok || !strings.HasPrefix(imp, modulePath) {
				continue // a standard-library name: constants and values in this file
			}
			kind, err := pkgVarKind(filepath.Join(c.repo, strings.TrimPrefix(strings.TrimPrefix(imp, modulePath), "/")), v.Sel.Name)
			if err != nil {
				return err
			}
			if kind == "ref" {
				*out = append(*out, sharedFact{p, x.Name + "." + v.Sel.Name})
			}
		case *ast.Ident:
			kind, err := pkgVarKind(c.repo, v.Name)
			if err != nil {
				return err
			}
			if kind == "ref" {
				*out = append(*out, sharedFact{p, v.Name})
			}
		}
	}
	return nil
}

// ---------------------------------------------------------------- option footprints

type fpEntry struct {
	path     string
	paramRef bool
	captured bool
}

type fpCtx struct {
	c         *cfgFile
	ptrParams map[string]bool
	out       map[string]bool // path -> paramRef (true wins)
	outer     map[string]bool // locals of the constructor allocated OUTSIDE the closure it returns
	captured  map[string]bool // path -> assigned from such a local: one object per Option value
	depth     int
}

// isAllocExpr: the expression allocates (or may allocate) an object: &T{}, T{}, new, make, a
// slice/map literal, a NewXxx / newXxx constructor call.
func isAllocExpr(e ast.Expr) bool {
	if isRefExpr(e) {
		return true
	}
	switch x := e.(type) {
	case *ast.CompositeLit:
		return true
	case *ast.CallExpr:
		name := ""
		switch f := x.Fun.(type) {
		case *ast.Ident:
			name = f.Name
		case *ast.SelectorExpr:
			name = f.Sel.Name
		}
		return strings.HasPrefix(name, "New") || strings.HasPrefix(name, "new")
	}
	return false
}

// outerAllocs: identifiers the constructor defines outside every function literal with an
// allocating initialiser.
func outerAllocs(body *ast.BlockStmt) map[string]bool {
	out := map[string]bool{}
	ast.Inspect(body, func(n ast.Node) bool {
		switch s := n.(type) {
		case *ast.FuncLit:
			return false
		case *ast.AssignStmt:
			if s.Tok == token.DEFINE && len(s.Lhs) == len(s.Rhs) {
				for i, l := range s.Lhs {
					if id, ok := l.(*ast.Ident); ok && isAllocExpr(s.Rhs[i]) {
						out[id.Name] = true
					}
				}
			}
		case *ast.ValueSpec:
			for i, nm := range s.Names {
				if i < len(s.Values) && isAllocExpr(s.Values[i]) {
					out[nm.Name] = true
				}
			}
		}
		return true
	})
	return out
}

func mentions(e ast.Expr, names map[string]bool) bool {
	found := false
	ast.Inspect(e, func(n ast.Node) bool {
		if id, ok := n.(*ast.Ident); ok && names[id.Name] {
			found = true
		}
		return !found
	})
	return found
}

func pathOf(e ast.Expr, env map[string]string) (string, bool) {
	switch x := e.(type) {
	case *ast.Ident:
		p, ok := env[x.Name]
		return p, ok
	case *ast.SelectorExpr:
		base, ok := pathOf(x.X, env)
		if !ok {
			return "", false
		}
		if base == "" {
			return x.Sel.Name, true
		}
		return base + "." + x.Sel.Name, true
	case *ast.StarExpr:
		return pathOf(x.X, env)
	case *ast.ParenExpr:
		return pathOf(x.X, env)
	case *ast.TypeAssertExpr:
		return pathOf(x.X, env)
	case *ast.IndexExpr:
		base, ok := pathOf(x.X, env)
		return base + "[]", ok
	}
	return "", false
}

func (f *fpCtx) record(path string, ref bool) {
	if path == "" {
		return
	}
	f.out[path] = f.out[path] || ref
}

func (f *fpCtx) block(n ast.Node, env map[string]string) {
	if f.depth > 6 {
		return
	}
	ast.Inspect(n, func(n ast.Node) bool {
		switch s := n.(type) {
		case *ast.FuncLit:
			// the returned closure: its *Config parameter is the root
			for _, fl := range s.Type.Params.List {
				if st, ok := fl.Type.(*ast.StarExpr); ok {
					if id, ok := st.X.(*ast.Ident); ok && id.Name == "Config" {
						for _, nm := range fl.Names {
							env[nm.Name] = ""
						}
					}
				}
			}
		case *ast.AssignStmt:
			for i, l := range s.Lhs {
				if s.Tok == token.DEFINE {
					// alias: t := cfg.a.b / t, ok := cfg.a.b.(*T)
					if id, ok := l.(*ast.Ident); ok && i < len(s.Rhs) || (ok && len(s.Rhs) == 1 && i == 0) {
						if p, ok := pathOf(s.Rhs[0], env); ok && i == 0 && id.Name != "_" {
							env[id.Name] = p
						}
					}
					continue
				}
				if p, ok := pathOf(l, env); ok {
					ref := false
					if len(s.Rhs) == len(s.Lhs) {
						if id, ok := s.Rhs[i].(*ast.Ident); ok && f.ptrParams[id.Name] {
							ref = true
						}
					}
					f.record(p, ref)
					if len(s.Rhs) == len(s.Lhs) && mentions(s.Rhs[i], f.outer) {
						f.captured[p] = true
					}
				}
			}
		case *ast.IncDecStmt:
			if p, ok := pathOf(s.X, env); ok {
				f.record(p, false)
			}
		case *ast.TypeSwitchStmt:
			if as, ok := s.Assign.(*ast.AssignStmt); ok && len(as.Lhs) == 1 && len(as.Rhs) == 1 {
				if id, ok := as.Lhs[0].(*ast.Ident); ok {
					if p, ok := pathOf(as.Rhs[0], env); ok {
						env[id.Name] = p
					}
				}
			}
		case *ast.CallExpr:
			id, ok := s.Fun.(*ast.Ident)
			if !ok {
				return true
			}
			fd := f.c.funcs[id.Name]
			if fd == nil || fd.Body == nil {
				return true
			}
			// a helper of this file receiving (a part of) the configuration
			sub := map[string]string{}
			k := 0
			for _, fl := range fd.Type.Params.List {
				for _, nm := range fl.Names {
					if k < len(s.Args) {
						if p, ok := pathOf(s.Args[k], env); ok {
							sub[nm.Name] = p
						}
					}
					k++
				}
			}
			if len(sub) > 0 {
				f.depth++
				f.block(fd.Body, sub)
				f.depth--
			}
		}
		return true
	})
}

func (c *cfgFile) footprints() (map[string][]fpEntry, error) {
	res := map[string][]fpEntry{}
	for name, fd := range c.funcs {
		if fd.Type.Results == nil || len(fd.Type.Results.List) != 1 || !ast.IsExported(name) {
			continue
		}
		if id, ok := fd.Type.Results.List[0].Type.(*ast.Ident); !ok || id.Name != "Option" {
			continue
		}
		ctx := &fpCtx{c: c, ptrParams: map[string]bool{}, out: map[string]bool{}, outer: outerAllocs(fd.Body), captured: map[string]bool{}}
		for _, fl := range fd.Type.Params.List {
			if _, ok := fl.Type.(*ast.StarExpr); ok {
				for _, nm := range fl.Names {
					ctx.ptrParams[nm.Name] = true
				}
			}
		}
		ctx.block(fd.Body, map[string]string{})
		var es []fpEntry
		for p, r := range ctx.out {
			es = append(es, fpEntry{p, r, ctx.captured[p]})
		}
		sort.Slice(es, func(i, j int) bool { return es[i].path < es[j].path })
		res[name] = es
	}
	if len(res) == 0 {
		return nil, fmt.Errorf("no Option constructors found in config.go")
	}
	return res, nil
}

// CfgShared: the pointer field at Path of the default configuration is
// initialised with the package-level variable Global.
type CfgShared struct{ Path, Global string }

// CfgFp: an option assigns the selector path Path; ParamRef = the assigned
// value is a pointer parameter of the option (a caller-supplied object).
type CfgFp struct {
	Path     string
	ParamRef bool
	// Captured: the assigned value is (built from) an object the option constructor allocates
	// outside the closure it returns — one object per Option value, not per application.
	Captured bool
}

// ConfigAliasFacts walks newConfig and the constructors it calls.
func ConfigAliasFacts(repo string) ([]CfgShared, error) {
	c, err := parseCfg(repo)
	if err != nil {
		return nil, err
	}
	nc := c.funcs["newConfig"]
	if nc == nil {
		return nil, fmt.Errorf("config.go: func newConfig not found")
	}
	root := returnedLit(nc)
	if root == nil {
		return nil, fmt.Errorf("config.go: newConfig does not return a composite literal")
	}
	var shared []sharedFact
	if err := c.walkDefaults("", root, &shared, map[string]bool{}); err != nil {
		return nil, err
	}
	sort.Slice(shared, func(i, j int) bool { return shared[i].path < shared[j].path })
	out := make([]CfgShared, len(shared))
	for i, s := range shared {
		out[i] = CfgShared{s.path, s.global}
	}
	return out, nil
}

// ConfigFootprints analyses every exported function of config.go returning Option.
func ConfigFootprints(repo string) (map[string][]CfgFp, error) {
	c, err := parseCfg(repo)
	if err != nil {
		return nil, err
	}
	fps, err := c.footprints()
	if err != nil {
		return nil, err
	}
	out := map[string][]CfgFp{}
	for n, es := range fps {
		for _, e := range es {
			out[n] = append(out[n], CfgFp{e.path, e.paramRef, e.captured})
		}
	}
	return out, nil
}

// DynShared: the outermost paths at which two evaluations of newConfig() hold
// the same pointer / slice / map (pa, pb: path -> address).
func DynShared(pa, pb map[string]uintptr) []string {
	var dyn []string
	for p, x := range pa {
		if y, ok := pb[p]; ok && x == y {
			dyn = append(dyn, p)
		}
	}
	sort.Strings(dyn)
	var top []string
	for _, p := range dyn {
		inner := false
		for _, q := range top {
			if strings.HasPrefix(p, q+".") {
				inner = true
			}
		}
		if !inner {
			top = append(top, p)
		}
	}
	return top
}

// MergeAliasFacts: the shared objects are those the evaluation exhibits; the
// source analysis supplies the name of the package-level variable where it can
// read the constructor (a constructor written in another shape keeps the fact
// and loses only the name). A source fact the evaluation does not confirm is an
// error.
func MergeAliasFacts(ast []CfgShared, dyn []string) ([]CfgShared, error) {
	names := map[string]string{}
	for _, a := range ast {
		names[a.Path] = a.Global
	}
	var out []CfgShared
	seen := map[string]bool{}
	for _, p := range dyn {
		g := names[p]
		if g == "" {
			g = "pkgvar@" + p
		}
		out = append(out, CfgShared{p, g})
		seen[p] = true
	}
	for _, a := range ast {
		if !seen[a.Path] {
			return nil, fmt.Errorf("config.go initialises %s with the package-level %s, but two evaluations of newConfig() do not share it", a.Path, a.Global)
		}
	}
	return out, nil
}
