// Helpers of the "send" topic (C11, C16, C18, C19): event recorder and
// schedule controller behind uasc.VerifSetHook, goroutine identities, a
// loopback uacp connection pair and a scripted None-mode UASC peer.
package h

import (
	"bytes"
	"context"
	"fmt"
	"runtime"
	"strconv"
	"sync"
	"time"

	"github.com/gopcua/opcua/ua"
	"github.com/gopcua/opcua/uacp"
	"github.com/gopcua/opcua/uasc"
)

// GoID returns the id of the calling goroutine (parsed from the stack header;
// only used to attribute recorded events to threads of the harness).
func GoID() int64 {
	var buf [64]byte
	n := runtime.Stack(buf[:], false)
	s := buf[:n]
	s = bytes.TrimPrefix(s, []byte("goroutine "))
	i := bytes.IndexByte(s, ' ')
	if i < 0 {
		return -1
	}
	id, err := strconv.ParseInt(string(s[:i]), 10, 64)
	if err != nil {
		return -1
	}
	return id
}

// SendEv is one verifPoint reached by the real code.
type SendEv struct {
	I    int
	G    int64
	Name string
	Args []interface{}
}

func (e *SendEv) U32(i int) uint32 {
	if i < len(e.Args) {
		switch v := e.Args[i].(type) {
		case uint32:
			return v
		case int:
			return uint32(v)
		}
	}
	return 0
}
func (e *SendEv) Int(i int) int {
	if i < len(e.Args) {
		switch v := e.Args[i].(type) {
		case uint32:
			return int(v)
		case int:
			return v
		}
	}
	return 0
}
func (e *SendEv) Bool(i int) bool {
	if i < len(e.Args) {
		if v, ok := e.Args[i].(bool); ok {
			return v
		}
	}
	return false
}
func (e *SendEv) Arg(i int) interface{} {
	if i < len(e.Args) {
		return e.Args[i]
	}
	return nil
}

// SendRule blocks the first goroutine whose event satisfies the predicate
// until Release is called.
type SendRule struct {
	pred    func(*SendEv) bool
	reached chan *SendEv
	release chan struct{}
	used    bool
	relOnce sync.Once
	// After, if set, runs in the parked goroutine right after its release.
	After func()
}

// WaitReached waits until a goroutine is parked at the rule.
func (r *SendRule) WaitReached(d time.Duration) *SendEv {
	select {
	case e := <-r.reached:
		return e
	case <-time.After(d):
		return nil
	}
}

// Release lets the parked goroutine (now or later) continue.
func (r *SendRule) Release() { r.relOnce.Do(func() { close(r.release) }) }

// SendCtl records every event and parks goroutines at the installed rules.
type SendCtl struct {
	mu    sync.Mutex
	evs   []SendEv
	rules []*SendRule
	// OnEvent, if set, runs (outside the recorder lock) in the goroutine that
	// reached the point, before a rule parks it.
	OnEvent func(*SendEv)
	// Yield makes every point yield the processor with this probability (per
	// cent), to diversify the interleavings of the unforced runs.
	Yield func() bool
}

func NewSendCtl() *SendCtl { return &SendCtl{} }

// Hook is the function to install with uasc.VerifSetHook.
func (c *SendCtl) Hook(name string, args ...interface{}) {
	g := GoID()
	c.mu.Lock()
	ev := SendEv{I: len(c.evs), G: g, Name: name, Args: args}
	c.evs = append(c.evs, ev)
	var hit *SendRule
	for _, r := range c.rules {
		if !r.used && r.pred(&ev) {
			r.used = true
			hit = r
			break
		}
	}
	c.mu.Unlock()
	if c.OnEvent != nil {
		c.OnEvent(&ev)
	}
	if hit != nil {
		hit.reached <- &ev
		<-hit.release
		if hit.After != nil {
			hit.After()
		}
	}
}

// BlockAt installs a rule. Only use points that lie outside the critical
// sections of the library (never "cl.*", "handlers.*", "active.get",
// "open.install").
func (c *SendCtl) BlockAt(pred func(*SendEv) bool) *SendRule {
	r := &SendRule{pred: pred, reached: make(chan *SendEv, 1), release: make(chan struct{})}
	c.mu.Lock()
	c.rules = append(c.rules, r)
	c.mu.Unlock()
	return r
}

// ReleaseAll releases every rule (end of a scenario).
func (c *SendCtl) ReleaseAll() {
	c.mu.Lock()
	rs := append([]*SendRule(nil), c.rules...)
	c.mu.Unlock()
	for _, r := range rs {
		r.Release()
	}
}

// Events returns a copy of the events recorded so far.
func (c *SendCtl) Events() []SendEv {
	c.mu.Lock()
	defer c.mu.Unlock()
	return append([]SendEv(nil), c.evs...)
}

// WaitEvent polls until an event satisfies pred.
func (c *SendCtl) WaitEvent(d time.Duration, pred func(*SendEv) bool) *SendEv {
	deadline := time.Now().Add(d)
	from := 0
	for {
		c.mu.Lock()
		for ; from < len(c.evs); from++ {
			if pred(&c.evs[from]) {
				e := c.evs[from]
				c.mu.Unlock()
				return &e
			}
		}
		c.mu.Unlock()
		if time.Now().After(deadline) {
			return nil
		}
		time.Sleep(200 * time.Microsecond)
	}
}

// ---------------------------------------------------------------- loopback

// SendLoopback returns a connected pair of uacp connections over 127.0.0.1
// (real HEL/ACK handshake of the library on both ends).
func SendLoopback() (cli, srv *uacp.Conn, cleanup func(), err error) {
	return SendLoopbackSize(65535)
}

// SendLoopbackSize is SendLoopback with the given buffer (= chunk) size on both ends.
func SendLoopbackSize(buf uint32) (cli, srv *uacp.Conn, cleanup func(), err error) {
	ctx, cancel := context.WithTimeout(context.Background(), 30*time.Second)
	defer cancel()
	ack := &uacp.Acknowledge{ReceiveBufSize: buf, SendBufSize: buf, MaxChunkCount: 512, MaxMessageSize: 16 << 20}
	l, err := uacp.Listen(ctx, "opc.tcp://127.0.0.1:0", ack)
	if err != nil {
		return nil, nil, nil, err
	}
	type acc struct {
		c   *uacp.Conn
		err error
	}
	ch := make(chan acc, 1)
	go func() {
		c, err := l.Accept(ctx)
		ch <- acc{c, err}
	}()
	d := &uacp.Dialer{ClientACK: &uacp.Acknowledge{ReceiveBufSize: buf, SendBufSize: buf}}
	cli, err = d.Dial(ctx, "opc.tcp://"+l.Addr().String())
	if err != nil {
		l.Close()
		return nil, nil, nil, err
	}
	a := <-ch
	if a.err != nil {
		cli.Close()
		l.Close()
		return nil, nil, nil, a.err
	}
	return cli, a.c, func() { cli.Close(); a.c.Close(); l.Close() }, nil
}

// ---------------------------------------------------------------- scripted peer (security mode None)

// PeerChunk is one chunk as the peer of a None-mode channel sees it.
type PeerChunk struct {
	Type      string // OPN MSG CLO
	ChunkType byte   // F C A
	ChannelID uint32
	TokenID   uint32 // 0 for OPN
	Seq       uint32
	ReqID     uint32
	Body      []byte
}

func (c PeerChunk) String() string {
	return fmt.Sprintf("%s%c tok=%d seq=%d req=%d", c.Type, c.ChunkType, c.TokenID, c.Seq, c.ReqID)
}

// PeerRead reads the next chunk written by a None-mode channel.
func PeerRead(conn *uacp.Conn) (*PeerChunk, error) {
	b, err := conn.Receive()
	if err != nil {
		return nil, err
	}
	m := new(uasc.MessageChunk)
	if _, err := m.Decode(b); err != nil {
		return nil, err
	}
	n, err := m.SequenceHeader.Decode(m.Data)
	if err != nil {
		return nil, err
	}
	c := &PeerChunk{Type: m.MessageType, ChunkType: m.ChunkType, ChannelID: m.MessageHeader.Header.SecureChannelID,
		Seq: m.SequenceHeader.SequenceNumber, ReqID: m.SequenceHeader.RequestID, Body: m.Data[n:]}
	if m.SymmetricSecurityHeader != nil {
		c.TokenID = m.SymmetricSecurityHeader.TokenID
	}
	return c, nil
}

// RespHeader builds a response header that encodes.
func RespHeader(handle uint32, status ua.StatusCode) *ua.ResponseHeader {
	return &ua.ResponseHeader{
		Timestamp:          time.Unix(1700000000, 0).UTC(),
		RequestHandle:      handle,
		ServiceResult:      status,
		ServiceDiagnostics: &ua.DiagnosticInfo{},
		StringTable:        []string{},
		AdditionalHeader:   ua.NewExtensionObject(nil),
	}
}

// PeerSendMSG writes one unsecured MSG message (possibly several chunks).
func PeerSendMSG(conn *uacp.Conn, channelID, tokenID uint32, seq *uint32, reqID uint32, svc interface{}, maxBody uint32) error {
	typeID := ua.ServiceTypeID(svc)
	if typeID == 0 {
		return fmt.Errorf("peer: unknown service %T", svc)
	}
	*seq++
	m := &uasc.Message{
		MessageHeader: &uasc.MessageHeader{
			Header:                  uasc.NewHeader(uasc.MessageTypeMessage, uasc.ChunkTypeFinal, channelID),
			SymmetricSecurityHeader: uasc.NewSymmetricSecurityHeader(tokenID),
			SequenceHeader:          uasc.NewSequenceHeader(*seq, reqID),
		},
		TypeID:  ua.NewFourByteExpandedNodeID(0, typeID),
		Service: svc,
	}
	chunks, err := m.EncodeChunks(maxBody)
	if err != nil {
		return err
	}
	for i, ch := range chunks {
		if i > 0 {
			*seq++
			ch[16], ch[17], ch[18], ch[19] = byte(*seq), byte(*seq>>8), byte(*seq>>16), byte(*seq>>24)
		}
		if _, err := conn.Write(ch); err != nil {
			return err
		}
	}
	return nil
}

// PeerChunksMSG encodes one unsecured MSG message into its chunks; the sequence numbers are filled in by
// PeerWriteChunk when a chunk is actually written, so that chunks of several messages can be interleaved.
func PeerChunksMSG(channelID, tokenID, reqID uint32, svc interface{}, maxBody uint32) ([][]byte, error) {
	typeID := ua.ServiceTypeID(svc)
	if typeID == 0 {
		return nil, fmt.Errorf("peer: unknown service %T", svc)
	}
	m := &uasc.Message{
		MessageHeader: &uasc.MessageHeader{
			Header:                  uasc.NewHeader(uasc.MessageTypeMessage, uasc.ChunkTypeFinal, channelID),
			SymmetricSecurityHeader: uasc.NewSymmetricSecurityHeader(tokenID),
			SequenceHeader:          uasc.NewSequenceHeader(0, reqID),
		},
		TypeID:  ua.NewFourByteExpandedNodeID(0, typeID),
		Service: svc,
	}
	return m.EncodeChunks(maxBody)
}

// PeerWriteChunk numbers a chunk of PeerChunksMSG and writes it.
func PeerWriteChunk(conn *uacp.Conn, ch []byte, seq *uint32) error {
	*seq++
	ch[16], ch[17], ch[18], ch[19] = byte(*seq), byte(*seq>>8), byte(*seq>>16), byte(*seq>>24)
	_, err := conn.Write(ch)
	return err
}

// PeerSendOPNResponse writes an unsecured OpenSecureChannelResponse.
func PeerSendOPNResponse(conn *uacp.Conn, channelID, newTokenID uint32, seq *uint32, reqID uint32, lifetimeMs uint32) error {
	*seq++
	resp := &ua.OpenSecureChannelResponse{
		ResponseHeader:        RespHeader(reqID, ua.StatusOK),
		ServerProtocolVersion: 0,
		SecurityToken: &ua.ChannelSecurityToken{
			ChannelID:       channelID,
			TokenID:         newTokenID,
			CreatedAt:       time.Now().UTC(),
			RevisedLifetime: lifetimeMs,
		},
		ServerNonce: []byte{},
	}
	m := &uasc.Message{
		MessageHeader: &uasc.MessageHeader{
			Header:                   uasc.NewHeader(uasc.MessageTypeOpenSecureChannel, uasc.ChunkTypeFinal, channelID),
			AsymmetricSecurityHeader: uasc.NewAsymmetricSecurityHeader(ua.SecurityPolicyURINone, nil, nil),
			SequenceHeader:           uasc.NewSequenceHeader(*seq, reqID),
		},
		TypeID:  ua.NewFourByteExpandedNodeID(0, ua.ServiceTypeID(resp)),
		Service: resp,
	}
	b, err := m.Encode()
	if err != nil {
		return err
	}
	_, err = conn.Write(b)
	return err
}

// NoneConfig is the channel configuration of the None-mode scenarios.
func NoneConfig(seed uint32, timeout time.Duration) *uasc.Config {
	return &uasc.Config{
		SecurityPolicyURI: ua.SecurityPolicyURINone,
		SecurityMode:      ua.MessageSecurityModeNone,
		RequestIDSeed:     seed,
		Lifetime:          3600000,
		RequestTimeout:    timeout,
	}
}
