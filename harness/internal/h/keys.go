package h

import (
	"crypto/rsa"
	"crypto/x509"
	"encoding/pem"
	"fmt"
	"os"
)

// KeyPair is one of the committed test identities testdata/keys/rsa<bits>_<a|b>.
type KeyPair struct {
	Bits    int
	Key     *rsa.PrivateKey
	CertDER []byte
	KeyPEM  string // path
	CertPEM string // path
}

// LoadKey loads testdata/keys/rsa<bits>_<who>.
func LoadKey(dir string, bits int, who string) (*KeyPair, error) {
	base := fmt.Sprintf("%s/rsa%d_%s", dir, bits, who)
	kb, err := os.ReadFile(base + "_key.pem")
	if err != nil {
		return nil, err
	}
	blk, _ := pem.Decode(kb)
	if blk == nil {
		return nil, fmt.Errorf("%s: no PEM block", base)
	}
	key, err := x509.ParsePKCS1PrivateKey(blk.Bytes)
	if err != nil {
		return nil, err
	}
	der, err := os.ReadFile(base + "_cert.der")
	if err != nil {
		return nil, err
	}
	return &KeyPair{Bits: bits, Key: key, CertDER: der, KeyPEM: base + "_key.pem", CertPEM: base + "_cert.pem"}, nil
}
