// Package h is the shared library of the correspondence runners: one PRNG,
// the line-protocol client for the Lean drivers, the result record every
// runner writes, canonicalisation helpers.
package h

import (
	"bufio"
	"crypto/sha256"
	"encoding/hex"
	"encoding/json"
	"flag"
	"fmt"
	"io"
	"os"
	"os/exec"
	"sort"
	"strings"
)

// ---------------------------------------------------------------- PRNG

// Rand is splitmix64; every random choice of a runner derives from one
// instance seeded by VERIF_SEED so a disagreement replays exactly.
type Rand struct{ s uint64 }

func NewRand(seed uint64) *Rand { return &Rand{s: seed*0x9E3779B97F4A7C15 + 0x1234567} }

func (r *Rand) U64() uint64 {
	r.s += 0x9E3779B97F4A7C15
	z := r.s
	z = (z ^ (z >> 30)) * 0xBF58476D1CE4E5B9
	z = (z ^ (z >> 27)) * 0x94D049BB133111EB
	return z ^ (z >> 31)
}
func (r *Rand) Intn(n int) int {
	if n <= 0 {
		return 0
	}
	return int(r.U64() % uint64(n))
}
func (r *Rand) Bool() bool        { return r.U64()&1 == 1 }
func (r *Rand) Chance(p int) bool { return r.Intn(100) < p }
func (r *Rand) Bytes(n int) []byte {
	b := make([]byte, n)
	for i := range b {
		b[i] = byte(r.U64())
	}
	return b
}
func (r *Rand) Pick(xs ...int) int { return xs[r.Intn(len(xs))] }

// Fork derives an independent stream (for sub-generators).
func (r *Rand) Fork() *Rand { return &Rand{s: r.U64()} }

// ---------------------------------------------------------------- hex

func Hex(b []byte) string {
	if len(b) == 0 {
		return "-"
	}
	return hex.EncodeToString(b)
}
func UnHex(s string) []byte {
	if s == "-" || s == "" {
		return nil
	}
	b, err := hex.DecodeString(s)
	if err != nil {
		panic("bad hex from driver: " + s)
	}
	return b
}

// ---------------------------------------------------------------- driver

// Driver is a running Lean driver spoken to over the line protocol.
type Driver struct {
	cmd *exec.Cmd
	in  *bufio.Writer
	out *bufio.Reader
	w   io.WriteCloser
	N   int
}

// StartDriver starts the Lean driver at path; path=="" means "no model"
// (oracle-only mode, used when the Lean side no longer builds).
func StartDriver(path string) (*Driver, error) {
	if path == "" {
		return nil, nil
	}
	cmd := exec.Command(path)
	w, err := cmd.StdinPipe()
	if err != nil {
		return nil, err
	}
	rd, err := cmd.StdoutPipe()
	if err != nil {
		return nil, err
	}
	cmd.Stderr = os.Stderr
	if err := cmd.Start(); err != nil {
		return nil, err
	}
	return &Driver{cmd: cmd, in: bufio.NewWriterSize(w, 1<<20), out: bufio.NewReaderSize(rd, 1<<20), w: w}, nil
}

// Ask sends one request line and returns the one answer line.
func (d *Driver) Ask(line string) string {
	d.N++
	if strings.ContainsAny(line, "\n\r") {
		panic("newline in protocol line")
	}
	d.in.WriteString(line)
	d.in.WriteByte('\n')
	d.in.Flush()
	s, err := d.out.ReadString('\n')
	if err != nil {
		return "driver-error " + err.Error()
	}
	return strings.TrimRight(s, "\n")
}

func (d *Driver) Close() {
	if d == nil {
		return
	}
	d.in.Flush()
	d.w.Close()
	d.cmd.Wait()
}

// ---------------------------------------------------------------- result

type Disagreement struct {
	Case  string `json:"case"`
	Model string `json:"model"`
	Impl  string `json:"impl"`
}

type OracleFailure struct {
	Case   string `json:"case"`
	Sig    string `json:"sig"` // finding signature id, "" = unclassified
	Detail string `json:"detail"`
}

// Result is what a runner hands back to ./check.
type Result struct {
	Property           string            `json:"property"`
	Tier               string            `json:"tier"`
	Seed               uint64            `json:"seed"`
	ModelUsed          bool              `json:"model_used"`
	Evaluations        int               `json:"evaluations"`
	DistinctNontrivial int               `json:"distinct_nontrivial"`
	Rule               string            `json:"rule"`
	Samples            []string          `json:"samples"`
	Distribution       map[string]int    `json:"distribution"`
	Unreached          []string          `json:"unreached,omitempty"`
	Disagreements      []Disagreement    `json:"disagreements"`
	OracleFailures     []OracleFailure   `json:"oracle_failures"`
	FindingsConfirmed  []string          `json:"findings_confirmed"`
	FindingsDetail     map[string]string `json:"findings_detail,omitempty"`
	TracesValidated    int               `json:"traces_validated_against_impl"`
	Exhaustive         bool              `json:"exhaustive"`
	Notes              []string          `json:"notes,omitempty"`
	InfraError         string            `json:"infra_error,omitempty"`

	seen map[[8]byte]bool
}

func NewResult(prop string, o *Opts) *Result {
	return &Result{Property: prop, Tier: o.Tier, Seed: o.Seed, ModelUsed: o.Driver != "",
		Distribution: map[string]int{}, FindingsDetail: map[string]string{}, seen: map[[8]byte]bool{},
		Disagreements: []Disagreement{}, OracleFailures: []OracleFailure{}, FindingsConfirmed: []string{}, Samples: []string{}}
}

// Count records one evaluated case; nontrivial cases are de-duplicated by a
// hash of their canonical text.
func (r *Result) Count(canon string, nontrivial bool) {
	r.Evaluations++
	if !nontrivial {
		return
	}
	h := sha256.Sum256([]byte(canon))
	var k [8]byte
	copy(k[:], h[:8])
	if !r.seen[k] {
		r.seen[k] = true
		r.DistinctNontrivial++
	}
}
func (r *Result) Hit(branch string) { r.Distribution[branch]++ }
func (r *Result) Sample(s string) {
	if len(r.Samples) < 8 {
		if len(s) > 400 {
			s = s[:400] + "…"
		}
		r.Samples = append(r.Samples, s)
	}
}
func (r *Result) Disagree(c, model, impl string) {
	if len(r.Disagreements) < 20 {
		r.Disagreements = append(r.Disagreements, Disagreement{c, model, impl})
	}
	r.Hit("DISAGREE")
}
func (r *Result) Fail(c, sig, detail string) {
	if len(r.OracleFailures) < 50 {
		r.OracleFailures = append(r.OracleFailures, OracleFailure{c, sig, detail})
	}
	if sig == "" {
		r.Hit("ORACLE-FAIL")
	} else {
		r.Hit("oracle-fail:" + sig)
	}
}
func (r *Result) Confirm(sig, detail string) {
	for _, s := range r.FindingsConfirmed {
		if s == sig {
			return
		}
	}
	r.FindingsConfirmed = append(r.FindingsConfirmed, sig)
	r.FindingsDetail[sig] = detail
}

// Compare asks the model and compares with the implementation's answer.
// With no driver (oracle-only mode) it does nothing and returns true.
func (r *Result) Compare(d *Driver, req, impl string) bool {
	if d == nil {
		return true
	}
	m := d.Ask(req)
	if m != impl {
		r.Disagree(req, m, impl)
		return false
	}
	return true
}

func (r *Result) Write(path string) {
	sort.Strings(r.FindingsConfirmed)
	b, _ := json.MarshalIndent(r, "", " ")
	if path == "" || path == "-" {
		os.Stdout.Write(b)
		return
	}
	if err := os.WriteFile(path, b, 0o644); err != nil {
		fmt.Fprintln(os.Stderr, "cannot write result:", err)
		os.Exit(2)
	}
}

// ---------------------------------------------------------------- options

type Opts struct {
	Tier   string
	Seed   uint64
	Driver string
	Out    string
	Replay string // a single case to re-run ("" = generate)
	Corpus string // corpus directory of the property
	Keys   string // testdata/keys directory
}

func ParseOpts() *Opts {
	o := &Opts{}
	flag.StringVar(&o.Tier, "tier", "quick", "quick|thorough")
	flag.Uint64Var(&o.Seed, "seed", 1, "PRNG seed")
	flag.StringVar(&o.Driver, "driver", "", "path of the Lean driver ('' = oracle only)")
	flag.StringVar(&o.Out, "out", "-", "result file")
	flag.StringVar(&o.Replay, "replay", "", "replay one case")
	flag.StringVar(&o.Corpus, "corpus", "", "corpus directory")
	flag.StringVar(&o.Keys, "keys", "/verif/testdata/keys", "key directory")
	flag.Parse()
	return o
}

func (o *Opts) Thorough() bool { return o.Tier == "thorough" }

// N picks the case count of the tier.
func (o *Opts) N(quick, thorough int) int {
	if o.Thorough() {
		return thorough
	}
	return quick
}

// CorpusLines returns the non-empty, non-comment lines of every file in the
// property's corpus directory (past disagreements / finding witnesses).
func (o *Opts) CorpusLines() []string {
	var out []string
	if o.Corpus == "" {
		return out
	}
	ents, err := os.ReadDir(o.Corpus)
	if err != nil {
		return out
	}
	for _, e := range ents {
		b, err := os.ReadFile(o.Corpus + "/" + e.Name())
		if err != nil {
			continue
		}
		for _, l := range strings.Split(string(b), "\n") {
			l = strings.TrimSpace(l)
			if l != "" && !strings.HasPrefix(l, "#") {
				out = append(out, l)
			}
		}
	}
	return out
}

// Catch runs f and maps a panic to ("panic", message).
func Catch(f func() string) (out string) {
	defer func() {
		if e := recover(); e != nil {
			out = "panic"
		}
	}()
	return f()
}

// CatchMsg is Catch but also returns the panic text.
func CatchMsg(f func() string) (out string, msg string) {
	defer func() {
		if e := recover(); e != nil {
			out = "panic"
			msg = fmt.Sprint(e)
		}
	}()
	return f(), ""
}
