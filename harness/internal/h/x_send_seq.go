package h

// Projection of recorded verifPoint events to the labels of the Lean LTS
// `SendSeq` (C11, C16b) and the wire oracle of C11.

import (
	"fmt"
)

// NextSeq is the reference successor of a sequence number (OPC UA Part 6,
// 6.7.2.4 as the library implements it: wrap to 1 after 2^32-1024).
func NextSeq(n uint32) uint32 {
	n++
	if n > 0xFFFFFFFF-1023 {
		n = 1
	}
	return n
}

type seqThread struct {
	tid     int
	resp    bool
	cnt     int
	written int
	number  bool
}

// SeqLabels projects events to labels. reqLocker identifies the gate among
// the "cl.*" events. It also returns the numbers that were drawn but never
// written (aborted sends).
func SeqLabels(evs []SendEv, reqLocker interface{}) (labels []string, burned []uint32, note string) {
	labels, burned, _, note = SeqLabelsT(evs, reqLocker)
	return
}

// SeqLabelsT is SeqLabels and also returns the request ids of messages whose sender gave up after
// it had written at least one chunk (the message stays unfinished on the wire).
func SeqLabelsT(evs []SendEv, reqLocker interface{}) (labels []string, burned []uint32, truncated []uint32, note string) {
	threads := map[int64]*seqThread{}
	renewers := map[int64]bool{}
	sentOPN, installed := false, false
	var opnSeq uint32
	n := 0
	nextOf := func(i int, g int64) *SendEv {
		for j := i + 1; j < len(evs); j++ {
			if evs[j].G == g {
				return &evs[j]
			}
		}
		return nil
	}
	emit := func(f string, a ...interface{}) { labels = append(labels, fmt.Sprintf(f, a...)) }
	for i := range evs {
		ev := &evs[i]
		th := threads[ev.G]
		isR := renewers[ev.G]
		switch ev.Name {
		case "send.begin":
			th = &seqThread{tid: n}
			n++
			threads[ev.G] = th
			emit("spawn")
		case "cl.pass":
			if ev.Arg(0) == reqLocker && th != nil && !th.resp {
				emit("gate %d", th.tid)
			}
		case "active.get":
			if th != nil && !th.resp {
				emit("getActive %d", th.tid)
			} else if th == nil && !isR {
				nx := nextOf(i, ev.G)
				if nx != nil && nx.Name == "resp.lockedInst" {
					th = &seqThread{tid: n, resp: true}
					n++
					threads[ev.G] = th
					emit("spawn")
					emit("respGetActive %d", th.tid)
				}
			}
		case "send.pendAdd":
			if th != nil && !isR {
				emit("pendAdd %d", th.tid)
			}
		case "send.lockedInst", "resp.lockedInst":
			if th != nil && !isR {
				emit("lockInst %d", th.tid)
			}
		case "send.numbered", "resp.numbered":
			if isR {
				opnSeq = ev.U32(2) // an OPN chunk has no fixed offset for its sequence header
			}
			if th != nil && !isR {
				th.cnt = 1
				th.number = true
				for j := i + 1; j < len(evs); j++ {
					if evs[j].G == ev.G {
						if evs[j].Name == "send.chunk" || evs[j].Name == "resp.chunk" {
							th.cnt = evs[j].Int(3)
						}
						break
					}
				}
				// the first chunk event may come after other events of the thread (handlers.register)
				for j := i + 1; j < len(evs); j++ {
					if evs[j].G == ev.G && (evs[j].Name == "send.chunk" || evs[j].Name == "resp.chunk") {
						th.cnt = evs[j].Int(3)
						break
					}
					if evs[j].G == ev.G && (evs[j].Name == "send.unlockInst" || evs[j].Name == "resp.unlockInst") {
						break
					}
				}
				emit("newMsg %d %d", th.tid, th.cnt)
				if th.written == 0 {
					// remember the number in case nothing is written
					th.number = true
				}
				_ = ev.U32(2)
			}
		case "send.chunk", "resp.chunk":
			if isR {
				emit("rSendOPN %d", opnSeq)
				sentOPN = true
			} else if th != nil {
				emit("write %d %d", th.tid, ev.U32(4))
				th.written++
			}
		case "send.unlockInst", "resp.unlockInst":
			if th != nil && !isR {
				if th.number && th.written < th.cnt {
					emit("abort %d", th.tid)
					if th.written > 0 {
						truncated = append(truncated, ev.U32(0))
					}
					if th.written == 0 {
						// find the number drawn
						for j := i - 1; j >= 0; j-- {
							if evs[j].G == ev.G && (evs[j].Name == "send.numbered" || evs[j].Name == "resp.numbered") {
								burned = append(burned, evs[j].U32(2))
								break
							}
						}
					}
				}
				emit("unlockInst %d", th.tid)
				if th.resp {
					delete(threads, ev.G) // the goroutine may send again as a new thread
				}
			}
		case "send.pendDone":
			if th != nil && !isR {
				emit("pendDone %d", th.tid)
				delete(threads, ev.G) // the goroutine may send again as a new thread
			}
		case "renew.begin":
			renewers[ev.G] = true
			delete(threads, ev.G)
			sentOPN, installed = false, false
		case "cl.lock":
			if ev.Arg(0) == reqLocker && isR {
				emit("rLock")
			}
		case "renew.beforeWait":
			emit("rWaitBegin")
		case "renew.afterWait":
			emit("rWaitDone")
		case "renew.lockedInst":
			emit("rLockOld")
		case "open.copySeq":
			emit("rCopy")
		case "open.install":
			emit("rInstall %d", ev.U32(1))
			installed = true
		case "renew.unlockInst":
			if sentOPN && !installed {
				emit("rFail")
			}
			emit("rUnlockOld")
		case "cl.unlock":
			if ev.Arg(0) == reqLocker && isR {
				emit("rUnlock")
				delete(renewers, ev.G)
			}
		}
	}
	return labels, burned, truncated, ""
}

// WireVerdict is the result of the C11 oracle on the chunks a peer received.
type WireVerdict struct {
	OK        bool
	Detail    string   // first offence on the raw wire
	Sigs      []string // finding signatures that together explain every offence
	Explained bool     // !OK and Sigs explain it
}

// truncatedReq: request ids of messages their sender abandoned after the first chunk; such a
// message simply ends, the next one may follow (no chunk of it may come later, though).
var truncatedReq map[uint32]bool

func wireOffence(w []PeerChunk, virtual map[uint32]bool) string {
	ended := map[uint32]bool{}
	for i := 1; i < len(w); i++ {
		if ended[w[i].ReqID] {
			return fmt.Sprintf("chunk %d (%s) continues a message that was interrupted by another message", i, w[i])
		}
		if w[i-1].ChunkType == 'C' && w[i].ReqID != w[i-1].ReqID && truncatedReq[w[i-1].ReqID] {
			ended[w[i-1].ReqID] = true
		} else if w[i-1].ChunkType == 'C' && w[i].ReqID != w[i-1].ReqID {
			return fmt.Sprintf("chunk %d (%s) interrupts the unfinished message of chunk %d (%s)", i, w[i], i-1, w[i-1])
		}
		exp := NextSeq(w[i-1].Seq)
		for virtual[exp] && exp != w[i].Seq {
			exp = NextSeq(exp)
		}
		if w[i].Seq != exp {
			return fmt.Sprintf("chunk %d (%s) follows chunk %d (%s): expected sequence number %d", i, w[i], i-1, w[i-1], NextSeq(w[i-1].Seq))
		}
	}
	return ""
}

// CheckWire evaluates the property on the received chunk sequence: numbers go
// up by NextSeq from chunk to chunk and the chunks of a message (same request
// id, 'C'…'F') are adjacent. issued maps the request id of every answered OPN
// request to the token the answer carried, initTok is the token in use at the
// start, burned are the numbers drawn for a send that wrote nothing.
//
// A failing wire is classified by the narrowest set of known defects whose
// symptoms, once taken out, leave a wire that satisfies the property:
//
//	stale   chunks secured with a token that an answered OPN request earlier on the wire superseded
//	failed  OPN request chunks that were never answered
//	abort   numbers in `burned` (counted as if their chunk had been written)
//	overlap OPN request chunks that repeat the sequence number of an earlier answered OPN request (a second
//	        renewal started from the superseded token's stale counter) and the chunks under the token issued for them
func CheckWire(wire []PeerChunk, burned []uint32, issued map[uint32]uint32, initTok uint32) WireVerdict {
	return CheckWireT(wire, burned, nil, issued, initTok)
}

// CheckWireT is CheckWire with the request ids of messages abandoned by their sender after the first chunk.
func CheckWireT(wire []PeerChunk, burned []uint32, truncated []uint32, issued map[uint32]uint32, initTok uint32) WireVerdict {
	truncatedReq = map[uint32]bool{}
	for _, id := range truncated {
		truncatedReq[id] = true
	}
	v := WireVerdict{OK: true}
	d := wireOffence(wire, nil)
	if d == "" {
		return v
	}
	v.OK = false
	v.Detail = d
	virtual := map[uint32]bool{}
	for _, b := range burned {
		virtual[b] = true
	}
	for mask := 1; mask < 16; mask++ {
		useStale, useFailed, useAbort, useOverlap := mask&1 != 0, mask&2 != 0, mask&4 != 0, mask&8 != 0
		if useAbort && len(burned) == 0 {
			continue
		}
		cur := initTok
		superseded := map[uint32]bool{}
		var w []PeerChunk
		nStale, nFailed, nOverlap := 0, 0, 0
		opnSeq := map[uint32]bool{}
		overlapTok := map[uint32]bool{}
		for _, c := range wire {
			if useOverlap && c.Type != "OPN" && overlapTok[c.TokenID] {
				nOverlap++
				continue
			}
			if c.Type == "OPN" {
				if tok, ok := issued[c.ReqID]; ok && useOverlap && opnSeq[c.Seq] {
					overlapTok[tok] = true
					nOverlap++
					continue
				}
				opnSeq[c.Seq] = true
				if tok, ok := issued[c.ReqID]; ok {
					superseded[cur] = true
					cur = tok
				} else if useFailed {
					nFailed++
					continue
				}
				w = append(w, c)
				continue
			}
			if useStale && superseded[c.TokenID] {
				nStale++
				continue
			}
			w = append(w, c)
		}
		if (useStale && nStale == 0) || (useFailed && nFailed == 0) || (useOverlap && nOverlap == 0) {
			continue
		}
		var virt map[uint32]bool
		if useAbort {
			virt = virtual
		}
		if wireOffence(w, virt) == "" {
			if useStale {
				v.Sigs = append(v.Sigs, "C11.stale-counter-after-renewal")
			}
			if useFailed {
				v.Sigs = append(v.Sigs, "C11.failed-renewal-burns-number")
			}
			if useAbort {
				v.Sigs = append(v.Sigs, "C11.aborted-send-burns-number")
			}
			if useOverlap {
				v.Sigs = append(v.Sigs, "C11.overlapping-renewals")
			}
			v.Explained = true
			return v
		}
	}
	return v
}
