// Helpers shared by the runners of the receive-path properties (C12, C10,
// C17, C13, C20): loopback TCP pairs wrapped into uacp.Conn, a reference
// chunk writer that is independent of gopcua's sender, canonical text of what
// SecureChannel.Receive returns.
package h

import (
	"bufio"
	"context"
	"encoding/binary"
	"encoding/json"
	"fmt"
	"io"
	"net"
	"os"
	"os/exec"
	"regexp"
	"runtime"
	"runtime/debug"
	"strings"
	"sync"
	"time"

	"github.com/gopcua/opcua/ua"
	"github.com/gopcua/opcua/uacp"
	"github.com/gopcua/opcua/uasc"
)

// ---------------------------------------------------------------- loopback

var (
	recvLbOnce sync.Once
	recvLbMu   sync.Mutex // one dial/accept pair at a time: concurrent callers would get each other's sockets
	recvLbL    *net.TCPListener
	recvLbErr  error
)

// RecvTCPPair returns two connected loopback TCP connections.
func RecvTCPPair() (a, b *net.TCPConn, err error) {
	recvLbOnce.Do(func() {
		var l net.Listener
		l, recvLbErr = net.Listen("tcp", "127.0.0.1:0")
		if recvLbErr == nil {
			recvLbL = l.(*net.TCPListener)
		}
	})
	if recvLbErr != nil {
		return nil, nil, recvLbErr
	}
	recvLbMu.Lock()
	defer recvLbMu.Unlock()
	type acc struct {
		c   *net.TCPConn
		err error
	}
	ch := make(chan acc, 1)
	go func() {
		c, err := recvLbL.AcceptTCP()
		ch <- acc{c, err}
	}()
	c, err := net.Dial("tcp", recvLbL.Addr().String())
	if err != nil {
		return nil, nil, err
	}
	r := <-ch
	if r.err != nil {
		c.Close()
		return nil, nil, r.err
	}
	return c.(*net.TCPConn), r.c, nil
}

// RecvAck builds the connection parameters of a uacp.Conn.
func RecvAck(rcvBuf, sndBuf, maxChunks, maxMsg uint32) *uacp.Acknowledge {
	return &uacp.Acknowledge{ReceiveBufSize: rcvBuf, SendBufSize: sndBuf, MaxChunkCount: maxChunks, MaxMessageSize: maxMsg}
}

// RecvChannel is an open secure channel under test plus the raw peer socket.
type RecvChannel struct {
	SC    *uasc.SecureChannel
	Conn  *uacp.Conn
	Peer  *net.TCPConn
	ErrCh chan error
}

func (rc *RecvChannel) Close() {
	rc.Peer.Close()
	rc.Conn.Close()
}

// OpenRecvChannel builds an already-open channel (hook VerifOpenChannel) of
// the given kind over a fresh loopback connection.
func OpenRecvChannel(cfg *uasc.Config, ack *uacp.Acknowledge, isServer bool, channelID, tokenID, seq uint32, localNonce, remoteNonce []byte) (*RecvChannel, error) {
	a, b, err := RecvTCPPair()
	if err != nil {
		return nil, err
	}
	conn, err := uacp.NewConn(a, ack)
	if err != nil {
		return nil, err
	}
	errch := make(chan error, 16)
	sc, err := uasc.VerifOpenChannel(conn, cfg, isServer, channelID, tokenID, seq, localNonce, remoteNonce, errch)
	if err != nil {
		a.Close()
		b.Close()
		return nil, err
	}
	return &RecvChannel{SC: sc, Conn: conn, Peer: b, ErrCh: errch}, nil
}

// RecvNoneConfig is the configuration of an unsecured channel.
func RecvNoneConfig() *uasc.Config {
	return &uasc.Config{SecurityPolicyURI: ua.SecurityPolicyURINone, SecurityMode: ua.MessageSecurityModeNone,
		Lifetime: 3600000, RequestTimeout: 5 * time.Second}
}

// ---------------------------------------------------------------- reference chunks

// RecvRefChunk is one chunk as the reference sender describes it.
type RecvRefChunk struct {
	MsgType   string // "MSG", "CLO", …
	Type      byte   // 'C', 'F', 'A' (or anything)
	ChannelID uint32
	TokenID   uint32
	Seq       uint32
	Req       uint32
	Body      []byte
}

// Raw is the unsecured wire form (OPC UA Part 6, 6.7.2): 12-byte header,
// token id, sequence header, body.  Written from the specification, not with
// gopcua's encoder.
func (c RecvRefChunk) Raw() []byte {
	mt := c.MsgType
	if mt == "" {
		mt = "MSG"
	}
	b := make([]byte, 24+len(c.Body))
	copy(b, mt)
	b[3] = c.Type
	binary.LittleEndian.PutUint32(b[4:], uint32(len(b)))
	binary.LittleEndian.PutUint32(b[8:], c.ChannelID)
	binary.LittleEndian.PutUint32(b[12:], c.TokenID)
	binary.LittleEndian.PutUint32(b[16:], c.Seq)
	binary.LittleEndian.PutUint32(b[20:], c.Req)
	copy(b[24:], c.Body)
	return b
}

// Token is the chunk in the text form of the Lean drivers: ct:seq:req:hex.
func (c RecvRefChunk) Token() string {
	return fmt.Sprintf("%d:%d:%d:%s", c.Type, c.Seq, c.Req, Hex(c.Body))
}

// RecvAbortBody encodes a MessageAbort (error code, reason string; a nil reason
// is the null string).
func RecvAbortBody(code uint32, reason *string) []byte {
	b := make([]byte, 8)
	binary.LittleEndian.PutUint32(b, code)
	if reason == nil {
		binary.LittleEndian.PutUint32(b[4:], 0xffffffff)
		return b
	}
	binary.LittleEndian.PutUint32(b[4:], uint32(len(*reason)))
	return append(b, *reason...)
}

// ---------------------------------------------------------------- results of Receive

var (
	recvReTooMany  = regexp.MustCompile(`too many chunks: (\d+) > (\d+)$`)
	recvReTooLarge = regexp.MustCompile(`message too large: (\d+) > (\d+)$`)
)

// RecvErrClass maps an error returned by the receive path to a small enum.
func RecvErrClass(err error) string {
	if err == nil {
		return "nil"
	}
	if err == io.EOF {
		return "eof"
	}
	if sc, ok := err.(ua.StatusCode); ok {
		return fmt.Sprintf("status:%d", uint32(sc))
	}
	if _, ok := err.(*uacp.Error); ok {
		return "uacp"
	}
	s := err.Error()
	if m := recvReTooMany.FindStringSubmatch(s); m != nil {
		return "toomany:" + m[1]
	}
	if m := recvReTooLarge.FindStringSubmatch(s); m != nil {
		return "toolarge:" + m[1]
	}
	return "err:" + strings.ReplaceAll(s, " ", "_")
}

// RecvServiceHex re-encodes a decoded service message (type id + body).
func RecvServiceHex(v interface{}) string {
	if v == nil {
		return "-"
	}
	id := ua.ServiceTypeID(v)
	tb, err1 := ua.Encode(ua.NewFourByteExpandedNodeID(0, id))
	bb, err2 := ua.Encode(v)
	if err1 != nil || err2 != nil {
		return "unencodable"
	}
	return Hex(append(tb, bb...))
}

func recvBodyOf(m *uasc.MessageBody) interface{} {
	if r := m.Request(); r != nil {
		return r
	}
	if r := m.Response(); r != nil {
		return r
	}
	return nil
}

// RecvResultText is the canonical form of one value returned by Receive:
// "<requestID> <error class> <hex of the re-encoded message or ->".
func RecvResultText(m *uasc.MessageBody) string {
	return fmt.Sprintf("%d %s %s", m.RequestID, RecvErrClass(m.Err), RecvServiceHex(recvBodyOf(m)))
}

// RecvExpectMerged says what Receive has to return when it hands the bytes b of
// request id req to the service decoder: the statements of Receive after
// mergeChunks (DecodeService, "If the service status is not OK then bubble
// that error up"), with the real decoder.  OpenSecureChannel requests are not
// covered (the runners do not send them on an open channel).
func RecvExpectMerged(req uint32, b []byte) string {
	_, body, err := ua.DecodeService(b)
	if err != nil {
		return fmt.Sprintf("%d %s -", req, RecvErrClass(err))
	}
	cls := "nil"
	if resp, ok := body.(ua.Response); ok && resp.Header() != nil {
		if st := resp.Header().ServiceResult; st != ua.StatusOK {
			cls = RecvErrClass(st)
		}
	}
	return fmt.Sprintf("%d %s %s", req, cls, RecvServiceHex(body))
}

// RecvExpectFromModel translates one model result (text form of the Lean driver)
// into the canonical form of RecvResultText; "" for `cont`.
func RecvExpectFromModel(tok string) string {
	p := strings.Split(tok, ":")
	switch p[0] {
	case "cont":
		return ""
	case "abort":
		return fmt.Sprintf("%s status:%s -", p[1], p[2])
	case "abortbad":
		return fmt.Sprintf("%s status:%d -", p[1], uint32(ua.StatusBadDecodingError))
	case "toomany":
		return fmt.Sprintf("%s toomany:%s -", p[1], p[2])
	case "toolarge":
		return fmt.Sprintf("%s toolarge:%s -", p[1], p[2])
	case "merged":
		var req uint32
		fmt.Sscan(p[1], &req)
		return RecvExpectMerged(req, UnHex(p[2]))
	}
	return "model-answer-not-understood:" + tok
}

// RecvSafeToDecode reports whether handing b to ua.DecodeService is harmless.
// The decoder of the unchanged tree allocates whatever an array length field
// says (finding of C02), so a byte string that starts with a registered
// service type id followed by arbitrary bytes can make the receive path
// allocate gigabytes.  Harmless are: a type id that does not decode or is not
// registered (probed with the type-id bytes alone), and byte strings that
// extend, or are a prefix of, one of the well-formed messages in goods.
func RecvSafeToDecode(b []byte, goods [][]byte) bool {
	id := new(ua.ExpandedNodeID)
	n, err := id.Decode(b)
	if err != nil || n > len(b) {
		return true
	}
	if _, _, err := ua.DecodeService(b[:n]); err == ua.StatusBadServiceUnsupported {
		return true
	}
	for _, g := range goods {
		k := len(g)
		if len(b) < k {
			k = len(b)
		}
		if string(b[:k]) == string(g[:k]) {
			return true
		}
	}
	return false
}

// RecvDrain calls Receive until it reports EOF (or an error that ends the
// stream) and returns the canonical results. The deadline bounds the whole
// call; hitting it returns ok=false.
func RecvDrain(rc *RecvChannel, max int, deadline time.Duration) (out []string, ok bool) {
	ok = RecvDrainInto(rc, max, deadline, &out)
	return out, ok
}

// RecvDrainInto is RecvDrain appending to *dst, so that the results obtained
// before a panic of the real code are not lost.
func RecvDrainInto(rc *RecvChannel, max int, deadline time.Duration, dst *[]string) (ok bool) {
	rc.Conn.SetReadDeadline(time.Now().Add(deadline))
	ctx, cancel := context.WithTimeout(context.Background(), deadline)
	defer cancel()
	for i := 0; i < max; i++ {
		m := rc.SC.Receive(ctx)
		if m.Err == io.EOF {
			return true
		}
		if m.Err != nil {
			if ne, isNet := m.Err.(net.Error); isNet && ne.Timeout() {
				return false
			}
			if strings.Contains(m.Err.Error(), "i/o timeout") || m.Err == context.DeadlineExceeded {
				return false
			}
		}
		*dst = append(*dst, RecvResultText(m))
	}
	return false
}

// RecvWriteAll writes the frames to the peer socket and half-closes it, so that
// the receiver sees EOF after the last frame.
func RecvWriteAll(peer *net.TCPConn, frames [][]byte) error {
	for _, f := range frames {
		if _, err := peer.Write(f); err != nil {
			return err
		}
	}
	return peer.CloseWrite()
}

// ---------------------------------------------------------------- sealed chunks

// RecvSealer secures reference chunks the way the peer of the channel under
// test would: symmetric keys derived from the two nonces with the roles
// swapped.  It uses gopcua's own signAndEncrypt as the sealing tool (the
// properties that use it are about the receive side).
type RecvSealer struct {
	inst *uasc.VerifInstance
}

// NewRecvSealer: localNonce / remoteNonce are those of the channel under test.
func NewRecvSealer(uri string, mode ua.MessageSecurityMode, localNonce, remoteNonce []byte) (*RecvSealer, error) {
	inst, err := uasc.VerifNewSymmetricInstance(uri, mode, remoteNonce, localNonce)
	if err != nil {
		return nil, err
	}
	return &RecvSealer{inst: inst}, nil
}

// Seal returns the secured wire form of the chunk.
func (s *RecvSealer) Seal(c RecvRefChunk) ([]byte, error) {
	mt := c.MsgType
	if mt == "" {
		mt = "MSG"
	}
	m := &uasc.Message{MessageHeader: &uasc.MessageHeader{
		Header:                  uasc.NewHeader(mt, c.Type, c.ChannelID),
		SymmetricSecurityHeader: uasc.NewSymmetricSecurityHeader(c.TokenID),
		SequenceHeader:          uasc.NewSequenceHeader(c.Seq, c.Req),
	}}
	raw := c.Raw()
	b := make([]byte, len(raw), len(raw)+512)
	copy(b, raw)
	return s.inst.SignAndEncrypt(m, b)
}

// RecvSecureConfig is the channel configuration for a secured channel.
func RecvSecureConfig(uri string, mode ua.MessageSecurityMode, kp *KeyPair, remoteCert []byte) *uasc.Config {
	return &uasc.Config{SecurityPolicyURI: uri, SecurityMode: mode, LocalKey: kp.Key, Certificate: kp.CertDER,
		RemoteCertificate: remoteCert, Lifetime: 3600000, RequestTimeout: 5 * time.Second}
}

// ---------------------------------------------------------------- worker process

// RecvJob asks the worker to feed frames to a secure channel of the real code
// and to report what Receive returns.  The worker is a child process with an
// address-space limit: a fatal error of the real code (out of memory, stack
// overflow) kills the child, not the runner, and is reported as "crash".
type RecvJob struct {
	Setup       string   `json:"setup"` // "open": channel already open (VerifOpenChannel); "fresh-server" / "fresh-client": new channel, nothing opened
	Server      bool     `json:"server"`
	URI         string   `json:"uri"`
	Mode        int      `json:"mode"`
	LocalNonce  []byte   `json:"ln"`
	RemoteNonce []byte   `json:"rn"`
	KeyDir      string   `json:"keydir"`
	Ack         []uint32 `json:"ack"` // rcvBuf sndBuf maxChunks maxMsg
	ChannelID   uint32   `json:"ch"`
	TokenID     uint32   `json:"tok"`
	Frames      [][]byte `json:"frames"`
	DeadlineMs  int      `json:"deadline_ms"`
	MaxResults  int      `json:"max_results"`
	// WithKey: an unsecured configuration that nevertheless carries a private key
	// and certificate (what the gopcua server uses for every new connection)
	WithKey bool `json:"with_key"`
	// AckReply (setup "handshake-client"): the Acknowledge the peer answers the
	// client's Hello with: rcvBuf sndBuf maxMsg maxChunks
	AckReply []uint32 `json:"ack_reply"`
}

type RecvJobResult struct {
	Outcome string   `json:"outcome"` // ok | timeout | panic: … | crash: … | setup: …
	Results []string `json:"results"`
	Entries int      `json:"entries"`
	Chunks  int      `json:"chunks"`
	Bytes   int      `json:"bytes"`
}

const recvWorkerEnv = "VERIF_RECV_WORKER"

// RecvWorkerMain turns the process into a worker when it was started as one.
// Every runner that uses StartRecvWorker calls it first thing in main.
func RecvWorkerMain() {
	if os.Getenv(recvWorkerEnv) == "" {
		return
	}
	debug.SetMaxStack(256 << 20)
	in := bufio.NewReaderSize(os.Stdin, 1<<20)
	out := bufio.NewWriter(os.Stdout)
	for {
		line, err := in.ReadBytes('\n')
		if len(line) == 0 && err != nil {
			os.Exit(0)
		}
		var job RecvJob
		res := RecvJobResult{}
		if e := json.Unmarshal(line, &job); e != nil {
			res.Outcome = "setup: bad job " + e.Error()
		} else {
			res = recvDoJob(&job)
		}
		b, _ := json.Marshal(res)
		out.Write(b)
		out.WriteByte('\n')
		out.Flush()
		if strings.HasPrefix(res.Outcome, "blocked") || res.Outcome == "timeout" {
			os.Exit(0) // a stuck goroutine is left behind: the parent starts a fresh worker
		}
	}
}

func recvDoJob(job *RecvJob) (res RecvJobResult) {
	var results []string
	defer func() {
		if e := recover(); e != nil {
			res.Outcome = "panic: " + fmt.Sprint(e)
			res.Results = results
		}
	}()
	var cfg *uasc.Config
	if job.URI == "" || job.URI == ua.SecurityPolicyURINone {
		cfg = RecvNoneConfig()
		if job.WithKey {
			ka, err := LoadKey(job.KeyDir, 2048, "a")
			if err != nil {
				return RecvJobResult{Outcome: "setup: " + err.Error()}
			}
			cfg.LocalKey, cfg.Certificate = ka.Key, ka.CertDER
		}
	} else {
		ka, err := LoadKey(job.KeyDir, 2048, "a")
		if err != nil {
			return RecvJobResult{Outcome: "setup: " + err.Error()}
		}
		kb, err := LoadKey(job.KeyDir, 2048, "b")
		if err != nil {
			return RecvJobResult{Outcome: "setup: " + err.Error()}
		}
		cfg = RecvSecureConfig(job.URI, ua.MessageSecurityMode(job.Mode), ka, kb.CertDER)
	}
	ack := RecvAck(job.Ack[0], job.Ack[1], job.Ack[2], job.Ack[3])
	var rc *RecvChannel
	var err error
	switch job.Setup {
	case "", "open":
		rc, err = OpenRecvChannel(cfg, ack, job.Server, job.ChannelID, job.TokenID, 1, job.LocalNonce, job.RemoteNonce)
	case "open-server": // a server channel as it is after a completed OpenSecureChannel: the opening instance stays
		rc, err = RecvOpenServerChannel(cfg, ack, job.ChannelID, job.TokenID, job.LocalNonce, job.RemoteNonce)
	case "handshake-client":
		rc, err = recvHandshakeClient(cfg, ack, job.AckReply)
	default:
		rc, err = RecvFreshChannel(cfg, ack, job.Setup == "fresh-server", job.ChannelID, job.TokenID)
	}
	if err != nil {
		return RecvJobResult{Outcome: "setup: " + err.Error()}
	}
	defer rc.Close()
	werr := make(chan error, 1)
	go func() { werr <- RecvWriteAll(rc.Peer, job.Frames) }()
	dl := time.Duration(job.DeadlineMs) * time.Millisecond
	if dl == 0 {
		dl = 20 * time.Second
	}
	max := job.MaxResults
	if max == 0 {
		max = len(job.Frames) + 2
	}
	// the receiver runs in its own goroutine: if it has not finished some time after
	// the I/O deadline it is not waiting for bytes — the stacks tell where it is stuck
	done := make(chan bool, 1)
	var pmsg interface{}
	go func() {
		defer func() {
			if e := recover(); e != nil {
				pmsg = e
				done <- false
			}
		}()
		done <- RecvDrainInto(rc, max, dl, &results)
	}()
	var ok bool
	select {
	case ok = <-done:
		if pmsg != nil {
			panic(pmsg) // reported by the deferred handler above
		}
	case <-time.After(dl + 10*time.Second):
		buf := make([]byte, 1<<20)
		buf = buf[:runtime.Stack(buf, true)]
		state, frames := "unknown", ""
		for _, g := range strings.Split(string(buf), "\n\n") {
			if strings.Contains(g, "RecvDrainInto") {
				lines := strings.Split(g, "\n")
				if i := strings.Index(lines[0], "["); i >= 0 {
					state = strings.TrimSuffix(strings.TrimSpace(lines[0][i:]), ":")
				}
				for _, l := range lines[1:] {
					if !strings.HasPrefix(l, "\t") && len(frames) < 300 {
						frames += strings.SplitN(l, "(", 2)[0] + " < "
					}
				}
				break
			}
		}
		res.Results = results
		if strings.Contains(state, "IO wait") || strings.Contains(state, "running") || strings.Contains(state, "runnable") || strings.Contains(state, "syscall") {
			res.Outcome = "timeout"
		} else {
			// parked on a lock, channel or condition although every byte was delivered and the socket half-closed
			res.Outcome = "blocked: " + state + " " + frames
		}
		return res
	}
	res.Results = results
	res.Outcome = "ok"
	if !ok {
		res.Outcome = "timeout"
	}
	res.Entries, res.Chunks, res.Bytes = rc.SC.VerifChunkTable()
	return res
}

func RecvOpenServerChannel(cfg *uasc.Config, ack *uacp.Acknowledge, channelID, tokenID uint32, ln, rn []byte) (*RecvChannel, error) {
	a, b, err := RecvTCPPair()
	if err != nil {
		return nil, err
	}
	conn, err := uacp.NewConn(a, ack)
	if err != nil {
		return nil, err
	}
	errch := make(chan error, 16)
	sc, err := uasc.VerifOpenServerChannel(conn, cfg, channelID, tokenID, 1, ln, rn, errch)
	if err != nil {
		a.Close()
		b.Close()
		return nil, err
	}
	return &RecvChannel{SC: sc, Conn: conn, Peer: b, ErrCh: errch}, nil
}

// recvHandshakeClient: a client connection performs the real HEL/ACK handshake
// against a peer that answers with the given Acknowledge values, then a
// client secure channel (nothing opened) is put on top.
func recvHandshakeClient(cfg *uasc.Config, ack *uacp.Acknowledge, reply []uint32) (*RecvChannel, error) {
	a, b, err := RecvTCPPair()
	if err != nil {
		return nil, err
	}
	conn, err := uacp.NewConn(a, ack)
	if err != nil {
		return nil, err
	}
	perr := make(chan error, 1)
	go func() {
		hdr := make([]byte, 8)
		if _, err := io.ReadFull(b, hdr); err != nil {
			perr <- err
			return
		}
		rest := make([]byte, binary.LittleEndian.Uint32(hdr[4:])-8)
		if _, err := io.ReadFull(b, rest); err != nil {
			perr <- err
			return
		}
		f := make([]byte, 28)
		copy(f, "ACKF")
		binary.LittleEndian.PutUint32(f[4:], 28)
		binary.LittleEndian.PutUint32(f[8:], 0)
		for i, v := range reply {
			binary.LittleEndian.PutUint32(f[12+4*i:], v)
		}
		_, err := b.Write(f)
		perr <- err
	}()
	ctx, cancel := context.WithTimeout(context.Background(), 10*time.Second)
	defer cancel()
	if err := conn.Handshake(ctx, "opc.tcp://127.0.0.1:4840"); err != nil {
		a.Close()
		b.Close()
		return nil, err
	}
	if err := <-perr; err != nil {
		return nil, err
	}
	errch := make(chan error, 16)
	sc, err := uasc.NewSecureChannel("opc.tcp://verif", conn, cfg, errch)
	if err != nil {
		return nil, err
	}
	return &RecvChannel{SC: sc, Conn: conn, Peer: b, ErrCh: errch}, nil
}

// RecvFreshChannel builds a channel on which nothing has been opened yet.
func RecvFreshChannel(cfg *uasc.Config, ack *uacp.Acknowledge, server bool, channelID, tokenID uint32) (*RecvChannel, error) {
	a, b, err := RecvTCPPair()
	if err != nil {
		return nil, err
	}
	conn, err := uacp.NewConn(a, ack)
	if err != nil {
		return nil, err
	}
	errch := make(chan error, 16)
	var sc *uasc.SecureChannel
	if server {
		sc, err = uasc.NewServerSecureChannel("opc.tcp://verif", conn, cfg, errch, channelID, 0, tokenID)
	} else {
		sc, err = uasc.NewSecureChannel("opc.tcp://verif", conn, cfg, errch)
	}
	if err != nil {
		a.Close()
		b.Close()
		return nil, err
	}
	return &RecvChannel{SC: sc, Conn: conn, Peer: b, ErrCh: errch}, nil
}

// RecvWorker is the parent's handle of the worker process.
type RecvWorker struct {
	memKB   int
	cmd     *exec.Cmd
	in      io.WriteCloser
	out     *bufio.Reader
	stderr  *recvTail
	Crashes int
}

type recvTail struct {
	mu sync.Mutex
	b  []byte
}

func (t *recvTail) Write(p []byte) (int, error) {
	t.mu.Lock()
	if len(t.b) < 2048 { // the first lines name the fatal error
		t.b = append(t.b, p...)
	}
	t.mu.Unlock()
	return len(p), nil
}

func (t *recvTail) head() string {
	t.mu.Lock()
	defer t.mu.Unlock()
	s := string(t.b)
	if i := strings.Index(s, "\n\n"); i > 0 {
		s = s[:i]
	}
	if len(s) > 200 {
		s = s[:200]
	}
	return strings.ReplaceAll(s, "\n", " | ")
}

// StartRecvWorker: memKB is the address-space limit of the child (ulimit -v).
func StartRecvWorker(memKB int) *RecvWorker { return &RecvWorker{memKB: memKB} }

func (w *RecvWorker) start() error {
	self, err := os.Executable()
	if err != nil {
		return err
	}
	cmd := exec.Command("/bin/sh", "-c", fmt.Sprintf("ulimit -v %d; exec \"$0\"", w.memKB), self)
	cmd.Env = append(os.Environ(), recvWorkerEnv+"=1", "GOGC=50")
	w.stderr = &recvTail{}
	cmd.Stderr = w.stderr
	if w.in, err = cmd.StdinPipe(); err != nil {
		return err
	}
	rd, err := cmd.StdoutPipe()
	if err != nil {
		return err
	}
	w.out = bufio.NewReaderSize(rd, 1<<20)
	if err := cmd.Start(); err != nil {
		return err
	}
	w.cmd = cmd
	return nil
}

// Do runs one job; a dead child is reported as "crash: <first lines of its
// stderr>" and replaced on the next call.
func (w *RecvWorker) Do(job *RecvJob) RecvJobResult {
	if w.cmd == nil {
		if err := w.start(); err != nil {
			return RecvJobResult{Outcome: "setup: worker does not start: " + err.Error()}
		}
	}
	b, _ := json.Marshal(job)
	w.in.Write(append(b, '\n'))
	type rl struct {
		line []byte
		err  error
	}
	ch := make(chan rl, 1)
	go func() {
		l, err := w.out.ReadBytes('\n')
		ch <- rl{l, err}
	}()
	limit := time.Duration(job.DeadlineMs)*time.Millisecond + 30*time.Second
	var r rl
	select {
	case r = <-ch:
	case <-time.After(limit):
		w.kill()
		return RecvJobResult{Outcome: "timeout"}
	}
	if r.err != nil || len(r.line) == 0 {
		w.cmd.Wait()
		msg := w.stderr.head()
		w.cmd = nil
		w.Crashes++
		return RecvJobResult{Outcome: "crash: " + msg}
	}
	var res RecvJobResult
	if err := json.Unmarshal(r.line, &res); err != nil {
		return RecvJobResult{Outcome: "setup: bad worker answer"}
	}
	if strings.HasPrefix(res.Outcome, "blocked") || res.Outcome == "timeout" {
		w.cmd.Wait() // the worker leaves after such an answer
		w.cmd = nil
	}
	return res
}

func (w *RecvWorker) kill() {
	if w.cmd != nil {
		w.cmd.Process.Kill()
		w.cmd.Wait()
		w.cmd = nil
	}
}

func (w *RecvWorker) Close() {
	if w.cmd != nil {
		w.in.Close()
		w.kill()
	}
}

// SealPlain builds a secured MSG chunk directly from the primitives of the
// policy (Part 6, 6.7.2): header, token id, then `plain` — sequence header,
// body and, under SignAndEncrypt, padding and PaddingSize byte, all chosen by
// the caller, so hostile padding values can be produced under a valid
// signature — signature over everything, AES-CBC over everything after the
// security header.  Under SignAndEncrypt len(plain)+signature length must be a
// multiple of 16.  It returns the frame and the signature length.
func (s *RecvSealer) SealPlain(ct byte, channelID, tokenID uint32, mode ua.MessageSecurityMode, plain []byte) ([]byte, error) {
	algo := s.inst.Algo()
	b := make([]byte, 16, 16+len(plain)+64)
	copy(b, "MSG")
	b[3] = ct
	binary.LittleEndian.PutUint32(b[8:], channelID)
	binary.LittleEndian.PutUint32(b[12:], tokenID)
	b = append(b, plain...)
	binary.LittleEndian.PutUint32(b[4:], uint32(len(b)+algo.SignatureLength()))
	sig, err := algo.Signature(b)
	if err != nil {
		return nil, err
	}
	b = append(b, sig...)
	if mode == ua.MessageSecurityModeSignAndEncrypt {
		enc, err := algo.Encrypt(b[16:])
		if err != nil {
			return nil, err
		}
		b = append(b[:16:16], enc...)
	}
	return b, nil
}

// SignatureLength of the sealer's symmetric algorithm.
func (s *RecvSealer) SignatureLength() int { return s.inst.Algo().SignatureLength() }
