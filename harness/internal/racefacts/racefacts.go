// Package racefacts extracts, from the source of the tree under test, a
// table of every syntactic access of the fields of the shared structures of
// the client (package opcua), the secure channel (package uasc) and the server
// (package server), together with the mutexes held at the access (locally and
// on entry of the enclosing function, propagated over the call graph) and the
// goroutine roots that can reach it.  It is the fact base of property C36
// (generator topic `racefacts`, runner harness/cmd/c36).
//
// The analysis is go/ast + go/types with a stub importer: only the types
// declared in the analysed package are resolved, which is all that is needed
// to tell which struct a selected field belongs to and which local function or
// method a call goes to.  Everything the analysis cannot resolve errs on the
// side of FEWER held locks (so that "protected" is never claimed wrongly):
//
//   - a lock taken in one branch only is not held after the branch; a lock
//     released in a branch that falls through is not held afterwards; loops are
//     iterated to a fixpoint; `break`/`continue` carry their lock set to the exit;
//   - function literals, deferred calls, callbacks and `go` targets start with
//     no lock; a function's entry lock set is the intersection over all its call
//     sites (exported functions and methods are API roots: entry set empty);
//   - calls through interfaces go to every local method of that name, calls
//     through function values to every function whose value is taken somewhere.
//
// What it does NOT see (stated in notes/C36.md): aliasing of a map/slice/pointer
// value read under a lock and used after the unlock, accesses through
// reflection, object identity (locks and fields are named by struct type, the
// receiver expressions are assumed to denote the same object), code in other
// packages.
package racefacts

import (
	"fmt"
	"go/ast"
	"go/parser"
	"go/token"
	"go/types"
	"path/filepath"
	"sort"
	"strings"
)

// Site is one syntactic access.
type Site struct {
	ID    int
	Pkg   string // opcua | uasc | server
	File  string // path relative to the repository root
	Line  int
	Fn    string   // enclosing function ("Type.method", "func", "…$lit<line>")
	Field string   // "<pkg>.<Struct>.<field>"
	Kind  string   // read | write | atomic | sync:<Method>
	Fresh bool     // the object was created in this function (constructor; not yet shared)
	HeldW []string // mutexes held in write mode ("<pkg>.<Struct>.<field>")
	HeldR []string // RWMutexes held in read mode
	Roots []string // goroutine roots that reach the site ("api:<pkg>", "go:<file>:<line>")
}

// FieldInfo describes one field of a chosen structure.
type FieldInfo struct {
	Name  string // "<pkg>.<Struct>.<field>"
	Type  string // declared type as written
	Class string // plain | atomic | sync | lock
}

// Table is the result of the analysis.
type Table struct {
	Fields []FieldInfo
	Sites  []Site
	Notes  []string
}

// Chosen structures per package directory ("" = repository root).
var Chosen = []struct {
	Dir, Pkg string
	Structs  []string
}{
	{"", "opcua", []string{"Client", "Subscription", "Session"}},
	{"uasc", "uasc", []string{"SecureChannel", "channelInstance", "conditionLocker", "Config"}},
	{"server", "server", []string{"Server", "SubscriptionService", "Subscription", "MonitoredItemService", "Node", "NodeNameSpace", "channelBroker", "sessionBroker", "session"}},
}

type stubImporter struct{ pkgs map[string]*types.Package }

func (s *stubImporter) Import(path string) (*types.Package, error) {
	if p, ok := s.pkgs[path]; ok {
		return p, nil
	}
	name := path
	if i := strings.LastIndex(path, "/"); i >= 0 {
		name = path[i+1:]
	}
	p := types.NewPackage(path, name)
	p.MarkComplete()
	s.pkgs[path] = p
	return p, nil
}

type lockset struct{ w, r []string }

func has(xs []string, n string) bool {
	for _, x := range xs {
		if x == n {
			return true
		}
	}
	return false
}
func with(xs []string, n string) []string {
	if has(xs, n) {
		return xs
	}
	out := append(append([]string(nil), xs...), n)
	sort.Strings(out)
	return out
}
func without(xs []string, n string) []string {
	var out []string
	for _, x := range xs {
		if x != n {
			out = append(out, x)
		}
	}
	return out
}
func inter(a, b []string) []string {
	var out []string
	for _, x := range a {
		if has(b, x) {
			out = append(out, x)
		}
	}
	return out
}
func union(a, b []string) []string {
	out := append([]string(nil), a...)
	for _, y := range b {
		out = with(out, y)
	}
	sort.Strings(out)
	return out
}
func (a lockset) inter(b lockset) lockset { return lockset{inter(a.w, b.w), inter(a.r, b.r)} }
func (a lockset) union(b lockset) lockset { return lockset{union(a.w, b.w), union(a.r, b.r)} }
func (a lockset) key() string             { return strings.Join(a.w, ",") + "|" + strings.Join(a.r, ",") }

type edge struct {
	caller, callee string
	held           lockset
	kind           string // call | go | callback | defer
	line           int
	recvFresh      bool // method call on an object created in the calling function
	recvSame       bool // method call on the caller's own receiver
}

type rawSite struct {
	Site
	held   lockset
	onRecv bool // the access goes through the receiver of the enclosing method
}

type pkgWalker struct {
	pkg      string
	fset     *token.FileSet
	info     *types.Info
	repo     string
	fieldOf  map[*types.Var]*FieldInfo
	funcs    map[string]bool // declared function keys
	exported map[string]bool // API roots
	arity    map[string]int
	taken    map[string]bool // functions whose value is taken (callbacks)
	methods  map[string][]string
	edges    []edge
	indirect []edge // callee = "" : call through a function value, arity in line field? (kept in arityOf)
	indArity []int
	sites    map[string]*rawSite
	order    []string

	fn      string
	recvObj types.Object // receiver of the declared method being walked
	fresh   map[types.Object]bool
	acc     []*lockset // accumulators of the enclosing loops / switches for break and continue
	accLoop []bool     // whether the accumulator belongs to a loop
	goRoots map[string]bool
}

func (w *pkgWalker) rel(pos token.Pos) (string, int) {
	p := w.fset.Position(pos)
	f, err := filepath.Rel(w.repo, p.Filename)
	if err != nil {
		f = p.Filename
	}
	return f, p.Line
}

func namedOf(t types.Type) *types.Named {
	for {
		switch x := t.(type) {
		case *types.Pointer:
			t = x.Elem()
		case *types.Named:
			return x
		default:
			return nil
		}
	}
}

func funcKey(f *types.Func) string {
	sig, _ := f.Type().(*types.Signature)
	if sig != nil && sig.Recv() != nil {
		if n := namedOf(sig.Recv().Type()); n != nil {
			return n.Obj().Name() + "." + f.Name()
		}
	}
	return f.Name()
}

// lockName names the mutex denoted by the receiver expression of Lock/Unlock.
func (w *pkgWalker) lockName(x ast.Expr) string {
	switch e := x.(type) {
	case *ast.SelectorExpr:
		if sel, ok := w.info.Selections[e]; ok && sel.Kind() == types.FieldVal {
			if n := namedOf(sel.Recv()); n != nil {
				return w.pkg + "." + n.Obj().Name() + "." + e.Sel.Name
			}
		}
		return "?." + e.Sel.Name
	case *ast.ParenExpr:
		return w.lockName(e.X)
	}
	if tv, ok := w.info.Types[x]; ok {
		if n := namedOf(tv.Type); n != nil {
			return w.pkg + "." + n.Obj().Name() + ".Mutex" // embedded sync.Mutex
		}
	}
	if id, ok := x.(*ast.Ident); ok {
		return "var." + id.Name
	}
	return "?"
}

func (w *pkgWalker) lockOp(e ast.Expr) (name string, acquire, write, ok bool) {
	c, isCall := e.(*ast.CallExpr)
	if !isCall || len(c.Args) != 0 {
		return
	}
	sel, isSel := c.Fun.(*ast.SelectorExpr)
	if !isSel {
		return
	}
	if s, found := w.info.Selections[sel]; found {
		if _, isFunc := s.Obj().(*types.Func); isFunc {
			return // a method of a local type that happens to be called Lock
		}
	}
	switch sel.Sel.Name {
	case "Lock":
		return w.lockName(sel.X), true, true, true
	case "Unlock":
		return w.lockName(sel.X), false, true, true
	case "RLock":
		return w.lockName(sel.X), true, false, true
	case "RUnlock":
		return w.lockName(sel.X), false, false, true
	}
	return
}

func apply(h lockset, name string, acquire, write bool) lockset {
	switch {
	case acquire && write:
		return lockset{with(h.w, name), h.r}
	case acquire:
		return lockset{h.w, with(h.r, name)}
	case write:
		return lockset{without(h.w, name), h.r}
	default:
		return lockset{h.w, without(h.r, name)}
	}
}

func rootIdent(e ast.Expr) *ast.Ident {
	for {
		switch x := e.(type) {
		case *ast.SelectorExpr:
			e = x.X
		case *ast.ParenExpr:
			e = x.X
		case *ast.StarExpr:
			e = x.X
		case *ast.IndexExpr:
			e = x.X
		case *ast.Ident:
			return x
		default:
			return nil
		}
	}
}

func baseOfLHS(e ast.Expr) ast.Expr {
	for {
		switch x := e.(type) {
		case *ast.IndexExpr:
			e = x.X
		case *ast.ParenExpr:
			e = x.X
		case *ast.StarExpr:
			e = x.X
		case *ast.SliceExpr:
			e = x.X
		default:
			return e
		}
	}
}

func (w *pkgWalker) record(sel *ast.SelectorExpr, kind string, held lockset) {
	s, ok := w.info.Selections[sel]
	if !ok || s.Kind() != types.FieldVal {
		return
	}
	v, _ := s.Obj().(*types.Var)
	fi := w.fieldOf[v]
	if fi == nil || fi.Class == "lock" {
		return
	}
	file, line := w.rel(sel.Sel.Pos())
	fresh, onRecv := false, false
	if id := rootIdent(sel.X); id != nil {
		if obj := w.info.Uses[id]; obj != nil {
			if w.fresh[obj] {
				fresh = true
			}
			if w.recvObj != nil && obj == w.recvObj {
				onRecv = true
			}
		}
	}
	key := fmt.Sprintf("%s:%d:%d:%s:%s", file, line, w.fset.Position(sel.Sel.Pos()).Column, fi.Name, kind)
	if old, ok := w.sites[key]; ok {
		old.held = old.held.inter(held) // re-walk of a loop body
		return
	}
	w.sites[key] = &rawSite{Site: Site{Pkg: w.pkg, File: file, Line: line, Fn: w.fn, Field: fi.Name, Kind: kind, Fresh: fresh}, held: held, onRecv: onRecv}
	w.order = append(w.order, key)
}

func (w *pkgWalker) addEdge(callee string, held lockset, kind string, pos token.Pos) {
	_, line := w.rel(pos)
	w.edges = append(w.edges, edge{caller: w.fn, callee: callee, held: held, kind: kind, line: line})
}

// walkLit walks a function literal as a function of its own and returns its key.
func (w *pkgWalker) walkLit(lit *ast.FuncLit) string {
	_, line := w.rel(lit.Pos())
	base := w.fn
	if i := strings.Index(base, "$"); i >= 0 {
		base = base[:i]
	}
	key := fmt.Sprintf("%s$lit%d", base, line)
	savedFn, savedAcc, savedLoop := w.fn, w.acc, w.accLoop
	w.fn, w.acc, w.accLoop = key, nil, nil
	w.funcs[key] = true
	n := 0
	if lit.Type.Params != nil {
		for _, f := range lit.Type.Params.List {
			if len(f.Names) == 0 {
				n++
			}
			n += len(f.Names)
		}
	}
	w.arity[key] = n
	w.block(lit.Body.List, lockset{})
	w.fn, w.acc, w.accLoop = savedFn, savedAcc, savedLoop
	return key
}

// scan records the accesses and calls of an expression evaluated with `held`.
// written: selector expressions that are assigned to; atomicArg: selector
// expressions whose address is passed to a sync/atomic function.
func (w *pkgWalker) scan(n ast.Node, held lockset, written map[ast.Expr]bool) {
	if n == nil {
		return
	}
	atomicArg := map[ast.Expr]bool{}
	methodRecv := map[ast.Expr]string{} // x.f in x.f.M(...)  ->  M
	calledFun := map[ast.Expr]bool{}
	addrOf := map[ast.Expr]bool{}
	ast.Inspect(n, func(n ast.Node) bool {
		switch x := n.(type) {
		case *ast.FuncLit:
			key := w.walkLit(x)
			w.taken[key] = true
			w.addEdge(key, lockset{}, "callback", x.Pos())
			return false
		case *ast.UnaryExpr:
			if x.Op == token.AND {
				addrOf[baseOfLHS(x.X)] = true
			}
		case *ast.CallExpr:
			calledFun[x.Fun] = true
			switch f := x.Fun.(type) {
			case *ast.FuncLit:
				key := w.walkLit(f)
				w.addEdge(key, held, "call", x.Pos())
				for _, a := range x.Args {
					w.scan(a, held, nil)
				}
				return false
			case *ast.Ident:
				switch obj := w.info.Uses[f].(type) {
				case *types.Func:
					w.addEdge(funcKey(obj), held, "call", x.Pos())
				case *types.Builtin:
					if (f.Name == "delete" || f.Name == "clear") && len(x.Args) > 0 {
						if written == nil {
							written = map[ast.Expr]bool{}
						}
						written[baseOfLHS(x.Args[0])] = true
					}
				case *types.Var:
					w.indirect = append(w.indirect, edge{caller: w.fn, held: held, kind: "call"})
					w.indArity = append(w.indArity, len(x.Args))
				}
			case *ast.SelectorExpr:
				if f.Sel.Name == "verifPoint" {
					return false
				}
				if s, ok := w.info.Selections[f]; ok {
					switch s.Kind() {
					case types.MethodVal:
						fn := s.Obj().(*types.Func)
						if _, isIface := s.Recv().Underlying().(*types.Interface); isIface {
							for _, k := range w.methods[fn.Name()] {
								w.addEdge(k, held, "call", x.Pos())
							}
						} else {
							w.addEdge(funcKey(fn), held, "call", x.Pos())
							if id, ok := f.X.(*ast.Ident); ok {
								if obj := w.info.Uses[id]; obj != nil {
									e := &w.edges[len(w.edges)-1]
									e.recvFresh = w.fresh[obj]
									e.recvSame = w.recvObj != nil && obj == w.recvObj
								}
							}
						}
					case types.FieldVal:
						w.indirect = append(w.indirect, edge{caller: w.fn, held: held, kind: "call"})
						w.indArity = append(w.indArity, len(x.Args))
					}
				} else if id, ok := f.X.(*ast.Ident); ok && w.isPkgName(id) {
					if id.Name == "atomic" {
						for _, a := range x.Args {
							if u, ok := a.(*ast.UnaryExpr); ok && u.Op == token.AND {
								atomicArg[baseOfLHS(u.X)] = true
							}
						}
					}
					if id.Name == "time" && f.Sel.Name == "AfterFunc" && len(x.Args) == 2 {
						// the callback runs on a goroutine of its own
						if lit, ok := x.Args[1].(*ast.FuncLit); ok {
							key := w.walkLit(lit)
							w.addEdge(key, lockset{}, "go", lit.Pos())
							w.goRoots[key] = true
							w.scan(x.Args[0], held, nil)
							return false
						}
						if s, ok := x.Args[1].(*ast.SelectorExpr); ok {
							if ms, ok := w.info.Selections[s]; ok && ms.Kind() == types.MethodVal {
								k := funcKey(ms.Obj().(*types.Func))
								w.addEdge(k, lockset{}, "go", s.Pos())
								w.goRoots[k] = true
								calledFun[s] = true
							}
						}
					}
				} else if inner, ok := f.X.(*ast.SelectorExpr); ok {
					// method of a field whose type is not resolved (sync.*, atomic.Value, …)
					methodRecv[inner] = f.Sel.Name
				}
			}
		case *ast.SelectorExpr:
			if s, ok := w.info.Selections[x]; ok {
				switch s.Kind() {
				case types.FieldVal:
					v, _ := s.Obj().(*types.Var)
					if fi := w.fieldOf[v]; fi != nil {
						kind := "read"
						switch {
						case fi.Class == "atomic" || fi.Class == "sync":
							if m, ok := methodRecv[x]; ok {
								if fi.Class == "atomic" {
									kind = "atomic"
								} else if strings.Contains(fi.Type, "WaitGroup") && (m == "Add" || m == "Wait") {
									// an Add that starts from zero must happen before Wait: the two conflict
									kind = "write"
								} else {
									kind = "sync:" + m
								}
							} else if written[x] {
								kind = "write"
							} else if addrOf[x] {
								kind = "sync:addr" // &c.lockMu handed to sync.NewCond and the like
							}
						case atomicArg[x]:
							kind = "atomic"
						case written[x] || addrOf[x]:
							kind = "write"
						}
						w.record(x, kind, held)
					}
				case types.MethodVal:
					if !calledFun[x] {
						fn := s.Obj().(*types.Func)
						if _, isIface := s.Recv().Underlying().(*types.Interface); !isIface {
							k := funcKey(fn)
							w.taken[k] = true
							w.addEdge(k, lockset{}, "callback", x.Pos())
						}
					}
				}
			}
		case *ast.Ident:
			if !calledFun[x] {
				if fn, ok := w.info.Uses[x].(*types.Func); ok && fn.Pkg() != nil && fn.Pkg().Name() == w.pkg {
					if sig, _ := fn.Type().(*types.Signature); sig != nil && sig.Recv() == nil {
						k := funcKey(fn)
						w.taken[k] = true
						w.addEdge(k, lockset{}, "callback", x.Pos())
					}
				}
			}
		}
		return true
	})
}

func (w *pkgWalker) isPkgName(id *ast.Ident) bool {
	_, ok := w.info.Uses[id].(*types.PkgName)
	return ok
}

func (w *pkgWalker) block(list []ast.Stmt, held lockset) (lockset, bool) {
	for _, s := range list {
		var term bool
		held, term = w.stmt(s, held)
		if term {
			return held, true
		}
	}
	return held, false
}

func (w *pkgWalker) goTarget(call *ast.CallExpr, held lockset) {
	for _, a := range call.Args {
		w.scan(a, held, nil)
	}
	switch f := call.Fun.(type) {
	case *ast.FuncLit:
		key := w.walkLit(f)
		w.addEdge(key, lockset{}, "go", call.Pos())
		w.goRoots[key] = true
	case *ast.Ident:
		if fn, ok := w.info.Uses[f].(*types.Func); ok {
			k := funcKey(fn)
			w.addEdge(k, lockset{}, "go", call.Pos())
			w.goRoots[k] = true
		}
	case *ast.SelectorExpr:
		w.scan(f.X, held, nil)
		if s, ok := w.info.Selections[f]; ok && s.Kind() == types.MethodVal {
			fn := s.Obj().(*types.Func)
			if _, isIface := s.Recv().Underlying().(*types.Interface); isIface {
				for _, k := range w.methods[fn.Name()] {
					w.addEdge(k, lockset{}, "go", call.Pos())
					w.goRoots[k] = true
				}
			} else {
				k := funcKey(fn)
				w.addEdge(k, lockset{}, "go", call.Pos())
				w.goRoots[k] = true
			}
		}
	}
}

func isFreshExpr(e ast.Expr) bool {
	switch x := e.(type) {
	case *ast.CompositeLit:
		return true
	case *ast.UnaryExpr:
		if x.Op == token.AND {
			_, ok := x.X.(*ast.CompositeLit)
			return ok
		}
	case *ast.CallExpr:
		name := ""
		switch f := x.Fun.(type) {
		case *ast.Ident:
			name = f.Name
		case *ast.SelectorExpr:
			name = f.Sel.Name
		}
		if name == "new" {
			return true
		}
		l := strings.ToLower(name)
		return strings.HasPrefix(l, "new")
	}
	return false
}

func (w *pkgWalker) pushAcc(loop bool) *lockset {
	a := &lockset{w: []string{"\x00top"}}
	w.acc = append(w.acc, a)
	w.accLoop = append(w.accLoop, loop)
	return a
}
func (w *pkgWalker) popAcc() {
	w.acc = w.acc[:len(w.acc)-1]
	w.accLoop = w.accLoop[:len(w.accLoop)-1]
}
func accInter(a *lockset, h lockset) {
	if len(a.w) == 1 && a.w[0] == "\x00top" {
		*a = h
		return
	}
	*a = a.inter(h)
}
func accIsTop(a *lockset) bool { return len(a.w) == 1 && a.w[0] == "\x00top" }

func (w *pkgWalker) stmt(s ast.Stmt, held lockset) (lockset, bool) {
	switch x := s.(type) {
	case *ast.ExprStmt:
		if n, acq, wr, ok := w.lockOp(x.X); ok {
			return apply(held, n, acq, wr), false
		}
		w.scan(x.X, held, nil)
		if c, ok := x.X.(*ast.CallExpr); ok {
			if id, ok := c.Fun.(*ast.Ident); ok && id.Name == "panic" {
				return held, true
			}
		}
	case *ast.DeferStmt:
		if _, _, _, ok := w.lockOp(x.Call); ok {
			return held, false // deferred unlock: held to the end of the function
		}
		for _, a := range x.Call.Args {
			w.scan(a, held, nil)
		}
		switch f := x.Call.Fun.(type) {
		case *ast.FuncLit:
			key := w.walkLit(f)
			w.addEdge(key, lockset{}, "defer", x.Pos())
		default:
			// the call itself runs at function exit with an unknown lock set: scan it with none
			saved := w.edges
			w.scan(x.Call, lockset{}, nil)
			for i := len(saved); i < len(w.edges); i++ {
				if w.edges[i].kind == "call" {
					w.edges[i].kind = "defer"
					w.edges[i].held = lockset{}
				}
			}
		}
	case *ast.GoStmt:
		w.goTarget(x.Call, held)
	case *ast.AssignStmt:
		written := map[ast.Expr]bool{}
		for _, l := range x.Lhs {
			written[baseOfLHS(l)] = true
		}
		if x.Tok == token.DEFINE || x.Tok == token.ASSIGN {
			if len(x.Lhs) >= 1 && len(x.Rhs) >= 1 && isFreshExpr(x.Rhs[0]) {
				if id, ok := x.Lhs[0].(*ast.Ident); ok {
					if obj := w.info.Defs[id]; obj != nil {
						w.fresh[obj] = true
					}
				}
			}
		}
		for _, r := range x.Rhs {
			w.scan(r, held, nil)
		}
		for _, l := range x.Lhs {
			w.scan(l, held, written)
		}
	case *ast.IncDecStmt:
		w.scan(x.X, held, map[ast.Expr]bool{baseOfLHS(x.X): true})
	case *ast.ReturnStmt:
		for _, r := range x.Results {
			w.scan(r, held, nil)
		}
		return held, true
	case *ast.BranchStmt:
		if x.Tok == token.BREAK || x.Tok == token.CONTINUE || x.Tok == token.GOTO {
			// an unlabelled break leaves the innermost construct, an unlabelled continue goes to the
			// innermost loop; with a label (or goto) every enclosing construct may be the target
			for i := len(w.acc) - 1; i >= 0; i-- {
				if x.Label != nil || x.Tok == token.GOTO {
					accInter(w.acc[i], held)
					continue
				}
				if x.Tok == token.CONTINUE && !w.accLoop[i] {
					continue
				}
				accInter(w.acc[i], held)
				break
			}
			return held, true
		}
	case *ast.BlockStmt:
		return w.block(x.List, held)
	case *ast.IfStmt:
		if x.Init != nil {
			held, _ = w.stmt(x.Init, held)
		}
		w.scan(x.Cond, held, nil)
		h1, t1 := w.block(x.Body.List, held)
		h2, t2 := held, false
		if x.Else != nil {
			h2, t2 = w.stmt(x.Else, held)
		}
		switch {
		case t1 && t2:
			return held, true
		case t1:
			return h2, false
		case t2:
			return h1, false
		}
		return h1.inter(h2), false
	case *ast.ForStmt:
		if x.Init != nil {
			held, _ = w.stmt(x.Init, held)
		}
		head := held
		var out lockset
		for iter := 0; iter < 4; iter++ {
			a := w.pushAcc(true)
			w.scan(x.Cond, head, nil)
			hb, tb := w.block(x.Body.List, head)
			if x.Post != nil && !tb {
				hb, _ = w.stmt(x.Post, hb)
			}
			w.popAcc()
			next := head
			if !tb {
				next = next.inter(hb)
			}
			if !accIsTop(a) {
				next = next.inter(*a)
			}
			out = next
			if next.key() == head.key() {
				break
			}
			head = next
		}
		return out, false
	case *ast.RangeStmt:
		w.scan(x.X, held, nil)
		head := held
		var out lockset
		for iter := 0; iter < 4; iter++ {
			a := w.pushAcc(true)
			hb, tb := w.block(x.Body.List, head)
			w.popAcc()
			next := head
			if !tb {
				next = next.inter(hb)
			}
			if !accIsTop(a) {
				next = next.inter(*a)
			}
			out = next
			if next.key() == head.key() {
				break
			}
			head = next
		}
		return out, false
	case *ast.SwitchStmt:
		if x.Init != nil {
			held, _ = w.stmt(x.Init, held)
		}
		w.scan(x.Tag, held, nil)
		return w.clauses(x.Body.List, held, false)
	case *ast.TypeSwitchStmt:
		if x.Init != nil {
			held, _ = w.stmt(x.Init, held)
		}
		held, _ = w.stmt(x.Assign, held)
		return w.clauses(x.Body.List, held, false)
	case *ast.SelectStmt:
		return w.clauses(x.Body.List, held, true)
	case *ast.SendStmt:
		w.scan(x.Chan, held, nil)
		w.scan(x.Value, held, nil)
	case *ast.DeclStmt:
		if gd, ok := x.Decl.(*ast.GenDecl); ok {
			for _, sp := range gd.Specs {
				if vs, ok := sp.(*ast.ValueSpec); ok {
					for i, v := range vs.Values {
						if i < len(vs.Names) && isFreshExpr(v) {
							if obj := w.info.Defs[vs.Names[i]]; obj != nil {
								w.fresh[obj] = true
							}
						}
						w.scan(v, held, nil)
					}
				}
			}
		}
	case *ast.LabeledStmt:
		return w.stmt(x.Stmt, held)
	}
	return held, false
}

func (w *pkgWalker) clauses(list []ast.Stmt, held lockset, isSelect bool) (lockset, bool) {
	a := w.pushAcc(false)
	var outs []lockset
	hasDefault := false
	for _, c := range list {
		var body []ast.Stmt
		h := held
		switch cc := c.(type) {
		case *ast.CaseClause:
			if cc.List == nil {
				hasDefault = true
			}
			for _, e := range cc.List {
				w.scan(e, held, nil)
			}
			body = cc.Body
		case *ast.CommClause:
			if cc.Comm == nil {
				hasDefault = true
			} else {
				h, _ = w.stmt(cc.Comm, held)
			}
			body = cc.Body
		}
		if hb, tb := w.block(body, h); !tb {
			outs = append(outs, hb)
		}
	}
	w.popAcc()
	if !accIsTop(a) {
		outs = append(outs, *a)
	}
	if !hasDefault && !isSelect {
		outs = append(outs, held)
	}
	if len(outs) == 0 {
		return held, true
	}
	out := outs[0]
	for _, o := range outs[1:] {
		out = out.inter(o)
	}
	return out, false
}

func classOf(typ string) string {
	switch {
	case typ == "sync.Mutex" || typ == "sync.RWMutex":
		return "lock"
	case strings.HasPrefix(typ, "atomic."):
		return "atomic"
	case strings.HasPrefix(typ, "sync.") || strings.HasPrefix(typ, "*sync."):
		return "sync"
	}
	return "plain"
}

// Analyze builds the table for the tree at repo.
func Analyze(repo string) (*Table, error) {
	t := &Table{}
	for _, ch := range Chosen {
		if err := analyzePkg(repo, ch.Dir, ch.Pkg, ch.Structs, t); err != nil {
			return nil, err
		}
	}
	sort.SliceStable(t.Sites, func(i, j int) bool {
		a, b := t.Sites[i], t.Sites[j]
		if a.Field != b.Field {
			return a.Field < b.Field
		}
		if a.File != b.File {
			return a.File < b.File
		}
		return a.Line < b.Line
	})
	for i := range t.Sites {
		t.Sites[i].ID = i
	}
	return t, nil
}

func analyzePkg(repo, dir, pkg string, structs []string, t *Table) error {
	fset := token.NewFileSet()
	names, err := filepath.Glob(filepath.Join(repo, dir, "*.go"))
	if err != nil {
		return err
	}
	var files []*ast.File
	for _, fn := range names {
		base := filepath.Base(fn)
		if strings.HasSuffix(base, "_test.go") || strings.HasPrefix(base, "verif_") {
			continue
		}
		f, err := parser.ParseFile(fset, fn, nil, 0)
		if err != nil {
			return err
		}
		if f.Name.Name != pkg {
			continue
		}
		files = append(files, f)
	}
	if len(files) == 0 {
		return fmt.Errorf("racefacts: no source files of package %s in %s", pkg, filepath.Join(repo, dir))
	}
	info := &types.Info{Types: map[ast.Expr]types.TypeAndValue{}, Defs: map[*ast.Ident]types.Object{},
		Uses: map[*ast.Ident]types.Object{}, Selections: map[*ast.SelectorExpr]*types.Selection{}}
	conf := types.Config{Importer: &stubImporter{pkgs: map[string]*types.Package{}}, Error: func(error) {}, DisableUnusedImportCheck: true}
	tpkg, _ := conf.Check(pkg, fset, files, info)
	if tpkg == nil {
		return fmt.Errorf("racefacts: package %s cannot be type-checked at all", pkg)
	}
	w := &pkgWalker{pkg: pkg, fset: fset, info: info, repo: repo, fieldOf: map[*types.Var]*FieldInfo{}, funcs: map[string]bool{},
		exported: map[string]bool{}, arity: map[string]int{}, taken: map[string]bool{}, methods: map[string][]string{},
		sites: map[string]*rawSite{}, goRoots: map[string]bool{}}
	// chosen structures: field objects and their class, from the declarations
	found := map[string]bool{}
	for _, f := range files {
		for _, d := range f.Decls {
			gd, ok := d.(*ast.GenDecl)
			if !ok || gd.Tok != token.TYPE {
				continue
			}
			for _, sp := range gd.Specs {
				ts := sp.(*ast.TypeSpec)
				st, ok := ts.Type.(*ast.StructType)
				if !ok {
					continue
				}
				want := false
				for _, s := range structs {
					if s == ts.Name.Name {
						want = true
					}
				}
				if !want {
					continue
				}
				found[ts.Name.Name] = true
				for _, fl := range st.Fields.List {
					typ := types.ExprString(fl.Type)
					if len(fl.Names) == 0 && classOf(typ) == "lock" {
						// embedded sync.Mutex: `x.Lock()` on a value of this struct
						t.Fields = append(t.Fields, FieldInfo{Name: pkg + "." + ts.Name.Name + ".Mutex", Type: typ, Class: "lock"})
					}
					for _, nm := range fl.Names {
						v, _ := info.Defs[nm].(*types.Var)
						if v == nil {
							continue
						}
						fi := FieldInfo{Name: pkg + "." + ts.Name.Name + "." + nm.Name, Type: typ, Class: classOf(typ)}
						t.Fields = append(t.Fields, fi)
						w.fieldOf[v] = &t.Fields[len(t.Fields)-1]
					}
				}
			}
		}
	}
	for _, s := range structs {
		if !found[s] {
			return fmt.Errorf("racefacts: struct %s.%s not found", pkg, s)
		}
	}
	// t.Fields may have been re-allocated while appending: rebuild the pointers
	byName := map[string]*FieldInfo{}
	for i := range t.Fields {
		byName[t.Fields[i].Name] = &t.Fields[i]
	}
	for v, fi := range w.fieldOf {
		w.fieldOf[v] = byName[fi.Name]
	}
	// declared functions
	type decl struct {
		key string
		fd  *ast.FuncDecl
	}
	var decls []decl
	for _, f := range files {
		for _, d := range f.Decls {
			fd, ok := d.(*ast.FuncDecl)
			if !ok || fd.Body == nil {
				continue
			}
			fn, _ := info.Defs[fd.Name].(*types.Func)
			if fn == nil {
				continue
			}
			k := funcKey(fn)
			w.funcs[k] = true
			sig := fn.Type().(*types.Signature)
			w.arity[k] = sig.Params().Len()
			if sig.Recv() != nil {
				w.methods[fn.Name()] = append(w.methods[fn.Name()], k)
			}
			if fd.Name.IsExported() {
				w.exported[k] = true
			}
			if fd.Name.Name == "init" || fd.Name.Name == "main" {
				w.exported[k] = true
			}
			decls = append(decls, decl{k, fd})
		}
	}
	for _, d := range decls {
		w.fn, w.acc, w.accLoop, w.fresh = d.key, nil, nil, map[types.Object]bool{}
		w.recvObj = nil
		if d.fd.Recv != nil && len(d.fd.Recv.List) == 1 && len(d.fd.Recv.List[0].Names) == 1 {
			w.recvObj = info.Defs[d.fd.Recv.List[0].Names[0]]
		}
		w.block(d.fd.Body.List, lockset{})
	}
	// calls through function values go to every function whose value is taken (same arity)
	for i, e := range w.indirect {
		for k := range w.taken {
			if w.arity[k] == w.indArity[i] {
				w.edges = append(w.edges, edge{caller: e.caller, callee: k, held: e.held, kind: "call"})
			}
		}
	}
	// entry lock sets
	in := map[string][]edge{}
	for _, e := range w.edges {
		if w.funcs[e.callee] {
			in[e.callee] = append(in[e.callee], e)
		}
	}
	top := lockset{w: []string{"\x00top"}}
	eff := map[string]lockset{}
	for f := range w.funcs {
		if len(in[f]) == 0 || w.exported[f] {
			eff[f] = lockset{}
		} else {
			eff[f] = top
		}
	}
	isTop := func(l lockset) bool { return len(l.w) == 1 && l.w[0] == "\x00top" }
	for iter := 0; iter < 100; iter++ {
		changed := false
		for f, es := range in {
			if w.exported[f] {
				continue
			}
			cur := top
			for _, e := range es {
				var at lockset
				if e.kind == "call" {
					ce := eff[e.caller]
					if isTop(ce) {
						continue // not yet known
					}
					at = e.held.union(ce)
				}
				if isTop(cur) {
					cur = at
				} else {
					cur = cur.inter(at)
				}
			}
			if cur.key() != eff[f].key() {
				eff[f] = cur
				changed = true
			}
		}
		if !changed {
			break
		}
	}
	for f, l := range eff {
		if isTop(l) { // only reachable from itself
			eff[f] = lockset{}
		}
	}
	// goroutine roots
	roots := map[string]map[string]bool{}
	add := func(f, r string) bool {
		if roots[f] == nil {
			roots[f] = map[string]bool{}
		}
		if roots[f][r] {
			return false
		}
		roots[f][r] = true
		return true
	}
	for f := range w.funcs {
		if w.exported[f] {
			add(f, "api:"+pkg)
		}
	}
	for _, e := range w.edges {
		if e.kind == "go" && w.funcs[e.callee] {
			add(e.callee, "go:"+e.callee)
		}
	}
	for changed := true; changed; {
		changed = false
		for _, e := range w.edges {
			if e.kind == "go" || !w.funcs[e.callee] {
				continue
			}
			for r := range roots[e.caller] {
				if add(e.callee, r) {
					changed = true
				}
			}
		}
	}
	// init-only methods: unexported, value never taken, never a go / defer / callback target, and every
	// call is a method call on an object created in the calling function (constructor) or on the receiver
	// of a caller that is itself init-only.  Their accesses through the receiver happen before the
	// constructor publishes the object, like the constructor's own (rows marked fresh).
	initOnly := map[string]bool{}
	for changed := true; changed; {
		changed = false
		for f, es := range in {
			if initOnly[f] || w.exported[f] || w.taken[f] || strings.Contains(f, "$") || len(es) == 0 {
				continue
			}
			ok := true
			for _, e := range es {
				if e.kind != "call" || strings.Contains(e.caller, "$") || !(e.recvFresh || (e.recvSame && initOnly[e.caller])) {
					ok = false
					break
				}
			}
			if ok {
				initOnly[f] = true
				changed = true
			}
		}
	}
	nInit := 0
	for _, k := range w.order {
		s := w.sites[k]
		if initOnly[s.Fn] && s.onRecv && !s.Fresh {
			s.Fresh = true
			nInit++
		}
	}
	var initFns []string
	for f := range initOnly {
		initFns = append(initFns, f)
	}
	sort.Strings(initFns)
	t.Notes = append(t.Notes, fmt.Sprintf("%s: init-only methods (called only on objects under construction): %s; %d of their sites marked fresh", pkg, strings.Join(initFns, " "), nInit))
	for _, k := range w.order {
		s := w.sites[k]
		h := s.held.union(eff[s.Fn])
		s.HeldW, s.HeldR = h.w, h.r
		for r := range roots[s.Fn] {
			s.Roots = append(s.Roots, r)
		}
		sort.Strings(s.Roots)
		t.Sites = append(t.Sites, s.Site)
	}
	t.Notes = append(t.Notes, fmt.Sprintf("%s: %d functions (incl. literals), %d call edges, %d go statements, %d function values taken, %d indirect call sites",
		pkg, len(w.funcs), len(w.edges), len(w.goRoots), len(w.taken), len(w.indirect)))
	return nil
}

// ---------------------------------------------------------------- verdicts (mirrored by Model/LocksetTable.lean)

// Verdict of one field: how the table says it is protected.
//
//	atomic       every access goes through sync/atomic or an atomic.Value
//	sync         a sync.Once / WaitGroup / Cond (synchronises by itself)
//	readonly     no write outside constructors
//	protected L  every write holds L exclusively and every read holds L (either mode); L belongs to the same struct
//	foreign L    the same with a mutex of another struct (object identity not covered by the theorem)
//	candidate    none of these: some pair of accesses, one of them a write, shares no mutex
type Verdict struct {
	Kind string
	Lock string
}

func (v Verdict) String() string {
	if v.Lock != "" {
		return v.Kind + " " + v.Lock
	}
	return v.Kind
}

func StructOf(name string) string {
	if i := strings.LastIndex(name, "."); i >= 0 {
		return name[:i]
	}
	return name
}

func (t *Table) SitesOf(field string) []Site {
	var out []Site
	for _, s := range t.Sites {
		if s.Field == field {
			out = append(out, s)
		}
	}
	return out
}

func (t *Table) Verdict(field string) Verdict {
	var live []Site
	for _, s := range t.SitesOf(field) {
		if !s.Fresh {
			live = append(live, s)
		}
	}
	plain, writes, atomics, syncs := 0, 0, 0, 0
	for _, s := range live {
		switch {
		case s.Kind == "read":
			plain++
		case s.Kind == "write":
			plain++
			writes++
		case s.Kind == "atomic":
			atomics++
		default:
			syncs++
		}
	}
	switch {
	case plain == 0 && atomics == 0 && syncs > 0:
		return Verdict{Kind: "sync"}
	case plain == 0 && atomics > 0:
		return Verdict{Kind: "atomic"}
	case atomics > 0:
		return Verdict{Kind: "candidate"} // atomic and plain accesses mixed
	case writes == 0:
		return Verdict{Kind: "readonly"}
	}
	// candidate locks: those held at the first write
	var cands []string
	for _, s := range live {
		if s.Kind == "write" {
			cands = s.HeldW
			break
		}
	}
	own, foreign := "", ""
	for _, l := range cands {
		ok := true
		for _, s := range live {
			switch s.Kind {
			case "write":
				ok = ok && has(s.HeldW, l)
			case "read":
				ok = ok && (has(s.HeldW, l) || has(s.HeldR, l))
			}
		}
		if ok {
			if StructOf(l) == StructOf(field) {
				if own == "" {
					own = l
				}
			} else if foreign == "" {
				foreign = l
			}
		}
	}
	switch {
	case own != "":
		return Verdict{"protected", own}
	case foreign != "":
		return Verdict{"foreign", foreign}
	}
	return Verdict{Kind: "candidate"}
}

// At returns the sites at a source position.
func (t *Table) At(file string, line int) []Site {
	var out []Site
	for _, s := range t.Sites {
		if s.File == file && s.Line == line {
			out = append(out, s)
		}
	}
	return out
}

// UnprotectedPair mirrors Lockset.unprotectedPair of Model/LocksetTable.lean: a is a write (or an atomic
// access next to a plain one), b any access, and the two rows share no mutex.
func UnprotectedPair(a, b Site) bool {
	aW, aA := a.Kind == "write", a.Kind == "atomic"
	bR, bW, bA := b.Kind == "read", b.Kind == "write", b.Kind == "atomic"
	if !(aW || (aA && (bR || bW))) || !(bR || bW || bA) || (aA && bA) {
		return false
	}
	for _, l := range a.HeldW {
		if has(b.HeldW, l) || has(b.HeldR, l) {
			return false
		}
	}
	for _, l := range b.HeldW {
		if has(a.HeldR, l) {
			return false
		}
	}
	return true
}
