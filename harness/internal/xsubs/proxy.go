// Package xsubs holds the helpers of the subscription properties C26/C27/C28:
// a cutting TCP proxy that counts the service requests it forwards, the real
// gopcua server started in-process with writable variable nodes, a scripted
// server with asynchronous replies, and an event recorder for the verifPoint
// hooks of package opcua.
package xsubs

import (
	"encoding/binary"
	"io"
	"net"
	"sync"
	"time"
)

// Proxy forwards TCP connections to a backend.  Cut() closes every open
// connection pair (both directions at once: the client sees EOF, the server
// sees EOF); SetBackend switches where new connections go.  It parses the
// UACP framing of the client→server direction (security policy None only) and
// counts the MSG chunks per service type id.
type Proxy struct {
	l       net.Listener
	mu      sync.Mutex
	backend string
	pairs   map[int][2]net.Conn
	next    int
	counts  map[uint16]int // final MSG chunks client→server per request type id
	epoch   int            // number of Cut() calls so far
	byEpoch map[int]map[uint16]int
	hold    bool // refuse new connections while true
	Dials   int
}

func NewProxy(backend string) (*Proxy, error) {
	l, err := net.Listen("tcp", "127.0.0.1:0")
	if err != nil {
		return nil, err
	}
	p := &Proxy{l: l, backend: backend, pairs: map[int][2]net.Conn{}, counts: map[uint16]int{}, byEpoch: map[int]map[uint16]int{}}
	go p.accept()
	return p, nil
}

func (p *Proxy) Addr() string { return p.l.Addr().String() }
func (p *Proxy) URL() string  { return "opc.tcp://" + p.Addr() }

func (p *Proxy) SetBackend(addr string) {
	p.mu.Lock()
	p.backend = addr
	p.mu.Unlock()
}

// Hold makes the proxy refuse (accept and close at once) new connections.
func (p *Proxy) Hold(on bool) {
	p.mu.Lock()
	p.hold = on
	p.mu.Unlock()
}

func (p *Proxy) Close() {
	p.l.Close()
	p.Cut()
}

// Cut closes all open connections.
func (p *Proxy) Cut() {
	p.mu.Lock()
	ps := p.pairs
	p.pairs = map[int][2]net.Conn{}
	p.epoch++
	p.mu.Unlock()
	for _, c := range ps {
		c[0].Close()
		c[1].Close()
	}
}

// Count returns how many requests of the given type id were forwarded in
// total.
func (p *Proxy) Count(typeID uint16) int {
	p.mu.Lock()
	defer p.mu.Unlock()
	return p.counts[typeID]
}

// CountSinceCut returns how many requests of the type were forwarded on
// connections opened after the latest Cut().
func (p *Proxy) CountSinceCut(typeID uint16) int {
	p.mu.Lock()
	defer p.mu.Unlock()
	return p.byEpoch[p.epoch][typeID]
}

// Open is the number of open connection pairs.
func (p *Proxy) Open() int {
	p.mu.Lock()
	defer p.mu.Unlock()
	return len(p.pairs)
}

func (p *Proxy) accept() {
	for {
		c, err := p.l.Accept()
		if err != nil {
			return
		}
		p.mu.Lock()
		backend, hold := p.backend, p.hold
		p.Dials++
		p.mu.Unlock()
		if hold {
			c.Close()
			continue
		}
		b, err := net.DialTimeout("tcp", backend, 2*time.Second)
		if err != nil {
			c.Close()
			continue
		}
		p.mu.Lock()
		id := p.next
		p.next++
		p.pairs[id] = [2]net.Conn{c, b}
		epoch := p.epoch
		p.mu.Unlock()
		done := func() {
			p.mu.Lock()
			delete(p.pairs, id)
			p.mu.Unlock()
			c.Close()
			b.Close()
		}
		go func() { p.pumpCount(c, b, epoch); done() }()
		go func() { io.Copy(c, b); done() }()
	}
}

// pumpCount copies src→dst chunk by chunk and counts MSG chunks.
func (p *Proxy) pumpCount(src, dst net.Conn, epoch int) {
	hdr := make([]byte, 8)
	for {
		if _, err := io.ReadFull(src, hdr); err != nil {
			return
		}
		n := int(binary.LittleEndian.Uint32(hdr[4:]))
		if n < 8 || n > 1<<24 {
			return
		}
		body := make([]byte, n-8)
		if _, err := io.ReadFull(src, body); err != nil {
			return
		}
		if string(hdr[:3]) == "MSG" && hdr[3] == 'F' && len(body) >= 20 {
			// channel id, token id, sequence number, request id, then the type id
			t := body[16:]
			var tid uint16
			switch t[0] {
			case 0x01: // four byte node id
				tid = binary.LittleEndian.Uint16(t[2:4])
			case 0x00: // two byte node id
				tid = uint16(t[1])
			}
			p.mu.Lock()
			p.counts[tid]++
			if p.byEpoch[epoch] == nil {
				p.byEpoch[epoch] = map[uint16]int{}
			}
			p.byEpoch[epoch][tid]++
			p.mu.Unlock()
		}
		if _, err := dst.Write(append(hdr[:8:8], body...)); err != nil {
			return
		}
	}
}
