package xsubs

import (
	"fmt"
	"sync"
	"time"
)

// Event is one verifPoint hit of package opcua.
type Event struct {
	Name string
	Args []interface{}
	At   time.Time
}

// Recorder collects verifPoint events and lets a test block a goroutine at a
// named point (a gate) until it is released.
type Recorder struct {
	mu     sync.Mutex
	events []Event
	gates  map[string]chan struct{}
	hits   map[string]int
	// OnEvent, when set, is called (outside the lock) for every event before
	// a gate is applied.
	OnEvent func(name string, args []interface{})
}

func NewRecorder() *Recorder {
	return &Recorder{gates: map[string]chan struct{}{}, hits: map[string]int{}}
}

// Hook is the function to pass to opcua.VerifSetHook.
func (r *Recorder) Hook(name string, args ...interface{}) {
	cp := make([]interface{}, len(args))
	copy(cp, args)
	r.mu.Lock()
	r.events = append(r.events, Event{name, cp, time.Now()})
	r.hits[name]++
	g := r.gates[name]
	cb := r.OnEvent
	r.mu.Unlock()
	if cb != nil {
		cb(name, cp)
	}
	if g != nil {
		<-g
	}
}

// Gate makes every goroutine reaching the point block until Release(name).
func (r *Recorder) Gate(name string) {
	r.mu.Lock()
	if r.gates[name] == nil {
		r.gates[name] = make(chan struct{})
	}
	r.mu.Unlock()
}

// Release opens the gate for good.
func (r *Recorder) Release(name string) {
	r.mu.Lock()
	g := r.gates[name]
	delete(r.gates, name)
	r.mu.Unlock()
	if g != nil {
		close(g)
	}
}

func (r *Recorder) ReleaseAll() {
	r.mu.Lock()
	gs := r.gates
	r.gates = map[string]chan struct{}{}
	r.mu.Unlock()
	for _, g := range gs {
		close(g)
	}
}

// Hits is the number of times the point was reached.
func (r *Recorder) Hits(name string) int {
	r.mu.Lock()
	defer r.mu.Unlock()
	return r.hits[name]
}

// Events returns a copy of the log.
func (r *Recorder) Events() []Event {
	r.mu.Lock()
	defer r.mu.Unlock()
	return append([]Event(nil), r.events...)
}

// Mark is the current length of the log (to slice Events() later).
func (r *Recorder) Mark() int {
	r.mu.Lock()
	defer r.mu.Unlock()
	return len(r.events)
}

// WaitHits waits until the point has been hit at least n times.
func (r *Recorder) WaitHits(name string, n int, d time.Duration) bool {
	return WaitFor(d, func() bool { return r.Hits(name) >= n })
}

// WaitFor polls cond every 2 ms for at most d.
func WaitFor(d time.Duration, cond func() bool) bool {
	end := time.Now().Add(d)
	for {
		if cond() {
			return true
		}
		if time.Now().After(end) {
			return false
		}
		time.Sleep(2 * time.Millisecond)
	}
}

func (e Event) String() string {
	if len(e.Args) == 0 {
		return e.Name
	}
	return fmt.Sprintf("%s%v", e.Name, e.Args)
}

// LoopStarted waits until the client's publish loop has consumed the pause token
// NewClient queued (lens reports len(pausech)).  Subscribing before that can run
// into the lost wake-up recorded as C27.pause-overtakes-resume, which would only
// disturb the set-up of the other properties' scenarios.
func LoopStarted(lens func() (int, int, int, int)) bool {
	return WaitFor(3*time.Second, func() bool { p, _, _, _ := lens(); return p == 0 })
}
