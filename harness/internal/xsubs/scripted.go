package xsubs

import (
	"context"
	mrand "math/rand"
	"sync"
	"sync/atomic"
	"time"

	"github.com/gopcua/opcua/id"
	"github.com/gopcua/opcua/ua"
	"github.com/gopcua/opcua/uacp"
	"github.com/gopcua/opcua/uasc"
)

// Scripted is a minimal OPC-UA server built on the real uacp/uasc packages
// (policy None) whose service answers are decided by a handler.  Unlike a
// request/response loop it can leave a request unanswered and reply later
// (PublishRequests are answered asynchronously by real servers).
type Scripted struct {
	// Handler decides the answer; returning nil means "no answer now" — the
	// handler (or the test) may call Reply later.  A nil Handler uses Default.
	Handler func(s *Scripted, c *SConn, reqID uint32, req ua.Request) ua.Response

	l      *uacp.Listener
	cancel func()
	chanID uint32
	mu     sync.Mutex
	conns  []*SConn
	subID  uint32
	itemID uint32
}

// SConn is one accepted connection.
type SConn struct {
	SC   *uasc.SecureChannel
	conn *uacp.Conn
	ctx  context.Context
	mu   sync.Mutex
}

// Reply sends a response for the request id.
func (c *SConn) Reply(reqID uint32, resp ua.Response) error {
	c.mu.Lock()
	defer c.mu.Unlock()
	return c.SC.SendResponseWithContext(c.ctx, reqID, resp)
}

func StartScripted(h func(s *Scripted, c *SConn, reqID uint32, req ua.Request) ua.Response) (*Scripted, error) {
	ctx, cancel := context.WithCancel(context.Background())
	l, err := uacp.Listen(ctx, "opc.tcp://127.0.0.1:0", nil)
	if err != nil {
		cancel()
		return nil, err
	}
	s := &Scripted{Handler: h, l: l, cancel: cancel, chanID: 2000}
	go s.accept(ctx)
	return s, nil
}

func (s *Scripted) URL() string  { return "opc.tcp://" + s.l.Addr().String() }
func (s *Scripted) Addr() string { return s.l.Addr().String() }

func (s *Scripted) Close() {
	s.cancel()
	s.l.Close()
	s.mu.Lock()
	cs := s.conns
	s.mu.Unlock()
	for _, c := range cs {
		c.SC.Close()
	}
}

// DropConns closes every open connection (the clients see EOF); the listener
// keeps accepting new ones.
func (s *Scripted) DropConns() {
	s.mu.Lock()
	cs := s.conns
	s.conns = nil
	s.mu.Unlock()
	for _, c := range cs {
		c.conn.Close()
	}
}

func (s *Scripted) accept(ctx context.Context) {
	for {
		c, err := s.l.Accept(ctx)
		if err != nil {
			if ctx.Err() != nil {
				return
			}
			if _, ok := err.(interface{ Temporary() bool }); ok {
				time.Sleep(time.Millisecond)
				continue
			}
			return
		}
		go s.serve(ctx, c)
	}
}

func (s *Scripted) serve(ctx context.Context, c *uacp.Conn) {
	defer c.Close()
	cfg := &uasc.Config{
		SecurityPolicyURI: ua.SecurityPolicyURINone,
		SecurityMode:      ua.MessageSecurityModeNone,
		Lifetime:          uint32(time.Hour / time.Millisecond),
	}
	cid := atomic.AddUint32(&s.chanID, 1)
	errch := make(chan error, 8)
	sc, err := uasc.NewServerSecureChannel("", c, cfg, errch, cid, uint32(mrand.Int31n(1023)+1), cid+7)
	if err != nil {
		return
	}
	conn := &SConn{SC: sc, conn: c, ctx: ctx}
	s.mu.Lock()
	s.conns = append(s.conns, conn)
	s.mu.Unlock()
	for {
		if ctx.Err() != nil {
			return
		}
		msg := sc.Receive(ctx)
		if msg.Err != nil {
			return
		}
		req := msg.Request()
		if req == nil {
			continue
		}
		var resp ua.Response
		if s.Handler != nil {
			resp = s.Handler(s, conn, msg.RequestID, req)
		} else {
			resp = s.Default(req)
		}
		if resp == nil {
			continue
		}
		if err := conn.Reply(msg.RequestID, resp); err != nil {
			return
		}
	}
}

// Hdr builds a response header.
func Hdr(req ua.Request, code ua.StatusCode) *ua.ResponseHeader {
	return &ua.ResponseHeader{
		Timestamp:          time.Now(),
		RequestHandle:      req.Header().RequestHandle,
		ServiceResult:      code,
		ServiceDiagnostics: &ua.DiagnosticInfo{},
		StringTable:        []string{},
		AdditionalHeader:   ua.NewExtensionObject(nil),
	}
}

// Fault is a ServiceFault with the given status.
func Fault(req ua.Request, code ua.StatusCode) ua.Response {
	return &ua.ServiceFault{ResponseHeader: Hdr(req, code)}
}

// Default answers like a small well-behaved server: sessions, namespace array
// read, subscriptions and monitored items are accepted; PublishRequests are
// left unanswered; everything else is BadServiceUnsupported.
func (s *Scripted) Default(r ua.Request) ua.Response {
	switch req := r.(type) {
	case *ua.CreateSessionRequest:
		return &ua.CreateSessionResponse{
			ResponseHeader:        Hdr(r, ua.StatusOK),
			SessionID:             ua.NewNumericNodeID(1, 4711),
			AuthenticationToken:   ua.NewNumericNodeID(1, 4712),
			RevisedSessionTimeout: 600000,
			ServerNonce:           make([]byte, 32),
			ServerSignature:       &ua.SignatureData{},
			ServerEndpoints:       []*ua.EndpointDescription{},
		}
	case *ua.ActivateSessionRequest:
		return &ua.ActivateSessionResponse{ResponseHeader: Hdr(r, ua.StatusOK), ServerNonce: make([]byte, 32)}
	case *ua.CloseSessionRequest:
		return &ua.CloseSessionResponse{ResponseHeader: Hdr(r, ua.StatusOK)}
	case *ua.ReadRequest:
		res := make([]*ua.DataValue, len(req.NodesToRead))
		for i, n := range req.NodesToRead {
			var v *ua.Variant
			if n.NodeID != nil && n.NodeID.Namespace() == 0 && n.NodeID.IntID() == id.Server_NamespaceArray {
				v = ua.MustVariant([]string{"http://opcfoundation.org/UA/"})
			} else {
				v = ua.MustVariant(int32(42))
			}
			res[i] = &ua.DataValue{EncodingMask: ua.DataValueValue, Value: v}
		}
		return &ua.ReadResponse{ResponseHeader: Hdr(r, ua.StatusOK), Results: res}
	case *ua.CreateSubscriptionRequest:
		return &ua.CreateSubscriptionResponse{
			ResponseHeader:            Hdr(r, ua.StatusOK),
			SubscriptionID:            atomic.AddUint32(&s.subID, 1),
			RevisedPublishingInterval: req.RequestedPublishingInterval,
			RevisedLifetimeCount:      req.RequestedLifetimeCount,
			RevisedMaxKeepAliveCount:  req.RequestedMaxKeepAliveCount,
		}
	case *ua.CreateMonitoredItemsRequest:
		res := make([]*ua.MonitoredItemCreateResult, len(req.ItemsToCreate))
		for i := range res {
			res[i] = &ua.MonitoredItemCreateResult{StatusCode: ua.StatusOK, MonitoredItemID: atomic.AddUint32(&s.itemID, 1), RevisedQueueSize: 1, FilterResult: ua.NewExtensionObject(nil)}
		}
		return &ua.CreateMonitoredItemsResponse{ResponseHeader: Hdr(r, ua.StatusOK), Results: res, DiagnosticInfos: []*ua.DiagnosticInfo{}}
	case *ua.DeleteSubscriptionsRequest:
		res := make([]ua.StatusCode, len(req.SubscriptionIDs))
		return &ua.DeleteSubscriptionsResponse{ResponseHeader: Hdr(r, ua.StatusOK), Results: res, DiagnosticInfos: []*ua.DiagnosticInfo{}}
	case *ua.PublishRequest:
		return nil
	}
	return Fault(r, ua.StatusBadServiceUnsupported)
}

// DataResponse builds a PublishResponse carrying one data change (or, with
// ndata == 0, a keep-alive).
func DataResponse(req ua.Request, subID, seq uint32, ndata int, results []ua.StatusCode, handle uint32, value int32) *ua.PublishResponse {
	eos := []*ua.ExtensionObject{}
	for i := 0; i < ndata; i++ {
		dcn := &ua.DataChangeNotification{
			MonitoredItems: []*ua.MonitoredItemNotification{{ClientHandle: handle,
				Value: &ua.DataValue{EncodingMask: ua.DataValueValue, Value: ua.MustVariant(value)}}},
			DiagnosticInfos: []*ua.DiagnosticInfo{},
		}
		eo := ua.NewExtensionObject(dcn)
		eo.UpdateMask()
		eos = append(eos, eo)
	}
	if results == nil {
		results = []ua.StatusCode{}
	}
	return &ua.PublishResponse{
		ResponseHeader:           Hdr(req, ua.StatusOK),
		SubscriptionID:           subID,
		AvailableSequenceNumbers: []uint32{},
		NotificationMessage:      &ua.NotificationMessage{SequenceNumber: seq, PublishTime: time.Now(), NotificationData: eos},
		Results:                  results,
		DiagnosticInfos:          []*ua.DiagnosticInfo{},
	}
}
